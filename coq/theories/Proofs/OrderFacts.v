(* Proofs/OrderFacts.v — the derived orders are strict total orders: str_cmp (String/Identifier Ord),
   value_cmp (derived Ord of graph::Value); insertion sort and BTreeSet::insert keep lists sorted. *)
From TSG Require Import Model.Base Model.Value Proofs.BaseFacts.
From Coq Require Import Sorted Permutation.

(* ---------- generic list_cmp facts ---------- *)
Section ListCmp.
  Context {A : Type} (cmp : A -> A -> comparison).

  Lemma list_cmp_antisym_F (a : list A) :
    Forall (fun x => forall y, cmp y x = CompOpp (cmp x y)) a ->
    forall b, list_cmp cmp b a = CompOpp (list_cmp cmp a b).
  Proof.
    induction 1 as [|x a Hx Ha IH]; intros [|y b]; cbn [list_cmp CompOpp]; try reflexivity.
    rewrite Hx. destruct (cmp x y); cbn [CompOpp]; auto.
  Qed.

  Lemma list_cmp_trans_F (a : list A) :
    (forall x y, cmp x y = Eq -> x = y) ->
    Forall (fun x => forall y z, cmp x y = Lt -> cmp y z = Lt -> cmp x z = Lt) a ->
    forall b c, list_cmp cmp a b = Lt -> list_cmp cmp b c = Lt -> list_cmp cmp a c = Lt.
  Proof.
    intros Heq. induction 1 as [|x a Hx Ha IH]; intros [|y b] [|z c]; cbn [list_cmp]; try congruence.
    destruct (cmp x y) eqn:Exy; try discriminate.
    - apply Heq in Exy; subst y. destruct (cmp x z) eqn:Exz; try congruence. apply IH.
    - destruct (cmp y z) eqn:Eyz; try discriminate.
      + apply Heq in Eyz; subst z. rewrite Exy. reflexivity.
      + rewrite (Hx _ _ Exy Eyz). reflexivity.
  Qed.
End ListCmp.

(* ---------- strings ---------- *)
Lemma str_cmp_antisym a b : str_cmp b a = CompOpp (str_cmp a b).
Proof.
  apply list_cmp_antisym_F. apply Forall_forall. intros x _ y. apply N.compare_antisym.
Qed.
Lemma str_cmp_trans a b c : str_cmp a b = Lt -> str_cmp b c = Lt -> str_cmp a c = Lt.
Proof.
  apply list_cmp_trans_F.
  - intros x y. apply N.compare_eq.
  - apply Forall_forall. intros x _ y z. rewrite !N.compare_lt_iff. lia.
Qed.
Lemma str_cmp_refl a : str_cmp a a = Eq.
Proof. apply str_cmp_eq; reflexivity. Qed.

Definition str_le (a b : str) : Prop := str_cmp a b <> Gt.
Definition str_lt (a b : str) : Prop := str_cmp a b = Lt.

Lemma str_le_trans a b c : str_le a b -> str_le b c -> str_le a c.
Proof.
  unfold str_le. intros H1 H2.
  destruct (str_cmp a b) eqn:E1; try congruence.
  - apply str_cmp_eq in E1; subst; assumption.
  - destruct (str_cmp b c) eqn:E2; try congruence.
    + apply str_cmp_eq in E2; subst. congruence.
    + rewrite (str_cmp_trans _ _ _ E1 E2). discriminate.
Qed.
Lemma str_ltb_false_le a b : str_ltb a b = false -> str_le b a.
Proof.
  unfold str_ltb, str_le. rewrite (str_cmp_antisym a b). destruct (str_cmp a b); cbn; congruence.
Qed.
Lemma str_ltb_true_le a b : str_ltb a b = true -> str_le a b.
Proof. unfold str_ltb, str_le. destruct (str_cmp a b); congruence. Qed.

(* ---------- insertion sort (sort_by / sort_alist) ---------- *)
Section Sort.
  Context {A : Type} (lt : A -> A -> bool).
  Lemma insert_sorted_perm x l : Permutation (x :: l) (insert_sorted lt x l).
  Proof.
    induction l as [|y l IH]; cbn [insert_sorted]; [reflexivity|].
    destruct (lt x y); [reflexivity|]. rewrite perm_swap. constructor. exact IH.
  Qed.
  Lemma sort_by_perm l : Permutation l (sort_by lt l).
  Proof.
    induction l as [|x l IH]; cbn [sort_by fold_right]; [constructor|].
    rewrite <- insert_sorted_perm. constructor. exact IH.
  Qed.
  Lemma sort_by_In x l : In x (sort_by lt l) <-> In x l.
  Proof. split; apply Permutation_in; [symmetry|]; apply sort_by_perm. Qed.
End Sort.

Definition key_le {V} (a b : ident * V) : Prop := str_le (fst a) (fst b).

Lemma insert_alist_sorted {V} (x : ident * V) l :
  StronglySorted key_le l ->
  StronglySorted key_le (insert_sorted (fun a b => str_ltb (fst a) (fst b)) x l).
Proof.
  induction 1 as [|y l Hs IH Hall]; cbn [insert_sorted].
  - repeat constructor.
  - match goal with |- context [if ?c then _ else _] => destruct c eqn:E end.
    + constructor; [constructor; assumption|]. constructor.
      * apply str_ltb_true_le; assumption.
      * eapply Forall_impl; [|exact Hall]. intros z Hz. eapply str_le_trans; [apply str_ltb_true_le; eassumption|exact Hz].
    + constructor; [exact IH|]. apply Forall_forall. intros z Hz.
      eapply Permutation_in in Hz; [|symmetry; apply insert_sorted_perm].
      destruct Hz as [<-|Hz]; [apply str_ltb_false_le; assumption|].
      rewrite Forall_forall in Hall. auto.
Qed.
Lemma sort_alist_sorted {V} (l : list (ident * V)) : StronglySorted key_le (sort_alist l).
Proof.
  unfold sort_alist, sort_by. induction l as [|x l IH]; cbn [fold_right]; [constructor|].
  apply insert_alist_sorted. exact IH.
Qed.
Lemma sort_alist_perm {V} (l : list (ident * V)) : Permutation l (sort_alist l).
Proof. apply sort_by_perm. Qed.

(* with unique names the order is strict *)
Lemma sorted_nodup_strict {V} (l : list (ident * V)) :
  StronglySorted key_le l -> NoDup (map fst l) -> StronglySorted str_lt (map fst l).
Proof.
  induction 1 as [|x l Hs IH Hall]; cbn [map]; intros Hnd; [constructor|].
  inversion Hnd as [|? ? Hnotin Hnd']; subst. constructor; [auto|].
  apply Forall_forall. intros k Hk. apply in_map_iff in Hk. destruct Hk as (y & <- & Hy).
  rewrite Forall_forall in Hall. specialize (Hall _ Hy). unfold key_le, str_le in Hall. unfold str_lt.
  destruct (str_cmp (fst x) (fst y)) eqn:E; try congruence.
  apply str_cmp_eq in E. exfalso. apply Hnotin. rewrite E. apply in_map. assumption.
Qed.

(* ---------- values ---------- *)
Lemma bool_cmp_antisym a b : bool_cmp b a = CompOpp (bool_cmp a b).
Proof. destruct a, b; reflexivity. Qed.

Lemma value_cmp_antisym a : forall b, value_cmp b a = CompOpp (value_cmp a b).
Proof.
  induction a using value_ind'; intros w; destruct w; try reflexivity.
  - apply bool_cmp_antisym.
  - apply N.compare_antisym.
  - apply str_cmp_antisym.
  - rewrite !value_cmp_list. apply list_cmp_antisym_F. assumption.
  - rewrite !value_cmp_set. apply list_cmp_antisym_F. assumption.
  - apply N.compare_antisym.
  - apply N.compare_antisym.
Qed.

Lemma value_cmp_Eq_eq x y : value_cmp x y = Eq -> x = y.
Proof. apply value_cmp_eq. Qed.

Lemma value_cmp_trans a : forall b c, value_cmp a b = Lt -> value_cmp b c = Lt -> value_cmp a c = Lt.
Proof.
  induction a using value_ind'; intros v w H1 H2;
    destruct v; try solve [vm_compute in H1; discriminate];
    destruct w; try solve [vm_compute in H2; discriminate]; try reflexivity.
  - destruct b, b0, b1; cbn in *; congruence.
  - change (n ?= n1 = Lt). change (n ?= n0 = Lt) in H1. change (n0 ?= n1 = Lt) in H2.
    rewrite N.compare_lt_iff in *. lia.
  - exact (str_cmp_trans _ _ _ H1 H2).
  - rewrite value_cmp_list in *. eapply list_cmp_trans_F; eauto using value_cmp_Eq_eq.
  - rewrite value_cmp_set in *. eapply list_cmp_trans_F; eauto using value_cmp_Eq_eq.
  - change (n ?= n1 = Lt). change (n ?= n0 = Lt) in H1. change (n0 ?= n1 = Lt) in H2.
    rewrite N.compare_lt_iff in *. lia.
  - change (n ?= n1 = Lt). change (n ?= n0 = Lt) in H1. change (n0 ?= n1 = Lt) in H2.
    rewrite N.compare_lt_iff in *. lia.
Qed.

Definition value_lt (a b : value) : Prop := value_cmp a b = Lt.

Lemma value_lt_irrefl a : ~ value_lt a a.
Proof. unfold value_lt. assert (value_cmp a a = Eq) as -> by (apply value_cmp_eq; reflexivity). discriminate. Qed.

(* ---------- BTreeSet::insert keeps the list strictly sorted ---------- *)
Lemma set_insert_In x l z : In z (set_insert x l) -> z = x \/ In z l.
Proof.
  induction l as [|y l IH]; cbn [set_insert In]; [intuition auto|].
  destruct (value_cmp x y); cbn [In]; intuition auto.
Qed.
Lemma set_insert_In_inv x l z : z = x \/ In z l -> In z (set_insert x l).
Proof.
  induction l as [|y l IH]; cbn [set_insert In]; [intuition auto|].
  destruct (value_cmp x y) eqn:E; cbn [In]; try solve [intuition auto].
  apply value_cmp_eq in E; subst. intuition auto.
Qed.

Lemma set_insert_sorted x l : StronglySorted value_lt l -> StronglySorted value_lt (set_insert x l).
Proof.
  induction 1 as [|y l Hs IH Hall]; cbn [set_insert].
  - repeat constructor.
  - destruct (value_cmp x y) eqn:E.
    + constructor; assumption.
    + constructor; [constructor; assumption|]. constructor; [exact E|].
      eapply Forall_impl; [|exact Hall]. intros z Hz. exact (value_cmp_trans _ _ _ E Hz).
    + constructor; [exact IH|]. apply Forall_forall. intros z Hz. apply set_insert_In in Hz.
      destruct Hz as [->|Hz].
      * unfold value_lt. rewrite value_cmp_antisym, E. reflexivity.
      * rewrite Forall_forall in Hall. auto.
Qed.

Lemma set_of_list_acc l : forall acc, StronglySorted value_lt acc ->
  StronglySorted value_lt (fold_left (fun s x => set_insert x s) l acc) /\
  forall z, In z (fold_left (fun s x => set_insert x s) l acc) <-> In z l \/ In z acc.
Proof.
  induction l as [|x l IH]; intros acc Hs; cbn [fold_left In].
  - split; [assumption|tauto].
  - destruct (IH _ (set_insert_sorted x _ Hs)) as [H1 H2]. split; [exact H1|].
    intros z. rewrite H2. split.
    + intros [H|H]; [tauto|]. apply set_insert_In in H. destruct H; subst; tauto.
    + intros [[->|H]|H]; [right; apply set_insert_In_inv; tauto | tauto | right; apply set_insert_In_inv; tauto].
Qed.

Lemma set_of_list_sorted l : StronglySorted value_lt (set_of_list l).
Proof. apply set_of_list_acc. constructor. Qed.
Lemma set_of_list_In l z : In z (set_of_list l) <-> In z l.
Proof. unfold set_of_list. rewrite (proj2 (set_of_list_acc l [] (SSorted_nil _))). cbn [In]. tauto. Qed.

Lemma sorted_lt_nodup l : StronglySorted value_lt l -> NoDup l.
Proof.
  induction 1 as [|x l Hs IH Hall]; constructor; [|assumption].
  intros Hin. rewrite Forall_forall in Hall. exact (value_lt_irrefl _ (Hall _ Hin)).
Qed.
