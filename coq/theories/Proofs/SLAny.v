(* Proofs/SLAny.v — C02 with an ARBITRARY interleaving of the matches: the composition of the strict-vs-lazy whole-run
   theorems (Proofs/StrictLazy.v, SL2Adequate.v, SLFailStmt.v: lazy run on the blocks IN STRICT ORDER `lmatches_of ms`) with the
   block-order theorems of C08 (Proofs/BlockPermRun.v, ScPermRun.v: any permutation of the blocks of a lazy run).
   Both families are about the SAME driver `run_lazy .. (ms : list (N * qmatch)) g0` over a flat list of (stanza index, match)
   blocks, so no bridge between drivers is needed; the bridges are between the FRAGMENT predicates and the hypotheses on calls:
     - file_ok_pm_ok:       file_ok okfn fl (f_stanzas fl) ms  ->  Forall (pm_ok fl okfn) (lmatches_of ms)
                            (match_ok = block_ok + "the match has its full-match capture");
     - call_ok_pure_fn, call_ok_pure_err_fn:   call_ok call f  ->  pure_fn call f  /\  pure_err_fn call f
                            (take the identity renaming in call_ok).
   With scoped variables the two fragments (`fstmt2` of SL2Stmt.v, `sstmt` of ScPermSim.v) are different inductive predicates, neither
   contains the other; the intersection is stated as the conjunction of the two existing hypotheses
       file_ok2 okfn purev fl (f_stanzas fl) ms   /\   Forall (pm_ok2 fl okfn) (lmatches_of ms).
   The real lazy interpreter executes the blocks in the order tree-sitter reports the matches of the merged query: a list ms' with
   Permutation (lmatches_of ms) ms' (assumption A3 of C03, validated per case by the harness). *)
From Coq Require Import Permutation.
From TSG Require Import Model.Lazy Model.Run Proofs.MonadFacts Proofs.SLExpr Proofs.StrictLazy Proofs.SL2Whole Proofs.SL2Adequate
  Proofs.SLFailGraph Proofs.SLFailExpr Proofs.SLFailStmt
  Proofs.BlockPermRen Proofs.BlockPermGraph Proofs.BlockPermDen Proofs.BlockPermSwap Proofs.BlockPermExec Proofs.BlockPermFuel Proofs.BlockPermRun
  Proofs.ScPermSwap Proofs.ScPermExec Proofs.ScPermRun Proofs.NoPanicStrict Proofs.NoPanicLazy.

(* ---------------- bridges between the hypotheses of the two families ---------------- *)
Lemma call_ok_pure_fn call f : call_ok call f -> pure_fn call f.
Proof. intros H g args v g' E. exact (call_ok_pure call (call_ok call) (fun _ h => h) f g args v g' H E). Qed.
Lemma call_ok_pure_err_fn call f : call_ok call f -> pure_err_fn call f.
Proof.
  intros H g args e E g2. pose proof (H top (fun i => i) g g2 args (valls_top args) (fun i j _ _ h => h)) as H1.
  rewrite E, map_vren_id in H1. exact H1.
Qed.

Lemma file_ok_pm_ok_from okfn fl : forall ms sts pre i, f_stanzas fl = pre ++ sts -> length pre = N.to_nat i ->
  file_ok okfn fl sts ms -> Forall (pm_ok fl okfn) (lmatches_from i ms).
Proof.
  induction ms as [|m ms IH]; intros sts pre i E Hl Hok; cbn [lmatches_from]; [constructor|].
  destruct sts as [|st sts]; cbn [file_ok] in Hok; [contradiction|]. destruct Hok as [Hm Hrest].
  apply Forall_app. split.
  - apply Forall_forall. intros pm Hin. apply in_map_iff in Hin. destruct Hin as (q & <- & Hq).
    rewrite Forall_forall in Hm. destruct (Hm q Hq) as (H1 & H2 & _).
    intros st0 E0. cbn [fst snd] in *. rewrite E, <- Hl, nth_error_app2, Nat.sub_diag in E0 by lia. cbn [nth_error] in E0.
    inversion E0; subst st0. split; assumption.
  - apply (IH sts (pre ++ [st]) (i + 1)); [rewrite <- app_assoc; exact E|rewrite app_length; cbn [length]; lia|exact Hrest].
Qed.
Lemma file_ok_pm_ok okfn fl ms : file_ok okfn fl (f_stanzas fl) ms -> Forall (pm_ok fl okfn) (lmatches_of ms).
Proof. intros H. apply (file_ok_pm_ok_from okfn fl ms (f_stanzas fl) [] 0); [reflexivity|reflexivity|exact H]. Qed.

(* the intersection fragment with scoped variables in the shape of file_ok2: stanza by stanza, every match satisfies BOTH predicates *)
Fixpoint file_ok_any2 (okfn : ident -> Prop) (purev : ident -> bool) (fl : file) (sts : list stanza) (ms : list (list qmatch)) : Prop :=
  match sts, ms with
  | st :: sts', m :: ms' => Forall (fun q => match_ok2 okfn purev fl st q /\ block_ok2 fl okfn st q) m /\ file_ok_any2 okfn purev fl sts' ms'
  | _, [] => True
  | [], _ :: _ => False
  end.
Lemma file_ok_any2_ok2 okfn purev fl : forall sts ms, file_ok_any2 okfn purev fl sts ms -> file_ok2 okfn purev fl sts ms.
Proof.
  induction sts as [|st sts IH]; intros [|m ms] H; cbn [file_ok_any2 file_ok2] in *; try exact H; try exact I.
  destruct H as [Hm Hr]. split; [|apply IH, Hr]. eapply Forall_impl; [|exact Hm]. intros q [Hq _]. exact Hq.
Qed.
Lemma file_ok_any2_pm_ok2_from okfn purev fl : forall ms sts pre i, f_stanzas fl = pre ++ sts -> length pre = N.to_nat i ->
  file_ok_any2 okfn purev fl sts ms -> Forall (pm_ok2 fl okfn) (lmatches_from i ms).
Proof.
  induction ms as [|m ms IH]; intros sts pre i E Hl Hok; cbn [lmatches_from]; [constructor|].
  destruct sts as [|st sts]; cbn [file_ok_any2] in Hok; [contradiction|]. destruct Hok as [Hm Hrest].
  apply Forall_app. split.
  - apply Forall_forall. intros pm Hin. apply in_map_iff in Hin. destruct Hin as (q & <- & Hq).
    rewrite Forall_forall in Hm. destruct (Hm q Hq) as [_ H2].
    intros st0 E0. cbn [fst snd] in *. rewrite E, <- Hl, nth_error_app2, Nat.sub_diag in E0 by lia. cbn [nth_error] in E0.
    inversion E0; subst st0. exact H2.
  - apply (IH sts (pre ++ [st]) (i + 1)); [rewrite <- app_assoc; exact E|rewrite app_length; cbn [length]; lia|exact Hrest].
Qed.
Lemma file_ok_any2_split okfn purev fl ms : file_ok_any2 okfn purev fl (f_stanzas fl) ms ->
  file_ok2 okfn purev fl (f_stanzas fl) ms /\ Forall (pm_ok2 fl okfn) (lmatches_of ms).
Proof.
  intros H. split; [apply file_ok_any2_ok2, H|]. apply (file_ok_any2_pm_ok2_from okfn purev fl ms (f_stanzas fl) [] 0); [reflexivity|reflexivity|exact H].
Qed.

Lemma Forall_perm {A} (P : A -> Prop) l l' : Permutation l l' -> Forall P l -> Forall P l'.
Proof. intros HP H. apply Forall_forall. intros x Hx. rewrite Forall_forall in H. apply H. eapply Permutation_in; [apply Permutation_sym, HP|exact Hx]. Qed.

Section Any.
  Context {rx : Type}.
  Variables (t : tree) (fl : file) (supplied : globals) (regexes : list rx)
            (find : rx -> str -> option (list (option (N * N))))
            (call : ident -> graph -> list value -> res (value * graph)).
  Variable okfn : ident -> Prop.
  Hypothesis Hcall : forall f, okfn f -> call_ok call f.
  Variable g0 : graph.
  Hypothesis Hcl : gclosed (N.of_nat (length g0)) g0.
  Hypothesis Hglob : forall glob, check_globals (f_globals fl) (globals_nested supplied) = Ok glob ->
     forall name v, globals_get glob name = Some v -> vall (fun i => i < N.of_nat (length g0)) v.

  Notation lrun fuel ms := (run_lazy t fl config0 supplied None regexes find call fuel ms g0).
  Notation srun fuel ms := (run_strict t fl config0 supplied None regexes find call fuel ms g0).

  Lemma any_pure : forall f, okfn f -> pure_fn call f. Proof. intros f H. apply call_ok_pure_fn, Hcall, H. Qed.
  Lemma any_perr : forall f, okfn f -> pure_err_fn call f. Proof. intros f H. apply call_ok_pure_err_fn, Hcall, H. Qed.

  (* "Ok with P from some fuel on" gives, by fuel monotonicity, "at EVERY fuel: Ok with P, or out of fuel" *)
  Lemma from_some_fuel_every_fuel (P : lstate -> Prop) ms lfuel0 :
    (forall lfuel, (lfuel0 <= lfuel)%nat -> exists ls pl, lrun lfuel ms = Ok (ls, pl) /\ P ls) ->
    forall lfuel, match lrun lfuel ms with Ok (ls, _) => P ls | OutOfFuel => True | Err _ | Panic _ => False end.
  Proof.
    intros H lfuel. destruct (H (Nat.max lfuel lfuel0) ltac:(lia)) as (ls & pl & E & HP).
    destruct (run_lazy_fuel_mono t fl config0 supplied None regexes find call lfuel (Nat.max lfuel lfuel0) ms g0 ltac:(lia)) as [Eo|Eo].
    - rewrite Eo. exact I.
    - rewrite Eo, E. exact HP.
  Qed.

  (* ---------------- success direction, fragment v1 (no scoped variables) ---------------- *)
  Theorem strict_lazy_iso_any_order_lemma fuel ms s p ms' :
    file_ok okfn fl (f_stanzas fl) ms ->
    srun fuel ms = Ok (s, p) ->
    Permutation (lmatches_of ms) ms' ->
    exists r r', (forall i, r' (r i) = i) /\ (forall i, r (r' i) = i) /\ (forall i, i < N.of_nat (length g0) -> r i = i) /\
      exists lfuel0, forall lfuel, (lfuel0 <= lfuel)%nat -> exists ls pl,
        lrun lfuel ms' = Ok (ls, pl) /\ graph_iso r (s_graph s) (l_graph ls).
  Proof.
    intros Hok Hs HP.
    destruct (strict_lazy_adequate_lemma t fl supplied regexes find call okfn fuel ms g0 s p any_pure Hok Hs) as (f0 & Hf0).
    destruct (Hf0 f0 (le_n _)) as (ls0 & pl0 & E0 & Hg0).
    destruct (lazy_run_perm_fuel t fl supplied regexes find call okfn Hcall g0 Hcl Hglob f0 (lmatches_of ms) ms' ls0 pl0 HP (file_ok_pm_ok okfn fl ms Hok) E0)
      as (r & r' & I1 & I2 & Fx & f1 & Hf1).
    exists r, r'. split; [exact I1|]. split; [exact I2|]. split; [exact Fx|]. exists f1. intros lfuel Hl.
    destruct (Hf1 lfuel Hl) as (ls & pl & E & Hiso). exists ls, pl. split; [exact E|]. rewrite <- Hg0. exact Hiso.
  Qed.
  (* ... at every lazy fuel: never an error, never a panic; Ok with a graph isomorphic to the strict one unless the model runs out of fuel *)
  Theorem strict_lazy_iso_any_order_every_fuel_lemma fuel ms s p ms' :
    file_ok okfn fl (f_stanzas fl) ms ->
    srun fuel ms = Ok (s, p) ->
    Permutation (lmatches_of ms) ms' ->
    exists r r', (forall i, r' (r i) = i) /\ (forall i, r (r' i) = i) /\ (forall i, i < N.of_nat (length g0) -> r i = i) /\
      forall lfuel, match lrun lfuel ms' with
                    | Ok (ls, _) => graph_iso r (s_graph s) (l_graph ls)
                    | OutOfFuel => True
                    | Err _ | Panic _ => False
                    end.
  Proof.
    intros Hok Hs HP. destruct (strict_lazy_iso_any_order_lemma fuel ms s p ms' Hok Hs HP) as (r & r' & I1 & I2 & Fx & f1 & Hf1).
    exists r, r'. split; [exact I1|]. split; [exact I2|]. split; [exact Fx|].
    apply (from_some_fuel_every_fuel (fun ls => graph_iso r (s_graph s) (l_graph ls)) ms' f1 Hf1).
  Qed.

  (* ---------------- success direction, fragment v2 and C08 step 4 together (WITH scoped variables) ---------------- *)
  Theorem strict_lazy_iso_any_order_scoped_lemma (purev : ident -> bool) fuel ms s p ms' :
    file_ok2 okfn purev fl (f_stanzas fl) ms ->
    Forall (pm_ok2 fl okfn) (lmatches_of ms) ->
    srun fuel ms = Ok (s, p) ->
    inh_antichain t fl (s_scoped s) ->
    Permutation (lmatches_of ms) ms' ->
    exists r r', (forall i, r' (r i) = i) /\ (forall i, r (r' i) = i) /\ (forall i, i < N.of_nat (length g0) -> r i = i) /\
      exists lfuel0, forall lfuel, (lfuel0 <= lfuel)%nat -> exists ls pl,
        lrun lfuel ms' = Ok (ls, pl) /\ graph_iso r (s_graph s) (l_graph ls).
  Proof.
    intros Hok Hok2 Hs Hanti HP.
    destruct (strict_lazy_adequate_scoped_lemma t fl supplied regexes find call okfn purev fuel ms g0 s p any_pure Hok Hs Hanti) as (f0 & Hf0).
    destruct (Hf0 f0 (le_n _)) as (ls0 & pl0 & E0 & Hg0).
    destruct (lazy_run_perm_scoped t fl supplied regexes find call okfn Hcall g0 Hcl Hglob f0 (lmatches_of ms) ms' ls0 pl0 HP Hok2 E0)
      as (r & r' & I1 & I2 & Fx & f1 & Hf1).
    exists r, r'. split; [exact I1|]. split; [exact I2|]. split; [exact Fx|]. exists f1. intros lfuel Hl.
    destruct (Hf1 lfuel Hl) as (ls & pl & E & Hiso). exists ls, pl. split; [exact E|]. rewrite <- Hg0. exact Hiso.
  Qed.
  Theorem strict_lazy_iso_any_order_scoped_every_fuel_lemma (purev : ident -> bool) fuel ms s p ms' :
    file_ok2 okfn purev fl (f_stanzas fl) ms ->
    Forall (pm_ok2 fl okfn) (lmatches_of ms) ->
    srun fuel ms = Ok (s, p) ->
    inh_antichain t fl (s_scoped s) ->
    Permutation (lmatches_of ms) ms' ->
    exists r r', (forall i, r' (r i) = i) /\ (forall i, r (r' i) = i) /\ (forall i, i < N.of_nat (length g0) -> r i = i) /\
      forall lfuel, match lrun lfuel ms' with
                    | Ok (ls, _) => graph_iso r (s_graph s) (l_graph ls)
                    | OutOfFuel => True
                    | Err _ | Panic _ => False
                    end.
  Proof.
    intros Hok Hok2 Hs Hanti HP.
    destruct (strict_lazy_iso_any_order_scoped_lemma purev fuel ms s p ms' Hok Hok2 Hs Hanti HP) as (r & r' & I1 & I2 & Fx & f1 & Hf1).
    exists r, r'. split; [exact I1|]. split; [exact I2|]. split; [exact Fx|].
    apply (from_some_fuel_every_fuel (fun ls => graph_iso r (s_graph s) (l_graph ls)) ms' f1 Hf1).
  Qed.

  (* ---------------- failure direction, fragment v1 ----------------
     strict fails with an order-independent error => the lazy run does not succeed for ANY order of the blocks, at any fuel.
     (Composition through the SUCCESS direction of C08 read backwards: a successful run on ms' would give a successful run on the
     strict order from some fuel on, which strict_fail_lazy_fail excludes at every fuel.  lazy_block_order_fail_partial is not used: it
     needs a fuel at which the strict-order run is not OutOfFuel, and there need not be one — strict_fail_lazy_diverges_k2.) *)
  Theorem strict_fail_lazy_fail_any_order_lemma fuel ms e ms' :
    call_graph_ext call ->
    file_ok okfn fl (f_stanzas fl) ms ->
    srun fuel ms = Err e -> order_independent_error e ->
    Permutation (lmatches_of ms) ms' ->
    forall lfuel, match lrun lfuel ms' with Ok _ => False | Err _ | Panic _ | OutOfFuel => True end.
  Proof.
    intros Hext Hok Hs He HP lfuel. destruct (lrun lfuel ms') as [[ls' pl']|e1|x|] eqn:E'; try exact I.
    assert (Hok' : Forall (pm_ok fl okfn) ms') by (eapply Forall_perm; [exact HP|apply file_ok_pm_ok, Hok]).
    destruct (lazy_run_perm_fuel t fl supplied regexes find call okfn Hcall g0 Hcl Hglob lfuel ms' (lmatches_of ms) ls' pl' (Permutation_sym HP) Hok' E')
      as (r & r' & _ & _ & _ & f1 & Hf1).
    destruct (Hf1 f1 (le_n _)) as (ls & pl & E & _).
    pose proof (strict_fail_lazy_fail_lemma t fl supplied regexes find call okfn fuel ms g0 e any_pure any_perr Hext Hok Hs He f1) as H.
    rewrite E in H. exact H.
  Qed.

  Lemma good_lazy_perm sok ms ms' : Permutation ms ms' -> GoodMatchesLazy sok fl ms -> GoodMatchesLazy sok fl ms'.
  Proof. unfold GoodMatchesLazy. apply Forall_perm. Qed.

  (* ... with the no-panic hypotheses: the lazy run in any order IS Err, unless the model runs out of fuel *)
  Theorem strict_fail_lazy_err_any_order_lemma (sok : N -> Prop) fuel ms e ms' :
    call_graph_ext call ->
    file_ok okfn fl (f_stanzas fl) ms ->
    WellFormedFile regexes fl -> GoodMatchesLazy sok fl (lmatches_of ms) -> GoodGlobals sok g0 supplied -> GoodCall sok call ->
    srun fuel ms = Err e -> order_independent_error e ->
    Permutation (lmatches_of ms) ms' ->
    forall lfuel, match lrun lfuel ms' with Err _ | OutOfFuel => True | Ok _ | Panic _ => False end.
  Proof.
    intros Hext Hok Hwf Hm Hg Hgc Hs He HP lfuel.
    pose proof (strict_fail_lazy_fail_any_order_lemma fuel ms e ms' Hext Hok Hs He HP lfuel) as H1.
    pose proof (exec_no_panic_lazy sok t fl config0 supplied None regexes find call lfuel ms' g0 Hwf (good_lazy_perm sok _ _ HP Hm) Hg Hgc) as H2.
    destruct (lrun lfuel ms') as [r|e1|x|]; [contradiction|exact I|exact (H2 x eq_refl)|exact I].
  Qed.
End Any.

(* ---------------- the driver the correspondence harness evaluates ----------------
   `run_one` (Model/Run.v) is what the streams `both_verdict`, `c15_verdict0`, .. evaluate: for ri_lazy = false it is run_strict on the
   per-stanza raw matches `ri_smatches`, for ri_lazy = true it is run_lazy on the raw matches of the MERGED query `ri_lmatches`, both
   at `default_fuel`, with the regex model and the stdlib model as function library.  Assumption A3 (C03): the merged matches are a
   permutation of the per-stanza matches. *)
Section RunOne.
  Variables (t : tree) (r : run_in) (okfn : ident -> Prop) (g0 : graph).
  Hypothesis Hcall : forall f, okfn f -> call_ok (the_call t (ri_tbl r)) f.
  Hypothesis Hcl : gclosed (N.of_nat (length g0)) g0.
  Hypothesis Hglob : forall glob, check_globals (f_globals (ri_file r)) (globals_nested (ri_supplied r)) = Ok glob ->
     forall name v, globals_get glob name = Some v -> vall (fun i => i < N.of_nat (length g0)) v.
  Hypothesis HA3 : Permutation (lmatches_of (ri_smatches r)) (ri_lmatches r).

  Lemma run_one_strict_inv g p : run_one t config0 None (with_lazy r false) g0 = Ok (g, p) ->
    exists s, run_strict t (ri_file r) config0 (ri_supplied r) None (ri_rxs r) rx_captures (the_call t (ri_tbl r)) default_fuel (ri_smatches r) g0 = Ok (s, p) /\ s_graph s = g.
  Proof.
    unfold run_one, with_lazy. cbn [ri_lazy ri_file ri_rxs ri_tbl ri_supplied ri_smatches ri_lmatches].
    destruct (run_strict t (ri_file r) config0 (ri_supplied r) None (ri_rxs r) rx_captures (the_call t (ri_tbl r)) default_fuel (ri_smatches r) g0) as [[s p0]|e|x|]; try discriminate.
    intros H. inversion H; subst. exists s. split; reflexivity.
  Qed.
  Lemma run_one_strict_err e : run_one t config0 None (with_lazy r false) g0 = Err e ->
    run_strict t (ri_file r) config0 (ri_supplied r) None (ri_rxs r) rx_captures (the_call t (ri_tbl r)) default_fuel (ri_smatches r) g0 = Err e.
  Proof.
    unfold run_one, with_lazy. cbn [ri_lazy ri_file ri_rxs ri_tbl ri_supplied ri_smatches ri_lmatches].
    destruct (run_strict t (ri_file r) config0 (ri_supplied r) None (ri_rxs r) rx_captures (the_call t (ri_tbl r)) default_fuel (ri_smatches r) g0) as [[s p0]|e1|x|]; try discriminate.
    intros H. inversion H; subst. reflexivity.
  Qed.
  Lemma run_one_lazy_eq : run_one t config0 None (with_lazy r true) g0 =
    match run_lazy t (ri_file r) config0 (ri_supplied r) None (ri_rxs r) rx_captures (the_call t (ri_tbl r)) default_fuel (ri_lmatches r) g0 with
    | Ok (s, p) => Ok (l_graph s, p) | Err e => Err e | Panic x => Panic x | OutOfFuel => OutOfFuel end.
  Proof. reflexivity. Qed.

  Theorem strict_lazy_iso_run_one_lemma g p :
    file_ok okfn (ri_file r) (f_stanzas (ri_file r)) (ri_smatches r) ->
    run_one t config0 None (with_lazy r false) g0 = Ok (g, p) ->
    exists rn rn', (forall i, rn' (rn i) = i) /\ (forall i, rn (rn' i) = i) /\ (forall i, i < N.of_nat (length g0) -> rn i = i) /\
      match run_one t config0 None (with_lazy r true) g0 with
      | Ok (g', _) => graph_iso rn g g'
      | OutOfFuel => True
      | Err _ | Panic _ => False
      end.
  Proof.
    intros Hok H. destruct (run_one_strict_inv g p H) as (s & Hs & <-).
    destruct (strict_lazy_iso_any_order_every_fuel_lemma t (ri_file r) (ri_supplied r) (ri_rxs r) rx_captures (the_call t (ri_tbl r)) okfn Hcall g0 Hcl Hglob
                default_fuel (ri_smatches r) s p (ri_lmatches r) Hok Hs HA3) as (rn & rn' & I1 & I2 & Fx & Hev).
    exists rn, rn'. split; [exact I1|]. split; [exact I2|]. split; [exact Fx|]. rewrite run_one_lazy_eq. specialize (Hev default_fuel).
    destruct (run_lazy t (ri_file r) config0 (ri_supplied r) None (ri_rxs r) rx_captures (the_call t (ri_tbl r)) default_fuel (ri_lmatches r) g0) as [[ls pl]|e|x|]; exact Hev.
  Qed.
  Theorem strict_lazy_iso_run_one_scoped_lemma (purev : ident -> bool) g p :
    file_ok2 okfn purev (ri_file r) (f_stanzas (ri_file r)) (ri_smatches r) ->
    Forall (pm_ok2 (ri_file r) okfn) (lmatches_of (ri_smatches r)) ->
    (forall s p', run_strict t (ri_file r) config0 (ri_supplied r) None (ri_rxs r) rx_captures (the_call t (ri_tbl r)) default_fuel (ri_smatches r) g0 = Ok (s, p') ->
                  inh_antichain t (ri_file r) (s_scoped s)) ->
    run_one t config0 None (with_lazy r false) g0 = Ok (g, p) ->
    exists rn rn', (forall i, rn' (rn i) = i) /\ (forall i, rn (rn' i) = i) /\ (forall i, i < N.of_nat (length g0) -> rn i = i) /\
      match run_one t config0 None (with_lazy r true) g0 with
      | Ok (g', _) => graph_iso rn g g'
      | OutOfFuel => True
      | Err _ | Panic _ => False
      end.
  Proof.
    intros Hok Hok2 Hanti H. destruct (run_one_strict_inv g p H) as (s & Hs & <-).
    destruct (strict_lazy_iso_any_order_scoped_every_fuel_lemma t (ri_file r) (ri_supplied r) (ri_rxs r) rx_captures (the_call t (ri_tbl r)) okfn Hcall g0 Hcl Hglob
                purev default_fuel (ri_smatches r) s p (ri_lmatches r) Hok Hok2 Hs (Hanti s p Hs) HA3) as (rn & rn' & I1 & I2 & Fx & Hev).
    exists rn, rn'. split; [exact I1|]. split; [exact I2|]. split; [exact Fx|]. rewrite run_one_lazy_eq. specialize (Hev default_fuel).
    destruct (run_lazy t (ri_file r) config0 (ri_supplied r) None (ri_rxs r) rx_captures (the_call t (ri_tbl r)) default_fuel (ri_lmatches r) g0) as [[ls pl]|e|x|]; exact Hev.
  Qed.
  Theorem strict_fail_lazy_fail_run_one_lemma e :
    call_graph_ext (the_call t (ri_tbl r)) ->
    file_ok okfn (ri_file r) (f_stanzas (ri_file r)) (ri_smatches r) ->
    run_one t config0 None (with_lazy r false) g0 = Err e -> order_independent_error e ->
    match run_one t config0 None (with_lazy r true) g0 with Ok _ => False | Err _ | Panic _ | OutOfFuel => True end.
  Proof.
    intros Hext Hok H He. apply run_one_strict_err in H.
    pose proof (strict_fail_lazy_fail_any_order_lemma t (ri_file r) (ri_supplied r) (ri_rxs r) rx_captures (the_call t (ri_tbl r)) okfn Hcall g0 Hcl Hglob
                  default_fuel (ri_smatches r) e (ri_lmatches r) Hext Hok H He HA3 default_fuel) as H1.
    rewrite run_one_lazy_eq.
    destruct (run_lazy t (ri_file r) config0 (ri_supplied r) None (ri_rxs r) rx_captures (the_call t (ri_tbl r)) default_fuel (ri_lmatches r) g0) as [[ls pl]|e1|x|]; exact H1.
  Qed.
End RunOne.
