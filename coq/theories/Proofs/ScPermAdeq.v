(* Proofs/ScPermAdeq.v — C08 WITH scoped variables, part 3: ADEQUACY of the lazy evaluator with respect to the
   reference evaluator `cev`: if `cev n lv = Some v`, then from some fuel on the lazy evaluation of lv returns v,
   on every state that is consistent with the static environment E.  The recursion is on the fuel n of `cev`
   (strong induction): a thunk is forced at the MINIMAL fuel m of its body, so the thunk itself — marked as being
   forced — has no value at fuel m, and every location the body's evaluation visits has a value at a fuel <= m:
   the evaluation never meets a thunk that is being forced (`blocked`).  This replaces the "earlier locations
   only" argument of Proofs/SLForce.v, which fails when a reader precedes its definer. *)
From TSG Require Import Model.Lazy Proofs.BaseFacts Proofs.Containers Proofs.MonadFacts Proofs.SLGraph Proofs.SLForce Proofs.SLExpr Proofs.SLConv Proofs.SLStmt
  Proofs.Scoped Proofs.OrderFacts Proofs.BlockPermRen Proofs.BlockPermSim Proofs.BlockPermDen Proofs.ScPermCbn Proofs.ScPermSound.

Definition wprev (x : list (elem_key * stmt_ctx)) (s : lstate) : lstate :=
  {| l_graph := l_graph s; l_locals := l_locals s; l_store := l_store s; l_scoped := l_scoped s; l_edges := l_edges s;
     l_attrs := l_attrs s; l_prints := l_prints s; l_params := l_params s; l_prev := x |}.

Section Adeq.
  Variables (t : tree) (fl : file) (call : ident -> graph -> list value -> res (value * graph)).
  Variable okfn : ident -> Prop.
  Hypothesis Hcall : forall f, okfn f -> call_ok call f.
  Variable E : senv.
  Hypothesis HE : env_ok okfn E.
  (* calls of okfn only see their arguments *)
  Lemma Hpure f g vs v g1 : okfn f -> call f [] vs = Ok (v, g1) -> call f g vs = Ok (v, g).
  Proof. intros Hf H. apply (call_ok_pure call okfn Hcall f [] vs v g1 Hf H). Qed.

  Notation cev := (cev t fl call E).
  Notation cevv := (cevv t fl call E).
  Notation eval_lv' := (eval_lv t fl call).
  Notation force_thunk' := (force_thunk t fl call).
  Notation thunk_inv := (thunk_inv t fl call E).

  Definition acell_inv (name : ident) (c : option scoped_values) : Prop :=
    match c with
    | Some (SVUnforced ps) => scopes_lit ps /\ cell_val (SVUnforced ps) = se_cell E name
    | Some SVForcing => False
    | Some (SVForced m) => se_cell E name = Some m
    | None => se_cell E name = None
    end.
  Definition ainv (s : lstate) : Prop :=
    (forall i th, nth_error (l_store s) i = Some th -> thunk_inv i th) /\
    (forall i b, se_body E i = Some b -> exists th, nth_error (l_store s) i = Some th) /\
    (forall name, acell_inv name (alist_get name (l_scoped s))).
  Definition forcing (s : lstate) (i : nat) : Prop := exists th, nth_error (l_store s) i = Some th /\ th_state th = TForcing.
  Definition blocked (n : nat) (s : lstate) : Prop := forall i, forcing s i -> cev n (LVar (N.of_nat i)) = None.
  Definition same_forcing (s s' : lstate) : Prop := forall i, forcing s' i <-> forcing s i.

  Definition apost {A} (a : A) (s : lstate) : A -> lstate -> polls -> Prop :=
    fun a' s' p' => a' = a /\ nob p' /\ ainv s' /\ keep2 s s' /\ same_forcing s s'.
  Definition adA (n : nat) : Prop := forall lv v s p, cev n lv = Some v -> lvok okfn lv -> ainv s -> blocked n s -> nob p ->
    convP (fun F => eval_lv' F lv s p) (apost v s).

  Lemma same_forcing_refl s : same_forcing s s. Proof. intros i. reflexivity. Qed.
  Lemma same_forcing_trans a b c : same_forcing a b -> same_forcing b c -> same_forcing a c.
  Proof. intros H1 H2 i. rewrite (H2 i). apply H1. Qed.
  Lemma blocked_mono n n' s : (n <= n')%nat -> blocked n' s -> blocked n s.
  Proof. intros Hle H i Hi. eapply cev_none_mono; [exact Hle|apply H, Hi]. Qed.
  Lemma blocked_same n s s' : same_forcing s s' -> blocked n s -> blocked n s'.
  Proof. intros Hf H i Hi. apply H, Hf, Hi. Qed.
  Lemma apost_here {A} (a : A) s p : ainv s -> nob p -> apost a s a s p.
  Proof. intros Hs Hb. split; [reflexivity|]. split; [exact Hb|]. split; [exact Hs|]. split; [apply keep2_refl|apply same_forcing_refl]. Qed.

  (* states that differ in fields the invariants do not mention *)
  Lemma ainv_same s s' : l_store s' = l_store s -> l_scoped s' = l_scoped s -> ainv s -> ainv s'.
  Proof. intros H1 H2 (A & B & C). split; [rewrite H1; exact A|]. split; [rewrite H1; exact B|rewrite H2; exact C]. Qed.
  Lemma forcing_same_store s s' : l_store s' = l_store s -> same_forcing s s'.
  Proof. intros H i. unfold forcing. rewrite H. reflexivity. Qed.

  Lemma adeq_mapM n : adA n -> forall es vs s p, omap (cev n) es = Some vs -> Forall (lvok okfn) es -> ainv s -> blocked n s -> nob p ->
    convP (fun F => mapM (eval_lv' F) es s p) (apost vs s).
  Proof.
    intros Hn. induction es as [|e es IH]; intros vs s p Ho Hok Hs Hbl Hb; cbn [omap mapM] in *.
    - inversion Ho; subst. apply convP_ret. apply apost_here; assumption.
    - inversion Hok as [|? ? Hoke Hokes]; subst. destruct (cev n e) as [v|] eqn:Ee; [|discriminate]. destruct (omap (cev n) es) as [vs0|] eqn:Eo; [|discriminate]. inversion Ho; subst vs.
      apply convP_bind. eapply convP_mono; [apply (Hn e v s p Ee Hoke Hs Hbl Hb)|]. intros v' s1 p1 (-> & Hb1 & I1 & K1 & F1).
      apply convP_bind. eapply convP_mono; [apply (IH vs0 s1 p1 eq_refl Hokes I1 (blocked_same n s s1 F1 Hbl) Hb1)|]. intros vs' s2 p2 (-> & Hb2 & I2 & K2 & F2).
      apply convP_ret. split; [reflexivity|]. split; [exact Hb2|]. split; [exact I2|]. split; [eapply keep2_trans; eauto|eapply same_forcing_trans; eauto].
  Qed.

  Lemma adeq_args n : adA n -> forall args vs s p, omap (cev n) args = Some vs -> Forall (lvok okfn) args -> ainv s -> blocked n s -> nob p ->
    convP (fun F => iterM (fun a => v <- eval_lv' F a ;; lpush_param v) args s p)
          (fun _ s' p' => nob p' /\ ainv s' /\ keepP s s' /\ l_params s' = l_params s ++ vs /\ same_forcing s s').
  Proof.
    intros Hn. induction args as [|e es IH]; intros vs s p Ho Hok Hs Hbl Hb; cbn [omap iterM] in *.
    - inversion Ho; subst. apply convP_ret. rewrite app_nil_r. split; [exact Hb|]. split; [exact Hs|]. split; [apply keepP_refl|]. split; [reflexivity|apply same_forcing_refl].
    - inversion Hok as [|? ? Hoke Hokes]; subst. destruct (cev n e) as [v|] eqn:Ee; [|discriminate]. destruct (omap (cev n) es) as [vs0|] eqn:Eo; [|discriminate]. inversion Ho; subst vs.
      apply convP_bind. apply convP_bind. eapply convP_mono; [apply (Hn e v s p Ee Hoke Hs Hbl Hb)|]. intros v' s1 p1 (-> & Hb1 & I1 & [K1 Pa1] & F1).
      unfold lpush_param. apply convP_get. unfold set_lparams, Lazy.upd. apply convP_modify.
      set (s1' := {| l_graph := l_graph s1; l_locals := l_locals s1; l_store := l_store s1; l_scoped := l_scoped s1; l_edges := l_edges s1;
                     l_attrs := l_attrs s1; l_prints := l_prints s1; l_params := l_params s1 ++ [v]; l_prev := l_prev s1 |}).
      assert (I1' : ainv s1') by (apply (ainv_same s1 s1'); [reflexivity|reflexivity|exact I1]).
      assert (F1' : same_forcing s s1') by (eapply same_forcing_trans; [exact F1|apply forcing_same_store; reflexivity]).
      eapply convP_mono; [apply (IH vs0 s1' p1 eq_refl Hokes I1' (blocked_same n s s1' F1' Hbl) Hb1)|]. intros ? s2 p2 (Hb2 & I2 & K2 & Pa2 & F2).
      split; [exact Hb2|]. split; [exact I2|]. split; [eapply keepP_trans; [exact K1|exact K2]|]. split.
      + rewrite Pa2. unfold s1'. cbn [l_params]. rewrite Pa1, <- app_assoc. reflexivity.
      + eapply same_forcing_trans; [exact F1'|exact F2].
  Qed.

  (* forcing a cell with literal syntax-node scopes that builds *)
  Lemma force_pairs_conv : forall ps vals dbgs m s p, scopes_lit ps -> forallb synscope ps = true -> build node_of ps vals dbgs = inl m -> same_keys vals dbgs -> nob p ->
    convP (fun F => force_pairs (fun scope => sv <- eval_lv' F scope ;; lift (as_syn sv)) ps vals dbgs s p) (fun m' s' p' => m' = m /\ s' = s /\ nob p').
  Proof.
    induction ps as [|[[scope v] dbg] ps IH]; intros vals dbgs m s p Hl Hsy Hbd Hk Hb; cbn [force_pairs].
    - cbn [build] in Hbd. inversion Hbd; subst. apply convP_ret. auto.
    - inversion Hl as [|? ? [sv Hsv] Hl']; subst. cbn [fst] in Hsv. subst scope. cbn [forallb synscope fst] in Hsy. destruct sv; try discriminate.
      cbn [andb] in Hsy. cbn [build node_of] in Hbd.
      apply convP_bind. apply convP_ctx. apply convP_ctx. apply convP_bind.
      eapply convP_shift; [intros F; cbn [eval_lv]; reflexivity|]. apply convP_bind. unfold lpoll. apply convP_poll; [exact Hb|]. intros p0 Hb0.
      apply convP_ret. eapply convP_lift; [reflexivity|].
      destruct (nmap_get vals n) eqn:Ev.
      + exfalso. destruct (dbg_get dbgs n) eqn:Ed; [discriminate|]. apply (proj2 (Hk n)) in Ed. congruence.
      + apply (IH _ _ m s p0 Hl' Hsy Hbd (same_keys_snoc vals dbgs n v dbg Hk) Hb0).
  Qed.
  Lemma force_scoped_conv name c m s p : acell_inv name (Some c) -> se_cell E name = Some m -> nob p ->
    convP (fun F => force_scoped t fl call F name c s p) (fun m' s' p' => m' = m /\ s' = s /\ nob p').
  Proof.
    intros Hc Hm Hb. eapply convP_shift; [intros F; cbn [force_scoped]; reflexivity|]. destruct c as [ps| |m0]; cbn [acell_inv] in Hc.
    - destruct Hc as [Hl Hv]. rewrite Hm in Hv. cbn [cell_val] in Hv. destruct (forallb synscope ps) eqn:Hsy; [|discriminate].
      destruct (build node_of ps [] []) as [m1|] eqn:Hbd; [|discriminate]. inversion Hv; subst m1.
      apply (force_pairs_conv ps [] [] m s p Hl Hsy Hbd same_keys_nil Hb).
    - contradiction.
    - apply convP_ret. split; [congruence|auto].
  Qed.

  Lemma ainv_set_cell s name m : ainv s -> se_cell E name = Some m ->
    ainv (wscoped (alist_set name (SVForced m) (alist_set name SVForcing (l_scoped s))) (wscoped (alist_set name SVForcing (l_scoped s)) s)).
  Proof.
    intros (A & B & C) Hm. split; [exact A|]. split; [exact B|]. intros name'. cbn [wscoped l_scoped]. rewrite !alist_get_set.
    destruct (str_eqb_spec name' name) as [->|Hne]; [exact Hm|apply C].
  Qed.

  (* a thunk is forced at the minimal fuel of its body *)
  Lemma adeq_force n : (forall m, (m < S n)%nat -> adA m) -> forall loc v s p0, cev (S n) (LVar loc) = Some v -> ainv s -> blocked (S n) s -> nob p0 ->
    convP (fun F => force_thunk' F loc s p0) (apost v s).
  Proof.
    intros IH loc v s p0 Hc0 Hs Hbl Hb0. pose proof Hc0 as Hc. rewrite cev_S_eq in Hc.
      destruct (se_body E (N.to_nat loc)) as [b|] eqn:Eb; [|discriminate].
      eapply convP_shift; [intros F; cbn [force_thunk]; reflexivity|]. apply convP_get.
      destruct Hs as (HA & HB & HC). destruct (HB _ _ Eb) as (th & Eth). rewrite Eth. apply convP_ctx.
      pose proof (HA _ _ Eth) as Hti. unfold ScPermSound.thunk_inv in Hti. rewrite N2Nat.id in Hti.
      destruct (th_state th) as [inner| |v'] eqn:Est.
      + assert (inner = b) by congruence. subst inner.
        destruct (cev_min t fl call E n b v Hc) as (m & Hm & Em & Hmin).
        assert (Hloc : cev m (LVar loc) = None).
        { destruct m as [|m']; [reflexivity|]. rewrite cev_S_eq, Eb. apply Hmin. lia. }
        apply convP_bind. eapply convP_const; [apply set_state_eq|].
        set (s1 := wstore (list_update (N.to_nat loc) (fun th0 => {| th_state := TForcing; th_dbg := th_dbg th0 |}) (l_store s)) s).
        assert (I1 : ainv s1).
        { split; [|split; [|exact HC]].
          - intros i th1 Ei. unfold s1 in Ei. cbn [wstore l_store] in Ei. rewrite nth_error_list_update in Ei.
            destruct (Nat.eqb_spec i (N.to_nat loc)) as [->|Hne]; [|apply (HA _ _ Ei)]. rewrite Eth in Ei. cbn in Ei. inversion Ei; subst th1. exact I.
          - intros i b0 Ei. destruct (HB _ _ Ei) as (th1 & E1). unfold s1. cbn [wstore l_store]. rewrite nth_error_list_update.
            destruct (Nat.eqb_spec i (N.to_nat loc)) as [->|Hne]; [rewrite Eth; cbn; eauto|eauto]. }
        assert (B1 : blocked m s1).
        { intros i (th1 & Ei & Hf). unfold s1 in Ei. cbn [wstore l_store] in Ei. rewrite nth_error_list_update in Ei.
          destruct (Nat.eqb_spec i (N.to_nat loc)) as [->|Hne]; [rewrite N2Nat.id; exact Hloc|].
          apply (cev_none_mono t fl call E m (S n)); [lia|]. apply Hbl. exists th1. split; assumption. }
        apply convP_bind. eapply convP_mono; [apply (IH m ltac:(lia) b v s1 p0 Em (proj1 HE _ _ Eb) I1 B1 Hb0)|]. intros v' s2 p2 (-> & Hb2 & I2 & K2 & F2).
        apply convP_bind. eapply convP_const; [apply set_state_eq|]. apply convP_ret.
        destruct I2 as (A2 & B2 & C2). split; [reflexivity|]. split; [exact Hb2|]. split; [|split].
        * split; [|split; [|exact C2]].
          -- intros i th1 Ei. cbn [wstore l_store] in Ei. rewrite nth_error_list_update in Ei.
             destruct (Nat.eqb_spec i (N.to_nat loc)) as [->|Hne]; [|apply (A2 _ _ Ei)]. destruct (nth_error (l_store s2) (N.to_nat loc)); [|discriminate].
             cbn in Ei. inversion Ei; subst th1. unfold ScPermSound.thunk_inv. cbn [th_state]. rewrite N2Nat.id. exists (S n). exact Hc0.
          -- intros i b0 Ei. destruct (B2 _ _ Ei) as (th1 & E1). cbn [wstore l_store]. rewrite nth_error_list_update.
             destruct (Nat.eqb_spec i (N.to_nat loc)) as [->|Hne]; [rewrite E1; cbn; eauto|eauto].
        * assert (K1 : keep2 s s1) by (repeat split; unfold s1; cbn [wstore l_store]; apply list_update_length).
          eapply keep2_trans; [exact K1|]. eapply keep2_trans; [exact K2|]. repeat split; cbn [wstore l_store]; apply list_update_length.
        * intros i. unfold forcing at 1. cbn [wstore l_store]. rewrite nth_error_list_update. destruct (Nat.eqb_spec i (N.to_nat loc)) as [->|Hne].
          -- split.
             ++ intros (th1 & Ei & Hf). destruct (nth_error (l_store s2) (N.to_nat loc)); [|discriminate]. cbn in Ei. inversion Ei; subst th1. discriminate.
             ++ intros (th1 & Ei & Hf). rewrite Eth in Ei. inversion Ei; subst th1. congruence.
          -- fold (forcing s2 i). rewrite (F2 i). unfold forcing, s1. cbn [wstore l_store]. rewrite nth_error_list_update.
             destruct (Nat.eqb_spec i (N.to_nat loc)); [contradiction|reflexivity].
      + exfalso. assert (Hf : forcing s (N.to_nat loc)) by (exists th; split; assumption). apply Hbl in Hf. rewrite N2Nat.id in Hf. congruence.
      + destruct Hti as [f' Hf']. assert (v' = v) by (eapply cev_det; [exact Hf'|exact Hc0]). subst v'.
        apply convP_ret. apply apost_here; [split; [exact HA|split; [exact HB|exact HC]]|exact Hb0].
  Qed.

  Lemma adeq_all : forall n, adA n.
  Proof.
    induction n as [n IH] using lt_wf_ind. intros lv v s p Hc Hok Hs Hbl Hb. destruct n as [|n]; [discriminate|].
    pose proof Hc as Hc0. rewrite cev_S_eq in Hc.
    assert (IHn : adA n) by (apply IH; lia).
    eapply convP_shift; [intros F; cbn [eval_lv]; reflexivity|]. apply convP_bind. unfold lpoll. apply convP_poll; [exact Hb|]. intros p0 Hb0.
    pose proof (blocked_mono n (S n) s ltac:(lia) Hbl) as Hbl'.
    destruct lv as [v0|es|es|loc|sc name|f args].
    - inversion Hc; subst. apply convP_ret. apply apost_here; assumption.
    - destruct (omap (cev n) es) as [vs|] eqn:Eo; [|discriminate]. inversion Hc; subst v. apply convP_bind. rewrite lvok_list in Hok.
      eapply convP_mono; [apply (adeq_mapM n IHn es vs s p0 Eo Hok Hs Hbl' Hb0)|]. intros vs' s1 p1 (-> & H). apply convP_ret. split; [reflexivity|exact H].
    - destruct (omap (cev n) es) as [vs|] eqn:Eo; [|discriminate]. inversion Hc; subst v. apply convP_bind. rewrite lvok_set in Hok.
      eapply convP_mono; [apply (adeq_mapM n IHn es vs s p0 Eo Hok Hs Hbl' Hb0)|]. intros vs' s1 p1 (-> & H). apply convP_ret. split; [reflexivity|exact H].
    - (* a thunk *)
      apply (adeq_force n (fun m Hm => IH m Hm) loc v s p0 Hc0 Hs Hbl Hb0).
    - (* a scoped read *)
      destruct (cev n sc) as [sv|] eqn:Esc; [|discriminate]. destruct sv; try discriminate.
      destruct (se_cell E name) as [m|] eqn:Ecm; [|discriminate]. destruct (resolve t fl name m n0) as [lv'|] eqn:Er; [|discriminate].
      apply convP_bind. apply convP_ctx. apply convP_bind.
      eapply convP_mono; [apply (IHn sc (VSyn n0) s p0 Esc Hok Hs Hbl' Hb0)|]. intros v' s1 p1 (-> & Hb1 & I1 & K1 & F1).
      eapply convP_lift; [reflexivity|]. apply convP_bind. eapply convP_const; [apply cell_get_eq|].
      pose proof (proj2 (proj2 I1) name) as Hci. destruct (alist_get name (l_scoped s1)) as [cell|] eqn:Ecell; [|cbn [acell_inv] in Hci; congruence].
      apply convP_bind. eapply convP_const; [apply cell_set_eq|]. apply convP_bind.
      eapply convP_mono; [apply (force_scoped_conv name cell m _ p1 Hci Ecm Hb1)|]. intros m' s2 p2 (-> & -> & Hb2).
      apply convP_bind. eapply convP_const; [apply cell_set_eq|]. cbn [wscoped l_scoped].
      change (match nmap_get m n0 with
              | Some v1 => Some v1
              | None => if linherited fl name then lancestor_lookup t (S (length (t_nodes t))) m (match node_at t n0 with Some nd => tn_parent nd | None => None end) else None
              end) with (resolve t fl name m n0). rewrite Er.
      set (s5 := wscoped (alist_set name (SVForced m) (alist_set name SVForcing (l_scoped s1))) (wscoped (alist_set name SVForcing (l_scoped s1)) s1)).
      assert (I5 : ainv s5) by (apply ainv_set_cell; assumption).
      assert (K5 : keep2 s1 s5).
      { eapply keep2_trans; [apply (keepP_set_cell s1 name SVForcing cell Ecell)|].
        apply (keepP_set_cell (wscoped (alist_set name SVForcing (l_scoped s1)) s1) name (SVForced m) SVForcing). cbn [wscoped l_scoped]. rewrite alist_get_set, str_eqb_refl. reflexivity. }
      assert (F5 : same_forcing s s5) by (eapply same_forcing_trans; [exact F1|apply forcing_same_store; reflexivity]).
      assert (Hok' : lvok okfn lv') by (destruct (resolve_in _ _ _ _ _ _ Er) as [k Hk]; apply (proj2 HE name m k lv' Ecm Hk)).
      eapply convP_mono; [apply (IHn lv' v s5 p2 Hc Hok' I5 (blocked_same n s s5 F5 Hbl') Hb2)|]. intros v' s6 p6 (-> & Hb6 & I6 & K6 & F6).
      split; [reflexivity|]. split; [exact Hb6|]. split; [exact I6|]. split; [eapply keep2_trans; [exact K1|eapply keep2_trans; eauto]|eapply same_forcing_trans; eauto].
    - (* a call *)
      rewrite lvok_call in Hok. destruct Hok as [Hokf Hokargs]. destruct (omap (cev n) args) as [vs|] eqn:Eo; [|discriminate]. destruct (call f [] vs) as [[v1 g1]|e|x|] eqn:Ecall; try discriminate. inversion Hc; subst v1.
      apply convP_bind. eapply convP_mono; [apply (adeq_args n IHn args vs s p0 Eo Hokargs Hs Hbl' Hb0)|]. intros ? s1 p1 (Hb1 & I1 & K1 & Pa1 & F1).
      apply convP_bind. eapply convP_const; [apply (ldrain_ok (l_params s) vs (length args) s1 p1 Pa1); apply (omap_length _ _ _ Eo)|].
      unfold lcall_function. apply convP_get. cbn [wparams l_graph]. rewrite (Hpure f (l_graph s1) vs v g1 Hokf Ecall).
      apply convP_bind. unfold set_lgraph, Lazy.upd. apply convP_modify. apply convP_ret.
      split; [reflexivity|]. split; [exact Hb1|]. split; [apply (ainv_same s1); [reflexivity|reflexivity|exact I1]|]. split.
      + destruct K1 as (A1 & A2 & A3 & A4 & A5 & A6 & A7 & A8). repeat split; cbn [wparams l_graph l_prev l_locals l_edges l_attrs l_prints l_store l_scoped l_params]; assumption.
      + eapply same_forcing_trans; [exact F1|apply forcing_same_store; reflexivity].
  Qed.

  (* ---------- between statements: no thunk is being forced ---------- *)
  Definition noforcing (s : lstate) : Prop := forall i, ~ forcing s i.
  Definition vpost {A} (a : A) (s : lstate) : A -> lstate -> polls -> Prop :=
    fun a' s' p' => a' = a /\ nob p' /\ ainv s' /\ noforcing s' /\ keep2 s s'.
  Lemma adeq_v lv v s p : cevv lv v -> lvok okfn lv -> ainv s -> noforcing s -> nob p -> convP (fun F => eval_lv' F lv s p) (vpost v s).
  Proof.
    intros [n Hn] Hok Hs Hnf Hb. eapply convP_mono; [apply (adeq_all n lv v s p Hn Hok Hs ltac:(intros i Hi; destruct (Hnf i Hi)) Hb)|].
    intros v' s' p' (-> & Hb' & I' & K' & F'). split; [reflexivity|]. split; [exact Hb'|]. split; [exact I'|]. split; [|exact K']. intros i Hi. apply (Hnf i), F', Hi.
  Qed.
  Lemma adeq_thunk i v s p : cevv (LVar (N.of_nat i)) v -> ainv s -> noforcing s -> nob p -> convP (fun F => force_thunk' F (N.of_nat i) s p) (vpost v s).
  Proof.
    intros [n Hn] Hs Hnf Hb. destruct n as [|n]; [discriminate|].
    eapply convP_mono; [apply (adeq_force n (fun m _ => adeq_all m) (N.of_nat i) v s p Hn Hs ltac:(intros j Hj; destruct (Hnf j Hj)) Hb)|].
    intros v' s' p' (-> & Hb' & I' & K' & F'). split; [reflexivity|]. split; [exact Hb'|]. split; [exact I'|]. split; [|exact K']. intros j Hj. apply (Hnf j), F', Hj.
  Qed.

  (* ================= deferred statements ================= *)
  Notation sden_edge := (sden_edge t fl call E).
  Notation sden_attrs := (sden_attrs t fl call E).
  Notation sden_astmt := (sden_astmt t fl call E).
  Notation sprint_ok := (sprint_ok t fl call E).

  Lemma set_lgraph_eq g s p : set_lgraph g s p = Ok (tt, wgraph g s, p). Proof. reflexivity. Qed.
  Lemma ledge_add_ok x y s p g' : apply_edge (x, y) (l_graph s) = Some g' -> ledge_add x y [] s p = Ok (tt, wgraph g' s, p).
  Proof.
    unfold apply_edge, ledge_add, bind, get_state. cbn [fst snd]. destruct (graph_add_edge (l_graph s) x y) as [[g1 isnew]|] eqn:Eg; [|discriminate].
    intros [= <-]. destruct isnew; [rewrite (edge_reset_id _ _ _ _ Eg)|]; apply set_lgraph_eq.
  Qed.
  Lemma lattr_node_add_ok x k v prev dbg s p g' : apply_attr (AN x k v) (l_graph s) = Some g' -> lattr_node_add x k v prev dbg s p = Ok (tt, wgraph g' s, p).
  Proof.
    unfold apply_attr, lattr_node_add, bind, get_state. destruct (gnode_at (l_graph s) x) as [nd|]; [|discriminate].
    destruct (attrs_add (g_attrs nd) k v) as [m' [c|]]; [discriminate|]. intros [= <-]. apply set_lgraph_eq.
  Qed.
  Lemma lattr_edge_add_ok x y k v prev dbg s p g' : apply_attr (AE x y k v) (l_graph s) = Some g' ->
    ledge_exists x y s p = Ok (true, s, p) /\ lattr_edge_add x y k v prev dbg s p = Ok (tt, wgraph g' s, p).
  Proof.
    unfold apply_attr, lattr_edge_add, ledge_exists, bind, get_state. destruct (gnode_at (l_graph s) x) as [nd|]; [|discriminate].
    destruct (edges_get y (g_edges nd)) as [m0|]; [|discriminate]. destruct (attrs_add m0 k v) as [m' [c|]]; [discriminate|]. intros [= <-]. split; [reflexivity|apply set_lgraph_eq].
  Qed.
  Lemma prev_insert_eq k dbg s p : exists o x, prev_insert k dbg s p = Ok (o, wprev x s, p).
  Proof. unfold prev_insert, bind, get_state, set_lprev, Lazy.upd, modify, ret. eexists. eexists. reflexivity. Qed.

  Lemma noforcing_same s s' : l_store s' = l_store s -> noforcing s -> noforcing s'.
  Proof. intros H Hn i Hi. apply (Hn i). unfold forcing in *. rewrite <- H. exact Hi. Qed.

  (* the state after a statement: invariants, the graph as computed, the rest kept *)
  Definition gpost (g' : graph) (s : lstate) : unit -> lstate -> polls -> Prop :=
    fun _ s' p' => nob p' /\ ainv s' /\ noforcing s' /\ l_graph s' = g' /\ keepG s s'.

  Lemma gnode_conv lv x s p : cevv lv (VGraph x) -> lvok okfn lv -> ainv s -> noforcing s -> nob p ->
    convP (fun F => eval_as_gnode t fl call F lv s p) (vpost x s).
  Proof.
    intros Hv Hok Hs Hn Hb. unfold eval_as_gnode. apply convP_bind. eapply convP_mono; [apply (adeq_v lv (VGraph x) s p Hv Hok Hs Hn Hb)|].
    intros v' s1 p1 (-> & H). eapply convP_lift; [reflexivity|]. split; [reflexivity|exact H].
  Qed.

  Lemma estmt_conv a b dbg e s p g' : sden_edge (LSEdge a b [] dbg) e -> lvok okfn a -> lvok okfn b -> apply_edge e (l_graph s) = Some g' -> ainv s -> noforcing s -> nob p ->
    convP (fun F => eval_lstmt t fl call F (LSEdge a b [] dbg) s p) (gpost g' s).
  Proof.
    intros (a0 & b0 & dbg0 & Est & Da & Db) Hoka Hokb Hg Hs Hn Hb. inversion Est; subst a0 b0 dbg0. destruct e as [x y]. cbn [fst snd] in *.
    unfold eval_lstmt. apply convP_bind. unfold lpoll. apply convP_poll; [exact Hb|]. intros p0 Hb0. apply convP_ctx.
    apply convP_bind. apply convP_ctx. eapply convP_mono; [apply (gnode_conv a x s p0 Da Hoka Hs Hn Hb0)|]. intros x' s1 p1 (-> & Hb1 & I1 & N1 & K1).
    apply convP_bind. apply convP_ctx. eapply convP_mono; [apply (gnode_conv b y s1 p1 Db Hokb I1 N1 Hb1)|]. intros y' s2 p2 (-> & Hb2 & I2 & N2 & K2).
    assert (Hg2 : apply_edge (x, y) (l_graph s2) = Some g') by (rewrite (proj1 (proj1 K2)), (proj1 (proj1 K1)); exact Hg).
    eapply convP_const; [apply (ledge_add_ok x y s2 p2 g' Hg2)|]. split; [exact Hb2|]. split; [apply (ainv_same s2); [reflexivity|reflexivity|exact I2]|].
    split; [apply (noforcing_same s2); [reflexivity|exact N2]|]. split; [reflexivity|].
    eapply keepG_trans; [apply keep2_G, K1|]. eapply keepG_trans; [apply keep2_G, K2|]. repeat split.
  Qed.
  Lemma edges_conv : forall sts eops s p g1, Forall2 sden_edge sts eops -> Forall (lsok okfn) sts -> apply_edges eops (l_graph s) = Some g1 -> ainv s -> noforcing s -> nob p ->
    convP (fun F => iterM (eval_lstmt t fl call F) sts s p) (gpost g1 s).
  Proof.
    intros sts eops s p g1 HF. revert s p. induction HF as [|st e sts eops Hd HF IH]; intros s p Hok Hg Hs Hn Hb; cbn [iterM ofold] in *.
    - inversion Hg; subst. apply convP_ret. split; [exact Hb|]. split; [exact Hs|]. split; [exact Hn|]. split; [reflexivity|apply keepG_refl].
    - destruct (apply_edge e (l_graph s)) as [gm|] eqn:Ee; [|discriminate]. pose proof Hd as (a & b & dbg & -> & _). inversion Hok as [|? ? Hok1 Hokr]; subst. cbn [lsok] in Hok1. destruct Hok1 as (Hoka & Hokb & _).
      apply convP_bind. eapply convP_mono; [apply (estmt_conv a b dbg e s p gm Hd Hoka Hokb Ee Hs Hn Hb)|]. intros ? s1 p1 (Hb1 & I1 & N1 & G1 & K1).
      eapply convP_mono; [apply (IH s1 p1 Hokr ltac:(rewrite G1; exact Hg) I1 N1 Hb1)|]. intros ? s2 p2 (Hb2 & I2 & N2 & G2 & K2).
      split; [exact Hb2|]. split; [exact I2|]. split; [exact N2|]. split; [exact G2|eapply keepG_trans; eauto].
  Qed.

  Lemma nattrs_conv x dbg : forall attrs kvs s p g', sden_attrs attrs kvs -> Forall (fun a : ident * lvalue => lvok okfn (snd a)) attrs -> apply_attrs (map (mk (TNode x)) kvs) (l_graph s) = Some g' -> ainv s -> noforcing s -> nob p ->
    convP (fun F => iterM (fun a : ident * lvalue => v <- eval_lv' F (snd a) ;; prev <- prev_insert (KNode x (fst a)) dbg ;; lattr_node_add x (fst a) v prev dbg) attrs s p) (gpost g' s).
  Proof.
    intros attrs kvs s p g' HF. revert s p. induction HF as [|[k lv] [k' v] attrs kvs [Hk Hd] HF IH]; intros s p Hok Hg Hs Hn Hb; cbn [iterM map ofold] in *.
    - inversion Hg; subst. apply convP_ret. split; [exact Hb|]. split; [exact Hs|]. split; [exact Hn|]. split; [reflexivity|apply keepG_refl].
    - inversion Hok as [|? ? Hokl Hokr]; subst. cbn [fst snd] in *. subst k'. cbn [mk fst snd] in Hg. destruct (apply_attr (AN x k v) (l_graph s)) as [gm|] eqn:Ea; [|discriminate].
      apply convP_bind. apply convP_bind. eapply convP_mono; [apply (adeq_v lv v s p Hd Hokl Hs Hn Hb)|]. intros v' s1 p1 (-> & Hb1 & I1 & N1 & K1).
      destruct (prev_insert_eq (KNode x k) dbg s1 p1) as (o & xp & Ep). apply convP_bind. eapply convP_const; [exact Ep|].
      assert (Ea1 : apply_attr (AN x k v) (l_graph (wprev xp s1)) = Some gm) by (cbn [wprev l_graph]; rewrite (proj1 (proj1 K1)); exact Ea).
      eapply convP_const; [apply (lattr_node_add_ok x k v o dbg (wprev xp s1) p1 gm Ea1)|].
      set (s3 := wgraph gm (wprev xp s1)).
      assert (I3 : ainv s3) by (apply (ainv_same s1); [reflexivity|reflexivity|exact I1]).
      assert (N3 : noforcing s3) by (apply (noforcing_same s1); [reflexivity|exact N1]).
      eapply convP_mono; [apply (IH s3 p1 Hokr Hg I3 N3 Hb1)|]. intros ? s4 p4 (Hb4 & I4 & N4 & G4 & K4).
      split; [exact Hb4|]. split; [exact I4|]. split; [exact N4|]. split; [exact G4|]. eapply keepG_trans; [apply keep2_G, K1|]. eapply keepG_trans; [|exact K4]. repeat split.
  Qed.
  Lemma eattrs_conv x y dbg : forall attrs kvs s p g', sden_attrs attrs kvs -> Forall (fun a : ident * lvalue => lvok okfn (snd a)) attrs -> apply_attrs (map (mk (TEdge x y)) kvs) (l_graph s) = Some g' -> ainv s -> noforcing s -> nob p ->
    convP (fun F => iterM (fun ak : ident * lvalue => v <- eval_lv' F (snd ak) ;; ex <- ledge_exists x y ;;
                             if ex then prev <- prev_insert (KEdge x y (fst ak)) dbg ;; lattr_edge_add x y (fst ak) v prev dbg else fail EUndefinedEdge) attrs s p) (gpost g' s).
  Proof.
    intros attrs kvs s p g' HF. revert s p. induction HF as [|[k lv] [k' v] attrs kvs [Hk Hd] HF IH]; intros s p Hok Hg Hs Hn Hb; cbn [iterM map ofold] in *.
    - inversion Hg; subst. apply convP_ret. split; [exact Hb|]. split; [exact Hs|]. split; [exact Hn|]. split; [reflexivity|apply keepG_refl].
    - inversion Hok as [|? ? Hokl Hokr]; subst. cbn [fst snd] in *. subst k'. cbn [mk fst snd] in Hg. destruct (apply_attr (AE x y k v) (l_graph s)) as [gm|] eqn:Ea; [|discriminate].
      apply convP_bind. apply convP_bind. eapply convP_mono; [apply (adeq_v lv v s p Hd Hokl Hs Hn Hb)|]. intros v' s1 p1 (-> & Hb1 & I1 & N1 & K1).
      assert (Ea1 : apply_attr (AE x y k v) (l_graph s1) = Some gm) by (rewrite (proj1 (proj1 K1)); exact Ea).
      apply convP_bind. eapply convP_const; [apply (proj1 (lattr_edge_add_ok x y k v None dbg s1 p1 gm Ea1))|].
      destruct (prev_insert_eq (KEdge x y k) dbg s1 p1) as (o & xp & Ep). apply convP_bind. eapply convP_const; [exact Ep|].
      assert (Ea2 : apply_attr (AE x y k v) (l_graph (wprev xp s1)) = Some gm) by exact Ea1.
      eapply convP_const; [apply (proj2 (lattr_edge_add_ok x y k v o dbg (wprev xp s1) p1 gm Ea2))|].
      set (s3 := wgraph gm (wprev xp s1)).
      assert (I3 : ainv s3) by (apply (ainv_same s1); [reflexivity|reflexivity|exact I1]).
      assert (N3 : noforcing s3) by (apply (noforcing_same s1); [reflexivity|exact N1]).
      eapply convP_mono; [apply (IH s3 p1 Hokr Hg I3 N3 Hb1)|]. intros ? s4 p4 (Hb4 & I4 & N4 & G4 & K4).
      split; [exact Hb4|]. split; [exact I4|]. split; [exact N4|]. split; [exact G4|]. eapply keepG_trans; [apply keep2_G, K1|]. eapply keepG_trans; [|exact K4]. repeat split.
  Qed.
  Lemma astmt_conv st ops s p g' : sden_astmt st ops -> lsok okfn st -> apply_attrs ops (l_graph s) = Some g' -> ainv s -> noforcing s -> nob p ->
    convP (fun F => eval_lstmt t fl call F st s p) (gpost g' s).
  Proof.
    intros Hd Hok Hg Hs Hn Hb. unfold eval_lstmt. apply convP_bind. unfold lpoll. apply convP_poll; [exact Hb|]. intros p0 Hb0.
    destruct st as [n attrs dbg|a b ea dbg|a b attrs dbg|args dbg]; cbn [ScPermSound.sden_astmt] in Hd; try contradiction; cbn [lsok] in Hok; apply convP_ctx.
    - destruct Hd as (x & kvs & Dn & Da & ->). destruct Hok as [Hokn Hoka]. apply convP_bind. apply convP_ctx. eapply convP_mono; [apply (gnode_conv n x s p0 Dn Hokn Hs Hn Hb0)|].
      intros x' s1 p1 (-> & Hb1 & I1 & N1 & K1).
      eapply convP_mono; [apply (nattrs_conv x dbg attrs kvs s1 p1 g' Da Hoka ltac:(rewrite (proj1 (proj1 K1)); exact Hg) I1 N1 Hb1)|].
      intros ? s2 p2 (Hb2 & I2 & N2 & G2 & K2). split; [exact Hb2|]. split; [exact I2|]. split; [exact N2|]. split; [exact G2|eapply keepG_trans; [apply keep2_G, K1|exact K2]].
    - destruct Hd as (x & y & kvs & Dx & Dy & Da & ->). destruct Hok as (Hokx & Hoky & Hoka). apply convP_bind. apply convP_ctx. eapply convP_mono; [apply (gnode_conv a x s p0 Dx Hokx Hs Hn Hb0)|].
      intros x' s1 p1 (-> & Hb1 & I1 & N1 & K1). apply convP_bind. apply convP_ctx. eapply convP_mono; [apply (gnode_conv b y s1 p1 Dy Hoky I1 N1 Hb1)|].
      intros y' s2 p2 (-> & Hb2 & I2 & N2 & K2).
      eapply convP_mono; [apply (eattrs_conv x y dbg attrs kvs s2 p2 g' Da Hoka ltac:(rewrite (proj1 (proj1 K2)), (proj1 (proj1 K1)); exact Hg) I2 N2 Hb2)|].
      intros ? s3 p3 (Hb3 & I3 & N3 & G3 & K3). split; [exact Hb3|]. split; [exact I3|]. split; [exact N3|]. split; [exact G3|].
      eapply keepG_trans; [apply keep2_G, K1|]. eapply keepG_trans; [apply keep2_G, K2|exact K3].
  Qed.
  Lemma attrs_conv : forall sts aopss s p g2, Forall2 sden_astmt sts aopss -> Forall (lsok okfn) sts -> apply_attrs (concat aopss) (l_graph s) = Some g2 -> ainv s -> noforcing s -> nob p ->
    convP (fun F => iterM (eval_lstmt t fl call F) sts s p) (gpost g2 s).
  Proof.
    intros sts aopss s p g2 HF. revert s p. induction HF as [|st ops sts aopss Hd HF IH]; intros s p Hok Hg Hs Hn Hb; cbn [iterM concat] in *.
    - inversion Hg; subst. apply convP_ret. split; [exact Hb|]. split; [exact Hs|]. split; [exact Hn|]. split; [reflexivity|apply keepG_refl].
    - inversion Hok as [|? ? Hok1 Hokr]; subst. rewrite ofold_app in Hg. destruct (apply_attrs ops (l_graph s)) as [gm|] eqn:Ea; [|discriminate].
      apply convP_bind. eapply convP_mono; [apply (astmt_conv st ops s p gm Hd Hok1 Ea Hs Hn Hb)|]. intros ? s1 p1 (Hb1 & I1 & N1 & G1 & K1).
      eapply convP_mono; [apply (IH s1 p1 Hokr ltac:(rewrite G1; exact Hg) I1 N1 Hb1)|]. intros ? s2 p2 (Hb2 & I2 & N2 & G2 & K2).
      split; [exact Hb2|]. split; [exact I2|]. split; [exact N2|]. split; [exact G2|eapply keepG_trans; eauto].
  Qed.

  Lemma prints_conv : forall sts s p, Forall sprint_ok sts -> Forall (lsok okfn) sts -> ainv s -> noforcing s -> nob p ->
    convP (fun F => iterM (eval_lstmt t fl call F) sts s p) (gpost (l_graph s) s).
  Proof.
    induction sts as [|st sts IH]; intros s p HF Hok Hs Hn Hb; cbn [iterM].
    - apply convP_ret. split; [exact Hb|]. split; [exact Hs|]. split; [exact Hn|]. split; [reflexivity|apply keepG_refl].
    - inversion HF as [|? ? Hst Hrest]; subst. inversion Hok as [|? ? Hok1 Hokr]; subst.
      destruct st as [n attrs dbg|a b ea dbg|a b attrs dbg|args dbg]; cbn [ScPermSound.sprint_ok] in Hst; try contradiction. cbn [lsok] in Hok1.
      apply convP_bind. unfold eval_lstmt. apply convP_bind. unfold lpoll. apply convP_poll; [exact Hb|]. intros p0 Hb0. apply convP_ctx.
      assert (Hargs : forall args0 s0 p0, Forall (fun a => match a with Some lv => exists v, cevv lv v | None => True end) args0 ->
                Forall (fun o => match o with Some lv => lvok okfn lv | None => True end) args0 -> ainv s0 -> noforcing s0 -> nob p0 ->
                convP (fun F => iterM (fun a : option lvalue => match a with Some lv => eval_lv' F lv ;;; ret tt | None => ret tt end) args0 s0 p0) (vpost tt s0)).
      { clear IH HF Hst Hrest Hs Hn Hb Hb0 Hok Hok1 Hokr. induction args0 as [|a args0 IHa]; intros s0 q0 HF0 Hok0 Hs0 Hn0 Hq0; cbn [iterM].
        - apply convP_ret. split; [reflexivity|]. split; [exact Hq0|]. split; [exact Hs0|]. split; [exact Hn0|apply keep2_refl].
        - inversion HF0 as [|? ? Ha Hrest]; subst. inversion Hok0 as [|? ? Hoka Hokr]; subst. apply convP_bind. destruct a as [lv|].
          + destruct Ha as [v Hv]. apply convP_bind. eapply convP_mono; [apply (adeq_v lv v s0 q0 Hv Hoka Hs0 Hn0 Hq0)|]. intros v' s1 p1 (-> & Hb1 & I1 & N1 & K1).
            apply convP_ret. eapply convP_mono; [apply (IHa s1 p1 Hrest Hokr I1 N1 Hb1)|]. intros u s2 p2 (-> & Hb2 & I2 & N2 & K2).
            split; [reflexivity|]. split; [exact Hb2|]. split; [exact I2|]. split; [exact N2|eapply keep2_trans; eauto].
          + apply convP_ret. apply (IHa s0 q0 Hrest Hokr Hs0 Hn0 Hq0). }
      eapply convP_mono; [apply (Hargs args s p0 Hst Hok1 Hs Hn Hb0)|]. intros u s1 p1 (_ & Hb1 & I1 & N1 & K1).
      eapply convP_mono; [apply (IH s1 p1 Hrest Hokr I1 N1 Hb1)|]. intros ? s2 p2 (Hb2 & I2 & N2 & G2 & K2).
      split; [exact Hb2|]. split; [exact I2|]. split; [exact N2|]. split; [rewrite G2; apply (proj1 (proj1 K1))|eapply keepG_trans; [apply keep2_G, K1|exact K2]].
  Qed.

  Lemma force_list_conv : forall (l : list nat) s p, (forall i, In i l -> exists v, cevv (LVar (N.of_nat i)) v) -> ainv s -> noforcing s -> nob p ->
    convP (fun F => iterM (fun i => force_thunk' F i ;;; ret tt) (map N.of_nat l) s p) (vpost tt s).
  Proof.
    induction l as [|i l IH]; intros s p Hall Hs Hn Hb; cbn [map iterM].
    - apply convP_ret. split; [reflexivity|]. split; [exact Hb|]. split; [exact Hs|]. split; [exact Hn|apply keep2_refl].
    - destruct (Hall i (or_introl eq_refl)) as [v Hv]. apply convP_bind. apply convP_bind.
      eapply convP_mono; [apply (adeq_thunk i v s p Hv Hs Hn Hb)|]. intros v' s1 p1 (-> & Hb1 & I1 & N1 & K1). apply convP_ret.
      eapply convP_mono; [apply (IH s1 p1 (fun j Hj => Hall j (or_intror Hj)) I1 N1 Hb1)|]. intros u s2 p2 (-> & Hb2 & I2 & N2 & K2).
      split; [reflexivity|]. split; [exact Hb2|]. split; [exact I2|]. split; [exact N2|eapply keep2_trans; eauto].
  Qed.

  (* every cell that exists forces *)
  Definition cells_total (s : lstate) : Prop := forall name c, alist_get name (l_scoped s) = Some c -> se_cell E name <> None.
  Lemma cells_conv : forall names s p, ainv s -> cells_total s -> nob p ->
    convP (fun F => iterM (fun name => c <- cell_get name ;;
                       match c with
                       | None => ret tt
                       | Some cell => cell_set name SVForcing ;;; map <- force_scoped t fl call F name cell ;; cell_set name (SVForced map)
                       end) names s p) (fun _ s' p' => nob p' /\ l_graph s' = l_graph s).
  Proof.
    induction names as [|name names IH]; intros s p Hs Ht Hb; cbn [iterM].
    - apply convP_ret. auto.
    - apply convP_bind. apply convP_bind. eapply convP_const; [apply cell_get_eq|].
      pose proof (proj2 (proj2 Hs) name) as Hci. destruct (alist_get name (l_scoped s)) as [cell|] eqn:Ecell.
      + destruct (se_cell E name) as [m|] eqn:Em; [|exfalso; apply (Ht _ _ Ecell Em)].
        apply convP_bind. eapply convP_const; [apply cell_set_eq|]. apply convP_bind.
        eapply convP_mono; [apply (force_scoped_conv name cell m _ p Hci Em Hb)|]. intros m' s2 p2 (-> & -> & Hb2).
        eapply convP_const; [apply cell_set_eq|]. cbn [wscoped l_scoped].
        set (s5 := wscoped (alist_set name (SVForced m) (alist_set name SVForcing (l_scoped s))) (wscoped (alist_set name SVForcing (l_scoped s)) s)).
        assert (I5 : ainv s5) by (apply ainv_set_cell; assumption).
        assert (T5 : cells_total s5).
        { intros name' c' Hg. unfold s5 in Hg. cbn [wscoped l_scoped] in Hg. rewrite !alist_get_set in Hg.
          destruct (str_eqb_spec name' name) as [->|Hne]; [rewrite Em; discriminate|apply (Ht _ _ Hg)]. }
        eapply convP_mono; [apply (IH s5 p2 I5 T5 Hb2)|]. intros ? s6 p6 [Hb6 G6]. split; [exact Hb6|exact G6].
      + apply convP_ret. apply (IH s p Hs Ht Hb).
  Qed.

  (* ================= the evaluation phase converges ================= *)
  Theorem eval_adequate s p eops aopss g1 g2 : ainv s -> noforcing s ->
    Forall2 sden_edge (l_edges s) eops -> Forall2 sden_astmt (l_attrs s) aopss -> Forall sprint_ok (l_prints s) ->
    Forall (lsok okfn) (l_edges s) -> Forall (lsok okfn) (l_attrs s) -> Forall (lsok okfn) (l_prints s) ->
    apply_edges eops (l_graph s) = Some g1 -> apply_attrs (concat aopss) g1 = Some g2 ->
    (forall i, (i < length (l_store s))%nat -> exists v, cevv (LVar (N.of_nat i)) v) -> cells_total s -> nob p ->
    convP (fun F => evaluate_phase t fl call F s p) (fun _ s' p' => l_graph s' = g2 /\ nob p').
  Proof.
    intros Hs Hn HFe HFa HFp Oe Oa Op Hg1 Hg2 Hall Ht Hb. unfold evaluate_phase. apply convP_get.
    apply convP_bind. eapply convP_mono; [apply (edges_conv _ _ s p g1 HFe Oe Hg1 Hs Hn Hb)|]. intros ? s1 p1 (Hb1 & I1 & N1 & G1 & K1).
    apply convP_bind. eapply convP_mono; [apply (attrs_conv _ _ s1 p1 g2 HFa Oa ltac:(rewrite G1; exact Hg2) I1 N1 Hb1)|]. intros ? s2 p2 (Hb2 & I2 & N2 & G2 & K2).
    apply convP_bind. eapply convP_mono; [apply (prints_conv _ s2 p2 HFp Op I2 N2 Hb2)|]. intros ? s3 p3 (Hb3 & I3 & N3 & G3 & K3).
    assert (K03 : keepG s s3) by (eapply keepG_trans; [exact K1|eapply keepG_trans; eauto]).
    apply convP_bind. unfold store_evaluate_all. apply convP_get.
    eapply convP_mono; [apply (force_list_conv (seq 0 (length (l_store s3))) s3 p3)|]; try assumption.
    { intros i Hi. apply in_seq in Hi. apply Hall. destruct K03 as (_ & _ & _ & _ & _ & L & _). lia. }
    intros u s4 p4 (_ & Hb4 & I4 & N4 & K4). unfold scoped_evaluate_all. apply convP_get.
    assert (Hkeys : map fst (l_scoped s4) = map fst (l_scoped s)).
    { destruct K4 as ((_ & _ & _ & _ & _ & _ & _ & Keys4) & _). destruct K03 as (_ & _ & _ & _ & _ & _ & Keys3). congruence. }
    assert (T4 : cells_total s4).
    { intros name c Ec. assert (Hin : In name (map fst (l_scoped s))).
      { rewrite <- Hkeys. apply in_map_iff. exists (name, c). split; [reflexivity|apply alist_get_In, Ec]. }
      destruct (alist_get name (l_scoped s)) as [c0|] eqn:E0; [apply (Ht _ _ E0)|]. apply alist_get_None in E0. contradiction. }
    eapply convP_mono; [apply (cells_conv _ s4 p4 I4 T4 Hb4)|]. intros ? s5 p5 [Hb5 G5]. split; [|exact Hb5].
    rewrite G5, (proj1 (proj1 K4)), G3. exact G2.
  Qed.
End Adeq.
