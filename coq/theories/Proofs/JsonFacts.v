(* Proofs/JsonFacts.v — C14, JSON half: decode o encode = id, object member order is irrelevant,
   shape of the emitted tree, sets emitted strictly sorted. *)
From TSG Require Import Model.Json Proofs.BaseFacts Proofs.OrderFacts Proofs.Containers.
From Coq Require Import Sorted Permutation.

(* ================= small tools ================= *)
Lemma opt_all_map_inv {A B} (enc : A -> B) (dec : B -> option A) (l : list A) :
  Forall (fun x => dec (enc x) = Some x) l -> opt_all (map dec (map enc l)) = Some l.
Proof. induction 1 as [|x l Hx Hl IH]; cbn [map opt_all]; [reflexivity|]. rewrite Hx, IH. reflexivity. Qed.

Lemma jlookup_with_spec {A} k (f : json -> option A) m :
  jlookup_with k f m = match jlookup k m with Some x => f x | None => None end.
Proof.
  induction m as [|[k' x] m IH]; cbn [jlookup_with jlookup]; [reflexivity|].
  destruct (str_eqb k k'); [reflexivity|exact IH].
Qed.

(* ================= round trip ================= *)
Lemma decode_encode_value v : decode_value (encode_value v) = Some v.
Proof.
  induction v using value_ind'; try reflexivity.
  - change (decode_value (encode_value (VList l))) with (option_map VList (opt_all (map decode_value (map encode_value l)))).
    rewrite opt_all_map_inv by assumption. reflexivity.
  - change (decode_value (encode_value (VSet l))) with (option_map VSet (opt_all (map decode_value (map encode_value l)))).
    rewrite opt_all_map_inv by assumption. reflexivity.
Qed.

Lemma decode_encode_attrs m : decode_attrs (encode_attrs m) = Some m.
Proof.
  unfold decode_attrs, encode_attrs. rewrite map_map.
  induction m as [|[k v] m IH]; cbn [map opt_all]; [reflexivity|].
  unfold decode_member at 1. cbn [fst snd]. rewrite decode_encode_value, IH. reflexivity.
Qed.

Lemma decode_encode_edge e : decode_edge (encode_edge e) = Some e.
Proof.
  destruct e as [s a]. unfold encode_edge. cbn [fst snd].
  change (decode_edge (JObj [(s_sink, JNum s); (s_attrs, encode_attrs a)]))
    with (match decode_attrs (encode_attrs a) with Some a' => Some (s, a') | None => None end).
  rewrite decode_encode_attrs. reflexivity.
Qed.

Lemma decode_encode_node i n : decode_node i (encode_node i n) = Some n.
Proof.
  destruct n as [a es]. unfold encode_node. cbn [g_attrs g_edges].
  change (decode_node i (JObj [(s_id, JNum i); (s_edges, JArr (map encode_edge es)); (s_attrs, encode_attrs a)]))
    with (if N.eqb i i then
            match opt_all (map decode_edge (map encode_edge es)), decode_attrs (encode_attrs a) with
            | Some es', Some a' => Some {| g_attrs := a'; g_edges := es' |}
            | _, _ => None
            end
          else None).
  rewrite N.eqb_refl, decode_encode_attrs, opt_all_map_inv; [reflexivity|].
  apply Forall_forall. intros e _. apply decode_encode_edge.
Qed.

Lemma decode_encode_nodes g : forall i, decode_nodes i (encode_nodes i g) = Some g.
Proof.
  induction g as [|n g IH]; intros i; cbn [encode_nodes decode_nodes]; [reflexivity|].
  rewrite decode_encode_node, IH. reflexivity.
Qed.

Lemma json_roundtrip_lemma g : decode_graph (encode_graph g) = Some g.
Proof. unfold decode_graph, encode_graph. apply decode_encode_nodes. Qed.

Lemma encode_graph_inj g1 g2 : encode_graph g1 = encode_graph g2 -> g1 = g2.
Proof.
  intros H. pose proof (json_roundtrip_lemma g1) as H1. rewrite H, json_roundtrip_lemma in H1. congruence.
Qed.
Lemma encode_value_inj v w : encode_value v = encode_value w -> v = w.
Proof. intros H. pose proof (decode_encode_value v) as H1. rewrite H, decode_encode_value in H1. congruence. Qed.

(* ================= member order ================= *)
(* j' is j with the members of every object (at any depth) listed in some other order *)
Inductive jperm : json -> json -> Prop :=
| jp_null : jperm JNull JNull
| jp_bool b : jperm (JBool b) (JBool b)
| jp_num n : jperm (JNum n) (JNum n)
| jp_str s : jperm (JStr s) (JStr s)
| jp_arr l l' : Forall2 jperm l l' -> jperm (JArr l) (JArr l')
| jp_obj m m' m'' :
    Forall2 (fun a b => fst a = fst b /\ jperm (snd a) (snd b)) m m' ->
    Permutation m' m'' -> jperm (JObj m) (JObj m'').

Definition member_rel (a b : str * json) : Prop := fst a = fst b /\ jperm (snd a) (snd b).

Lemma jlookup_Forall2 k m m' : Forall2 member_rel m m' ->
  match jlookup k m with
  | None => jlookup k m' = None
  | Some x => exists x', jlookup k m' = Some x' /\ jperm x x'
  end.
Proof.
  induction 1 as [|[k1 x1] [k2 x2] m m' [Hk Hx] Hm IH]; cbn [jlookup]; [reflexivity|].
  cbn [fst snd] in Hk, Hx. subst k2. destruct (str_eqb k k1); [eauto|exact IH].
Qed.

Lemma jlookup_perm k (m m' : list (str * json)) :
  Permutation m m' -> NoDup (map fst m) -> jlookup k m' = jlookup k m.
Proof.
  induction 1 as [|[k1 x1] m m' Hp IH|[k1 x1] [k2 x2] m|m m' m'' Hp1 IH1 Hp2 IH2]; intros Hnd.
  - reflexivity.
  - cbn [jlookup]. inversion Hnd; subst. rewrite IH by assumption. reflexivity.
  - cbn [jlookup]. destruct (str_eqb_spec k k2) as [->|H2]; destruct (str_eqb_spec k2 k1) as [E|H1]; try reflexivity.
    exfalso. cbn [map fst] in Hnd. inversion Hnd as [|? ? Hnotin _]; subst. apply Hnotin. left. reflexivity.
  - rewrite IH2, IH1; auto. eapply Permutation_NoDup; [|exact Hnd]. apply Permutation_map. assumption.
Qed.

Lemma Forall2_member_keys m m' : Forall2 member_rel m m' -> map fst m' = map fst m.
Proof. induction 1 as [|a b m m' [Hk _] _ IH]; cbn [map]; congruence. Qed.

(* lookups in a permuted object agree with lookups in the original, up to jperm on the member *)
Lemma jperm_obj_lookup m j' : jperm (JObj m) j' -> NoDup (map fst m) ->
  exists m'', j' = JObj m'' /\
    forall k, match jlookup k m with
              | None => jlookup k m'' = None
              | Some x => exists x', jlookup k m'' = Some x' /\ jperm x x'
              end.
Proof.
  intros H Hnd. inversion H as [| | | | |m0 m' m'' HF HP]; subst. exists m''. split; [reflexivity|].
  intros k. rewrite (jlookup_perm k _ _ HP) by (rewrite (Forall2_member_keys _ _ HF); exact Hnd).
  apply jlookup_Forall2. exact HF.
Qed.

Lemma jperm_str_inv s x : jperm (JStr s) x -> x = JStr s.
Proof. inversion 1; reflexivity. Qed.
Lemma jperm_num_inv n x : jperm (JNum n) x -> x = JNum n.
Proof. inversion 1; reflexivity. Qed.
Lemma jperm_bool_inv b x : jperm (JBool b) x -> x = JBool b.
Proof. inversion 1; reflexivity. Qed.
Lemma jperm_arr_inv l x : jperm (JArr l) x -> exists l', x = JArr l' /\ Forall2 jperm l l'.
Proof. inversion 1; eauto. Qed.

(* dispatch of decode_value on the tag found under "type" *)
Lemma dv_tag m t : jlookup s_type m = Some (JStr t) ->
  decode_value (JObj m) =
    if str_eqb t s_null then Some VNull
    else if str_eqb t s_bool then jlookup_with s_bool as_jbool m
    else if str_eqb t s_int then jlookup_with s_int as_jint m
    else if str_eqb t s_string then jlookup_with s_string as_jstr m
    else if str_eqb t s_list then
      jlookup_with s_values (fun x => match x with JArr l => option_map VList (opt_all (map decode_value l)) | _ => None end) m
    else if str_eqb t s_set then
      jlookup_with s_values (fun x => match x with JArr l => option_map VSet (opt_all (map decode_value l)) | _ => None end) m
    else if str_eqb t s_syntaxNode then jlookup_with s_id as_jsyn m
    else if str_eqb t s_graphNode then jlookup_with s_id as_jgraph m
    else None.
Proof. intros H. cbn [decode_value]. rewrite H. reflexivity. Qed.

Ltac nodup_keys := cbn [map fst]; repeat (constructor; [cbn [In]; intuition discriminate|]); constructor.

(* two-member value objects: tag + payload *)
Lemma jperm_tagged tg pk px j' : pk <> s_type ->
  jperm (JObj [(s_type, JStr tg); (pk, px)]) j' ->
  exists m'' px', j' = JObj m'' /\ jlookup s_type m'' = Some (JStr tg) /\ jlookup pk m'' = Some px' /\ jperm px px'.
Proof.
  intros Hne H. apply jperm_obj_lookup in H.
  - destruct H as (m'' & -> & Hl). exists m''.
    pose proof (Hl s_type) as Ht. cbn [jlookup] in Ht. rewrite str_eqb_refl in Ht.
    destruct Ht as (x' & Ht & Hx). apply jperm_str_inv in Hx; subst x'.
    pose proof (Hl pk) as Hp. cbn [jlookup] in Hp.
    destruct (str_eqb_spec pk s_type) as [E|_]; [contradiction|]. rewrite str_eqb_refl in Hp.
    destruct Hp as (px' & Hp & Hpx). exists px'. auto.
  - cbn [map fst]. constructor; [cbn [In]; intuition congruence|]. constructor; [intros []|constructor].
Qed.

Lemma decode_list_jperm l l' :
  Forall (fun v => forall j', jperm (encode_value v) j' -> decode_value j' = Some v) l ->
  Forall2 jperm (map encode_value l) l' -> opt_all (map decode_value l') = Some l.
Proof.
  intros HF. revert l'. induction HF as [|v l Hv Hl IH]; intros l' H2; inversion H2 as [|? y ? l'' Hh Ht]; subst; cbn [map opt_all]; [reflexivity|].
  rewrite (Hv _ Hh), (IH _ Ht). reflexivity.
Qed.

Lemma decode_value_jperm v : forall j', jperm (encode_value v) j' -> decode_value j' = Some v.
Proof.
  induction v using value_ind'; intros j' Hj; cbn [encode_value] in Hj.
  - apply jperm_obj_lookup in Hj; [|nodup_keys]. destruct Hj as (m'' & -> & Hl).
    pose proof (Hl s_type) as Ht. cbn [jlookup] in Ht. rewrite str_eqb_refl in Ht.
    destruct Ht as (x' & Ht & Hx). apply jperm_str_inv in Hx; subst x'. rewrite (dv_tag _ _ Ht). reflexivity.
  - apply jperm_tagged in Hj; [|discriminate]. destruct Hj as (m'' & px' & -> & Ht & Hp & Hx).
    apply jperm_bool_inv in Hx; subst. rewrite (dv_tag _ _ Ht).
    change (jlookup_with s_bool as_jbool m'' = Some (VBool b)). rewrite jlookup_with_spec, Hp. reflexivity.
  - apply jperm_tagged in Hj; [|discriminate]. destruct Hj as (m'' & px' & -> & Ht & Hp & Hx).
    apply jperm_num_inv in Hx; subst. rewrite (dv_tag _ _ Ht).
    change (jlookup_with s_int as_jint m'' = Some (VInt n)). rewrite jlookup_with_spec, Hp. reflexivity.
  - apply jperm_tagged in Hj; [|discriminate]. destruct Hj as (m'' & px' & -> & Ht & Hp & Hx).
    apply jperm_str_inv in Hx; subst. rewrite (dv_tag _ _ Ht).
    change (jlookup_with s_string as_jstr m'' = Some (VStr s)). rewrite jlookup_with_spec, Hp. reflexivity.
  - apply jperm_tagged in Hj; [|discriminate]. destruct Hj as (m'' & px' & -> & Ht & Hp & Hx).
    apply jperm_arr_inv in Hx. destruct Hx as (l' & -> & Hx). rewrite (dv_tag _ _ Ht).
    change (jlookup_with s_values (fun x => match x with JArr l => option_map VList (opt_all (map decode_value l)) | _ => None end) m'' = Some (VList l)).
    rewrite jlookup_with_spec, Hp, (decode_list_jperm _ _ H Hx). reflexivity.
  - apply jperm_tagged in Hj; [|discriminate]. destruct Hj as (m'' & px' & -> & Ht & Hp & Hx).
    apply jperm_arr_inv in Hx. destruct Hx as (l' & -> & Hx). rewrite (dv_tag _ _ Ht).
    change (jlookup_with s_values (fun x => match x with JArr l => option_map VSet (opt_all (map decode_value l)) | _ => None end) m'' = Some (VSet l)).
    rewrite jlookup_with_spec, Hp, (decode_list_jperm _ _ H Hx). reflexivity.
  - apply jperm_tagged in Hj; [|discriminate]. destruct Hj as (m'' & px' & -> & Ht & Hp & Hx).
    apply jperm_num_inv in Hx; subst. rewrite (dv_tag _ _ Ht).
    change (jlookup_with s_id as_jsyn m'' = Some (VSyn n)). rewrite jlookup_with_spec, Hp. reflexivity.
  - apply jperm_tagged in Hj; [|discriminate]. destruct Hj as (m'' & px' & -> & Ht & Hp & Hx).
    apply jperm_num_inv in Hx; subst. rewrite (dv_tag _ _ Ht).
    change (jlookup_with s_id as_jgraph m'' = Some (VGraph n)). rewrite jlookup_with_spec, Hp. reflexivity.
Qed.

(* attribute objects: decoding a permuted object yields a permutation of the association list *)
Lemma opt_all_perm {A B} (f : A -> option B) (l l' : list A) : Permutation l l' ->
  forall r, opt_all (map f l) = Some r -> exists r', opt_all (map f l') = Some r' /\ Permutation r r'.
Proof.
  induction 1 as [|x l l' Hp IH|x y l|l l' l'' Hp1 IH1 Hp2 IH2]; intros r Hr.
  - exists r. auto.
  - cbn [map opt_all] in *. destruct (f x) as [b|]; [|discriminate].
    destruct (opt_all (map f l)) as [r0|] eqn:E; [|discriminate]. inversion Hr; subst.
    destruct (IH _ eq_refl) as (r' & -> & Hr'). exists (b :: r'). auto.
  - cbn [map opt_all] in *. destruct (f x) as [b|]; destruct (f y) as [c|]; try discriminate.
    destruct (opt_all (map f l)) as [r0|]; [|discriminate]. inversion Hr; subst.
    exists (b :: c :: r0). split; [reflexivity|apply perm_swap].
  - destruct (IH1 _ Hr) as (r1 & H1 & P1). destruct (IH2 _ H1) as (r2 & H2 & P2).
    exists r2. split; [assumption|]. eapply Permutation_trans; eassumption.
Qed.

Lemma decode_attrs_jperm m j' : jperm (encode_attrs m) j' ->
  exists m2, decode_attrs j' = Some m2 /\ Permutation m m2.
Proof.
  unfold encode_attrs. intros H. inversion H as [| | | | |m0 m' m'' HF HP]; subst.
  assert (Hm' : opt_all (map decode_member m') = Some m).
  { clear H HP. revert m' HF. induction m as [|[k v] m IH]; intros m' HF; inversion HF as [|a [k2 x2] ? ? [Hk Hx] HF']; subst; cbn [map opt_all]; [reflexivity|].
    cbn [fst snd] in Hk, Hx. subst k2. unfold decode_member at 1. cbn [fst snd].
    rewrite (decode_value_jperm _ _ Hx), (IH _ HF'). reflexivity. }
  destruct (opt_all_perm _ _ _ HP _ Hm') as (m2 & H2 & P2). exists m2. auto.
Qed.

(* graphs equal up to the order of attribute association lists *)
Definition edge_eqv (e f : N * amap) : Prop := fst e = fst f /\ Permutation (snd e) (snd f).
Definition gnode_eqv (n n' : gnode) : Prop :=
  Permutation (g_attrs n) (g_attrs n') /\ Forall2 edge_eqv (g_edges n) (g_edges n').
Definition graph_eqv (g g' : graph) : Prop := Forall2 gnode_eqv g g'.

(* ... which, for well-formed graphs, means: the same attribute MAPS *)
Definition same_attrs (a b : amap) : Prop := forall k, attrs_get a k = attrs_get b k.
Definition graph_same_maps (g g' : graph) : Prop :=
  Forall2 (fun n n' => same_attrs (g_attrs n) (g_attrs n') /\
                       Forall2 (fun e f => fst e = fst f /\ same_attrs (snd e) (snd f)) (g_edges n) (g_edges n')) g g'.

Lemma perm_same_attrs (a b : amap) : NoDup (map fst a) -> Permutation a b -> same_attrs a b.
Proof.
  intros Hnd Hp k. unfold attrs_get.
  assert (Hnd' : NoDup (map fst b)) by (eapply Permutation_NoDup; [apply Permutation_map; exact Hp|exact Hnd]).
  destruct (alist_get k a) as [v|] eqn:E.
  - symmetry. apply alist_In_get; [assumption|]. eapply Permutation_in; [exact Hp|]. apply alist_get_In. assumption.
  - symmetry. apply alist_get_None. rewrite alist_get_None in E. intros Hin. apply E.
    eapply Permutation_in; [symmetry; apply Permutation_map; exact Hp|assumption].
Qed.

Lemma edges_eqv_same_maps (es fs : list (N * amap)) :
  Forall (fun e => attrs_wf (snd e)) es -> Forall2 edge_eqv es fs ->
  Forall2 (fun e f => fst e = fst f /\ same_attrs (snd e) (snd f)) es fs.
Proof.
  intros Hwf H. induction H as [|e f es fs [Hs Hp] Hes IH]; [constructor|].
  inversion Hwf; subst. constructor; [|apply IH; assumption].
  split; [assumption|]. apply perm_same_attrs; assumption.
Qed.

Lemma graph_eqv_same_maps g g' : graph_wf g -> graph_eqv g g' -> graph_same_maps g g'.
Proof.
  intros Hwf H. induction H as [|n n' g g' [Ha He] Hg IH]; [constructor|].
  inversion Hwf as [|? ? (Hna & _ & Hne) Hwf']; subst. constructor; [|apply IH; assumption]. split.
  - apply perm_same_attrs; assumption.
  - apply edges_eqv_same_maps; assumption.
Qed.

Lemma decode_edge_jperm e j' : jperm (encode_edge e) j' -> exists e', decode_edge j' = Some e' /\ edge_eqv e e'.
Proof.
  destruct e as [s a]. unfold encode_edge. cbn [fst snd]. intros H.
  apply jperm_obj_lookup in H; [|nodup_keys]. destruct H as (m'' & -> & Hl).
  pose proof (Hl s_sink) as H1. pose proof (Hl s_attrs) as H2. cbn [jlookup] in H1, H2.
  rewrite str_eqb_refl in H1. change (str_eqb s_attrs s_sink) with false in H2. rewrite str_eqb_refl in H2. cbv iota in H2.
  destruct H1 as (x1 & H1 & Hx1). apply jperm_num_inv in Hx1; subst.
  destruct H2 as (x2 & H2 & Hx2). apply decode_attrs_jperm in Hx2. destruct Hx2 as (a2 & Ha2 & Pa).
  exists (s, a2). unfold decode_edge. rewrite H1, H2, Ha2. split; [reflexivity|]. split; [reflexivity|exact Pa].
Qed.

Lemma decode_edges_jperm es l' : Forall2 jperm (map encode_edge es) l' ->
  exists es', opt_all (map decode_edge l') = Some es' /\ Forall2 edge_eqv es es'.
Proof.
  revert l'. induction es as [|e es IH]; intros l' H; inversion H as [|? y ? l'' Hh Ht]; subst; cbn [map opt_all].
  - exists []. auto.
  - destruct (decode_edge_jperm _ _ Hh) as (e' & -> & He). destruct (IH _ Ht) as (es' & -> & Hes).
    exists (e' :: es'). auto.
Qed.

Lemma decode_node_jperm i n j' : jperm (encode_node i n) j' -> exists n', decode_node i j' = Some n' /\ gnode_eqv n n'.
Proof.
  destruct n as [a es]. unfold encode_node. cbn [g_attrs g_edges]. intros H.
  apply jperm_obj_lookup in H; [|nodup_keys]. destruct H as (m'' & -> & Hl).
  pose proof (Hl s_id) as H1. pose proof (Hl s_edges) as H2. pose proof (Hl s_attrs) as H3. cbn [jlookup] in H1, H2, H3.
  rewrite str_eqb_refl in H1.
  change (str_eqb s_edges s_id) with false in H2. rewrite str_eqb_refl in H2. cbv iota in H2.
  change (str_eqb s_attrs s_id) with false in H3. change (str_eqb s_attrs s_edges) with false in H3. rewrite str_eqb_refl in H3. cbv iota in H3.
  destruct H1 as (x1 & H1 & Hx1). apply jperm_num_inv in Hx1; subst.
  destruct H2 as (x2 & H2 & Hx2). apply jperm_arr_inv in Hx2. destruct Hx2 as (l' & -> & Hx2).
  destruct (decode_edges_jperm _ _ Hx2) as (es' & Hes' & Pes).
  destruct H3 as (x3 & H3 & Hx3). apply decode_attrs_jperm in Hx3. destruct Hx3 as (a2 & Ha2 & Pa).
  exists {| g_attrs := a2; g_edges := es' |}. unfold decode_node. rewrite H1, H2, H3, N.eqb_refl, Hes', Ha2.
  split; [reflexivity|]. split; assumption.
Qed.

Lemma decode_nodes_jperm g : forall i l', Forall2 jperm (encode_nodes i g) l' ->
  exists g', decode_nodes i l' = Some g' /\ graph_eqv g g'.
Proof.
  induction g as [|n g IH]; intros i l' H; cbn [encode_nodes] in H; inversion H as [|? y ? l'' Hh Ht]; subst; cbn [decode_nodes].
  - exists []. split; [reflexivity|constructor].
  - destruct (decode_node_jperm _ _ _ Hh) as (n' & -> & Hn). destruct (IH _ _ Ht) as (g' & -> & Hg).
    exists (n' :: g'). split; [reflexivity|constructor; assumption].
Qed.

Lemma json_member_order_lemma g j' : jperm (encode_graph g) j' ->
  exists g', decode_graph j' = Some g' /\ graph_eqv g g'.
Proof.
  unfold encode_graph. intros H. apply jperm_arr_inv in H. destruct H as (l' & -> & H).
  unfold decode_graph. apply decode_nodes_jperm. assumption.
Qed.

Lemma json_injective_lemma g1 g2 : jperm (encode_graph g1) (encode_graph g2) -> graph_eqv g1 g2.
Proof.
  intros H. destruct (json_member_order_lemma _ _ H) as (g' & Hd & He).
  rewrite json_roundtrip_lemma in Hd. inversion Hd; subst. assumption.
Qed.

(* ================= shape ================= *)
Lemma nth_error_encode_nodes g : forall k i,
  nth_error (encode_nodes k g) i = option_map (encode_node (k + N.of_nat i)) (nth_error g i).
Proof.
  induction g as [|n g IH]; intros k [|i]; cbn [encode_nodes nth_error option_map]; try reflexivity.
  - rewrite N.add_0_r. reflexivity.
  - rewrite IH. replace (k + 1 + N.of_nat i) with (k + N.of_nat (S i)) by lia. reflexivity.
Qed.
Lemma length_encode_nodes g : forall k, length (encode_nodes k g) = length g.
Proof. induction g as [|n g IH]; intros k; cbn [encode_nodes length]; [reflexivity|]. rewrite IH. reflexivity. Qed.

Definition obj_keys (j : json) : list str := match j with JObj m => map fst m | _ => [] end.
Lemma encode_attrs_keys m : obj_keys (encode_attrs m) = map fst m.
Proof. unfold encode_attrs, obj_keys. rewrite map_map. reflexivity. Qed.

Lemma json_shape_lemma g : graph_wf g ->
  exists l, encode_graph g = JArr l /\ length l = length g /\
  forall i n, nth_error g i = Some n ->
    nth_error l i = Some (JObj [(s_id, JNum (N.of_nat i));
                                (s_edges, JArr (map (fun e => JObj [(s_sink, JNum (fst e)); (s_attrs, encode_attrs (snd e))]) (g_edges n)));
                                (s_attrs, encode_attrs (g_attrs n))]) /\
    StronglySorted N.lt (map fst (g_edges n)) /\
    NoDup (obj_keys (encode_attrs (g_attrs n))) /\
    Forall (fun e => NoDup (obj_keys (encode_attrs (snd e)))) (g_edges n).
Proof.
  intros Hwf. exists (encode_nodes 0 g). split; [reflexivity|]. split; [apply length_encode_nodes|].
  intros i n Hn. rewrite nth_error_encode_nodes, Hn. cbn [option_map]. rewrite N.add_0_l.
  unfold graph_wf in Hwf. rewrite Forall_forall in Hwf. destruct (Hwf n (nth_error_In _ _ Hn)) as (Ha & He & Hea).
  split; [reflexivity|]. split; [exact He|]. split.
  - rewrite encode_attrs_keys. exact Ha.
  - eapply Forall_impl; [|exact Hea]. intros e H. rewrite encode_attrs_keys. exact H.
Qed.

Lemma json_value_tags_lemma v :
  exists payload, encode_value v = JObj ((s_type, JStr (type_name v)) :: payload) /\
                  ~ In s_type (map fst payload).
Proof. destruct v; eexists; (split; [reflexivity|]); cbn [map fst In]; intuition discriminate. Qed.

Lemma type_name_tag v w : type_name v = type_name w -> tag v = tag w.
Proof. destruct v, w; cbn [type_name tag]; intros H; try reflexivity; discriminate H. Qed.

(* ================= sets ================= *)
Lemma sets_sorted_nodup_lemma l :
  let s := set_of_list l in
  encode_value (VSet s) = JObj [(s_type, JStr s_set); (s_values, JArr (map encode_value s))] /\
  StronglySorted value_lt s /\ NoDup (map encode_value s) /\ (forall x, In x s <-> In x l).
Proof.
  cbn zeta. split; [reflexivity|]. split; [apply set_of_list_sorted|]. split; [|apply set_of_list_In].
  pose proof (sorted_lt_nodup _ (set_of_list_sorted l)) as Hnd.
  induction Hnd as [|x s Hx Hs IH]; cbn [map]; constructor; [|assumption].
  intros Hin. apply in_map_iff in Hin. destruct Hin as (y & Hy & Hin). apply encode_value_inj in Hy. subst. contradiction.
Qed.

(* any set value that is strictly sorted in memory is emitted strictly sorted, and decodes to itself *)
Lemma set_emitted_in_order_lemma s : StronglySorted value_lt s ->
  exists js, encode_value (VSet s) = JObj [(s_type, JStr s_set); (s_values, JArr js)] /\
             opt_all (map decode_value js) = Some s /\ NoDup js.
Proof.
  intros Hs. exists (map encode_value s). split; [reflexivity|]. split.
  - apply opt_all_map_inv. apply Forall_forall. intros x _. apply decode_encode_value.
  - pose proof (sorted_lt_nodup _ Hs) as Hnd.
    induction Hnd as [|x s' Hx Hs' IH]; cbn [map]; constructor.
    + intros Hin. apply in_map_iff in Hin. destruct Hin as (y & Hy & Hin). apply encode_value_inj in Hy. subst. contradiction.
    + apply IH. inversion Hs; assumption.
Qed.

(* ================= jperm is reflexive and contains key-sorting ================= *)
Section JsonInd.
  Variable P : json -> Prop.
  Hypothesis Hnull : P JNull.
  Hypothesis Hbool : forall b, P (JBool b).
  Hypothesis Hnum : forall n, P (JNum n).
  Hypothesis Hstr : forall s, P (JStr s).
  Hypothesis Harr : forall l, Forall P l -> P (JArr l).
  Hypothesis Hobj : forall m, Forall (fun kv => P (snd kv)) m -> P (JObj m).
  Fixpoint json_ind' (j : json) : P j :=
    match j with
    | JNull => Hnull | JBool b => Hbool b | JNum n => Hnum n | JStr s => Hstr s
    | JArr l => Harr l ((fix go (l : list json) : Forall P l :=
                           match l with [] => Forall_nil _ | x :: l' => Forall_cons x (json_ind' x) (go l') end) l)
    | JObj m => Hobj m ((fix go (m : list (str * json)) : Forall (fun kv => P (snd kv)) m :=
                           match m with [] => Forall_nil _ | kv :: m' => Forall_cons kv (json_ind' (snd kv)) (go m') end) m)
    end.
End JsonInd.

Lemma jperm_refl j : jperm j j.
Proof.
  induction j using json_ind'; try constructor.
  - induction H; constructor; auto.
  - apply jp_obj with (m' := m); [|reflexivity]. induction H; constructor; auto.
Qed.

Lemma jperm_jsort j : jperm j (jsort j).
Proof.
  induction j using json_ind'; cbn [jsort]; try constructor.
  - induction H; cbn [map]; constructor; auto.
  - apply jp_obj with (m' := map (fun kv => (fst kv, jsort (snd kv))) m); [|apply sort_by_perm].
    induction H; cbn [map]; constructor; auto.
Qed.

Lemma json_sorted_members_lemma g :
  exists g', decode_graph (jsort (encode_graph g)) = Some g' /\ graph_eqv g g'.
Proof. apply json_member_order_lemma, jperm_jsort. Qed.

(* ================= statements in the form used by Props/C14.v ================= *)
Lemma json_member_order_full_lemma : forall g j', jperm (encode_graph g) j' ->
  exists g', decode_graph j' = Some g' /\ graph_eqv g g' /\ (graph_wf g -> graph_same_maps g g').
Proof.
  intros g j' H. destruct (json_member_order_lemma g j' H) as (g' & Hd & He).
  exists g'. split; [exact Hd|]. split; [exact He|]. intros Hwf. exact (graph_eqv_same_maps g g' Hwf He).
Qed.
Lemma json_injective_full_lemma : forall g1 g2, jperm (encode_graph g1) (encode_graph g2) ->
  graph_eqv g1 g2 /\ (graph_wf g1 -> graph_same_maps g1 g2).
Proof.
  intros g1 g2 H. pose proof (json_injective_lemma g1 g2 H) as He. split; [exact He|].
  intros Hwf. exact (graph_eqv_same_maps g1 g2 Hwf He).
Qed.
Lemma json_value_tags_full_lemma : forall v,
  (exists payload, encode_value v = JObj ((s_type, JStr (type_name v)) :: payload) /\ ~ In s_type (map fst payload)) /\
  (forall w, type_name v = type_name w -> tag v = tag w).
Proof. intros v. split; [apply json_value_tags_lemma | intros w; apply type_name_tag]. Qed.
Lemma value_order_lemma : forall a b c,
  (value_cmp a b = Eq <-> a = b) /\
  value_cmp b a = CompOpp (value_cmp a b) /\
  (value_cmp a b = Lt -> value_cmp b c = Lt -> value_cmp a c = Lt).
Proof.
  intros a b c. split; [apply value_cmp_eq|]. split; [apply value_cmp_antisym|apply value_cmp_trans].
Qed.
