(* Proofs/BlockPermDepth.v — C08, part 2b: a successful execution of a block leaves the number of local-variable
   frames unchanged (every frame pushed by a loop, an `if` arm or a comprehension is popped again), and forcing
   lazy values never touches the local variables.  Unary invariant; all programs (no fragment needed). *)
From TSG Require Import Model.Lazy Proofs.BaseFacts Proofs.MonadFacts.

Definition keepL {A} (m : M lstate A) : Prop := forall s p a s' p', m s p = Ok (a, s', p') -> l_locals s' = l_locals s.
Definition keepD {A} (m : M lstate A) : Prop := forall s p a s' p', m s p = Ok (a, s', p') -> length (l_locals s') = length (l_locals s).

Lemma keepD_of_L {A} (m : M lstate A) : keepL m -> keepD m.
Proof. intros H s p a s' p' E. rewrite (H _ _ _ _ _ E). reflexivity. Qed.

Section Closure.
  Lemma keepL_ret A (a : A) : keepL (ret a).
  Proof. intros s p a' s' p' H. apply ret_ok in H as (_ & -> & _). reflexivity. Qed.
  Lemma keepL_bind A B (m : M lstate A) (f : A -> M lstate B) : keepL m -> (forall a, keepL (f a)) -> keepL (bind m f).
  Proof. intros Hm Hf s p b s' p' H. apply bind_ok in H as (a & s1 & p1 & E & H). rewrite (Hf a _ _ _ _ _ H). apply (Hm _ _ _ _ _ E). Qed.
  Lemma keepD_bind A B (m : M lstate A) (f : A -> M lstate B) : keepD m -> (forall a, keepD (f a)) -> keepD (bind m f).
  Proof. intros Hm Hf s p b s' p' H. apply bind_ok in H as (a & s1 & p1 & E & H). rewrite (Hf a _ _ _ _ _ H). apply (Hm _ _ _ _ _ E). Qed.
  Lemma keepL_no A (m : M lstate A) : (forall s p a s' p', m s p <> Ok (a, s', p')) -> keepL m.
  Proof. intros H s p a s' p' E. exfalso. eapply H; eauto. Qed.
  Lemma keepL_ctx A c (m : M lstate A) : keepL m -> keepL (ctx_wrap c m).
  Proof. intros Hm s p a s' p' H. apply ctx_wrap_ok in H. eapply Hm; eauto. Qed.
  Lemma keepD_ctx A c (m : M lstate A) : keepD m -> keepD (ctx_wrap c m).
  Proof. intros Hm s p a s' p' H. apply ctx_wrap_ok in H. eapply Hm; eauto. Qed.
  Lemma keepL_get A (f : lstate -> M lstate A) : (forall s0, keepL (f s0)) -> keepL (s <- get_state ;; f s).
  Proof. intros H s p a s' p' E. unfold bind, get_state in E. eapply H; eauto. Qed.
  Lemma keepD_get A (f : lstate -> M lstate A) : (forall s0, keepD (f s0)) -> keepD (s <- get_state ;; f s).
  Proof. intros H s p a s' p' E. unfold bind, get_state in E. eapply H; eauto. Qed.
  Lemma keepL_upd (f : lstate -> lstate) : (forall s, l_locals (f s) = l_locals s) -> keepL (upd f).
  Proof. intros H s p a s' p' E. unfold upd in E. apply modify_ok in E as (-> & _). apply H. Qed.
  Lemma keepL_fail A e : keepL (@fail lstate A e). Proof. apply keepL_no. discriminate. Qed.
  Lemma keepL_fail_in A c e : keepL (@fail_in A c e). Proof. apply keepL_no. discriminate. Qed.
  Lemma keepL_panic A x : keepL (@panic lstate A x). Proof. apply keepL_no. discriminate. Qed.
  Lemma keepL_oof A : keepL (@out_of_fuel lstate A). Proof. apply keepL_no. discriminate. Qed.
  Lemma keepL_lift A (r : res A) : keepL (lift r).
  Proof. intros s p a s' p' E. apply lift_ok in E as (_ & -> & _). reflexivity. Qed.
  Lemma keepL_poll l : keepL (lpoll l).
  Proof. intros s p a s' p' E. unfold lpoll in E. apply poll_ok in E as (-> & _). reflexivity. Qed.
  Lemma keepL_mapM A B (f : A -> M lstate B) l : (forall x, keepL (f x)) -> keepL (mapM f l).
  Proof. intros H. induction l as [|x l IH]; cbn [mapM]; [apply keepL_ret|]. apply keepL_bind; [apply H|]. intros y. apply keepL_bind; [exact IH|]. intros ys. apply keepL_ret. Qed.
  Lemma keepL_iterM A (f : A -> M lstate unit) l : (forall x, keepL (f x)) -> keepL (iterM f l).
  Proof. intros H. induction l as [|x l IH]; cbn [iterM]; [apply keepL_ret|]. apply keepL_bind; [apply H|]. intros _. exact IH. Qed.
  Lemma keepD_mapM A B (f : A -> M lstate B) l : (forall x, keepD (f x)) -> keepD (mapM f l).
  Proof. intros H. induction l as [|x l IH]; cbn [mapM]; [apply keepD_of_L, keepL_ret|]. apply keepD_bind; [apply H|]. intros y. apply keepD_bind; [exact IH|]. intros ys. apply keepD_of_L, keepL_ret. Qed.
  Lemma keepD_iterM A (f : A -> M lstate unit) l : (forall x, keepD (f x)) -> keepD (iterM f l).
  Proof. intros H. induction l as [|x l IH]; cbn [iterM]; [apply keepD_of_L, keepL_ret|]. apply keepD_bind; [apply H|]. intros _. exact IH. Qed.

  Lemma keepL_set_lgraph g : keepL (set_lgraph g). Proof. apply keepL_upd. reflexivity. Qed.
  Lemma keepL_set_lstore x : keepL (set_lstore x). Proof. apply keepL_upd. reflexivity. Qed.
  Lemma keepL_set_lscoped x : keepL (set_lscoped x). Proof. apply keepL_upd. reflexivity. Qed.
  Lemma keepL_set_lparams x : keepL (set_lparams x). Proof. apply keepL_upd. reflexivity. Qed.
  Lemma keepL_push_lstmt st : keepL (push_lstmt st). Proof. apply keepL_upd. intros s. destruct st; reflexivity. Qed.
  (* a frame is pushed, the body keeps the depth, the frame is popped *)
  Lemma keepD_framed A (body : M lstate A) (k : A -> M lstate A) : keepD body -> (forall a, keepL (k a)) ->
    keepD (lpush_frame ;;; x <- body ;; lpop_frame ;;; k x).
  Proof.
    intros Hb Hk s p a s' p' H. apply bind_ok in H as (u & s1 & p1 & E1 & H). apply bind_ok in H as (x & s2 & p2 & E2 & H).
    apply bind_ok in H as (u3 & s3 & p3 & E3 & H). rewrite (Hk x _ _ _ _ _ H). pose proof (Hb _ _ _ _ _ E2) as Hd.
    unfold lpush_frame, bind, get_state, set_llocals, upd, modify in E1. inversion E1; subst s1 p1. cbn [l_locals] in Hd.
    unfold lpop_frame, bind, get_state in E3. destruct (l_locals s2) as [|f up] eqn:El; [discriminate|].
    unfold set_llocals, upd, modify in E3. inversion E3; subst s3. cbn [l_locals]. cbn [length] in Hd. lia.
  Qed.
  Lemma keepD_clear : keepD lclear_frame.
  Proof.
    intros s p a s' p' H. unfold lclear_frame, bind, get_state, set_llocals, upd, modify in H. inversion H; subst. cbn [l_locals].
    destruct (l_locals s); reflexivity.
  Qed.
End Closure.

Section Interp.
  Context {rx : Type}.
  Variables (t : tree) (fl : file) (cfg : config) (glob : globals) (regexes : list rx)
            (find : rx -> str -> option (list (option (N * N))))
            (call : ident -> graph -> list value -> res (value * graph)).

  Ltac kl_step :=
    lazymatch goal with
    | |- keepL (ret _) => apply keepL_ret
    | |- keepL (set_lgraph _) => apply keepL_set_lgraph
    | |- keepL (set_lstore _) => apply keepL_set_lstore
    | |- keepL (set_lscoped _) => apply keepL_set_lscoped
    | |- keepL (set_lparams _) => apply keepL_set_lparams
    | |- keepL (push_lstmt _) => apply keepL_push_lstmt
    | |- keepL (lpoll _) => apply keepL_poll
    | |- keepL (panic _) => apply keepL_panic
    | |- keepL out_of_fuel => apply keepL_oof
    | |- keepL (fail _) => apply keepL_fail
    | |- keepL (fail_in _ _) => apply keepL_fail_in
    | |- keepL (lift _) => apply keepL_lift
    | |- keepL (bind get_state _) => apply keepL_get; intros ?
    | |- keepL (bind _ _) => apply keepL_bind; [|intros ?]
    | |- keepL (ctx_wrap _ _) => apply keepL_ctx
    | |- keepL (mapM _ _) => apply keepL_mapM; intros ?
    | |- keepL (iterM _ _) => apply keepL_iterM; intros ?
    | |- keepL (match ?x with _ => _ end) => destruct x
    end.
  Ltac kl := repeat kl_step.

  Lemma keepL_lpoll_n n l : keepL (lpoll_n n l).
  Proof. induction n as [|n IH]; cbn [lpoll_n]; [apply keepL_ret|]. apply keepL_bind; [apply keepL_poll|intros _; exact IH]. Qed.
  Lemma keepL_ladd_node : keepL ladd_node. Proof. unfold ladd_node. kl. Qed.
  Lemma keepL_ladd_node_attr n k v : keepL (ladd_node_attr n k v). Proof. unfold ladd_node_attr. kl. Qed.
  Lemma keepL_lopt_node_attr n o v : keepL (lopt_node_attr n o v). Proof. destruct o; cbn [lopt_node_attr]; [apply keepL_ladd_node_attr|apply keepL_ret]. Qed.
  Lemma keepL_store_add lv dbg : keepL (store_add lv dbg). Proof. unfold store_add. kl. Qed.
  Lemma keepL_store_set_state loc st : keepL (store_set_state loc st). Proof. unfold store_set_state. kl. Qed.
  Lemma keepL_cell_get name : keepL (cell_get name). Proof. unfold cell_get. kl. Qed.
  Lemma keepL_cell_set name v : keepL (cell_set name v). Proof. unfold cell_set. kl. Qed.
  Lemma keepL_scoped_store_add sc name v dbg : keepL (scoped_store_add sc name v dbg).
  Proof. unfold scoped_store_add. apply keepL_bind; [apply keepL_cell_get|intros c]. destruct c as [[| |]|]; first [apply keepL_cell_set | apply keepL_fail]. Qed.
  Lemma keepL_lpush_param v : keepL (lpush_param v). Proof. unfold lpush_param. kl. Qed.
  Lemma keepL_ldrain_params n : keepL (ldrain_params n). Proof. unfold ldrain_params. kl. Qed.
  Lemma keepL_lcall f args : keepL (lcall_function call f args). Proof. unfold lcall_function. kl. Qed.
  Lemma keepL_lfull_match_node le : keepL (lfull_match_node le). Proof. unfold lfull_match_node. kl. Qed.

  Lemma keepL_force_pairs ev : (forall sc, keepL (ev sc)) -> forall ps values dbgs, keepL (force_pairs ev ps values dbgs).
  Proof.
    intros Hev. induction ps as [|[[scope v] dbg] ps IHp]; intros values dbgs; cbn [force_pairs]; [apply keepL_ret|].
    apply keepL_bind; [apply keepL_ctx, keepL_ctx, Hev|intros n].
    destruct (nmap_get values n); [|apply IHp]. destruct (dbg_get dbgs n); [apply keepL_fail_in|apply keepL_panic].
  Qed.

  Notation eval_lv' := (eval_lv t fl call).
  Notation force_thunk' := (force_thunk t fl call).
  Notation force_scoped' := (force_scoped t fl call).
  Lemma keepL_eval_all : forall fuel,
    (forall lv, keepL (eval_lv' fuel lv)) /\ (forall loc, keepL (force_thunk' fuel loc)) /\ (forall name cell, keepL (force_scoped' fuel name cell)).
  Proof.
    induction fuel as [|fuel (IHe & IHt & IHs)]; [repeat split; intros; apply keepL_oof|].
    repeat split.
    - intros lv. destruct lv; cbn [eval_lv]; (apply keepL_bind; [apply keepL_poll|intros _]).
      + apply keepL_ret.
      + apply keepL_bind; [apply keepL_mapM, IHe|intros vs; apply keepL_ret].
      + apply keepL_bind; [apply keepL_mapM, IHe|intros vs; apply keepL_ret].
      + apply IHt.
      + apply keepL_bind.
        { apply keepL_ctx. apply keepL_bind; [apply IHe|intros sv]. apply keepL_lift. }
        intros n. apply keepL_bind; [apply keepL_cell_get|intros c]. destruct c as [cell|]; [|apply keepL_fail].
        apply keepL_bind; [apply keepL_cell_set|intros _]. apply keepL_bind; [apply IHs|intros map]. cbv zeta.
        apply keepL_bind; [apply keepL_cell_set|intros _].
        match goal with |- keepL (match ?x with _ => _ end) => destruct x end; [apply IHe|apply keepL_fail].
      + apply keepL_bind; [apply keepL_iterM; intros a; apply keepL_bind; [apply IHe|intros v; apply keepL_lpush_param]|intros _].
        apply keepL_bind; [apply keepL_ldrain_params|intros ps; apply keepL_lcall].
    - intros loc. cbn [force_thunk]. apply keepL_get. intros s.
      destruct (nth_error (l_store s) (N.to_nat loc)) as [th|]; [|apply keepL_panic].
      apply keepL_ctx. destruct (th_state th); [|apply keepL_fail|apply keepL_ret].
      apply keepL_bind; [apply keepL_store_set_state|intros _]. apply keepL_bind; [apply IHe|intros v].
      apply keepL_bind; [apply keepL_store_set_state|intros _; apply keepL_ret].
    - intros name cell. cbn [force_scoped]. destruct cell as [pairs| |map]; [|apply keepL_fail|apply keepL_ret].
      apply keepL_force_pairs. intros scope. apply keepL_bind; [exact (IHe scope)|intros sv]. apply keepL_lift.
  Qed.
  Lemma keepL_eval_lv fuel lv : keepL (eval_lv' fuel lv). Proof. apply keepL_eval_all. Qed.

  (* ---- variables: the depth is kept ---- *)
  Lemma varmap_add_len (l : varmap lvalue) k v mu l' : varmap_add l k v mu = inl l' -> length l' = length l.
  Proof. destruct l as [|f up]; cbn [varmap_add]; [discriminate|]. destruct (alist_get k f); [discriminate|]. intros [= <-]. reflexivity. Qed.
  Lemma varmap_set_len k v : forall (l l' : varmap lvalue), varmap_set l k v = inl l' -> length l' = length l.
  Proof.
    induction l as [|f up IH]; intros l'; cbn [varmap_set]; [discriminate|]. destruct (alist_get k f) as [[v0 [|]]|]; try discriminate.
    - intros [= <-]. reflexivity.
    - destruct (varmap_set up k v) as [up'|e] eqn:Eu; [|discriminate]. intros [= <-]. cbn [length]. rewrite (IH up' eq_refl). reflexivity.
  Qed.
  Lemma keepD_set_same (x : varmap lvalue) s0 : length x = length (l_locals s0) ->
    forall s p a s' p', l_locals s = l_locals s0 -> set_llocals x s p = Ok (a, s', p') -> length (l_locals s') = length (l_locals s).
  Proof. intros Hx s p a s' p' Hs E. unfold set_llocals, upd, modify in E. inversion E; subst. cbn [l_locals]. congruence. Qed.
  Lemma keepL_lunscoped_get name : keepL (lunscoped_get glob name).
  Proof. unfold lunscoped_get. destruct (globals_get glob name); [apply keepL_ret|]. kl. Qed.
  Lemma keepD_lunscoped_add le name v mu : keepD (lunscoped_add glob le name v mu).
  Proof.
    unfold lunscoped_add. destruct (globals_get glob name); [apply keepD_of_L, keepL_fail|].
    intros s p a s' p' H. apply bind_ok in H as (var & s1 & p1 & E1 & H). rewrite <- (keepL_store_add _ _ _ _ _ _ _ E1).
    unfold bind, get_state in H. destruct (varmap_add (l_locals s1) name var mu) as [l'|e] eqn:Ea; [|discriminate].
    unfold set_llocals, upd, modify in H. inversion H; subst. cbn [l_locals]. eapply varmap_add_len; eauto.
  Qed.
  Lemma keepD_lunscoped_set le name v : keepD (lunscoped_set glob le name v).
  Proof.
    unfold lunscoped_set. destruct (globals_get glob name); [apply keepD_of_L, keepL_fail|].
    intros s p a s' p' H. apply bind_ok in H as (var & s1 & p1 & E1 & H). rewrite <- (keepL_store_add _ _ _ _ _ _ _ E1).
    unfold bind, get_state in H. destruct (varmap_set (l_locals s1) name var) as [l'|e] eqn:Ea; [|destruct (varmap_get (l_locals s1) name); discriminate].
    unfold set_llocals, upd, modify in H. inversion H; subst. cbn [l_locals]. eapply varmap_set_len; eauto.
  Qed.

  (* ---- execution phase ---- *)
  Notation leval' := (leval t fl glob call).
  Lemma keepD_leval : forall fuel le e, keepD (leval' fuel le e).
  Proof.
    induction fuel as [|fuel IH]; intros le e; [apply keepD_of_L, keepL_oof|].
    assert (Heager : forall e', keepD (lv <- leval' fuel le e' ;; eval_lv' (S fuel + default_eval_fuel) lv)).
    { intros e'. apply keepD_bind; [apply IH|intros lv; apply keepD_of_L, keepL_eval_lv]. }
    assert (Hcomp : forall elem var value,
      keepD (lv <- (lv <- leval' fuel le value ;; eval_lv' (S fuel + default_eval_fuel) lv) ;; vals <- lift (as_list lv) ;;
           lpush_frame ;;;
           out <- mapM (fun v => lclear_frame ;;; lunscoped_add glob le var (LValue v) false ;;; leval' fuel le elem) vals ;;
           lpop_frame ;;; ret out)).
    { intros elem var value. apply keepD_bind; [apply Heager|intros lv]. apply keepD_bind; [apply keepD_of_L, keepL_lift|intros vals].
      apply keepD_framed; [|intros; apply keepL_ret]. apply keepD_mapM. intros v. apply keepD_bind; [apply keepD_clear|intros _].
      apply keepD_bind; [apply keepD_lunscoped_add|intros _]. apply IH. }
    destruct e; cbn [leval]; try (apply keepD_of_L; apply keepL_ret).
    - apply keepD_bind; [apply keepD_mapM; intros; apply IH|intros; apply keepD_of_L, keepL_ret].
    - apply keepD_bind; [apply keepD_mapM; intros; apply IH|intros; apply keepD_of_L, keepL_ret].
    - apply keepD_bind; [apply Hcomp|intros; apply keepD_of_L, keepL_ret].
    - apply keepD_bind; [apply Hcomp|intros; apply keepD_of_L, keepL_ret].
    - apply keepD_of_L. kl.
    - apply keepD_of_L, keepL_lunscoped_get.
    - apply keepD_bind; [apply IH|intros; apply keepD_of_L, keepL_ret].
    - apply keepD_bind; [apply keepD_mapM; intros; apply IH|intros; apply keepD_of_L, keepL_ret].
    - apply keepD_of_L. kl.
  Qed.
  Lemma keepD_leager fuel le e : keepD (leager t fl glob call fuel le e).
  Proof. unfold leager. apply keepD_bind; [apply keepD_leval|intros lv; apply keepD_of_L, keepL_eval_lv]. Qed.
  Lemma keepD_lvar_add fuel le v x mu : keepD (lvar_add t fl glob call fuel le v x mu).
  Proof.
    destruct v; cbn [lvar_add]; [apply keepD_lunscoped_add|]. destruct mu; [apply keepD_of_L, keepL_fail|].
    apply keepD_bind; [apply keepD_leval|intros sv]. apply keepD_of_L. apply keepL_bind; [apply keepL_store_add|intros var]. apply keepL_scoped_store_add.
  Qed.
  Lemma keepD_lvar_set fuel le v x : keepD (lvar_set glob fuel le v x).
  Proof. destruct v; cbn [lvar_set]; [apply keepD_lunscoped_set|apply keepD_of_L, keepL_fail]. Qed.
  Lemma keepD_ltest_cond fuel le c : keepD (ltest_cond t fl glob call fuel le c).
  Proof. destruct c; cbn [ltest_cond]; (apply keepD_bind; [apply keepD_leager|intros v]); apply keepD_of_L; first [apply keepL_ret|apply keepL_lift]. Qed.

  Notation lexec_attr' := (lexec_attr t fl glob call).
  (* a shorthand runs on a fresh environment and restores the saved one *)
  Lemma keepD_lexec_attr fuel le a : keepD (lexec_attr' fuel le a).
  Proof.
    destruct fuel as [|fuel]; [apply keepD_of_L, keepL_oof|].
    destruct a as [name value]. cbn [lexec_attr]. intros s p out s' p' H.
    apply bind_ok in H as (u & s1 & p1 & E1 & H). rewrite <- (keepL_poll _ _ _ _ _ _ E1).
    apply bind_ok in H as (v & s2 & p2 & E2 & H). rewrite <- (keepD_leval _ _ _ _ _ _ _ _ E2).
    destruct (find_shorthand name (f_shorthands fl)) as [sh|]; [|apply ret_ok in H as (_ & -> & _); reflexivity].
    unfold bind at 1 in H. unfold get_state at 1 in H. apply bind_ok in H as (u3 & s3 & p3 & E3 & H). apply bind_ok in H as (u4 & s4 & p4 & E4 & H).
    apply bind_ok in H as (outs & s5 & p5 & E5 & H). apply bind_ok in H as (u6 & s6 & p6 & E6 & H). apply ret_ok in H as (_ & -> & _).
    unfold set_llocals, upd, modify in E6. inversion E6; subst. reflexivity.
  Qed.

  Lemma keepD_lscan_loop run_arm arms rs subject : (forall caps body, keepD (run_arm caps body)) ->
    forall sfuel i, keepD (lscan_loop find run_arm arms rs subject sfuel i).
  Proof.
    intros Hrun. induction sfuel as [|sfuel IHs]; intros i; cbn [lscan_loop]; [apply keepD_of_L, keepL_oof|].
    destruct (N.ltb i (N.of_nat (length subject))); [|apply keepD_of_L, keepL_ret]. cbv zeta.
    apply keepD_bind; [apply keepD_of_L, keepL_lpoll_n|intros _].
    destruct (arm_select find rs (skipn (N.to_nat i) subject)) as [|k|k caps]; [apply keepD_of_L, keepL_ret|apply keepD_of_L, keepL_fail|].
    destruct (nth_error arms (N.to_nat k)) as [[[r body] l']|]; [|apply keepD_of_L, keepL_panic].
    intros s p a s' p' H. apply bind_ok in H as (u1 & s1 & p1 & E1 & H). apply bind_ok in H as (u2 & s2 & p2 & E2 & H).
    apply bind_ok in H as (u3 & s3 & p3 & E3 & H). rewrite (IHs _ _ _ _ _ _ H). pose proof (Hrun _ _ _ _ _ _ _ E2) as Hd.
    unfold lpush_frame, bind, get_state, set_llocals, upd, modify in E1. inversion E1; subst s1 p1. cbn [l_locals] in Hd.
    unfold lpop_frame, bind, get_state in E3. destruct (l_locals s2) as [|f up] eqn:El; [discriminate|].
    unfold set_llocals, upd, modify in E3. inversion E3; subst s3. cbn [l_locals]. cbn [length] in Hd. lia.
  Qed.
  Lemma keepD_lif_loop test run_body : (forall c, keepD (test c)) -> (forall body, keepD (run_body body)) -> forall arms, keepD (lif_loop test run_body arms).
  Proof.
    intros Ht Hr. induction arms as [|[[conds body] l'] arms IHa]; cbn [lif_loop]; [apply keepD_of_L, keepL_ret|].
    apply keepD_bind; [apply keepD_mapM; intros c; apply Ht|intros bs]. destruct (forallb (fun b => b) bs); [|exact IHa].
    intros s p a s' p' H. apply bind_ok in H as (u1 & s1 & p1 & E1 & H). apply bind_ok in H as (u2 & s2 & p2 & E2 & H).
    pose proof (Hr _ _ _ _ _ _ E2) as Hd.
    unfold lpush_frame, bind, get_state, set_llocals, upd, modify in E1. inversion E1; subst s1 p1. cbn [l_locals] in Hd.
    unfold lpop_frame, bind, get_state in H. destruct (l_locals s2) as [|f up] eqn:El; [discriminate|].
    unfold set_llocals, upd, modify in H. inversion H; subst. cbn [l_locals]. cbn [length] in Hd. lia.
  Qed.

  Notation lexec_stmt' := (lexec_stmt t fl cfg glob regexes find call).
  Lemma keepD_lexec_stmt : forall fuel le s, keepD (lexec_stmt' fuel le s).
  Proof.
    induction fuel as [|fuel IH]; intros le s; [apply keepD_of_L, keepL_oof|].
    assert (Hblock : forall le' body, keepD (iterM (fun st => lexec_stmt' fuel (ll_with_ctx le' (ctx_update (ll_ctx le') st)) st) body)).
    { intros le' body. apply keepD_iterM. intros st. apply IH. }
    assert (Harm : forall le' body,
               keepD (iterM (fun st => let c := ctx_update (ll_ctx le') st in
                                       ctx_wrap (CtxStmts [c]) (ctx_wrap CtxOther (lexec_stmt' fuel (ll_with_ctx le' c) st))) body)).
    { intros le' body. apply keepD_iterM. intros st. cbv zeta. apply keepD_ctx, keepD_ctx, IH. }
    destruct s; cbn [lexec_stmt]; (apply keepD_bind; [apply keepD_of_L, keepL_poll|intros _]).
    - apply keepD_bind; [apply keepD_leval|intros x; apply keepD_lvar_add].
    - apply keepD_bind; [apply keepD_leval|intros x; apply keepD_lvar_add].
    - apply keepD_bind; [apply keepD_leval|intros x; apply keepD_lvar_set].
    - apply keepD_bind; [apply keepD_of_L, keepL_ladd_node|intros n]. apply keepD_bind; [apply keepD_of_L, keepL_lopt_node_attr|intros _].
      apply keepD_bind; [apply keepD_of_L, keepL_lopt_node_attr|intros _]. apply keepD_bind; [|intros _; apply keepD_lvar_add].
      destruct (c_match_attr cfg); [|apply keepD_of_L, keepL_ret]. apply keepD_of_L. apply keepL_bind; [apply keepL_lfull_match_node|intros mn; apply keepL_ladd_node_attr].
    - apply keepD_bind; [apply keepD_leval|intros nv]. apply keepD_bind; [apply keepD_mapM; intros; apply keepD_lexec_attr|intros outs]. apply keepD_of_L, keepL_push_lstmt.
    - apply keepD_bind; [apply keepD_leval|intros a]. apply keepD_bind; [apply keepD_leval|intros b]. cbv zeta. apply keepD_of_L, keepL_push_lstmt.
    - apply keepD_bind; [apply keepD_leval|intros a]. apply keepD_bind; [apply keepD_leval|intros b].
      apply keepD_bind; [apply keepD_mapM; intros; apply keepD_lexec_attr|intros outs]. apply keepD_of_L, keepL_push_lstmt.
    - apply keepD_bind; [apply keepD_leager|intros sv]. apply keepD_bind; [apply keepD_of_L, keepL_lift|intros subject].
      destruct (arm_table regexes arms) as [rs|]; [|apply keepD_of_L, keepL_panic].
      apply keepD_lscan_loop. intros caps body. apply (Harm (ll_with_caps le caps) body).
    - apply keepD_bind; [|intros args; apply keepD_of_L, keepL_push_lstmt]. apply keepD_mapM. intros e.
      assert (Hgen : keepD (lv <- leval t fl glob call fuel le e ;; ret (Some lv))) by (apply keepD_bind; [apply keepD_leval|intros lv; apply keepD_of_L, keepL_ret]).
      destruct e; try exact Hgen. apply keepD_of_L, keepL_ret.
    - apply keepD_lif_loop; [intros c; apply keepD_ltest_cond|]. intros body. apply (Hblock le body).
    - apply keepD_bind; [apply keepD_leager|intros lv]. apply keepD_bind; [apply keepD_of_L, keepL_lift|intros vals].
      intros s p a s' p' H. apply bind_ok in H as (u1 & s1 & p1 & E1 & H). apply bind_ok in H as (u2 & s2 & p2 & E2 & H).
      assert (Hd : length (l_locals s2) = length (l_locals s1)).
      { revert E2. apply keepD_iterM. intros v. apply keepD_bind; [apply keepD_clear|intros _]. apply keepD_bind; [apply keepD_lunscoped_add|intros _]. apply (Hblock le body). }
      unfold lpush_frame, bind, get_state, set_llocals, upd, modify in E1. inversion E1; subst s1 p1. cbn [l_locals] in Hd.
      unfold lpop_frame, bind, get_state in H. destruct (l_locals s2) as [|f up] eqn:El; [discriminate|].
      unfold set_llocals, upd, modify in H. inversion H; subst. cbn [l_locals]. cbn [length] in Hd. lia.
  Qed.

  Lemma keepD_lexec_stanza fuel st m : keepD (lexec_stanza t fl cfg glob regexes find call fuel st m).
  Proof.
    unfold lexec_stanza. apply keepD_bind; [apply keepD_of_L, keepL_poll|intros _]. apply keepD_bind; [apply keepD_clear|intros _].
    cbv zeta. destruct (nodes_for_capture m (st_full_file_idx st)); [apply keepD_of_L, keepL_panic|]. apply keepD_iterM. intros s. apply keepD_ctx, keepD_lexec_stmt.
  Qed.
End Interp.
