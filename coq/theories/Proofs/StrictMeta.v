(* Proofs/StrictMeta.v — one induction over the strict interpreter, reusable for every property
   that is a predicate on computations closed under the monad combinators and satisfied by the
   primitive state operations ("admissible predicate"). *)
From TSG Require Import Model.Strict.

(* errors that the interpreter raises itself (never a context wrapper, never Cancelled) *)
Definition base_error (e : exec_error) : Prop :=
  match e with ECancelled _ | EInContext _ _ => False | _ => True end.
Definition base_res {A} (r : res A) : Prop :=
  match r with Err e => base_error e | _ => True end.

Section Meta.
  Context {rx : Type}.
  Variable t : tree.
  Variable fl : file.
  Variable cfg : config.
  Variable glob : globals.
  Variable regexes : list rx.
  Variable find : rx -> str -> option (list (option (N * N))).
  Variable call : ident -> graph -> list value -> res (value * graph).

  Variable Phi : forall A : Type, M sstate A -> Prop.
  Arguments Phi {A} _.

  Hypothesis Phi_ret : forall A (a : A), Phi (ret a).
  Hypothesis Phi_bind : forall A B (m : M sstate A) (f : A -> M sstate B), Phi m -> (forall a, Phi (f a)) -> Phi (bind m f).
  Hypothesis Phi_fail : forall A e, base_error e -> Phi (@fail sstate A e).
  Hypothesis Phi_panic : forall A p, Phi (@panic sstate A p).
  Hypothesis Phi_oof : forall A, Phi (@out_of_fuel sstate A).
  (* contexts the interpreter may wrap errors in (instances that do not care take `fun _ => True`) *)
  Variable good_ctx : context -> Prop.
  Hypothesis Phi_ctx : forall A c (m : M sstate A), good_ctx c -> Phi m -> Phi (ctx_wrap c m).
  Definition good_le (le : lenv) : Prop :=
    good_ctx CtxOther /\ forall st, good_ctx (CtxStmts [ctx_update (le_ctx le) st]).
  Lemma ctx_update_twice c st st' : ctx_update (ctx_update c st) st' = ctx_update c st'.
  Proof. reflexivity. Qed.
  Lemma good_le_ctx le st : good_le le -> good_le (le_with_ctx le (ctx_update (le_ctx le) st)).
  Proof. intros [H1 H2]. split; [exact H1|]. intros st'. cbn [le_with_ctx le_ctx]. rewrite ctx_update_twice. apply H2. Qed.
  Lemma good_le_caps le caps : good_le le -> good_le (le_with_caps le caps).
  Proof. intros H. exact H. Qed.
  Hypothesis Phi_get : Phi (@get_state sstate).
  Hypothesis Phi_set_locals : forall l, Phi (set_locals l).
  Hypothesis Phi_set_scoped : forall sc, Phi (set_scoped sc).
  Hypothesis Phi_set_params : forall p, Phi (set_params p).
  Hypothesis Phi_poll : forall l, Phi (@poll sstate l).
  Hypothesis Phi_add_node : Phi add_node.
  Hypothesis Phi_add_attr : forall tgt k v, Phi (add_attr tgt k v).
  Hypothesis Phi_add_edge : forall a b, Phi (add_edge a b).
  Hypothesis Phi_call : forall f args, Phi (call_function call f args).

  Lemma Phi_lift A (r : res A) : base_res r -> Phi (lift r).
  Proof.
    destruct r as [a|e|p|]; cbn; intros H.
    - exact (Phi_ret _ a).
    - exact (Phi_fail _ e H).
    - exact (Phi_panic _ p).
    - exact (Phi_oof _).
  Qed.

  Lemma Phi_mapM A B (f : A -> M sstate B) l : (forall x, Phi (f x)) -> Phi (mapM f l).
  Proof. intros H. induction l as [|x l IH]; cbn [mapM]; [apply Phi_ret|]. apply Phi_bind; [apply H|]. intros y. apply Phi_bind; [exact IH|]. intros ys. apply Phi_ret. Qed.
  Lemma Phi_iterM A (f : A -> M sstate unit) l : (forall x, Phi (f x)) -> Phi (iterM f l).
  Proof. intros H. induction l as [|x l IH]; cbn [iterM]; [apply Phi_ret|]. apply Phi_bind; [apply H|]. intros _. exact IH. Qed.

  Lemma base_as_bool v : base_res (as_bool v). Proof. destruct v; cbn; exact I. Qed.
  Lemma base_as_str v : base_res (as_str v). Proof. destruct v; cbn; exact I. Qed.
  Lemma base_as_list v : base_res (as_list v). Proof. destruct v; cbn; exact I. Qed.
  Lemma base_as_gnode v : base_res (as_gnode v). Proof. destruct v; cbn; exact I. Qed.
  Lemma base_from_nodes ns q : base_res (from_nodes ns q). Proof. destruct q, ns; cbn; exact I. Qed.

  Ltac phi_prim :=
    first [ apply Phi_ret | apply Phi_get | apply Phi_set_locals | apply Phi_set_scoped | apply Phi_set_params
          | apply Phi_poll | apply Phi_add_node | apply Phi_add_attr | apply Phi_add_edge | apply Phi_call
          | apply Phi_panic | apply Phi_oof | apply Phi_fail; exact I
          | apply Phi_lift; first [apply base_as_bool | apply base_as_str | apply base_as_list | apply base_as_gnode | apply base_from_nodes] ].
  Ltac phi_step :=
    first [ phi_prim
          | apply Phi_bind; [|intros ?]
          | apply Phi_mapM; intros ?
          | apply Phi_iterM; intros ?
          | match goal with |- Phi (match ?x with _ => _ end) => destruct x end
          | match goal with |- Phi (if ?x then _ else _) => destruct x end ].
  Ltac phi := repeat phi_step.

  (* derived primitives *)
  Lemma Phi_push_frame : Phi push_frame. Proof. unfold push_frame. phi. Qed.
  Lemma Phi_pop_frame : Phi pop_frame. Proof. unfold pop_frame. phi. Qed.
  Lemma Phi_clear_frame : Phi clear_frame. Proof. unfold clear_frame. phi. Qed.
  Lemma Phi_push_param v : Phi (push_param v). Proof. unfold push_param. phi. Qed.
  Lemma Phi_drain_params n : Phi (drain_params n). Proof. unfold drain_params. phi. Qed.
  Lemma Phi_unscoped_get name : Phi (unscoped_get glob name). Proof. unfold unscoped_get. phi. Qed.
  Lemma Phi_unscoped_add name v m : Phi (unscoped_add glob name v m). Proof. unfold unscoped_add. phi. Qed.
  Lemma Phi_unscoped_set name v : Phi (unscoped_set glob name v). Proof. unfold unscoped_set. phi. Qed.
  Lemma Phi_scoped_get_at n name : Phi (scoped_get_at t fl n name). Proof. unfold scoped_get_at. phi. Qed.
  Lemma Phi_scoped_add_at n name v m : Phi (scoped_add_at n name v m). Proof. unfold scoped_add_at. phi. Qed.
  Lemma Phi_scoped_set_at n name v : Phi (scoped_set_at n name v). Proof. unfold scoped_set_at. phi. Qed.
  Lemma Phi_scope_of v : Phi (scope_of v). Proof. unfold scope_of. phi. Qed.
  Lemma Phi_full_match_node le : Phi (full_match_node le). Proof. unfold full_match_node. phi. Qed.
  Lemma Phi_opt_attr tgt name v : Phi (opt_attr tgt name v). Proof. unfold opt_attr. phi. Qed.

  Ltac phi2_step :=
    first [ apply Phi_push_frame | apply Phi_pop_frame | apply Phi_clear_frame | apply Phi_push_param | apply Phi_drain_params
          | apply Phi_unscoped_get | apply Phi_unscoped_add | apply Phi_unscoped_set | apply Phi_scoped_get_at
          | apply Phi_scoped_add_at | apply Phi_scoped_set_at | apply Phi_scope_of | apply Phi_full_match_node | apply Phi_opt_attr
          | phi_step ].
  Ltac phi2 := repeat phi2_step.

  Notation eval' := (eval t fl glob call).
  Notation exec_attr' := (exec_attr t fl glob call).
  Notation exec_stmt' := (exec_stmt t fl cfg glob regexes find call).

  Lemma Phi_eval : forall fuel le e, Phi (eval' fuel le e).
  Proof.
    induction fuel as [|fuel IH]; intros le e; [apply Phi_oof|].
    destruct e; cbn [eval]; phi2; try apply IH.
  Qed.

  Lemma Phi_var_add fuel le v x m : Phi (var_add t fl glob call fuel le v x m).
  Proof. destruct v; cbn [var_add]; phi2; apply Phi_eval. Qed.
  Lemma Phi_var_set fuel le v x : Phi (var_set t fl glob call fuel le v x).
  Proof. destruct v; cbn [var_set]; phi2; apply Phi_eval. Qed.
  Lemma Phi_test_cond fuel le c : Phi (test_cond t fl glob call fuel le c).
  Proof. destruct c; cbn [test_cond]; phi2; try apply Phi_eval. all: apply Phi_lift; apply base_as_bool. Qed.

  Lemma Phi_exec_attr : forall fuel le tgt a, Phi (exec_attr' fuel le tgt a).
  Proof.
    induction fuel as [|fuel IH]; intros le tgt a; [apply Phi_oof|].
    destruct a as [name value]. cbn [exec_attr]. phi2; try apply Phi_eval; try apply IH.
  Qed.

  Lemma Phi_scan_loop run_arm arms rs subject :
    (forall caps body, Phi (run_arm caps body)) ->
    forall sfuel i, Phi (scan_loop find run_arm arms rs subject sfuel i).
  Proof.
    intros Hrun. induction sfuel as [|sfuel IHs]; intros i; cbn [scan_loop]; [apply Phi_oof|].
    destruct (N.ltb i (N.of_nat (length subject))); [|apply Phi_ret].
    apply Phi_bind; [apply Phi_poll|intros _]. cbv zeta.
    destruct (arm_select find rs (skipn (N.to_nat i) subject)) as [|k|k caps]; [apply Phi_ret|apply Phi_fail; exact I|].
    destruct (nth_error arms (N.to_nat k)) as [[[r body] l']|]; [|apply Phi_panic].
    apply Phi_bind; [apply Phi_push_frame|intros _].
    apply Phi_bind; [apply Hrun|intros _].
    apply Phi_bind; [apply Phi_pop_frame|intros _]. apply IHs.
  Qed.
  Lemma Phi_if_loop test run_body :
    (forall c, Phi (test c)) -> (forall body, Phi (run_body body)) ->
    forall arms, Phi (if_loop test run_body arms).
  Proof.
    intros Ht Hr. induction arms as [|[[conds body] l'] arms IHa]; cbn [if_loop]; [apply Phi_ret|].
    apply Phi_bind; [apply Phi_mapM; intros c; apply Ht|intros bs].
    destruct (forallb (fun b => b) bs); [|exact IHa].
    apply Phi_bind; [apply Phi_push_frame|intros _].
    apply Phi_bind; [apply Hr|intros _]. apply Phi_pop_frame.
  Qed.

  Lemma Phi_exec_stmt : forall fuel le s, good_le le -> Phi (exec_stmt' fuel le s).
  Proof.
    induction fuel as [|fuel IH]; intros le s Hle; [apply Phi_oof|].
    assert (Hblock : forall le' (wrap : M sstate unit -> M sstate unit) body, good_le le' ->
               (forall m, Phi m -> Phi (wrap m)) ->
               Phi (iterM (fun st => let c := ctx_update (le_ctx le') st in
                                     ctx_wrap (CtxStmts [c]) (wrap (exec_stmt' fuel (le_with_ctx le' c) st))) body)).
    { intros le' wrap body Hg Hw. apply Phi_iterM. intros st. cbv zeta. apply Phi_ctx; [apply Hg|]. apply Hw, IH, good_le_ctx, Hg. }
    destruct s; cbn [exec_stmt]; (apply Phi_bind; [apply Phi_poll|intros _]).
    - phi2; first [apply Phi_eval | apply Phi_var_add].
    - phi2; first [apply Phi_eval | apply Phi_var_add].
    - phi2; first [apply Phi_eval | apply Phi_var_set].
    - phi2; try apply Phi_var_add.
    - phi2; first [apply Phi_eval | apply Phi_exec_attr].
    - phi2; try apply Phi_eval.
    - phi2; first [apply Phi_eval | apply Phi_exec_attr].
    - (* scan *)
      apply Phi_bind; [apply Phi_eval|intros sv]. apply Phi_bind; [apply Phi_lift, base_as_str|intros subject].
      destruct (arm_table regexes arms) as [rs|]; [|apply Phi_panic].
      apply Phi_scan_loop. intros caps body. apply (Hblock (le_with_caps le caps) (ctx_wrap CtxOther) body); [apply good_le_caps, Hle|].
      intros m Hm. apply Phi_ctx; [apply Hle|exact Hm].
    - apply Phi_iterM. intros e. destruct e; phi2; apply Phi_eval.
    - (* if *)
      apply Phi_if_loop; [intros c; apply Phi_test_cond|]. intros body. apply (Hblock le (fun m => m) body); auto.
    - (* for *)
      apply Phi_bind; [apply Phi_eval|intros lv]. apply Phi_bind; [apply Phi_lift, base_as_list|intros vals].
      apply Phi_bind; [apply Phi_push_frame|intros _].
      apply Phi_bind; [|intros _; apply Phi_pop_frame].
      apply Phi_iterM. intros v. apply Phi_bind; [apply Phi_clear_frame|intros _].
      apply Phi_bind; [apply Phi_unscoped_add|intros _]. apply (Hblock le (fun m => m) body); auto.
  Qed.

  (* one stanza on one match: contexts are built from the stanza's location and the full-match node *)
  Definition good_stanza (st : stanza) (m : qmatch) : Prop :=
    good_ctx CtxOther /\
    forall n rest l, nodes_for_capture m (st_full_stanza_idx st) = n :: rest ->
                     good_ctx (CtxStmts [{| sc_stmt := l; sc_stanza := st_start st; sc_node := n |}]).
  Lemma Phi_exec_stanza fuel st m : good_stanza st m -> Phi (exec_stanza t fl cfg glob regexes find call fuel st m).
  Proof.
    intros [Ho Hg]. unfold exec_stanza. apply Phi_bind; [apply Phi_clear_frame|intros _]. apply Phi_iterM. intros s.
    cbv zeta. destruct (nodes_for_capture m (st_full_stanza_idx st)) as [|n rest] eqn:E; [apply Phi_panic|].
    apply Phi_ctx; [eapply Hg; reflexivity|].
    apply Phi_exec_stmt. split; [exact Ho|]. intros st'. cbn [le_with_ctx le_ctx ctx_update sc_stanza sc_node]. eapply Hg; reflexivity.
  Qed.

  Theorem Phi_exec_file fuel : (forall c, good_ctx c) -> forall sts ms, Phi (exec_file t fl cfg glob regexes find call fuel sts ms).
  Proof.
    intros Hall. induction sts as [|st sts IH]; intros [|m ms]; cbn [exec_file]; try apply Phi_ret.
    apply Phi_bind; [apply Phi_iterM; intros x; apply Phi_exec_stanza; split; intros; apply Hall|intros _]. apply IH.
  Qed.
End Meta.
