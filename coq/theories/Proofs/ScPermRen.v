(* Proofs/ScPermRen.v — C08 WITH scoped variables, part 4: the reference evaluator under a renumbering.
   Two static environments E, E' are related by a renaming rg of graph-node ids and rl of store locations: the body
   at rl loc in E' is the renamed body at loc in E, and every cell of E' is, as a function from syntax nodes to
   lazy values, the renamed cell of E (the ORDER of the definitions inside a cell is irrelevant: Proofs/PermFacts.v).
   rg need not be monotone globally (a permutation of blocks is not), so values that are COMPARED — elements of
   sets, arguments of calls — must stay inside one domain D on which rg is monotone.  Typing:
     (D, L) in bds   a block: its graph ids D (with the shared ones), its store locations L; bodies of L-locations
                     are `lvall okfn D L` (no scoped read);
     mty lv          lv is local to some block, or a scoped read, or a list of such, or any location.
   `cev_ren`: evaluation commutes with the renaming, at the same fuel. *)
From TSG Require Import Model.Lazy Proofs.BaseFacts Proofs.Containers Proofs.SLGraph Proofs.SLStmt Proofs.Scoped
  Proofs.BlockPermRen Proofs.BlockPermGraph Proofs.ScPermCbn Proofs.ScPermSound.

Section Ren.
  Variables (t : tree) (fl : file) (call : ident -> graph -> list value -> res (value * graph)).
  Variable okfn : ident -> Prop.
  Hypothesis Hcall : forall f, okfn f -> call_ok call f.
  Variables E E' : senv.
  Variables rg rl : N -> N.
  Variable bds : list ((N -> Prop) * (N -> Prop)).

  Fixpoint mty (lv : lvalue) : Prop :=
    (exists D L, In (D, L) bds /\ lvall okfn D L lv) \/
    match lv with
    | LScoped sc _ => mty sc
    | LList ls => (fix all (l : list lvalue) : Prop := match l with [] => True | x :: l' => mty x /\ all l' end) ls
    | LVar _ => True
    | _ => False
    end.
  Lemma mty_all l : (fix all (l : list lvalue) : Prop := match l with [] => True | x :: l' => mty x /\ all l' end) l <-> Forall mty l.
  Proof.
    induction l as [|x l IH]; [split; constructor|]. split.
    - intros [H1 H2]. constructor; [exact H1|apply IH, H2].
    - intros H. inversion H; subst. split; [assumption|apply IH; assumption].
  Qed.
  Lemma mty_local D L lv : In (D, L) bds -> lvall okfn D L lv -> mty lv.
  Proof. intros Hin Hl. destruct lv; left; exists D, L; split; assumption. Qed.

  Hypothesis T1 : forall D L, In (D, L) bds -> forall i j, D i -> D j -> i < j -> rg i < rg j.
  Hypothesis T2 : forall D L, In (D, L) bds -> forall loc lv, L loc -> se_body E (N.to_nat loc) = Some lv -> lvall okfn D L lv.
  Hypothesis T3 : forall i lv, se_body E i = Some lv -> mty lv.
  Hypothesis T4 : forall name m n lv, se_cell E name = Some m -> nmap_get m n = Some lv -> mty lv.
  Hypothesis R1 : forall i lv, se_body E i = Some lv -> se_body E' (N.to_nat (rl (N.of_nat i))) = Some (lvren rg rl lv).
  Hypothesis R2 : forall name m, se_cell E name = Some m ->
    exists m', se_cell E' name = Some m' /\ forall n, nmap_get m' n = option_map (lvren rg rl) (nmap_get m n).

  Notation cev1 := (cev t fl call E).
  Notation cev2 := (cev t fl call E').

  Definition renL (f : nat) : Prop := forall D L lv v, In (D, L) bds -> lvall okfn D L lv -> cev1 f lv = Some v ->
    cev2 f (lvren rg rl lv) = Some (vren rg v) /\ vall D v.
  Definition renM (f : nat) : Prop := forall lv v, mty lv -> cev1 f lv = Some v -> cev2 f (lvren rg rl lv) = Some (vren rg v).

  Lemma omap_renL f D L : renL f -> In (D, L) bds -> forall es vs, Forall (lvall okfn D L) es -> omap (cev1 f) es = Some vs ->
    omap (cev2 f) (map (lvren rg rl) es) = Some (map (vren rg) vs) /\ Forall (vall D) vs.
  Proof.
    intros Hf Hin. induction es as [|e es IH]; intros vs Hl Ho; cbn [omap map] in *.
    - inversion Ho; subst. split; [reflexivity|constructor].
    - inversion Hl as [|? ? He Hes]; subst. destruct (cev1 f e) as [v|] eqn:Ee; [|discriminate]. destruct (omap (cev1 f) es) as [vs0|] eqn:Eo; [|discriminate].
      inversion Ho; subst vs. destruct (Hf D L e v Hin He Ee) as [A1 A2]. destruct (IH vs0 Hes eq_refl) as [B1 B2]. rewrite A1, B1. split; [reflexivity|constructor; assumption].
  Qed.
  Lemma omap_renM f : renM f -> forall es vs, Forall mty es -> omap (cev1 f) es = Some vs -> omap (cev2 f) (map (lvren rg rl) es) = Some (map (vren rg) vs).
  Proof.
    intros Hf. induction es as [|e es IH]; intros vs Hl Ho; cbn [omap map] in *.
    - inversion Ho; subst. reflexivity.
    - inversion Hl as [|? ? He Hes]; subst. destruct (cev1 f e) as [v|] eqn:Ee; [|discriminate]. destruct (omap (cev1 f) es) as [vs0|] eqn:Eo; [|discriminate].
      inversion Ho; subst vs. rewrite (Hf e v He Ee), (IH vs0 Hes eq_refl). reflexivity.
  Qed.

  Theorem cev_ren : forall f, renL f /\ renM f.
  Proof.
    induction f as [|f [IHL IHM]]; [split; intros; discriminate|].
    assert (HL : renL (S f)).
    { intros D L lv v Hin Hl Hc. rewrite cev_S_eq in Hc. rewrite cev_S_eq. pose proof (smono_cmp_pres D rg (T1 D L Hin)) as Hcmp.
      destruct lv as [v0|es|es|loc|sc name|fn args]; cbn [lvren].
      - inversion Hc; subst. split; [reflexivity|exact Hl].
      - rewrite lvall_list in Hl. destruct (omap (cev1 f) es) as [vs|] eqn:Eo; [|discriminate]. inversion Hc; subst v.
        destruct (omap_renL f D L IHL Hin es vs Hl Eo) as [A B]. rewrite A. split; [reflexivity|rewrite vall_list; exact B].
      - rewrite lvall_set in Hl. destruct (omap (cev1 f) es) as [vs|] eqn:Eo; [|discriminate]. inversion Hc; subst v.
        destruct (omap_renL f D L IHL Hin es vs Hl Eo) as [A B]. rewrite A. split.
        + cbn [vren]. rewrite (set_of_list_vren D rg vs Hcmp B). reflexivity.
        + rewrite vall_set. apply set_of_list_all, B.
      - cbn [lvall] in Hl. destruct (se_body E (N.to_nat loc)) as [b|] eqn:Eb; [|discriminate].
        pose proof (R1 _ _ Eb) as Eb'. rewrite N2Nat.id in Eb'. rewrite Eb'. apply (IHL D L b v Hin (T2 D L Hin loc b Hl Eb) Hc).
      - cbn [lvall] in Hl. contradiction.
      - rewrite lvall_call in Hl. destruct Hl as [Hf Hargs]. destruct (omap (cev1 f) args) as [vs|] eqn:Eo; [|discriminate].
        destruct (omap_renL f D L IHL Hin args vs Hargs Eo) as [A B]. rewrite A.
        pose proof (Hcall fn Hf D rg [] [] vs B (T1 D L Hin)) as Hk. destruct (call fn [] vs) as [[v1 g1]|e|x|]; try discriminate.
        inversion Hc; subst v1. destruct Hk as (_ & Hv & Hk). rewrite Hk. split; [reflexivity|exact Hv]. }
    split; [exact HL|].
    intros lv v Hm Hc. destruct lv as [v0|es|es|loc|sc name|fn args]; cbn [mty] in Hm.
    - destruct Hm as [(D & L & Hin & Hl)|[]]. apply (HL D L _ _ Hin Hl Hc).
    - destruct Hm as [(D & L & Hin & Hl)|Hm]; [apply (HL D L _ _ Hin Hl Hc)|]. apply mty_all in Hm.
      rewrite cev_S_eq in Hc. rewrite cev_S_eq. cbn [lvren]. destruct (omap (cev1 f) es) as [vs|] eqn:Eo; [|discriminate]. inversion Hc; subst v.
      rewrite (omap_renM f IHM es vs Hm Eo). reflexivity.
    - destruct Hm as [(D & L & Hin & Hl)|[]]. apply (HL D L _ _ Hin Hl Hc).
    - rewrite cev_S_eq in Hc. rewrite cev_S_eq. cbn [lvren]. destruct (se_body E (N.to_nat loc)) as [b|] eqn:Eb; [|discriminate].
      pose proof (R1 _ _ Eb) as Eb'. rewrite N2Nat.id in Eb'. rewrite Eb'. apply (IHM b v (T3 _ _ Eb) Hc).
    - destruct Hm as [(D & L & Hin & Hl)|Hm]; [cbn [lvall] in Hl; contradiction|].
      rewrite cev_S_eq in Hc. rewrite cev_S_eq. cbn [lvren]. destruct (cev1 f sc) as [sv|] eqn:Es; [|discriminate]. destruct sv; try discriminate.
      rewrite (IHM sc (VSyn n) Hm Es). cbn [vren]. destruct (se_cell E name) as [m|] eqn:Ec; [|discriminate].
      destruct (R2 name m Ec) as (m' & Ec' & Hmm). rewrite Ec'. rewrite (resolve_map t fl (lvren rg rl) name m m' n Hmm).
      destruct (resolve t fl name m n) as [lv'|] eqn:Er; [|discriminate]. cbn [option_map].
      destruct (resolve_in _ _ _ _ _ _ Er) as [k Hk]. apply (IHM lv' v (T4 name m k lv' Ec Hk) Hc).
    - destruct Hm as [(D & L & Hin & Hl)|[]]. apply (HL D L _ _ Hin Hl Hc).
  Qed.

  Notation cevv1 := (cevv t fl call E).
  Notation cevv2 := (cevv t fl call E').
  Lemma cevv_ren lv v : mty lv -> cevv1 lv v -> cevv2 (lvren rg rl lv) (vren rg v).
  Proof. intros Hm [f Hf]. exists f. apply (proj2 (cev_ren f) lv v Hm Hf). Qed.

  (* ---------------- deferred statements ---------------- *)
  Definition lsmty (st : lstmt) : Prop :=
    match st with
    | LSAttrNode n attrs _ => mty n /\ Forall (fun a : ident * lvalue => mty (snd a)) attrs
    | LSEdge a b _ _ => mty a /\ mty b
    | LSAttrEdge a b attrs _ => mty a /\ mty b /\ Forall (fun a : ident * lvalue => mty (snd a)) attrs
    | LSPrint args _ => Forall (fun o => match o with Some lv => mty lv | None => True end) args
    end.

  Lemma sden_edge_ren st e : lsmty st -> sden_edge t fl call E st e -> sden_edge t fl call E' (lsren rg rl st) (ere rg e).
  Proof.
    intros Hm (a & b & dbg & -> & Da & Db). destruct Hm as [Ha Hb]. exists (lvren rg rl a), (lvren rg rl b), dbg. split; [reflexivity|].
    split; [apply (cevv_ren a _ Ha Da)|apply (cevv_ren b _ Hb Db)].
  Qed.
  Lemma sden_attrs_ren attrs kvs : Forall (fun a : ident * lvalue => mty (snd a)) attrs -> sden_attrs t fl call E attrs kvs ->
    sden_attrs t fl call E' (map (atren rg rl) attrs) (map (fun kv => (fst kv, vren rg (snd kv))) kvs).
  Proof.
    intros Hm H. induction H as [|x y l l' [H1 H2] _ IH]; cbn [map]; [constructor|]. inversion Hm; subst. constructor; [|apply IH; assumption].
    unfold atren. cbn [fst snd]. split; [exact H1|apply cevv_ren; assumption].
  Qed.
  Lemma sden_astmt_ren st ops : lsmty st -> sden_astmt t fl call E st ops -> sden_astmt t fl call E' (lsren rg rl st) (map (are rg) ops).
  Proof.
    destruct st as [n attrs dbg|a b ea dbg|a b attrs dbg|args dbg]; cbn [sden_astmt lsmty lsren]; try contradiction.
    - intros [Hn Ha] (x & kvs & Dn & Da & ->). exists (rg x), (map (fun kv => (fst kv, vren rg (snd kv))) kvs). split; [apply (cevv_ren n _ Hn Dn)|].
      split; [apply sden_attrs_ren; assumption|]. rewrite !map_map. apply map_ext. intros [k v]. reflexivity.
    - intros (Ha & Hb & Hat) (x & y & kvs & Dx & Dy & Da & ->). exists (rg x), (rg y), (map (fun kv => (fst kv, vren rg (snd kv))) kvs).
      split; [apply (cevv_ren a _ Ha Dx)|]. split; [apply (cevv_ren b _ Hb Dy)|]. split; [apply sden_attrs_ren; assumption|].
      rewrite !map_map. apply map_ext. intros [k v]. reflexivity.
  Qed.
  Lemma sprint_ok_ren st : lsmty st -> sprint_ok t fl call E st -> sprint_ok t fl call E' (lsren rg rl st).
  Proof.
    destruct st as [n attrs dbg|a b ea dbg|a b attrs dbg|args dbg]; cbn [sprint_ok lsmty lsren]; try contradiction.
    intros Hm H. apply Forall_forall. intros o Ho. apply in_map_iff in Ho as (o0 & <- & Hin). rewrite Forall_forall in H, Hm. specialize (H _ Hin). specialize (Hm _ Hin).
    destruct o0 as [lv|]; cbn [option_map]; [|exact I]. destruct H as [v Hv]. exists (vren rg v). apply cevv_ren; assumption.
  Qed.
End Ren.
