(* Proofs/IdxReal.v — the whole-run theorems of C02 and C08 for REAL recorded inputs (audit finding G1).
   The strict interpreter gets the per-stanza matches `sms` with STANZA capture indices, the lazy interpreter the merged-query blocks
   `lms` with FILE capture indices.  `sms'` are file-indexed per-stanza matches (for a recorded case: `regroup n lms`) related to `sms`
   by `idx_rel` and to `lms` by a permutation.  The fragment predicates are stated on `normalize_file fl` with the FILE-indexed
   matches (their index equation `nodes_for_capture m stanza_idx = nodes_for_capture m file_idx` is then trivially true); the runs in
   hypotheses and conclusions are those of the ORIGINAL file on the original matches.
   Every lemma: rewrite with run_strict_reindex / run_lazy_reindex, apply the existing whole-run lemma to the normalized file. *)
From TSG Require Import Model.Strict Model.Lazy Model.Run Model.IdxBridge Proofs.BaseFacts Proofs.IdxMeq Proofs.IdxStrict Proofs.IdxLazy Proofs.IdxBridge
  Proofs.SLExpr Proofs.StrictLazy Proofs.SL2Expr Proofs.SL2Stmt Proofs.SL2Whole Proofs.NoPanicStrict Proofs.NoPanicLazy
  Proofs.SLFailGraph Proofs.SLFailExpr Proofs.SLFailStmt Proofs.BlockPermRen Proofs.BlockPermGraph Proofs.BlockPermExec Proofs.BlockPermRun
  Proofs.ScPermExec Proofs.ScPermRun Proofs.ScThExec Proofs.ScThRun Proofs.SLAny Proofs.SLF2Expr Proofs.SLF2File Proofs.SLF2Any.
From Coq Require Import Permutation.

Section Real.
  Context {rx : Type}.
  Variables (t : tree) (fl : file) (supplied : globals) (regexes : list rx)
            (find : rx -> str -> option (list (option (N * N))))
            (call : ident -> graph -> list value -> res (value * graph)).
  Variable okfn : ident -> Prop.
  Hypothesis Hcall : forall f, okfn f -> call_ok call f.
  Variable g0 : graph.
  Hypothesis Hcl : gclosed (N.of_nat (length g0)) g0.
  Hypothesis Hglob : forall glob, check_globals (f_globals fl) (globals_nested supplied) = Ok glob ->
     forall name v, globals_get glob name = Some v -> vall (fun i => i < N.of_nat (length g0)) v.
  Notation fl' := (normalize_file fl).
  Notation lrun fuel ms := (run_lazy t fl config0 supplied None regexes find call fuel ms g0).
  Notation srun fuel ms := (run_strict t fl config0 supplied None regexes find call fuel ms g0).
  Notation lrun' fuel ms := (run_lazy t fl' config0 supplied None regexes find call fuel ms g0).
  Notation srun' fuel ms := (run_strict t fl' config0 supplied None regexes find call fuel ms g0).

  Lemma lrun_eq fuel ms : lrun fuel ms = lrun' fuel ms. Proof. apply run_lazy_reindex. Qed.
  Lemma srun_eq fuel sms sms' : idx_rel fl (f_stanzas fl) sms sms' -> srun fuel sms = srun' fuel sms'. Proof. apply run_strict_reindex. Qed.
  Lemma Hglob' : forall glob, check_globals (f_globals fl') (globals_nested supplied) = Ok glob ->
     forall name v, globals_get glob name = Some v -> vall (fun i => i < N.of_nat (length g0)) v.
  Proof. exact Hglob. Qed.

  (* ================= C02, success direction ================= *)
  Theorem strict_lazy_iso_any_order_real_lemma fuel sms sms' s p lms :
    idx_rel fl (f_stanzas fl) sms sms' ->
    file_ok okfn fl' (f_stanzas fl') sms' ->
    srun fuel sms = Ok (s, p) ->
    Permutation (lmatches_of sms') lms ->
    exists r r', (forall i, r' (r i) = i) /\ (forall i, r (r' i) = i) /\ (forall i, i < N.of_nat (length g0) -> r i = i) /\
      exists lfuel0, forall lfuel, (lfuel0 <= lfuel)%nat -> exists ls pl,
        lrun lfuel lms = Ok (ls, pl) /\ graph_iso r (s_graph s) (l_graph ls).
  Proof.
    intros Hi Hok Hs HP. rewrite (srun_eq _ _ _ Hi) in Hs.
    destruct (strict_lazy_iso_any_order_lemma t fl' supplied regexes find call okfn Hcall g0 Hcl Hglob' fuel sms' s p lms Hok Hs HP) as (r & r' & I1 & I2 & Fx & lf0 & Hev).
    exists r, r'. split; [exact I1|]. split; [exact I2|]. split; [exact Fx|]. exists lf0. intros lf Hl. rewrite lrun_eq. apply Hev. exact Hl.
  Qed.
  Theorem strict_lazy_iso_any_order_every_fuel_real_lemma fuel sms sms' s p lms :
    idx_rel fl (f_stanzas fl) sms sms' ->
    file_ok okfn fl' (f_stanzas fl') sms' ->
    srun fuel sms = Ok (s, p) ->
    Permutation (lmatches_of sms') lms ->
    exists r r', (forall i, r' (r i) = i) /\ (forall i, r (r' i) = i) /\ (forall i, i < N.of_nat (length g0) -> r i = i) /\
      forall lfuel, match lrun lfuel lms with
                    | Ok (ls, _) => graph_iso r (s_graph s) (l_graph ls)
                    | OutOfFuel => True
                    | Err _ | Panic _ => False
                    end.
  Proof.
    intros Hi Hok Hs HP. rewrite (srun_eq _ _ _ Hi) in Hs.
    destruct (strict_lazy_iso_any_order_every_fuel_lemma t fl' supplied regexes find call okfn Hcall g0 Hcl Hglob' fuel sms' s p lms Hok Hs HP) as (r & r' & I1 & I2 & Fx & Hev).
    exists r, r'. split; [exact I1|]. split; [exact I2|]. split; [exact Fx|]. intros lf. rewrite lrun_eq. apply Hev.
  Qed.
  Theorem strict_lazy_iso_any_order_scoped_real_lemma (purev : ident -> bool) fuel sms sms' s p lms :
    idx_rel fl (f_stanzas fl) sms sms' ->
    file_ok2 okfn purev fl' (f_stanzas fl') sms' ->
    Forall (pm_ok2 fl' okfn) lms ->
    srun fuel sms = Ok (s, p) ->
    inh_antichain t fl (s_scoped s) ->
    Permutation (lmatches_of sms') lms ->
    exists r r', (forall i, r' (r i) = i) /\ (forall i, r (r' i) = i) /\ (forall i, i < N.of_nat (length g0) -> r i = i) /\
      exists lfuel0, forall lfuel, (lfuel0 <= lfuel)%nat -> exists ls pl,
        lrun lfuel lms = Ok (ls, pl) /\ graph_iso r (s_graph s) (l_graph ls).
  Proof.
    intros Hi Hok Hok2 Hs Ha HP. rewrite (srun_eq _ _ _ Hi) in Hs.
    assert (Hok2' : Forall (pm_ok2 fl' okfn) (lmatches_of sms')) by (eapply Forall_perm; [apply Permutation_sym, HP|exact Hok2]).
    destruct (strict_lazy_iso_any_order_scoped_lemma t fl' supplied regexes find call okfn Hcall g0 Hcl Hglob' purev fuel sms' s p lms Hok Hok2' Hs Ha HP)
      as (r & r' & I1 & I2 & Fx & lf0 & Hev).
    exists r, r'. split; [exact I1|]. split; [exact I2|]. split; [exact Fx|]. exists lf0. intros lf Hl. rewrite lrun_eq. apply Hev. exact Hl.
  Qed.
  Theorem strict_lazy_iso_any_order_scoped_every_fuel_real_lemma (purev : ident -> bool) fuel sms sms' s p lms :
    idx_rel fl (f_stanzas fl) sms sms' ->
    file_ok2 okfn purev fl' (f_stanzas fl') sms' ->
    Forall (pm_ok2 fl' okfn) lms ->
    srun fuel sms = Ok (s, p) ->
    inh_antichain t fl (s_scoped s) ->
    Permutation (lmatches_of sms') lms ->
    exists r r', (forall i, r' (r i) = i) /\ (forall i, r (r' i) = i) /\ (forall i, i < N.of_nat (length g0) -> r i = i) /\
      forall lfuel, match lrun lfuel lms with
                    | Ok (ls, _) => graph_iso r (s_graph s) (l_graph ls)
                    | OutOfFuel => True
                    | Err _ | Panic _ => False
                    end.
  Proof.
    intros Hi Hok Hok2 Hs Ha HP. rewrite (srun_eq _ _ _ Hi) in Hs.
    assert (Hok2' : Forall (pm_ok2 fl' okfn) (lmatches_of sms')) by (eapply Forall_perm; [apply Permutation_sym, HP|exact Hok2]).
    destruct (strict_lazy_iso_any_order_scoped_every_fuel_lemma t fl' supplied regexes find call okfn Hcall g0 Hcl Hglob' purev fuel sms' s p lms Hok Hok2' Hs Ha HP)
      as (r & r' & I1 & I2 & Fx & Hev).
    exists r, r'. split; [exact I1|]. split; [exact I2|]. split; [exact Fx|]. intros lf. rewrite lrun_eq. apply Hev.
  Qed.

  (* ================= C02, failure direction ================= *)
  Theorem strict_fail_lazy_fail_any_order_real_lemma fuel sms sms' e lms :
    idx_rel fl (f_stanzas fl) sms sms' ->
    call_graph_ext call ->
    file_ok okfn fl' (f_stanzas fl') sms' ->
    srun fuel sms = Err e -> order_independent_error e ->
    Permutation (lmatches_of sms') lms ->
    forall lfuel, match lrun lfuel lms with Ok _ => False | Err _ | Panic _ | OutOfFuel => True end.
  Proof.
    intros Hi Hx Hok Hs He HP lf. rewrite (srun_eq _ _ _ Hi) in Hs. rewrite lrun_eq.
    exact (strict_fail_lazy_fail_any_order_lemma t fl' supplied regexes find call okfn Hcall g0 Hcl Hglob' fuel sms' e lms Hx Hok Hs He HP lf).
  Qed.
  Theorem strict_fail_lazy_err_any_order_real_lemma (sok : N -> Prop) fuel sms sms' e lms :
    idx_rel fl (f_stanzas fl) sms sms' ->
    call_graph_ext call ->
    file_ok okfn fl' (f_stanzas fl') sms' ->
    WellFormedFile regexes fl' -> GoodMatchesLazy sok fl' lms -> GoodGlobals sok g0 supplied -> GoodCall sok call ->
    srun fuel sms = Err e -> order_independent_error e ->
    Permutation (lmatches_of sms') lms ->
    forall lfuel, match lrun lfuel lms with Err _ | OutOfFuel => True | Ok _ | Panic _ => False end.
  Proof.
    intros Hi Hx Hok Hwf Hgm Hgg Hgc Hs He HP lf. rewrite (srun_eq _ _ _ Hi) in Hs. rewrite lrun_eq.
    assert (Hgm' : GoodMatchesLazy sok fl' (lmatches_of sms')) by (eapply Forall_perm; [apply Permutation_sym, HP|exact Hgm]).
    exact (strict_fail_lazy_err_any_order_lemma t fl' supplied regexes find call okfn Hcall g0 Hcl Hglob' sok fuel sms' e lms Hx Hok Hwf Hgm' Hgg Hgc Hs He HP lf).
  Qed.
  Theorem strict_fail_lazy_fail_any_order_scoped_real_lemma (purev : ident -> bool) fuel sms sms' e lms :
    idx_rel fl (f_stanzas fl) sms sms' ->
    call_graph_ext call ->
    file_ok2 okfn purev fl' (f_stanzas fl') sms' -> inh_static t fl' sms' -> Forall (pm_ok2 fl' okfn) lms ->
    srun fuel sms = Err e -> order_independent_error2 e ->
    Permutation (lmatches_of sms') lms ->
    forall lfuel, match lrun lfuel lms with Ok _ => False | Err _ | Panic _ | OutOfFuel => True end.
  Proof.
    intros Hi Hx Hok Hst Hok2 Hs He HP lf. rewrite (srun_eq _ _ _ Hi) in Hs. rewrite lrun_eq.
    assert (Hok2' : Forall (pm_ok2 fl' okfn) (lmatches_of sms')) by (eapply Forall_perm; [apply Permutation_sym, HP|exact Hok2]).
    exact (strict_fail_lazy_fail_any_order_scoped_lemma t fl' supplied regexes find call okfn Hcall g0 Hcl Hglob' purev fuel sms' e lms Hx Hok Hst Hok2' Hs He HP lf).
  Qed.
  Theorem strict_fail_lazy_fail_any_order_scoped_thunks_real_lemma (tnt purev : ident -> bool) fuel sms sms' e lms :
    idx_rel fl (f_stanzas fl) sms sms' ->
    call_graph_ext call ->
    file_ok2 okfn purev fl' (f_stanzas fl') sms' -> inh_static t fl' sms' -> Forall (pm_ok3 fl' okfn tnt) lms ->
    srun fuel sms = Err e -> order_independent_error2 e ->
    Permutation (lmatches_of sms') lms ->
    forall lfuel, match lrun lfuel lms with Ok _ => False | Err _ | Panic _ | OutOfFuel => True end.
  Proof.
    intros Hi Hx Hok Hst Hok3 Hs He HP lf. rewrite (srun_eq _ _ _ Hi) in Hs. rewrite lrun_eq.
    assert (Hok3' : Forall (pm_ok3 fl' okfn tnt) (lmatches_of sms')) by (eapply Forall_perm; [apply Permutation_sym, HP|exact Hok3]).
    exact (strict_fail_lazy_fail_any_order_scoped_thunks_lemma t fl' supplied regexes find call okfn Hcall g0 Hcl Hglob' tnt purev fuel sms' e lms Hx Hok Hst Hok3' Hs He HP lf).
  Qed.
  Theorem strict_fail_lazy_err_any_order_scoped_real_lemma (sok : N -> Prop) (purev : ident -> bool) fuel sms sms' e lms :
    idx_rel fl (f_stanzas fl) sms sms' ->
    call_graph_ext call ->
    file_ok2 okfn purev fl' (f_stanzas fl') sms' -> inh_static t fl' sms' -> Forall (pm_ok2 fl' okfn) lms ->
    WellFormedFile regexes fl' -> GoodMatchesLazy sok fl' lms -> GoodGlobals sok g0 supplied -> GoodCall sok call ->
    srun fuel sms = Err e -> order_independent_error2 e ->
    Permutation (lmatches_of sms') lms ->
    forall lfuel, match lrun lfuel lms with Err _ | OutOfFuel => True | Ok _ | Panic _ => False end.
  Proof.
    intros Hi Hx Hok Hst Hok2 Hwf Hgm Hgg Hgc Hs He HP lf. rewrite (srun_eq _ _ _ Hi) in Hs. rewrite lrun_eq.
    assert (Hok2' : Forall (pm_ok2 fl' okfn) (lmatches_of sms')) by (eapply Forall_perm; [apply Permutation_sym, HP|exact Hok2]).
    assert (Hgm' : GoodMatchesLazy sok fl' (lmatches_of sms')) by (eapply Forall_perm; [apply Permutation_sym, HP|exact Hgm]).
    exact (strict_fail_lazy_err_any_order_scoped_lemma t fl' supplied regexes find call okfn Hcall g0 Hcl Hglob' sok purev fuel sms' e lms Hx Hok Hst Hok2' Hwf Hgm' Hgg Hgc Hs He HP lf).
  Qed.

  (* ================= C08: any two orders of the merged-query blocks (both file-indexed) ================= *)
  Theorem lazy_block_order_iso_real_lemma fuel ms ms' ls p :
    Permutation ms ms' -> Forall (pm_ok fl' okfn) ms ->
    lrun fuel ms = Ok (ls, p) ->
    exists r r', (forall i, r' (r i) = i) /\ (forall i, r (r' i) = i) /\ (forall i, i < N.of_nat (length g0) -> r i = i) /\
      exists fuel0, forall fuel', (fuel0 <= fuel')%nat -> exists ls' p',
        lrun fuel' ms' = Ok (ls', p') /\ graph_iso r (l_graph ls) (l_graph ls').
  Proof.
    intros HP Hok Hr. rewrite lrun_eq in Hr.
    destruct (lazy_run_perm_fuel t fl' supplied regexes find call okfn Hcall g0 Hcl Hglob' fuel ms ms' ls p HP Hok Hr) as (r & r' & I1 & I2 & Fx & f0 & Hev).
    exists r, r'. split; [exact I1|]. split; [exact I2|]. split; [exact Fx|]. exists f0. intros f Hf. rewrite lrun_eq. apply Hev. exact Hf.
  Qed.
  Theorem lazy_block_order_fail_real_lemma fuel ms ms' :
    Permutation ms ms' -> Forall (pm_ok fl' okfn) ms ->
    (forall r, lrun fuel ms <> Ok r) -> lrun fuel ms <> OutOfFuel ->
    forall fuel' r, lrun fuel' ms' <> Ok r.
  Proof.
    intros HP Hok H1 H2 f r. rewrite lrun_eq. apply (lazy_run_perm_fail t fl' supplied regexes find call okfn Hcall g0 Hcl Hglob' fuel ms ms' HP Hok).
    - intros r0. rewrite <- lrun_eq. apply H1.
    - rewrite <- lrun_eq. exact H2.
  Qed.
  Theorem lazy_block_order_iso_scoped_real_lemma fuel ms ms' ls p :
    Permutation ms ms' -> Forall (pm_ok2 fl' okfn) ms ->
    lrun fuel ms = Ok (ls, p) ->
    exists r r', (forall i, r' (r i) = i) /\ (forall i, r (r' i) = i) /\ (forall i, i < N.of_nat (length g0) -> r i = i) /\
      exists fuel0, forall fuel', (fuel0 <= fuel')%nat -> exists ls' p',
        lrun fuel' ms' = Ok (ls', p') /\ graph_iso r (l_graph ls) (l_graph ls').
  Proof.
    intros HP Hok Hr. rewrite lrun_eq in Hr.
    destruct (lazy_run_perm_scoped t fl' supplied regexes find call okfn Hcall g0 Hcl Hglob' fuel ms ms' ls p HP Hok Hr) as (r & r' & I1 & I2 & Fx & f0 & Hev).
    exists r, r'. split; [exact I1|]. split; [exact I2|]. split; [exact Fx|]. exists f0. intros f Hf. rewrite lrun_eq. apply Hev. exact Hf.
  Qed.
  Theorem lazy_block_order_fail_scoped_real_lemma fuel ms ms' :
    Permutation ms ms' -> Forall (pm_ok2 fl' okfn) ms ->
    (forall r, lrun fuel ms <> Ok r) -> lrun fuel ms <> OutOfFuel ->
    forall fuel' r, lrun fuel' ms' <> Ok r.
  Proof.
    intros HP Hok H1 H2 f r. rewrite lrun_eq. apply (lazy_run_perm_scoped_fail t fl' supplied regexes find call okfn Hcall g0 Hcl Hglob' fuel ms ms' HP Hok).
    - intros r0. rewrite <- lrun_eq. apply H1.
    - rewrite <- lrun_eq. exact H2.
  Qed.
  Theorem lazy_block_order_iso_scoped_thunks_real_lemma (tnt : ident -> bool) fuel ms ms' ls p :
    Permutation ms ms' -> Forall (pm_ok3 fl' okfn tnt) ms ->
    lrun fuel ms = Ok (ls, p) ->
    exists r r', (forall i, r' (r i) = i) /\ (forall i, r (r' i) = i) /\ (forall i, i < N.of_nat (length g0) -> r i = i) /\
      exists fuel0, forall fuel', (fuel0 <= fuel')%nat -> exists ls' p',
        lrun fuel' ms' = Ok (ls', p') /\ graph_iso r (l_graph ls) (l_graph ls').
  Proof.
    intros HP Hok Hr. rewrite lrun_eq in Hr.
    destruct (lazy_run_perm_thunks t fl' supplied regexes find call okfn tnt Hcall g0 Hcl Hglob' fuel ms ms' ls p HP Hok Hr) as (r & r' & I1 & I2 & Fx & f0 & Hev).
    exists r, r'. split; [exact I1|]. split; [exact I2|]. split; [exact Fx|]. exists f0. intros f Hf. rewrite lrun_eq. apply Hev. exact Hf.
  Qed.
  Theorem lazy_block_order_fail_scoped_thunks_real_lemma (tnt : ident -> bool) fuel ms ms' :
    Permutation ms ms' -> Forall (pm_ok3 fl' okfn tnt) ms ->
    (forall r, lrun fuel ms <> Ok r) -> lrun fuel ms <> OutOfFuel ->
    forall fuel' r, lrun fuel' ms' <> Ok r.
  Proof.
    intros HP Hok H1 H2 f r. rewrite lrun_eq. apply (lazy_run_perm_thunks_fail t fl' supplied regexes find call okfn tnt Hcall g0 Hcl Hglob' fuel ms ms' HP Hok).
    - intros r0. rewrite <- lrun_eq. apply H1.
    - rewrite <- lrun_eq. exact H2.
  Qed.
End Real.

(* ================= the driver of the correspondence harness on a recorded case =================
   `r` is the record the harness emits: ri_smatches with stanza indices, ri_lmatches with file indices.  The Permutation hypothesis of
   the old run_one theorems (false of real cases) is replaced by `idx_agree`; the fragment predicates are stated on the normalized file
   with the merged-query matches (regrouped by stanza for the strict-side predicates: `real_smatches r`). *)
Section RunOneReal.
  Variables (t : tree) (r : run_in) (okfn : ident -> Prop) (g0 : graph).
  Hypothesis Hcall : forall f, okfn f -> call_ok (the_call t (ri_tbl r)) f.
  Hypothesis Hcl : gclosed (N.of_nat (length g0)) g0.
  Hypothesis Hglob : forall glob, check_globals (f_globals (ri_file r)) (globals_nested (ri_supplied r)) = Ok glob ->
     forall name v, globals_get glob name = Some v -> vall (fun i => i < N.of_nat (length g0)) v.
  Hypothesis Hidx : idx_agree (ri_file r) (ri_smatches r) (ri_lmatches r).
  Notation fl' := (normalize_file (ri_file r)).
  Notation r' := (normalize_run r).

  Lemma HA3' : Permutation (lmatches_of (ri_smatches r')) (ri_lmatches r').
  Proof. exact (idx_agree_perm _ _ _ Hidx). Qed.
  Lemma Hglob_r' : forall glob, check_globals (f_globals (ri_file r')) (globals_nested (ri_supplied r')) = Ok glob ->
     forall name v, globals_get glob name = Some v -> vall (fun i => i < N.of_nat (length g0)) v.
  Proof. exact Hglob. Qed.
  Lemma Hcall_r' : forall f, okfn f -> call_ok (the_call t (ri_tbl r')) f.
  Proof. exact Hcall. Qed.

  Theorem strict_lazy_iso_run_one_real_lemma g p :
    file_ok okfn fl' (f_stanzas fl') (real_smatches r) ->
    run_one t config0 None (with_lazy r false) g0 = Ok (g, p) ->
    exists rn rn', (forall i, rn' (rn i) = i) /\ (forall i, rn (rn' i) = i) /\ (forall i, i < N.of_nat (length g0) -> rn i = i) /\
      match run_one t config0 None (with_lazy r true) g0 with
      | Ok (g', _) => graph_iso rn g g'
      | OutOfFuel => True
      | Err _ | Panic _ => False
      end.
  Proof.
    intros Hok H. rewrite (run_one_reindex _ _ _ _ false _ Hidx) in H. rewrite (run_one_reindex _ _ _ _ true _ Hidx).
    exact (strict_lazy_iso_run_one_lemma t r' okfn g0 Hcall_r' Hcl Hglob_r' HA3' g p Hok H).
  Qed.
  Theorem strict_lazy_iso_run_one_scoped_real_lemma (purev : ident -> bool) g p :
    file_ok2 okfn purev fl' (f_stanzas fl') (real_smatches r) ->
    Forall (pm_ok2 fl' okfn) (ri_lmatches r) ->
    (forall s p', run_strict t (ri_file r) config0 (ri_supplied r) None (ri_rxs r) rx_captures (the_call t (ri_tbl r)) default_fuel (ri_smatches r) g0 = Ok (s, p') ->
                  inh_antichain t (ri_file r) (s_scoped s)) ->
    run_one t config0 None (with_lazy r false) g0 = Ok (g, p) ->
    exists rn rn', (forall i, rn' (rn i) = i) /\ (forall i, rn (rn' i) = i) /\ (forall i, i < N.of_nat (length g0) -> rn i = i) /\
      match run_one t config0 None (with_lazy r true) g0 with
      | Ok (g', _) => graph_iso rn g g'
      | OutOfFuel => True
      | Err _ | Panic _ => False
      end.
  Proof.
    intros Hok Hok2 Hanti H. rewrite (run_one_reindex _ _ _ _ false _ Hidx) in H. rewrite (run_one_reindex _ _ _ _ true _ Hidx).
    assert (Hok2' : Forall (pm_ok2 (ri_file r') okfn) (lmatches_of (ri_smatches r'))) by (eapply Forall_perm; [apply Permutation_sym, HA3'|exact Hok2]).
    apply (strict_lazy_iso_run_one_scoped_lemma t r' okfn g0 Hcall_r' Hcl Hglob_r' HA3' purev g p Hok Hok2'); [|exact H].
    intros s p' Hs. apply (Hanti s p'). destruct Hidx as [_ Hrel].
    rewrite (run_strict_reindex t (ri_file r) config0 (ri_supplied r) None (ri_rxs r) rx_captures (the_call t (ri_tbl r)) default_fuel (ri_smatches r) _ g0 Hrel). exact Hs.
  Qed.
  Theorem strict_fail_lazy_fail_run_one_real_lemma e :
    call_graph_ext (the_call t (ri_tbl r)) ->
    file_ok okfn fl' (f_stanzas fl') (real_smatches r) ->
    run_one t config0 None (with_lazy r false) g0 = Err e -> order_independent_error e ->
    match run_one t config0 None (with_lazy r true) g0 with Ok _ => False | Err _ | Panic _ | OutOfFuel => True end.
  Proof.
    intros Hx Hok H He. rewrite (run_one_reindex _ _ _ _ false _ Hidx) in H. rewrite (run_one_reindex _ _ _ _ true _ Hidx).
    exact (strict_fail_lazy_fail_run_one_lemma t r' okfn g0 Hcall_r' Hcl Hglob_r' HA3' e Hx Hok H He).
  Qed.
  Theorem strict_fail_lazy_fail_run_one_scoped_real_lemma (purev : ident -> bool) e :
    call_graph_ext (the_call t (ri_tbl r)) ->
    file_ok2 okfn purev fl' (f_stanzas fl') (real_smatches r) -> inh_static t fl' (real_smatches r) ->
    Forall (pm_ok2 fl' okfn) (ri_lmatches r) ->
    run_one t config0 None (with_lazy r false) g0 = Err e -> order_independent_error2 e ->
    match run_one t config0 None (with_lazy r true) g0 with Ok _ => False | Err _ | Panic _ | OutOfFuel => True end.
  Proof.
    intros Hx Hok Hst Hok2 H He. rewrite (run_one_reindex _ _ _ _ false _ Hidx) in H. rewrite (run_one_reindex _ _ _ _ true _ Hidx).
    assert (Hok2' : Forall (pm_ok2 (ri_file r') okfn) (lmatches_of (ri_smatches r'))) by (eapply Forall_perm; [apply Permutation_sym, HA3'|exact Hok2]).
    exact (strict_fail_lazy_fail_run_one_scoped_lemma t r' okfn g0 Hcall_r' Hcl Hglob_r' HA3' purev e Hx Hok Hst Hok2' H He).
  Qed.
End RunOneReal.
