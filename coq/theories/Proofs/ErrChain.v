(* Proofs/ErrChain.v — lemmas about Model/ErrChain.v: what the rendering of the chain of a MODEL error cites. *)
From TSG Require Import Model.ErrChain Proofs.ParseErr Proofs.ErrRender.

(* the three citations of one statement context: statement location and stanza location in the DSL file, node
   position in the source file, each as "path:row+1:col+1:" *)
Definition cites3 (tsg_path src_path out : str) (sl zl pl : rloc) : Prop :=
  contains (cite tsg_path (fst sl) (snd sl)) out = true /\
  contains (cite tsg_path (fst zl) (snd zl)) out = true /\
  contains (cite src_path (fst pl) (snd pl)) out = true.
(* the three cited lines, whenever the given texts have these rows *)
Definition shows3 (tsg src out : str) (sl zl pl : rloc) : Prop :=
  (forall l, nth_error (lines tsg) (N.to_nat (fst sl)) = Some l -> contains l out = true) /\
  (forall l, nth_error (lines tsg) (N.to_nat (fst zl)) = Some l -> contains l out = true) /\
  (forall l, nth_error (lines src) (N.to_nat (fst pl)) = Some l -> contains l out = true).

Section Chain.
  Variable stmt_text : loc -> str.
  Variable cause_text : exec_error -> str.
  Variable node_kind : N -> str.
  Variable node_pos : N -> rloc.
  Variable other_msg : N -> str.

  Notation sctx := (sctx_of stmt_text node_kind node_pos).
  Notation ctxs := (ctxs_of stmt_text node_kind node_pos other_msg).
  Notation chain_of := (chain_of_error stmt_text cause_text node_kind node_pos other_msg).

  Lemma all_stmt_ctxs_of : forall e i, all_stmt_ctxs (ctxs i e) = map sctx (err_stmt_ctxs e).
  Proof.
    fix IH 1. intros e i. destruct e; try reflexivity.
    destruct c as [l|]; cbn [ctxs_of all_stmt_ctxs err_stmt_ctxs].
    - rewrite map_app, IH. reflexivity.
    - apply IH.
  Qed.

  Lemma in_chain : forall e c, In c (err_stmt_ctxs e) -> In (sctx c) (all_stmt_ctxs (ch_ctxs (chain_of e))).
  Proof. intros e c H. unfold chain_of_error. cbn [ch_ctxs]. rewrite all_stmt_ctxs_of. apply in_map, H. Qed.

  (* EVERY statement context of a model error, at any depth, is cited three times by the rendering of its chain *)
  Lemma chain_cites_lemma : forall w tp t sp s e c, In c (err_stmt_ctxs e) ->
    cites3 tp sp (render_pretty w tp t sp s (chain_of e)) (sc_stmt c) (sc_stanza c) (node_pos (sc_node c)).
  Proof. intros w tp t sp s e c H. exact (render_pretty_cites_lemma w tp t sp s _ _ (in_chain e c H)). Qed.

  Lemma chain_shows_lemma : forall w tp t sp s e c, In c (err_stmt_ctxs e) ->
    shows3 t s (render_pretty w tp t sp s (chain_of e)) (sc_stmt c) (sc_stanza c) (node_pos (sc_node c)).
  Proof. intros w tp t sp s e c H. exact (render_pretty_shows_lines_lemma w tp t sp s _ _ (in_chain e c H)). Qed.

  Lemma outer_in : forall l e0 c, In c l -> In c (err_stmt_ctxs (EInContext (CtxStmts l) e0)).
  Proof. intros l e0 c H. cbn [err_stmt_ctxs]. apply in_or_app. left. exact H. Qed.

  (* the entries of the chain are the contexts of the error, outermost first; the last entry is the root cause *)
  Lemma chain_length : forall e i, length (ctxs i e) = length (ctxs 0 e).
  Proof.
    fix IH 1. intros e i. destruct e; try reflexivity.
    destruct c as [l|]; cbn [ctxs_of length]; rewrite (IH e (i + 1)), (IH e (0 + 1)); reflexivity.
  Qed.
  Lemma chain_cause : forall e, ch_cause (chain_of e) = cause_text (root_cause e).
  Proof. reflexivity. Qed.
End Chain.
