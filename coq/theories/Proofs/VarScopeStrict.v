(* Proofs/VarScopeStrict.v — C06, scope soundness part 4: the STRICT interpreter (Model/Strict.v) on programs that
   satisfy the scope discipline (Model/VarScope.v).  Simulation invariant: the run-time frames `s_locals` have
   exactly the shape of the static environment — same frames, same names in the same order, same mutability.
   Under it `get`, `add` and `set` of an unscoped variable cannot fail, so the errors the interpreter returns
   satisfy `serr_ok sr sd`:
     never  CannotAssignImmutableVariable, UndefinedCapture;
     UndefinedVariable only if scoped reads are allowed (sr), DuplicateVariable only if scoped targets are (sd) —
     the strict interpreter reports the scoped cases with the same error values. *)
From TSG Require Import Model.Exec Model.Strict Model.VarScope Proofs.BaseFacts Proofs.MonadFacts Proofs.VarScopeShape Proofs.VarScopeHoare.

Definition serr_ok (sr sd : bool) (e : exec_error) : Prop :=
  match root_cause e with
  | ECannotAssignImmutableVariable | EUndefinedCapture => False
  | EUndefinedVariable => sr = true
  | EDuplicateVariable => sd = true
  | _ => True
  end.
Lemma serr_ok_ctx sr sd c e : serr_ok sr sd e -> serr_ok sr sd (add_context c e).
Proof. unfold serr_ok. rewrite root_cause_add_ctx. auto. Qed.
Lemma serr_ok_other sr sd e : variable_error e = false -> serr_ok sr sd e.
Proof. unfold variable_error, serr_ok. destruct (root_cause e); try discriminate; auto. Qed.

Definition slocs (s : sstate) : lenv := shape (s_locals s).

Ltac ikeep u env' := let E := fresh "E" in intros u env' E; unfold keeps in E; subst env'.

Section Strict.
  Context {rx : Type}.
  Variable t : tree.
  Variable fl : file.
  Variable cfg : config.
  Variable glob : globals.
  Variable regexes : list rx.
  Variable find : rx -> str -> option (list (option (N * N))).
  Variable call : ident -> graph -> list value -> res (value * graph).
  Variable G : ident -> bool.
  Variables sr sd : bool.
  Hypothesis HG : forall x, G x = match globals_get glob x with Some _ => true | None => false end.
  Hypothesis Hcall : forall f g args e, call f g args = Err e -> variable_error e = false.
  Hypothesis Hsh : vs_shorthands G sr fl = true.

  Notation EOk := (serr_ok sr sd).
  Notation hvs := (hv slocs EOk).
  Notation neu := (neutral slocs EOk).
  Notation eval' := (eval t fl glob call).
  Notation exec_attr' := (exec_attr t fl glob call).
  Notation exec_stmt' := (exec_stmt t fl cfg glob regexes find call).

  Ltac neu_step :=
    lazymatch goal with
    | |- neutral _ _ (ret _) => apply neutral_ret
    | |- neutral _ _ (panic _) => apply neutral_panic
    | |- neutral _ _ out_of_fuel => apply neutral_oof
    | |- neutral _ _ (fail _) => apply neutral_fail; exact I
    | |- neutral _ _ (modify _) => apply neutral_modify; intros ?; reflexivity
    | |- neutral _ _ (bind get_state _) => apply neutral_get; intros ?
    | |- neutral _ _ (bind _ _) => apply neutral_bind; [|intros ?]
    | |- neutral _ _ (match ?x with _ => _ end) => destruct x
    end.
  Ltac neu_tac := repeat neu_step.

  (* ---- primitives that do not touch the frames ---- *)
  Lemma neu_set_graph g : neu (set_graph g). Proof. unfold set_graph. neu_tac. Qed.
  Lemma neu_set_scoped sc : neu (set_scoped sc). Proof. unfold set_scoped. neu_tac. Qed.
  Lemma neu_set_params ps : neu (set_params ps). Proof. unfold set_params. neu_tac. Qed.
  Lemma neu_add_node : neu add_node. Proof. unfold add_node, set_graph. neu_tac. Qed.
  Lemma neu_add_attr tgt k v : neu (add_attr tgt k v). Proof. unfold add_attr, set_graph. neu_tac. Qed.
  Lemma neu_add_edge a b : neu (add_edge a b). Proof. unfold add_edge, set_graph. neu_tac. Qed.
  Lemma neu_push_param v : neu (push_param v). Proof. unfold push_param, set_params. neu_tac. Qed.
  Lemma neu_drain_params n : neu (drain_params n). Proof. unfold drain_params, set_params. neu_tac. Qed.
  Lemma neu_call_function f args : neu (call_function call f args).
  Proof.
    unfold call_function. apply neutral_get. intros s. destruct (call f (s_graph s) args) as [[v g']|e|x|] eqn:E.
    - unfold set_graph. neu_tac.
    - apply neutral_fail. apply serr_ok_other. eapply Hcall. exact E.
    - apply neutral_panic.
    - apply neutral_oof.
  Qed.
  Lemma neu_opt_attr tgt name v : neu (opt_attr tgt name v).
  Proof. destruct name; cbn [opt_attr]; [apply neu_add_attr|apply neutral_ret]. Qed.
  Lemma neu_full_match_node le : neu (full_match_node le). Proof. unfold full_match_node. neu_tac. Qed.
  Lemma neu_scope_of v : neu (scope_of v). Proof. unfold scope_of. neu_tac. Qed.
  (* the scoped operations: their UndefinedVariable / DuplicateVariable are allowed only under the flags *)
  Lemma neu_scoped_get_at n name : sr = true -> neu (scoped_get_at t fl n name).
  Proof.
    intros Hsr. unfold scoped_get_at. apply neutral_get. intros s.
    destruct (scoped_lookup (s_scoped s) n name); [apply neutral_ret|].
    destruct (inherited fl name); [destruct (ancestor_lookup _ _ _ _ _); [apply neutral_ret|]|]; apply neutral_fail; exact Hsr.
  Qed.
  Lemma neu_scoped_add_at n name v m : sd = true -> neu (scoped_add_at n name v m).
  Proof.
    intros Hsd. unfold scoped_add_at. apply neutral_get. intros s. cbv zeta.
    destruct (alist_get name _); [apply neutral_fail; exact Hsd|apply neu_set_scoped].
  Qed.
  Lemma neu_scoped_set_at n name v : sd = true -> neu (scoped_set_at n name v).
  Proof.
    intros Hsd. unfold scoped_set_at. apply neutral_get. intros s. cbv zeta.
    destruct (alist_get name _) as [[v0 [|]]|]; [apply neu_set_scoped|apply neutral_fail; exact Hsd|apply neutral_fail; exact Hsd].
  Qed.

  (* ---- frames ---- *)
  Lemma hv_set_locals env l : hvs env (set_locals l) (keeps (shape l)).
  Proof. intros s p _. reflexivity. Qed.
  Lemma hv_push_frame env : hvs env push_frame (keeps ([] :: env)).
  Proof. intros s p Hs. unfold push_frame, bind, get_state, set_locals, modify. unfold keeps, slocs. cbn [s_locals]. rewrite shape_nested. f_equal. exact Hs. Qed.
  Lemma hv_pop_frame env env0 : inner env env0 -> hvs env0 pop_frame (keeps env).
  Proof.
    intros [fr ->] s p Hs. unfold pop_frame, bind, get_state. unfold slocs in Hs. destruct (s_locals s) as [|fr' up]; [exact I|].
    unfold set_locals, modify, keeps, slocs. cbn [s_locals]. cbn [shape map] in Hs. inversion Hs. reflexivity.
  Qed.
  Lemma hv_clear_frame env env0 : inner env env0 -> hvs env0 clear_frame (keeps ([] :: env)).
  Proof.
    intros [fr ->] s p Hs. unfold clear_frame, bind, get_state, set_locals, modify, keeps, slocs. cbn [s_locals]. rewrite shape_clear.
    unfold slocs in Hs. rewrite Hs. reflexivity.
  Qed.

  (* ---- unscoped variables: THE point of the static rules ---- *)
  Lemma G_false x : G x = false -> globals_get glob x = None.
  Proof. rewrite HG. destruct (globals_get glob x); [discriminate|reflexivity]. Qed.

  Lemma hv_unscoped_get env name : G name || is_bound env name = true -> hvs env (unscoped_get glob name) (keeps env).
  Proof.
    intros H. unfold unscoped_get. destruct (globals_get glob name) eqn:Eg; [apply hv_ret; reflexivity|].
    rewrite HG, Eg in H. cbn [orb] in H. intros s p Hs. unfold bind, get_state. unfold slocs in Hs. rewrite <- Hs, is_bound_shape in H.
    destruct (varmap_get (s_locals s) name); [exact Hs|discriminate].
  Qed.
  Lemma hv_unscoped_add env name v mu : negb (G name) && can_add env name = true ->
    hvs env (unscoped_add glob name v mu) (keeps (lenv_bind env name mu)).
  Proof.
    intros H. apply andb_true_iff in H. destruct H as [H1 H2]. apply negb_true_iff in H1. unfold unscoped_add. rewrite (G_false _ H1).
    intros s p Hs. unfold bind, get_state. unfold slocs in Hs. rewrite <- Hs in H2. destruct (varmap_add_ok _ _ v mu H2) as [l' El]. rewrite El.
    unfold set_locals, modify, keeps, slocs. cbn [s_locals]. rewrite (proj2 (varmap_add_inl _ _ _ _ _ El)), Hs. reflexivity.
  Qed.
  Lemma hv_unscoped_set env name v : negb (G name) && can_set env name = true -> hvs env (unscoped_set glob name v) (keeps env).
  Proof.
    intros H. apply andb_true_iff in H. destruct H as [H1 H2]. apply negb_true_iff in H1. unfold unscoped_set. rewrite (G_false _ H1).
    intros s p Hs. unfold bind, get_state. unfold slocs in Hs. rewrite <- Hs in H2. destruct (varmap_set_ok _ _ v H2) as [l' El]. rewrite El.
    unfold set_locals, modify, keeps, slocs. cbn [s_locals]. rewrite (proj2 (varmap_set_inl _ _ _ _ El)). exact Hs.
  Qed.

  Lemma EOk_cancel l : EOk (ECancelled l). Proof. exact I. Qed.
  Lemma hv_as_list env v : hvs env (lift (as_list v)) (keeps env).
  Proof. apply hv_lift; [reflexivity|]. destruct v; cbn [as_list]; intros e [= <-]; exact I. Qed.
  Lemma hv_as_gnode env v : hvs env (lift (as_gnode v)) (keeps env).
  Proof. apply hv_lift; [reflexivity|]. destruct v; cbn [as_gnode]; intros e [= <-]; exact I. Qed.
  Lemma hv_as_str env v : hvs env (lift (as_str v)) (keeps env).
  Proof. apply hv_lift; [reflexivity|]. destruct v; cbn [as_str]; intros e [= <-]; exact I. Qed.
  Lemma hv_as_bool env v : hvs env (lift (as_bool v)) (keeps env).
  Proof. apply hv_lift; [reflexivity|]. destruct v; cbn [as_bool]; intros e [= <-]; exact I. Qed.
  Lemma hv_neu {A} env (m : M sstate A) : neu m -> hvs env m (keeps env).
  Proof. apply hv_neutral. Qed.

  (* ---- expressions ---- *)
  Lemma hv_comp fuel le el x v env (mk : list value -> value) :
    (forall le e env, vs_expr G sr env e = true -> hvs env (eval' fuel le e) (keeps env)) ->
    vs_expr G sr env v = true -> G x = false -> vs_expr G sr ([(x, false)] :: env) el = true ->
    hvs env (lv <- eval' fuel le v ;; vals <- lift (as_list lv) ;; push_frame ;;;
             out <- Exec.mapM (fun v => clear_frame ;;; unscoped_add glob x v false ;;; eval' fuel le el) vals ;;
             pop_frame ;;; ret (mk out)) (keeps env).
  Proof.
    intros IH Hv Hx Hel.
    eapply hv_bind; [apply IH; exact Hv|]. ikeep lv env'.
    eapply hv_bind; [apply hv_as_list|]. ikeep vals env'.
    eapply hv_bind; [apply hv_push_frame|]. ikeep u env'.
    eapply hv_bind.
    { apply (hv_mapM slocs EOk (inner env)); [|exists []; reflexivity]. intros w env0 _ Hin.
      eapply hv_bind; [apply (hv_clear_frame env); exact Hin|]. ikeep u1 env'.
      eapply hv_bind; [apply hv_unscoped_add; rewrite Hx; reflexivity|]. ikeep u2 env'. cbn [lenv_bind app].
      eapply hv_conseq; [|apply IH; exact Hel]. intros a env' ->. eexists. reflexivity. }
    intros out env1 Hin. eapply hv_bind; [apply (hv_pop_frame env); exact Hin|]. ikeep u3 env'. apply hv_ret. reflexivity.
  Qed.

  Lemma hv_eval : forall fuel le e env, vs_expr G sr env e = true -> hvs env (eval' fuel le e) (keeps env).
  Proof.
    induction fuel as [|fuel IH]; intros le e env He; [apply hv_oof|].
    destruct e; cbn [eval]; cbn [vs_expr] in He; try (apply hv_ret; reflexivity).
    - eapply hv_bind; [apply hv_mapM_keeps; intros x Hx; apply IH; rewrite forallb_forall in He; exact (He _ Hx)|].
      ikeep vs env'. apply hv_ret. reflexivity.
    - eapply hv_bind; [apply hv_mapM_keeps; intros x Hx; apply IH; rewrite forallb_forall in He; exact (He _ Hx)|].
      ikeep vs env'. apply hv_ret. reflexivity.
    - apply andb_true_iff in He. destruct He as [He H3]. apply andb_true_iff in He. destruct He as [H1 H2]. apply negb_true_iff in H2.
      apply (hv_comp fuel le e1 var e2 env VList (IH) H1 H2 H3).
    - apply andb_true_iff in He. destruct He as [He H3]. apply andb_true_iff in He. destruct He as [H1 H2]. apply negb_true_iff in H2.
      apply (hv_comp fuel le e1 var e2 env (fun out => VSet (set_of_list out)) (IH) H1 H2 H3).
    - apply hv_lift; [reflexivity|]. destruct q, (nodes_for_capture (le_match le) stanza_idx); cbn [from_nodes]; intros e; discriminate.
    - apply hv_unscoped_get. exact He.
    - apply andb_true_iff in He. destruct He as [Hsr He].
      eapply hv_bind; [apply IH; exact He|]. ikeep sv env'.
      eapply hv_bind; [apply hv_neu, neu_scope_of|]. ikeep n env'. apply hv_neu, neu_scoped_get_at. exact Hsr.
    - eapply hv_bind.
      { apply hv_iterM_keeps. intros a Ha. eapply hv_bind; [apply IH; rewrite forallb_forall in He; exact (He _ Ha)|].
        ikeep v env'. apply hv_neu, neu_push_param. }
      ikeep u env'. eapply hv_bind; [apply hv_neu, neu_drain_params|]. ikeep ps env'. apply hv_neu, neu_call_function.
    - destruct (nth_error (le_caps le) (N.to_nat i)); [apply hv_ret; reflexivity|apply hv_fail; exact I].
  Qed.

  (* ---- variables ---- *)
  Lemma hv_var_add fuel le v x mu env : vs_var_add G sr sd env v = true ->
    hvs env (var_add t fl glob call fuel le v x mu) (keeps (bind_var env v mu)).
  Proof.
    destruct v as [name l|scope name l]; cbn [vs_var_add var_add bind_var]; intros H; [apply hv_unscoped_add; exact H|].
    apply andb_true_iff in H. destruct H as [Hsd H].
    eapply hv_bind; [apply hv_eval; exact H|]. ikeep sv env'.
    eapply hv_bind; [apply hv_neu, neu_scope_of|]. ikeep n env'. apply hv_neu, neu_scoped_add_at. exact Hsd.
  Qed.
  Lemma hv_var_set fuel le v x env : vs_var_set G sr sd env v = true ->
    hvs env (var_set t fl glob call fuel le v x) (keeps env).
  Proof.
    destruct v as [name l|scope name l]; cbn [vs_var_set var_set]; intros H; [apply hv_unscoped_set; exact H|].
    apply andb_true_iff in H. destruct H as [Hsd H].
    eapply hv_bind; [apply hv_eval; exact H|]. ikeep sv env'.
    eapply hv_bind; [apply hv_neu, neu_scope_of|]. ikeep n env'. apply hv_neu, neu_scoped_set_at. exact Hsd.
  Qed.
  Lemma hv_test_cond fuel le c env : vs_expr G sr env (cond_expr c) = true -> hvs env (test_cond t fl glob call fuel le c) (keeps env).
  Proof.
    destruct c; cbn [cond_expr test_cond]; intros He; (eapply hv_bind; [apply hv_eval; exact He|]); ikeep v env';
      try (apply hv_ret; reflexivity). apply hv_as_bool.
  Qed.

  (* ---- attributes, through shorthands (the body runs in a fresh map that holds the parameter) ---- *)
  Lemma sh_body_vs name sh : find_shorthand name (f_shorthands fl) = Some sh ->
    G (sh_var sh) = false /\ forall a, In a (sh_attrs sh) -> vs_attr G sr [[(sh_var sh, false)]] a = true.
  Proof.
    intros Hf. assert (Hin : In sh (f_shorthands fl)).
    { revert Hf. generalize (f_shorthands fl). induction l as [|s l IHl]; cbn [find_shorthand]; [discriminate|].
      destruct (find_shorthand name l) as [s'|].
      - intros [= ->]. right. apply IHl. reflexivity.
      - destruct (str_eqb name (sh_name s)); [intros [= ->]; left; reflexivity|discriminate]. }
    unfold vs_shorthands in Hsh. rewrite forallb_forall in Hsh. specialize (Hsh _ Hin). unfold vs_shorthand in Hsh.
    apply andb_true_iff in Hsh. destruct Hsh as [H1 H2]. apply negb_true_iff in H1. split; [exact H1|].
    rewrite forallb_forall in H2. exact H2.
  Qed.

  Lemma hv_exec_attr : forall fuel le tgt a env, vs_attr G sr env a = true -> hvs env (exec_attr' fuel le tgt a) (keeps env).
  Proof.
    induction fuel as [|fuel IH]; intros le tgt a env Ha; [apply hv_oof|].
    destruct a as [name value]. cbn [vs_attr] in Ha. cbn [exec_attr].
    eapply hv_bind; [apply hv_poll, EOk_cancel|]. ikeep u env'.
    eapply hv_bind; [apply hv_eval; exact Ha|]. ikeep v env'.
    destruct (find_shorthand name (f_shorthands fl)) as [sh|] eqn:Ef; [|apply hv_neu, neu_add_attr].
    destruct (sh_body_vs _ _ Ef) as [Hx Hbody].
    apply hv_get. intros s Hs. cbv zeta.
    eapply hv_bind; [apply hv_set_locals|]. ikeep u1 env'. cbn [shape map].
    eapply hv_bind; [apply hv_unscoped_add; rewrite Hx; reflexivity|]. ikeep u2 env'. cbn [lenv_bind app].
    eapply hv_bind; [apply hv_iterM_keeps; intros a Hin; apply IH; apply Hbody; exact Hin|]. ikeep u3 env'.
    eapply hv_conseq; [|apply hv_set_locals]. intros a env' ->. exact Hs.
  Qed.
  Lemma hv_exec_attrs fuel le tgt attrs env : forallb (vs_attr G sr env) attrs = true ->
    hvs env (iterM (exec_attr' fuel le tgt) attrs) (keeps env).
  Proof. intros H. apply hv_iterM_keeps. intros a Hin. apply hv_exec_attr. rewrite forallb_forall in H. exact (H _ Hin). Qed.

  (* ---- loops ---- *)
  Lemma hv_scan_loop (run_arm : list str -> list stmt -> M sstate unit) arms rs subject env :
    (forall caps rxi body al, In (rxi, body, al) arms -> hvs ([] :: env) (run_arm caps body) (fun _ => inner env)) ->
    forall sfuel i, hvs env (scan_loop find run_arm arms rs subject sfuel i) (keeps env).
  Proof.
    intros Hrun. induction sfuel as [|sfuel IHs]; intros i; cbn [scan_loop]; [apply hv_oof|].
    destruct (N.ltb i (N.of_nat (length subject))); [|apply hv_ret; reflexivity].
    eapply hv_bind; [apply hv_poll, EOk_cancel|]. ikeep u env'. cbv zeta.
    destruct (arm_select find rs (skipn (N.to_nat i) subject)) as [|k|k caps]; [apply hv_ret; reflexivity|apply hv_fail; exact I|].
    destruct (nth_error arms (N.to_nat k)) as [[[r body] l']|] eqn:En; [|apply hv_panic].
    eapply hv_bind; [apply hv_push_frame|]. ikeep u1 env'.
    eapply hv_bind; [apply (Hrun _ r body l'); eapply nth_error_In; exact En|]. intros u2 env1 Hin.
    eapply hv_bind; [apply (hv_pop_frame env); exact Hin|]. ikeep u3 env'. apply IHs.
  Qed.
  Lemma hv_if_loop (test : cond -> M sstate bool) (run_body : list stmt -> M sstate unit) env arms :
    (forall conds body al c, In (conds, body, al) arms -> In c conds -> hvs env (test c) (keeps env)) ->
    (forall conds body al, In (conds, body, al) arms -> hvs ([] :: env) (run_body body) (fun _ => inner env)) ->
    hvs env (if_loop test run_body arms) (keeps env).
  Proof.
    induction arms as [|[[conds body] l'] arms IHa]; intros Ht Hr; cbn [if_loop]; [apply hv_ret; reflexivity|].
    eapply hv_bind; [apply hv_mapM_keeps; intros c Hc; apply (Ht conds body l' c); [left; reflexivity|exact Hc]|]. ikeep bs env'.
    destruct (forallb (fun b => b) bs).
    - eapply hv_bind; [apply hv_push_frame|]. ikeep u1 env'.
      eapply hv_bind; [apply (Hr conds body l'); left; reflexivity|]. intros u2 env' Hin. apply (hv_pop_frame env). exact Hin.
    - apply IHa; [intros c0 b0 a0 c Hin; apply (Ht c0 b0 a0 c); right; exact Hin|intros c0 b0 a0 Hin; apply (Hr c0 b0 a0); right; exact Hin].
  Qed.

  (* ---- statements ---- *)
  Lemma hv_exec_stmt : forall fuel le s env, vs_stmt G sr sd env s = true ->
    hvs env (exec_stmt' fuel le s) (keeps (vs_env env s)).
  Proof.
    induction fuel as [|fuel IH]; intros le s env Hs; [apply hv_oof|].
    assert (Hblock : forall le' (wrap : M sstate unit -> M sstate unit) body fr,
      (forall env0 m Q, hvs env0 m Q -> hvs env0 (wrap m) Q) ->
      vs_block G sr sd (fr :: env) body = true ->
      hvs (fr :: env) (iterM (fun st => let c := ctx_update (le_ctx le') st in
                                     ctx_wrap (CtxStmts [c]) (wrap (exec_stmt' fuel (le_with_ctx le' c) st))) body)
          (fun _ => inner env)).
    { intros le' wrap body fr Hw Hb. eapply (hv_block_inner slocs EOk G sr sd); [|exact Hb]. intros s0 env0 H0. cbv zeta.
      apply hv_ctx; [apply serr_ok_ctx|]. apply Hw. apply IH. exact H0. }
    destruct s; cbn [exec_stmt]; cbn [vs_stmt] in Hs; cbn [vs_env]; (eapply hv_bind; [apply hv_poll, EOk_cancel|ikeep u env']).
    - apply andb_true_iff in Hs. destruct Hs as [He Hv].
      eapply hv_bind; [apply hv_eval; exact He|]. ikeep x env'. apply hv_var_add. exact Hv.
    - apply andb_true_iff in Hs. destruct Hs as [He Hv].
      eapply hv_bind; [apply hv_eval; exact He|]. ikeep x env'. apply hv_var_add. exact Hv.
    - apply andb_true_iff in Hs. destruct Hs as [He Hv].
      eapply hv_bind; [apply hv_eval; exact He|]. ikeep x env'. apply hv_var_set. exact Hv.
    - eapply hv_bind; [apply hv_neu, neu_add_node|]. ikeep n env'.
      eapply hv_bind; [apply hv_neu, neu_opt_attr|]. ikeep u1 env'.
      eapply hv_bind; [apply hv_neu, neu_opt_attr|]. ikeep u2 env'.
      eapply hv_bind.
      { instantiate (1 := keeps env). destruct (c_match_attr cfg); [|apply hv_ret; reflexivity].
        eapply hv_bind; [apply hv_neu, neu_full_match_node|]. ikeep mn env'. apply hv_neu, neu_add_attr. }
      ikeep u3 env'. apply hv_var_add. exact Hs.
    - apply andb_true_iff in Hs. destruct Hs as [He Ha].
      eapply hv_bind; [apply hv_eval; exact He|]. ikeep nv env'.
      eapply hv_bind; [apply hv_as_gnode|]. ikeep n env'. apply hv_exec_attrs. exact Ha.
    - apply andb_true_iff in Hs. destruct Hs as [Ha Hb].
      eapply hv_bind; [eapply hv_bind; [apply hv_eval; exact Ha|ikeep x env'; apply hv_as_gnode]|]. ikeep a env'.
      eapply hv_bind; [eapply hv_bind; [apply hv_eval; exact Hb|ikeep x env'; apply hv_as_gnode]|]. ikeep b env'.
      eapply hv_bind; [apply hv_neu, neu_add_edge|]. ikeep isnew env'.
      destruct isnew; [apply hv_neu, neu_opt_attr|apply hv_ret; reflexivity].
    - apply andb_true_iff in Hs. destruct Hs as [Hab Hat]. apply andb_true_iff in Hab. destruct Hab as [Ha Hb].
      eapply hv_bind; [eapply hv_bind; [apply hv_eval; exact Ha|ikeep x env'; apply hv_as_gnode]|]. ikeep a env'.
      eapply hv_bind; [eapply hv_bind; [apply hv_eval; exact Hb|ikeep x env'; apply hv_as_gnode]|]. ikeep b env'.
      apply hv_exec_attrs. exact Hat.
    - apply andb_true_iff in Hs. destruct Hs as [Hv Harms].
      eapply hv_bind; [apply hv_eval; exact Hv|]. ikeep sv env'.
      eapply hv_bind; [apply hv_as_str|]. ikeep subject env'.
      destruct (arm_table regexes arms) as [rs|]; [|apply hv_panic].
      apply hv_scan_loop. intros caps rxi body al Hin. apply (Hblock (le_with_caps le caps) (ctx_wrap CtxOther) body []).
      + intros env0 m Q Hm. apply hv_ctx; [apply serr_ok_ctx|exact Hm].
      + rewrite forallb_forall in Harms. exact (Harms _ Hin).
    - apply hv_iterM_keeps. intros e Hin. rewrite forallb_forall in Hs. specialize (Hs _ Hin).
      destruct e; try (apply hv_ret; reflexivity);
        (eapply hv_bind; [apply hv_eval; exact Hs|ikeep v env'; apply hv_ret; reflexivity]).
    - apply hv_if_loop.
      + intros conds body al c Hin Hc. apply hv_test_cond. rewrite forallb_forall in Hs. specialize (Hs _ Hin). cbv beta iota in Hs.
        apply andb_true_iff in Hs. destruct Hs as [H1 _]. rewrite forallb_forall in H1. exact (H1 _ Hc).
      + intros conds body al Hin. apply (Hblock le (fun m => m) body []); [intros env0 m Q Hm; exact Hm|]. rewrite forallb_forall in Hs. specialize (Hs _ Hin).
        cbv beta iota in Hs. apply andb_true_iff in Hs. apply Hs.
    - apply andb_true_iff in Hs. destruct Hs as [Hs Hbody]. apply andb_true_iff in Hs. destruct Hs as [Hv Hx]. apply negb_true_iff in Hx.
      eapply hv_bind; [apply hv_eval; exact Hv|]. ikeep lv env'.
      eapply hv_bind; [apply hv_as_list|]. ikeep vals env'.
      eapply hv_bind; [apply hv_push_frame|]. ikeep u1 env'.
      eapply hv_bind; [|intros u2 env' Hin; apply (hv_pop_frame env); exact Hin].
      apply (hv_iterM slocs EOk (inner env)); [|exists []; reflexivity]. intros v env0 _ Hin.
      eapply hv_bind; [apply (hv_clear_frame env); exact Hin|]. ikeep u3 env'.
      eapply hv_bind; [apply hv_unscoped_add; rewrite Hx; reflexivity|]. ikeep u4 env'. cbn [lenv_bind app].
      apply (Hblock le (fun m => m) body [(var, false)]); [intros env1 m Q Hm; exact Hm|exact Hbody].
  Qed.

  (* ---- one stanza on one match: the single frame is cleared, then the statements run in it ---- *)
  Lemma hv_exec_stanza fuel st m env0 : vs_stanza G sr sd st = true -> inner [] env0 ->
    hvs env0 (exec_stanza t fl cfg glob regexes find call fuel st m) (fun _ => inner []).
  Proof.
    intros Hst Hin. unfold exec_stanza.
    eapply hv_bind; [apply (hv_clear_frame []); exact Hin|]. ikeep u env'.
    eapply (hv_block_inner slocs EOk G sr sd); [|exact Hst]. intros s env1 Hs. cbv zeta.
    destruct (nodes_for_capture m (st_full_stanza_idx st)); [apply hv_panic|].
    apply hv_ctx; [apply serr_ok_ctx|]. apply hv_exec_stmt. exact Hs.
  Qed.

  Lemma hv_exec_file fuel : forall sts ms env0, forallb (vs_stanza G sr sd) sts = true -> inner [] env0 ->
    hvs env0 (exec_file t fl cfg glob regexes find call fuel sts ms) (fun _ => inner []).
  Proof.
    induction sts as [|st sts IH]; intros [|m ms] env0 Hsts Hin; cbn [exec_file]; try (apply hv_ret; exact Hin).
    cbn [forallb] in Hsts. apply andb_true_iff in Hsts. destruct Hsts as [Hst Hsts].
    eapply hv_bind.
    - apply (hv_iterM slocs EOk (inner [])); [|exact Hin]. intros qm env1 _ Hin1. apply hv_exec_stanza; assumption.
    - intros u env' Hin'. apply IH; assumption.
  Qed.
End Strict.
