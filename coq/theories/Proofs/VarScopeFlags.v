(* Proofs/VarScopeFlags.v — C06, scope soundness part 6: the flags of the scope discipline are syntactic.
   A program that satisfies the discipline with scoped syntax allowed (what the checker guarantees) satisfies it with
   `sr` = "a scoped read occurs in it" and `sd` = "a scoped variable is the target of a definition or assignment in
   it" (Model/VarScope.v: `stmt_sr`, `stmt_sd`, `file_sr`, `file_sd`). *)
From TSG Require Import Model.VarScope Proofs.BaseFacts Proofs.Checker.

Lemma existsb_imp {A} (f : A -> bool) l (X : Prop) x : (existsb f l = true -> X) -> In x l -> f x = true -> X.
Proof. intros H Hin Hf. apply H. apply existsb_exists. exists x. auto. Qed.
Lemma orb_imp_l (a b : bool) (X : Prop) : (a || b = true -> X) -> a = true -> X.
Proof. intros H ->. apply H. reflexivity. Qed.
Lemma orb_imp_r (a b : bool) (X : Prop) : (a || b = true -> X) -> b = true -> X.
Proof. intros H ->. apply H. apply orb_true_r. Qed.

Section Flags.
  Variable G : ident -> bool.
  Variables sr sd : bool.

  Lemma vs_expr_flag e : forall env, (expr_sr e = true -> sr = true) -> vs_expr G true env e = true -> vs_expr G sr env e = true.
  Proof.
    induction e using expr_ind'; intros env Hf; cbn [vs_expr]; cbn [expr_sr] in Hf; auto.
    - rewrite !forallb_forall. intros Hp a Ha. rewrite Forall_forall in H. apply H; [exact Ha| |apply Hp; exact Ha].
      apply (existsb_imp _ _ _ _ Hf Ha).
    - rewrite !forallb_forall. intros Hp a Ha. rewrite Forall_forall in H. apply H; [exact Ha| |apply Hp; exact Ha].
      apply (existsb_imp _ _ _ _ Hf Ha).
    - intros Hp. apply andb_true_iff in Hp. destruct Hp as [Hp H3]. apply andb_true_iff in Hp. destruct Hp as [H1 H2].
      rewrite (IHe2 _ (orb_imp_l _ _ _ Hf) H1), H2, (IHe1 _ (orb_imp_r _ _ _ Hf) H3). reflexivity.
    - intros Hp. apply andb_true_iff in Hp. destruct Hp as [Hp H3]. apply andb_true_iff in Hp. destruct Hp as [H1 H2].
      rewrite (IHe2 _ (orb_imp_l _ _ _ Hf) H1), H2, (IHe1 _ (orb_imp_r _ _ _ Hf) H3). reflexivity.
    - rewrite (Hf eq_refl). exact (fun H => H).
    - rewrite !forallb_forall. intros Hp a Ha. rewrite Forall_forall in H. apply H; [exact Ha| |apply Hp; exact Ha].
      apply (existsb_imp _ _ _ _ Hf Ha).
  Qed.

  Lemma vs_exprs_flag es env : (existsb expr_sr es = true -> sr = true) ->
    forallb (vs_expr G true env) es = true -> forallb (vs_expr G sr env) es = true.
  Proof.
    intros Hf. rewrite !forallb_forall. intros Hp a Ha. apply vs_expr_flag; [|apply Hp; exact Ha]. apply (existsb_imp _ _ _ _ Hf Ha).
  Qed.
  Lemma vs_attrs_flag attrs env : (existsb attr_sr attrs = true -> sr = true) ->
    forallb (vs_attr G true env) attrs = true -> forallb (vs_attr G sr env) attrs = true.
  Proof.
    intros Hf. rewrite !forallb_forall. intros Hp a Ha. specialize (Hp a Ha). destruct a as [n e]. cbn [vs_attr] in *.
    apply vs_expr_flag; [|exact Hp]. intros He. apply (existsb_imp attr_sr _ _ (Attr n e) Hf Ha). exact He.
  Qed.
  Lemma vs_var_add_flag v env : (var_sr v = true -> sr = true) -> (var_sd v = true -> sd = true) ->
    vs_var_add G true true env v = true -> vs_var_add G sr sd env v = true.
  Proof.
    destruct v as [x l|sc x l]; cbn [vs_var_add var_sr var_sd]; intros H1 H2; [auto|]. rewrite (H2 eq_refl). cbn [andb].
    apply vs_expr_flag. exact H1.
  Qed.
  Lemma vs_var_set_flag v env : (var_sr v = true -> sr = true) -> (var_sd v = true -> sd = true) ->
    vs_var_set G true true env v = true -> vs_var_set G sr sd env v = true.
  Proof.
    destruct v as [x l|sc x l]; cbn [vs_var_set var_sr var_sd]; intros H1 H2; [auto|]. rewrite (H2 eq_refl). cbn [andb].
    apply vs_expr_flag. exact H1.
  Qed.

  Lemma seq_flag (P Q : lenv -> stmt -> bool) step body :
    Forall (fun s => forall env, P env s = true -> Q env s = true) body ->
    forall env, seq_eok P step env body = true -> seq_eok Q step env body = true.
  Proof.
    induction 1 as [|s body Hs Hb IH]; intros env; cbn [seq_eok]; [auto|]. intros H. apply andb_true_iff in H. destruct H as [H1 H2].
    rewrite (Hs _ H1), (IH _ H2). reflexivity.
  Qed.
  Lemma body_flag body :
    Forall (fun s => (stmt_sr s = true -> sr = true) -> (stmt_sd s = true -> sd = true) ->
                     forall env, vs_stmt G true true env s = true -> vs_stmt G sr sd env s = true) body ->
    (existsb stmt_sr body = true -> sr = true) -> (existsb stmt_sd body = true -> sd = true) ->
    forall env, seq_eok (vs_stmt G true true) vs_env env body = true -> seq_eok (vs_stmt G sr sd) vs_env env body = true.
  Proof.
    intros HF H1 H2. apply seq_flag. rewrite Forall_forall in *. intros s Hin env. apply HF; [exact Hin| |].
    - apply (existsb_imp _ _ _ _ H1 Hin).
    - apply (existsb_imp _ _ _ _ H2 Hin).
  Qed.

  Lemma vs_stmt_flag s : (stmt_sr s = true -> sr = true) -> (stmt_sd s = true -> sd = true) ->
    forall env, vs_stmt G true true env s = true -> vs_stmt G sr sd env s = true.
  Proof.
    induction s using stmt_ind'; intros Hr Hd env; cbn [vs_stmt]; cbn [stmt_sr stmt_sd] in Hr, Hd; intros Hp.
    - apply andb_true_iff in Hp. destruct Hp as [H1 H2].
      rewrite (vs_expr_flag _ _ (orb_imp_l _ _ _ Hr) H1), (vs_var_add_flag _ _ (orb_imp_r _ _ _ Hr) Hd H2). reflexivity.
    - apply andb_true_iff in Hp. destruct Hp as [H1 H2].
      rewrite (vs_expr_flag _ _ (orb_imp_l _ _ _ Hr) H1), (vs_var_add_flag _ _ (orb_imp_r _ _ _ Hr) Hd H2). reflexivity.
    - apply andb_true_iff in Hp. destruct Hp as [H1 H2].
      rewrite (vs_expr_flag _ _ (orb_imp_l _ _ _ Hr) H1), (vs_var_set_flag _ _ (orb_imp_r _ _ _ Hr) Hd H2). reflexivity.
    - apply vs_var_add_flag; assumption.
    - apply andb_true_iff in Hp. destruct Hp as [H1 H2].
      rewrite (vs_expr_flag _ _ (orb_imp_l _ _ _ Hr) H1), (vs_attrs_flag _ _ (orb_imp_r _ _ _ Hr) H2). reflexivity.
    - apply andb_true_iff in Hp. destruct Hp as [H1 H2].
      rewrite (vs_expr_flag _ _ (orb_imp_l _ _ _ Hr) H1), (vs_expr_flag _ _ (orb_imp_r _ _ _ Hr) H2). reflexivity.
    - apply andb_true_iff in Hp. destruct Hp as [Hp H3]. apply andb_true_iff in Hp. destruct Hp as [H1 H2].
      rewrite (vs_expr_flag _ _ (orb_imp_l _ _ _ (orb_imp_l _ _ _ Hr)) H1), (vs_expr_flag _ _ (orb_imp_r _ _ _ (orb_imp_l _ _ _ Hr)) H2),
        (vs_attrs_flag _ _ (orb_imp_r _ _ _ Hr) H3). reflexivity.
    - apply andb_true_iff in Hp. destruct Hp as [H1 H2]. rewrite (vs_expr_flag _ _ (orb_imp_l _ _ _ Hr) H1). cbn [andb].
      rewrite forallb_forall in *. intros [[rxi body] al] Hin. specialize (H2 _ Hin). cbv beta iota in H2 |- *.
      rewrite Forall_forall in H. specialize (H _ Hin). unfold arm_body in H. cbn [fst snd] in H.
      apply (body_flag _ H); [| |exact H2].
      + intros Hb. apply (orb_imp_r _ _ _ Hr). apply existsb_exists. exists (rxi, body, al). auto.
      + intros Hb. apply Hd. apply existsb_exists. exists (rxi, body, al). auto.
    - apply vs_exprs_flag; assumption.
    - rewrite forallb_forall in *. intros [[conds body] al] Hin. specialize (Hp _ Hin). cbv beta iota in Hp |- *.
      apply andb_true_iff in Hp. destruct Hp as [H1 H2].
      rewrite Forall_forall in H. specialize (H _ Hin). unfold arm_body in H. cbn [fst snd] in H.
      apply andb_true_iff. split.
      + rewrite forallb_forall in *. intros c Hc. apply vs_expr_flag; [|apply H1; exact Hc]. intros He. apply Hr.
        apply existsb_exists. exists (conds, body, al). split; [exact Hin|]. cbv beta iota. apply orb_true_iff. left.
        apply existsb_exists. exists c. auto.
      + apply (body_flag _ H); [| |exact H2].
        * intros Hb. apply Hr. apply existsb_exists. exists (conds, body, al). split; [exact Hin|]. cbv beta iota. rewrite Hb. apply orb_true_r.
        * intros Hb. apply Hd. apply existsb_exists. exists (conds, body, al). auto.
    - apply andb_true_iff in Hp. destruct Hp as [Hp H3]. apply andb_true_iff in Hp. destruct Hp as [H1 H2].
      rewrite (vs_expr_flag _ _ (orb_imp_l _ _ _ Hr) H1), H2. cbn [andb].
      apply (body_flag _ H); [|exact Hd|exact H3]. exact (orb_imp_r _ _ _ Hr).
  Qed.
End Flags.

(* the whole file, with its own syntactic flags *)
Lemma vs_file_flags f : vs_shorthands (is_global f) true f = true -> vs_stanzas (is_global f) true true f = true ->
  vs_file (file_sr f) (file_sd f) f = true.
Proof.
  intros Hsh Hst. unfold vs_file. apply andb_true_iff. split.
  - unfold vs_shorthands in *. rewrite forallb_forall in *. intros sh Hin. specialize (Hsh _ Hin). unfold vs_shorthand in *.
    apply andb_true_iff in Hsh. destruct Hsh as [H1 H2]. rewrite H1. cbn [andb]. apply vs_attrs_flag; [|exact H2].
    intros Ha. unfold file_sr. apply orb_true_iff. left. apply existsb_exists. exists sh. auto.
  - unfold vs_stanzas in *. rewrite forallb_forall in *. intros st Hin. specialize (Hst _ Hin). unfold vs_stanza, vs_block in *.
    apply body_flag; [| | |exact Hst].
    + apply Forall_forall. intros s _ Hr Hd env. apply vs_stmt_flag; assumption.
    + intros Hb. unfold file_sr. apply orb_true_iff. right. apply existsb_exists. exists st. auto.
    + intros Hb. unfold file_sd. apply existsb_exists. exists st. auto.
Qed.
