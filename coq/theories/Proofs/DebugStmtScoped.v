(* Proofs/DebugStmtScoped.v — C15, `node @scope.name` (scoped variable): SUCCESS forms of the `node` statement of both
   interpreters (second audit, finding on Proofs/DebugStmt.v: the success forms covered `VarU` only). *)
From TSG Require Import Model.Strict Model.Lazy Proofs.BaseFacts Proofs.MonadFacts Proofs.Containers Proofs.DebugAttrs Proofs.DebugSim
  Proofs.DebugStmt.

(* the frame of scoped variables of syntax node sn *)
Definition scope_frame (sc : list (N * vframe value)) (sn : N) : vframe value :=
  match scopes_get sc sn with Some f => f | None => [] end.

(* the state in which the scope expression of `node @scope.name` is evaluated: the graph has the new, decorated node *)
Definition node_added (cfg : config) (s : sstate) (vtext : str) (vloc : loc) (mn : N) : sstate :=
  sg s (s_graph s ++ [ {| g_attrs := node_dbg_attrs cfg vtext vloc mn; g_edges := [] |} ]).
Definition lnode_added (cfg : config) (s : lstate) (vtext : str) (vloc : loc) (mn : N) : lstate :=
  lg s (l_graph s ++ [ {| g_attrs := node_dbg_attrs cfg vtext vloc mn; g_edges := [] |} ]).

Section StrictScoped.
  Context {rx : Type}.
  Variable t : tree.
  Variable fl : file.
  Variable cfg : config.
  Variable glob : globals.
  Variable regexes : list rx.
  Variable find : rx -> str -> option (list (option (N * N))).
  Variable call : ident -> graph -> list value -> res (value * graph).
  Notation exec_stmt' := (exec_stmt t fl cfg glob regexes find call).
  Notation eval' := (eval t fl glob call).

  Lemma strict_node_stmt_scoped fuel le scope name vl vtext l s p sn s1 p1 :
    cfg_distinct cfg -> match_available cfg (le_match le) (le_full le) ->
    snd (poll_step L_exec_stmt p) = false ->
    eval' fuel le scope (node_added cfg s vtext vl (first_full_match (le_match le) (le_full le))) (fst (poll_step L_exec_stmt p))
      = Ok (VSyn sn, s1, p1) ->
    alist_get name (scope_frame (s_scoped s1) sn) = None ->
    exec_stmt' (S fuel) le (SNode (VarS scope name vl) vtext l) s p =
    Ok (tt, {| s_graph := s_graph s1; s_locals := s_locals s1;
               s_scoped := scopes_set (s_scoped s1) sn (scope_frame (s_scoped s1) sn ++ [(name, (VGraph (N.of_nat (length (s_graph s))), false))]);
               s_params := s_params s1 |}, p1).
  Proof.
    intros Hd Hm Hp Ev Hn. rewrite (strict_node_stmt_eq t fl cfg glob regexes find call) by assumption.
    cbn [var_add variable_loc]. unfold node_added in Ev. unfold bind at 1. rewrite Ev.
    unfold bind at 1. unfold scope_of at 1. unfold ret at 1.
    unfold scoped_add_at, bind, get_state. unfold scope_frame in Hn. rewrite Hn. reflexivity.
  Qed.
End StrictScoped.

Section LazyScoped.
  Context {rx : Type}.
  Variable t : tree.
  Variable fl : file.
  Variable cfg : config.
  Variable glob : globals.
  Variable regexes : list rx.
  Variable find : rx -> str -> option (list (option (N * N))).
  Variable call : ident -> graph -> list value -> res (value * graph).
  Notation lexec_stmt' := (lexec_stmt t fl cfg glob regexes find call).
  Notation leval' := (leval t fl glob call).

  (* the definitions recorded so far for the scoped variable `name`: Some pairs while the cell is unforced (None: no cell yet) *)
  Definition cell_pairs (sc : list (ident * scoped_values)) (name : ident) : option (list (lvalue * lvalue * stmt_ctx)) :=
    match alist_get name sc with
    | None => Some []
    | Some (SVUnforced pairs) => Some pairs
    | Some _ => None
    end.

  Lemma lazy_node_stmt_scoped fuel le scope name vl vtext l s p sv s1 p1 pairs :
    cfg_distinct cfg -> match_available cfg (ll_match le) (ll_full le) ->
    snd (poll_step L_exec_stmt p) = false ->
    leval' fuel le scope (lnode_added cfg s vtext vl (first_full_match (ll_match le) (ll_full le))) (fst (poll_step L_exec_stmt p))
      = Ok (sv, s1, p1) ->
    cell_pairs (l_scoped s1) name = Some pairs ->
    lexec_stmt' (S fuel) le (SNode (VarS scope name vl) vtext l) s p =
    Ok (tt, {| l_graph := l_graph s1; l_locals := l_locals s1;
               l_store := l_store s1 ++ [ {| th_state := TUnforced (LValue (VGraph (N.of_nat (length (l_graph s))))); th_dbg := ll_ctx le |} ];
               l_scoped := alist_set name (SVUnforced (pairs ++ [(sv, LVar (N.of_nat (length (l_store s1))), ll_ctx le)])) (l_scoped s1);
               l_edges := l_edges s1; l_attrs := l_attrs s1; l_prints := l_prints s1;
               l_params := l_params s1; l_prev := l_prev s1 |}, p1).
  Proof.
    intros Hd Hm Hp Ev Hc. rewrite (lazy_node_stmt_eq t fl cfg glob regexes find call) by assumption.
    cbn [lvar_add variable_loc]. unfold lnode_added in Ev. unfold bind at 1. rewrite Ev.
    unfold store_add, scoped_store_add, cell_get, cell_set, bind, get_state, set_lstore, set_lscoped, Lazy.upd, modify, ret.
    cbn [l_scoped l_store]. unfold cell_pairs in Hc.
    destruct (alist_get name (l_scoped s1)) as [[ps| |m]|]; inversion Hc; subst; reflexivity.
  Qed.
End LazyScoped.
