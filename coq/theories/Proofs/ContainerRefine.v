(* Proofs/ContainerRefine.v — C17: refinement of the containers to their abstract models over HISTORIES.
   Pattern: a simulation relation (abstraction function = lookup function of the concrete container), each concrete
   step yields the spec's output and re-establishes the relation; `run_sim` lifts this to `fold_left` histories. *)
From TSG Require Import Spec.ContainerSpec Proofs.BaseFacts Proofs.OrderFacts Proofs.Containers.
From Coq Require Import Sorted Permutation.

(* ================= histories, generically ================= *)
Section RunFacts.
  Context {S O R : Type} (step : S -> O -> S * R).
  Lemma run_acc_eq s out o : run_acc step (s, out) o = (fst (step s o), out ++ [snd (step s o)]).
  Proof. unfold run_acc. cbn [fst snd]. destruct (step s o); reflexivity. Qed.
  Lemma run_acc_fold ops : forall s out,
    fold_left (run_acc step) ops (s, out) = (fst (run step s ops), out ++ snd (run step s ops)).
  Proof.
    induction ops as [|o ops IH]; intros s out.
    - cbn. rewrite app_nil_r. reflexivity.
    - unfold run. cbn [fold_left]. rewrite !run_acc_eq. rewrite (IH _ (out ++ _)), (IH _ ([] ++ _)). cbn [fst snd app].
      rewrite <- app_assoc. reflexivity.
  Qed.
  Lemma run_nil s : run step s [] = (s, []).
  Proof. reflexivity. Qed.
  Lemma run_cons s o ops :
    run step s (o :: ops) = (fst (run step (fst (step s o)) ops), snd (step s o) :: snd (run step (fst (step s o)) ops)).
  Proof. unfold run at 1. cbn [fold_left]. rewrite run_acc_eq, run_acc_fold. reflexivity. Qed.
  Lemma run_app s ops1 ops2 :
    run step s (ops1 ++ ops2) =
    (fst (run step (fst (run step s ops1)) ops2), snd (run step s ops1) ++ snd (run step (fst (run step s ops1)) ops2)).
  Proof. unfold run at 1. rewrite fold_left_app. fold (run step s ops1). destruct (run step s ops1) as [s1 o1]. apply run_acc_fold. Qed.
  Lemma run_length s ops : length (snd (run step s ops)) = length ops.
  Proof. revert s; induction ops as [|o ops IH]; intros s; [reflexivity|]. rewrite run_cons. cbn [snd length]. rewrite IH. reflexivity. Qed.
End RunFacts.

Lemma run_sim {S1 S2 O R} (step1 : S1 -> O -> S1 * R) (step2 : S2 -> O -> S2 * R) (Rel : S1 -> S2 -> Prop) :
  (forall s1 s2 o, Rel s1 s2 -> snd (step1 s1 o) = snd (step2 s2 o) /\ Rel (fst (step1 s1 o)) (fst (step2 s2 o))) ->
  forall ops s1 s2, Rel s1 s2 ->
    snd (run step1 s1 ops) = snd (run step2 s2 ops) /\ Rel (fst (run step1 s1 ops)) (fst (run step2 s2 ops)).
Proof.
  intros Hstep. induction ops as [|o ops IH]; intros s1 s2 HR.
  - rewrite !run_nil. split; [reflexivity|exact HR].
  - rewrite !run_cons. cbn [fst snd]. destruct (Hstep s1 s2 o HR) as [Ho HR'].
    destruct (IH _ _ HR') as [Ho' HR'']. split; [rewrite Ho, Ho'; reflexivity|exact HR''].
Qed.

(* the fold_left runner of the public language is `crun` / `cstate_after` *)
Lemma run_cstep s ops : run cstep s ops = (cstate_after s ops, crun s ops).
Proof.
  revert s; induction ops as [|o ops IH]; intros s; [reflexivity|].
  rewrite run_cons, IH. cbn [fst snd cstate_after crun]. destruct (cstep s o); reflexivity.
Qed.

(* ================= edges ================= *)
Lemma em_get_app m1 m2 k : em_get k (m1 ++ m2) = match em_get k m1 with Some a => Some a | None => em_get k m2 end.
Proof. induction m1 as [|[k' a] m1 IH]; cbn [em_get app]; [reflexivity|]. destruct (N.eqb k k'); auto. Qed.
Lemma em_get_None m k : em_get k m = None <-> ~ In k (em_keys m).
Proof.
  induction m as [|[k' a] m IH]; cbn [em_get em_keys map fst In]; [tauto|].
  destruct (N.eqb_spec k k') as [->|Hn]; [split; [discriminate|tauto]|]. unfold em_keys in IH. rewrite IH. intuition congruence.
Qed.
Lemma em_get_In m k : em_get k m <> None <-> In k (em_keys m).
Proof.
  split.
  - intros H. destruct (in_dec N.eq_dec k (em_keys m)) as [Hi|Hi]; [assumption|]. apply em_get_None in Hi. contradiction.
  - intros Hi E. apply em_get_None in E. contradiction.
Qed.
Lemma em_get_set m k a k' : em_get k' (em_set k a m) = if N.eqb k' k then Some a else em_get k' m.
Proof.
  induction m as [|[k0 a0] m IH]; cbn [em_set em_get].
  - reflexivity.
  - destruct (N.eqb_spec k k0) as [->|Hn]; cbn [em_get].
    + destruct (N.eqb k' k0); reflexivity.
    + rewrite IH. destruct (N.eqb_spec k' k0) as [->|Hn'].
      * destruct (N.eqb_spec k0 k); [congruence|reflexivity].
      * reflexivity.
Qed.
Lemma em_set_keys m k a : em_get k m <> None -> em_keys (em_set k a m) = em_keys m.
Proof.
  induction m as [|[k0 a0] m IH]; cbn [em_get em_set em_keys map fst]; [congruence|].
  destruct (N.eqb_spec k k0) as [->|Hn]; cbn [map fst]; [reflexivity|]. intros H. unfold em_keys in IH. rewrite IH; auto.
Qed.
Lemma em_set_length m k a : em_get k m <> None -> length (em_set k a m) = length m.
Proof. intros H. rewrite <- (map_length fst (em_set k a m)), <- (map_length fst m). f_equal. apply em_set_keys, H. Qed.

(* sorting unique naturals *)
Lemma ninsert_sorted x l : StronglySorted N.lt l -> ~ In x l -> StronglySorted N.lt (insert_sorted N.ltb x l).
Proof.
  induction 1 as [|y l Hs IH Hall]; intros Hx; cbn [insert_sorted].
  - repeat constructor.
  - destruct (N.ltb_spec x y) as [Hlt|Hge].
    + constructor; [constructor; assumption|]. constructor; [assumption|].
      eapply Forall_impl; [|exact Hall]. cbn; intros; lia.
    + assert (y < x) by (assert (x <> y) by (intros ->; apply Hx; left; reflexivity); lia).
      constructor; [apply IH; intros Hi; apply Hx; right; exact Hi|].
      apply Forall_forall. intros z Hz. eapply Permutation_in in Hz; [|symmetry; apply insert_sorted_perm].
      destruct Hz as [<-|Hz]; [assumption|]. rewrite Forall_forall in Hall. auto.
Qed.
Lemma nsort_sorted l : NoDup l -> StronglySorted N.lt (nsort l).
Proof.
  unfold nsort. induction 1 as [|x l Hx Hn IH]; cbn [sort_by fold_right]; [constructor|].
  apply ninsert_sorted; [exact IH|]. fold (sort_by N.ltb l). rewrite sort_by_In. exact Hx.
Qed.
Lemma nsort_In x l : In x (nsort l) <-> In x l.
Proof. apply sort_by_In. Qed.
Lemma nsorted_unique l1 : forall l2, StronglySorted N.lt l1 -> StronglySorted N.lt l2 ->
  (forall x, In x l1 <-> In x l2) -> l1 = l2.
Proof.
  induction l1 as [|a l1 IH]; intros [|b l2] H1 H2 Hin.
  - reflexivity.
  - exfalso. apply (proj2 (Hin b)). left; reflexivity.
  - exfalso. apply (proj1 (Hin a)). left; reflexivity.
  - inversion H1 as [|? ? H1' A1]; subst. inversion H2 as [|? ? H2' A2]; subst.
    rewrite Forall_forall in A1, A2.
    assert (a = b) as ->.
    { destruct (proj1 (Hin a) (or_introl eq_refl)) as [->|Ha]; [reflexivity|].
      destruct (proj2 (Hin b) (or_introl eq_refl)) as [->|Hb]; [reflexivity|].
      specialize (A1 _ Hb). specialize (A2 _ Ha). lia. }
    f_equal. apply IH; try assumption. intros x. split; intros Hx.
    + destruct (proj1 (Hin x) (or_intror Hx)) as [->|]; [|assumption]. specialize (A1 _ Hx). lia.
    + destruct (proj2 (Hin x) (or_intror Hx)) as [->|]; [|assumption]. specialize (A2 _ Hx). lia.
Qed.
Lemma nsorted_nodup l : StronglySorted N.lt l -> NoDup l.
Proof.
  induction 1 as [|a l Hs IH Hall]; constructor; [|exact IH].
  intros Hi. rewrite Forall_forall in Hall. specialize (Hall _ Hi). lia.
Qed.

(* the simulation relation: the concrete sorted vector and the abstract map have the same lookup function *)
Definition erel (es : edges) (m : emap) : Prop :=
  edges_wf es /\ NoDup (em_keys m) /\ forall k, edges_get k es = em_get k m.

Lemma erel_nil : erel [] [].
Proof. split; [constructor|]. split; [constructor|]. reflexivity. Qed.

Lemma erel_keys es m : erel es m -> forall k, In k (sinks es) <-> In k (em_keys m).
Proof.
  intros (Hw & Hn & Hl) k. rewrite <- em_get_In, <- Hl. split.
  - apply edges_In_get, Hw.
  - destruct (edges_get k es) eqn:E; [intros _; eapply edges_get_In; eassumption|congruence].
Qed.
Lemma erel_iter es m : erel es m -> map fst es = nsort (em_keys m).
Proof.
  intros H. pose proof H as (Hw & Hn & _). apply nsorted_unique; [exact Hw|apply nsort_sorted, Hn|].
  intros x. rewrite nsort_In. apply (erel_keys _ _ H).
Qed.
Lemma erel_length es m : erel es m -> length es = length m.
Proof.
  intros H. pose proof H as (Hw & Hn & _). rewrite <- (map_length fst es), <- (map_length fst m).
  apply Nat.le_antisymm; apply NoDup_incl_length; try assumption; try (apply nsorted_nodup; exact Hw);
    intros x Hx; apply (erel_keys _ _ H); exact Hx.
Qed.

Lemma estep_sim es m o : erel es m ->
  snd (estep es o) = snd (espec m o) /\ erel (fst (estep es o)) (fst (espec m o)).
Proof.
  intros H. pose proof H as (Hw & Hn & Hl). destruct o as [b|b|b k v|b k|b| |]; cbn [estep espec].
  - (* add_edge *)
    pose proof (edges_add_spec b es Hw) as S. destruct (edges_add b es) as [isnew es'].
    destruct S as (Hw' & Hb & Hget & _). rewrite <- Hl. destruct (edges_get b es) as [a|] eqn:E; cbn [fst snd].
    + assert (isnew = false) as -> by (destruct isnew; [destruct Hb as [Hb _]; specialize (Hb eq_refl); discriminate|reflexivity]).
      split; [reflexivity|]. split; [exact Hw'|]. split; [exact Hn|].
      intros k'. rewrite Hget. destruct (N.eqb_spec k' b) as [->|]; [rewrite <- Hl; symmetry; exact E|apply Hl].
    + assert (isnew = true) as -> by (apply Hb; reflexivity).
      split; [reflexivity|]. split; [exact Hw'|]. split.
      * unfold em_keys. rewrite map_app. cbn [map fst]. apply NoDup_app_one; [exact Hn|]. apply em_get_None. rewrite <- Hl. exact E.
      * intros k'. rewrite Hget, em_get_app, <- Hl. cbn [em_get]. destruct (N.eqb_spec k' b) as [->|]; [rewrite E; reflexivity|].
        destruct (edges_get k' es); reflexivity.
  - rewrite Hl. split; [reflexivity|exact H].
  - (* get_edge_mut + Attributes::add *)
    rewrite <- Hl. destruct (edges_get b es) as [a|] eqn:E; [|split; [reflexivity|exact H]].
    destruct (attrs_add a k v) as [a' c]. cbn [fst snd]. split; [reflexivity|].
    assert (edges_get b es <> None) as Hne by congruence.
    split; [unfold edges_wf; rewrite edges_set_sinks; exact Hw|]. split.
    + rewrite em_set_keys; [exact Hn|]. rewrite <- Hl. exact Hne.
    + intros k'. rewrite edges_get_set, em_get_set by assumption. destruct (N.eqb k' b); [reflexivity|apply Hl].
  - rewrite <- Hl. destruct (edges_get b es); (split; [reflexivity|exact H]).
  - rewrite <- Hl. destruct (edges_get b es); (split; [reflexivity|exact H]).
  - cbn [fst snd]. split; [rewrite (erel_iter _ _ H); reflexivity|exact H].
  - cbn [fst snd]. split; [rewrite (erel_length _ _ H); reflexivity|exact H].
Qed.

Lemma edges_refine_from es m ops : erel es m ->
  snd (run estep es ops) = snd (run espec m ops) /\ erel (fst (run estep es ops)) (fst (run espec m ops)).
Proof. apply (run_sim estep espec erel). intros; apply estep_sim; assumption. Qed.

(* an edge lookup succeeds exactly for the sinks that were added (on the abstract map, hence on the vector) *)
Lemma espec_keys m o k : In k (em_keys (fst (espec m o))) <-> In k (em_keys m) \/ o = EAdd k.
Proof.
  destruct o as [b|b|b x v|b x|b| |]; cbn [espec]; try (cbn [fst]; intuition discriminate).
  - destruct (em_get b m) eqn:E; cbn [fst].
    + split; [auto|]. intros [Hi|[= <-]]; [assumption|]. apply em_get_In. congruence.
    + unfold em_keys. rewrite map_app, in_app_iff. cbn [map fst In]. intuition (subst; auto; try congruence).
  - destruct (em_get b m) eqn:E; [|cbn [fst]; intuition discriminate].
    destruct (attrs_add a x v). cbn [fst]. rewrite em_set_keys by congruence. intuition discriminate.
  - destruct (em_get b m); cbn [fst]; intuition discriminate.
  - destruct (em_get b m); cbn [fst]; intuition discriminate.
Qed.
Lemma espec_run_keys ops : forall m k, In k (em_keys (fst (run espec m ops))) <-> In k (em_keys m) \/ In (EAdd k) ops.
Proof.
  induction ops as [|o ops IH]; intros m k.
  - rewrite run_nil. cbn [fst In]. tauto.
  - rewrite run_cons. cbn [fst In]. rewrite IH, espec_keys. intuition.
Qed.

(* the edge operations of the public language on an in-range source node ARE `estep` on that node's vector *)
Lemma cstep_estep s a n o :
  gnode_at (cs_graph s) a = Some n ->
  (forall b, o = EAdd b -> in_range (cs_graph s) b = true) ->
  snd (cstep s (eop_cop a o)) = snd (estep (g_edges n) o) /\
  exists n', gnode_at (cs_graph (fst (cstep s (eop_cop a o)))) a = Some n' /\
             g_edges n' = fst (estep (g_edges n) o) /\
             (forall a', a' <> a -> gnode_at (cs_graph (fst (cstep s (eop_cop a o)))) a' = gnode_at (cs_graph s) a').
Proof.
  intros E Hr.
  assert (Hupd : forall f, gnode_at (graph_update (cs_graph s) a f) a = Some (f n) /\
                           forall a', a' <> a -> gnode_at (graph_update (cs_graph s) a f) a' = gnode_at (cs_graph s) a').
  { intros f. unfold gnode_at, graph_update in *. split.
    - rewrite nth_error_list_update, Nat.eqb_refl, E. reflexivity.
    - intros a' Hn. rewrite nth_error_list_update. destruct (Nat.eqb_spec (N.to_nat a') (N.to_nat a)); [lia|reflexivity]. }
  assert (Hin : in_range (cs_graph s) a = true).
  { unfold in_range, gnode_at in *. apply N.ltb_lt. assert (N.to_nat a < length (cs_graph s))%nat by (apply nth_error_Some; congruence). lia. }
  destruct o as [b|b|b k v|b k|b| |]; cbn [eop_cop estep cstep].
  - rewrite Hin, (Hr b eq_refl). cbn [andb]. unfold graph_add_edge. rewrite E.
    destruct (edges_add b (g_edges n)) as [isnew es']. cbn [fst snd cs_graph]. split; [reflexivity|].
    destruct (Hupd (with_edges es')) as [H1 H2]. eexists; split; [exact H1|]. split; [reflexivity|exact H2].
  - rewrite E. cbn [fst snd]. split; [reflexivity|]. exists n; auto.
  - rewrite E. destruct (edges_get b (g_edges n)) as [m|]; [|cbn [fst snd]; split; [reflexivity|exists n; auto]].
    destruct (attrs_add m k v) as [m' c]. cbn [fst snd cs_graph]. split; [reflexivity|].
    destruct (Hupd (with_edges (edges_set b m' (g_edges n)))) as [H1 H2]. eexists; split; [exact H1|]. split; [reflexivity|exact H2].
  - rewrite E. destruct (edges_get b (g_edges n)); cbn [fst snd]; (split; [reflexivity|exists n; auto]).
  - rewrite E. destruct (edges_get b (g_edges n)); cbn [fst snd]; (split; [reflexivity|exists n; auto]).
  - rewrite E. cbn [fst snd]. split; [reflexivity|exists n; auto].
  - rewrite E. cbn [fst snd]. split; [reflexivity|exists n; auto].
Qed.

(* ================= nodes ================= *)
Lemma nstep_fst s o : fst (nstep s o) = fst (cstep s o).
Proof. unfold nstep. destruct (cstep s o); reflexivity. Qed.
Lemma nstep_snd s o : snd (nstep s o) = if node_op o then Some (snd (cstep s o)) else None.
Proof. unfold nstep. destruct (cstep s o); reflexivity. Qed.

Lemma nstep_sim s n o : length (cs_graph s) = n ->
  snd (nstep s o) = snd (nspec n o) /\ length (cs_graph (fst (nstep s o))) = fst (nspec n o).
Proof.
  intros <-. rewrite nstep_fst, nstep_snd, cstep_length. split.
  - destruct o; cbn [node_op nspec snd]; reflexivity.
  - destruct o; cbn [nspec fst]; lia.
Qed.
Lemma nodes_refine_from s ops :
  snd (run nstep s ops) = snd (run nspec (length (cs_graph s)) ops) /\
  length (cs_graph (fst (run nstep s ops))) = fst (run nspec (length (cs_graph s)) ops).
Proof. apply (run_sim nstep nspec (fun s n => length (cs_graph s) = n)); [intros; apply nstep_sim; assumption|reflexivity]. Qed.

(* ================= variables ================= *)
(* a stack of association lists against a stack of lookup functions: pointwise abs = spec *)
Definition frel {X} (m : list (list (ident * X))) (s : list (ident -> option X)) : Prop :=
  Forall2 (fun f g => forall k, alist_get k f = g k) m s.

Lemma frel_abs {X} (m : list (list (ident * X))) : frel m (map (fun f k => alist_get k f) m).
Proof. induction m; constructor; auto. Qed.

Section VarRefine.
  Context {V : Type}.
  Implicit Types (m : varmap V) (s : astack V).

  Lemma a_get_cons (g : aframe V) s k :
    a_get (g :: s) k = match g k with Some (v, _) => Some v | None => a_get s k end.
  Proof.
    unfold a_get. cbn [a_find]. destruct (g k) as [[v b]|]; [reflexivity|].
    destruct (a_find s k) as [[i [v b]]|]; reflexivity.
  Qed.
  Lemma a_set_cons (g : aframe V) s k v :
    a_set (g :: s) k v =
    match g k with
    | Some (_, true) => inl (fupd g k (v, true) :: s)
    | Some (_, false) => inr VarImmutable
    | None => match a_set s k v with inl s' => inl (g :: s') | inr e => inr e end
    end.
  Proof.
    unfold a_set. cbn [a_find]. destruct (g k) as [[x [|]]|]; cbn [list_update]; try reflexivity.
    destruct (a_find s k) as [[i [x [|]]]|]; cbn [list_update]; reflexivity.
  Qed.

  Lemma vget_sim m s k : frel m s -> varmap_get m k = a_get s k.
  Proof.
    induction 1 as [|f g m s Hf Hr IH]; [reflexivity|]. rewrite a_get_cons. cbn [varmap_get]. rewrite Hf, IH. reflexivity.
  Qed.
  Lemma vset_sim m s k v : frel m s ->
    match varmap_set m k v, a_set s k v with
    | inl m', inl s' => frel m' s'
    | inr e, inr e' => e = e'
    | _, _ => False
    end.
  Proof.
    induction 1 as [|f g m s Hf Hr IH]; [reflexivity|]. rewrite a_set_cons. cbn [varmap_set]. rewrite <- Hf.
    destruct (alist_get k f) as [[x [|]]|].
    - constructor; [|exact Hr]. intros k'. rewrite alist_get_set. unfold fupd. rewrite Hf. reflexivity.
    - reflexivity.
    - destruct (varmap_set m k v), (a_set s k v); try assumption; try contradiction. constructor; assumption.
  Qed.
  Lemma vadd_sim m s k v b : frel m s ->
    match varmap_add m k v b, a_add s k v b with
    | inl m', inl s' => frel m' s'
    | inr e, inr e' => e = e'
    | _, _ => False
    end.
  Proof.
    intros [|f g m' s' Hf Hr]; [reflexivity|]. cbn [varmap_add a_add]. rewrite <- Hf.
    destruct (alist_get k f) eqn:E; [reflexivity|]. constructor; [|exact Hr].
    intros k'. rewrite alist_get_app. unfold fupd. cbn [alist_get]. rewrite <- Hf.
    destruct (str_eqb_spec k' k) as [->|]; [rewrite E; reflexivity|]. destruct (alist_get k' f); reflexivity.
  Qed.

  Lemma vstep_sim m s (o : vop V) : frel m s ->
    snd (vstep m o) = snd (vspec s o) /\ frel (fst (vstep m o)) (fst (vspec s o)).
  Proof.
    intros H. destruct o as [| |k v b|k v|k|]; cbn [vstep vspec].
    - cbn [fst snd]. split; [reflexivity|]. constructor; [reflexivity|exact H].
    - destruct H as [|f g m s Hf H]; [split; [reflexivity|constructor]|].
      destruct H as [|f' g' m s Hf' H]; cbn [fst snd]; (split; [reflexivity|]); repeat constructor; assumption.
    - pose proof (vadd_sim m s k v b H) as S. destruct (varmap_add m k v b), (a_add s k v b); try contradiction; cbn [fst snd].
      + split; [reflexivity|exact S].
      + subst. split; [reflexivity|exact H].
    - pose proof (vset_sim m s k v H) as S. destruct (varmap_set m k v), (a_set s k v); try contradiction; cbn [fst snd].
      + split; [reflexivity|exact S].
      + subst. split; [reflexivity|exact H].
    - cbn [fst snd]. rewrite (vget_sim m s k H). split; [reflexivity|exact H].
    - cbn [fst snd]. split; [reflexivity|]. destruct H; cbn [varmap_clear a_clear]; constructor; [reflexivity|assumption].
  Qed.

  Lemma vars_refine_from m s ops : frel m s ->
    snd (run vstep m ops) = snd (run vspec s ops) /\ frel (fst (run vstep m ops)) (fst (run vspec s ops)).
  Proof. apply (run_sim vstep vspec frel). intros; apply vstep_sim; assumption. Qed.
End VarRefine.

(* ================= Globals ================= *)
Lemma gstep_fst s o : fst (gstep s o) = fst (cstep s o).
Proof. unfold gstep. destruct (cstep s o); reflexivity. Qed.
Lemma gstep_snd s o : snd (gstep s o) = if gvar_op o then Some (snd (cstep s o)) else None.
Proof. unfold gstep. destruct (cstep s o); reflexivity. Qed.

Lemma cstep_vars_graph_op s o : gvar_op o = false -> cs_vars (fst (cstep s o)) = cs_vars s.
Proof.
  unfold cstep. destruct o; cbn [gvar_op]; try discriminate; intros _; cbn [cs_vars fst]; try reflexivity;
  repeat match goal with
  | |- context [match ?x with _ => _ end] => destruct x eqn:?; cbn [cs_vars fst]
  end; reflexivity.
Qed.

Lemma gs_get_sim g t k : frel g t -> globals_get g k = gs_get t k.
Proof. induction 1 as [|f h g t Hf Hr IH]; [reflexivity|]. cbn [globals_get gs_get]. rewrite Hf, IH. reflexivity. Qed.

Lemma gstep_sim s t o : frel (cs_vars s) t ->
  snd (gstep s o) = snd (gspec t o) /\ frel (cs_vars (fst (gstep s o))) (fst (gspec t o)).
Proof.
  intros H. rewrite gstep_fst, gstep_snd. destruct (gvar_op o) eqn:Eo.
  2: { rewrite cstep_vars_graph_op by exact Eo. destruct o; try discriminate; cbn [gspec fst snd]; (split; [reflexivity|exact H]). }
  destruct s as [g0 vs]. cbn [cs_vars] in H.
  destruct o; try discriminate; cbn [cstep gspec cs_vars cs_graph fst snd].
    + split; [reflexivity|]. constructor; [reflexivity|exact H].
    + destruct H as [|f h g t Hf H]; [cbn [fst snd cs_vars]; split; [reflexivity|constructor]|].
      destruct H as [|f' h' g t Hf' H]; cbn [fst snd cs_vars]; (split; [reflexivity|]); repeat constructor; assumption.
    + unfold globals_add. destruct H as [|f h g t Hf H]; cbn [fst snd cs_vars]; [split; [reflexivity|constructor]|].
      rewrite <- Hf. destruct (alist_get k f) eqn:E; cbn [fst snd cs_vars]; (split; [reflexivity|]); [constructor; assumption|].
      constructor; [|exact H]. intros k'. rewrite alist_get_app. unfold gupd. cbn [alist_get]. rewrite <- Hf.
      destruct (str_eqb_spec k' k) as [->|]; [rewrite E; reflexivity|]. destruct (alist_get k' f); reflexivity.
    + rewrite (gs_get_sim _ _ k H). split; [reflexivity|exact H].
    + split; [reflexivity|]. unfold globals_remove. destruct H as [|f h g t Hf H]; constructor; [|exact H].
      intros k'. rewrite alist_get_remove. unfold gupd. rewrite Hf. reflexivity.
    + split; [reflexivity|]. unfold globals_clear. destruct H as [|f h g t Hf H]; constructor; [reflexivity|exact H].
Qed.
Lemma globals_refine_from s t ops : frel (cs_vars s) t ->
  snd (run gstep s ops) = snd (run gspec t ops) /\ frel (cs_vars (fst (run gstep s ops))) (fst (run gspec t ops)).
Proof. apply (run_sim gstep gspec (fun s t => frel (cs_vars s) t)). intros; apply gstep_sim; assumption. Qed.

(* the projected runners walk through the same states as the public language *)
Lemma run_gstep_fst s ops : fst (run gstep s ops) = cstate_after s ops.
Proof. revert s; induction ops as [|o ops IH]; intros s; [reflexivity|]. rewrite run_cons. cbn [fst cstate_after]. rewrite IH, gstep_fst. reflexivity. Qed.
Lemma run_nstep_fst s ops : fst (run nstep s ops) = cstate_after s ops.
Proof. revert s; induction ops as [|o ops IH]; intros s; [reflexivity|]. rewrite run_cons. cbn [fst cstate_after]. rewrite IH, nstep_fst. reflexivity. Qed.

(* the enumerating observers of the innermost Globals map: is_empty / iter *)
Lemma frel_hd {X} (m : list (list (ident * X))) s k : frel m s -> alist_get k (hd [] m) = hd (fun _ => None) s k.
Proof. intros [|f g m' s' Hf _]; cbn [hd alist_get]; auto. Qed.

Lemma sort_alist_spec {X} (f : list (ident * X)) : NoDup (map fst f) ->
  StronglySorted key_le (sort_alist f) /\ NoDup (map fst (sort_alist f)) /\
  forall k v, In (k, v) (sort_alist f) <-> alist_get k f = Some v.
Proof.
  intros Hn. split; [apply sort_alist_sorted|]. split.
  - eapply Permutation_NoDup; [|exact Hn]. apply Permutation_map. unfold sort_alist. apply sort_by_perm.
  - intros k v. unfold sort_alist. rewrite sort_by_In. split; [apply alist_In_get; exact Hn|apply alist_get_In].
Qed.

Lemma globals_iter_hd vs : globals_iter vs = sort_alist (hd [] vs).
Proof. destruct vs; reflexivity. Qed.
Lemma globals_is_empty_hd vs : globals_is_empty vs = true <-> forall k, alist_get k (hd [] vs) = None.
Proof.
  unfold globals_is_empty. destruct vs as [|f up]; cbn [hd]; [split; reflexivity|].
  destruct f as [|[k0 v0] f]; [split; reflexivity|]. split; [discriminate|].
  intros H. specialize (H k0). cbn [alist_get] in H. rewrite str_eqb_refl in H. discriminate.
Qed.

Lemma globals_observers_lemma ops :
  let top := hd gempty (fst (run gspec [gempty] ops)) in
  (forall l, snd (cstep (cstate_after cinit ops) OVarIter) = RAttrs l ->
     StronglySorted key_le l /\ NoDup (map fst l) /\ forall k v, In (k, v) l <-> top k = Some v) /\
  (forall b, snd (cstep (cstate_after cinit ops) OVarIsEmpty) = RBool b -> (b = true <-> forall k, top k = None)).
Proof.
  intros top. assert (Hrel : frel (cs_vars (cstate_after cinit ops)) (fst (run gspec [gempty] ops))).
  { rewrite <- run_gstep_fst. apply globals_refine_from. repeat constructor. }
  assert (Htop : forall k, alist_get k (hd [] (cs_vars (cstate_after cinit ops))) = top k) by (intros k; apply frel_hd, Hrel).
  pose proof (history_wf_lemma ops cinit cinit_wf) as [_ Hv].
  assert (Hn : NoDup (map fst (hd [] (cs_vars (cstate_after cinit ops))))).
  { destruct (cs_vars (cstate_after cinit ops)); cbn [hd map]; [constructor|]. inversion Hv; assumption. }
  split.
  - intros l. cbn [cstep snd]. intros [= <-]. rewrite globals_iter_hd.
    destruct (sort_alist_spec _ Hn) as (H1 & H2 & H3). split; [exact H1|]. split; [exact H2|].
    intros k v. rewrite H3, Htop. reflexivity.
  - intros b. cbn [cstep snd]. intros [= <-]. rewrite globals_is_empty_hd. split; intros H k; [rewrite <- Htop|rewrite Htop]; apply H.
Qed.
