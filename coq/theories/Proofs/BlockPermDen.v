(* Proofs/BlockPermDen.v — C08, part 5: what a SUCCESSFUL evaluation phase of the lazy interpreter computed,
   read back denotationally (the converse of the forcing lemmas of Proofs/SLForce.v, which start from a
   denotation).  If forcing a lazy value returns v, then the value denotes v with respect to the thunks that
   are forced afterwards; forced thunks stay forced with the same value; an unforced thunk either stays as it
   is or is forced to the value its body denotes.  Hence, after a successful evaluation phase on an acyclic
   store, the final values of the thunks form a store valuation rho for which the INITIAL store is well formed
   (`store_wf`), the deferred statements denote graph operations, and the final graph is the result of these
   operations: exactly the hypotheses of the order-independence lemmas (Proofs/EvalPermLazy.v). *)
From TSG Require Import Model.Lazy Proofs.BaseFacts Proofs.Containers Proofs.MonadFacts Proofs.SLGraph Proofs.SLForce Proofs.SLExpr Proofs.SLConv Proofs.SLStmt
  Proofs.BlockPermRen Proofs.BlockPermSim.

Definition top : N -> Prop := fun _ => True.
Lemma vall_top v : vall top v.
Proof.
  induction v as [| | | |l IH|l IH| |n] using value_ind'; try exact I.
  - rewrite vall_list. exact IH.
  - rewrite vall_set. exact IH.
Qed.
Lemma valls_top l : Forall (vall top) l. Proof. apply Forall_forall. intros v _. apply vall_top. Qed.
Lemma map_vren_id l : map (vren (fun i => i)) l = l.
Proof. rewrite <- (map_id l) at 2. apply map_ext. apply vren_idf. Qed.

Lemma nth_error_firstn' {A} (l : list A) k i : (i < k)%nat -> nth_error (firstn k l) i = nth_error l i.
Proof. revert k i. induction l as [|x l IH]; intros [|k] [|i] H; cbn [firstn nth_error]; try reflexivity; try lia. apply IH. lia. Qed.
Lemma Forall2_length' {A B} (R : A -> B -> Prop) l l' : Forall2 R l l' -> length l = length l'.
Proof. induction 1; cbn [length]; congruence. Qed.

(* all fields except the store (and, for statements, the graph and prev) are unchanged *)
Definition keep_rest (ls ls' : lstate) : Prop :=
  l_locals ls' = l_locals ls /\ l_scoped ls' = l_scoped ls /\ l_edges ls' = l_edges ls /\ l_attrs ls' = l_attrs ls /\
  l_prints ls' = l_prints ls /\ l_params ls' = l_params ls.
Definition only_store (ls ls' : lstate) : Prop := l_graph ls' = l_graph ls /\ l_prev ls' = l_prev ls /\ keep_rest ls ls'.
Lemma keep_rest_refl ls : keep_rest ls ls. Proof. repeat split. Qed.
Lemma keep_rest_trans a b c : keep_rest a b -> keep_rest b c -> keep_rest a c.
Proof. intros (A1 & A2 & A3 & A4 & A5 & A6) (B1 & B2 & B3 & B4 & B5 & B6). repeat split; congruence. Qed.
Lemma only_store_refl ls : only_store ls ls. Proof. split; [reflexivity|]. split; [reflexivity|apply keep_rest_refl]. Qed.
Lemma only_store_trans a b c : only_store a b -> only_store b c -> only_store a c.
Proof. intros (A1 & A2 & A3) (B1 & B2 & B3). split; [congruence|]. split; [congruence|eapply keep_rest_trans; eauto]. Qed.

Lemma ldrain_ok base vs k s p : l_params s = base ++ vs -> length vs = k -> ldrain_params k s p = Ok (vs, wparams base s, p).
Proof.
  intros E Hk. unfold ldrain_params, bind, get_state. rewrite E, app_length, Hk.
  destruct (Nat.ltb_spec (length base + k) k) as [Hlt|_]; [exfalso; lia|].
  replace (length base + k - k)%nat with (length base) by lia.
  rewrite firstn_app, firstn_all, Nat.sub_diag, firstn_O, app_nil_r, skipn_app, skipn_all, Nat.sub_diag, skipn_O. reflexivity.
Qed.

Section Extract.
  Variables (t : tree) (fl : file) (call : ident -> graph -> list value -> res (value * graph)).
  Variable okfn : ident -> Prop.
  Hypothesis Hcall : forall f, okfn f -> call_ok call f.

  Lemma call_ok_pure f g args v g1 : okfn f -> call f g args = Ok (v, g1) -> g1 = g /\ forall g', call f g' args = Ok (v, g').
  Proof.
    intros Hf E. split.
    - pose proof (Hcall f Hf top (fun i => i) g g args (valls_top args) (fun i j _ _ H => H)) as H. rewrite E in H. apply H.
    - intros g'. pose proof (Hcall f Hf top (fun i => i) g g' args (valls_top args) (fun i j _ _ H => H)) as H. rewrite E in H.
      destruct H as (_ & _ & H). rewrite map_vren_id, vren_idf in H. exact H.
  Qed.

  Notation frag := (lvall okfn top top).

  (* ---- denotation with respect to a partial valuation of the store ---- *)
  Inductive pden (pv : nat -> option value) : lvalue -> value -> Prop :=
  | pden_value v : pden pv (LValue v) v
  | pden_list ls vs : Forall2 (pden pv) ls vs -> pden pv (LList ls) (VList vs)
  | pden_set ls vs : Forall2 (pden pv) ls vs -> pden pv (LSet ls) (VSet (set_of_list vs))
  | pden_var loc v : pv (N.to_nat loc) = Some v -> pden pv (LVar loc) v
  | pden_call f args vs v : Forall2 (pden pv) args vs -> (forall g, call f g vs = Ok (v, g)) -> pden pv (LCall f args) v.

  Lemma pden_mono pv pv' : (forall i v, pv i = Some v -> pv' i = Some v) -> forall lv v, pden pv lv v -> pden pv' lv v.
  Proof.
    intros Hp. fix IH 3. intros lv v H. destruct H as [v|ls vs HF|ls vs HF|loc v Hn|f args vs v HF Hc].
    - constructor.
    - constructor. revert ls vs HF. fix IHF 3. intros ls vs HF. destruct HF as [|x y l l' Hxy HF]; constructor; [apply IH, Hxy|apply IHF, HF].
    - constructor. revert ls vs HF. fix IHF 3. intros ls vs HF. destruct HF as [|x y l l' Hxy HF]; constructor; [apply IH, Hxy|apply IHF, HF].
    - constructor. apply Hp, Hn.
    - apply (pden_call _ _ _ vs); [|exact Hc]. clear Hc. revert args vs HF. fix IHF 3. intros args vs HF. destruct HF as [|x y l l' Hxy HF]; constructor; [apply IH, Hxy|apply IHF, HF].
  Qed.
  Lemma pdens_mono pv pv' ls vs : (forall i v, pv i = Some v -> pv' i = Some v) -> Forall2 (pden pv) ls vs -> Forall2 (pden pv') ls vs.
  Proof. intros Hp H. induction H; constructor; [eapply pden_mono; eauto|assumption]. Qed.

  (* a partial denotation over locations < k whose values agree with rho is a denotation in the sense of SLForce *)
  Lemma pden_den pv rho k : (forall i v, (i < k)%nat -> pv i = Some v -> nth_error rho i = Some v) ->
    forall lv v, pden pv lv v -> lvall okfn top (fun l => l < N.of_nat k) lv -> den call (firstn k rho) lv v.
  Proof.
    intros Hp. fix IH 3. intros lv v H Hl. destruct H as [v|ls vs HF|ls vs HF|loc v Hn|f args vs v HF Hc].
    - constructor.
    - constructor. rewrite lvall_list in Hl. revert ls vs HF Hl. fix IHF 3. intros ls vs HF Hl. destruct HF as [|x y l l' Hxy HF]; constructor.
      + apply IH; [exact Hxy|]. inversion Hl; assumption.
      + apply IHF; [exact HF|]. inversion Hl; assumption.
    - constructor. rewrite lvall_set in Hl. revert ls vs HF Hl. fix IHF 3. intros ls vs HF Hl. destruct HF as [|x y l l' Hxy HF]; constructor.
      + apply IH; [exact Hxy|]. inversion Hl; assumption.
      + apply IHF; [exact HF|]. inversion Hl; assumption.
    - constructor. cbn [lvall] in Hl. rewrite nth_error_firstn' by lia. apply Hp; [lia|exact Hn].
    - rewrite lvall_call in Hl. destruct Hl as [_ Hl]. apply (den_call _ _ _ _ vs); [|exact Hc]. clear Hc.
      revert args vs HF Hl. fix IHF 3. intros args vs HF Hl. destruct HF as [|x y l l' Hxy HF]; constructor.
      + apply IH; [exact Hxy|]. inversion Hl; assumption.
      + apply IHF; [exact HF|]. inversion Hl; assumption.
  Qed.

  (* ---- the forced part of a store, and how a store evolves ---- *)
  Definition fvs (st : list thunk) : nat -> option value :=
    fun i => match nth_error st i with Some th => match th_state th with TForced v => Some v | _ => None end | None => None end.
  Definition tstep (st' : list thunk) (a b : thunk_state) : Prop :=
    match a with
    | TForced v => b = TForced v
    | TForcing => b = TForcing
    | TUnforced lv => b = TUnforced lv \/ exists w, b = TForced w /\ pden (fvs st') lv w
    end.
  Definition stle (st st' : list thunk) : Prop :=
    length st' = length st /\
    forall i th, nth_error st i = Some th -> exists th', nth_error st' i = Some th' /\ th_dbg th' = th_dbg th /\ tstep st' (th_state th) (th_state th').
  Lemma stle_refl st : stle st st.
  Proof. split; [reflexivity|]. intros i th E. exists th. split; [exact E|]. split; [reflexivity|]. destruct (th_state th); cbn; auto. Qed.
  Lemma stle_fvs st st' : stle st st' -> forall i v, fvs st i = Some v -> fvs st' i = Some v.
  Proof.
    intros [_ H] i v E. unfold fvs in *. destruct (nth_error st i) as [th|] eqn:En; [|discriminate]. destruct (H i th En) as (th' & E' & _ & Ht). rewrite E'.
    destruct (th_state th); try discriminate. inversion E; subst. cbn in Ht. rewrite Ht. reflexivity.
  Qed.
  Lemma stle_trans a b c : stle a b -> stle b c -> stle a c.
  Proof.
    intros [L1 H1] [L2 H2]. split; [congruence|]. intros i th E. destruct (H1 i th E) as (th1 & E1 & D1 & T1). destruct (H2 i th1 E1) as (th2 & E2 & D2 & T2).
    exists th2. split; [exact E2|]. split; [congruence|]. destruct (th_state th) as [lv| |v]; cbn [tstep] in *.
    - destruct T1 as [T1|(w & T1 & Hw)]; rewrite T1 in T2; cbn [tstep] in T2; [exact T2|]. right. exists w. split; [exact T2|].
      eapply pden_mono; [|exact Hw]. apply stle_fvs. split; assumption.
    - rewrite T1 in T2. exact T2.
    - rewrite T1 in T2. exact T2.
  Qed.

  (* the bodies of unforced thunks are in the fragment *)
  Definition sfrag0 (st : list thunk) : Prop := forall i th lv, nth_error st i = Some th -> th_state th = TUnforced lv -> frag lv.
  Lemma sfrag0_stle st st' : stle st st' -> sfrag0 st -> sfrag0 st'.
  Proof.
    intros [L H] Hf i th' lv E' Es. destruct (nth_error st i) as [th|] eqn:En.
    - destruct (H i th En) as (th2 & E2 & _ & T). rewrite E' in E2. inversion E2; subst th2. rewrite Es in T.
      destruct (th_state th) as [lv0| |v] eqn:Est; cbn [tstep] in T; try discriminate.
      destruct T as [T|(w & T & _)]; [|discriminate]. inversion T; subst. eapply Hf; eauto.
    - exfalso. apply nth_error_None in En. assert (i < length st')%nat by (apply nth_error_Some; congruence). lia.
  Qed.

  Notation eval_lv' := (eval_lv t fl call).
  Notation force_thunk' := (force_thunk t fl call).

  Definition evA (F : nat) : Prop := forall lv ls p v ls' p', eval_lv' F lv ls p = Ok (v, ls', p') -> frag lv -> sfrag0 (l_store ls) ->
    only_store ls ls' /\ stle (l_store ls) (l_store ls') /\ pden (fvs (l_store ls')) lv v.
  Definition ftA (F : nat) : Prop := forall loc ls p v ls' p', force_thunk' F loc ls p = Ok (v, ls', p') -> sfrag0 (l_store ls) ->
    only_store ls ls' /\ stle (l_store ls) (l_store ls') /\ fvs (l_store ls') (N.to_nat loc) = Some v.

  Lemma mapM_A F : evA F -> forall es ls p vs ls' p', mapM (eval_lv' F) es ls p = Ok (vs, ls', p') -> Forall frag es -> sfrag0 (l_store ls) ->
    only_store ls ls' /\ stle (l_store ls) (l_store ls') /\ Forall2 (pden (fvs (l_store ls'))) es vs.
  Proof.
    intros Hev. induction es as [|e es IH]; intros ls p vs ls' p' H Hf Hs; cbn [mapM] in H.
    - apply ret_ok in H as (-> & -> & ->). split; [apply only_store_refl|]. split; [apply stle_refl|constructor].
    - inversion Hf as [|? ? Hfe Hfes]; subst. apply bind_ok in H as (v & ls1 & p1 & E1 & H). apply bind_ok in H as (vs1 & ls2 & p2 & E2 & H).
      apply ret_ok in H as (-> & -> & ->). destruct (Hev _ _ _ _ _ _ E1 Hfe Hs) as (O1 & S1 & D1).
      destruct (IH _ _ _ _ _ E2 Hfes (sfrag0_stle _ _ S1 Hs)) as (O2 & S2 & D2).
      split; [eapply only_store_trans; eauto|]. split; [eapply stle_trans; eauto|]. constructor; [|exact D2]. eapply pden_mono; [apply stle_fvs, S2|exact D1].
  Qed.
  Lemma lpush_param_ok v s p u s' p' : lpush_param v s p = Ok (u, s', p') -> s' = wparams (l_params s ++ [v]) s /\ p' = p.
  Proof. unfold lpush_param, bind, get_state, set_lparams, Lazy.upd, modify. intros H. inversion H. auto. Qed.
  Lemma args_A F : evA F -> forall args ls p u ls' p', iterM (fun a => v <- eval_lv' F a ;; lpush_param v) args ls p = Ok (u, ls', p') -> Forall frag args -> sfrag0 (l_store ls) ->
    exists vs, l_params ls' = l_params ls ++ vs /\ l_graph ls' = l_graph ls /\ l_prev ls' = l_prev ls /\ l_locals ls' = l_locals ls /\ l_scoped ls' = l_scoped ls /\
               l_edges ls' = l_edges ls /\ l_attrs ls' = l_attrs ls /\ l_prints ls' = l_prints ls /\
               stle (l_store ls) (l_store ls') /\ Forall2 (pden (fvs (l_store ls'))) args vs.
  Proof.
    intros Hev. induction args as [|e es IH]; intros ls p u ls' p' H Hf Hs; cbn [iterM] in H.
    - apply ret_ok in H as (_ & -> & _). exists []. rewrite app_nil_r. repeat split; try reflexivity; [apply stle_refl|constructor].
    - inversion Hf as [|? ? Hfe Hfes]; subst. apply bind_ok in H as (u1 & ls2 & p2 & E1 & H). apply bind_ok in E1 as (v & ls1 & p1 & E1 & Epush).
      apply lpush_param_ok in Epush as (-> & ->). destruct (Hev _ _ _ _ _ _ E1 Hfe Hs) as ((G1 & Pv1 & L1 & Sc1 & Ed1 & At1 & Pr1 & Pa1) & S1 & D1).
      destruct (IH _ _ _ _ _ H Hfes) as (vs & Pa2 & G2 & Pv2 & L2 & Sc2 & Ed2 & At2 & Pr2 & S2 & D2); [exact (sfrag0_stle _ _ S1 Hs)|].
      cbn [wparams l_params l_graph l_prev l_locals l_scoped l_edges l_attrs l_prints l_store] in *.
      exists (v :: vs). split; [rewrite Pa2, Pa1, <- app_assoc; reflexivity|]. repeat (split; [congruence|]).
      split; [eapply stle_trans; eauto|]. constructor; [|exact D2]. eapply pden_mono; [apply stle_fvs, S2|exact D1].
  Qed.

  Lemma set_state_eq loc st s p : store_set_state loc st s p =
    Ok (tt, wstore (list_update (N.to_nat loc) (fun th => {| th_state := st; th_dbg := th_dbg th |}) (l_store s)) s, p).
  Proof. reflexivity. Qed.

  Lemma evA_all : forall F, evA F /\ ftA F.
  Proof.
    induction F as [|F [IHe IHt]]; [split; intros ? ? ? ? ? ? H; discriminate|]. split.
    - intros lv ls p v ls' p' H Hf Hs. cbn [eval_lv] in H. apply bind_ok in H as (u0 & ls0 & p0 & Epoll & H).
      unfold lpoll in Epoll. apply poll_ok in Epoll as (-> & _ & _).
      destruct lv as [v0|es|es|loc|sc name|f args].
      + apply ret_ok in H as (-> & -> & _). split; [apply only_store_refl|]. split; [apply stle_refl|constructor].
      + apply bind_ok in H as (vs & ls1 & p1 & E1 & H). apply ret_ok in H as (-> & -> & _). rewrite lvall_list in Hf.
        destruct (mapM_A F IHe _ _ _ _ _ _ E1 Hf Hs) as (O & S & D). split; [exact O|]. split; [exact S|]. constructor. exact D.
      + apply bind_ok in H as (vs & ls1 & p1 & E1 & H). apply ret_ok in H as (-> & -> & _). rewrite lvall_set in Hf.
        destruct (mapM_A F IHe _ _ _ _ _ _ E1 Hf Hs) as (O & S & D). split; [exact O|]. split; [exact S|]. constructor. exact D.
      + destruct (IHt _ _ _ _ _ _ H Hs) as (O & S & D). split; [exact O|]. split; [exact S|]. constructor. exact D.
      + cbn [lvall] in Hf. contradiction.
      + rewrite lvall_call in Hf. destruct Hf as [Hok Hargs]. apply bind_ok in H as (u1 & ls1 & p1 & E1 & H). apply bind_ok in H as (ps & ls2 & p2 & E2 & H).
        destruct (args_A F IHe _ _ _ _ _ _ E1 Hargs Hs) as (vs & Pa & G & Pv & L & Sc & Ed & At & Pr & S & D).
        rewrite (ldrain_ok (l_params ls) vs (length args) ls1 p1 Pa (eq_sym (Forall2_length' _ _ _ D))) in E2. inversion E2; subst ps ls2 p2; clear E2.
        unfold lcall_function, bind, get_state in H. cbn [wparams l_graph] in H.
        destruct (call f (l_graph ls1) vs) as [[v1 g1]|e|x|] eqn:Ec; try discriminate.
        destruct (call_ok_pure f _ _ _ _ Hok Ec) as [-> Hall]. unfold set_lgraph, Lazy.upd, modify, ret in H. inversion H; subst v ls' p'; clear H.
        cbn [l_graph l_locals l_store l_scoped l_edges l_attrs l_prints l_params l_prev wparams].
        split; [repeat split; assumption|]. split; [exact S|]. apply (pden_call _ _ _ vs); assumption.
    - intros loc ls p v ls' p' H Hs. cbn [force_thunk] in H. unfold bind at 1, get_state at 1 in H.
      destruct (nth_error (l_store ls) (N.to_nat loc)) as [th|] eqn:Eth; [|discriminate]. apply ctx_wrap_ok in H.
      destruct (th_state th) as [inner| |v0] eqn:Est.
      + apply bind_ok in H as (u1 & ls1 & p1 & E1 & H). rewrite set_state_eq in E1. inversion E1; subst u1 ls1 p1; clear E1.
        apply bind_ok in H as (v1 & ls2 & p2 & E2 & H). apply bind_ok in H as (u3 & ls3 & p3 & E3 & H). apply ret_ok in H as (Ev & -> & _). subst v1.
        rewrite set_state_eq in E3. inversion E3; subst u3 ls3 p3; clear E3.
        set (st1 := list_update (N.to_nat loc) (fun th0 => {| th_state := TForcing; th_dbg := th_dbg th0 |}) (l_store ls)) in *.
        assert (Hs1 : sfrag0 st1).
        { intros i th1 lv E Es. unfold st1 in E. rewrite nth_error_list_update in E. destruct (Nat.eqb_spec i (N.to_nat loc)) as [->|Hne].
          - rewrite Eth in E. cbn in E. inversion E; subst th1. discriminate.
          - eapply Hs; eauto. }
        destruct (IHe _ _ _ _ _ _ E2 (Hs _ _ _ Eth Est) Hs1) as ((G2 & Pv2 & K2) & [L2 S2] & D2). cbn [wstore l_store l_graph l_prev] in *.
        set (st3 := list_update (N.to_nat loc) (fun th0 => {| th_state := TForced v; th_dbg := th_dbg th0 |}) (l_store ls2)) in *.
        assert (Hmono : forall i w, fvs (l_store ls2) i = Some w -> fvs st3 i = Some w).
        { intros i w E. unfold fvs, st3 in *. rewrite nth_error_list_update. destruct (Nat.eqb_spec i (N.to_nat loc)) as [->|Hne]; [|exact E].
          exfalso. destruct (S2 (N.to_nat loc) {| th_state := TForcing; th_dbg := th_dbg th |}) as (th2 & E2' & _ & T2).
          { unfold st1. rewrite nth_error_list_update, Nat.eqb_refl, Eth. reflexivity. }
          rewrite E2' in E. cbn [th_state tstep] in T2. rewrite T2 in E. discriminate. }
        assert (Hloc : exists th2, nth_error (l_store ls2) (N.to_nat loc) = Some th2 /\ th_dbg th2 = th_dbg th).
        { destruct (S2 (N.to_nat loc) {| th_state := TForcing; th_dbg := th_dbg th |}) as (th2 & E2' & Dg & _).
          { unfold st1. rewrite nth_error_list_update, Nat.eqb_refl, Eth. reflexivity. }
          exists th2. auto. }
        destruct Hloc as (th2 & Eloc2 & Dg2).
        split; [split; [exact G2|split; [exact Pv2|exact K2]]|]. split; [split|].
        * unfold st3. rewrite list_update_length, L2. unfold st1. apply list_update_length.
        * intros i th0 E0. destruct (Nat.eq_dec i (N.to_nat loc)) as [->|Hne].
          -- rewrite Eth in E0. inversion E0; subst th0. exists {| th_state := TForced v; th_dbg := th_dbg th2 |}. split.
             ++ unfold st3. rewrite nth_error_list_update, Nat.eqb_refl, Eloc2. reflexivity.
             ++ split; [exact Dg2|]. rewrite Est. cbn [th_state tstep]. right. exists v. split; [reflexivity|]. eapply pden_mono; [exact Hmono|exact D2].
          -- destruct (S2 i th0) as (th3 & E3 & Dg3 & T3); [unfold st1; rewrite nth_error_list_update; destruct (Nat.eqb_spec i (N.to_nat loc)); [contradiction|exact E0]|].
             exists th3. split; [unfold st3; rewrite nth_error_list_update; destruct (Nat.eqb_spec i (N.to_nat loc)); [contradiction|exact E3]|]. split; [exact Dg3|].
             destruct (th_state th0) as [lv0| |w0]; cbn [tstep] in *; try exact T3. destruct T3 as [T3|(w & T3 & Hw)]; [left; exact T3|].
             right. exists w. split; [exact T3|]. eapply pden_mono; [exact Hmono|exact Hw].
        * unfold fvs, st3. rewrite nth_error_list_update, Nat.eqb_refl, Eloc2. reflexivity.
      + discriminate.
      + apply ret_ok in H as (-> & -> & _). split; [apply only_store_refl|]. split; [apply stle_refl|]. unfold fvs. rewrite Eth, Est. reflexivity.
  Qed.

  (* ================= deferred statements ================= *)
  Definition pden_edge (pv : nat -> option value) (st : lstmt) (e : N * N) : Prop :=
    exists a b dbg, st = LSEdge a b [] dbg /\ pden pv a (VGraph (fst e)) /\ pden pv b (VGraph (snd e)).
  Definition pden_attrs (pv : nat -> option value) (out : list (ident * lvalue)) (kvs : list (ident * value)) : Prop :=
    Forall2 (fun x y => fst x = fst y /\ pden pv (snd x) (snd y)) out kvs.
  Definition pden_astmt (pv : nat -> option value) (st : lstmt) (ops : list aop) : Prop :=
    match st with
    | LSAttrNode n attrs _ => exists x kvs, pden pv n (VGraph x) /\ pden_attrs pv attrs kvs /\ ops = map (mk (TNode x)) kvs
    | LSAttrEdge a b attrs _ => exists x y kvs, pden pv a (VGraph x) /\ pden pv b (VGraph y) /\ pden_attrs pv attrs kvs /\ ops = map (mk (TEdge x y)) kvs
    | _ => False
    end.
  Definition pprint_ok (pv : nat -> option value) (st : lstmt) : Prop :=
    match st with
    | LSPrint args _ => Forall (fun a => match a with Some lv => exists v, pden pv lv v | None => True end) args
    | _ => False
    end.
  Section PMono.
    Variables pv pv' : nat -> option value.
    Hypothesis Hp : forall i v, pv i = Some v -> pv' i = Some v.
    Lemma pden_edge_mono st e : pden_edge pv st e -> pden_edge pv' st e.
    Proof. intros (a & b & dbg & E & Ha & Hb). exists a, b, dbg. split; [exact E|]. split; eapply pden_mono; eauto. Qed.
    Lemma pden_attrs_mono out kvs : pden_attrs pv out kvs -> pden_attrs pv' out kvs.
    Proof. intros H. induction H as [|x y l l' [H1 H2] _ IH]; constructor; [|exact IH]. split; [exact H1|eapply pden_mono; eauto]. Qed.
    Lemma pden_astmt_mono st ops : pden_astmt pv st ops -> pden_astmt pv' st ops.
    Proof.
      destruct st; cbn [pden_astmt]; try tauto.
      - intros (x & kvs & H1 & H2 & H3). exists x, kvs. split; [eapply pden_mono; eauto|]. split; [apply pden_attrs_mono, H2|exact H3].
      - intros (x & y & kvs & H1 & H1' & H2 & H3). exists x, y, kvs. split; [eapply pden_mono; eauto|]. split; [eapply pden_mono; eauto|].
        split; [apply pden_attrs_mono, H2|exact H3].
    Qed.
    Lemma pprint_ok_mono st : pprint_ok pv st -> pprint_ok pv' st.
    Proof.
      destruct st; cbn [pprint_ok]; try tauto. intros H. eapply Forall_impl; [|exact H]. intros [lv|]; [|auto].
      intros [v Hv]. exists v. eapply pden_mono; eauto.
    Qed.
  End PMono.

  (* the statements of the fragment: edge statements carry no execution-time attributes (no debug attributes) *)
  Notation sfrag := (lsall (fun ea : amap => ea = []) okfn top top).

  Lemma gnode_A F lv ls p x ls' p' : eval_as_gnode t fl call F lv ls p = Ok (x, ls', p') -> frag lv -> sfrag0 (l_store ls) ->
    only_store ls ls' /\ stle (l_store ls) (l_store ls') /\ pden (fvs (l_store ls')) lv (VGraph x).
  Proof.
    intros H Hf Hs. unfold eval_as_gnode in H. apply bind_ok in H as (v & ls1 & p1 & E & H). apply lift_ok in H as (Hv & -> & ->).
    apply as_gnode_ok in Hv. subst v. destruct (evA_all F) as [He _]. apply (He _ _ _ _ _ _ E Hf Hs).
  Qed.
  Lemma poll_keep l (ls : lstate) p u ls' p' : lpoll l ls p = Ok (u, ls', p') -> ls' = ls.
  Proof. unfold lpoll. intros H. apply poll_ok in H as (-> & _). reflexivity. Qed.

  Lemma ledge_add_A x y ls p u ls' p' : ledge_add x y [] ls p = Ok (u, ls', p') ->
    apply_edge (x, y) (l_graph ls) = Some (l_graph ls') /\ l_store ls' = l_store ls /\ l_prev ls' = l_prev ls /\ keep_rest ls ls'.
  Proof.
    unfold ledge_add, bind, get_state, apply_edge. cbn [fst snd]. destruct (graph_add_edge (l_graph ls) x y) as [[g' isnew]|] eqn:E; [|discriminate].
    destruct isnew.
    - rewrite (edge_reset_id _ _ _ _ E). unfold set_lgraph, Lazy.upd, modify. intros H; inversion H; subst. cbn. repeat split.
    - unfold set_lgraph, Lazy.upd, modify. intros H; inversion H; subst. cbn. repeat split.
  Qed.

  Lemma estmt_A F a b dbg ls p u ls' p' : eval_lstmt t fl call F (LSEdge a b [] dbg) ls p = Ok (u, ls', p') -> frag a -> frag b -> sfrag0 (l_store ls) ->
    exists x y, pden (fvs (l_store ls')) a (VGraph x) /\ pden (fvs (l_store ls')) b (VGraph y) /\ apply_edge (x, y) (l_graph ls) = Some (l_graph ls') /\
                stle (l_store ls) (l_store ls') /\ keep_rest ls ls' /\ l_prev ls' = l_prev ls.
  Proof.
    intros H Ha Hb Hs. unfold eval_lstmt in H. apply bind_ok in H as (u0 & ls0 & p0 & Ep & H). apply poll_keep in Ep. subst ls0. apply ctx_wrap_ok in H.
    apply bind_ok in H as (x & ls1 & p1 & E1 & H). apply ctx_wrap_ok in E1. apply bind_ok in H as (y & ls2 & p2 & E2 & H). apply ctx_wrap_ok in E2.
    destruct (gnode_A _ _ _ _ _ _ _ E1 Ha Hs) as ((G1 & Pv1 & K1) & S1 & D1).
    destruct (gnode_A _ _ _ _ _ _ _ E2 Hb (sfrag0_stle _ _ S1 Hs)) as ((G2 & Pv2 & K2) & S2 & D2).
    destruct (ledge_add_A _ _ _ _ _ _ _ H) as (Hg & Hst & Hpv & K3). exists x, y. rewrite Hst.
    split; [eapply pden_mono; [apply stle_fvs, S2|exact D1]|]. split; [exact D2|]. split; [rewrite <- G1, <- G2; exact Hg|].
    split; [eapply stle_trans; eauto|]. split; [eapply keep_rest_trans; [exact K1|eapply keep_rest_trans; eauto]|congruence].
  Qed.

  Lemma edges_A F : forall sts ls p u ls' p', iterM (eval_lstmt t fl call F) sts ls p = Ok (u, ls', p') ->
    Forall (fun st => is_estmt st /\ sfrag st) sts -> sfrag0 (l_store ls) ->
    exists eops, Forall2 (pden_edge (fvs (l_store ls'))) sts eops /\ apply_edges eops (l_graph ls) = Some (l_graph ls') /\
                 stle (l_store ls) (l_store ls') /\ keep_rest ls ls' /\ l_prev ls' = l_prev ls.
  Proof.
    induction sts as [|st sts IH]; intros ls p u ls' p' H Hf Hs; cbn [iterM] in H.
    - apply ret_ok in H as (_ & -> & _). exists []. split; [constructor|]. split; [reflexivity|]. split; [apply stle_refl|]. split; [apply keep_rest_refl|reflexivity].
    - inversion Hf as [|? ? [Hk Hst] Hrest]; subst. apply bind_ok in H as (u1 & ls1 & p1 & E1 & H).
      destruct st as [n attrs dbg|a b ea dbg|a b attrs dbg|args dbg]; cbn [is_estmt] in Hk; try contradiction. cbn [lsall] in Hst. destruct Hst as (Ha & Hb & ->).
      destruct (estmt_A _ _ _ _ _ _ _ _ _ E1 Ha Hb Hs) as (x & y & Dx & Dy & Hg & S1 & K1 & P1).
      destruct (IH _ _ _ _ _ H Hrest (sfrag0_stle _ _ S1 Hs)) as (eops & HF & Hg2 & S2 & K2 & P2).
      exists ((x, y) :: eops). split.
      + constructor; [|exact HF]. exists a, b, dbg. split; [reflexivity|]. cbn [fst snd]. split; (eapply pden_mono; [apply stle_fvs, S2|]); assumption.
      + cbn [ofold]. rewrite Hg. split; [exact Hg2|]. split; [eapply stle_trans; eauto|]. split; [eapply keep_rest_trans; eauto|congruence].
  Qed.

  (* attribute statements *)
  Lemma prev_insert_A k dbg ls p o ls' p' : prev_insert k dbg ls p = Ok (o, ls', p') -> l_graph ls' = l_graph ls /\ l_store ls' = l_store ls /\ keep_rest ls ls'.
  Proof. unfold prev_insert, bind, get_state, set_lprev, Lazy.upd, modify, ret. intros H; inversion H; subst. cbn. repeat split. Qed.
  Lemma lattr_node_add_A x k v prev dbg ls p u ls' p' : lattr_node_add x k v prev dbg ls p = Ok (u, ls', p') ->
    apply_attr (AN x k v) (l_graph ls) = Some (l_graph ls') /\ l_store ls' = l_store ls /\ keep_rest ls ls'.
  Proof.
    unfold lattr_node_add, bind, get_state, apply_attr. destruct (gnode_at (l_graph ls) x) as [nd|]; [|discriminate].
    destruct (attrs_add (g_attrs nd) k v) as [m' [c|]]; [discriminate|]. unfold set_lgraph, Lazy.upd, modify. intros H; inversion H; subst. cbn. repeat split.
  Qed.
  Lemma ledge_exists_A x y ls p b ls' p' : ledge_exists x y ls p = Ok (b, ls', p') -> ls' = ls.
  Proof. unfold ledge_exists, bind, get_state. destruct (gnode_at (l_graph ls) x); [|discriminate]. unfold ret. intros H; inversion H; reflexivity. Qed.
  Lemma lattr_edge_add_A x y k v prev dbg ls p u ls' p' : lattr_edge_add x y k v prev dbg ls p = Ok (u, ls', p') ->
    apply_attr (AE x y k v) (l_graph ls) = Some (l_graph ls') /\ l_store ls' = l_store ls /\ keep_rest ls ls'.
  Proof.
    unfold lattr_edge_add, bind, get_state, apply_attr. destruct (gnode_at (l_graph ls) x) as [nd|]; [|discriminate].
    destruct (edges_get y (g_edges nd)) as [m0|]; [|discriminate].
    destruct (attrs_add m0 k v) as [m' [c|]]; [discriminate|]. unfold set_lgraph, Lazy.upd, modify. intros H; inversion H; subst. cbn. repeat split.
  Qed.

  Lemma nattrs_A F x dbg : forall attrs ls p u ls' p',
    iterM (fun a : ident * lvalue => v <- eval_lv' F (snd a) ;; prev <- prev_insert (KNode x (fst a)) dbg ;; lattr_node_add x (fst a) v prev dbg) attrs ls p = Ok (u, ls', p') ->
    Forall (atall okfn top top) attrs -> sfrag0 (l_store ls) ->
    exists kvs, pden_attrs (fvs (l_store ls')) attrs kvs /\ apply_attrs (map (mk (TNode x)) kvs) (l_graph ls) = Some (l_graph ls') /\
                stle (l_store ls) (l_store ls') /\ keep_rest ls ls'.
  Proof.
    induction attrs as [|[k lv] attrs IH]; intros ls p u ls' p' H Hf Hs; cbn [iterM] in H.
    - apply ret_ok in H as (_ & -> & _). exists []. split; [constructor|]. split; [reflexivity|]. split; [apply stle_refl|apply keep_rest_refl].
    - inversion Hf as [|? ? Hlv Hrest]; subst. unfold atall in Hlv. cbn [fst snd] in *. apply bind_ok in H as (u1 & ls3 & p3 & E & H).
      apply bind_ok in E as (v & ls1 & p1 & E1 & E). apply bind_ok in E as (prev & ls2 & p2 & E2 & E3).
      destruct (evA_all F) as [He _]. destruct (He _ _ _ _ _ _ E1 Hlv Hs) as ((G1 & _ & K1) & S1 & D1).
      destruct (prev_insert_A _ _ _ _ _ _ _ E2) as (G2 & St2 & K2). destruct (lattr_node_add_A _ _ _ _ _ _ _ _ _ _ E3) as (G3 & St3 & K3).
      assert (S13 : stle (l_store ls) (l_store ls3)) by (rewrite St3, St2; exact S1).
      destruct (IH _ _ _ _ _ H Hrest (sfrag0_stle _ _ S13 Hs)) as (kvs & HF & Hg & S4 & K4).
      exists ((k, v) :: kvs). split.
      + constructor; [|exact HF]. cbn [fst snd]. split; [reflexivity|]. eapply pden_mono; [apply stle_fvs, S4|]. rewrite St3, St2. exact D1.
      + cbn [map ofold mk fst snd]. rewrite <- G1, <- G2, G3. split; [exact Hg|]. split; [eapply stle_trans; eauto|].
        eapply keep_rest_trans; [exact K1|]. eapply keep_rest_trans; [exact K2|]. eapply keep_rest_trans; eauto.
  Qed.
  Lemma eattrs_A F x y dbg : forall attrs ls p u ls' p',
    iterM (fun ak : ident * lvalue => v <- eval_lv' F (snd ak) ;; ex <- ledge_exists x y ;;
             if ex then prev <- prev_insert (KEdge x y (fst ak)) dbg ;; lattr_edge_add x y (fst ak) v prev dbg else fail EUndefinedEdge) attrs ls p = Ok (u, ls', p') ->
    Forall (atall okfn top top) attrs -> sfrag0 (l_store ls) ->
    exists kvs, pden_attrs (fvs (l_store ls')) attrs kvs /\ apply_attrs (map (mk (TEdge x y)) kvs) (l_graph ls) = Some (l_graph ls') /\
                stle (l_store ls) (l_store ls') /\ keep_rest ls ls'.
  Proof.
    induction attrs as [|[k lv] attrs IH]; intros ls p u ls' p' H Hf Hs; cbn [iterM] in H.
    - apply ret_ok in H as (_ & -> & _). exists []. split; [constructor|]. split; [reflexivity|]. split; [apply stle_refl|apply keep_rest_refl].
    - inversion Hf as [|? ? Hlv Hrest]; subst. unfold atall in Hlv. cbn [fst snd] in *. apply bind_ok in H as (u1 & ls3 & p3 & E & H).
      apply bind_ok in E as (v & ls1 & p1 & E1 & E). apply bind_ok in E as (ex & ls1' & p1' & Eex & E). apply ledge_exists_A in Eex as Hex. subst ls1'.
      destruct ex; [|discriminate]. apply bind_ok in E as (prev & ls2 & p2 & E2 & E3).
      destruct (evA_all F) as [He _]. destruct (He _ _ _ _ _ _ E1 Hlv Hs) as ((G1 & _ & K1) & S1 & D1).
      destruct (prev_insert_A _ _ _ _ _ _ _ E2) as (G2 & St2 & K2). destruct (lattr_edge_add_A _ _ _ _ _ _ _ _ _ _ _ E3) as (G3 & St3 & K3).
      assert (S13 : stle (l_store ls) (l_store ls3)) by (rewrite St3, St2; exact S1).
      destruct (IH _ _ _ _ _ H Hrest (sfrag0_stle _ _ S13 Hs)) as (kvs & HF & Hg & S4 & K4).
      exists ((k, v) :: kvs). split.
      + constructor; [|exact HF]. cbn [fst snd]. split; [reflexivity|]. eapply pden_mono; [apply stle_fvs, S4|]. rewrite St3, St2. exact D1.
      + cbn [map ofold mk fst snd]. rewrite <- G1, <- G2, G3. split; [exact Hg|]. split; [eapply stle_trans; eauto|].
        eapply keep_rest_trans; [exact K1|]. eapply keep_rest_trans; [exact K2|]. eapply keep_rest_trans; eauto.
  Qed.

  Lemma astmt_A F st ls p u ls' p' : eval_lstmt t fl call F st ls p = Ok (u, ls', p') -> is_astmt st -> sfrag st -> sfrag0 (l_store ls) ->
    exists ops, pden_astmt (fvs (l_store ls')) st ops /\ apply_attrs ops (l_graph ls) = Some (l_graph ls') /\ stle (l_store ls) (l_store ls') /\ keep_rest ls ls'.
  Proof.
    intros H Hk Hf Hs. unfold eval_lstmt in H. apply bind_ok in H as (u0 & ls0 & p0 & Ep & H). apply poll_keep in Ep. subst ls0.
    destruct st as [n attrs dbg|a b ea dbg|a b attrs dbg|args dbg]; cbn [is_astmt] in Hk; try contradiction; cbn [lsall] in Hf; apply ctx_wrap_ok in H.
    - destruct Hf as [Hn Hat]. apply bind_ok in H as (x & ls1 & p1 & E1 & H). apply ctx_wrap_ok in E1.
      destruct (gnode_A _ _ _ _ _ _ _ E1 Hn Hs) as ((G1 & _ & K1) & S1 & D1).
      destruct (nattrs_A F x dbg _ _ _ _ _ _ H Hat (sfrag0_stle _ _ S1 Hs)) as (kvs & HF & Hg & S2 & K2).
      exists (map (mk (TNode x)) kvs). split; [|split; [rewrite <- G1; exact Hg|split; [eapply stle_trans; eauto|eapply keep_rest_trans; eauto]]].
      cbn [pden_astmt]. exists x, kvs. split; [eapply pden_mono; [apply stle_fvs, S2|exact D1]|]. split; [exact HF|reflexivity].
    - destruct Hf as (Ha & Hb & Hat). apply bind_ok in H as (x & ls1 & p1 & E1 & H). apply ctx_wrap_ok in E1.
      apply bind_ok in H as (y & ls2 & p2 & E2 & H). apply ctx_wrap_ok in E2.
      destruct (gnode_A _ _ _ _ _ _ _ E1 Ha Hs) as ((G1 & _ & K1) & S1 & D1).
      destruct (gnode_A _ _ _ _ _ _ _ E2 Hb (sfrag0_stle _ _ S1 Hs)) as ((G2 & _ & K2) & S2 & D2).
      assert (S12 : stle (l_store ls) (l_store ls2)) by (eapply stle_trans; eauto).
      destruct (eattrs_A F x y dbg _ _ _ _ _ _ H Hat (sfrag0_stle _ _ S12 Hs)) as (kvs & HF & Hg & S3 & K3).
      exists (map (mk (TEdge x y)) kvs). split; [|split; [rewrite <- G1, <- G2; exact Hg|split; [eapply stle_trans; eauto|eapply keep_rest_trans; [exact K1|eapply keep_rest_trans; eauto]]]].
      cbn [pden_astmt]. exists x, y, kvs. split; [eapply pden_mono; [apply stle_fvs; eapply stle_trans; [exact S2|exact S3]|exact D1]|].
      split; [eapply pden_mono; [apply stle_fvs, S3|exact D2]|]. split; [exact HF|reflexivity].
  Qed.
  Lemma attrs_A F : forall sts ls p u ls' p', iterM (eval_lstmt t fl call F) sts ls p = Ok (u, ls', p') ->
    Forall (fun st => is_astmt st /\ sfrag st) sts -> sfrag0 (l_store ls) ->
    exists aopss, Forall2 (pden_astmt (fvs (l_store ls'))) sts aopss /\ apply_attrs (concat aopss) (l_graph ls) = Some (l_graph ls') /\
                  stle (l_store ls) (l_store ls') /\ keep_rest ls ls'.
  Proof.
    induction sts as [|st sts IH]; intros ls p u ls' p' H Hf Hs; cbn [iterM] in H.
    - apply ret_ok in H as (_ & -> & _). exists []. split; [constructor|]. split; [reflexivity|]. split; [apply stle_refl|apply keep_rest_refl].
    - inversion Hf as [|? ? [Hk Hst] Hrest]; subst. apply bind_ok in H as (u1 & ls1 & p1 & E1 & H).
      destruct (astmt_A _ _ _ _ _ _ _ E1 Hk Hst Hs) as (ops & D1 & Hg1 & S1 & K1).
      destruct (IH _ _ _ _ _ H Hrest (sfrag0_stle _ _ S1 Hs)) as (aopss & HF & Hg2 & S2 & K2).
      exists (ops :: aopss). split; [constructor; [eapply pden_astmt_mono; [apply stle_fvs, S2|exact D1]|exact HF]|].
      cbn [concat]. split; [eapply ofold_app_ok; eauto|]. split; [eapply stle_trans; eauto|eapply keep_rest_trans; eauto].
  Qed.

  (* print statements *)
  Lemma prints_A F : forall sts ls p u ls' p', iterM (eval_lstmt t fl call F) sts ls p = Ok (u, ls', p') ->
    Forall (fun st => is_pstmt st /\ sfrag st) sts -> sfrag0 (l_store ls) ->
    Forall (pprint_ok (fvs (l_store ls'))) sts /\ l_graph ls' = l_graph ls /\ stle (l_store ls) (l_store ls') /\ keep_rest ls ls'.
  Proof.
    induction sts as [|st sts IH]; intros ls p u ls' p' H Hf Hs; cbn [iterM] in H.
    - apply ret_ok in H as (_ & -> & _). split; [constructor|]. split; [reflexivity|]. split; [apply stle_refl|apply keep_rest_refl].
    - inversion Hf as [|? ? [Hk Hst] Hrest]; subst. apply bind_ok in H as (u1 & ls1 & p1 & E1 & H).
      destruct st as [n attrs dbg|a b ea dbg|a b attrs dbg|args dbg]; cbn [is_pstmt] in Hk; try contradiction. cbn [lsall] in Hst.
      unfold eval_lstmt in E1. apply bind_ok in E1 as (u0 & ls0 & p0 & Ep & E1). apply poll_keep in Ep. subst ls0. apply ctx_wrap_ok in E1.
      assert (Hargs : forall args0 ls0 p0 u2 ls2 p2,
                iterM (fun a : option lvalue => match a with Some lv => eval_lv' F lv ;;; ret tt | None => ret tt end) args0 ls0 p0 = Ok (u2, ls2, p2) ->
                Forall (fun o => match o with Some lv => frag lv | None => True end) args0 -> sfrag0 (l_store ls0) ->
                Forall (fun a => match a with Some lv => exists v, pden (fvs (l_store ls2)) lv v | None => True end) args0 /\
                only_store ls0 ls2 /\ stle (l_store ls0) (l_store ls2)).
      { destruct (evA_all F) as [He _]. clear -He. induction args0 as [|a args0 IHa]; intros ls0 p0 u2 ls2 p2 H Hf Hs; cbn [iterM] in H.
        - apply ret_ok in H as (_ & -> & _). split; [constructor|]. split; [apply only_store_refl|apply stle_refl].
        - inversion Hf as [|? ? Ha Hrest]; subst. apply bind_ok in H as (u1 & ls1 & p1 & E1 & H). destruct a as [lv|].
          + apply bind_ok in E1 as (v & ls1' & p1' & E1 & Er). apply ret_ok in Er as (_ & -> & _).
            destruct (He _ _ _ _ _ _ E1 Ha Hs) as (O1 & S1 & D1). destruct (IHa _ _ _ _ _ H Hrest (sfrag0_stle _ _ S1 Hs)) as (HF & O2 & S2).
            split; [constructor; [exists v; eapply pden_mono; [apply stle_fvs, S2|exact D1]|exact HF]|]. split; [eapply only_store_trans; eauto|eapply stle_trans; eauto].
          + apply ret_ok in E1 as (_ & -> & _). destruct (IHa _ _ _ _ _ H Hrest Hs) as (HF & O2 & S2). split; [constructor; [exact I|exact HF]|]. auto. }
      destruct (Hargs _ _ _ _ _ _ E1 Hst Hs) as (HF1 & (G1 & _ & K1) & S1).
      destruct (IH _ _ _ _ _ H Hrest (sfrag0_stle _ _ S1 Hs)) as (HF2 & G2 & S2 & K2).
      split; [constructor; [|exact HF2]|split; [congruence|split; [eapply stle_trans; eauto|eapply keep_rest_trans; eauto]]].
      cbn [pprint_ok]. eapply Forall_impl; [|exact HF1]. intros [lv|]; [|auto]. intros [v Hv]. exists v. eapply pden_mono; [apply stle_fvs, S2|exact Hv].
  Qed.

  (* forcing every thunk *)
  Lemma force_list_A F : forall (l : list nat) ls p u ls' p', iterM (fun i => force_thunk' F i ;;; ret tt) (map N.of_nat l) ls p = Ok (u, ls', p') -> sfrag0 (l_store ls) ->
    only_store ls ls' /\ stle (l_store ls) (l_store ls') /\ forall i, In i l -> fvs (l_store ls') i <> None.
  Proof.
    destruct (evA_all F) as [_ Ht]. induction l as [|i l IH]; intros ls p u ls' p' H Hs; cbn [map iterM] in H.
    - apply ret_ok in H as (_ & -> & _). split; [apply only_store_refl|]. split; [apply stle_refl|]. intros i [].
    - apply bind_ok in H as (u1 & ls1 & p1 & E1 & H). apply bind_ok in E1 as (v & ls1' & p1' & E1 & Er). apply ret_ok in Er as (_ & -> & _).
      destruct (Ht _ _ _ _ _ _ E1 Hs) as (O1 & S1 & D1). rewrite Nnat.Nat2N.id in D1. destruct (IH _ _ _ _ _ H (sfrag0_stle _ _ S1 Hs)) as (O2 & S2 & D2).
      split; [eapply only_store_trans; eauto|]. split; [eapply stle_trans; eauto|]. intros j [<-|Hj]; [|apply D2, Hj].
      rewrite (stle_fvs _ _ S2 _ _ D1). discriminate.
  Qed.

  (* ================= the evaluation phase, read back ================= *)
  (* the store is acyclic and in the fragment; the deferred statements are sorted by kind and in the fragment *)
  Definition sacyc (st : list thunk) : Prop := forall i th, nth_error st i = Some th -> thall okfn top (fun l => l < N.of_nat i) th.
  Definition evalable (s : lstate) : Prop :=
    let L := fun l => l < N.of_nat (length (l_store s)) in
    sacyc (l_store s) /\ l_scoped s = [] /\
    Forall (fun st => is_estmt st /\ lsall (fun ea : amap => ea = []) okfn top L st) (l_edges s) /\
    Forall (fun st => is_astmt st /\ lsall (fun ea : amap => ea = []) okfn top L st) (l_attrs s) /\
    Forall (fun st => is_pstmt st /\ lsall (fun ea : amap => ea = []) okfn top L st) (l_prints s).

  (* the denotational summary of a state (what the lemmas of StrictLazy.v / EvalPermLazy.v start from) *)
  Definition denotes (s : lstate) (rho : list value) (eops : list (N * N)) (aopss : list (list aop)) : Prop :=
    store_wf call rho (l_store s) /\ Forall2 (den_edge call rho) (l_edges s) eops /\ Forall2 (den_astmt call rho) (l_attrs s) aopss /\
    Forall (print_ok call rho) (l_prints s).

  Lemma lsall_weaken (L : N -> Prop) st : lsall (fun ea : amap => ea = []) okfn top L st -> sfrag st.
  Proof. apply lsall_impl; auto. intros; exact I. Qed.
  Lemma Forall_kind_weaken (K : lstmt -> Prop) (L : N -> Prop) l :
    Forall (fun st => K st /\ lsall (fun ea : amap => ea = []) okfn top L st) l -> Forall (fun st => K st /\ sfrag st) l.
  Proof. intros H. eapply Forall_impl; [|exact H]. intros st [H1 H2]. split; [exact H1|eapply lsall_weaken; eauto]. Qed.

  Theorem eval_extract F s p u fin p' : evaluate_phase t fl call F s p = Ok (u, fin, p') -> evalable s ->
    exists rho eops aopss g1, denotes s rho eops aopss /\ apply_edges eops (l_graph s) = Some g1 /\ apply_attrs (concat aopss) g1 = Some (l_graph fin).
  Proof.
    intros H (Hac & Hsc & He & Ha & Hp). unfold evaluate_phase in H. unfold bind at 1, get_state at 1 in H.
    apply bind_ok in H as (u1 & s1 & p1 & E1 & H). apply bind_ok in H as (u2 & s2 & p2 & E2 & H). apply bind_ok in H as (u3 & s3 & p3 & E3 & H).
    apply bind_ok in H as (u4 & s4 & p4 & E4 & H).
    assert (Hs0 : sfrag0 (l_store s)).
    { intros i th lv E Es. pose proof (Hac i th E) as Ht. unfold thall in Ht. rewrite Es in Ht. cbn [tsall] in Ht. eapply lvall_impl; [| |exact Ht]; intros; exact I. }
    destruct (edges_A F _ _ _ _ _ _ E1 (Forall_kind_weaken _ _ _ He) Hs0) as (eops & HFe & Hg1 & S1 & K1 & _).
    pose proof (sfrag0_stle _ _ S1 Hs0) as Hs1. destruct K1 as (_ & Sc1 & Ed1 & At1 & Pr1 & _).
    rewrite <- At1 in E2. destruct (attrs_A F _ _ _ _ _ _ E2 ltac:(rewrite At1; exact (Forall_kind_weaken _ _ _ Ha)) Hs1) as (aopss & HFa & Hg2 & S2 & K2).
    pose proof (sfrag0_stle _ _ S2 Hs1) as Hs2. destruct K2 as (_ & Sc2 & Ed2 & At2 & Pr2 & _).
    rewrite <- Pr1, <- Pr2 in E3. destruct (prints_A F _ _ _ _ _ _ E3 ltac:(rewrite Pr2, Pr1; exact (Forall_kind_weaken _ _ _ Hp)) Hs2) as (HFp & G3 & S3 & K3).
    pose proof (sfrag0_stle _ _ S3 Hs2) as Hs3. destruct K3 as (_ & Sc3 & _).
    unfold store_evaluate_all in E4. unfold bind at 1, get_state at 1 in E4.
    destruct (force_list_A F _ _ _ _ _ _ E4 Hs3) as ((G4 & _ & (_ & Sc4 & _)) & S4 & Hall).
    unfold scoped_evaluate_all in H. unfold bind at 1, get_state at 1 in H. rewrite Sc4, Sc3, Sc2, Sc1, Hsc in H. cbn [sort_alist sort_by fold_right map iterM] in H.
    apply ret_ok in H as (_ & -> & _).
    assert (S04 : stle (l_store s) (l_store s4)) by (eapply stle_trans; [exact S1|eapply stle_trans; [exact S2|eapply stle_trans; eauto]]).
    assert (Hlen : length (l_store s4) = length (l_store s)) by apply S04.
    assert (Hlen3 : length (l_store s3) = length (l_store s)).
    { destruct S1 as [L1 _], S2 as [L2 _], S3 as [L3 _]. congruence. }
    set (val := fun th : thunk => match th_state th with TForced v => v | _ => VNull end).
    set (rho := map val (l_store s4)).
    assert (Hrho : forall i v, fvs (l_store s4) i = Some v -> nth_error rho i = Some v).
    { intros i v E. unfold fvs in E. unfold rho. rewrite nth_error_map. destruct (nth_error (l_store s4) i) as [th|]; [|discriminate]. cbn [option_map]. unfold val.
      destruct (th_state th); try discriminate. exact E. }
    assert (Hforced : forall i, (i < length (l_store s))%nat -> fvs (l_store s4) i <> None).
    { intros i Hi. apply Hall. apply in_seq. rewrite Hlen3. lia. }
    assert (Hfull : firstn (length (l_store s)) rho = rho) by (unfold rho; rewrite <- Hlen, <- (map_length val); apply firstn_all).
    assert (Hconv : forall lv v, pden (fvs (l_store s4)) lv v -> lvall okfn top (fun l => l < N.of_nat (length (l_store s))) lv -> den call rho lv v).
    { intros lv v D Hl. rewrite <- Hfull. eapply pden_den; [|exact D|exact Hl]. intros i w _ E. apply Hrho, E. }
    exists rho, eops, aopss, (l_graph s1). split; [|split; [exact Hg1|]].
    2:{ rewrite G4, G3. exact Hg2. }
    split; [|split; [|split]].
    - (* the initial store is well formed for the final values *)
      split; [unfold rho; rewrite map_length; exact Hlen|]. intros i th Hi Eth. destruct (proj2 S04 i th Eth) as (th4 & E4' & _ & T4).
      assert (Hf : fvs (l_store s4) i <> None) by (apply Hforced, Hi). unfold fvs in Hf. rewrite E4' in Hf.
      destruct (th_state th4) as [lv4| |v4] eqn:Est4; try (exfalso; apply Hf; reflexivity).
      exists v4. split; [apply Hrho; unfold fvs; rewrite E4', Est4; reflexivity|].
      pose proof (Hac i th Eth) as Hth. unfold thall in Hth. destruct (th_state th) as [lv| |v0]; cbn [tstep tsall] in *.
      + destruct T4 as [T4|(w & T4 & Hw)]; [discriminate|]. inversion T4; subst w. eapply pden_den; [|exact Hw|exact Hth]. intros j w _ E. apply Hrho, E.
      + discriminate.
      + congruence.
    - (* edge statements *)
      assert (HFe' : Forall2 (pden_edge (fvs (l_store s4))) (l_edges s) eops).
      { eapply Forall2_impl; [|exact HFe]. intros st e. apply pden_edge_mono. apply stle_fvs. eapply stle_trans; [exact S2|eapply stle_trans; eauto]. }
      clear -HFe' He Hconv. induction HFe' as [|st e sts eops (a & b & dbg & -> & Da & Db) _ IH]; [constructor|]. inversion He as [|? ? [_ Hst] Hrest]; subst.
      cbn [lsall] in Hst. destruct Hst as (Ha & Hb & _). constructor; [|apply IH, Hrest]. exists a, b, dbg. split; [reflexivity|]. split; apply Hconv; assumption.
    - (* attribute statements *)
      assert (HFa' : Forall2 (pden_astmt (fvs (l_store s4))) (l_attrs s) aopss).
      { rewrite <- At1. eapply Forall2_impl; [|exact HFa]. intros st e. apply pden_astmt_mono. apply stle_fvs. eapply stle_trans; eauto. }
      assert (Hattrs : forall attrs kvs, pden_attrs (fvs (l_store s4)) attrs kvs -> Forall (atall okfn top (fun l => l < N.of_nat (length (l_store s)))) attrs -> den_attrs call rho attrs kvs).
      { clear -Hconv. intros attrs kvs D. induction D as [|x y l l' [H1 H2] _ IH]; intros Hf; [constructor|]. inversion Hf; subst. constructor; [split; [exact H1|apply Hconv; assumption]|apply IH; assumption]. }
      clear -HFa' Ha Hconv Hattrs. induction HFa' as [|st ops sts aopss D _ IH]; [constructor|]. inversion Ha as [|? ? [_ Hst] Hrest]; subst. constructor; [|apply IH, Hrest].
      destruct st as [n attrs dbg|a b ea dbg|a b attrs dbg|args dbg]; cbn [pden_astmt den_astmt lsall] in *; try contradiction.
      + destruct D as (x & kvs & D1 & D2 & ->). destruct Hst as [Hn Hat]. exists x, kvs. split; [apply Hconv; assumption|]. split; [apply Hattrs; assumption|reflexivity].
      + destruct D as (x & y & kvs & D1 & D1' & D2 & ->). destruct Hst as (Hx & Hy & Hat). exists x, y, kvs. split; [apply Hconv; assumption|]. split; [apply Hconv; assumption|].
        split; [apply Hattrs; assumption|reflexivity].
    - (* print statements *)
      assert (HFp' : Forall (pprint_ok (fvs (l_store s4))) (l_prints s)).
      { rewrite <- Pr1, <- Pr2. eapply Forall_impl; [|exact HFp]. intros st. apply pprint_ok_mono. apply stle_fvs. exact S4. }
      clear -HFp' Hp Hconv. induction HFp' as [|st sts D _ IH]; [constructor|]. inversion Hp as [|? ? [_ Hst] Hrest]; subst. constructor; [|apply IH, Hrest].
      destruct st as [n attrs dbg|a b ea dbg|a b attrs dbg|args dbg]; cbn [pprint_ok print_ok lsall] in *; try contradiction.
      clear -D Hst Hconv. induction D as [|o args D0 _ IH]; [constructor|]. inversion Hst; subst. constructor; [|apply IH; assumption].
      destruct o as [lv|]; [|exact I]. destruct D0 as [v Hv]. exists v. apply Hconv; assumption.
  Qed.

  (* ================= denotations under renaming ================= *)
  (* r renames graph ids (order preserving on D), rl renames store locations; the valuation rho' holds at rl loc the
     renamed value rho holds at loc.  Then a denotation over (D, L) is mapped to a denotation, and its value lies in D. *)
  Lemma den_ren (D L : N -> Prop) r rl rho rho' :
    (forall i j, D i -> D j -> i < j -> r i < r j) ->
    (forall loc w, L loc -> nth_error rho (N.to_nat loc) = Some w -> vall D w /\ nth_error rho' (N.to_nat (rl loc)) = Some (vren r w)) ->
    forall lv v, den call rho lv v -> lvall okfn D L lv -> den call rho' (lvren r rl lv) (vren r v) /\ vall D v.
  Proof.
    intros Hr Hrho. pose proof (smono_cmp_pres D r Hr) as Hcmp.
    apply (den_ind2 call rho (fun lv v => lvall okfn D L lv -> den call rho' (lvren r rl lv) (vren r v) /\ vall D v)).
    - intros v Hv. cbn [lvall lvren] in *. split; [constructor|exact Hv].
    - intros ls vs HF Hl. rewrite lvall_list in Hl.
      assert (G : Forall2 (den call rho') (map (lvren r rl) ls) (map (vren r) vs) /\ Forall (vall D) vs).
      { clear -HF Hl. induction HF as [|l v ls vs [_ IHx] _ IH]; cbn [map]; [split; constructor|]. inversion Hl; subst.
        destruct (IHx ltac:(assumption)) as [A1 A2]. destruct (IH ltac:(assumption)) as [B1 B2]. split; constructor; assumption. }
      destruct G as [G1 G2]. split; [cbn [lvren vren]; constructor; exact G1|rewrite vall_list; exact G2].
    - intros ls vs HF Hl. rewrite lvall_set in Hl.
      assert (G : Forall2 (den call rho') (map (lvren r rl) ls) (map (vren r) vs) /\ Forall (vall D) vs).
      { clear -HF Hl. induction HF as [|l v ls vs [_ IHx] _ IH]; cbn [map]; [split; constructor|]. inversion Hl; subst.
        destruct (IHx ltac:(assumption)) as [A1 A2]. destruct (IH ltac:(assumption)) as [B1 B2]. split; constructor; assumption. }
      destruct G as [G1 G2]. split; [|rewrite vall_set; apply set_of_list_all; exact G2].
      cbn [lvren vren]. rewrite <- (set_of_list_vren D r vs Hcmp G2). constructor. exact G1.
    - intros loc v Hn Hl. cbn [lvall lvren] in *. destruct (Hrho loc v Hl Hn) as [Hv Hn']. split; [constructor; exact Hn'|exact Hv].
    - intros f args vs v HF Hc Hl. rewrite lvall_call in Hl. destruct Hl as [Hf Hl].
      assert (G : Forall2 (den call rho') (map (lvren r rl) args) (map (vren r) vs) /\ Forall (vall D) vs).
      { clear -HF Hl. induction HF as [|l v0 ls vs [_ IHx] _ IH]; cbn [map]; [split; constructor|]. inversion Hl; subst.
        destruct (IHx ltac:(assumption)) as [A1 A2]. destruct (IH ltac:(assumption)) as [B1 B2]. split; constructor; assumption. }
      destruct G as [G1 G2].
      assert (Hc' : forall g, call f g (map (vren r) vs) = Ok (vren r v, g) /\ vall D v).
      { intros g. pose proof (Hcall f Hf D r g g vs G2 Hr) as H. rewrite (Hc g) in H. destruct H as (_ & Hv & H). split; [exact H|exact Hv]. }
      split; [|apply (Hc' []); exact []]. cbn [lvren]. apply (den_call call rho' f _ (map (vren r) vs)); [exact G1|]. intros g. apply Hc'.
  Qed.
End Extract.
