(* Proofs/BlockPermDen.v — C08, part 5: what a SUCCESSFUL evaluation phase of the lazy interpreter computed,
   read back denotationally (the converse of the forcing lemmas of Proofs/SLForce.v, which start from a
   denotation).  If forcing a lazy value returns v, then the value denotes v with respect to the thunks that
   are forced afterwards; forced thunks stay forced with the same value; an unforced thunk either stays as it
   is or is forced to the value its body denotes.  Hence, after a successful evaluation phase on an acyclic
   store, the final values of the thunks form a store valuation rho for which the INITIAL store is well formed
   (`store_wf`), the deferred statements denote graph operations, and the final graph is the result of these
   operations: exactly the hypotheses of the order-independence lemmas (Proofs/EvalPermLazy.v). *)
From TSG Require Import Model.Lazy Proofs.BaseFacts Proofs.Containers Proofs.MonadFacts Proofs.SLGraph Proofs.SLForce Proofs.SLExpr Proofs.SLConv Proofs.SLStmt
  Proofs.BlockPermRen Proofs.BlockPermSim.

Definition top : N -> Prop := fun _ => True.
Lemma vall_top v : vall top v.
Proof.
  induction v as [| | | |l IH|l IH| |n] using value_ind'; try exact I.
  - rewrite vall_list. exact IH.
  - rewrite vall_set. exact IH.
Qed.
Lemma valls_top l : Forall (vall top) l. Proof. apply Forall_forall. intros v _. apply vall_top. Qed.
Lemma map_vren_id l : map (vren (fun i => i)) l = l.
Proof. rewrite <- (map_id l) at 2. apply map_ext. apply vren_idf. Qed.

Lemma nth_error_firstn' {A} (l : list A) k i : (i < k)%nat -> nth_error (firstn k l) i = nth_error l i.
Proof. revert k i. induction l as [|x l IH]; intros [|k] [|i] H; cbn [firstn nth_error]; try reflexivity; try lia. apply IH. lia. Qed.
Lemma Forall2_length' {A B} (R : A -> B -> Prop) l l' : Forall2 R l l' -> length l = length l'.
Proof. induction 1; cbn [length]; congruence. Qed.

(* all fields except the store (and, for statements, the graph and prev) are unchanged *)
Definition keep_rest (ls ls' : lstate) : Prop :=
  l_locals ls' = l_locals ls /\ l_scoped ls' = l_scoped ls /\ l_edges ls' = l_edges ls /\ l_attrs ls' = l_attrs ls /\
  l_prints ls' = l_prints ls /\ l_params ls' = l_params ls.
Definition only_store (ls ls' : lstate) : Prop := l_graph ls' = l_graph ls /\ l_prev ls' = l_prev ls /\ keep_rest ls ls'.
Lemma keep_rest_refl ls : keep_rest ls ls. Proof. repeat split. Qed.
Lemma keep_rest_trans a b c : keep_rest a b -> keep_rest b c -> keep_rest a c.
Proof. intros (A1 & A2 & A3 & A4 & A5 & A6) (B1 & B2 & B3 & B4 & B5 & B6). repeat split; congruence. Qed.
Lemma only_store_refl ls : only_store ls ls. Proof. split; [reflexivity|]. split; [reflexivity|apply keep_rest_refl]. Qed.
Lemma only_store_trans a b c : only_store a b -> only_store b c -> only_store a c.
Proof. intros (A1 & A2 & A3) (B1 & B2 & B3). split; [congruence|]. split; [congruence|eapply keep_rest_trans; eauto]. Qed.

Lemma ldrain_ok base vs k s p : l_params s = base ++ vs -> length vs = k -> ldrain_params k s p = Ok (vs, wparams base s, p).
Proof.
  intros E Hk. unfold ldrain_params, bind, get_state. rewrite E, app_length, Hk.
  destruct (Nat.ltb_spec (length base + k) k) as [Hlt|_]; [exfalso; lia|].
  replace (length base + k - k)%nat with (length base) by lia.
  rewrite firstn_app, firstn_all, Nat.sub_diag, firstn_O, app_nil_r, skipn_app, skipn_all, Nat.sub_diag, skipn_O. reflexivity.
Qed.

Section Extract.
  Variables (t : tree) (fl : file) (call : ident -> graph -> list value -> res (value * graph)).
  Variable okfn : ident -> Prop.
  Hypothesis Hcall : forall f, okfn f -> call_ok call f.

  Lemma call_ok_pure f g args v g1 : okfn f -> call f g args = Ok (v, g1) -> g1 = g /\ forall g', call f g' args = Ok (v, g').
  Proof.
    intros Hf E. split.
    - pose proof (Hcall f Hf top (fun i => i) g g args (valls_top args) (fun i j _ _ H => H)) as H. rewrite E in H. apply H.
    - intros g'. pose proof (Hcall f Hf top (fun i => i) g g' args (valls_top args) (fun i j _ _ H => H)) as H. rewrite E in H.
      destruct H as (_ & _ & H). rewrite map_vren_id, vren_idf in H. exact H.
  Qed.

  Notation frag := (lvall okfn top top).

  (* ---- denotation with respect to a partial valuation of the store ---- *)
  Inductive pden (pv : nat -> option value) : lvalue -> value -> Prop :=
  | pden_value v : pden pv (LValue v) v
  | pden_list ls vs : Forall2 (pden pv) ls vs -> pden pv (LList ls) (VList vs)
  | pden_set ls vs : Forall2 (pden pv) ls vs -> pden pv (LSet ls) (VSet (set_of_list vs))
  | pden_var loc v : pv (N.to_nat loc) = Some v -> pden pv (LVar loc) v
  | pden_call f args vs v : Forall2 (pden pv) args vs -> (forall g, call f g vs = Ok (v, g)) -> pden pv (LCall f args) v.

  Lemma pden_mono pv pv' : (forall i v, pv i = Some v -> pv' i = Some v) -> forall lv v, pden pv lv v -> pden pv' lv v.
  Proof.
    intros Hp. fix IH 3. intros lv v H. destruct H as [v|ls vs HF|ls vs HF|loc v Hn|f args vs v HF Hc].
    - constructor.
    - constructor. revert ls vs HF. fix IHF 3. intros ls vs HF. destruct HF as [|x y l l' Hxy HF]; constructor; [apply IH, Hxy|apply IHF, HF].
    - constructor. revert ls vs HF. fix IHF 3. intros ls vs HF. destruct HF as [|x y l l' Hxy HF]; constructor; [apply IH, Hxy|apply IHF, HF].
    - constructor. apply Hp, Hn.
    - apply (pden_call _ _ _ vs); [|exact Hc]. clear Hc. revert args vs HF. fix IHF 3. intros args vs HF. destruct HF as [|x y l l' Hxy HF]; constructor; [apply IH, Hxy|apply IHF, HF].
  Qed.
  Lemma pdens_mono pv pv' ls vs : (forall i v, pv i = Some v -> pv' i = Some v) -> Forall2 (pden pv) ls vs -> Forall2 (pden pv') ls vs.
  Proof. intros Hp H. induction H; constructor; [eapply pden_mono; eauto|assumption]. Qed.

  (* a partial denotation over locations < k whose values agree with rho is a denotation in the sense of SLForce *)
  Lemma pden_den pv rho k : (forall i v, (i < k)%nat -> pv i = Some v -> nth_error rho i = Some v) ->
    forall lv v, pden pv lv v -> lvall okfn top (fun l => l < N.of_nat k) lv -> den call (firstn k rho) lv v.
  Proof.
    intros Hp. fix IH 3. intros lv v H Hl. destruct H as [v|ls vs HF|ls vs HF|loc v Hn|f args vs v HF Hc].
    - constructor.
    - constructor. rewrite lvall_list in Hl. revert ls vs HF Hl. fix IHF 3. intros ls vs HF Hl. destruct HF as [|x y l l' Hxy HF]; constructor.
      + apply IH; [exact Hxy|]. inversion Hl; assumption.
      + apply IHF; [exact HF|]. inversion Hl; assumption.
    - constructor. rewrite lvall_set in Hl. revert ls vs HF Hl. fix IHF 3. intros ls vs HF Hl. destruct HF as [|x y l l' Hxy HF]; constructor.
      + apply IH; [exact Hxy|]. inversion Hl; assumption.
      + apply IHF; [exact HF|]. inversion Hl; assumption.
    - constructor. cbn [lvall] in Hl. rewrite nth_error_firstn' by lia. apply Hp; [lia|exact Hn].
    - rewrite lvall_call in Hl. destruct Hl as [_ Hl]. apply (den_call _ _ _ _ vs); [|exact Hc]. clear Hc.
      revert args vs HF Hl. fix IHF 3. intros args vs HF Hl. destruct HF as [|x y l l' Hxy HF]; constructor.
      + apply IH; [exact Hxy|]. inversion Hl; assumption.
      + apply IHF; [exact HF|]. inversion Hl; assumption.
  Qed.

  (* ---- the forced part of a store, and how a store evolves ---- *)
  Definition fvs (st : list thunk) : nat -> option value :=
    fun i => match nth_error st i with Some th => match th_state th with TForced v => Some v | _ => None end | None => None end.
  Definition tstep (st' : list thunk) (a b : thunk_state) : Prop :=
    match a with
    | TForced v => b = TForced v
    | TForcing => b = TForcing
    | TUnforced lv => b = TUnforced lv \/ exists w, b = TForced w /\ pden (fvs st') lv w
    end.
  Definition stle (st st' : list thunk) : Prop :=
    length st' = length st /\
    forall i th, nth_error st i = Some th -> exists th', nth_error st' i = Some th' /\ th_dbg th' = th_dbg th /\ tstep st' (th_state th) (th_state th').
  Lemma stle_refl st : stle st st.
  Proof. split; [reflexivity|]. intros i th E. exists th. split; [exact E|]. split; [reflexivity|]. destruct (th_state th); cbn; auto. Qed.
  Lemma stle_fvs st st' : stle st st' -> forall i v, fvs st i = Some v -> fvs st' i = Some v.
  Proof.
    intros [_ H] i v E. unfold fvs in *. destruct (nth_error st i) as [th|] eqn:En; [|discriminate]. destruct (H i th En) as (th' & E' & _ & Ht). rewrite E'.
    destruct (th_state th); try discriminate. inversion E; subst. cbn in Ht. rewrite Ht. reflexivity.
  Qed.
  Lemma stle_trans a b c : stle a b -> stle b c -> stle a c.
  Proof.
    intros [L1 H1] [L2 H2]. split; [congruence|]. intros i th E. destruct (H1 i th E) as (th1 & E1 & D1 & T1). destruct (H2 i th1 E1) as (th2 & E2 & D2 & T2).
    exists th2. split; [exact E2|]. split; [congruence|]. destruct (th_state th) as [lv| |v]; cbn [tstep] in *.
    - destruct T1 as [T1|(w & T1 & Hw)]; rewrite T1 in T2; cbn [tstep] in T2; [exact T2|]. right. exists w. split; [exact T2|].
      eapply pden_mono; [|exact Hw]. apply stle_fvs. split; assumption.
    - rewrite T1 in T2. exact T2.
    - rewrite T1 in T2. exact T2.
  Qed.

  (* the bodies of unforced thunks are in the fragment *)
  Definition sfrag0 (st : list thunk) : Prop := forall i th lv, nth_error st i = Some th -> th_state th = TUnforced lv -> frag lv.
  Lemma sfrag0_stle st st' : stle st st' -> sfrag0 st -> sfrag0 st'.
  Proof.
    intros [L H] Hf i th' lv E' Es. destruct (nth_error st i) as [th|] eqn:En.
    - destruct (H i th En) as (th2 & E2 & _ & T). rewrite E' in E2. inversion E2; subst th2. rewrite Es in T.
      destruct (th_state th) as [lv0| |v] eqn:Est; cbn [tstep] in T; try discriminate.
      destruct T as [T|(w & T & _)]; [|discriminate]. inversion T; subst. eapply Hf; eauto.
    - exfalso. apply nth_error_None in En. assert (i < length st')%nat by (apply nth_error_Some; congruence). lia.
  Qed.

  Notation eval_lv' := (eval_lv t fl call).
  Notation force_thunk' := (force_thunk t fl call).

  Definition evA (F : nat) : Prop := forall lv ls p v ls' p', eval_lv' F lv ls p = Ok (v, ls', p') -> frag lv -> sfrag0 (l_store ls) ->
    only_store ls ls' /\ stle (l_store ls) (l_store ls') /\ pden (fvs (l_store ls')) lv v.
  Definition ftA (F : nat) : Prop := forall loc ls p v ls' p', force_thunk' F loc ls p = Ok (v, ls', p') -> sfrag0 (l_store ls) ->
    only_store ls ls' /\ stle (l_store ls) (l_store ls') /\ fvs (l_store ls') (N.to_nat loc) = Some v.

  Lemma mapM_A F : evA F -> forall es ls p vs ls' p', mapM (eval_lv' F) es ls p = Ok (vs, ls', p') -> Forall frag es -> sfrag0 (l_store ls) ->
    only_store ls ls' /\ stle (l_store ls) (l_store ls') /\ Forall2 (pden (fvs (l_store ls'))) es vs.
  Proof.
    intros Hev. induction es as [|e es IH]; intros ls p vs ls' p' H Hf Hs; cbn [mapM] in H.
    - apply ret_ok in H as (-> & -> & ->). split; [apply only_store_refl|]. split; [apply stle_refl|constructor].
    - inversion Hf as [|? ? Hfe Hfes]; subst. apply bind_ok in H as (v & ls1 & p1 & E1 & H). apply bind_ok in H as (vs1 & ls2 & p2 & E2 & H).
      apply ret_ok in H as (-> & -> & ->). destruct (Hev _ _ _ _ _ _ E1 Hfe Hs) as (O1 & S1 & D1).
      destruct (IH _ _ _ _ _ E2 Hfes (sfrag0_stle _ _ S1 Hs)) as (O2 & S2 & D2).
      split; [eapply only_store_trans; eauto|]. split; [eapply stle_trans; eauto|]. constructor; [|exact D2]. eapply pden_mono; [apply stle_fvs, S2|exact D1].
  Qed.
  Lemma lpush_param_ok v s p u s' p' : lpush_param v s p = Ok (u, s', p') -> s' = wparams (l_params s ++ [v]) s /\ p' = p.
  Proof. unfold lpush_param, bind, get_state, set_lparams, Lazy.upd, modify. intros H. inversion H. auto. Qed.
  Lemma args_A F : evA F -> forall args ls p u ls' p', iterM (fun a => v <- eval_lv' F a ;; lpush_param v) args ls p = Ok (u, ls', p') -> Forall frag args -> sfrag0 (l_store ls) ->
    exists vs, l_params ls' = l_params ls ++ vs /\ l_graph ls' = l_graph ls /\ l_prev ls' = l_prev ls /\ l_locals ls' = l_locals ls /\ l_scoped ls' = l_scoped ls /\
               l_edges ls' = l_edges ls /\ l_attrs ls' = l_attrs ls /\ l_prints ls' = l_prints ls /\
               stle (l_store ls) (l_store ls') /\ Forall2 (pden (fvs (l_store ls'))) args vs.
  Proof.
    intros Hev. induction args as [|e es IH]; intros ls p u ls' p' H Hf Hs; cbn [iterM] in H.
    - apply ret_ok in H as (_ & -> & _). exists []. rewrite app_nil_r. repeat split; try reflexivity; [apply stle_refl|constructor].
    - inversion Hf as [|? ? Hfe Hfes]; subst. apply bind_ok in H as (u1 & ls2 & p2 & E1 & H). apply bind_ok in E1 as (v & ls1 & p1 & E1 & Epush).
      apply lpush_param_ok in Epush as (-> & ->). destruct (Hev _ _ _ _ _ _ E1 Hfe Hs) as ((G1 & Pv1 & L1 & Sc1 & Ed1 & At1 & Pr1 & Pa1) & S1 & D1).
      destruct (IH _ _ _ _ _ H Hfes) as (vs & Pa2 & G2 & Pv2 & L2 & Sc2 & Ed2 & At2 & Pr2 & S2 & D2); [exact (sfrag0_stle _ _ S1 Hs)|].
      cbn [wparams l_params l_graph l_prev l_locals l_scoped l_edges l_attrs l_prints l_store] in *.
      exists (v :: vs). split; [rewrite Pa2, Pa1, <- app_assoc; reflexivity|]. repeat (split; [congruence|]).
      split; [eapply stle_trans; eauto|]. constructor; [|exact D2]. eapply pden_mono; [apply stle_fvs, S2|exact D1].
  Qed.

  Lemma set_state_eq loc st s p : store_set_state loc st s p =
    Ok (tt, wstore (list_update (N.to_nat loc) (fun th => {| th_state := st; th_dbg := th_dbg th |}) (l_store s)) s, p).
  Proof. reflexivity. Qed.

  Lemma evA_all : forall F, evA F /\ ftA F.
  Proof.
    induction F as [|F [IHe IHt]]; [split; intros ? ? ? ? ? ? H; discriminate|]. split.
    - intros lv ls p v ls' p' H Hf Hs. cbn [eval_lv] in H. apply bind_ok in H as (u0 & ls0 & p0 & Epoll & H).
      unfold lpoll in Epoll. apply poll_ok in Epoll as (-> & _ & _).
      destruct lv as [v0|es|es|loc|sc name|f args].
      + apply ret_ok in H as (-> & -> & _). split; [apply only_store_refl|]. split; [apply stle_refl|constructor].
      + apply bind_ok in H as (vs & ls1 & p1 & E1 & H). apply ret_ok in H as (-> & -> & _). rewrite lvall_list in Hf.
        destruct (mapM_A F IHe _ _ _ _ _ _ E1 Hf Hs) as (O & S & D). split; [exact O|]. split; [exact S|]. constructor. exact D.
      + apply bind_ok in H as (vs & ls1 & p1 & E1 & H). apply ret_ok in H as (-> & -> & _). rewrite lvall_set in Hf.
        destruct (mapM_A F IHe _ _ _ _ _ _ E1 Hf Hs) as (O & S & D). split; [exact O|]. split; [exact S|]. constructor. exact D.
      + destruct (IHt _ _ _ _ _ _ H Hs) as (O & S & D). split; [exact O|]. split; [exact S|]. constructor. exact D.
      + cbn [lvall] in Hf. contradiction.
      + rewrite lvall_call in Hf. destruct Hf as [Hok Hargs]. apply bind_ok in H as (u1 & ls1 & p1 & E1 & H). apply bind_ok in H as (ps & ls2 & p2 & E2 & H).
        destruct (args_A F IHe _ _ _ _ _ _ E1 Hargs Hs) as (vs & Pa & G & Pv & L & Sc & Ed & At & Pr & S & D).
        rewrite (ldrain_ok (l_params ls) vs (length args) ls1 p1 Pa (eq_sym (Forall2_length' _ _ _ D))) in E2. inversion E2; subst ps ls2 p2; clear E2.
        unfold lcall_function, bind, get_state in H. cbn [wparams l_graph] in H.
        destruct (call f (l_graph ls1) vs) as [[v1 g1]|e|x|] eqn:Ec; try discriminate.
        destruct (call_ok_pure f _ _ _ _ Hok Ec) as [-> Hall]. unfold set_lgraph, Lazy.upd, modify, ret in H. inversion H; subst v ls' p'; clear H.
        cbn [l_graph l_locals l_store l_scoped l_edges l_attrs l_prints l_params l_prev wparams].
        split; [repeat split; assumption|]. split; [exact S|]. apply (pden_call _ _ _ vs); assumption.
    - intros loc ls p v ls' p' H Hs. cbn [force_thunk] in H. unfold bind at 1, get_state at 1 in H.
      destruct (nth_error (l_store ls) (N.to_nat loc)) as [th|] eqn:Eth; [|discriminate]. apply ctx_wrap_ok in H.
      destruct (th_state th) as [inner| |v0] eqn:Est.
      + apply bind_ok in H as (u1 & ls1 & p1 & E1 & H). rewrite set_state_eq in E1. inversion E1; subst u1 ls1 p1; clear E1.
        apply bind_ok in H as (v1 & ls2 & p2 & E2 & H). apply bind_ok in H as (u3 & ls3 & p3 & E3 & H). apply ret_ok in H as (Ev & -> & _). subst v1.
        rewrite set_state_eq in E3. inversion E3; subst u3 ls3 p3; clear E3.
        set (st1 := list_update (N.to_nat loc) (fun th0 => {| th_state := TForcing; th_dbg := th_dbg th0 |}) (l_store ls)) in *.
        assert (Hs1 : sfrag0 st1).
        { intros i th1 lv E Es. unfold st1 in E. rewrite nth_error_list_update in E. destruct (Nat.eqb_spec i (N.to_nat loc)) as [->|Hne].
          - rewrite Eth in E. cbn in E. inversion E; subst th1. discriminate.
          - eapply Hs; eauto. }
        destruct (IHe _ _ _ _ _ _ E2 (Hs _ _ _ Eth Est) Hs1) as ((G2 & Pv2 & K2) & [L2 S2] & D2). cbn [wstore l_store l_graph l_prev] in *.
        set (st3 := list_update (N.to_nat loc) (fun th0 => {| th_state := TForced v; th_dbg := th_dbg th0 |}) (l_store ls2)) in *.
        assert (Hmono : forall i w, fvs (l_store ls2) i = Some w -> fvs st3 i = Some w).
        { intros i w E. unfold fvs, st3 in *. rewrite nth_error_list_update. destruct (Nat.eqb_spec i (N.to_nat loc)) as [->|Hne]; [|exact E].
          exfalso. destruct (S2 (N.to_nat loc) {| th_state := TForcing; th_dbg := th_dbg th |}) as (th2 & E2' & _ & T2).
          { unfold st1. rewrite nth_error_list_update, Nat.eqb_refl, Eth. reflexivity. }
          rewrite E2' in E. cbn [th_state tstep] in T2. rewrite T2 in E. discriminate. }
        assert (Hloc : exists th2, nth_error (l_store ls2) (N.to_nat loc) = Some th2 /\ th_dbg th2 = th_dbg th).
        { destruct (S2 (N.to_nat loc) {| th_state := TForcing; th_dbg := th_dbg th |}) as (th2 & E2' & Dg & _).
          { unfold st1. rewrite nth_error_list_update, Nat.eqb_refl, Eth. reflexivity. }
          exists th2. auto. }
        destruct Hloc as (th2 & Eloc2 & Dg2).
        split; [split; [exact G2|split; [exact Pv2|exact K2]]|]. split; [split|].
        * unfold st3. rewrite list_update_length, L2. unfold st1. apply list_update_length.
        * intros i th0 E0. destruct (Nat.eq_dec i (N.to_nat loc)) as [->|Hne].
          -- rewrite Eth in E0. inversion E0; subst th0. exists {| th_state := TForced v; th_dbg := th_dbg th2 |}. split.
             ++ unfold st3. rewrite nth_error_list_update, Nat.eqb_refl, Eloc2. reflexivity.
             ++ split; [exact Dg2|]. rewrite Est. cbn [th_state tstep]. right. exists v. split; [reflexivity|]. eapply pden_mono; [exact Hmono|exact D2].
          -- destruct (S2 i th0) as (th3 & E3 & Dg3 & T3); [unfold st1; rewrite nth_error_list_update; destruct (Nat.eqb_spec i (N.to_nat loc)); [contradiction|exact E0]|].
             exists th3. split; [unfold st3; rewrite nth_error_list_update; destruct (Nat.eqb_spec i (N.to_nat loc)); [contradiction|exact E3]|]. split; [exact Dg3|].
             destruct (th_state th0) as [lv0| |w0]; cbn [tstep] in *; try exact T3. destruct T3 as [T3|(w & T3 & Hw)]; [left; exact T3|].
             right. exists w. split; [exact T3|]. eapply pden_mono; [exact Hmono|exact Hw].
        * unfold fvs, st3. rewrite nth_error_list_update, Nat.eqb_refl, Eloc2. reflexivity.
      + discriminate.
      + apply ret_ok in H as (-> & -> & _). split; [apply only_store_refl|]. split; [apply stle_refl|]. unfold fvs. rewrite Eth, Est. reflexivity.
  Qed.
End Extract.
