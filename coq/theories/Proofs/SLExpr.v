(* Proofs/SLExpr.v — C02 (strict/lazy whole-run simulation), part 3: the fragment, the relation between
   the two interpreters' environments, and the simulation of expressions and attributes.
   Whenever the strict evaluation of an expression of the fragment returns v, the lazy "evaluation"
   returns (or runs out of fuel) a lazy value that DENOTES v under a store valuation extending the
   current one; it only touches the thunk store and the local variables. *)
From TSG Require Import Model.Lazy Proofs.BaseFacts Proofs.Containers Proofs.MonadFacts Proofs.SLGraph Proofs.SLForce.

Section AllDef.
  Context {A : Type} (P : A -> Prop).
  Fixpoint All (l : list A) : Prop :=
    match l with [] => True | x :: l' => P x /\ All l' end.
End AllDef.
Lemma All_Forall {A} (P : A -> Prop) l : All P l <-> Forall P l.
Proof. induction l as [|x l IH]; cbn [All]; split; intros H; [constructor|exact I|destruct H; constructor; tauto|inversion H; tauto]. Qed.
Lemma All_In {A} (P : A -> Prop) l x : All P l -> In x l -> P x.
Proof. rewrite All_Forall, Forall_forall. auto. Qed.

(* ---------------- the fragment ---------------- *)
Section Frag.
  Variable okfn : ident -> Prop.        (* function names that may be called *)
  Variable m : qmatch.                  (* the match the code runs on: both capture indices select the same nodes *)

  Fixpoint fexpr (e : expr) : Prop :=
    match e with
    | EList es | ESet es => All fexpr es
    | EListComp elem _ _ value _ | ESetComp elem _ _ value _ => fexpr elem /\ fexpr value
    | ECapture _ _ file_idx stanza_idx _ => nodes_for_capture m stanza_idx = nodes_for_capture m file_idx
    | EScoped _ _ _ => False
    | ECall f args => okfn f /\ All fexpr args
    | _ => True
    end.
  Definition fvar (v : variable) : Prop := match v with VarU _ _ => True | VarS _ _ _ => False end.
  Definition fattr (a : attr) : Prop := match a with Attr _ e => fexpr e end.
  Definition fcond (c : cond) : Prop := match c with CSome e _ | CNone e _ | CBool e _ => fexpr e end.
  Fixpoint fstmt (s : stmt) : Prop :=
    match s with
    | SLet v e _ | SVar v e _ | SSet v e _ => fvar v /\ fexpr e
    | SNode v _ _ => fvar v
    | SAttrNode n attrs _ => fexpr n /\ All fattr attrs
    | SEdge a b _ => fexpr a /\ fexpr b
    | SAttrEdge a b attrs _ => fexpr a /\ fexpr b /\ All fattr attrs
    | SScan v arms _ => fexpr v /\ All (fun arm : N * list stmt * loc => All fstmt (snd (fst arm))) arms
    | SPrint vs _ => All fexpr vs
    | SIf arms _ => All (fun arm : list cond * list stmt * loc => All fcond (fst (fst arm)) /\ All fstmt (snd (fst arm))) arms
    | SFor _ _ v body _ => fexpr v /\ All fstmt body
    end.
End Frag.

(* ---------------- state helpers ---------------- *)
Definition sset_locals (l : varmap value) (s : sstate) : sstate :=
  {| s_graph := s_graph s; s_locals := l; s_scoped := s_scoped s; s_params := s_params s |}.
Definition sset_params (x : list value) (s : sstate) : sstate :=
  {| s_graph := s_graph s; s_locals := s_locals s; s_scoped := s_scoped s; s_params := x |}.
Definition sset_graph (g : graph) (s : sstate) : sstate :=
  {| s_graph := g; s_locals := s_locals s; s_scoped := s_scoped s; s_params := s_params s |}.
Definition lset_locals (x : varmap lvalue) (s : lstate) : lstate :=
  {| l_graph := l_graph s; l_locals := x; l_store := l_store s; l_scoped := l_scoped s; l_edges := l_edges s;
     l_attrs := l_attrs s; l_prints := l_prints s; l_params := l_params s; l_prev := l_prev s |}.

(* strict: graph and parameter buffer untouched *)
Definition SP (s s' : sstate) : Prop := s_graph s' = s_graph s /\ s_params s' = s_params s.
Lemma SP_refl s : SP s s. Proof. split; reflexivity. Qed.
Lemma SP_trans a b c : SP a b -> SP b c -> SP a c. Proof. intros [A1 A2] [B1 B2]. split; congruence. Qed.

(* lazy: only the store, the locals, the parameter buffer may have changed *)
Definition lframe (s s' : lstate) : Prop :=
  l_graph s' = l_graph s /\ l_edges s' = l_edges s /\ l_attrs s' = l_attrs s /\ l_prints s' = l_prints s /\ l_scoped s' = l_scoped s.
Lemma lframe_refl s : lframe s s. Proof. repeat split. Qed.
Lemma lframe_trans a b c : lframe a b -> lframe b c -> lframe a c.
Proof. intros (A1 & A2 & A3 & A4 & A5) (B1 & B2 & B3 & B4 & B5). repeat split; congruence. Qed.
Lemma lframe_set_store st s : lframe s (set_store st s). Proof. repeat split. Qed.
Lemma lframe_set_locals x s : lframe s (lset_locals x s). Proof. repeat split. Qed.

Lemma push_frame_eq s p : push_frame s p = Ok (tt, sset_locals ([] :: s_locals s) s, p). Proof. reflexivity. Qed.
Lemma clear_frame_eq s p : clear_frame s p = Ok (tt, sset_locals (varmap_clear (s_locals s)) s, p). Proof. reflexivity. Qed.
Lemma pop_frame_ok s p u s' p' : pop_frame s p = Ok (u, s', p') -> exists f up, s_locals s = f :: up /\ s' = sset_locals up s /\ p' = p.
Proof. unfold pop_frame, bind, get_state. destruct (s_locals s) as [|f up]; [discriminate|]. intros H; inversion H. eauto. Qed.
Lemma lpush_frame_eq s p : lpush_frame s p = Ok (tt, lset_locals ([] :: l_locals s) s, p). Proof. reflexivity. Qed.
Lemma lclear_frame_eq s p : lclear_frame s p = Ok (tt, lset_locals (varmap_clear (l_locals s)) s, p). Proof. reflexivity. Qed.
Lemma set_llocals_eq x s p : set_llocals x s p = Ok (tt, lset_locals x s, p). Proof. reflexivity. Qed.
Lemma set_locals_eq x s p : set_locals x s p = Ok (tt, sset_locals x s, p). Proof. reflexivity. Qed.

Lemma as_gnode_ok v n : as_gnode v = Ok n -> v = VGraph n.
Proof. destruct v; cbn; try discriminate. intros [= ->]. reflexivity. Qed.

Lemma find_shorthand_In name l sh : find_shorthand name l = Some sh -> In sh l.
Proof.
  induction l as [|s l IH]; cbn [find_shorthand]; [discriminate|]. destruct (find_shorthand name l) as [s'|].
  - intros [= ->]. right. apply IH. reflexivity.
  - destruct (str_eqb name (sh_name s)); [intros [= ->]; left; reflexivity|discriminate].
Qed.

Section Sim.
  Context {rx : Type}.
  Variables (t : tree) (fl : file) (glob : globals) (regexes : list rx)
            (find : rx -> str -> option (list (option (N * N))))
            (call : ident -> graph -> list value -> res (value * graph)).
  Variable okfn : ident -> Prop.

  (* the functions of the fragment do not look at the graph and do not change it *)
  Definition pure_fn (f : ident) : Prop :=
    forall g args v g', call f g args = Ok (v, g') -> g' = g /\ forall g2, call f g2 args = Ok (v, g2).
  Hypothesis Hpure : forall f, okfn f -> pure_fn f.

  Notation den := (den call).
  Notation store_wf := (store_wf call).

  (* ---------------- environments ---------------- *)
  Definition entry_rel (rho : list value) (x : ident * (value * bool)) (y : ident * (lvalue * bool)) : Prop :=
    fst x = fst y /\ snd (snd x) = snd (snd y) /\ den rho (fst (snd y)) (fst (snd x)).
  Definition frame_rel rho := Forall2 (entry_rel rho).
  Definition locals_rel rho := Forall2 (frame_rel rho).
  Definition Renv (rho : list value) (ss : sstate) (ls : lstate) : Prop :=
    store_wf rho (l_store ls) /\ locals_rel rho (s_locals ss) (l_locals ls).

  Lemma frame_rel_mono rho rho' f f' : prefix rho rho' -> frame_rel rho f f' -> frame_rel rho' f f'.
  Proof. intros Hp H. induction H as [|x y f f' (H1 & H2 & H3) _ IH]; constructor; [|exact IH]. repeat split; auto. eapply den_mono; eauto. Qed.
  Lemma locals_rel_mono rho rho' l l' : prefix rho rho' -> locals_rel rho l l' -> locals_rel rho' l l'.
  Proof. intros Hp H. induction H; constructor; [eapply frame_rel_mono; eauto|assumption]. Qed.

  Lemma frame_get rho f f' k : frame_rel rho f f' ->
    match alist_get k f, alist_get k f' with
    | Some (v, mu), Some (lv, mu') => mu = mu' /\ den rho lv v
    | None, None => True
    | _, _ => False
    end.
  Proof.
    intros H. induction H as [|[k1 [v1 m1]] [k2 [lv2 m2]] f f' (H1 & H2 & H3) _ IH]; cbn [alist_get]; [exact I|].
    cbn [fst snd] in *. subst k2 m2. destruct (str_eqb k k1); [split; [reflexivity|exact H3]|exact IH].
  Qed.
  Lemma locals_get rho l l' k v : locals_rel rho l l' -> varmap_get l k = Some v -> exists lv, varmap_get l' k = Some lv /\ den rho lv v.
  Proof.
    intros H. induction H as [|f f' l l' Hf _ IH]; cbn [varmap_get]; [discriminate|].
    pose proof (frame_get rho f f' k Hf) as G. destruct (alist_get k f) as [[v1 m1]|], (alist_get k f') as [[lv2 m2]|]; try contradiction.
    - intros [= ->]. exists lv2. split; [reflexivity|apply G].
    - exact IH.
  Qed.
  Lemma locals_add rho l l' k v lv mu l1 : locals_rel rho l l' -> den rho lv v -> varmap_add l k v mu = inl l1 ->
    exists l1', varmap_add l' k lv mu = inl l1' /\ locals_rel rho l1 l1'.
  Proof.
    intros H Hd. destruct H as [|f f' l l' Hf Hl]; cbn [varmap_add]; [discriminate|].
    pose proof (frame_get rho f f' k Hf) as G. destruct (alist_get k f) as [[v1 m1]|], (alist_get k f') as [[lv2 m2]|]; try contradiction; try discriminate.
    intros [= <-]. eexists. split; [reflexivity|]. constructor; [|exact Hl]. apply Forall2_app; [exact Hf|]. constructor; [|constructor]. repeat split; assumption.
  Qed.
  Lemma frame_set rho f f' k v lv : frame_rel rho f f' -> den rho lv v -> frame_rel rho (alist_set k (v, true) f) (alist_set k (lv, true) f').
  Proof.
    intros H Hd. induction H as [|[k1 [v1 m1]] [k2 [lv2 m2]] f f' (H1 & H2 & H3) Hff IH]; cbn [alist_set].
    - constructor; [|constructor]. repeat split; assumption.
    - cbn [fst snd] in *. subst k2 m2. destruct (str_eqb k k1); constructor; try assumption; unfold entry_rel; cbn [fst snd]; repeat split; try assumption; exact Hff.
  Qed.
  Lemma locals_set rho l l' k v lv l1 : locals_rel rho l l' -> den rho lv v -> varmap_set l k v = inl l1 ->
    exists l1', varmap_set l' k lv = inl l1' /\ locals_rel rho l1 l1'.
  Proof.
    intros H Hd. revert l1. induction H as [|f f' l l' Hf Hl IH]; intros l1; cbn [varmap_set]; [discriminate|].
    pose proof (frame_get rho f f' k Hf) as G. destruct (alist_get k f) as [[v1 m1]|], (alist_get k f') as [[lv2 m2]|]; try contradiction.
    - destruct G as [<- _]. destruct m1; [|discriminate]. intros [= <-]. eexists. split; [reflexivity|]. constructor; [|exact Hl]. apply frame_set; assumption.
    - destruct (varmap_set l k v) as [up|e]; [|discriminate]. intros [= <-]. destruct (IH up eq_refl) as (up' & E & Hup). rewrite E.
      eexists. split; [reflexivity|]. constructor; assumption.
  Qed.
  Lemma locals_clear rho l l' : locals_rel rho l l' -> locals_rel rho (varmap_clear l) (varmap_clear l').
  Proof. intros H. destruct H; cbn [varmap_clear]; constructor; [constructor|assumption]. Qed.

  Lemma Renv_mono_locals rho rho' ss ls x y : Renv rho' ss ls -> prefix rho rho' -> locals_rel rho x y ->
    Renv rho' (sset_locals x ss) (lset_locals y ls).
  Proof. intros [H1 _] Hp H. split; [exact H1|]. eapply locals_rel_mono; eauto. Qed.

  (* result of an expression-level lazy computation, given that the strict one went from ss to ss' with result a *)
  Definition epost {A B} (Q : list value -> B -> A -> Prop) (rho : list value) (a : A) (ss ss' : sstate) (ls : lstate)
    : B -> lstate -> polls -> Prop :=
    fun b ls' pl' => nob pl' /\ SP ss ss' /\ lframe ls ls' /\ exists rho', prefix rho rho' /\ Renv rho' ss' ls' /\ Q rho' b a.
  Definition esim {A B} (Q : list value -> B -> A -> Prop) (ms : M sstate A) (ml : M lstate B) : Prop :=
    forall ss p a ss' p', ms ss p = Ok (a, ss', p') ->
      forall rho ls pl, Renv rho ss ls -> nob pl -> lres (ml ls pl) (epost Q rho a ss ss' ls).
  Definition Qmono {A B} (Q : list value -> B -> A -> Prop) : Prop := forall r r' b a, prefix r r' -> Q r b a -> Q r' b a.
  Definition Qden : list value -> lvalue -> value -> Prop := fun r lv v => den r lv v.
  Definition Qtrue {A B} : list value -> B -> A -> Prop := fun _ _ _ => True.
  Lemma Qden_mono : Qmono Qden. Proof. intros r r' b a Hp H. eapply den_mono; eauto. Qed.
  Lemma Qtrue_mono {A B} : Qmono (@Qtrue A B). Proof. intros r r' b a _ _. exact I. Qed.

  Lemma epost_here {A B} (Q : list value -> B -> A -> Prop) rho a ss ls b pl :
    Renv rho ss ls -> nob pl -> Q rho b a -> epost Q rho a ss ss ls b ls pl.
  Proof. intros HR Hb HQ. split; [exact Hb|]. split; [apply SP_refl|]. split; [apply lframe_refl|]. exists rho. split; [apply prefix_refl|]. auto. Qed.
  (* chaining: the second step started from the first step's result *)
  Lemma epost_chain {C D C' D'} (Q2 : list value -> D -> C -> Prop) (Q3 : list value -> D' -> C' -> Prop)
      rho rho1 c c' ss s1 s2 ls ls1 d d' ls2 pl2 :
    SP ss s1 -> lframe ls ls1 -> prefix rho rho1 ->
    epost Q2 rho1 c s1 s2 ls1 d ls2 pl2 ->
    (forall r, prefix rho1 r -> Q2 r d c -> Q3 r d' c') ->
    epost Q3 rho c' ss s2 ls d' ls2 pl2.
  Proof.
    intros S1 F1 P1 (Hb & S2 & F2 & rho2 & P2 & HR & HQ) Himp. split; [exact Hb|]. split; [eapply SP_trans; eauto|].
    split; [eapply lframe_trans; eauto|]. exists rho2. split; [eapply prefix_trans; eauto|]. split; [exact HR|]. apply Himp; assumption.
  Qed.

  (* traversals of one list by both interpreters *)
  Lemma trav_sim {X A B} (F : X -> M sstate A) (F' : X -> M lstate B) (Q : list value -> B -> A -> Prop) (P : X -> Prop) :
    Qmono Q -> (forall x, P x -> esim Q (F x) (F' x)) ->
    forall l, All P l -> esim (fun r bs as_ => Forall2 (Q r) bs as_) (mapM F l) (mapM F' l).
  Proof.
    intros HQ HF. induction l as [|x l IH]; intros HP ss p as_ ss' p' H rho ls pl HR Hb; cbn [mapM] in *.
    - apply ret_ok in H. destruct H as (-> & -> & ->). apply lres_ret. apply epost_here; [exact HR|exact Hb|constructor].
    - destruct HP as [Px HP]. apply bind_ok in H. destruct H as (a & s1 & p1 & H1 & H).
      apply bind_ok in H. destruct H as (as1 & s2 & p2 & H2 & H). apply ret_ok in H. destruct H as (-> & -> & ->).
      apply lres_bind. eapply lres_mono; [apply (HF x Px _ _ _ _ _ H1 rho ls pl HR Hb)|]. intros b ls1 pl1 (Hb1 & S1 & Hf1 & rho1 & Hp1 & HR1 & Q1).
      apply lres_bind. eapply lres_mono; [apply (IH HP _ _ _ _ _ H2 rho1 ls1 pl1 HR1 Hb1)|]. intros bs ls2 pl2 HP2.
      apply lres_ret. eapply epost_chain; [exact S1|exact Hf1|exact Hp1|exact HP2|].
      intros r Hr HF2. constructor; [apply (HQ rho1 r _ _ Hr Q1)|exact HF2].
  Qed.

  (* ---------------- unscoped variables ---------------- *)
  Lemma unscoped_get_sim name : esim Qden (unscoped_get glob name) (lunscoped_get glob name).
  Proof.
    intros ss p v ss' p' H rho ls pl HR Hb. unfold unscoped_get, lunscoped_get in *. destruct (globals_get glob name) as [gv|].
    - apply ret_ok in H. destruct H as (-> & -> & ->). apply lres_ret. apply epost_here; [exact HR|exact Hb|constructor].
    - unfold bind, get_state in H. destruct (varmap_get (s_locals ss) name) as [v0|] eqn:E; [|discriminate].
      apply ret_ok in H. destruct H as (-> & -> & ->).
      destruct (locals_get rho _ _ name _ (proj2 HR) E) as (lv & El & Hd). apply lres_get. rewrite El. apply lres_ret.
      apply epost_here; [exact HR|exact Hb|exact Hd].
  Qed.

  Lemma store_add_eq lv dbg ls pl :
    store_add lv dbg ls pl = Ok (LVar (N.of_nat (length (l_store ls))), set_store (l_store ls ++ [{| th_state := TUnforced lv; th_dbg := dbg |}]) ls, pl).
  Proof. reflexivity. Qed.

  (* `let`/`var`/`node`/loop variables: the lazy side allocates a thunk for a value that denotes the strict one *)
  Lemma unscoped_add_sim ll name v lv mu ss p u ss' p' rho ls pl :
    unscoped_add glob name v mu ss p = Ok (u, ss', p') -> Renv rho ss ls -> den rho lv v -> nob pl ->
    lres (lunscoped_add glob ll name lv mu ls pl) (epost (@Qtrue unit unit) rho tt ss ss' ls).
  Proof.
    intros H [Hst Hl] Hd Hb. unfold unscoped_add, lunscoped_add in *. destruct (globals_get glob name); [discriminate|].
    unfold bind, get_state in H. destruct (varmap_add (s_locals ss) name v mu) as [l1|e] eqn:E; [|discriminate].
    rewrite set_locals_eq in H. inversion H; subst; clear H.
    apply lres_bind. rewrite store_add_eq. cbn [lres]. apply lres_get. cbn [set_store l_locals].
    destruct (store_wf_add call rho (l_store ls) lv v (ll_ctx ll) Hst Hd) as [Hst' Hd'].
    destruct (locals_add (rho ++ [v]) _ _ name v _ mu l1 (locals_rel_mono _ _ _ _ (prefix_app rho [v]) Hl) Hd' E) as (l1' & E' & Hl').
    rewrite E'. rewrite set_llocals_eq. cbn [lres]. split; [exact Hb|]. split; [split; reflexivity|]. split; [repeat split|].
    exists (rho ++ [v]). split; [apply prefix_app|]. split; [|exact I]. split; [exact Hst'|exact Hl'].
  Qed.
  Lemma unscoped_set_sim ll name v lv ss p u ss' p' rho ls pl :
    unscoped_set glob name v ss p = Ok (u, ss', p') -> Renv rho ss ls -> den rho lv v -> nob pl ->
    lres (lunscoped_set glob ll name lv ls pl) (epost (@Qtrue unit unit) rho tt ss ss' ls).
  Proof.
    intros H [Hst Hl] Hd Hb. unfold unscoped_set, lunscoped_set in *. destruct (globals_get glob name); [discriminate|].
    unfold bind, get_state in H. destruct (varmap_set (s_locals ss) name v) as [l1|e] eqn:E; [|destruct (varmap_get (s_locals ss) name); discriminate].
    rewrite set_locals_eq in H. inversion H; subst; clear H.
    apply lres_bind. rewrite store_add_eq. cbn [lres]. apply lres_get. cbn [set_store l_locals].
    destruct (store_wf_add call rho (l_store ls) lv v (ll_ctx ll) Hst Hd) as [Hst' Hd'].
    destruct (locals_set (rho ++ [v]) _ _ name v _ l1 (locals_rel_mono _ _ _ _ (prefix_app rho [v]) Hl) Hd' E) as (l1' & E' & Hl').
    rewrite E'. rewrite set_llocals_eq. cbn [lres]. split; [exact Hb|]. split; [split; reflexivity|]. split; [repeat split|].
    exists (rho ++ [v]). split; [apply prefix_app|]. split; [|exact I]. split; [exact Hst'|exact Hl'].
  Qed.

  (* ---------------- expressions ---------------- *)
  Variable m : qmatch.
  Definition env_rel (le : lenv) (ll : llenv) : Prop := le_match le = m /\ ll_match ll = m /\ le_caps le = ll_caps ll.
  Notation fexpr' := (fexpr okfn m).

  (* eager evaluation = lazy evaluation, then forcing: exactly the strict value *)
  Definition eager_post (rho : list value) (v : value) (ss ss' : sstate) (ls : lstate) : value -> lstate -> polls -> Prop :=
    fun v' ls' pl' => v' = v /\ epost (@Qtrue unit unit) rho tt ss ss' ls tt ls' pl'.
  Lemma eager_of (ml : M lstate lvalue) F rho v ss ss' ls pl :
    lres (ml ls pl) (epost Qden rho v ss ss' ls) -> lres (bind ml (eval_lv t fl call F) ls pl) (eager_post rho v ss ss' ls).
  Proof.
    intros H. apply lres_bind. eapply lres_mono; [exact H|]. intros lv ls1 pl1 (Hb1 & S1 & Hf1 & rho1 & Hp1 & [Hst1 Hl1] & Hd).
    eapply lres_mono; [apply (force_full call t fl F rho1 lv v ls1 pl1 Hst1 Hd Hb1)|]. intros v' ls2 pl2 (-> & Hb2 & st2 & -> & Hst2).
    split; [reflexivity|]. split; [exact Hb2|]. split; [exact S1|]. split; [eapply lframe_trans; [exact Hf1|apply lframe_set_store]|].
    exists rho1. split; [exact Hp1|]. split; [|exact I]. split; [exact Hst2|exact Hl1].
  Qed.

  Lemma epost_impl {A B A' B'} (Q : list value -> B -> A -> Prop) (Q' : list value -> B' -> A' -> Prop) rho a a' ss ss' ls b b' ls' pl' :
    epost Q rho a ss ss' ls b ls' pl' -> (forall r, Q r b a -> Q' r b' a') -> epost Q' rho a' ss ss' ls b' ls' pl'.
  Proof. intros (Hb & S1 & F1 & rho1 & P1 & HR & HQ) Himp. split; [exact Hb|]. split; [exact S1|]. split; [exact F1|]. exists rho1. auto. Qed.

  Lemma Renv_locals rho ss ls ss' ls' : Renv rho ss ls -> s_locals ss' = s_locals ss -> l_locals ls' = l_locals ls -> l_store ls' = l_store ls -> Renv rho ss' ls'.
  Proof. intros [H1 H2] E1 E2 E3. unfold Renv. rewrite E1, E2, E3. split; assumption. Qed.

  Lemma lpop_frame_sim rho ss ls pl f up : Renv rho ss ls -> s_locals ss = f :: up -> nob pl ->
    lres (lpop_frame ls pl) (epost (@Qtrue unit unit) rho tt ss (sset_locals up ss) ls).
  Proof.
    intros [Hst Hl] E Hb. rewrite E in Hl. inversion Hl as [|f0 f' up0 up' Hf Hup E1 E2]; subst. unfold lpop_frame. apply lres_get. rewrite <- E2.
    rewrite set_llocals_eq. cbn [lres]. split; [exact Hb|]. split; [split; reflexivity|]. split; [repeat split|].
    exists rho. split; [apply prefix_refl|]. split; [|exact I]. split; [exact Hst|exact Hup].
  Qed.

  Lemma push_param_eq v s p : push_param v s p = Ok (tt, sset_params (s_params s ++ [v]) s, p). Proof. reflexivity. Qed.
  Lemma drain_ok base vs s1 p1 ps s2 p2 : s_params s1 = base ++ vs -> drain_params (length vs) s1 p1 = Ok (ps, s2, p2) ->
    ps = vs /\ s2 = sset_params base s1 /\ p2 = p1.
  Proof.
    intros E. unfold drain_params, bind, get_state. rewrite E, app_length.
    destruct (Nat.ltb_spec (length base + length vs) (length vs)) as [Hlt|_]; [exfalso; lia|].
    replace (length base + length vs - length vs)%nat with (length base) by lia.
    rewrite firstn_app, firstn_all, Nat.sub_diag, firstn_O, app_nil_r, skipn_app, skipn_all, Nat.sub_diag, skipn_O. cbn [app].
    unfold set_params, modify, ret. intros H; inversion H. auto.
  Qed.

  (* arguments of a call: strict pushes the values on the parameter buffer, lazy collects the lazy values *)
  Lemma args_sim (ev : expr -> M sstate value) (lev : expr -> M lstate lvalue) :
    forall args, (forall e, In e args -> esim Qden (ev e) (lev e)) ->
    forall ss p u ss' p', iterM (fun a => v <- ev a ;; push_param v) args ss p = Ok (u, ss', p') ->
    forall rho ls pl, Renv rho ss ls -> nob pl ->
      lres (mapM lev args ls pl)
           (fun lvs ls' pl' => nob pl' /\ lframe ls ls' /\ exists rho' vs, prefix rho rho' /\ Renv rho' ss' ls' /\ Forall2 (den rho') lvs vs /\
                                 length vs = length args /\ s_graph ss' = s_graph ss /\ s_params ss' = s_params ss ++ vs).
  Proof.
    induction args as [|a args IH]; intros Hev ss p u ss' p' H rho ls pl HR Hb; cbn [iterM mapM] in *.
    - apply ret_ok in H. destruct H as (-> & -> & ->). apply lres_ret. split; [exact Hb|]. split; [apply lframe_refl|].
      exists rho, []. rewrite app_nil_r. repeat split; try apply HR; try apply prefix_refl. constructor.
    - apply bind_ok in H. destruct H as (u1 & s2 & p2 & Hhd & Htl). apply bind_ok in Hhd. destruct Hhd as (v & s1 & p1 & H1 & Hpush).
      rewrite push_param_eq in Hpush. inversion Hpush; subst; clear Hpush.
      apply lres_bind. eapply lres_mono; [apply (Hev a (or_introl eq_refl) _ _ _ _ _ H1 rho ls pl HR Hb)|].
      intros lv ls1 pl1 (Hb1 & [Sg Sp] & Hf1 & rho1 & Hp1 & HR1 & Q1).
      apply lres_bind.
      assert (HR1' : Renv rho1 (sset_params (s_params s1 ++ [v]) s1) ls1) by exact HR1.
      eapply lres_mono; [apply (IH (fun e He => Hev e (or_intror He)) _ _ _ _ _ Htl rho1 ls1 pl1 HR1' Hb1)|].
      intros lvs ls2 pl2 (Hb2 & Hf2 & rho2 & vs & Hp2 & HR2 & HF & Hlen & Hg & Hps). apply lres_ret.
      split; [exact Hb2|]. split; [eapply lframe_trans; eauto|]. exists rho2, (v :: vs). split; [eapply prefix_trans; eauto|].
      split; [exact HR2|]. split; [constructor; [eapply den_mono; [exact Hp2|exact Q1]|exact HF]|]. split; [cbn [length]; congruence|].
      cbn [sset_params s_graph s_params] in Hg, Hps. split; [congruence|]. rewrite Hps, Sp, <- app_assoc. reflexivity.
  Qed.

  (* comprehensions; K is VList or VSet . set_of_list *)
  Lemma comp_sim (ev : expr -> M sstate value) (lev : expr -> M lstate lvalue) (K : list value -> value) ll F elem var value :
    esim Qden (ev value) (lev value) -> esim Qden (ev elem) (lev elem) ->
    esim (fun r lvs v => exists outs, v = K outs /\ Forall2 (den r) lvs outs)
      (lv <- ev value ;; vals <- lift (as_list lv) ;; push_frame ;;;
       out <- mapM (fun v => clear_frame ;;; unscoped_add glob var v false ;;; ev elem) vals ;; pop_frame ;;; ret (K out))
      (lv <- (lv <- lev value ;; eval_lv t fl call F lv) ;; vals <- lift (as_list lv) ;; lpush_frame ;;;
       out <- mapM (fun v => lclear_frame ;;; lunscoped_add glob ll var (LValue v) false ;;; lev elem) vals ;; lpop_frame ;;; ret out).
  Proof.
    intros Hval Helem ss p r ss' p' H rho ls pl HR Hb.
    apply bind_ok in H. destruct H as (lv0 & s1 & p1 & H1 & H). apply bind_ok in H. destruct H as (vals & s2 & p2 & H2 & H).
    apply lift_ok in H2. destruct H2 as (Hal & -> & ->). apply bind_ok in H. destruct H as (u3 & s3 & p3 & H3 & H).
    rewrite push_frame_eq in H3. inversion H3; subst; clear H3. apply bind_ok in H. destruct H as (out & s4 & p4 & H4 & H).
    apply bind_ok in H. destruct H as (u5 & s5 & p5 & H5 & H). apply ret_ok in H. destruct H as (-> & -> & ->).
    apply pop_frame_ok in H5. destruct H5 as (f & up & El & -> & ->).
    apply lres_bind. eapply lres_mono; [apply (eager_of _ F _ _ _ _ _ _ (Hval _ _ _ _ _ H1 rho ls pl HR Hb))|].
    intros v' ls1 pl1 (-> & Hb1 & S1 & Hf1 & rho1 & Hp1 & HR1 & _).
    apply lres_bind. eapply lres_lift; [exact Hal|]. apply lres_bind. rewrite lpush_frame_eq. cbn [lres].
    assert (HR2 : Renv rho1 (sset_locals ([] :: s_locals s1) s1) (lset_locals ([] :: l_locals ls1) ls1)).
    { destruct HR1 as [A1 A2]. split; [exact A1|]. constructor; [constructor|exact A2]. }
    apply lres_bind.
    assert (Hiter : forall v, True -> esim Qden (fun s p => (clear_frame ;;; unscoped_add glob var v false ;;; ev elem) s p)
                                          (fun s p => (lclear_frame ;;; lunscoped_add glob ll var (LValue v) false ;;; lev elem) s p)).
    { intros v _ ss0 p0 a ss0' p0' H0 rho0 ls0 pl0 HR0 Hb0.
      apply bind_ok in H0. destruct H0 as (u1 & t1 & q1 & G1 & H0). rewrite clear_frame_eq in G1. inversion G1; subst; clear G1.
      apply bind_ok in H0. destruct H0 as (u2 & t2 & q2 & G2 & G3).
      apply lres_bind. rewrite lclear_frame_eq. cbn [lres].
      assert (HRc : Renv rho0 (sset_locals (varmap_clear (s_locals ss0)) ss0) (lset_locals (varmap_clear (l_locals ls0)) ls0)).
      { destruct HR0 as [A1 A2]. split; [exact A1|apply locals_clear, A2]. }
      apply lres_bind. eapply lres_mono; [apply (unscoped_add_sim ll var v (LValue v) false _ _ _ _ _ rho0 _ pl0 G2 HRc (den_value call rho0 v) Hb0)|].
      intros _ ls1' pl1' (Hb1' & S1' & Hf1' & rho1' & Hp1' & HR1' & _).
      eapply lres_mono; [apply (Helem _ _ _ _ _ G3 rho1' ls1' pl1' HR1' Hb1')|]. intros lv ls2' pl2' HP.
      eapply epost_chain; [exact S1'|eapply lframe_trans; [apply lframe_set_locals|exact Hf1']|exact Hp1'|exact HP|]. intros r _ HQ. exact HQ. }
    eapply lres_mono; [apply (trav_sim _ _ Qden (fun _ => True) Qden_mono Hiter vals ltac:(clear; induction vals; cbn; auto) _ _ _ _ _ H4 rho1 _ pl1 HR2 Hb1)|].
    intros lvs ls4 pl4 (Hb4 & S4 & Hf4 & rho4 & Hp4 & HR4 & HF).
    apply lres_bind. eapply lres_mono; [apply (lpop_frame_sim rho4 s4 ls4 pl4 f up HR4 El Hb4)|].
    intros _ ls5 pl5 (Hb5 & S5 & Hf5 & rho5 & Hp5 & HR5 & _). apply lres_ret.
    split; [exact Hb5|]. split; [eapply SP_trans; [exact S1|]; eapply SP_trans; [|exact S5]; eapply SP_trans; [|exact S4]; split; reflexivity|].
    split; [eapply lframe_trans; [exact Hf1|]; eapply lframe_trans; [apply lframe_set_locals|]; eapply lframe_trans; [exact Hf4|exact Hf5]|].
    exists rho5. split; [eapply prefix_trans; [exact Hp1|]; eapply prefix_trans; [exact Hp4|exact Hp5]|]. split; [exact HR5|].
    exists out. split; [reflexivity|]. eapply den_list_mono; [exact Hp5|exact HF].
  Qed.

  Notation eval' := (eval t fl glob call).
  Notation leval' := (leval t fl glob call).

  Lemma eval_sim : forall fuel le ll e, fexpr' e -> env_rel le ll -> forall lf, esim Qden (eval' fuel le e) (leval' lf ll e).
  Proof.
    induction fuel as [|fuel IH]; intros le ll e Hf Henv lf ss p v ss' p' H rho ls pl HR Hb; [discriminate|].
    destruct lf as [|lf]; [exact I|].
    destruct e; cbn [eval] in H; cbn [fexpr] in Hf; cbn [leval].
    - apply ret_ok in H. destruct H as (-> & -> & ->). apply lres_ret. apply epost_here; [exact HR|exact Hb|constructor].
    - apply ret_ok in H. destruct H as (-> & -> & ->). apply lres_ret. apply epost_here; [exact HR|exact Hb|constructor].
    - apply ret_ok in H. destruct H as (-> & -> & ->). apply lres_ret. apply epost_here; [exact HR|exact Hb|constructor].
    - apply ret_ok in H. destruct H as (-> & -> & ->). apply lres_ret. apply epost_here; [exact HR|exact Hb|constructor].
    - apply ret_ok in H. destruct H as (-> & -> & ->). apply lres_ret. apply epost_here; [exact HR|exact Hb|constructor].
    - (* list *)
      apply bind_ok in H. destruct H as (vs & s1 & p1 & H1 & H). apply ret_ok in H. destruct H as (-> & -> & ->).
      apply lres_bind. eapply lres_mono; [apply (trav_sim _ _ Qden fexpr' Qden_mono (fun x Px => IH le ll x Px Henv lf) es Hf _ _ _ _ _ H1 rho ls pl HR Hb)|].
      intros lvs ls1 pl1 HP. apply lres_ret. eapply epost_impl; [exact HP|]. intros r HF. constructor. exact HF.
    - (* set *)
      apply bind_ok in H. destruct H as (vs & s1 & p1 & H1 & H). apply ret_ok in H. destruct H as (-> & -> & ->).
      apply lres_bind. eapply lres_mono; [apply (trav_sim _ _ Qden fexpr' Qden_mono (fun x Px => IH le ll x Px Henv lf) es Hf _ _ _ _ _ H1 rho ls pl HR Hb)|].
      intros lvs ls1 pl1 HP. apply lres_ret. eapply epost_impl; [exact HP|]. intros r HF. constructor. exact HF.
    - (* list comprehension *)
      destruct Hf as [Hfe Hfv]. apply lres_bind.
      eapply lres_mono; [apply (comp_sim (eval' fuel le) (leval' lf ll) VList ll _ e1 var e2 (IH le ll e2 Hfv Henv lf) (IH le ll e1 Hfe Henv lf) _ _ _ _ _ H rho ls pl HR Hb)|].
      intros lvs ls1 pl1 HP. apply lres_ret. eapply epost_impl; [exact HP|]. intros r (outs & -> & HF). constructor. exact HF.
    - (* set comprehension *)
      destruct Hf as [Hfe Hfv]. apply lres_bind.
      eapply lres_mono; [apply (comp_sim (eval' fuel le) (leval' lf ll) (fun o => VSet (set_of_list o)) ll _ e1 var e2 (IH le ll e2 Hfv Henv lf) (IH le ll e1 Hfe Henv lf) _ _ _ _ _ H rho ls pl HR Hb)|].
      intros lvs ls1 pl1 HP. apply lres_ret. eapply epost_impl; [exact HP|]. intros r (outs & -> & HF). constructor. exact HF.
    - (* capture *)
      apply lift_ok in H. destruct H as (Hfn & -> & ->). destruct Henv as (E1 & E2 & E3). rewrite E1 in Hfn. rewrite E2, <- Hf.
      apply lres_bind. eapply lres_lift; [exact Hfn|]. apply lres_ret. apply epost_here; [exact HR|exact Hb|constructor].
    - (* unscoped variable *) apply (unscoped_get_sim name _ _ _ _ _ H rho ls pl HR Hb).
    - contradiction.
    - (* call *)
      destruct Hf as [Hok Hargs].
      apply bind_ok in H. destruct H as (u & s1 & p1 & H1 & H). apply bind_ok in H. destruct H as (ps & s2 & p2 & H2 & H3).
      apply lres_bind.
      eapply lres_mono; [apply (args_sim (eval' fuel le) (leval' lf ll) args (fun e He => IH le ll e (All_In _ _ _ Hargs He) Henv lf) _ _ _ _ _ H1 rho ls pl HR Hb)|].
      intros lvs ls1 pl1 (Hb1 & Hf1 & rho1 & vs & Hp1 & HR1 & HF & Hlen & Hg1 & Hps1). apply lres_ret.
      rewrite <- Hlen in H2. destruct (drain_ok _ _ _ _ _ _ _ Hps1 H2) as (-> & -> & ->).
      unfold call_function, bind, get_state in H3. cbn [sset_params s_graph] in H3.
      destruct (call f (s_graph s1) vs) as [[v0 g']|e0|x0|] eqn:Ec; try discriminate.
      unfold set_graph, modify, ret in H3. inversion H3; subst; clear H3.
      destruct (Hpure f Hok _ _ _ _ Ec) as [-> Hall].
      split; [exact Hb1|]. split; [split; cbn [s_graph s_params sset_params]; [exact Hg1|reflexivity]|]. split; [exact Hf1|].
      exists rho1. split; [exact Hp1|]. split; [exact HR1|]. apply (den_call call rho1 f lvs vs v HF Hall).
    - (* regex capture *)
      destruct Henv as (E1 & E2 & E3). rewrite <- E3. destruct (nth_error (le_caps le) (N.to_nat i)) as [s0|]; [|discriminate].
      apply ret_ok in H. destruct H as (-> & -> & ->). apply lres_ret. apply epost_here; [exact HR|exact Hb|constructor].
  Qed.

  (* conditions, scan subjects, loop lists: the lazy interpreter forces them and gets the strict value *)
  Lemma leager_sim fuel le ll e lf ss p v ss' p' rho ls pl : fexpr' e -> env_rel le ll ->
    eval' fuel le e ss p = Ok (v, ss', p') -> Renv rho ss ls -> nob pl ->
    lres (leager t fl glob call lf ll e ls pl) (eager_post rho v ss ss' ls).
  Proof. intros Hf Henv H HR Hb. unfold leager. apply eager_of. apply (eval_sim fuel le ll e Hf Henv lf _ _ _ _ _ H rho ls pl HR Hb). Qed.
End Sim.
