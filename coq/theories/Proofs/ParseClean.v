(* Proofs/ParseClean.v — the identifiers of a parsed file contain no character below U+0020.
   Identifier characters are `_`, `-` and alphanumerics (is_ident_start / is_ident of Model/Parser.v): below 128 these are
   ASCII letters, digits, `_`, `-` (all >= 45), and the external Unicode tables are only consulted for code points >= 128 —
   so NO hypothesis on the tables is needed (is_ident_ge32, Proofs/ParseLoc.v).  The expression level is in Proofs/ParseLoc.v
   (`mp ec ..`); here the statement level: every statement of a parsed file, at any depth, satisfies stmt_names_cleanb
   (Model/AstDisplay.v), the hypothesis of display_stmt_single_line_checked_partial. *)
From TSG Require Import Model.AstDisplay.
From TSG Require Import Model.Parser Proofs.BaseFacts Proofs.ParseLoc Proofs.ParseLocStmt.

(* a wrapper that unification does not see through (the facts are looked up by eauto) *)
Inductive cleanfact (b : bool) : Prop := CF (H : b = true).
Lemma cleanfact_inv b : cleanfact b -> b = true.
Proof. intros [H]. exact H. Qed.
Definition ifarm_cleanb (arm : list cond * list stmt * loc) : bool :=
  forallb clean_strb (flat_map cond_names (fst (fst arm))) && forallb stmt_names_cleanb (block_stmts (snd (fst arm))).
Definition scan_stmts (arms : list (N * list stmt * loc)) : list stmt :=
  flat_map (fun arm : N * list stmt * loc => block_stmts (snd (fst arm))) arms.

(* rec: parse_statement one level down *)
Definition scl (rec : M stmt) : Prop :=
  forall s st s', rec s = ROk st s' -> cleanfact (forallb stmt_names_cleanb (st :: substmts st)).

Create HintDb cdb discriminated.

(* the equations are looked at one at a time (the others hidden), so that eauto can only use the one in question *)
Inductive hide (P : Prop) : Prop := Hide (H : P).
Ltac cfacts :=
  repeat match goal with E : _ _ = ROk _ _ |- _ => apply Hide in E end;
  repeat match goal with
         | E : hide (?m ?s = ROk ?a ?s') |- _ =>
             destruct E as [E];
             first [ match goal with Hr : scl m |- _ => apply Hr in E; apply cleanfact_inv in E end
                   | let C := fresh "C" in
                     eassert (C : cleanfact _) by (eauto 2 with cdb nocore); apply cleanfact_inv in C; clear E
                   | clear E ]
         end.
Ltac csolve :=
  repeat match goal with H : cleanfact _ |- _ => apply cleanfact_inv in H end;
  try apply CF;
  unfold ifarm_cleanb, scan_stmts, block_stmts, ec, ecs, vc, acs, ccs in *; cbn [flat_map fst snd] in *;
  rewrite ?app_nil_r in *; rewrite ?forallb_app in *; cbn [forallb] in *;
  repeat match goal with H : _ /\ _ |- _ => destruct H end;
  repeat match goal with H : _ && _ = true |- _ => apply andb_true_iff in H; destruct H end;
  repeat (apply andb_true_iff; split); try assumption; try reflexivity.

Lemma flat_clean st : substmts st = [] -> forallb clean_strb (stmt_names st) = true ->
  cleanfact (forallb stmt_names_cleanb (st :: substmts st)).
Proof. intros -> H. apply CF. cbn [forallb]. unfold stmt_names_cleanb. rewrite H. reflexivity. Qed.
Lemma scan_clean v arms l : ec v -> forallb stmt_names_cleanb (scan_stmts arms) = true ->
  cleanfact (forallb stmt_names_cleanb (SScan v arms l :: substmts (SScan v arms l))).
Proof.
  intros H1 H2. apply CF. cbn [forallb]. apply andb_true_iff. split; [exact H1|exact H2].
Qed.
Lemma for_clean v vl e body l : clean_strb v = true -> ec e -> forallb stmt_names_cleanb (block_stmts body) = true ->
  cleanfact (forallb stmt_names_cleanb (SFor v vl e body l :: substmts (SFor v vl e body l))).
Proof.
  intros H1 H2 H3. apply CF. cbn [forallb]. apply andb_true_iff. split; [|exact H3].
  unfold stmt_names_cleanb. cbn [stmt_names forallb]. apply andb_true_iff. split; [exact H1|exact H2].
Qed.
Lemma if_clean arms l : forallb ifarm_cleanb arms = true ->
  cleanfact (forallb stmt_names_cleanb (SIf arms l :: substmts (SIf arms l))).
Proof.
  intros H. apply CF. cbn [forallb]. apply andb_true_iff. split.
  - unfold stmt_names_cleanb. cbn [stmt_names]. induction arms as [|a r IH]; [reflexivity|].
    cbn [forallb flat_map] in *. apply andb_true_iff in H. destruct H as [Ha Hr].
    unfold ifarm_cleanb in Ha. apply andb_true_iff in Ha. destruct Ha as [H1 H2].
    rewrite forallb_app. apply andb_true_iff. split; [exact H1|exact (IH Hr)].
  - cbn [substmts]. induction arms as [|a r IH]; [reflexivity|].
    cbn [forallb flat_map] in *. apply andb_true_iff in H. destruct H as [Ha Hr].
    unfold ifarm_cleanb in Ha. apply andb_true_iff in Ha. destruct Ha as [H1 H2].
    rewrite forallb_app. apply andb_true_iff. split; [exact H2|exact (IH Hr)].
Qed.

Section StmtClean.
  Variable X : ext.
  Variable F : nat.

  Hint Resolve assignment_tail_mp print_loop_mp regex_step_mp parse_shorthand_mp parse_global_mp : mp.

  Section Body.
    Variable rec : M stmt.
    Hypothesis Hrec : scl rec.

    Lemma statements_loop_c k : forall s l s',
      statements_loop X F rec k s = ROk l s' -> cleanfact (forallb stmt_names_cleanb (block_stmts l)).
    Proof.
      induction k as [|k IH]; intros s l s' H; [discriminate|]. cbn [statements_loop] in H.
      binv H. ifs H; [binv H; apply CF; reflexivity|]. binvs H. cfacts. csolve.
    Qed.
    Hint Resolve statements_loop_c : cdb.
    Lemma parse_statements_c s l s' :
      parse_statements X F rec s = ROk l s' -> cleanfact (forallb stmt_names_cleanb (block_stmts l)).
    Proof. unfold parse_statements. intros H. binvs H. cfacts. apply CF. exact C. Qed.
    Hint Resolve parse_statements_c : cdb.

    Lemma scan_arms_loop_c kl k : forall s arms s',
      scan_arms_loop X F rec kl k s = ROk arms s' -> cleanfact (forallb stmt_names_cleanb (scan_stmts arms)).
    Proof.
      induction k as [|k IH]; intros s arms s' H; [discriminate|]. cbn [scan_arms_loop] in H.
      binv H. ifs H; [binv H; apply CF; reflexivity|]. binvs H. cfacts. csolve.
    Qed.
    Hint Resolve scan_arms_loop_c : cdb.

    Lemma elif_loop_c k : forall l0 s arms s',
      elif_loop X F rec k l0 s = ROk arms s' -> cleanfact (forallb ifarm_cleanb arms).
    Proof.
      induction k as [|k IH]; intros l0 s arms s' H; [discriminate|]. cbn [elif_loop] in H.
      apply if_ok_inv in H. destruct H as [(u & s0 & E & H)|H]; [|binv H; apply CF; reflexivity].
      mfact E. binvs H. cfacts. apply CF. cbn [forallb]. csolve.
    Qed.
    Hint Resolve elif_loop_c : cdb.

    Lemma statement_body_c : scl (statement_body X F rec).
    Proof.
      intros s st s' H. unfold statement_body in H. binv H. binv H. binv H.
      ifs H. { binvs H. cfacts. apply flat_clean; [reflexivity|]. cbn [stmt_names]. csolve. }
      ifs H. { binvs H. cfacts. apply flat_clean; [reflexivity|]. cbn [stmt_names]. csolve. }
      ifs H. { binvs H. cfacts. apply flat_clean; [reflexivity|]. cbn [stmt_names]. csolve. }
      ifs H. { binvs H. cfacts. apply flat_clean; [reflexivity|]. cbn [stmt_names]. csolve. }
      ifs H. { binvs H. cfacts. apply flat_clean; [reflexivity|]. cbn [stmt_names]. csolve. }
      ifs H.
      { binv H. binv H. binv H. binv H. binv H.
        ifs H; binvs H; cfacts; (apply flat_clean; [reflexivity|]); cbn [stmt_names]; csolve. }
      ifs H. { binvs H. cfacts. apply flat_clean; [reflexivity|]. cbn [stmt_names]. csolve. }
      ifs H. { binvs H. cfacts. apply scan_clean; [assumption|exact C]. }
      ifs H.
      { binvs H.
        match goal with
        | Hel : if_ok _ _ _ _ = ROk _ _ |- _ =>
            apply if_ok_inv in Hel; destruct Hel as [(u & sx & Eu & Hel)|Hel]; [mfact Eu; binvs Hel|binv Hel]
        end;
        cfacts; apply if_clean; cbn [forallb]; rewrite forallb_app; cbn [forallb]; csolve. }
      ifs H. { binvs H. cfacts. apply for_clean; [assumption|assumption|exact C]. }
      binv H.
    Qed.
  End Body.

  Lemma parse_statement_n_c n : scl (parse_statement_n X F n).
  Proof.
    induction n as [|n IH]; intros s st s' H; [discriminate|]. cbn [parse_statement_n] in H.
    revert H. apply statement_body_c. intros s1 st1 s1' H1. exact (IH _ _ _ H1).
  Qed.
  Lemma parse_stanza_statements_c s l s' :
    parse_stanza_statements X F s = ROk l s' -> cleanfact (forallb stmt_names_cleanb (block_stmts l)).
  Proof. apply parse_statements_c. apply parse_statement_n_c. Qed.
  Hint Resolve parse_stanza_statements_c : cdb.

  Definition acc_stmts (a : facc) : list stmt := flat_map (fun st => block_stmts (st_stmts st)) (a_stanzas a).

  Lemma parse_stanza_c s p s' :
    parse_stanza X F s = ROk p s' -> forallb stmt_names_cleanb (block_stmts (st_stmts (fst p))) = true.
  Proof. unfold parse_stanza. intros H. binvs H. cfacts. cbn [fst st_stmts]. exact C. Qed.

  Lemma file_loop_c k : forall a s a' s',
    file_loop X F k a s = ROk a' s' ->
    forallb stmt_names_cleanb (acc_stmts a) = true -> forallb stmt_names_cleanb (acc_stmts a') = true.
  Proof.
    induction k as [|k IH]; intros a s a' s' H Hc; [discriminate|]. cbn [file_loop] in H.
    destruct (p_rest s) as [|c r]; [injection H as <- <-; exact Hc|].
    apply bind_inv in H. destruct H as (a1 & s1 & Hstep & H). binv H.
    refine (IH _ _ _ _ H _). clear H IH.
    apply if_ok_inv in Hstep. destruct Hstep as [(u & s2 & E0 & H)|Hstep].
    { mfact E0. binvs H. exact Hc. }
    apply if_ok_inv in Hstep. destruct Hstep as [(u & s2 & E0 & H)|Hstep].
    { mfact E0. binvs H. exact Hc. }
    apply if_ok_inv in Hstep. destruct Hstep as [(u & s2 & E0 & H)|Hstep].
    { mfact E0. binvs H. exact Hc. }
    apply bind_inv in Hstep. destruct Hstep as (p & s2 & Ep & Hstep). binv Hstep. apply parse_stanza_c in Ep.
    unfold acc_stmts in *. cbn [a_stanzas]. rewrite flat_map_app, forallb_app, Hc. cbn [flat_map]. rewrite app_nil_r. exact Ep.
  Qed.

  Lemma parse_into_file_c s a s' :
    parse_into_file X F s = ROk a s' -> forallb stmt_names_cleanb (acc_stmts a) = true.
  Proof.
    unfold parse_into_file. intros H. binv H.
    apply bind_inv in H. destruct H as (a1 & s1 & Hf & H).
    apply file_loop_c in Hf; [|reflexivity].
    destruct (x_merged X (a_query_source a1)) as [[|]|]; try discriminate. binv H. exact Hf.
  Qed.
End StmtClean.

Lemma parsed_names_clean_lemma X fuel text f pats :
  parse X fuel text = POk f pats -> forallb stmt_names_cleanb (file_stmts f) = true.
Proof.
  unfold parse. destruct (parse_into_file X fuel (init_state text)) as [a s| e | n | |] eqn:E; try discriminate.
  - intros H. injection H as <- _. apply parse_into_file_c in E. exact E.
  - destruct (error_obs e) as [[v l] p]. discriminate.
Qed.
