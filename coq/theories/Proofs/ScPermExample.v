(* Proofs/ScPermExample.v — C08 WITH scoped variables: a two-stanza program in the fragment of Proofs/ScPermSim.v in which the
   READER of a scoped variable precedes its DEFINER in one order and follows it in the other:
       (module) @m { node n  attr (n) r = @m.d  edge n -> @m.d }          reads  @m.d
       (module) @m { node @m.d  attr (@m.d) k = (plus 1 2) }              defines @m.d
   Both orders succeed; the two graphs differ (n = 0, @m.d = 1 versus @m.d = 0, n = 1) and are isomorphic under 0 <-> 1.
   The hypotheses of lazy_run_perm_scoped hold for it. *)
From Coq Require Import Permutation.
From TSG Require Import Model.Run Model.Stdlib Proofs.K7 Proofs.SLExpr Proofs.EvalPerm
  Proofs.BlockPermRen Proofs.BlockPermGraph Proofs.BlockPermEval Proofs.BlockPermStd Proofs.BlockPermExample
  Proofs.ScPermSim Proofs.ScPermSwap Proofs.ScPermExec Proofs.ScPermRun.
Open Scope N_scope.

Definition sx_cap : expr := ECapture [109] QOne 0 0 c8_l0.
Definition sx_file : file :=
  {| f_globals := []; f_inherited := []; f_shorthands := [];
     f_stanzas := [
       {| st_stmts := [SNode (VarU [110] c8_l0) [110] c8_l0; SAttrNode (c8_va 110) [Attr [114] (EScoped sx_cap [100] c8_l0)] c8_l0; SEdge (c8_va 110) (EScoped sx_cap [100] c8_l0) c8_l0];
          st_full_stanza_idx := 0; st_full_file_idx := 0; st_start := c8_l0 |};
       {| st_stmts := [SNode (VarS sx_cap [100] c8_l0) [100] c8_l0; SAttrNode (EScoped sx_cap [100] c8_l0) [Attr [107] (ECall Lit.plus [EInt 1; EInt 2])] c8_l0];
          st_full_stanza_idx := 0; st_full_file_idx := 0; st_start := c8_l0 |} ] |}.
(* c8_ms = reader first, c8_ms' = definer first *)
Definition sx_g : graph :=
  [ {| g_attrs := [([114], VGraph 1)]; g_edges := [(1, [])] |}; {| g_attrs := [([107], VInt 3)]; g_edges := [] |} ].
Definition sx_g' : graph :=
  [ {| g_attrs := [([107], VInt 3)]; g_edges := [] |}; {| g_attrs := [([114], VGraph 0)]; g_edges := [(0, [])] |} ].
Definition sx_r (i : N) : N := match i with 0 => 1 | 1 => 0 | _ => i end.

Lemma sx_run : lgraph_of (run_lazy k7_tree sx_file config0 [[]] None ([] : list regex) rx_captures c8_call default_fuel c8_ms []) = Ok sx_g.
Proof. vm_compute. reflexivity. Qed.
Lemma sx_run' : lgraph_of (run_lazy k7_tree sx_file config0 [[]] None ([] : list regex) rx_captures c8_call default_fuel c8_ms' []) = Ok sx_g'.
Proof. vm_compute. reflexivity. Qed.
Lemma sx_differ : sx_g <> sx_g'. Proof. discriminate. Qed.
Lemma sx_iso : graph_iso sx_r sx_g sx_g'.
Proof.
  split; [reflexivity|]. intros i nd E.
  assert (Hi : i = 0 \/ i = 1).
  { assert (N.to_nat i < 2)%nat by (change 2%nat with (length sx_g); apply nth_error_Some; congruence). lia. }
  destruct Hi as [ -> | -> ]; cbn in E; inversion E; subst nd; clear E; (eexists; split; [reflexivity|]); cbn [g_attrs g_edges].
  - split; [intros k; reflexivity|]. intros b. destruct b as [|[p|p|]]; cbn; try exact I. intros k. reflexivity.
  - split; [intros k; reflexivity|]. intros b. cbn [edges_get]. exact I.
Qed.

(* the hypotheses of the theorem are satisfiable on this program *)
Lemma sx_blocks_ok : Forall (pm_ok2 sx_file c8_okfn) c8_ms.
Proof.
  unfold c8_ms. constructor; [|constructor; [|constructor]]; intros st E; vm_compute in E; inversion E; subst st; (split; [|apply Forall_nil]); cbn [All st_stmts sstmt svar mexpr mattr fexpr is_capture sx_cap c8_va].
  - split; [exact I|]. split; [split; [left; exact I|split; [|exact I]]; right; split; [right; left; reflexivity|reflexivity]|].
    split; [|exact I]. split; [left; exact I|]. right. left. reflexivity.
  - split; [split; [exact I|reflexivity]|]. split; [|exact I]. split; [right; left; reflexivity|]. split; [|exact I]. left. split; [reflexivity|]. repeat split.
Qed.
Lemma sx_closed : gclosed (N.of_nat (length (@nil gnode))) []. Proof. constructor. Qed.
Lemma sx_run_state : exists ls p, run_lazy k7_tree sx_file config0 [[]] None ([] : list regex) rx_captures c8_call default_fuel c8_ms [] = Ok (ls, p) /\ l_graph ls = sx_g.
Proof. eexists. eexists. split; [vm_compute; reflexivity|reflexivity]. Qed.

Example sx_theorem_applies :
  exists r r', (forall i, r' (r i) = i) /\ (forall i, r (r' i) = i) /\
    exists fuel0, forall fuel', (fuel0 <= fuel')%nat -> exists ls' p',
      run_lazy k7_tree sx_file config0 [[]] None ([] : list regex) rx_captures c8_call fuel' c8_ms' [] = Ok (ls', p') /\ graph_iso r sx_g (l_graph ls').
Proof.
  destruct sx_run_state as (ls & p & E & Hg).
  destruct (lazy_run_perm_scoped k7_tree sx_file [[]] [] rx_captures c8_call c8_okfn c8_call_ok [] sx_closed c8_globals_ok default_fuel c8_ms c8_ms' ls p
              (perm_swap _ _ _) sx_blocks_ok E) as (r & r' & I1 & I2 & _ & F0 & HF).
  exists r, r'. split; [exact I1|]. split; [exact I2|]. exists F0. intros F HF0. destruct (HF F HF0) as (ls' & p' & E' & Hiso). exists ls', p'. split; [exact E'|]. rewrite <- Hg. exact Hiso.
Qed.
