(* Proofs/LocSimEval.v — the evaluation side of the lazy interpreter (eval_lv / force_thunk / force_scoped,
   eval_lstmt, evaluate_phase) is invariant under erasing the stored statement contexts (Proofs/LocSim.v). *)
From TSG Require Import Model.Lazy Model.LocErase Proofs.LocSim.

Definition eprevN (x : N * stmt_ctx) : N * stmt_ctx := (fst x, ectx (snd x)).

Section Eval.
  Variable t : tree.
  Variables fl fl' : file.
  Variable call : ident -> graph -> list value -> res (value * graph).
  Hypothesis Hinh : f_inherited fl' = f_inherited fl.

  Lemma linherited_eq name : linherited fl' name = linherited fl name.
  Proof. unfold linherited. rewrite Hinh. reflexivity. Qed.

  Lemma sim_force_pairs ev ev' : (forall scope, simeq (ev scope) (ev' scope)) ->
    forall ps values dbgs, simeq (force_pairs ev ps values dbgs) (force_pairs ev' (map epair ps) values (map eprevN dbgs)).
  Proof.
    intros Hev. induction ps as [|[[scope v] dbg] ps IH]; intros values dbgs; cbn [map force_pairs epair fst snd]; [apply sim_ret; reflexivity|].
    eapply sim_bind; [apply sim_ctx, sim_ctx, Hev|]. intros n n' <-.
    destruct (nmap_get values n).
    - unfold eprevN. rewrite dbg_get_map. destruct (dbg_get dbgs n); cbn [option_map]; [apply sim_fail_in|apply sim_panic].
    - replace (map eprevN dbgs ++ [(n, ectx dbg)]) with (map eprevN (dbgs ++ [(n, dbg)])) by (rewrite map_app; reflexivity). apply IH.
  Qed.

  Lemma sim_eval_all : forall fuel,
    (forall lv, simeq (eval_lv t fl call fuel lv) (eval_lv t fl' call fuel lv)) /\
    (forall loc, simeq (force_thunk t fl call fuel loc) (force_thunk t fl' call fuel loc)) /\
    (forall name cell, simeq (force_scoped t fl call fuel name cell) (force_scoped t fl' call fuel name (ecell cell))).
  Proof.
    induction fuel as [|fuel (IHe & IHt & IHs)]; [repeat split; intros; apply sim_oof|].
    repeat split.
    - intros lv. destruct lv; cbn [eval_lv]; (eapply sim_bind; [apply sim_lpoll|intros _ _ _]).
      + apply sim_ret. reflexivity.
      + eapply sim_bind; [apply sim_mapM_same, IHe|]. intros vs vs' <-. apply sim_ret. reflexivity.
      + eapply sim_bind; [apply sim_mapM_same, IHe|]. intros vs vs' <-. apply sim_ret. reflexivity.
      + apply IHt.
      + eapply sim_bind.
        { apply sim_ctx. eapply sim_bind; [apply IHe|]. intros sv sv' <-. apply sim_lift. }
        intros n n' <-. eapply sim_bind; [apply sim_cell_get|]. intros c c' ->.
        destruct c as [cell|]; cbn [option_map]; [|apply sim_fail].
        eapply sim_bind; [apply (sim_cell_set name SVForcing)|]. intros _ _ _.
        eapply sim_bind; [apply IHs|]. intros map map' <-. cbv zeta.
        eapply sim_bind; [apply (sim_cell_set name (SVForced map))|]. intros _ _ _.
        rewrite linherited_eq.
        match goal with |- sim _ (match ?x with _ => _ end) _ => destruct x end; [apply IHe|apply sim_fail].
      + eapply sim_bind.
        { apply sim_iterM_same. intros a. eapply sim_bind; [apply IHe|]. intros v v' <-. apply sim_lpush_param. }
        intros _ _ _. eapply sim_bind; [apply sim_ldrain_params|]. intros ps ps' <-. apply sim_lcall_function.
    - intros loc. cbn [force_thunk]. apply sim_get_bind. intros s. change (l_store (estate s)) with (map ethunk (l_store s)).
      rewrite nth_error_map. destruct (nth_error (l_store s) (N.to_nat loc)) as [th|]; cbn [option_map]; [|apply sim_panic].
      apply sim_ctx. change (th_state (ethunk th)) with (th_state th). destruct (th_state th).
      + eapply sim_bind; [apply sim_store_set_state|]. intros _ _ _. eapply sim_bind; [apply IHe|]. intros v v' <-.
        eapply sim_bind; [apply sim_store_set_state|]. intros _ _ _. apply sim_ret. reflexivity.
      + apply sim_fail.
      + apply sim_ret. reflexivity.
    - intros name cell. cbn [force_scoped]. destruct cell as [pairs| |map]; cbn [ecell]; [|apply sim_fail|apply sim_ret; reflexivity].
      apply (sim_force_pairs _ _) with (dbgs := []). intros scope. eapply sim_bind; [apply IHe|]. intros sv sv' <-. apply sim_lift.
  Qed.
  Lemma sim_eval_lv fuel lv : simeq (eval_lv t fl call fuel lv) (eval_lv t fl' call fuel lv).
  Proof. apply sim_eval_all. Qed.
  Lemma sim_force_thunk fuel loc : simeq (force_thunk t fl call fuel loc) (force_thunk t fl' call fuel loc).
  Proof. apply sim_eval_all. Qed.
  Lemma sim_force_scoped fuel name cell : simeq (force_scoped t fl call fuel name cell) (force_scoped t fl' call fuel name (ecell cell)).
  Proof. apply sim_eval_all. Qed.

  Lemma sim_eval_as_gnode fuel lv : simeq (eval_as_gnode t fl call fuel lv) (eval_as_gnode t fl' call fuel lv).
  Proof. unfold eval_as_gnode. eapply sim_bind; [apply sim_eval_lv|]. intros v v' <-. apply sim_lift. Qed.

  Lemma sim_eval_lstmt fuel st : simeq (eval_lstmt t fl call fuel st) (eval_lstmt t fl' call fuel (elstmt st)).
  Proof.
    unfold eval_lstmt. eapply sim_bind; [apply sim_lpoll|]. intros _ _ _. destruct st; cbn [elstmt]; apply sim_ctx.
    - eapply sim_bind; [apply sim_ctx, sim_eval_as_gnode|]. intros n n' <-. apply sim_iterM_same. intros a.
      eapply sim_bind; [apply sim_eval_lv|]. intros v v' <-. eapply sim_bind; [apply sim_prev_insert|]. intros prev prev' _.
      apply sim_lattr_node_add.
    - eapply sim_bind; [apply sim_ctx, sim_eval_as_gnode|]. intros a a' <-.
      eapply sim_bind; [apply sim_ctx, sim_eval_as_gnode|]. intros b b' <-. apply sim_ledge_add.
    - eapply sim_bind; [apply sim_ctx, sim_eval_as_gnode|]. intros a a' <-.
      eapply sim_bind; [apply sim_ctx, sim_eval_as_gnode|]. intros b b' <-. apply sim_iterM_same. intros ak.
      eapply sim_bind; [apply sim_eval_lv|]. intros v v' <-. eapply sim_bind; [apply sim_ledge_exists|]. intros ex ex' <-.
      destruct ex; [|apply sim_fail]. eapply sim_bind; [apply sim_prev_insert|]. intros prev prev' _. apply sim_lattr_edge_add.
    - apply sim_iterM_same. intros [lv|]; [|apply sim_ret; reflexivity].
      eapply sim_bind; [apply sim_eval_lv|]. intros v v' <-. apply sim_ret. reflexivity.
  Qed.

  Lemma sim_store_evaluate_all fuel : simeq (store_evaluate_all t fl call fuel) (store_evaluate_all t fl' call fuel).
  Proof.
    unfold store_evaluate_all. apply sim_get_bind. intros s. change (l_store (estate s)) with (map ethunk (l_store s)). rewrite map_length.
    apply sim_iterM_same. intros i. eapply sim_bind; [apply sim_force_thunk|]. intros v v' <-. apply sim_ret. reflexivity.
  Qed.
  Lemma sim_scoped_evaluate_all fuel : simeq (scoped_evaluate_all t fl call fuel) (scoped_evaluate_all t fl' call fuel).
  Proof.
    unfold scoped_evaluate_all. apply sim_get_bind. intros s. change (l_scoped (estate s)) with (map enamed (l_scoped s)).
    rewrite sorted_keys_enamed. apply sim_iterM_same. intros name.
    eapply sim_bind; [apply sim_cell_get|]. intros c c' ->. destruct c as [cell|]; cbn [option_map]; [|apply sim_ret; reflexivity].
    eapply sim_bind; [apply (sim_cell_set name SVForcing)|]. intros _ _ _.
    eapply sim_bind; [apply sim_force_scoped|]. intros map map' <-. apply (sim_cell_set name (SVForced map)).
  Qed.
  Lemma sim_evaluate_phase fuel : simeq (evaluate_phase t fl call fuel) (evaluate_phase t fl' call fuel).
  Proof.
    unfold evaluate_phase. apply sim_get_bind. intros s.
    change (l_edges (estate s)) with (map elstmt (l_edges s)). change (l_attrs (estate s)) with (map elstmt (l_attrs s)).
    change (l_prints (estate s)) with (map elstmt (l_prints s)).
    eapply sim_bind; [apply sim_iterM, sim_eval_lstmt|]. intros _ _ _.
    eapply sim_bind; [apply sim_iterM, sim_eval_lstmt|]. intros _ _ _.
    eapply sim_bind; [apply sim_iterM, sim_eval_lstmt|]. intros _ _ _.
    eapply sim_bind; [apply sim_store_evaluate_all|]. intros _ _ _. apply sim_scoped_evaluate_all.
  Qed.
End Eval.
