(* Proofs/SLExample.v — C02: a concrete program in the fragment of Proofs/StrictLazy.v on which both
   interpreters succeed with a non-empty graph (nodes, edges, node and edge attributes, a mutable local
   variable, a stdlib call, a shorthand, `for`, `if`, `scan`, `print`, a list comprehension).
       attribute sh = v => k2 = v
       (module (expression_statement (identifier) @x)) @_m
       { node a  node b  var c = (plus 1 2)  set c = (plus c 1)  edge a -> b  attr (a -> b) w = c
         attr (a) k = [c, @x], sh = 5
         for v in [1, 2] { node d  edge d -> a  attr (d) i = v }
         if some @x { attr (b) t = #true }
         scan "ab" { "(a)" { node e  attr (e) txt = $1 } "b" { print $0 } }
         print "s", c
         attr (b) l = [ (plus y 1) for y in [1, 2] ] } *)
From TSG Require Import Model.Run Model.Stdlib Proofs.K7 Proofs.SLExpr Proofs.StrictLazy.
Open Scope N_scope.

Definition l0 : loc := (0, 0).
Definition va (s : N) : expr := EUnscoped [s] l0.
Definition ex_plus (a b : expr) : expr := ECall Lit.plus [a; b].
Definition ex_file : file :=
  {| f_globals := []; f_inherited := [];
     f_shorthands := [{| sh_name := [115;104]; sh_var := [118]; sh_vloc := l0; sh_attrs := [Attr [107;50] (va 118)]; sh_loc := l0 |}];
     f_stanzas := [{|
       st_stmts := [
         SNode (VarU [97] l0) [97] l0;
         SNode (VarU [98] l0) [98] l0;
         SVar (VarU [99] l0) (ex_plus (EInt 1) (EInt 2)) l0;
         SSet (VarU [99] l0) (ex_plus (va 99) (EInt 1)) l0;
         SEdge (va 97) (va 98) l0;
         SAttrEdge (va 97) (va 98) [Attr [119] (va 99)] l0;
         SAttrNode (va 97) [Attr [107] (EList [va 99; ECapture [120] QOne 0 0 l0]); Attr [115;104] (EInt 5)] l0;
         SFor [118] l0 (EList [EInt 1; EInt 2])
           [SNode (VarU [100] l0) [100] l0; SEdge (va 100) (va 97) l0; SAttrNode (va 100) [Attr [105] (va 118)] l0] l0;
         SIf [([CSome (ECapture [120] QOne 0 0 l0) l0], [SAttrNode (va 98) [Attr [116] ETrue] l0], l0)] l0;
         SScan (EStr [97;98])
           [(0, [SNode (VarU [101] l0) [101] l0; SAttrNode (va 101) [Attr [116;120;116] (ERegexCap 1)] l0], l0);
            (1, [SPrint [ERegexCap 0] l0], l0)] l0;
         SPrint [EStr [115]; va 99] l0;
         SAttrNode (va 98) [Attr [108] (EListComp (ex_plus (va 121) (EInt 1)) [121] l0 (EList [EInt 1; EInt 2]) l0)] l0 ];
       st_full_stanza_idx := 1; st_full_file_idx := 1; st_start := l0 |}] |}.
Definition ex_regexes : list regex := [RGrp 1 (RChr 97); RChr 98].
Definition ex_matches : list (list qmatch) := [[[(0, [2]); (1, [0])]]].
Definition ex_okfn (f : ident) : Prop := f = Lit.plus.

Lemma ex_pure : forall f, ex_okfn f -> pure_fn (the_call k7_tree []) f.
Proof. intros f ->. apply stdlib_pure_fn. vm_compute. discriminate. Qed.

Lemma ex_file_ok : file_ok ex_okfn ex_file (f_stanzas ex_file) ex_matches.
Proof.
  cbn [file_ok ex_file f_stanzas ex_matches]. split; [|exact I]. constructor; [|constructor].
  unfold match_ok, ex_okfn. cbn. repeat split; try reflexivity; try discriminate.
  repeat constructor.
Qed.

Definition ex_graph : graph :=
  [ {| g_attrs := [([107], VList [VInt 4; VSyn 2]); ([107;50], VInt 5)]; g_edges := [(1, [([119], VInt 4)])] |};
    {| g_attrs := [([116], VBool true); ([108], VList [VInt 2; VInt 3])]; g_edges := [] |};
    {| g_attrs := [([105], VInt 1)]; g_edges := [(0, [])] |};
    {| g_attrs := [([105], VInt 2)]; g_edges := [(0, [])] |};
    {| g_attrs := [([116;120;116], VStr [97])]; g_edges := [] |} ].

Lemma ex_strict_ok :
  graph_of (run_strict k7_tree ex_file config0 [[]] None ex_regexes rx_captures (the_call k7_tree []) default_fuel ex_matches []) = Ok ex_graph.
Proof. vm_compute. reflexivity. Qed.
Lemma ex_lazy_ok :
  lgraph_of (run_lazy k7_tree ex_file config0 [[]] None ex_regexes rx_captures (the_call k7_tree []) default_fuel (lmatches_of ex_matches) []) = Ok ex_graph.
Proof. vm_compute. reflexivity. Qed.
