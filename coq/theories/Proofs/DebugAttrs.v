(* Proofs/DebugAttrs.v — C15 (correctness half): the attributes a `node` / `edge` statement records
   when debug attributes are configured. *)
From TSG Require Import Model.Strict Model.Lazy Proofs.BaseFacts Proofs.MonadFacts Proofs.Containers.

Lemma graph_update_at g n f nd : gnode_at g n = Some nd -> gnode_at (graph_update g n f) n = Some (f nd).
Proof. unfold gnode_at, graph_update. intros H. rewrite nth_error_list_update, Nat.eqb_refl, H. reflexivity. Qed.

(* adding a fresh attribute name to a node *)
Lemma add_attr_node_fresh n k v s p nd :
  gnode_at (s_graph s) n = Some nd -> alist_get k (g_attrs nd) = None ->
  exists s', add_attr (TNode n) k v s p = Ok (tt, s', p) /\
    s_graph s' = graph_update (s_graph s) n (with_attrs (g_attrs nd ++ [(k, v)])) /\
    s_locals s' = s_locals s /\ s_scoped s' = s_scoped s /\ s_params s' = s_params s.
Proof.
  intros Hn Hk. unfold add_attr, bind, get_state. rewrite Hn. unfold attrs_add. rewrite Hk.
  eexists. split; [reflexivity|]. cbn. auto.
Qed.

Section NodeDebug.
  Variables (a_loc a_var a_match : ident).
  Hypothesis Hd1 : a_loc <> a_var.
  Hypothesis Hd2 : a_loc <> a_match.
  Hypothesis Hd3 : a_var <> a_match.
  Let cfg := {| c_loc_attr := Some a_loc; c_var_attr := Some a_var; c_match_attr := Some a_match |}.

  (* the three debug attributes of a freshly created graph node: variable text, 1-based line/column of
     the variable, and the syntax node matched by the stanza *)
  Lemma node_debug_attrs_lemma n s p vtext vloc mn :
    gnode_at (s_graph s) n = Some new_gnode ->
    exists s',
      (opt_attr (TNode n) (c_var_attr cfg) (VStr vtext) ;;;
       opt_attr (TNode n) (c_loc_attr cfg) (VStr (loc_text vloc)) ;;;
       add_attr (TNode n) a_match (VSyn mn)) s p = Ok (tt, s', p) /\
      gnode_at (s_graph s') n = Some {| g_attrs := [(a_var, VStr vtext); (a_loc, VStr (loc_text vloc)); (a_match, VSyn mn)]; g_edges := [] |} /\
      length (s_graph s') = length (s_graph s).
  Proof.
    intros Hn. cbn [cfg c_var_attr c_loc_attr opt_attr].
    destruct (add_attr_node_fresh n a_var (VStr vtext) s p new_gnode Hn eq_refl) as (s1 & E1 & G1 & _).
    assert (Hn1 : gnode_at (s_graph s1) n = Some (with_attrs ([] ++ [(a_var, VStr vtext)]) new_gnode)) by (rewrite G1; apply graph_update_at, Hn).
    destruct (add_attr_node_fresh n a_loc (VStr (loc_text vloc)) s1 p _ Hn1) as (s2 & E2 & G2 & _).
    { cbn. destruct (str_eqb_spec a_loc a_var); [contradiction|reflexivity]. }
    assert (Hn2 : gnode_at (s_graph s2) n = Some (with_attrs ([(a_var, VStr vtext)] ++ [(a_loc, VStr (loc_text vloc))]) (with_attrs ([] ++ [(a_var, VStr vtext)]) new_gnode))).
    { rewrite G2. apply graph_update_at, Hn1. }
    destruct (add_attr_node_fresh n a_match (VSyn mn) s2 p _ Hn2) as (s3 & E3 & G3 & _).
    { cbn. destruct (str_eqb_spec a_match a_var); [congruence|]. destruct (str_eqb_spec a_match a_loc); [congruence|reflexivity]. }
    exists s3. split; [|split].
    - unfold bind. rewrite E1, E2. exact E3.
    - rewrite G3. erewrite graph_update_at; [|exact Hn2]. reflexivity.
    - rewrite G3, G2, G1. unfold graph_update. rewrite !list_update_length. reflexivity.
  Qed.
End NodeDebug.

(* without debug configuration a `node` statement records nothing on the node *)
Lemma no_debug_no_attrs tgt v s p : opt_attr tgt None v s p = Ok (tt, s, p).
Proof. reflexivity. Qed.

(* lazy: a NEW edge gets exactly the location attribute computed when the `edge` statement executed;
   an existing edge keeps the attributes it has *)
Lemma ledge_add_attrs a b ea s p nd :
  gnode_at (l_graph s) a = Some nd -> edges_wf (g_edges nd) ->
  exists s', ledge_add a b ea s p = Ok (tt, s', p) /\
    match edges_get b (g_edges nd) with
    | Some old => exists nd', gnode_at (l_graph s') a = Some nd' /\ edges_get b (g_edges nd') = Some old
    | None => exists nd', gnode_at (l_graph s') a = Some nd' /\ edges_get b (g_edges nd') = Some ea
    end.
Proof.
  intros Hn Hw. unfold ledge_add, bind, get_state, graph_add_edge. rewrite Hn.
  pose proof (edges_add_spec b (g_edges nd) Hw) as S. destruct (edges_add b (g_edges nd)) as [isnew es] eqn:Ea.
  destruct S as (Hw' & Hnew & Hget & _).
  destruct (edges_get b (g_edges nd)) as [old|] eqn:Eb.
  - assert (isnew = false) by (destruct isnew; [assert (true = true) as Ht by reflexivity; apply Hnew in Ht; congruence|reflexivity]). subst.
    eexists. split; [reflexivity|]. cbn [l_graph]. exists (with_edges es nd). split; [apply graph_update_at, Hn|]. cbn. rewrite Hget, N.eqb_refl. reflexivity.
  - assert (isnew = true) by (apply Hnew; reflexivity). subst.
    eexists. split; [reflexivity|]. cbn [l_graph].
    exists (with_edges (edges_set b ea es) (with_edges es nd)). split.
    + rewrite (graph_update_at _ a _ (with_edges es nd)); [reflexivity|apply graph_update_at, Hn].
    + cbn. rewrite edges_get_set; [rewrite N.eqb_refl; reflexivity|exact Hw'|]. rewrite Hget, N.eqb_refl. discriminate.
Qed.
