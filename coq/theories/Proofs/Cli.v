(* Proofs/Cli.v — facts about the decision logic of the command-line tool (Model/Cli.v).
   clap, anyhow and tree-sitter-loader are outside the model (see the header of Model/Cli.v): every
   statement below is about `cli`, a function of already-parsed options and of the library's results,
   and holds for ALL values of the non-boolean parameters (raw --global texts, path ids, graph ids,
   parse-error counts, the execution oracle, the file-creation oracle). *)
From TSG Require Import Model.Cli Proofs.BaseFacts.

(* ---- str::split_once('=') ---- *)
Lemma split_once_eq_spec_lemma : forall s k v,
  split_once_eq s = Some (k, v) <-> s = k ++ 61 :: v /\ ~ In 61 k.
Proof.
  induction s as [|c s IH]; intros k v; cbn [split_once_eq].
  - split; [discriminate|]. intros [H _]. destruct k; discriminate.
  - destruct (N.eqb_spec c 61) as [->|Hc].
    + split.
      * intros [= <- <-]. split; [reflexivity | intros []].
      * intros [H Hn]. destruct k as [|c' k]; cbn [app] in H.
        -- injection H as ->. reflexivity.
        -- injection H as <- _. exfalso. apply Hn. left. reflexivity.
    + destruct (split_once_eq s) as [[k' v']|] eqn:E.
      * split.
        -- intros [= <- <-]. destruct (proj1 (IH k' v') eq_refl) as [-> Hn].
           split; [reflexivity|]. intros [H|H]; [congruence | auto].
        -- intros [H Hn]. destruct k as [|c' k]; cbn [app] in H.
           ++ injection H as -> _. congruence.
           ++ injection H as <- H.
              assert (E' : Some (k', v') = Some (k, v)).
              { apply IH. split; [exact H|]. intros Hin. apply Hn. right. exact Hin. }
              injection E' as -> ->. reflexivity.
      * split; [discriminate|]. intros [H Hn]. destruct k as [|c' k]; cbn [app] in H.
        -- injection H as -> _. congruence.
        -- injection H as <- H. exfalso.
           assert (E' : None = Some (k, v)).
           { apply IH. split; [exact H|]. intros Hin. apply Hn. right. exact Hin. }
           discriminate.
Qed.

Lemma split_once_eq_none_lemma : forall s, split_once_eq s = None <-> ~ In 61 s.
Proof.
  induction s as [|c s IH]; cbn [split_once_eq In].
  - split; [intros _ [] | reflexivity].
  - destruct (N.eqb_spec c 61) as [->|Hc].
    + split; [discriminate|]. intros H. exfalso. apply H. left. reflexivity.
    + destruct (split_once_eq s) as [[k v]|].
      * split; [discriminate|]. intros H. exfalso.
        assert (Hs : ~ In 61 s) by (intros Hin; apply H; right; exact Hin).
        apply IH in Hs. discriminate.
      * split; [|reflexivity]. intros _ [H|H]; [congruence|]. apply (proj1 IH eq_refl). exact H.
Qed.

(* ---- the --global loop ---- *)
Definition as_string_pairs (kvs : list (ident * str)) : gframe :=
  map (fun kv => (fst kv, VStr (snd kv))) kvs.

Lemma as_string_pairs_keys kvs : map fst (as_string_pairs kvs) = map fst kvs.
Proof. unfold as_string_pairs. rewrite map_map. reflexivity. Qed.

Lemma map_some_nil {A} (l : list A) : [] = map Some l -> l = [].
Proof. destruct l; [reflexivity | discriminate]. Qed.

Lemma parse_globals_frame : forall l f up g,
  parse_globals (f :: up) l = Some g <->
  exists kvs, map split_once_eq l = map Some kvs /\ NoDup (map fst kvs) /\
              (forall k, In k (map fst kvs) -> ~ In k (map fst f)) /\
              g = (f ++ as_string_pairs kvs) :: up.
Proof.
  induction l as [|kv l IH]; intros f up g; cbn [parse_globals].
  - split.
    + intros [= <-]. exists []. cbn [map as_string_pairs]. rewrite app_nil_r.
      repeat split; [constructor | intros k []].
    + intros (kvs & Hm & _ & _ & ->). cbn [map] in Hm. apply map_some_nil in Hm. subst kvs.
      cbn [as_string_pairs map]. rewrite app_nil_r. reflexivity.
  - destruct (split_once_eq kv) as [[k v]|] eqn:Es.
    + unfold globals_add. destruct (alist_get k f) as [old|] eqn:Eg.
      * split; [discriminate|]. intros (kvs & Hm & _ & Hf & _). exfalso.
        destruct kvs as [|p kvs]; cbn [map] in Hm; [discriminate|].
        rewrite Es in Hm. injection Hm as <- _.
        assert (Hin : In k (map fst f)).
        { apply alist_get_In in Eg. apply in_map_iff. exists (k, old). split; [reflexivity | exact Eg]. }
        exact (Hf k (or_introl eq_refl) Hin).
      * rewrite IH. apply alist_get_None in Eg. split.
        -- intros (kvs & Hm & Hnd & Hf & ->). exists ((k, v) :: kvs). cbn [map fst].
           split; [rewrite Hm, Es; reflexivity|]. split; [|split].
           ++ constructor; [|exact Hnd]. intros Hin. apply (Hf k Hin).
              rewrite map_app, in_app_iff. right. left. reflexivity.
           ++ intros k0 [<-|Hin]; [exact Eg|]. intros Hin'. apply (Hf k0 Hin).
              rewrite map_app, in_app_iff. left. exact Hin'.
           ++ cbn [as_string_pairs map fst snd]. rewrite <- app_assoc. reflexivity.
        -- intros (kvs & Hm & Hnd & Hf & ->).
           destruct kvs as [|p kvs]; cbn [map] in Hm; [discriminate|].
           rewrite Es in Hm. injection Hm as <- Hm. cbn [map fst] in Hnd, Hf.
           inversion Hnd as [|? ? Hnotin Hnd']; subst.
           exists kvs. split; [exact Hm|]. split; [exact Hnd'|]. split.
           ++ intros k0 Hin. rewrite map_app, in_app_iff. cbn [map fst In].
              intros [H|[H|[]]]; [exact (Hf k0 (or_intror Hin) H) | subst k0; exact (Hnotin Hin)].
           ++ cbn [as_string_pairs map fst snd]. rewrite <- app_assoc. reflexivity.
    + split; [discriminate|]. intros (kvs & Hm & _). destruct kvs; cbn [map] in Hm; [discriminate|]. rewrite Es in Hm. discriminate.
Qed.

(* the loop succeeds exactly when every argument contains '=' and the names are pairwise distinct;
   the result binds each name to Value::String(value), in command-line order *)
Lemma parse_globals_spec_lemma : forall l g,
  parse_globals globals_new l = Some g <->
  exists kvs, map split_once_eq l = map Some kvs /\ NoDup (map fst kvs) /\ g = string_globals kvs.
Proof.
  intros l g. unfold globals_new. rewrite parse_globals_frame. split.
  - intros (kvs & Hm & Hnd & _ & ->). exists kvs. repeat split; assumption.
  - intros (kvs & Hm & Hnd & ->). exists kvs. repeat split; try assumption. intros k _ [].
Qed.

Lemma map_some_inj {A} (a b : list A) : map Some a = map Some b -> a = b.
Proof.
  revert b; induction a as [|x a IH]; intros [|y b]; cbn [map]; try discriminate; [reflexivity|].
  intros [= -> H]. f_equal. auto.
Qed.

(* ---- case analysis of main() ---- *)
Definition sel_stdout (o : options) (g : N) : stdout_class :=
  if o_json o then match o_output o with Some _ => SNothing | None => SJson g end
  else if o_quiet o then SNothing else SPretty g.
Definition sel_file (o : options) (g : N) : file_class :=
  if o_json o then match o_output o with Some _ => FJson g | None => FNothing end
  else FNothing.

Inductive cli_case (o : options) (lib : lib_results) : Prop :=
| CaseUsage : usage_error o = true -> cli o lib = cli_fail Exit2 -> cli_case o lib
| CaseGlobals : usage_error o = false -> parse_globals globals_new (o_globals o) = None ->
    cli o lib = cli_fail Exit1 -> cli_case o lib
| CaseLater gl : usage_error o = false -> parse_globals globals_new (o_globals o) = Some gl ->
    (lr_load lib = LoadRejected \/
     (lr_load lib = LoadOk /\ o_allow o = false /\ lr_parse_errors lib <> 0) \/
     (lr_load lib = LoadOk /\ (lr_parse_errors lib = 0 \/ o_allow o = true) /\ lr_exec lib (o_lazy o) gl = ExecErr) \/
     (lr_load lib = LoadOk /\ (lr_parse_errors lib = 0 \/ o_allow o = true) /\
      (exists g, lr_exec lib (o_lazy o) gl = ExecOk g) /\ output_blocked o lib = true)) ->
    cli o lib = cli_fail Exit1 -> cli_case o lib
| CaseOk gl g : usage_error o = false -> parse_globals globals_new (o_globals o) = Some gl ->
    lr_load lib = LoadOk -> (lr_parse_errors lib = 0 \/ o_allow o = true) ->
    lr_exec lib (o_lazy o) gl = ExecOk g -> output_blocked o lib = false ->
    cli o lib = cli_done (sel_stdout o g) (sel_file o g) -> cli_case o lib.

Lemma cli_cases : forall o lib, cli_case o lib.
Proof.
  intros o lib.
  destruct (usage_error o) eqn:Hu.
  { apply CaseUsage; [exact Hu|]. unfold cli. rewrite Hu. reflexivity. }
  destruct (parse_globals globals_new (o_globals o)) as [gl|] eqn:Hp.
  2:{ apply CaseGlobals; [exact Hu | exact Hp |]. unfold cli. rewrite Hu, Hp. reflexivity. }
  destruct (lr_load lib) eqn:Hl.
  2:{ apply (CaseLater o lib gl); [exact Hu | exact Hp | left; exact Hl |].
      unfold cli. rewrite Hu, Hp, Hl. reflexivity. }
  assert (Hgate : (if o_allow o then false else negb (lr_parse_errors lib =? 0)) = true ->
                  o_allow o = false /\ lr_parse_errors lib <> 0).
  { destruct (o_allow o); [discriminate|]. destruct (N.eqb_spec (lr_parse_errors lib) 0); [discriminate|].
    intros _. split; [reflexivity | assumption]. }
  assert (Hpass : (if o_allow o then false else negb (lr_parse_errors lib =? 0)) = false ->
                  lr_parse_errors lib = 0 \/ o_allow o = true).
  { destruct (o_allow o); [right; reflexivity|]. destruct (N.eqb_spec (lr_parse_errors lib) 0); [left; assumption | discriminate]. }
  destruct (if o_allow o then false else negb (lr_parse_errors lib =? 0)) eqn:Hg.
  { apply (CaseLater o lib gl); [exact Hu | exact Hp | right; left; split; [exact Hl | exact (Hgate eq_refl)] |].
    unfold cli. rewrite Hu, Hp, Hl, Hg. reflexivity. }
  destruct (lr_exec lib (o_lazy o) gl) as [g|] eqn:Hx.
  2:{ apply (CaseLater o lib gl); [exact Hu | exact Hp | right; right; left; repeat split; [exact Hl | exact (Hpass eq_refl) | exact Hx] |].
      unfold cli. rewrite Hu, Hp, Hl, Hg, Hx. reflexivity. }
  destruct (output_blocked o lib) eqn:Hb.
  - apply (CaseLater o lib gl); [exact Hu | exact Hp | |].
    + right; right; right. split; [exact Hl|]. split; [exact (Hpass eq_refl)|]. split; [exists g; exact Hx | exact Hb].
    + unfold cli. rewrite Hu, Hp, Hl, Hg, Hx. unfold output_blocked in Hb.
      destruct (o_json o); [|discriminate Hb]. destruct (o_output o) as [p|]; [|discriminate Hb].
      destruct (lr_create_ok lib p); [discriminate Hb | reflexivity].
  - apply (CaseOk o lib gl g); [exact Hu | exact Hp | exact Hl | exact (Hpass eq_refl) | exact Hx | exact Hb |].
    unfold cli, sel_stdout, sel_file. rewrite Hu, Hp, Hl, Hg, Hx. unfold output_blocked in Hb.
    destruct (o_json o); [destruct (o_output o) as [p|]; [destruct (lr_create_ok lib p); [|discriminate Hb]|]|destruct (o_quiet o)]; reflexivity.
Qed.

(* ---- cli_table ---- *)
Lemma cli_exit0_iff_lemma : forall o lib,
  ob_exit (cli o lib) = Exit0 <->
  usage_error o = false /\ output_blocked o lib = false /\
  exists kvs, map split_once_eq (o_globals o) = map Some kvs /\ NoDup (map fst kvs) /\
    lr_load lib = LoadOk /\ (lr_parse_errors lib = 0 \/ o_allow o = true) /\
    exists g, lr_exec lib (o_lazy o) (string_globals kvs) = ExecOk g.
Proof.
  intros o lib. split.
  - intros H0. destruct (cli_cases o lib) as [Hu E|Hu Hp E|gl Hu Hp Hc E|gl g Hu Hp Hl Hg Hx Hb E];
      rewrite E in H0; try discriminate H0.
    split; [exact Hu|]. split; [exact Hb|].
    apply parse_globals_spec_lemma in Hp. destruct Hp as (kvs & Hm & Hnd & ->).
    exists kvs. repeat split; try assumption. exists g. exact Hx.
  - intros (Hu & Hb & kvs & Hm & Hnd & Hl & Hg & g & Hx).
    assert (Hp : parse_globals globals_new (o_globals o) = Some (string_globals kvs)).
    { apply parse_globals_spec_lemma. exists kvs. repeat split; assumption. }
    destruct (cli_cases o lib) as [Hu' E|Hu' Hp' E|gl Hu' Hp' Hc E|gl g' Hu' Hp' Hl' Hg' Hx' Hb' E]; rewrite E.
    + congruence.
    + congruence.
    + exfalso. rewrite Hp in Hp'. injection Hp' as <-.
      destruct Hc as [Hc|[(_ & Ha & He)|[(_ & _ & Hc)|(_ & _ & _ & Hc)]]]; [congruence | | congruence | congruence].
      destruct Hg as [Hg|Hg]; congruence.
    + reflexivity.
Qed.

Lemma cli_routing_lemma : forall o lib,
  ob_exit (cli o lib) = Exit0 ->
  ob_diag (cli o lib) = false /\
  exists kvs g, map split_once_eq (o_globals o) = map Some kvs /\
    lr_exec lib (o_lazy o) (string_globals kvs) = ExecOk g /\
    match o_json o, o_output o with
    | true, Some _ => ob_stdout (cli o lib) = SNothing /\ ob_file (cli o lib) = FJson g
    | true, None => ob_stdout (cli o lib) = SJson g /\ ob_file (cli o lib) = FNothing
    | false, _ => ob_stdout (cli o lib) = (if o_quiet o then SNothing else SPretty g) /\
                  ob_file (cli o lib) = FNothing
    end.
Proof.
  intros o lib H0.
  destruct (cli_cases o lib) as [Hu E|Hu Hp E|gl Hu Hp Hc E|gl g Hu Hp Hl Hg Hx Hb E];
    rewrite E in H0 |- *; try discriminate H0.
  split; [reflexivity|]. apply parse_globals_spec_lemma in Hp. destruct Hp as (kvs & Hm & Hnd & ->).
  exists kvs, g. split; [exact Hm|]. split; [exact Hx|].
  unfold sel_stdout, sel_file, cli_done; cbn [ob_stdout ob_file].
  destruct (o_json o); [destruct (o_output o) as [p|]|]; split; reflexivity.
Qed.

Lemma cli_table_lemma : forall o lib,
  (ob_exit (cli o lib) = Exit0 <->
     usage_error o = false /\ output_blocked o lib = false /\
     exists kvs, map split_once_eq (o_globals o) = map Some kvs /\ NoDup (map fst kvs) /\
       lr_load lib = LoadOk /\ (lr_parse_errors lib = 0 \/ o_allow o = true) /\
       exists g, lr_exec lib (o_lazy o) (string_globals kvs) = ExecOk g) /\
  (ob_exit (cli o lib) = Exit0 ->
     ob_diag (cli o lib) = false /\
     exists kvs g, map split_once_eq (o_globals o) = map Some kvs /\
       lr_exec lib (o_lazy o) (string_globals kvs) = ExecOk g /\
       match o_json o, o_output o with
       | true, Some _ => ob_stdout (cli o lib) = SNothing /\ ob_file (cli o lib) = FJson g
       | true, None => ob_stdout (cli o lib) = SJson g /\ ob_file (cli o lib) = FNothing
       | false, _ => ob_stdout (cli o lib) = (if o_quiet o then SNothing else SPretty g) /\
                     ob_file (cli o lib) = FNothing
       end).
Proof. intros o lib. split; [apply cli_exit0_iff_lemma | apply cli_routing_lemma]. Qed.

(* exit status classes: 2 = usage error only; 1 = every other failure, with its cause *)
Lemma cli_exit2_iff_lemma : forall o lib, ob_exit (cli o lib) = Exit2 <-> usage_error o = true.
Proof.
  intros o lib.
  destruct (cli_cases o lib) as [Hu E|Hu Hp E|gl Hu Hp Hc E|gl g Hu Hp Hl Hg Hx Hb E]; rewrite E, Hu;
    cbn [ob_exit cli_fail cli_done]; split; congruence.
Qed.

Lemma cli_exit1_iff_lemma : forall o lib,
  ob_exit (cli o lib) = Exit1 <->
  usage_error o = false /\
  (parse_globals globals_new (o_globals o) = None \/
   exists gl, parse_globals globals_new (o_globals o) = Some gl /\
     (lr_load lib = LoadRejected \/
      (lr_load lib = LoadOk /\ o_allow o = false /\ lr_parse_errors lib <> 0) \/
      (lr_load lib = LoadOk /\ (lr_parse_errors lib = 0 \/ o_allow o = true) /\
       lr_exec lib (o_lazy o) gl = ExecErr) \/
      (lr_load lib = LoadOk /\ (lr_parse_errors lib = 0 \/ o_allow o = true) /\
       (exists g, lr_exec lib (o_lazy o) gl = ExecOk g) /\ output_blocked o lib = true))).
Proof.
  intros o lib.
  destruct (cli_cases o lib) as [Hu E|Hu Hp E|gl Hu Hp Hc E|gl g Hu Hp Hl Hg Hx Hb E]; rewrite E;
    cbn [ob_exit cli_fail cli_done]; split.
  - discriminate.
  - intros [H _]. congruence.
  - intros _. split; [exact Hu | left; exact Hp].
  - reflexivity.
  - intros _. split; [exact Hu | right; exists gl; split; [exact Hp | exact Hc]].
  - reflexivity.
  - discriminate.
  - intros (_ & [H|(gl' & Hp' & Hc)]); [congruence|]. exfalso.
    rewrite Hp in Hp'. injection Hp' as <-.
    destruct Hc as [Hc|[(_ & Ha & He)|[(_ & _ & Hc)|(_ & _ & _ & Hc)]]]; [congruence | | congruence | congruence].
    destruct Hg as [Hg|Hg]; congruence.
Qed.

(* ---- failure_no_graph ---- *)
Lemma failure_no_graph_lemma : forall o lib,
  ob_exit (cli o lib) <> Exit0 ->
  ob_stdout (cli o lib) = SNothing /\ ob_file (cli o lib) = FNothing /\ ob_diag (cli o lib) = true.
Proof.
  intros o lib H0.
  destruct (cli_cases o lib) as [Hu E|Hu Hp E|gl Hu Hp Hc E|gl g Hu Hp Hl Hg Hx Hb E];
    rewrite E in H0 |- *; cbn [ob_exit ob_stdout ob_file ob_diag cli_fail cli_done] in *;
    try (repeat split; reflexivity).
  exfalso. apply H0. reflexivity.
Qed.

Lemma diag_iff_failure_lemma : forall o lib,
  ob_diag (cli o lib) = true <-> ob_exit (cli o lib) <> Exit0.
Proof.
  intros o lib.
  destruct (cli_cases o lib) as [Hu E|Hu Hp E|gl Hu Hp Hc E|gl g Hu Hp Hl Hg Hx Hb E]; rewrite E;
    cbn [ob_exit ob_diag cli_fail cli_done]; split; congruence.
Qed.

(* ---- quiet_only_removes_pretty ---- *)
Lemma quiet_lemma : forall o lib,
  ob_exit (cli (with_quiet true o) lib) = ob_exit (cli (with_quiet false o) lib) /\
  ob_diag (cli (with_quiet true o) lib) = ob_diag (cli (with_quiet false o) lib) /\
  ob_file (cli (with_quiet true o) lib) = ob_file (cli (with_quiet false o) lib) /\
  ob_stdout (cli (with_quiet true o) lib) =
    match ob_stdout (cli (with_quiet false o) lib) with SPretty _ => SNothing | s => s end /\
  (o_json o = true -> cli (with_quiet true o) lib = cli (with_quiet false o) lib).
Proof.
  intros o lib. unfold cli, usage_error, with_quiet;
    cbn [o_lazy o_json o_output o_quiet o_allow o_globals].
  destruct (match o_output o with Some _ => negb (o_json o) | None => false end);
    [repeat split; reflexivity|].
  destruct (parse_globals globals_new (o_globals o)) as [gl|]; [|repeat split; reflexivity].
  destruct (lr_load lib); [|repeat split; reflexivity].
  destruct (if o_allow o then false else negb (lr_parse_errors lib =? 0)); [repeat split; reflexivity|].
  destruct (lr_exec lib (o_lazy o) gl) as [g|]; [|repeat split; reflexivity].
  destruct (o_json o).
  - destruct (o_output o) as [p|]; [destruct (lr_create_ok lib p)|]; repeat split; reflexivity.
  - cbn [negb cli_done ob_exit ob_diag ob_file ob_stdout]. repeat split; try reflexivity. discriminate.
Qed.

(* ---- an --output file that cannot be created: the io::Error is returned from main ---- *)
Lemma unwritable_output_fails_lemma : forall o lib p,
  o_json o = true -> o_output o = Some p -> lr_create_ok lib p = false ->
  cli o lib = cli_fail Exit1.
Proof.
  intros o lib p Hj Ho Hc.
  destruct (cli_cases o lib) as [Hu E|Hu Hp E|gl Hu Hp Hcs E|gl g Hu Hp Hl Hg Hx Hb E].
  - exfalso. unfold usage_error in Hu. rewrite Ho, Hj in Hu. discriminate Hu.
  - exact E.
  - exact E.
  - exfalso. unfold output_blocked in Hb. rewrite Hj, Ho, Hc in Hb. discriminate Hb.
Qed.

Lemma output_blocked_iff_lemma : forall o lib,
  output_blocked o lib = true <->
  o_json o = true /\ exists p, o_output o = Some p /\ lr_create_ok lib p = false.
Proof.
  intros o lib. unfold output_blocked. destruct (o_json o).
  - destruct (o_output o) as [p|].
    + destruct (lr_create_ok lib p) eqn:Hc; cbn [negb]; split.
      * discriminate.
      * intros (_ & p' & [= <-] & H). congruence.
      * intros _. split; [reflexivity|]. exists p. split; [reflexivity | exact Hc].
      * reflexivity.
    + split; [discriminate|]. intros (_ & p & H & _). discriminate H.
  - split; [discriminate|]. intros [H _]. discriminate H.
Qed.

(* ---- the model never depends on the path id except through the creation oracle, nor on --lazy
        except through the execution oracle ---- *)
Lemma cli_exec_ext_lemma : forall o lib lib',
  lr_load lib = lr_load lib' -> lr_parse_errors lib = lr_parse_errors lib' ->
  (forall gl, lr_exec lib (o_lazy o) gl = lr_exec lib' (o_lazy o) gl) ->
  (forall p, o_output o = Some p -> lr_create_ok lib p = lr_create_ok lib' p) ->
  cli o lib = cli o lib'.
Proof.
  intros o lib lib' Hl He Hx Hc. unfold cli. rewrite <- Hl, <- He.
  destruct (usage_error o); [reflexivity|].
  destruct (parse_globals globals_new (o_globals o)) as [gl|]; [|reflexivity].
  destruct (lr_load lib); [|reflexivity].
  destruct (if o_allow o then false else negb (lr_parse_errors lib =? 0)); [reflexivity|].
  rewrite <- Hx. destruct (lr_exec lib (o_lazy o) gl) as [g|]; [|reflexivity].
  destruct (o_json o); [|reflexivity]. destruct (o_output o) as [p|]; [|reflexivity].
  rewrite <- (Hc p eq_refl). reflexivity.
Qed.

(* ---- instances used by the non-vacuity Example of Props/C19.v ---- *)
Definition ex_lib : lib_results :=
  {| lr_load := LoadOk; lr_parse_errors := 2;
     lr_exec := exec_table [([112], [49; 61; 50])] ExecErr (ExecOk 7);
     lr_create_ok := fun p => p =? 3 |}.
Definition ex_opts (lz js : bool) (out : option N) (q al : bool) (gl : list str) : options :=
  {| o_lazy := lz; o_json := js; o_output := out; o_quiet := q; o_allow := al; o_globals := gl |}.

