(* Proofs/LocalFrag.v — C06 locality, part 3: the locality hypothesis of the whole-run theorem of C08 with scoped
   variables (Proofs/ScPerm*.v, fragment `sstmt`) follows from `check_file = CkOk`.
   `fexpr_ns` / `sstmt_ns` are the fragment predicates WITHOUT the demand "no scoped-variable read in an eager
   position" (scan subject, if condition, for list): every other restriction of the fragment is kept as it is.
   For a file whose eager positions are eager_ok (Proofs/LocalCheck.v: every checked file), sstmt_ns implies sstmt. *)
From TSG Require Import Model.Lazy Model.Locality Proofs.BaseFacts Proofs.Checker Proofs.SLExpr Proofs.ScPermSim Proofs.ScPermSwap Proofs.ScPermExec
  Proofs.LocalCheck Proofs.LocalPos.

Section FragRest.
  Variable fl : file.
  Variable okfn : ident -> Prop.
  Variable m : qmatch.

  Fixpoint fexpr_ns (e : expr) : Prop :=
    match e with
    | EList es | ESet es => All fexpr_ns es
    | EListComp elem _ _ value _ | ESetComp elem _ _ value _ => fexpr_ns elem /\ fexpr_ns value
    | ECapture _ _ file_idx stanza_idx _ => nodes_for_capture m stanza_idx = nodes_for_capture m file_idx
    | EScoped sc _ _ => fexpr_ns sc
    | ECall f args => okfn f /\ All fexpr_ns args
    | _ => True
    end.
  Definition fcond_ns (c : cond) : Prop := match c with CSome e _ | CNone e _ | CBool e _ => fexpr_ns e end.
  Fixpoint sstmt_ns (s : stmt) : Prop :=
    match s with
    | SLet v e _ => svar okfn m v /\ fexpr okfn m e
    | SVar v e _ | SSet v e _ => fvar v /\ fexpr okfn m e
    | SNode v _ _ => svar okfn m v
    | SAttrNode n attrs _ => mexpr okfn m n /\ All (mattr fl okfn m) attrs
    | SEdge a b _ => mexpr okfn m a /\ mexpr okfn m b
    | SAttrEdge a b attrs _ => mexpr okfn m a /\ mexpr okfn m b /\ All (mattr fl okfn m) attrs
    | SScan v arms _ => fexpr_ns v /\ All (fun arm : N * list stmt * loc => All sstmt_ns (snd (fst arm))) arms
    | SPrint vs _ => All (mexpr okfn m) vs
    | SIf arms _ => All (fun arm : list cond * list stmt * loc => All fcond_ns (fst (fst arm)) /\ All sstmt_ns (snd (fst arm))) arms
    | SFor _ _ v body _ => fexpr_ns v /\ All sstmt_ns body
    end.

  Lemma All_impl_In {A} (P Q : A -> Prop) l : (forall x, In x l -> P x -> Q x) -> All P l -> All Q l.
  Proof.
    induction l as [|x l IH]; cbn [All]; intros H HA; [exact I|]. destruct HA as [H1 H2].
    split; [apply H; [left; reflexivity|exact H1]|]. apply IH; [|exact H2]. intros y Hy. apply H. right. exact Hy.
  Qed.

  Lemma eager_ok_fexpr G e : forall env, eager_ok G env e = true -> fexpr_ns e -> fexpr okfn m e.
  Proof.
    induction e using expr_ind'; intros env; cbn [eager_ok fexpr_ns fexpr]; auto; try discriminate.
    - intros He. apply All_impl_In. intros x Hx. rewrite Forall_forall in H. rewrite forallb_forall in He. exact (H x Hx env (He x Hx)).
    - intros He. apply All_impl_In. intros x Hx. rewrite Forall_forall in H. rewrite forallb_forall in He. exact (H x Hx env (He x Hx)).
    - rewrite andb_true_iff. intros [H1 H2] [F1 F2]. split; [exact (IHe1 _ H2 F1)|exact (IHe2 _ H1 F2)].
    - rewrite andb_true_iff. intros [H1 H2] [F1 F2]. split; [exact (IHe1 _ H2 F1)|exact (IHe2 _ H1 F2)].
    - intros He [Hf Ha]. split; [exact Hf|]. revert Ha. apply All_impl_In. intros x Hx. rewrite Forall_forall in H. rewrite forallb_forall in He.
      exact (H x Hx env (He x Hx)).
  Qed.

  Lemma block_eok_sstmt G body :
    Forall (fun s => forall env, stmt_eok G env s = true -> sstmt_ns s -> sstmt fl okfn m s) body ->
    forall env, seq_eok (stmt_eok G) (stmt_env G) env body = true -> All sstmt_ns body -> All (sstmt fl okfn m) body.
  Proof.
    induction 1 as [|s body Hs Hb IH]; intros env; cbn [seq_eok All]; [auto|].
    rewrite andb_true_iff. intros [E1 E2] [S1 S2]. split; [exact (Hs _ E1 S1)|exact (IH _ E2 S2)].
  Qed.

  Lemma stmt_eok_sstmt G s : forall env, stmt_eok G env s = true -> sstmt_ns s -> sstmt fl okfn m s.
  Proof.
    induction s using stmt_ind'; intros env; cbn [stmt_eok sstmt_ns sstmt]; auto.
    - rewrite andb_true_iff. intros [Hv Harms] [Fv Fa]. split; [exact (eager_ok_fexpr G v env Hv Fv)|].
      rewrite forallb_forall in Harms. revert Fa. apply All_impl_In. intros [[rxi body] al] Hin Hb. cbn [fst snd] in *.
      rewrite Forall_forall in H. specialize (H _ Hin). specialize (Harms _ Hin). cbv beta iota in Harms.
      exact (block_eok_sstmt G body H _ Harms Hb).
    - intros Harms. rewrite forallb_forall in Harms. apply All_impl_In. intros [[conds body] al] Hin [Hc Hb]. cbn [fst snd] in *.
      rewrite Forall_forall in H. specialize (H _ Hin). specialize (Harms _ Hin). cbv beta iota in Harms.
      apply andb_true_iff in Harms. destruct Harms as [A1 A2]. split.
      + revert Hc. apply All_impl_In. intros c Hcin Hcns. rewrite forallb_forall in A1. specialize (A1 _ Hcin).
        destruct c; cbn [cond_expr fcond_ns fcond] in *; exact (eager_ok_fexpr G _ env A1 Hcns).
      + exact (block_eok_sstmt G body H _ A2 Hb).
    - rewrite andb_true_iff. intros [Hv Hbody] [Fv Fb]. split; [exact (eager_ok_fexpr G v env Hv Fv)|].
      exact (block_eok_sstmt G body H _ Hbody Fb).
  Qed.

  Lemma stanza_eok_sstmt G st : block_eok G [[]] (st_stmts st) = true -> All sstmt_ns (st_stmts st) -> All (sstmt fl okfn m) (st_stmts st).
  Proof. unfold block_eok. apply block_eok_sstmt. apply Forall_forall. intros s _. apply stmt_eok_sstmt. Qed.
End FragRest.

(* a block of the fragment, locality not demanded *)
Definition block_ok2_ns (fl : file) (okfn : ident -> Prop) (st : stanza) (qm : qmatch) : Prop :=
  All (sstmt_ns fl okfn qm) (st_stmts st) /\ Forall (fun sh => All (fattr okfn qm) (sh_attrs sh)) (f_shorthands fl).
Definition pm_ok2_ns (fl : file) (okfn : ident -> Prop) (pm : N * qmatch) : Prop :=
  forall st, nth_error (f_stanzas fl) (N.to_nat (fst pm)) = Some st -> block_ok2_ns fl okfn st (snd pm).

Lemma file_eok_pm_ok2 fl okfn ms : file_eok fl = true -> Forall (pm_ok2_ns fl okfn) ms -> Forall (pm_ok2 fl okfn) ms.
Proof.
  intros Hf. apply Forall_impl. intros pm H st E. destruct (H st E) as [H1 H2]. split; [|exact H2].
  unfold file_eok in Hf. rewrite forallb_forall in Hf. apply (stanza_eok_sstmt fl okfn (snd pm) (is_global fl) st); [|exact H1].
  apply Hf. eapply nth_error_In. exact E.
Qed.
Lemma checked_pm_ok2 q f fl okfn ms : check_file q f = CkOk fl -> Forall (pm_ok2_ns fl okfn) ms -> Forall (pm_ok2 fl okfn) ms.
Proof. intros H. apply file_eok_pm_ok2. exact (check_file_eok_with _ _ _ _ H). Qed.
