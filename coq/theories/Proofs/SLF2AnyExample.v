(* Proofs/SLF2AnyExample.v — C02, failure direction with scoped variables, ARBITRARY order of the blocks: a program in the
   intersection of fragment v2 and of the scoped fragment of C08 (tree "p\nq\nr\n", two stanzas with three matches each; `ay_ms'`
   of Proofs/SLAnyExample.v interleaves the blocks, a reader first):
     ay4:  (identifier) @x                            { node @x.n   attr (@x.n) k = (plus 1 2) }
           (expression_statement (identifier) @x) @s  { node m   edge m -> @x.n   attr (@x.n) k = 5 }
   the second stanza sets, through a scoped READ, an attribute that the first stanza set to another value: strict fails with
   DuplicateAttribute in the second stanza; the interleaved lazy run fails with the same cause, and the composed theorem
   excludes success at every fuel. *)
From Coq Require Import Permutation.
From TSG Require Import Model.Run Model.Stdlib Proofs.BaseFacts Proofs.K7 Proofs.SLExpr Proofs.StrictLazy Proofs.SL2Whole Proofs.SLFailGraph Proofs.SLFailExpr Proofs.SLFailStmt
  Proofs.SLFailExample Proofs.BlockPermRen Proofs.BlockPermGraph Proofs.BlockPermExec Proofs.BlockPermExample Proofs.ScPermSim Proofs.ScPermExec Proofs.SLAny Proofs.SLAnyExample
  Proofs.SLF2Expr Proofs.SLF2File Proofs.SLF2Example Proofs.SLF2Any.
Open Scope N_scope.

Definition ay4_file : file :=
  {| f_globals := []; f_inherited := []; f_shorthands := [];
     f_stanzas := [
       {| st_stmts := [SNode (VarS ay_x ay_n ay_l) [110] ay_l; SAttrNode (EScoped ay_x ay_n ay_l) [Attr [107] ay_plus] ay_l];
          st_full_stanza_idx := 1; st_full_file_idx := 1; st_start := ay_l |};
       {| st_stmts := [SNode (VarU [109] ay_l) [109] ay_l; SEdge (ay_va 109) (EScoped ay_x ay_n ay_l) ay_l;
                       SAttrNode (EScoped ay_x ay_n ay_l) [Attr [107] (EInt 5)] ay_l];
          st_full_stanza_idx := 1; st_full_file_idx := 1; st_start := ay_l |} ] |}.
Lemma ay4_file_ok : file_ok2 c8_okfn (fun _ => false) ay4_file (f_stanzas ay4_file) ay_ms.
Proof.
  cbn [file_ok2 ay4_file f_stanzas ay_ms]. repeat split; repeat constructor; unfold match_ok2, c8_okfn; cbn;
    repeat split; try reflexivity; try discriminate; try (intros; discriminate); constructor.
Qed.
Lemma ay4_blocks_ok : Forall (pm_ok2 ay4_file c8_okfn) (lmatches_of ay_ms).
Proof.
  change (lmatches_of ay_ms) with [(0, ay_p 2); (0, ay_p 4); (0, ay_p 6); (1, ay_q 2 1); (1, ay_q 4 3); (1, ay_q 6 5)].
  repeat (apply Forall_cons; [intros st E; vm_compute in E; inversion E; subst st; (split; [|apply Forall_nil]);
    cbn [All st_stmts sstmt svar mexpr mattr fexpr is_capture ay_x ay_va ay_plus ay_n]; unfold c8_okfn; ay_slv|]). apply Forall_nil.
Qed.
Lemma ay4_strict : err_cause (run_strict k7_tree ay4_file config0 [[]] None ([] : list regex) rx_captures c8_call default_fuel ay_ms []) = Some EDuplicateAttribute.
Proof. vm_compute. reflexivity. Qed.
Lemma ay4_lazy : err_cause (run_lazy k7_tree ay4_file config0 [[]] None ([] : list regex) rx_captures c8_call default_fuel ay_ms' []) = Some EDuplicateAttribute.
Proof. vm_compute. reflexivity. Qed.
Lemma ay4_theorem_applies :
  forall lfuel, match run_lazy k7_tree ay4_file config0 [[]] None ([] : list regex) rx_captures c8_call lfuel ay_ms' [] with Ok _ => False | Err _ | Panic _ | OutOfFuel => True end.
Proof.
  destruct (err_cause_okerr2 _ _ ay4_strict I) as (e & He & Ho).
  exact (strict_fail_lazy_fail_any_order_scoped_lemma k7_tree ay4_file [[]] [] rx_captures c8_call c8_okfn c8_call_ok [] ay_closed ay1_globals_ok
           (fun _ => false) default_fuel ay_ms e ay_ms' ay_graph_ext ay4_file_ok (inh_static_nil k7_tree ay4_file ay_ms eq_refl) ay4_blocks_ok He Ho ay_perm).
Qed.
