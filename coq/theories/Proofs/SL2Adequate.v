(* Proofs/SL2Adequate.v — C02 version 2, adequacy part 3: the evaluation phase and whole files converge; the
   adequacy theorem on the fragment with scoped variables: some lazy model fuel suffices, and from that fuel on
   the lazy run IS Ok with exactly the strict graph. *)
From TSG Require Import Model.Lazy Model.Stdlib Proofs.BaseFacts Proofs.Containers Proofs.MonadFacts
  Proofs.SLGraph Proofs.SLForce Proofs.SLExpr Proofs.SLConv Proofs.SLStmt Proofs.StrictLazy
  Proofs.SL2Force Proofs.SL2Expr Proofs.SL2Conv Proofs.SL2Stmt Proofs.SL2StmtConv Proofs.SL2Whole.

Section Whole2Conv.
  Context {rx : Type}.
  Variables (t : tree) (fl : file) (glob : globals) (regexes : list rx)
            (find : rx -> str -> option (list (option (N * N))))
            (call : ident -> graph -> list value -> res (value * graph)).
  Variable okfn : ident -> Prop.
  Variable purev : ident -> bool.
  Hypothesis Hpure : forall f, okfn f -> pure_fn call f.

  Notation den2 := (den2 call).
  Notation eval_lv' := (eval_lv t fl call).
  Notation vinv2 := (vinv2 call).
  Notation vpost2 := (vpost2 call).

  Section Fixed.
    Variable w : world.
    Hypothesis Hnd : sig_nodup w.
    Hypothesis Hac : sig_antichain w.
    Hypothesis Hws : wstatic t fl w.

    Lemma force_v2_conv g lv v ls pl : vinv2 w g ls -> den2 w false lv v -> nob pl ->
      convP (fun F => eval_lv' F lv ls pl) (fun v' ls' pl' => v' = v /\ nob pl' /\ vinv2 w g ls').
    Proof.
      intros (Hg & Hst & Hsc) Hd Hb. eapply convP_mono; [apply (force1_full_convP call t fl w lv v ls pl Hnd Hac Hws Hst Hsc Hd Hb)|].
      intros v' ls' pl' (-> & Hb' & st' & sc' & -> & Hst' & Hsc'). split; [reflexivity|]. split; [exact Hb'|]. apply vinv2_intro; first [assumption|reflexivity].
    Qed.
    Lemma force_gnode2_conv g lv x ls pl : vinv2 w g ls -> den2 w false lv (VGraph x) -> nob pl ->
      convP (fun F => eval_as_gnode t fl call F lv ls pl) (fun n ls' pl' => n = x /\ nob pl' /\ vinv2 w g ls').
    Proof.
      intros HV Hd Hb. unfold eval_as_gnode. apply (convP_bind (fun F => eval_lv' F lv) (fun _ v => lift (as_gnode v))).
      eapply convP_mono; [apply (force_v2_conv g lv _ ls pl HV Hd Hb)|].
      intros v' ls' pl' (-> & Hb' & HV'). eapply convP_lift; [reflexivity|]. auto.
    Qed.

    Lemma eval_edge_stmt2_conv g g' st e ls pl : den_edge2 call w st e -> vinv2 w g ls -> apply_edge e g = Some g' -> nob pl ->
      convP (fun F => eval_lstmt t fl call F st ls pl) (vpost2 w g').
    Proof.
      intros (a & b & dbg & -> & Ha & Hb0) HV He Hb. destruct e as [x y]. cbn [fst snd] in *. unfold eval_lstmt.
      apply convP_bind. unfold lpoll. apply convP_poll; [exact Hb|]. intros pl0 Hbl. apply convP_ctx.
      apply convP_bind. apply convP_ctx. eapply convP_mono; [apply (force_gnode2_conv g a x ls pl0 HV Ha Hbl)|]. intros n ls1 pl1 (-> & Hb1 & HV1).
      apply (convP_bind (fun F => ctx_wrap CtxOther (eval_as_gnode t fl call F b)) (fun _ b0 => ledge_add x b0 [])).
      apply convP_ctx. eapply convP_mono; [apply (force_gnode2_conv g b y ls1 pl1 HV1 Hb0 Hb1)|]. intros n ls2 pl2 (-> & Hb2 & HV2).
      apply convP_of_lres; [apply (ledge_add_res2 call w g g' x y ls2 pl2 HV2 He Hb2)|apply ledge_add_noof].
    Qed.
    Lemma eval_edge_stmts2_conv : forall stmts eops g g' ls pl, Forall2 (den_edge2 call w) stmts eops -> vinv2 w g ls ->
      apply_edges eops g = Some g' -> nob pl -> convP (fun F => iterM (eval_lstmt t fl call F) stmts ls pl) (vpost2 w g').
    Proof.
      intros stmts eops g g' ls pl HF. revert g ls pl. induction HF as [|st e stmts eops Hd _ IH]; intros g ls pl HV Hg Hb; cbn [iterM ofold] in *.
      - inversion Hg; subst. apply convP_ret. split; assumption.
      - destruct (apply_edge e g) as [gm|] eqn:E; [|discriminate]. apply convP_bind.
        eapply convP_mono; [apply (eval_edge_stmt2_conv g gm st e ls pl Hd HV E Hb)|]. intros _ ls1 pl1 [Hb1 HV1]. apply (IH gm ls1 pl1 HV1 Hg Hb1).
    Qed.

    Lemma prev_insert_conv2 g k dbg ls pl : vinv2 w g ls -> nob pl ->
      convP (fun _ : nat => prev_insert k dbg ls pl) (fun _ ls' pl' => nob pl' /\ vinv2 w g ls').
    Proof. intros HV Hb. apply convP_of_lres; [apply (prev_insert_res2 call w g k dbg ls pl HV Hb)|]. discriminate. Qed.

    Lemma eval_node_attrs2_conv x dbg : forall attrs kvs g g' ls pl, den_attrs2 call w attrs kvs -> vinv2 w g ls ->
      apply_attrs (map (mk (TNode x)) kvs) g = Some g' -> nob pl ->
      convP (fun F => iterM (fun a : ident * lvalue => v <- eval_lv' F (snd a) ;; prev <- prev_insert (KNode x (fst a)) dbg ;; lattr_node_add x (fst a) v prev dbg) attrs ls pl)
            (vpost2 w g').
    Proof.
      intros attrs kvs g g' ls pl HF. revert g ls pl. induction HF as [|[k lv] [k' v] attrs kvs [Hk Hd] _ IH]; intros g ls pl HV Hg Hb; cbn [iterM map ofold] in *.
      - inversion Hg; subst. apply convP_ret. split; assumption.
      - cbn [fst snd] in *. subst k'. destruct (apply_attr (mk (TNode x) (k, v)) g) as [gm|] eqn:E; [|discriminate]. apply convP_bind.
        apply (convP_bind (fun F => eval_lv' F lv) (fun _ v0 => prev <- prev_insert (KNode x k) dbg ;; lattr_node_add x k v0 prev dbg)).
        eapply convP_mono; [apply (force_v2_conv g lv v ls pl HV Hd Hb)|]. intros v' ls1 pl1 (-> & Hb1 & HV1).
        apply convP_bind. eapply convP_mono; [apply (prev_insert_conv2 g _ dbg ls1 pl1 HV1 Hb1)|]. intros prev ls2 pl2 (Hb2 & (Hg2 & Hst2 & Hsc2)).
        unfold lattr_node_add. apply convP_get. rewrite Hg2. cbn [mk apply_attr fst snd] in E.
        destruct (gnode_at g x) as [nd|]; [|discriminate]. destruct (attrs_add (g_attrs nd) k v) as [m' [c|]]; [discriminate|]. inversion E; subst gm.
        unfold set_lgraph, Lazy.upd. apply convP_modify. refine (IH _ _ pl2 _ Hg Hb2). apply vinv2_intro; first [assumption|reflexivity].
    Qed.
    Lemma eval_edge_attrs2_conv x y dbg : forall attrs kvs g g' ls pl, den_attrs2 call w attrs kvs -> vinv2 w g ls ->
      apply_attrs (map (mk (TEdge x y)) kvs) g = Some g' -> nob pl ->
      convP (fun F => iterM (fun ak : ident * lvalue =>
                     v <- eval_lv' F (snd ak) ;; ex <- ledge_exists x y ;;
                     if ex then prev <- prev_insert (KEdge x y (fst ak)) dbg ;; lattr_edge_add x y (fst ak) v prev dbg else fail EUndefinedEdge) attrs ls pl)
            (vpost2 w g').
    Proof.
      intros attrs kvs g g' ls pl HF. revert g ls pl. induction HF as [|[k lv] [k' v] attrs kvs [Hk Hd] _ IH]; intros g ls pl HV Hg Hb; cbn [iterM map ofold] in *.
      - inversion Hg; subst. apply convP_ret. split; assumption.
      - cbn [fst snd] in *. subst k'. destruct (apply_attr (mk (TEdge x y) (k, v)) g) as [gm|] eqn:E; [|discriminate]. apply convP_bind.
        apply (convP_bind (fun F => eval_lv' F lv) (fun _ v0 => ex <- ledge_exists x y ;;
                     if ex then prev <- prev_insert (KEdge x y k) dbg ;; lattr_edge_add x y k v0 prev dbg else fail EUndefinedEdge)).
        eapply convP_mono; [apply (force_v2_conv g lv v ls pl HV Hd Hb)|]. intros v' ls1 pl1 (-> & Hb1 & (Hg1 & Hst1 & Hsc1)).
        cbn [mk apply_attr fst snd] in E. destruct (gnode_at g x) as [nd|] eqn:En; [|discriminate].
        destruct (edges_get y (g_edges nd)) as [m0|] eqn:Ee; [|discriminate]. destruct (attrs_add m0 k v) as [m' [c|]] eqn:Ea; [discriminate|]. inversion E; subst gm.
        apply convP_bind. unfold ledge_exists. apply convP_get. rewrite Hg1, En. apply convP_ret. rewrite Ee.
        apply convP_bind. eapply convP_mono; [apply (prev_insert_conv2 g _ dbg ls1 pl1 (conj Hg1 (conj Hst1 Hsc1)) Hb1)|]. intros prev ls2 pl2 (Hb2 & (Hg2 & Hst2 & Hsc2)).
        unfold lattr_edge_add. apply convP_get. rewrite Hg2, En, Ee, Ea.
        unfold set_lgraph, Lazy.upd. apply convP_modify. refine (IH _ _ pl2 _ Hg Hb2). apply vinv2_intro; first [assumption|reflexivity].
    Qed.

    Lemma eval_attr_stmt2_conv g g' st ops ls pl : den_astmt2 call w st ops -> vinv2 w g ls -> apply_attrs ops g = Some g' -> nob pl ->
      convP (fun F => eval_lstmt t fl call F st ls pl) (vpost2 w g').
    Proof.
      intros Hd HV Hg Hb. unfold eval_lstmt. apply convP_bind. unfold lpoll. apply convP_poll; [exact Hb|]. intros pl0 Hbl.
      destruct st as [n attrs dbg|a b ea dbg|a b attrs dbg|args dbg]; cbn [den_astmt2] in Hd; try contradiction.
      - destruct Hd as (x & kvs & Hn & Ha & ->). apply convP_ctx.
        apply convP_bind. apply convP_ctx. eapply convP_mono; [apply (force_gnode2_conv g n x ls pl0 HV Hn Hbl)|]. intros n0 ls1 pl1 (-> & Hb1 & HV1).
        apply (eval_node_attrs2_conv x dbg attrs kvs g g' ls1 pl1 Ha HV1 Hg Hb1).
      - destruct Hd as (x & y & kvs & Hna & Hnb & Ha & ->). apply convP_ctx.
        apply convP_bind. apply convP_ctx. eapply convP_mono; [apply (force_gnode2_conv g a x ls pl0 HV Hna Hbl)|]. intros n0 ls1 pl1 (-> & Hb1 & HV1).
        apply convP_bind. apply convP_ctx. eapply convP_mono; [apply (force_gnode2_conv g b y ls1 pl1 HV1 Hnb Hb1)|]. intros n0 ls2 pl2 (-> & Hb2 & HV2).
        apply (eval_edge_attrs2_conv x y dbg attrs kvs g g' ls2 pl2 Ha HV2 Hg Hb2).
    Qed.
    Lemma eval_attr_stmts2_conv : forall stmts aopss g g' ls pl, Forall2 (den_astmt2 call w) stmts aopss -> vinv2 w g ls ->
      apply_attrs (concat aopss) g = Some g' -> nob pl -> convP (fun F => iterM (eval_lstmt t fl call F) stmts ls pl) (vpost2 w g').
    Proof.
      intros stmts aopss g g' ls pl HF. revert g ls pl. induction HF as [|st ops stmts aopss Hd _ IH]; intros g ls pl HV Hg Hb; cbn [iterM concat] in *.
      - cbn [ofold] in Hg. inversion Hg; subst. apply convP_ret. split; assumption.
      - apply ofold_app_inv in Hg. destruct Hg as (gm & G1 & G2). apply convP_bind.
        eapply convP_mono; [apply (eval_attr_stmt2_conv g gm st ops ls pl Hd HV G1 Hb)|]. intros _ ls1 pl1 [Hb1 HV1]. apply (IH gm ls1 pl1 HV1 G2 Hb1).
    Qed.

    Lemma eval_print_stmts2_conv g : forall stmts ls pl, Forall (print_ok2 call w) stmts -> vinv2 w g ls -> nob pl ->
      convP (fun F => iterM (eval_lstmt t fl call F) stmts ls pl) (vpost2 w g).
    Proof.
      induction stmts as [|st stmts IH]; intros ls pl HF HV Hb; cbn [iterM]; [apply convP_ret; split; assumption|].
      inversion HF as [|? ? Hst HF']; subst. apply convP_bind. unfold eval_lstmt. apply convP_bind. unfold lpoll. apply convP_poll; [exact Hb|]. intros pl0 Hbl.
      destruct st as [n attrs dbg|a b ea dbg|a b attrs dbg|args dbg]; cbn [print_ok2] in Hst; try contradiction. apply convP_ctx.
      assert (Hargs : forall ls0 pl1, vinv2 w g ls0 -> nob pl1 ->
                convP (fun F => iterM (fun a : option lvalue => match a with Some lv => eval_lv' F lv ;;; ret tt | None => ret tt end) args ls0 pl1) (vpost2 w g)).
      { clear -Hst Hnd Hac Hws. induction args as [|a args IHa]; intros ls0 pl1 HV Hb; cbn [iterM]; [apply convP_ret; split; assumption|].
        inversion Hst as [|? ? Ha Hrest]; subst. apply convP_bind. destruct a as [lv|].
        - destruct Ha as [v Hv]. apply (convP_bind (fun F => eval_lv' F lv) (fun _ _ => ret tt)).
          eapply convP_mono; [apply (force_v2_conv g lv v ls0 pl1 HV Hv Hb)|]. intros v' ls1 pl2 (-> & Hb1 & HV1).
          apply convP_ret. apply (IHa Hrest ls1 pl2 HV1 Hb1).
        - apply convP_ret. apply (IHa Hrest ls0 pl1 HV Hb). }
      eapply convP_mono; [apply (Hargs ls pl0 HV Hbl)|]. intros _ ls1 pl1 [Hb1 HV1]. apply (IH ls1 pl1 HF' HV1 Hb1).
    Qed.

    Lemma eval_store_all2_conv g ls pl : vinv2 w g ls -> nob pl -> convP (fun F => store_evaluate_all t fl call F ls pl) (vpost2 w g).
    Proof.
      intros HV Hb. unfold store_evaluate_all. apply convP_get.
      assert (Hlen : length (l_store ls) = length (w_rho w)) by (destruct HV as (_ & [Hl _] & _); congruence). rewrite Hlen.
      assert (Hgen : forall l ls0 pl0, Forall (fun i => (i < length (w_rho w))%nat) l -> vinv2 w g ls0 -> nob pl0 ->
                convP (fun F => iterM (fun i => force_thunk t fl call F i ;;; ret tt) (map N.of_nat l) ls0 pl0) (vpost2 w g)).
      { induction l as [|i l IHl]; intros ls0 pl0 HF HV0 Hb0; cbn [map iterM]; [apply convP_ret; split; assumption|].
        inversion HF as [|? ? Hi HF']; subst. apply convP_bind. apply (convP_bind (fun F => force_thunk t fl call F (N.of_nat i)) (fun _ _ => ret tt)).
        destruct HV0 as (Hg0 & Hst0 & Hsc0).
        assert (Hi0 : (i < length (l_store ls0))%nat) by (rewrite <- (proj1 Hst0); exact Hi).
        eapply convP_mono; [apply (force1_full_thunk_convP call t fl w i ls0 pl0 Hnd Hac Hws Hst0 Hsc0 Hi0 Hb0)|]. intros v ls1 pl1 (Hb1 & st' & sc' & -> & Hst' & Hsc').
        apply convP_ret. apply (IHl _ pl1 HF'); [apply vinv2_intro; first [assumption|reflexivity]|exact Hb1]. }
      apply Hgen; [|exact HV|exact Hb]. apply Forall_forall. intros i Hi. apply in_seq in Hi. lia.
    Qed.

    Lemma eval_scoped_all2_conv g ls pl : vinv2 w g ls -> nob pl -> convP (fun F => scoped_evaluate_all t fl call F ls pl) (vpost2 w g).
    Proof.
      intros HV Hb. unfold scoped_evaluate_all. apply convP_get. generalize (map fst (sort_alist (l_scoped ls))). intros names.
      revert ls pl HV Hb. induction names as [|name names IH]; intros ls pl HV Hb; cbn [iterM]; [apply convP_ret; split; assumption|].
      apply convP_bind. destruct HV as (Hg & Hst & Hsc).
      eapply convP_mono; [apply (force_cell_full_convP call t fl w name ls pl Hnd Hst Hsc Hb)|]. intros _ ls1 pl1 (Hb1 & st' & sc' & -> & Hst' & Hsc').
      apply (IH _ pl1); [apply vinv2_intro; first [assumption|reflexivity]|exact Hb1].
    Qed.
  End Fixed.

  Lemma evaluate_phase_conv2 w ss ls pl : inh_antichain t fl (s_scoped ss) -> Rel2 t fl call purev w ss ls -> nob pl ->
    convP (fun F => evaluate_phase t fl call F ls pl) (fun _ ls' _ => l_graph ls' = s_graph ss).
  Proof.
    intros Hanti HR. destruct (rel2_antichain t fl call purev w ss ls Hanti HR) as [Hac Hws]. revert HR.
    intros ((Hst & _ & _) & Hcells & Hnd & _ & Hpr & eops & aopss & g1 & He & Ha & Hg1 & Hg2) Hb. unfold evaluate_phase. apply convP_get.
    assert (HV : vinv2 w (l_graph ls) ls) by (apply vinv2_intro; [reflexivity|exact Hst|apply cells_unforced_ok, Hcells]).
    apply convP_bind. eapply convP_mono; [apply (eval_edge_stmts2_conv w Hnd Hac Hws _ _ _ _ ls pl He HV Hg1 Hb)|]. intros _ ls1 pl1 [Hb1 HV1].
    apply convP_bind. eapply convP_mono; [apply (eval_attr_stmts2_conv w Hnd Hac Hws _ _ _ _ ls1 pl1 Ha HV1 Hg2 Hb1)|]. intros _ ls2 pl2 [Hb2 HV2].
    apply convP_bind. eapply convP_mono; [apply (eval_print_stmts2_conv w Hnd Hac Hws _ _ ls2 pl2 Hpr HV2 Hb2)|]. intros _ ls3 pl3 [Hb3 HV3].
    apply convP_bind. eapply convP_mono; [apply (eval_store_all2_conv w Hnd Hac Hws _ ls3 pl3 HV3 Hb3)|]. intros _ ls4 pl4 [Hb4 HV4].
    eapply convP_mono; [apply (eval_scoped_all2_conv w Hnd _ ls4 pl4 HV4 Hb4)|]. intros _ ls5 pl5 [Hb5 (Hg5 & _)]. exact Hg5.
  Qed.

  Notation xconvU2 := (xconv2 t fl call purev (@anyQ unit unit)).
  Lemma xconv2_lext {A B} (Q : A -> B -> Prop) ms (mlf mlf' : nat -> M lstate B) : (forall lf s p, mlf lf s p = mlf' lf s p) -> xconv2 t fl call purev Q ms mlf' -> xconv2 t fl call purev Q ms mlf.
  Proof. intros E H ss p a ss' p' Hs ls pl HR Hb. eapply convP_ext; [intros lf; apply E|]. apply (H _ _ _ _ _ Hs ls pl HR Hb). Qed.

  Notation lstep' := (lstep t fl glob regexes find call).

  Lemma stanza_matches_conv2 fuel st i : nth_error (f_stanzas fl) (N.to_nat i) = Some st ->
    forall qs, Forall (match_ok2 okfn purev fl st) qs ->
    xconvU2 (iterM (exec_stanza t fl config0 glob regexes find call fuel st) qs) (fun lf => iterM (lstep' lf) (map (fun q => (i, q)) qs)).
  Proof.
    intros Hst. induction qs as [|q qs IH]; intros HF; cbn [iterM map]; [apply xconv2_ret; exact I|].
    inversion HF as [|? ? (H1 & H2 & H3) HF']; subst.
    apply (xconv2_seq t fl call purev anyQ _ (fun lf => lstep' lf (i, q)) _ (fun lf => iterM (lstep' lf) (map (fun q0 => (i, q0)) qs))); [|apply IH, HF'].
    unfold lstep. cbn [fst snd]. rewrite Hst. apply (stanza_conv2 t fl glob regexes find call okfn purev Hpure q H2 fuel st H1 H3).
  Qed.

  Lemma file_conv2 fuel : forall sts ms i,
    (forall j st, nth_error sts j = Some st -> nth_error (f_stanzas fl) (N.to_nat i + j) = Some st) ->
    file_ok2 okfn purev fl sts ms ->
    xconvU2 (exec_file t fl config0 glob regexes find call fuel sts ms) (fun lf => iterM (lstep' lf) (lmatches_from i ms)).
  Proof.
    induction sts as [|st sts IH]; intros [|qs ms] i Hnth Hok; cbn [exec_file lmatches_from file_ok2] in *; try (apply xconv2_ret; exact I); [contradiction|].
    destruct Hok as [Hqs Hrest].
    apply (xconv2_lext anyQ _ _ (fun lf => iterM (lstep' lf) (map (fun q => (i, q)) qs) ;;; iterM (lstep' lf) (lmatches_from (i + 1) ms))); [intros lf s p; apply iterM_app|].
    apply (xconv2_seq t fl call purev anyQ _ (fun lf => iterM (lstep' lf) (map (fun q => (i, q)) qs)) _ (fun lf => iterM (lstep' lf) (lmatches_from (i + 1) ms))).
    - apply stanza_matches_conv2; [|exact Hqs]. rewrite <- (Nat.add_0_r (N.to_nat i)). apply Hnth. reflexivity.
    - apply IH; [|exact Hrest]. intros j st' Hj. rewrite N2Nat.inj_add. change (N.to_nat 1) with 1%nat.
      replace (N.to_nat i + 1 + j)%nat with (N.to_nat i + S j)%nat by lia. apply Hnth. exact Hj.
  Qed.
End Whole2Conv.

(* adequacy: some lazy fuel suffices, and then every larger fuel gives the same graph *)
Theorem strict_lazy_adequate_scoped_lemma {rx : Type} t fl supplied (regexes : list rx) find call (okfn : ident -> Prop) (purev : ident -> bool) fuel ms g0 s p :
  (forall f, okfn f -> pure_fn call f) ->
  file_ok2 okfn purev fl (f_stanzas fl) ms ->
  run_strict t fl config0 supplied None regexes find call fuel ms g0 = Ok (s, p) ->
  inh_antichain t fl (s_scoped s) ->
  exists lfuel0, forall lfuel, (lfuel0 <= lfuel)%nat ->
    exists ls pl, run_lazy t fl config0 supplied None regexes find call lfuel (lmatches_of ms) g0 = Ok (ls, pl) /\ l_graph ls = s_graph s.
Proof.
  intros Hpure Hok Hs Hanti. unfold run_strict in Hs. unfold run_lazy.
  destruct (check_globals (f_globals fl) (globals_nested supplied)) as [glob|e|x|]; try discriminate.
  destruct (exec_file t fl config0 glob regexes find call fuel (f_stanzas fl) ms (sinit g0) (polls0 None)) as [[[u s1] p1]|e|x|] eqn:Es; try discriminate.
  inversion Hs; subst s1 p1; clear Hs.
  pose proof (file_conv2 t fl glob regexes find call okfn purev Hpure fuel (f_stanzas fl) ms 0 (fun j st H => H) Hok _ _ _ _ _ Es (linit g0) (polls0 None) (rel2_init t fl call purev g0) eq_refl) as Hx.
  assert (HC : convP (fun lf => lexec_file t fl config0 glob regexes find call lf (lmatches_of ms) (linit g0) (polls0 None)) (fun _ ls' _ => l_graph ls' = s_graph s)).
  { unfold lexec_file, lmatches_of.
    apply (convP_bind (fun lf => iterM (lstep t fl glob regexes find call lf) (lmatches_from 0 ms)) (fun lf _ => evaluate_phase t fl call (lf + default_eval_fuel))).
    eapply convP_mono; [exact Hx|]. intros _ ls1 pl1 (Hb1 & [w HR1] & _).
    apply (convP_reindex (fun F => evaluate_phase t fl call F ls1 pl1) (fun lf => (lf + default_eval_fuel)%nat)); [intros; lia|].
    apply (evaluate_phase_conv2 t fl call purev w s ls1 pl1 Hanti HR1 Hb1). }
  destruct HC as (B & u2 & ls2 & pl2 & HB & Hg). exists B. intros lfuel Hl. exists ls2, pl2. rewrite (HB lfuel Hl). auto.
Qed.
