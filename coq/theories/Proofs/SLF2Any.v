(* Proofs/SLF2Any.v — C02, failure direction WITH scoped variables for an ARBITRARY interleaving of the matches: the composition
   of strict_fail_lazy_fail_scoped_lemma (Proofs/SLF2File.v: lazy run on the blocks in strict order) with the success direction of
   the scoped block-order theorems of C08 read backwards (Proofs/ScPermRun.v `lazy_run_perm_scoped`, Proofs/ScThRun.v
   `lazy_run_perm_thunks`): a successful lazy run on a permutation ms' of the blocks would give a successful run on the strict
   order from some fuel on, which the theorem excludes at every fuel.  As in Proofs/SLAny.v the two fragments are different
   predicates; the intersection is the conjunction `file_ok2 .. ms /\ Forall (pm_ok2 fl okfn) (lmatches_of ms)` (or `pm_ok3 .. tnt` for
   scoped reads inside thunks), together with the static condition `inh_static` on the inherited names. *)
From Coq Require Import Permutation.
From TSG Require Import Model.Lazy Model.Run Proofs.MonadFacts Proofs.SLExpr Proofs.StrictLazy Proofs.SL2Whole
  Proofs.SLFailGraph Proofs.SLFailExpr Proofs.SLFailStmt Proofs.SLF2Expr Proofs.SLF2File
  Proofs.BlockPermRen Proofs.BlockPermGraph Proofs.ScPermExec Proofs.ScPermRun Proofs.ScThExec Proofs.ScThRun Proofs.SLAny Proofs.NoPanicStrict Proofs.NoPanicLazy.

Section Any2.
  Context {rx : Type}.
  Variables (t : tree) (fl : file) (supplied : globals) (regexes : list rx)
            (find : rx -> str -> option (list (option (N * N))))
            (call : ident -> graph -> list value -> res (value * graph)).
  Variable okfn : ident -> Prop.
  Hypothesis Hcall : forall f, okfn f -> call_ok call f.
  Variable g0 : graph.
  Hypothesis Hcl : gclosed (N.of_nat (length g0)) g0.
  Hypothesis Hglob : forall glob, check_globals (f_globals fl) (globals_nested supplied) = Ok glob ->
     forall name v, globals_get glob name = Some v -> vall (fun i => i < N.of_nat (length g0)) v.

  Notation lrun fuel ms := (run_lazy t fl config0 supplied None regexes find call fuel ms g0).
  Notation srun fuel ms := (run_strict t fl config0 supplied None regexes find call fuel ms g0).

  (* any block predicate with a "success is invariant under permutation, from some fuel on" theorem *)
  Lemma fail_any_order_generic (ok : N * qmatch -> Prop) :
    (forall fuel ms ms' ls p, Permutation ms ms' -> Forall ok ms -> lrun fuel ms = Ok (ls, p) ->
       exists fuel0, forall fuel', (fuel0 <= fuel')%nat -> exists ls' p', lrun fuel' ms' = Ok (ls', p')) ->
    forall (purev : ident -> bool) fuel ms e ms',
    call_graph_ext call ->
    file_ok2 okfn purev fl (f_stanzas fl) ms -> inh_static t fl ms -> Forall ok (lmatches_of ms) ->
    srun fuel ms = Err e -> okerr2 e ->
    Permutation (lmatches_of ms) ms' ->
    forall lfuel, match lrun lfuel ms' with Ok _ => False | Err _ | Panic _ | OutOfFuel => True end.
  Proof.
    intros Hperm purev fuel ms e ms' Hext Hok Hst Hok2 Hs He HP lfuel. destruct (lrun lfuel ms') as [[ls' pl']|e1|x|] eqn:E'; try exact I.
    assert (Hok' : Forall ok ms') by (eapply Forall_perm; [exact HP|exact Hok2]).
    destruct (Hperm lfuel ms' (lmatches_of ms) ls' pl' (Permutation_sym HP) Hok' E') as (f1 & Hf1).
    destruct (Hf1 f1 (le_n _)) as (ls & pl & E).
    pose proof (strict_fail_lazy_fail_scoped_lemma t fl supplied regexes find call okfn purev fuel ms g0 e (any_pure call okfn Hcall) (any_perr call okfn Hcall) Hext Hok Hst Hs He f1) as H.
    rewrite E in H. exact H.
  Qed.

  (* fragment v2 /\ scoped fragment of C08 (definitions with a capture as scope and a scoped-free value, reads in deferred positions) *)
  Theorem strict_fail_lazy_fail_any_order_scoped_lemma (purev : ident -> bool) fuel ms e ms' :
    call_graph_ext call ->
    file_ok2 okfn purev fl (f_stanzas fl) ms -> inh_static t fl ms -> Forall (pm_ok2 fl okfn) (lmatches_of ms) ->
    srun fuel ms = Err e -> okerr2 e ->
    Permutation (lmatches_of ms) ms' ->
    forall lfuel, match lrun lfuel ms' with Ok _ => False | Err _ | Panic _ | OutOfFuel => True end.
  Proof.
    apply (fail_any_order_generic (pm_ok2 fl okfn)). intros fuel0 ms0 ms0' ls p HP Hok E.
    destruct (lazy_run_perm_scoped t fl supplied regexes find call okfn Hcall g0 Hcl Hglob fuel0 ms0 ms0' ls p HP Hok E) as (r & r' & _ & _ & _ & f1 & Hf1).
    exists f1. intros f' Hf'. destruct (Hf1 f' Hf') as (ls' & p' & E1 & _). eauto.
  Qed.
  (* ... and the fragment with scoped reads inside thunks (taint `tnt` on variable names) *)
  Theorem strict_fail_lazy_fail_any_order_scoped_thunks_lemma (tnt : ident -> bool) (purev : ident -> bool) fuel ms e ms' :
    call_graph_ext call ->
    file_ok2 okfn purev fl (f_stanzas fl) ms -> inh_static t fl ms -> Forall (pm_ok3 fl okfn tnt) (lmatches_of ms) ->
    srun fuel ms = Err e -> okerr2 e ->
    Permutation (lmatches_of ms) ms' ->
    forall lfuel, match lrun lfuel ms' with Ok _ => False | Err _ | Panic _ | OutOfFuel => True end.
  Proof.
    apply (fail_any_order_generic (pm_ok3 fl okfn tnt)). intros fuel0 ms0 ms0' ls p HP Hok E.
    destruct (lazy_run_perm_thunks t fl supplied regexes find call okfn tnt Hcall g0 Hcl Hglob fuel0 ms0 ms0' ls p HP Hok E) as (r & r' & _ & _ & _ & f1 & Hf1).
    exists f1. intros f' Hf'. destruct (Hf1 f' Hf') as (ls' & p' & E1 & _). eauto.
  Qed.

  (* with the no-panic hypotheses: the lazy run in any order IS Err, unless the model runs out of fuel *)
  Theorem strict_fail_lazy_err_any_order_scoped_lemma (sok : N -> Prop) (purev : ident -> bool) fuel ms e ms' :
    call_graph_ext call ->
    file_ok2 okfn purev fl (f_stanzas fl) ms -> inh_static t fl ms -> Forall (pm_ok2 fl okfn) (lmatches_of ms) ->
    WellFormedFile regexes fl -> GoodMatchesLazy sok fl (lmatches_of ms) -> GoodGlobals sok g0 supplied -> GoodCall sok call ->
    srun fuel ms = Err e -> okerr2 e ->
    Permutation (lmatches_of ms) ms' ->
    forall lfuel, match lrun lfuel ms' with Err _ | OutOfFuel => True | Ok _ | Panic _ => False end.
  Proof.
    intros Hext Hok Hst Hok2 Hwf Hm Hg Hgc Hs He HP lfuel.
    pose proof (strict_fail_lazy_fail_any_order_scoped_lemma purev fuel ms e ms' Hext Hok Hst Hok2 Hs He HP lfuel) as H1.
    pose proof (exec_no_panic_lazy sok t fl config0 supplied None regexes find call lfuel ms' g0 Hwf (good_lazy_perm fl sok _ _ HP Hm) Hg Hgc) as H2.
    destruct (lrun lfuel ms') as [r|e1|x|]; [contradiction|exact I|exact (H2 x eq_refl)|exact I].
  Qed.
End Any2.

(* ---------------- the driver the correspondence harness evaluates ---------------- *)
Section RunOne2.
  Variables (t : tree) (r : run_in) (okfn : ident -> Prop) (g0 : graph).
  Hypothesis Hcall : forall f, okfn f -> call_ok (the_call t (ri_tbl r)) f.
  Hypothesis Hcl : gclosed (N.of_nat (length g0)) g0.
  Hypothesis Hglob : forall glob, check_globals (f_globals (ri_file r)) (globals_nested (ri_supplied r)) = Ok glob ->
     forall name v, globals_get glob name = Some v -> vall (fun i => i < N.of_nat (length g0)) v.
  Hypothesis HA3 : Permutation (lmatches_of (ri_smatches r)) (ri_lmatches r).

  Theorem strict_fail_lazy_fail_run_one_scoped_lemma (purev : ident -> bool) e :
    call_graph_ext (the_call t (ri_tbl r)) ->
    file_ok2 okfn purev (ri_file r) (f_stanzas (ri_file r)) (ri_smatches r) -> inh_static t (ri_file r) (ri_smatches r) ->
    Forall (pm_ok2 (ri_file r) okfn) (lmatches_of (ri_smatches r)) ->
    run_one t config0 None (with_lazy r false) g0 = Err e -> okerr2 e ->
    match run_one t config0 None (with_lazy r true) g0 with Ok _ => False | Err _ | Panic _ | OutOfFuel => True end.
  Proof.
    intros Hext Hok Hst Hok2 H He. apply run_one_strict_err in H.
    pose proof (strict_fail_lazy_fail_any_order_scoped_lemma t (ri_file r) (ri_supplied r) (ri_rxs r) rx_captures (the_call t (ri_tbl r)) okfn Hcall g0 Hcl Hglob
                  purev default_fuel (ri_smatches r) e (ri_lmatches r) Hext Hok Hst Hok2 H He HA3 default_fuel) as H1.
    rewrite run_one_lazy_eq.
    destruct (run_lazy t (ri_file r) config0 (ri_supplied r) None (ri_rxs r) rx_captures (the_call t (ri_tbl r)) default_fuel (ri_lmatches r) g0) as [[ls pl]|e1|x|]; exact H1.
  Qed.
End RunOne2.
