(* Proofs/ScPermExec.v — C08 WITH scoped variables, part 9: the EXECUTION PHASE on two block lists that differ by
   one exchange of adjacent blocks:  l1 ++ a :: b :: l2  and  l1 ++ b :: a :: l2.
   Both runs reach the same state after l1; the two orders of a, b reach states related by the exchange renaming
   (SR_swap, through block_shift2); every block of l2 then appends the same delta to both (same_size, SR_step).
   If one run succeeds so does the other, and the final states are related by SR, the first one typed. *)
From Coq Require Import Permutation.
From TSG Require Import Model.Lazy Proofs.BaseFacts Proofs.Containers Proofs.MonadFacts Proofs.SLForce Proofs.SLExpr Proofs.BlockPermRen Proofs.BlockPermSim Proofs.BlockPermDepth Proofs.BlockPermSwap
  Proofs.BlockPermExec Proofs.BlockPermGraph Proofs.ScPermSound Proofs.ScPermSim Proofs.ScPermSwap Proofs.ScPermTyped Proofs.ScPermSR.

Lemma iterM_app {S A} (f : A -> M S unit) l1 l2 : forall s p, iterM f (l1 ++ l2) s p = (iterM f l1 ;;; iterM f l2) s p.
Proof.
  induction l1 as [|x l1 IH]; intros s p; cbn [app iterM]; [reflexivity|]. unfold bind. destruct (f x s p) as [[[u s1] p1]|e|y|]; [|reflexivity..].
  rewrite IH. unfold bind. reflexivity.
Qed.

Section Exec2.
  Context {rx : Type}.
  Variables (t : tree) (fl : file) (glob : globals) (regexes : list rx)
            (find : rx -> str -> option (list (option (N * N))))
            (call : ident -> graph -> list value -> res (value * graph)).
  Variable okfn : ident -> Prop.
  Hypothesis Hcall : forall f, okfn f -> call_ok call f.
  Variable g0 : graph.
  Notation n0 := (N.of_nat (length g0)).
  Hypothesis Hglob : forall name v, globals_get glob name = Some v -> vall (fun i => i < n0) v.

  Notation step fuel := (bstep t fl config0 glob regexes find call fuel).
  Notation run st qm fuel := (lexec_stanza t fl config0 glob regexes find call fuel st qm).
  Definition pm_ok2 (pm : N * qmatch) : Prop := forall st, nth_error (f_stanzas fl) (N.to_nat (fst pm)) = Some st -> block_ok2 fl okfn st (snd pm).

  Lemma Hea0 : forall l : loc, ea0 (match c_loc_attr config0 with Some k => [(k, VStr (loc_text l))] | None => [] end).
  Proof. intros l. reflexivity. Qed.

  (* a state between blocks *)
  Definition bst (bds : list bdesc) (s : lstate) : Prop := styped okfn g0 bds s /\ n0 <= gn s /\ one_frame s.
  Lemma bst_init : bst [] (linit g0).
  Proof. split; [apply styped_init|]. split; [unfold gn; cbn; lia|reflexivity]. Qed.
  Lemma bst_unf bds s : bst bds s -> allunf (l_scoped s). Proof. intros ((_ & _ & _ & _ & _ & (H & _) & _) & _). exact H. Qed.

  Lemma exec_block bds s st qm fuel p : bst bds s -> block_ok2 fl okfn st qm -> nob p ->
    match run st qm fuel s p with
    | Ok (_, s1, p1) => nob p1 /\ exists d, extends2 s d s1 /\ delta_ok2 ea0 okfn n0 (gn s) (sn s) d /\ bst (bds ++ [mkdesc s s1]) s1
    | _ => True
    end.
  Proof.
    intros (Ht & Hn & Hf) Hok Hb. pose proof (bst_unf bds s (conj Ht (conj Hn Hf))) as Hu.
    pose proof (block_shift2 t fl config0 glob regexes find call ea0 okfn n0 Hea0 Hcall Hglob st qm fuel s s p Hok Hn Hn Hf Hf Hu Hu) as H.
    destruct (run st qm fuel s p) as [[[u s1] p1]|e|x|] eqn:E; try exact I. destruct H as (d & s2 & _ & X & _ & Od).
    split; [eapply run_nob; eauto|]. exists d. split; [exact X|]. split; [exact Od|]. destruct (extends2_sizes _ _ _ X) as (G & _ & F & _).
    split; [apply (styped_step okfn g0 bds s d s1 Ht Hn X Od)|]. split; [lia|apply F, Hf].
  Qed.

  Lemma exec_prefix fuel : forall l bds s p, bst bds s -> Forall pm_ok2 l -> nob p ->
    match iterM (step fuel) l s p with
    | Ok (_, s', p') => nob p' /\ exists bds', bst bds' s'
    | _ => True
    end.
  Proof.
    induction l as [|pm l IH]; intros bds s p Hs Hok Hb; cbn [iterM].
    - split; [exact Hb|]. exists bds. exact Hs.
    - inversion Hok as [|? ? Hpm Hrest]; subst. unfold bind, bstep at 1. destruct (nth_error (f_stanzas fl) (N.to_nat (fst pm))) as [st|] eqn:Est; [|exact I].
      pose proof (exec_block bds s st (snd pm) fuel p Hs (Hpm st Est) Hb) as H. destruct (run st (snd pm) fuel s p) as [[[u s1] p1]|e|x|]; try exact I.
      destruct H as (Hb1 & d & _ & _ & Hs1). apply (IH _ s1 p1 Hs1 Hrest Hb1).
  Qed.

  (* two runs on related states of equal sizes *)
  Definition SRT (rg rl : N -> N) (bds : list bdesc) (s s' : lstate) : Prop :=
    SR g0 rg rl s s' /\ bst bds s /\ one_frame s' /\ gn s' = gn s /\ sn s' = sn s /\
    (forall i, i < n0 \/ gn s <= i -> rg i = i) /\ (forall l, sn s <= l -> rl l = l) /\
    (forall d, In d bds -> forall i j, bD n0 d i -> bD n0 d j -> i < j -> rg i < rg j).

  Lemma exec_suffix rg rl fuel : forall l bds s s' p p2, SRT rg rl bds s s' -> Forall pm_ok2 l -> nob p -> nob p2 ->
    match iterM (step fuel) l s p with
    | Ok (_, s1, p1) => exists s1' p1' bds1, iterM (step fuel) l s' p2 = Ok (tt, s1', p1') /\ nob p1 /\ nob p1' /\ SRT rg rl bds1 s1 s1'
    | _ => True
    end.
  Proof.
    induction l as [|pm l IH]; intros bds s s' p p2 HS Hok Hb Hb2; cbn [iterM].
    - exists s', p2, bds. split; [reflexivity|]. auto.
    - inversion Hok as [|? ? Hpm Hrest]; subst. unfold bind, bstep at 1 3. destruct (nth_error (f_stanzas fl) (N.to_nat (fst pm))) as [st|] eqn:Est; [|exact I].
      destruct HS as (HSR & Hs & Hf' & Eg & Es & Hrg & Hrl & Hmono). pose proof Hs as (Ht & Hn & Hf). pose proof (bst_unf _ _ Hs) as Hu.
      assert (Hu' : allunf (l_scoped s')) by apply HSR.
      pose proof (same_size t fl config0 glob regexes find call ea0 okfn n0 Hea0 Hcall Hglob st (snd pm) fuel s s' p (Hpm st Est) Hn Eg Es Hf Hf' Hu Hu') as H.
      pose proof (run_repoll t fl config0 glob regexes find call st (snd pm) fuel s' p p2 Hb Hb2) as RP.
      destruct (run st (snd pm) fuel s p) as [[[u s1] p1]|e|x|] eqn:E1; try exact I. destruct H as (d & s1' & E1' & X & X' & Od). rewrite E1' in RP.
      destruct RP as (q' & RP & Hq'). rewrite RP.
      destruct (extends2_sizes _ _ _ X) as (G & K & F & _). destruct (extends2_sizes _ _ _ X') as (G' & K' & F' & _).
      assert (HS1 : SRT rg rl (bds ++ [mkdesc s s1]) s1 s1').
      { split; [apply (SR_step okfn g0 rg rl s s' d s1 s1' HSR Hn Hrg Hrl Hu X X' Od)|].
        split; [split; [apply (styped_step okfn g0 bds s d s1 Ht Hn X Od)|split; [lia|apply F, Hf]]|]. split; [apply F', Hf'|]. split; [lia|]. split; [lia|].
        split; [intros i Hi; apply Hrg; lia|]. split; [intros l0 Hl; apply Hrl; lia|].
        intros d0 Hin i j Hi Hj Hlt. apply in_app_or in Hin as [Hin|[<-|[]]]; [apply (Hmono d0 Hin i j Hi Hj Hlt)|].
        unfold bD, mkdesc in Hi, Hj. cbn [b_glo b_ghi] in Hi, Hj. rewrite (Hrg i), (Hrg j); [exact Hlt| |]; lia. }
      assert (Hb1 : nob p1) by (eapply run_nob; [exact Hb|exact E1]).
      apply (IH _ s1 s1' p1 q' HS1 Hrest Hb1 Hq').
  Qed.

  (* ================= one exchange of adjacent blocks ================= *)
  Theorem exec_swap fuel l1 a b l2 p u S pS : Forall pm_ok2 (l1 ++ a :: b :: l2) -> nob p ->
    iterM (step fuel) (l1 ++ a :: b :: l2) (linit g0) p = Ok (u, S, pS) ->
    exists S' pS' bds rg rl rg' rl', iterM (step fuel) (l1 ++ b :: a :: l2) (linit g0) p = Ok (tt, S', pS') /\ nob pS /\ nob pS' /\ SRT rg rl bds S S' /\
      (forall i, rg' (rg i) = i) /\ (forall i, rg (rg' i) = i) /\ (forall l, rl' (rl l) = l) /\ (forall l, rl (rl' l) = l).
  Proof.
    intros Hok Hb H. apply Forall_app in Hok as [Hok1 Hok2]. inversion Hok2 as [|? ? Ha Hok3]; subst. inversion Hok3 as [|? ? Hbk Hok4]; subst.
    rewrite iterM_app in H. rewrite iterM_app. unfold bind at 1 in H. unfold bind at 1.
    pose proof (exec_prefix fuel l1 [] (linit g0) p bst_init Hok1 Hb) as HP.
    destruct (iterM (step fuel) l1 (linit g0) p) as [[[u1 X] pX]|e|x|] eqn:EX; try discriminate. destruct HP as (HbX & bdsX & HX).
    pose proof HX as (HtX & HnX & HfX). pose proof (bst_unf _ _ HX) as HuX.
    cbn [iterM] in H. cbn [iterM]. unfold bind at 1, bstep at 1 in H. unfold bind at 1, bstep at 1.
    destruct (nth_error (f_stanzas fl) (N.to_nat (fst a))) as [stA|] eqn:EstA; [|discriminate].
    destruct (run stA (snd a) fuel X pX) as [[[uA XA] pA]|e|x|] eqn:EA; try discriminate.
    unfold bind at 1, bstep at 1 in H. destruct (nth_error (f_stanzas fl) (N.to_nat (fst b))) as [stB|] eqn:EstB; [|discriminate].
    destruct (run stB (snd b) fuel XA pA) as [[[uB SAB] pAB]|e|x|] eqn:EAB; try discriminate.
    (* the actual run: X -> XA -> SAB, typed *)
    pose proof (exec_block bdsX X stA (snd a) fuel pX HX (Ha stA EstA) HbX) as HA1. rewrite EA in HA1. destruct HA1 as (HbA & dA0 & _ & _ & HXA).
    pose proof HXA as (HtXA & HnXA & HfXA). pose proof (bst_unf _ _ HXA) as HuXA.
    pose proof (exec_block _ XA stB (snd b) fuel pA HXA (Hbk stB EstB) HbA) as HB1. rewrite EAB in HB1. destruct HB1 as (HbAB & dB0 & _ & _ & HSAB).
    (* B from X and from XA *)
    pose proof (block_shift2 t fl config0 glob regexes find call ea0 okfn n0 Hea0 Hcall Hglob stB (snd b) fuel X XA pX (Hbk stB EstB) HnX HnXA HfX HfXA HuX HuXA) as SB.
    pose proof (run_repoll t fl config0 glob regexes find call stB (snd b) fuel XA pX pA HbX HbA) as RB.
    destruct (run stB (snd b) fuel X pX) as [[[uB0 XB] pB]|e|x|] eqn:EB.
    2:{ rewrite SB in RB. congruence. } 2:{ rewrite SB in RB. congruence. } 2:{ rewrite SB in RB. congruence. }
    destruct SB as (dB & SAB0 & ESAB0 & XdB & XdBA & OdB). rewrite ESAB0 in RB. destruct RB as (q1 & RB & _). rewrite EAB in RB. inversion RB; subst SAB0 q1. clear RB.
    assert (HbB : nob pB) by (eapply run_nob; [exact HbX|exact EB]).
    destruct (extends2_sizes _ _ _ XdB) as (GB & KB & FB & UB).
    (* A from XB *)
    pose proof (block_shift2 t fl config0 glob regexes find call ea0 okfn n0 Hea0 Hcall Hglob stA (snd a) fuel X XB pX (Ha stA EstA) HnX ltac:(lia) HfX (FB HfX) HuX (UB HuX)) as SA.
    rewrite EA in SA. destruct SA as (dA & SBA & ESBA & XdA & XdAB & OdA).
    pose proof (run_repoll t fl config0 glob regexes find call stA (snd a) fuel XB pX pB HbX HbB) as RA. rewrite ESBA in RA. destruct RA as (q2 & RA & Hq2).
    unfold bind at 1, bstep at 1. rewrite EstA, RA.
    (* the two states after the exchanged pair *)
    pose proof (SR_swap okfn g0 bdsX X XA SAB XB SBA dA dB HtX HnX OdA OdB XdA XdB XdBA XdAB) as HSR.
    destruct (extends2_sizes _ _ _ XdA) as (GA & KA & _). destruct (extends2_sizes _ _ _ XdBA) as (GAB & KAB & _). destruct (extends2_sizes _ _ _ XdAB) as (GBA & KBA & FBA & _).
    cbn [dren2 e_nodes e_thunks] in GAB, KAB, GBA, KBA. rewrite map_length in KAB, KBA.
    assert (HS : SRT (srg X dA dB) (srl X dA dB) ((bdsX ++ [mkdesc X XA]) ++ [mkdesc XA SAB]) SAB SBA).
    { split; [exact HSR|]. split; [exact HSAB|]. split; [apply FBA, FB, HfX|]. split; [lia|]. split; [lia|].
      split; [apply (srg_out g0 X XA SAB dA dB HnX XdA XdBA)|]. split; [apply (srl_out g0 X XA SAB dA dB HnX XdA XdBA)|].
      intros d Hin. apply in_app_or in Hin as [Hin|[<-|[]]]; [apply in_app_or in Hin as [Hin|[<-|[]]]|].
      - apply (srg_mono_X okfn g0 bdsX X dA dB HtX HnX d Hin).
      - apply (srg_mono_A g0 X XA dA dB HnX XdA).
      - apply (srg_mono_B g0 X XA SAB dA dB HnX XdA XdBA). }
    pose proof (exec_suffix (srg X dA dB) (srl X dA dB) fuel l2 _ SAB SBA pAB q2 HS Hok4 HbAB Hq2) as HT.
    destruct (iterM (step fuel) l2 SAB pAB) as [[[u2 S2] p2]|e|x|]; try discriminate. inversion H; subst u S pS; clear H.
    destruct HT as (S' & pS' & bds1 & ES' & Hb2 & Hb2' & HS2).
    exists S', pS', bds1, (srg X dA dB), (srl X dA dB), (swp (gn X) (N.of_nat (length (e_nodes dB))) (N.of_nat (length (e_nodes dA)))),
      (swp (sn X) (N.of_nat (length (e_thunks dB))) (N.of_nat (length (e_thunks dA)))).
    split; [exact ES'|]. split; [exact Hb2|]. split; [exact Hb2'|]. split; [exact HS2|].
    split; [intros i; apply swp_inv|]. split; [intros i; apply swp_inv|]. split; [intros i; apply swp_inv|intros i; apply swp_inv].
  Qed.
End Exec2.
