(* Proofs/SLF2File.v — C02, failure direction with scoped variables, part 7: files and the theorem.
   The static side condition on inherited names: `inh_static t fl ms` — there is a family D of syntax nodes per name such that
   every definition of an inherited name, in every statement (at any depth) of every stanza, has a CAPTURE as its scope
   expression whose nodes in every supplied match lie in D (`file_sdef`), and D is an antichain of the tree for every
   inherited name.  It is the static counterpart of `inh_antichain` (Proofs/SL2Whole.v, a condition on the FINAL strict store):
   a failing strict run has no final store, and the condition must also cover the definitions strict execution never
   reached — after the failure point lazy execution goes on, and a later definition on a NEARER ancestor would change the
   value that a read before the failure point resolves to (witness sr2 of Proofs/SLF2Example.v). *)
From TSG Require Import Model.Lazy Model.Stdlib Proofs.BaseFacts Proofs.Containers Proofs.MonadFacts Proofs.StrictMeta
  Proofs.SLGraph Proofs.SLForce Proofs.SLExpr Proofs.SLConv Proofs.SLStmt Proofs.StrictLazy Proofs.Extends Proofs.Scoped
  Proofs.SL2Force Proofs.SL2Expr Proofs.SL2Stmt Proofs.SL2Whole Proofs.SLFailGraph Proofs.SLFailStore Proofs.SLFailEval Proofs.SLFailExpr Proofs.SLFailStmt
  Proofs.SLF2Store Proofs.SLF2Jok Proofs.SLF2Eval Proofs.SLF2Expr Proofs.SLF2Stmt Proofs.SLF2Whole.
From TSG Require Proofs.NoPanicStrict Proofs.NoPanicLazy.

Fixpoint file_sdef (fl : file) (D : ident -> N -> Prop) (sts : list stanza) (ms : list (list qmatch)) : Prop :=
  match sts, ms with
  | st :: sts', q :: ms' => Forall (fun m => All (sdef fl D m) (st_stmts st)) q /\ file_sdef fl D sts' ms'
  | _, _ => True
  end.
Definition inh_static (t : tree) (fl : file) (ms : list (list qmatch)) : Prop :=
  exists D : ident -> N -> Prop, file_sdef fl D (f_stanzas fl) ms /\
    forall name n a, inherited fl name = true -> D name n -> D name a -> In a (anc t n) -> False.

(* without inherited names the condition is void *)
Lemma sdef_nil fl D m : f_inherited fl = [] -> forall s, sdef fl D m s.
Proof.
  intros E. assert (Hv : forall v, inh_scope_ok fl D m v).
  { intros [x l|sc name l]; cbn [inh_scope_ok]; [exact I|]. unfold inherited. rewrite E. discriminate. }
  fix IH 1. intros s. destruct s; cbn [sdef]; try exact I; try apply Hv.
  - revert arms. fix IHarms 1. intros [|[[r body] l'] arms]; cbn [All]; [exact I|]. split; [|apply IHarms]. cbn [fst snd].
    revert body. fix IHb 1. intros [|st body]; cbn [All]; [exact I|]. split; [apply IH|apply IHb].
  - revert arms. fix IHarms 1. intros [|[[conds body] l'] arms]; cbn [All]; [exact I|]. split; [|apply IHarms]. cbn [fst snd].
    revert body. fix IHb 1. intros [|st body]; cbn [All]; [exact I|]. split; [apply IH|apply IHb].
  - revert body. fix IHb 1. intros [|st body]; cbn [All]; [exact I|]. split; [apply IH|apply IHb].
Qed.
Lemma inh_static_nil t fl ms : f_inherited fl = [] -> inh_static t fl ms.
Proof.
  intros E. exists (fun _ _ => False). split; [|intros name n a _ []].
  generalize (f_stanzas fl). intros sts. revert ms. induction sts as [|st sts IH]; intros [|q ms]; cbn [file_sdef]; try exact I. split; [|apply IH].
  apply Forall_forall. intros m _. induction (st_stmts st) as [|s l IHl]; cbn [All]; [exact I|]. split; [apply sdef_nil, E|exact IHl].
Qed.

Lemma Forall_All {A} (P : A -> Prop) l : Forall P l -> All P l.
Proof. intros H. induction H; cbn [All]; auto. Qed.

Section FailWhole2.
  Context {rx : Type}.
  Variables (t : tree) (fl : file) (glob : globals) (regexes : list rx)
            (find : rx -> str -> option (list (option (N * N))))
            (call : ident -> graph -> list value -> res (value * graph)).
  Variable okfn : ident -> Prop.
  Variable purev : ident -> bool.
  Hypothesis Hpure : forall f, okfn f -> pure_fn call f.
  Hypothesis Hperr : forall f, okfn f -> pure_err_fn call f.
  Hypothesis Hcall : call_graph_ext call.
  Variable D : ident -> N -> Prop.
  Hypothesis Hanti : forall name n a, inherited fl name = true -> D name n -> D name a -> In a (anc t n) -> False.

  Notation fsim2 := (fsim2 t fl call purev D).
  Notation dpres2 := (dpres2 call t fl D).
  Notation lstep' := (lstep t fl glob regexes find call).

  (* the matches still to be executed satisfy the static condition *)
  Definition pm_sdef (pm : N * qmatch) : Prop := forall st, nth_error (f_stanzas fl) (N.to_nat (fst pm)) = Some st -> All (sdef fl D (snd pm)) (st_stmts st).
  Lemma dpres2_lstep lf pm : pm_sdef pm -> dpres2 (lstep' lf pm).
  Proof.
    intros H. unfold StrictLazy.lstep. destruct (nth_error (f_stanzas fl) (N.to_nat (fst pm))) as [st|] eqn:E; [apply dpres2_lexec_stanza; [exact Hcall|exact Hanti|apply (H st E)]|].
    apply dpres2_noresult; try assumption. discriminate.
  Qed.
  Lemma lmatches_sdef : forall sts ms i,
    (forall j st, nth_error sts j = Some st -> nth_error (f_stanzas fl) (N.to_nat i + j) = Some st) ->
    file_ok2 okfn purev fl sts ms -> file_sdef fl D sts ms -> Forall pm_sdef (lmatches_from i ms).
  Proof.
    induction sts as [|st sts IH]; intros [|qs ms] i Hnth Hok Hs; cbn [lmatches_from file_sdef file_ok2] in *; try constructor; [contradiction|].
    destruct Hs as [Hq Hrest]. destruct Hok as [_ Hok]. apply Forall_app. split.
    - apply Forall_forall. intros pm Hin. apply in_map_iff in Hin. destruct Hin as (q & <- & Hq'). intros st0 E. cbn [fst snd] in *.
      assert (Est : nth_error (f_stanzas fl) (N.to_nat i) = Some st) by (rewrite <- (Nat.add_0_r (N.to_nat i)); apply Hnth; reflexivity).
      rewrite Est in E. inversion E; subst st0. rewrite Forall_forall in Hq. apply Hq, Hq'.
    - apply IH; [|exact Hok|exact Hrest]. intros j st' Hj. rewrite N2Nat.inj_add. change (N.to_nat 1) with 1%nat. replace (N.to_nat i + 1 + j)%nat with (N.to_nat i + S j)%nat by lia. apply Hnth. exact Hj.
  Qed.

  Notation xsimF := (xsimF t fl call purev D).
  Lemma stanza_matches_fail2 fuel lf st i : nth_error (f_stanzas fl) (N.to_nat i) = Some st ->
    forall qs, Forall (match_ok2 okfn purev fl st) qs -> Forall (fun q => All (sdef fl D q) (st_stmts st)) qs ->
    xsimF (@anyQ unit unit) (iterM (exec_stanza t fl config0 glob regexes find call fuel st) qs) (iterM (lstep' lf) (map (fun q => (i, q)) qs)) /\
    fsim2 (iterM (exec_stanza t fl config0 glob regexes find call fuel st) qs) (iterM (lstep' lf) (map (fun q => (i, q)) qs)) /\
    dpres2 (iterM (lstep' lf) (map (fun q => (i, q)) qs)).
  Proof.
    intros Hst. induction qs as [|q qs IH]; intros HF HS; cbn [iterM map].
    - split; [apply xsimF_ret; exact I|]. split; [apply fsim2_noerr; discriminate|apply dpres2_ret].
    - inversion HF as [|? ? (H1 & H2 & H3) HF']; subst. inversion HS as [|? ? Hsq HS']; subst. destruct (IH HF' HS') as (IX & IFl & ID).
      assert (Hx : xsimF (@anyQ unit unit) (exec_stanza t fl config0 glob regexes find call fuel st q) (lstep' lf (i, q))).
      { unfold StrictLazy.lstep. cbn [fst snd]. rewrite Hst. split; [apply (stanza_sim2 t fl glob regexes find call okfn purev Hpure q H2 fuel lf st H1 H3)|].
        apply ck_lexec_stanza; [exact Hanti|exact Hsq]. }
      assert (Hd : dpres2 (lstep' lf (i, q))).
      { apply dpres2_lstep. intros st0 E. cbn [fst snd] in *. rewrite Hst in E. inversion E; subst st0. exact Hsq. }
      split; [|split].
      + destruct Hx as [X1 X2], IX as [Y1 Y2]. split; [apply xsim2_seq; assumption|apply ck_bind; [exact X2|intros _; exact Y2]].
      + apply fsim2_seq; [exact Hx| |exact ID|exact IFl].
        unfold StrictLazy.lstep. cbn [fst snd]. rewrite Hst. apply (stanza_fail2 t fl glob regexes find call okfn purev Hpure Hperr Hcall D Hanti q H2 fuel lf st H1 Hsq H3).
      + apply dpres2_bind; [exact Hd|intros _; exact ID].
  Qed.

  Lemma file_fail2 fuel lf : forall sts ms i,
    (forall j st, nth_error sts j = Some st -> nth_error (f_stanzas fl) (N.to_nat i + j) = Some st) ->
    file_ok2 okfn purev fl sts ms -> file_sdef fl D sts ms ->
    fsim2 (exec_file t fl config0 glob regexes find call fuel sts ms) (iterM (lstep' lf) (lmatches_from i ms)).
  Proof.
    induction sts as [|st sts IH]; intros [|qs ms] i Hnth Hok Hs; cbn [exec_file lmatches_from file_ok2 file_sdef] in *; try (apply fsim2_noerr; discriminate).
    destruct Hok as [Hqs Hrest]. destruct Hs as [Hsq Hsrest]. eapply fsim2_lext; [intros s p; apply iterM_app|].
    assert (Hst : nth_error (f_stanzas fl) (N.to_nat i) = Some st) by (rewrite <- (Nat.add_0_r (N.to_nat i)); apply Hnth; reflexivity).
    assert (Hn : forall j st', nth_error sts j = Some st' -> nth_error (f_stanzas fl) (N.to_nat (i + 1) + j) = Some st').
    { intros j st' Hj. rewrite N2Nat.inj_add. change (N.to_nat 1) with 1%nat. replace (N.to_nat i + 1 + j)%nat with (N.to_nat i + S j)%nat by lia. apply Hnth. exact Hj. }
    destruct (stanza_matches_fail2 fuel lf st i Hst qs Hqs Hsq) as (SX & SF & SD).
    apply fsim2_seq; [exact SX|exact SF| |apply IH; assumption].
    apply (dpres2_iterM_All call t fl D pm_sdef); [intros pm Hpm; apply dpres2_lstep, Hpm|]. apply Forall_All. apply (lmatches_sdef sts ms (i + 1) Hn Hrest Hsrest).
  Qed.
End FailWhole2.

(* ---------------- the theorems ---------------- *)
Theorem strict_fail_lazy_fail_scoped_lemma {rx : Type} t fl supplied (regexes : list rx) find call (okfn : ident -> Prop) (purev : ident -> bool) fuel ms g0 e :
  (forall f, okfn f -> pure_fn call f) -> (forall f, okfn f -> pure_err_fn call f) -> call_graph_ext call ->
  file_ok2 okfn purev fl (f_stanzas fl) ms -> inh_static t fl ms ->
  run_strict t fl config0 supplied None regexes find call fuel ms g0 = Err e -> okerr2 e ->
  forall lfuel,
    match run_lazy t fl config0 supplied None regexes find call lfuel (lmatches_of ms) g0 with
    | Ok _ => False
    | Err _ | Panic _ | OutOfFuel => True
    end.
Proof.
  intros Hpure Hperr Hcall Hok (D & Hsd & Hanti) Hs Ho lfuel. unfold run_strict in Hs. unfold run_lazy.
  destruct (check_globals (f_globals fl) (globals_nested supplied)) as [glob|e0|x|]; try discriminate; [|exact I].
  destruct (exec_file t fl config0 glob regexes find call fuel (f_stanzas fl) ms (sinit g0) (polls0 None)) as [[[u s1] p1]|e0|x|] eqn:Es; try discriminate.
  inversion Hs; subst e0; clear Hs.
  assert (HR0 : RelF t fl call purev D (sinit g0) (linit g0)) by (split; [apply rel2_init|apply CD_init]).
  pose proof (file_fail2 t fl glob regexes find call okfn purev Hpure Hperr Hcall D Hanti fuel lfuel (f_stanzas fl) ms 0 (fun j st H => H) Hok Hsd _ _ _ Es Ho (linit g0) (polls0 None) HR0 eq_refl) as Hx.
  unfold lexec_file. fold (lstep t fl glob regexes find call lfuel). unfold lmatches_of.
  unfold bind. destruct (iterM (lstep t fl glob regexes find call lfuel) (lmatches_from 0 ms) (linit g0) (polls0 None)) as [[[u1 ls1] pl1]|e1|x1|]; cbn [nres] in Hx; try exact I.
  pose proof (evaluate_doomed2 call Hcall t fl D Hanti (lfuel + default_eval_fuel) ls1 pl1 Hx) as Hv.
  destruct (evaluate_phase t fl call (lfuel + default_eval_fuel) ls1 pl1) as [[[u2 ls2] pl2]|e2|x2|]; cbn in Hv; [contradiction|exact I|exact I|exact I].
Qed.

(* with the hypotheses of the no-panic theorem of the lazy interpreter (Proofs/NoPanicLazy.v): lazy execution fails, or
   the model runs out of fuel *)
Theorem strict_fail_lazy_err_scoped_lemma {rx : Type} (sok : N -> Prop) t fl supplied (regexes : list rx) find call (okfn : ident -> Prop) (purev : ident -> bool) fuel ms g0 e :
  (forall f, okfn f -> pure_fn call f) -> (forall f, okfn f -> pure_err_fn call f) -> call_graph_ext call ->
  file_ok2 okfn purev fl (f_stanzas fl) ms -> inh_static t fl ms ->
  NoPanicStrict.WellFormedFile regexes fl -> NoPanicLazy.GoodMatchesLazy sok fl (lmatches_of ms) -> NoPanicStrict.GoodGlobals sok g0 supplied ->
  NoPanicStrict.GoodCall sok call ->
  run_strict t fl config0 supplied None regexes find call fuel ms g0 = Err e -> okerr2 e ->
  forall lfuel,
    match run_lazy t fl config0 supplied None regexes find call lfuel (lmatches_of ms) g0 with
    | Err _ | OutOfFuel => True
    | Ok _ | Panic _ => False
    end.
Proof.
  intros Hpure Hperr Hcall Hok Hst Hwf Hm Hg Hgc Hs Ho lfuel.
  pose proof (strict_fail_lazy_fail_scoped_lemma t fl supplied regexes find call okfn purev fuel ms g0 e Hpure Hperr Hcall Hok Hst Hs Ho lfuel) as H1.
  pose proof (NoPanicLazy.exec_no_panic_lazy sok t fl config0 supplied None regexes find call lfuel (lmatches_of ms) g0 Hwf Hm Hg Hgc) as H2.
  destruct (run_lazy t fl config0 supplied None regexes find call lfuel (lmatches_of ms) g0) as [r|e1|x|]; [contradiction|exact I|exact (H2 x eq_refl)|exact I].
Qed.
