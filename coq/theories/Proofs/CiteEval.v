(* Proofs/CiteEval.v — C20, lazy mode: WHICH statement the context of an error cites, for the value
   evaluator (values.rs, store.rs): thunks and the pending definitions of scoped variables.

   with_context keeps the innermost statement context, so an error raised while a thunk is forced cites
   the debug info stored with the INNERMOST thunk whose own body failed (the statement that created the
   failing value), not the deferred statement / outer thunk that triggered the forcing.

     same_dbgs s0 s      : s has the same thunk debug infos as s0 and every still-pending scoped definition
                           list of s is that of s0 (the evaluator only changes thunk/cell STATES);
     thunk_direct s0 loc d e1 : thunk `loc` (debug info d) was forced in such a state and its own body returned
                           e1, an error WITHOUT statement context (so not raised inside another thunk);
     scope_direct s0 scope e1 : the same for the evaluation of the scope expression of a pending definition;
     origin s0 e         : e = InContext(Statement [d], e1) for a thunk of s0 that failed directly, or
                           InContext(Statement [dbg], InContext(Other, e1)) for a pending definition whose scope
                           failed directly, or InContext(Statement [d1; d2], DuplicateVariable) for two pending
                           definitions of one scoped variable, d1 the EARLIER one in the list.
   Main lemma (ev_eval_all): every error of eval_lv / force_thunk / force_scoped from a state with
   same_dbgs s0 is a cancellation, unwrapped (eval_lv, force_scoped only), or has `origin s0`. *)
From TSG Require Import Model.Strict Model.Lazy.
From TSG Require Import Proofs.BaseFacts Proofs.Containers Proofs.MonadFacts Proofs.StrictMeta Proofs.Captures Proofs.ErrorCtx Proofs.ErrorCtxValid.

Definition store_dbgs (s : lstate) : list stmt_ctx := map th_dbg (l_store s).
Definition same_dbgs (s0 s : lstate) : Prop :=
  store_dbgs s = store_dbgs s0 /\
  forall name ps, alist_get name (l_scoped s) = Some (SVUnforced ps) -> alist_get name (l_scoped s0) = Some (SVUnforced ps).
Lemma same_dbgs_refl s : same_dbgs s s.
Proof. split; [reflexivity|auto]. Qed.

(* a statement context is never added over an unwrapped error without making it "not unwrapped" *)
Lemma stmt_ctx_not_unwrapped cs e : ~ unwrapped (EInContext (CtxStmts cs) e).
Proof. intros H. inversion H as [e' Hb|e' Hu]; subst. cbn in Hb. exact Hb. Qed.
Lemma cancelled_not_unwrapped l : ~ unwrapped (ECancelled l).
Proof. intros H. inversion H as [e' Hb|e' Hu]; subst. cbn in Hb. exact Hb. Qed.
Lemma add_stmts_not_unwrapped cs e : ~ unwrapped (add_context (CtxStmts cs) e).
Proof.
  destruct e; cbn [add_context]; try apply stmt_ctx_not_unwrapped; try apply cancelled_not_unwrapped.
  destruct c; apply stmt_ctx_not_unwrapped.
Qed.
Lemma unwrapped_add_other' e : unwrapped e -> add_context CtxOther e = EInContext CtxOther e.
Proof. intros H. destruct H as [e Hb|e H]; [|reflexivity]. destruct e; cbn in *; try contradiction; reflexivity. Qed.

Lemma map_list_update_same {A B} (g : A -> B) (f : A -> A) : (forall x, g (f x) = g x) -> forall k l, map g (list_update k f l) = map g l.
Proof. intros H. induction k as [|k IH]; intros [|x l]; cbn [list_update map]; try reflexivity; [rewrite H|rewrite IH]; reflexivity. Qed.

Section CiteEval.
  Variables (t : tree) (fl : file) (call : ident -> graph -> list value -> res (value * graph)).
  Hypothesis Hcall : call_errors_base call.

  Notation LM := (M lstate).
  Notation eval_lv' := (eval_lv t fl call).
  Notation force_thunk' := (force_thunk t fl call).
  Notation force_scoped' := (force_scoped t fl call).

  (* what force_thunk runs inside the thunk's statement context *)
  Definition thunk_body (fuel : nat) (loc : N) (th : thunk) : LM value :=
    match th_state th with
    | TUnforced inner =>
        store_set_state loc TForcing ;;;
        v <- eval_lv' fuel inner ;;
        store_set_state loc (TForced v) ;;; ret v
    | TForced v => ret v
    | TForcing => fail ERecursivelyDefinedVariable
    end.
  (* evaluate_as_syntax_node on the scope of a pending definition *)
  Definition scope_eval (fuel : nat) (scope : lvalue) : LM N := sv <- eval_lv' fuel scope ;; lift (as_syn sv).

  Lemma force_thunk_unfold fuel loc :
    force_thunk' (S fuel) loc =
    (s <- get_state ;;
     match nth_error (l_store s) (N.to_nat loc) with
     | None => panic P_store_index
     | Some th => ctx_wrap (CtxStmts [th_dbg th]) (thunk_body fuel loc th)
     end).
  Proof. reflexivity. Qed.
  Lemma force_scoped_unfold fuel name ps : force_scoped' (S fuel) name (SVUnforced ps) = force_pairs (scope_eval fuel) ps [] [].
  Proof. reflexivity. Qed.

  Definition thunk_direct (s0 : lstate) (loc : N) (d : stmt_ctx) (e1 : exec_error) : Prop :=
    unwrapped e1 /\
    exists fuel th s1 p1, same_dbgs s0 s1 /\ nth_error (l_store s1) (N.to_nat loc) = Some th /\ th_dbg th = d /\
                          thunk_body fuel loc th s1 p1 = Err e1.
  Definition scope_direct (s0 : lstate) (scope : lvalue) (e1 : exec_error) : Prop :=
    unwrapped e1 /\ exists fuel s1 p1, same_dbgs s0 s1 /\ scope_eval fuel scope s1 p1 = Err e1.

  Inductive origin (s0 : lstate) (e : exec_error) : Prop :=
  | O_thunk loc d e1 :
      nth_error (store_dbgs s0) (N.to_nat loc) = Some d -> thunk_direct s0 loc d e1 ->
      e = EInContext (CtxStmts [d]) e1 -> origin s0 e
  | O_scope name ps scope v dbg e1 :
      alist_get name (l_scoped s0) = Some (SVUnforced ps) -> In (scope, v, dbg) ps -> scope_direct s0 scope e1 ->
      e = EInContext (CtxStmts [dbg]) (EInContext CtxOther e1) -> origin s0 e
  | O_dup name ps l1 x1 d1 l2 x2 d2 l3 :
      alist_get name (l_scoped s0) = Some (SVUnforced ps) ->
      ps = l1 ++ (x1, d1) :: l2 ++ (x2, d2) :: l3 ->
      e = EInContext (CtxStmts [d1; d2]) EDuplicateVariable -> origin s0 e.

  Lemma origin_stmts s0 e : origin s0 e -> exists cs e0, e = EInContext (CtxStmts cs) e0.
  Proof. intros [loc d e1 _ _ ->|name ps scope v dbg e1 _ _ _ ->|name ps l1 x1 d1 l2 x2 d2 l3 _ _ ->]; eauto. Qed.
  Lemma origin_add_context s0 c e : origin s0 e -> add_context c e = e.
  Proof. intros H. destruct (origin_stmts _ _ H) as (cs & e0 & ->). reflexivity. Qed.
  Lemma origin_not_unwrapped s0 e : origin s0 e -> ~ unwrapped e.
  Proof. intros H. destruct (origin_stmts _ _ H) as (cs & e0 & ->). apply stmt_ctx_not_unwrapped. Qed.
  (* exactly one statement context, and the cause below it carries none *)
  Lemma origin_wrapped s0 e : origin s0 e -> exists cs e0, e = EInContext (CtxStmts cs) e0 /\ unwrapped e0.
  Proof.
    intros [loc d e1 _ [Hu _] ->|name ps scope v dbg e1 _ _ [Hu _] ->|name ps l1 x1 d1 l2 x2 d2 l3 _ _ ->].
    - eauto.
    - eexists; eexists; split; [reflexivity|apply U_other, Hu].
    - eexists; eexists; split; [reflexivity|apply U_base; exact I].
  Qed.

  (* ---------------------------------------------------------------- the triples *)
  Section Inv.
    Variable s0 : lstate.
    Variable F : list (elem_key * stmt_ctx) -> Prop.     (* anything about prev_element_debug_info: the evaluator does not touch it *)

    Definition inv (s : lstate) : Prop := same_dbgs s0 s /\ F (l_prev s).
    Definition eerr (top : bool) (e : exec_error) : Prop := cancelled e \/ (top = false /\ unwrapped e) \/ origin s0 e.
    Definition ev {A} (top : bool) (m : LM A) (R : A -> Prop) : Prop := hoare inv m (fun a s => inv s /\ R a) (eerr top).

    Lemma eerr_weaken top e : eerr true e -> eerr top e.
    Proof. intros [H|[[H _]|H]]; [left; exact H|discriminate|right; right; exact H]. Qed.
    Lemma eerr_other top e : eerr top e -> eerr top (add_context CtxOther e).
    Proof.
      intros [[l ->]|[[-> Hu]|H]].
      - left. exists l. reflexivity.
      - right. left. split; [reflexivity|]. apply unwrapped_add_other, Hu.
      - rewrite (origin_add_context _ _ _ H). right. right. exact H.
    Qed.

    Lemma ev_ret top A (a : A) (R : A -> Prop) : R a -> ev top (ret a) R.
    Proof. intros H s p HI. cbn. split; assumption. Qed.
    Lemma ev_bind top A B (m : LM A) (f : A -> LM B) R R' : ev top m R -> (forall a, R a -> ev top (f a) R') -> ev top (bind m f) R'.
    Proof.
      intros Hm Hf s p HI. specialize (Hm s p HI). unfold bind. destruct (m s p) as [[[a s1] p1]|e|x|]; auto.
      destruct Hm as [HI1 HR]. apply (Hf a HR s1 p1 HI1).
    Qed.
    Lemma ev_bindT top A B (m : LM A) (f : A -> LM B) R' : ev top m TT -> (forall a, ev top (f a) R') -> ev top (bind m f) R'.
    Proof. intros Hm Hf. eapply ev_bind; [exact Hm|]. intros a _. apply Hf. Qed.
    Lemma ev_weaken top A (m : LM A) R : ev true m R -> ev top m R.
    Proof. intros H s p HI. specialize (H s p HI). destruct (m s p) as [[[a s1] p1]|e|x|]; auto. apply eerr_weaken, H. Qed.
    Lemma ev_conseq top A (m : LM A) (R R' : A -> Prop) : (forall a, R a -> R' a) -> ev top m R -> ev top m R'.
    Proof. intros HR H s p HI. specialize (H s p HI). destruct (m s p) as [[[a s1] p1]|e|x|]; auto. destruct H; split; auto. Qed.
    Lemma ev_fail A e (R : A -> Prop) : base_error e -> ev false (fail e) R.
    Proof. intros H s p HI. cbn. right. left. split; [reflexivity|apply U_base, H]. Qed.
    Lemma ev_panic top A x (R : A -> Prop) : ev top (panic x) R. Proof. intros s p HI. exact I. Qed.
    Lemma ev_oof top A (R : A -> Prop) : ev top out_of_fuel R. Proof. intros s p HI. exact I. Qed.
    Lemma ev_lift A (r : res A) : base_res r -> ev false (lift r) TT.
    Proof.
      intros H s p HI. unfold lift. destruct r as [a|e|x|]; [split; [exact HI|exact I]| |exact I|exact I].
      right. left. split; [reflexivity|apply U_base, H].
    Qed.
    Lemma ev_get_bind top A (f : lstate -> LM A) R : (forall s1, inv s1 -> ev top (f s1) R) -> ev top (s <- get_state ;; f s) R.
    Proof. intros H s p HI. unfold bind, get_state. apply (H s HI s p HI). Qed.
    Lemma ev_poll top l : ev top (lpoll l) TT.
    Proof.
      intros s p HI. unfold lpoll, poll. destruct (poll_step l p) as [q c]. destruct c; [left; exists l; reflexivity|]. split; [exact HI|exact I].
    Qed.
    Lemma ev_ctx_other top A (m : LM A) R : ev top m R -> ev top (ctx_wrap CtxOther m) R.
    Proof. intros H s p HI. specialize (H s p HI). unfold ctx_wrap. destruct (m s p) as [[[a s1] p1]|e|x|]; auto. apply eerr_other, H. Qed.
    Lemma ev_mapM top A B (f : A -> LM B) l : (forall x, In x l -> ev top (f x) TT) -> ev top (mapM f l) TT.
    Proof.
      induction l as [|x l IH]; intros H; cbn [mapM]; [apply ev_ret; exact I|].
      apply ev_bindT; [apply H; left; reflexivity|intros y]. apply ev_bindT; [apply IH; intros z Hz; apply H; right; exact Hz|intros ys]. apply ev_ret; exact I.
    Qed.
    Lemma ev_iterM top A (f : A -> LM unit) l : (forall x, In x l -> ev top (f x) TT) -> ev top (iterM f l) TT.
    Proof.
      induction l as [|x l IH]; intros H; cbn [iterM]; [apply ev_ret; exact I|].
      apply ev_bindT; [apply H; left; reflexivity|intros _]. apply IH. intros z Hz. apply H. right. exact Hz.
    Qed.

    (* operations that leave thunk debug infos, scoped cells and prev_element_debug_info alone and fail plainly *)
    Definition frame_ok {A} (m : LM A) : Prop :=
      forall s p, match m s p with
                  | Ok (_, s', _) => store_dbgs s' = store_dbgs s /\ l_scoped s' = l_scoped s /\ l_prev s' = l_prev s
                  | Err e => cancelled e \/ unwrapped e
                  | _ => True
                  end.
    Lemma ev_frame A (m : LM A) : frame_ok m -> ev false m TT.
    Proof.
      intros H s p [[H1 H2] H3]. specialize (H s p). destruct (m s p) as [[[a s1] p1]|e|x|]; auto.
      - destruct H as (E1 & E2 & E3). split; [|exact I]. split; [split|].
        + rewrite E1. exact H1.
        + rewrite E2. exact H2.
        + rewrite E3. exact H3.
      - destruct H as [H|H]; [left; exact H|right; left; split; [reflexivity|exact H]].
    Qed.

    Ltac destruct_matches :=
      repeat match goal with |- context [match ?x with _ => _ end] => destruct x eqn:? end.
    Ltac frame := intros s p; cbv [bind get_state ret fail panic out_of_fuel modify Lazy.upd set_lgraph set_lparams set_lstore];
                  destruct_matches; cbn [l_store l_scoped l_prev]; auto.

    Lemma fr_lpush_param v : frame_ok (lpush_param v).
    Proof. unfold lpush_param. frame. Qed.
    Lemma fr_ldrain_params n : frame_ok (ldrain_params n).
    Proof.
      unfold ldrain_params. intros s p. cbv [bind get_state ret panic modify Lazy.upd set_lparams].
      destruct (Nat.ltb (length (l_params s)) n); cbn [l_store l_scoped l_prev]; auto.
    Qed.
    Lemma fr_lcall f args : frame_ok (lcall_function call f args).
    Proof.
      unfold lcall_function. intros s p. cbv [bind get_state ret fail panic out_of_fuel modify Lazy.upd set_lgraph].
      destruct (call f (l_graph s) args) as [[v g']|e|x|] eqn:Ec; cbn [l_store l_scoped l_prev]; auto.
      right. apply U_base. eapply Hcall; eauto.
    Qed.
    Lemma fr_store_set_state loc st : frame_ok (store_set_state loc st).
    Proof.
      unfold store_set_state. intros s p. cbv [bind get_state modify Lazy.upd set_lstore]. unfold store_dbgs. cbn [l_store l_scoped l_prev].
      split; [|split; reflexivity]. apply map_list_update_same. intros th. reflexivity.
    Qed.

    Lemma ev_cell_get top name :
      ev top (cell_get name) (fun c => forall ps, c = Some (SVUnforced ps) -> alist_get name (l_scoped s0) = Some (SVUnforced ps)).
    Proof.
      unfold cell_get. apply ev_get_bind. intros s1 [[_ H2] _]. apply ev_ret. intros ps E. apply H2, E.
    Qed.
    Lemma ev_cell_set top name v : (forall ps, v <> SVUnforced ps) -> ev top (cell_set name v) TT.
    Proof.
      intros Hv s p [[H1 H2] H3]. cbv [cell_set bind get_state set_lscoped Lazy.upd modify]. split; [|exact I]. split; [split|]; cbn [l_store l_scoped l_prev].
      - exact H1.
      - intros k ps. rewrite alist_get_set. destruct (str_eqb_spec k name) as [->|Hn].
        + intros E. inversion E. exfalso. eapply Hv; eauto.
        + apply H2.
      - exact H3.
    Qed.

    (* a pending definition's scope, evaluated inside "Evaluating scope of variable" and the definition's context *)
    Lemma ev_scope_wrapped name ps_all fuel scope v dbg :
      alist_get name (l_scoped s0) = Some (SVUnforced ps_all) -> In (scope, v, dbg) ps_all ->
      ev false (scope_eval fuel scope) TT ->
      ev true (ctx_wrap (CtxStmts [dbg]) (ctx_wrap CtxOther (scope_eval fuel scope))) TT.
    Proof.
      intros Hg Hin H s p HI. specialize (H s p HI). unfold ctx_wrap. destruct (scope_eval fuel scope s p) as [[[a s1] p1]|e|x|] eqn:E; auto.
      destruct H as [[l ->]|[[_ Hu]|H]].
      - left. exists l. reflexivity.
      - right. right. rewrite (unwrapped_add_other' _ Hu). cbn [add_context].
        eapply O_scope; [exact Hg|exact Hin| |reflexivity]. split; [exact Hu|]. exists fuel, s, p. split; [apply HI|exact E].
      - rewrite !(origin_add_context _ _ _ H). right. right. exact H.
    Qed.

    Lemma dbg_get_in dbgs n d : dbg_get dbgs n = Some d -> In (n, d) dbgs.
    Proof.
      induction dbgs as [|[k d'] dbgs IH]; cbn [dbg_get]; [discriminate|]. destruct (N.eqb_spec n k) as [->|Hn].
      - intros E. inversion E; subst. left. reflexivity.
      - intros E. right. apply IH, E.
    Qed.

    Lemma ev_force_pairs name ps_all fuel :
      (forall lv, ev false (eval_lv' fuel lv) TT) -> alist_get name (l_scoped s0) = Some (SVUnforced ps_all) ->
      forall ps done values dbgs, ps_all = done ++ ps ->
        Forall (fun nd : N * stmt_ctx => exists x, In (x, snd nd) done) dbgs ->
        ev true (force_pairs (scope_eval fuel) ps values dbgs) TT.
    Proof.
      intros IHe Hg. induction ps as [|[[scope v] dbg] ps IHp]; intros done values dbgs Hall Hd; cbn [force_pairs]; [apply ev_ret; exact I|].
      apply ev_bindT.
      { eapply ev_scope_wrapped; [exact Hg| |].
        - rewrite Hall. apply in_or_app. right. left. reflexivity.
        - unfold scope_eval. apply ev_bindT; [apply IHe|intros sv]. apply ev_lift, base_as_syn. }
      intros n. destruct (nmap_get values n).
      - destruct (dbg_get dbgs n) as [prev|] eqn:Eg; [|apply ev_panic]. intros s p HI. unfold fail_in. right. right.
        apply dbg_get_in in Eg. rewrite Forall_forall in Hd. destruct (Hd _ Eg) as (x & Hx). cbn [snd] in Hx.
        apply in_split in Hx as (l1 & l2 & ->).
        eapply (O_dup s0 _ name ps_all l1 x prev l2 (scope, v) dbg ps); [exact Hg| |reflexivity].
        rewrite Hall. rewrite <- app_assoc. reflexivity.
      - apply (IHp (done ++ [(scope, v, dbg)])).
        + rewrite Hall. rewrite <- app_assoc. reflexivity.
        + apply Forall_app. split.
          * rewrite Forall_forall in *. intros nd Hnd. destruct (Hd _ Hnd) as (x & Hx). exists x. apply in_or_app. left. exact Hx.
          * constructor; [|constructor]. exists (scope, v). apply in_or_app. right. left. reflexivity.
    Qed.

    (* the body of a thunk, then the thunk inside its own context *)
    Lemma ev_thunk_body fuel loc th : (forall lv, ev false (eval_lv' fuel lv) TT) -> ev false (thunk_body fuel loc th) TT.
    Proof.
      intros IHe. unfold thunk_body. destruct (th_state th).
      - apply ev_bindT; [apply ev_frame, fr_store_set_state|intros _]. apply ev_bindT; [apply IHe|intros v].
        apply ev_bindT; [apply ev_frame, fr_store_set_state|intros _; apply ev_ret; exact I].
      - apply ev_fail; exact I.
      - apply ev_ret; exact I.
    Qed.
    Lemma ev_force_thunk_step top fuel loc : (forall lv, ev false (eval_lv' fuel lv) TT) -> ev top (force_thunk' (S fuel) loc) TT.
    Proof.
      intros IHe. rewrite force_thunk_unfold. intros s p HI. unfold bind at 1, get_state.
      destruct (nth_error (l_store s) (N.to_nat loc)) as [th|] eqn:En; [|exact I].
      pose proof (ev_thunk_body fuel loc th IHe s p HI) as H. unfold ctx_wrap.
      destruct (thunk_body fuel loc th s p) as [[[a s2] p2]|e|x|] eqn:E; auto.
      destruct H as [[l ->]|[[_ Hu]|H]].
      - left. exists l. reflexivity.
      - right. right. rewrite (unwrapped_add_stmts _ _ Hu).
        eapply (O_thunk s0 _ loc (th_dbg th) e); [| |reflexivity].
        + destruct HI as [[H1 _] _]. rewrite <- H1. unfold store_dbgs. apply map_nth_error, En.
        + split; [exact Hu|]. exists fuel, th, s, p. split; [apply HI|]. auto.
      - rewrite (origin_add_context _ _ _ H). right. right. exact H.
    Qed.

    Lemma ev_eval_all : forall fuel,
      (forall lv, ev false (eval_lv' fuel lv) TT) /\ (forall loc, ev true (force_thunk' fuel loc) TT) /\
      (forall name cell, (forall ps, cell = SVUnforced ps -> alist_get name (l_scoped s0) = Some (SVUnforced ps)) ->
                         ev false (force_scoped' fuel name cell) TT).
    Proof.
      induction fuel as [|fuel (IHe & IHt & IHs)]; [repeat split; intros; apply ev_oof|].
      repeat split.
      - intros lv. destruct lv; cbn [eval_lv]; (apply ev_bindT; [apply ev_poll|intros _]).
        + apply ev_ret; exact I.
        + apply ev_bindT; [apply ev_mapM; intros; apply IHe|intros vs; apply ev_ret; exact I].
        + apply ev_bindT; [apply ev_mapM; intros; apply IHe|intros vs; apply ev_ret; exact I].
        + apply ev_weaken, IHt.
        + apply ev_bindT.
          { apply ev_ctx_other. apply ev_bindT; [apply IHe|intros sv]. apply ev_lift, base_as_syn. }
          intros n. eapply ev_bind; [apply ev_cell_get|intros c Hc]. destruct c as [cell|]; [|apply ev_fail; exact I].
          apply ev_bindT; [apply ev_cell_set; discriminate|intros _].
          apply ev_bindT; [apply IHs; intros ps ->; apply Hc; reflexivity|intros map]. cbv zeta.
          apply ev_bindT; [apply ev_cell_set; discriminate|intros _].
          match goal with |- ev _ (match ?x with _ => _ end) _ => destruct x end; [apply IHe|apply ev_fail; exact I].
        + apply ev_bindT; [apply ev_iterM; intros a _; apply ev_bindT; [apply IHe|intros v; apply ev_frame, fr_lpush_param]|intros _].
          apply ev_bindT; [apply ev_frame, fr_ldrain_params|intros ps]. apply ev_frame, fr_lcall.
      - intros loc. apply ev_force_thunk_step, IHe.
      - intros name cell Hc. destruct cell as [pairs| |map]; [|apply ev_fail; exact I|apply ev_ret; exact I].
        rewrite force_scoped_unfold. apply ev_weaken. apply (ev_force_pairs name pairs fuel IHe (Hc _ eq_refl) pairs [] [] []); [reflexivity|constructor].
    Qed.
    Lemma ev_eval_lv fuel lv : ev false (eval_lv' fuel lv) TT. Proof. apply ev_eval_all. Qed.
    Lemma ev_force_thunk top fuel loc : ev top (force_thunk' fuel loc) TT. Proof. apply ev_weaken, ev_eval_all. Qed.
    Lemma ev_force_scoped fuel name cell :
      (forall ps, cell = SVUnforced ps -> alist_get name (l_scoped s0) = Some (SVUnforced ps)) -> ev false (force_scoped' fuel name cell) TT.
    Proof. apply ev_eval_all. Qed.
    Lemma ev_eval_as_gnode fuel lv : ev false (eval_as_gnode t fl call fuel lv) TT.
    Proof. unfold eval_as_gnode. apply ev_bindT; [apply ev_eval_lv|intros v; apply ev_lift, base_as_gnode]. Qed.
  End Inv.
End CiteEval.
