(* Proofs/AstDisplay.v — lemmas about Model/AstDisplay.v (the Display impls of ast.rs).
   1. shape of the statement text: keyword first, " at (row+1, col+1)" last, never empty;
   2. single line: no character below U+0020 in the text when the identifiers have none (string constants are escaped);
   3. stmt_at under locs_unique; the statement text of a context computed from the file;
   4. display_stmt is NOT injective up to locations (witnesses). *)
From TSG Require Import Model.AstDisplay Proofs.ParseErr Proofs.ErrRender Proofs.ErrChain.
From TSG Require Model.Pretty.

(* ------------------------------------------------------------------------------------ 1. shape *)
Lemma is_prefix_app : forall a y, is_prefix a (a ++ y) = true.
Proof. induction a as [|x a IH]; intros y; [reflexivity|]. cbn [is_prefix app]. rewrite N.eqb_refl, IH. reflexivity. Qed.

Lemma display_stmt_head_lemma : forall E s, (forall l, s <> SIf [] l) -> is_prefix (stmt_keyword s) (display_stmt E s) = true.
Proof.
  intros E s Hif. destruct s; cbn [display_stmt stmt_keyword]; try apply is_prefix_app.
  - (* print *) destruct values as [|v vs]; cbn [flat_map app]; rewrite <- ?app_assoc; reflexivity.
  - (* if *) destruct arms as [|a r]; [exfalso; exact (Hif l eq_refl)|].
    cbn [display_if_arms]. rewrite <- !app_assoc. apply is_prefix_app.
Qed.

Lemma display_stmt_tail_lemma : forall E s, exists x, display_stmt E s = x ++ s_at ++ show_loc (stmt_loc s).
Proof.
  intros E s.
  assert (H3 : forall (a b c z : str), a ++ b ++ c ++ z = (a ++ b ++ c) ++ z) by (intros; rewrite !app_assoc; reflexivity).
  destruct s; cbn [display_stmt stmt_loc].
  - eexists. rewrite (app_assoc (display_variable E v)), (app_assoc (_ ++ s_eq)), (app_assoc k_let). reflexivity.
  - eexists. rewrite (app_assoc (display_variable E v)), (app_assoc (_ ++ s_eq)), (app_assoc k_var). reflexivity.
  - eexists. rewrite (app_assoc (display_variable E v)), (app_assoc (_ ++ s_eq)), (app_assoc k_set). reflexivity.
  - eexists. rewrite (app_assoc k_node). reflexivity.
  - eexists. rewrite (app_assoc [41]), (app_assoc (display_expr E node)), (app_assoc [40]), (app_assoc k_attr). reflexivity.
  - eexists. rewrite (app_assoc s_arrow), (app_assoc (display_expr E src)), (app_assoc k_edge). reflexivity.
  - eexists. rewrite (app_assoc [41]), (app_assoc (display_expr E snk)), (app_assoc s_arrow), (app_assoc (display_expr E src)), (app_assoc [40]), (app_assoc k_attr). reflexivity.
  - eexists. rewrite (app_assoc (display_expr E value)), (app_assoc k_scan). reflexivity.
  - eexists. rewrite (app_assoc k_print). reflexivity.
  - eexists. reflexivity.
  - eexists. rewrite (app_assoc (display_expr E value)), (app_assoc s_in), (app_assoc var), (app_assoc k_for). reflexivity.
Qed.

Lemma display_stmt_nonempty : forall E s, display_stmt E s <> [].
Proof.
  intros E s H. destruct (display_stmt_tail_lemma E s) as [x Hx]. rewrite H in Hx.
  destruct x; discriminate.
Qed.

(* ------------------------------------------------------------------------------------ 2. single line *)
(* no control character (in particular no LF, no CR): every character is >= U+0020 *)
Definition clean (t : str) : Prop := Forall (fun c => 32 <= c) t.

Lemma clean_app a b : clean a -> clean b -> clean (a ++ b).
Proof. intros Ha Hb. apply Forall_app. split; assumption. Qed.
Lemma clean_cons c a : 32 <= c -> clean a -> clean (c :: a).
Proof. intros Hc Ha. constructor; assumption. Qed.
Lemma clean_nil : clean [].
Proof. constructor. Qed.
Lemma clean_no_newline t : clean t -> ~ In 10 t /\ ~ In 13 t.
Proof. intros H. split; intros Hi; apply (proj1 (Forall_forall _ _) H) in Hi; lia. Qed.

Ltac clean_lit := repeat (apply clean_cons; [lia|]); apply clean_nil.

Lemma clean_flat_map {A} (f : A -> str) l : (forall x, In x l -> clean (f x)) -> clean (flat_map f l).
Proof.
  induction l as [|x l IH]; intros H; cbn [flat_map]; [apply clean_nil|].
  apply clean_app; [apply H; left; reflexivity|apply IH; intros y Hy; apply H; right; exact Hy].
Qed.
Lemma clean_join sep l : clean sep -> (forall x, In x l -> clean x) -> clean (Pretty.join sep l).
Proof.
  intros Hs. induction l as [|x l IH]; intros H; cbn [Pretty.join]; [apply clean_nil|].
  destruct l as [|y l']; [apply H; left; reflexivity|].
  apply clean_app; [apply H; left; reflexivity|]. apply clean_app; [exact Hs|].
  apply IH. intros z Hz. apply H. right. exact Hz.
Qed.

(* decimal numerals *)
Lemma clean_dec_aux : forall fuel n acc, clean acc -> clean (dec_aux fuel n acc).
Proof.
  induction fuel as [|f IH]; intros n acc Ha; cbn [dec_aux]; [exact Ha|].
  assert (Hc : clean ((48 + n mod 10) :: acc)) by (apply clean_cons; [apply N.le_trans with 48; [lia|apply N.le_add_r]|exact Ha]).
  destruct (n <? 10); [exact Hc|apply IH, Hc].
Qed.
Lemma clean_dec n : clean (dec n).
Proof. apply clean_dec_aux, clean_nil. Qed.
Lemma clean_show_loc l : clean (show_loc l).
Proof.
  unfold show_loc. apply clean_app; [clean_lit|]. apply clean_app; [apply clean_dec|].
  apply clean_app; [clean_lit|]. apply clean_app; [apply clean_dec|clean_lit].
Qed.

(* <str as Debug> *)
Lemma clean_hexuint u : clean (Pretty.hexuint_str u).
Proof. induction u; cbn [Pretty.hexuint_str]; try apply clean_nil; apply clean_cons; try lia; assumption. Qed.
Lemma clean_esc_unicode c : clean (Pretty.esc_unicode c).
Proof. unfold Pretty.esc_unicode, Pretty.hex. apply clean_app; [clean_lit|]. apply clean_app; [apply clean_hexuint|clean_lit]. Qed.
Lemma clean_esc_char E c : clean (Pretty.esc_char E c).
Proof.
  unfold Pretty.esc_char.
  destruct (c =? 0); [clean_lit|]. destruct (c =? 9); [clean_lit|]. destruct (c =? 10); [clean_lit|].
  destruct (c =? 13); [clean_lit|]. destruct (c =? 92); [clean_lit|]. destruct (c =? 34); [clean_lit|].
  destruct (N.ltb_spec c 32) as [Hlt|Hge]; [apply clean_esc_unicode|].
  destruct (c <? 127); [apply clean_cons; [exact Hge|apply clean_nil]|].
  destruct (c =? 127); [apply clean_esc_unicode|].
  destruct (Pretty.nlookup c (Pretty.pe_print E)) as [[|]|]; try apply clean_esc_unicode; apply clean_cons; try exact Hge; apply clean_nil.
Qed.
(* the Debug text of ANY string is clean: control characters are escaped *)
Lemma clean_debug_str E s : clean (Pretty.debug_str E s).
Proof.
  unfold Pretty.debug_str. apply clean_app; [clean_lit|]. apply clean_app; [|clean_lit].
  apply clean_flat_map. intros c _. apply clean_esc_char.
Qed.

(* `expr_names` .. `stmt_names` (Model/AstDisplay.v): the identifiers printed in an expression / statement header *)
Definition names_clean (l : list ident) : Prop := forall x, In x l -> clean x.
Lemma names_clean_app a b : names_clean (a ++ b) -> names_clean a /\ names_clean b.
Proof. intros H. split; intros x Hx; apply H, in_or_app; [left|right]; exact Hx. Qed.
Lemma names_clean_cons x a : names_clean (x :: a) -> clean x /\ names_clean a.
Proof. intros H. split; [apply H; left; reflexivity|intros y Hy; apply H; right; exact Hy]. Qed.
Lemma names_clean_flat_map {A} (f : A -> list ident) l : names_clean (flat_map f l) -> forall x, In x l -> names_clean (f x).
Proof. intros H x Hx y Hy. apply H, in_flat_map. exists x. split; assumption. Qed.

Lemma clean_strb_spec t : clean_strb t = true <-> clean t.
Proof.
  unfold clean_strb, clean. rewrite forallb_forall, Forall_forall. split; intros H x Hx; specialize (H x Hx); [apply N.leb_le|apply N.leb_le]; exact H.
Qed.
Lemma stmt_names_cleanb_spec s : stmt_names_cleanb s = true -> names_clean (stmt_names s).
Proof. unfold stmt_names_cleanb. rewrite forallb_forall. intros H x Hx. apply clean_strb_spec, H, Hx. Qed.

Lemma clean_display_expr E : forall e, names_clean (expr_names e) -> clean (display_expr E e).
Proof.
  fix IH 1. intros e H.
  assert (IHl : forall es, names_clean (flat_map expr_names es) -> forall x, In x (map (display_expr E) es) -> clean x).
  { induction es as [|a es IHes]; intros Hes x Hx; [destruct Hx|].
    cbn [flat_map] in Hes. apply names_clean_app in Hes. destruct Hes as [Ha Hr].
    destruct Hx as [<-|Hx]; [apply IH, Ha|apply IHes; assumption]. }
  destruct e; cbn [display_expr expr_names] in *.
  - clean_lit.
  - clean_lit.
  - clean_lit.
  - apply clean_dec.
  - apply clean_debug_str.
  - apply clean_app; [clean_lit|]. apply clean_app; [|clean_lit]. apply clean_join; [clean_lit|]. apply IHl, H.
  - apply clean_app; [clean_lit|]. apply clean_app; [|clean_lit]. apply clean_join; [clean_lit|]. apply IHl, H.
  - apply names_clean_app in H. destruct H as [H1 H2]. apply names_clean_app in H2. destruct H2 as [H2 H3].
    apply clean_app; [clean_lit|]. apply clean_app; [apply IH, H1|]. apply clean_app; [clean_lit|].
    apply clean_app; [apply H2; left; reflexivity|]. apply clean_app; [clean_lit|]. apply clean_app; [apply IH, H3|clean_lit].
  - apply names_clean_app in H. destruct H as [H1 H2]. apply names_clean_app in H2. destruct H2 as [H2 H3].
    apply clean_app; [clean_lit|]. apply clean_app; [apply IH, H1|]. apply clean_app; [clean_lit|].
    apply clean_app; [apply H2; left; reflexivity|]. apply clean_app; [clean_lit|]. apply clean_app; [apply IH, H3|clean_lit].
  - apply clean_app; [clean_lit|]. apply H. left. reflexivity.
  - apply H. left. reflexivity.
  - apply names_clean_app in H. destruct H as [H1 H2].
    apply clean_app; [apply IH, H1|]. apply clean_app; [clean_lit|]. apply H2. left. reflexivity.
  - apply names_clean_cons in H. destruct H as [Hf Ha].
    apply clean_app; [clean_lit|]. apply clean_app; [exact Hf|]. apply clean_app; [|clean_lit].
    assert (Hm : forall x, In x (map (display_expr E) args) -> clean x) by (apply IHl, Ha).
    clear - Hm. induction args as [|a args IHa]; cbn [flat_map]; [apply clean_nil|].
    apply clean_app.
    + apply clean_cons; [lia|]. apply Hm. left. reflexivity.
    + apply IHa. intros x Hx. apply Hm. right. exact Hx.
  - apply clean_app; [clean_lit|apply clean_dec].
Qed.

Lemma clean_display_variable E v : names_clean (variable_names v) -> clean (display_variable E v).
Proof.
  destruct v; cbn [display_variable variable_names]; intros H.
  - apply H. left. reflexivity.
  - apply names_clean_app in H. destruct H as [H1 H2].
    apply clean_app; [apply clean_display_expr, H1|]. apply clean_app; [clean_lit|]. apply H2. left. reflexivity.
Qed.
Lemma clean_display_attrs E l : names_clean (flat_map attr_names l) -> clean (display_attrs E l).
Proof.
  intros H. unfold display_attrs. apply clean_flat_map. intros [name value] Ha.
  pose proof (names_clean_flat_map attr_names l H _ Ha) as Hn. cbn [attr_names] in Hn. apply names_clean_cons in Hn. destruct Hn as [H1 H2].
  apply clean_cons; [lia|]. cbn [display_attr]. apply clean_app; [exact H1|]. apply clean_app; [clean_lit|apply clean_display_expr, H2].
Qed.
Lemma clean_display_conds E l : names_clean (flat_map cond_names l) -> clean (display_conds E l).
Proof.
  intros H. unfold display_conds. apply clean_join; [clean_lit|]. intros x Hx. apply in_map_iff in Hx. destruct Hx as (c & <- & Hc).
  pose proof (names_clean_flat_map cond_names l H _ Hc) as Hn.
  destruct c; cbn [display_cond cond_names] in *; try (apply clean_app; [clean_lit|]); apply clean_display_expr, Hn.
Qed.

Lemma clean_display_stmt E s : names_clean (stmt_names s) -> clean (display_stmt E s).
Proof.
  assert (Hat : forall l, clean (s_at ++ show_loc l)) by (intros l; apply clean_app; [clean_lit|apply clean_show_loc]).
  destruct s; cbn [display_stmt stmt_names]; intros H.
  - apply names_clean_app in H. destruct H as [H1 H2].
    apply clean_app; [clean_lit|]. apply clean_app; [apply clean_display_variable, H1|]. apply clean_app; [clean_lit|].
    apply clean_app; [apply clean_display_expr, H2|apply Hat].
  - apply names_clean_app in H. destruct H as [H1 H2].
    apply clean_app; [clean_lit|]. apply clean_app; [apply clean_display_variable, H1|]. apply clean_app; [clean_lit|].
    apply clean_app; [apply clean_display_expr, H2|apply Hat].
  - apply names_clean_app in H. destruct H as [H1 H2].
    apply clean_app; [clean_lit|]. apply clean_app; [apply clean_display_variable, H1|]. apply clean_app; [clean_lit|].
    apply clean_app; [apply clean_display_expr, H2|apply Hat].
  - apply clean_app; [clean_lit|]. apply clean_app; [apply clean_display_variable, H|apply Hat].
  - apply names_clean_app in H. destruct H as [H1 H2].
    apply clean_app; [clean_lit|]. apply clean_app; [clean_lit|]. apply clean_app; [apply clean_display_expr, H1|].
    apply clean_app; [clean_lit|]. apply clean_app; [apply clean_display_attrs, H2|apply Hat].
  - apply names_clean_app in H. destruct H as [H1 H2].
    apply clean_app; [clean_lit|]. apply clean_app; [apply clean_display_expr, H1|]. apply clean_app; [clean_lit|].
    apply clean_app; [apply clean_display_expr, H2|apply Hat].
  - apply names_clean_app in H. destruct H as [H1 H2]. apply names_clean_app in H2. destruct H2 as [H2 H3].
    apply clean_app; [clean_lit|]. apply clean_app; [clean_lit|]. apply clean_app; [apply clean_display_expr, H1|].
    apply clean_app; [clean_lit|]. apply clean_app; [apply clean_display_expr, H2|]. apply clean_app; [clean_lit|].
    apply clean_app; [apply clean_display_attrs, H3|apply Hat].
  - apply clean_app; [clean_lit|]. apply clean_app; [apply clean_display_expr, H|]. apply clean_app; [clean_lit|apply Hat].
  - apply clean_app; [clean_lit|]. apply clean_app; [|apply Hat].
    apply clean_flat_map. intros v Hv. apply clean_cons; [lia|]. apply clean_app; [|clean_lit].
    apply clean_display_expr. exact (names_clean_flat_map expr_names values H _ Hv).
  - apply clean_app; [|apply Hat]. destruct arms as [|a r]; cbn [display_if_arms]; [apply clean_nil|].
    cbn [flat_map] in H. apply names_clean_app in H. destruct H as [H1 H2].
    apply clean_app; [clean_lit|]. apply clean_app; [apply clean_display_conds, H1|]. apply clean_app; [clean_lit|].
    apply clean_flat_map. intros arm Harm. unfold display_if_rest.
    pose proof (names_clean_flat_map _ r H2 _ Harm) as Hn. cbn beta in Hn.
    destruct (fst (fst arm)) as [|c cs] eqn:Ec; [clean_lit|].
    apply clean_app; [clean_lit|]. apply clean_app; [apply clean_display_conds, Hn|clean_lit].
  - apply names_clean_cons in H. destruct H as [H1 H2].
    apply clean_app; [clean_lit|]. apply clean_app; [exact H1|]. apply clean_app; [clean_lit|].
    apply clean_app; [apply clean_display_expr, H2|]. apply clean_app; [clean_lit|apply Hat].
Qed.

(* ------------------------------------------------------------------------------------ 3. statements by location *)
Lemma loc_eqb_refl l : loc_eqb l l = true.
Proof. unfold loc_eqb. rewrite !N.eqb_refl. reflexivity. Qed.
Lemma loc_eqb_eq a b : loc_eqb a b = true -> a = b.
Proof.
  destruct a as [a1 a2], b as [b1 b2]. unfold loc_eqb. cbn [fst snd]. intros H. apply andb_prop in H. destruct H as [H1 H2].
  apply N.eqb_eq in H1, H2. subst. reflexivity.
Qed.

Lemma find_unique_loc : forall L s, locs_distinct (map stmt_loc L) = true -> In s L ->
  find (fun x => loc_eqb (stmt_loc x) (stmt_loc s)) L = Some s.
Proof.
  induction L as [|x L IH]; intros s Hd Hin; [destruct Hin|].
  cbn [map locs_distinct] in Hd. apply andb_prop in Hd. destruct Hd as [Hx Hd]. cbn [find].
  destruct Hin as [->|Hin]; [rewrite loc_eqb_refl; reflexivity|].
  destruct (loc_eqb (stmt_loc x) (stmt_loc s)) eqn:El; [|apply IH; assumption].
  exfalso. apply negb_true_iff in Hx. rewrite <- not_true_iff_false in Hx. apply Hx.
  apply existsb_exists. exists (stmt_loc s). split; [apply in_map, Hin|exact El].
Qed.

Lemma stmt_at_unique fl s : locs_unique fl = true -> In s (file_stmts fl) -> stmt_at fl (stmt_loc s) = Some s.
Proof. intros Hu Hin. unfold stmt_at. apply find_unique_loc; assumption. Qed.

Lemma stmt_at_sound fl l s : stmt_at fl l = Some s -> In s (file_stmts fl) /\ stmt_loc s = l.
Proof.
  unfold stmt_at. intros H. apply find_some in H. destruct H as [Hin Hl]. split; [exact Hin|apply loc_eqb_eq, Hl].
Qed.

Lemma stmt_text_of_unique E fl s : locs_unique fl = true -> In s (file_stmts fl) -> stmt_text_of E fl (stmt_loc s) = display_stmt E s.
Proof. intros Hu Hin. unfold stmt_text_of. rewrite (stmt_at_unique fl s Hu Hin). reflexivity. Qed.

Lemma in_file_stmts fl st s : In st (f_stanzas fl) -> In s (block_stmts (st_stmts st)) -> In s (file_stmts fl).
Proof. intros Hst Hs. unfold file_stmts. apply in_flat_map. exists st. split; assumption. Qed.

(* the rendering of the chain computed with the file's own statement texts contains the text of the statement of every
   context whose location is that of a statement s of the file *)
Lemma chain_disp_shows_stmt : forall E fl ct nk np om w tp t sp src e c s,
  locs_unique fl = true -> In s (file_stmts fl) -> In c (err_stmt_ctxs e) -> sc_stmt c = stmt_loc s ->
  contains (display_stmt E s) (render_pretty w tp t sp src (chain_of_error_disp E fl ct nk np om e)) = true.
Proof.
  intros E fl ct nk np om w tp t sp src e c s Hu Hs Hc Hl. unfold chain_of_error_disp.
  pose proof (in_chain (stmt_text_of E fl) ct nk np om e c Hc) as Hin.
  destruct (render_pretty_shows_stmt_lemma w tp t sp src _ _ Hin) as [H _].
  cbn [sctx_of sx_stmt] in H. rewrite Hl, (stmt_text_of_unique E fl s Hu Hs) in H. exact H.
Qed.

(* ------------------------------------------------------------------------------------ 4. not injective *)
(* erasing the locations of an expression / statement header is not needed to refute injectivity: the witnesses below have
   the SAME locations everywhere and still differ as ASTs *)
Definition wit_l : loc := (0, 0).
(* (a) `#true` and a variable named `true` *)
Definition wit_a1 : stmt := SPrint [ETrue] wit_l.
Definition wit_a2 : stmt := SPrint [EUnscoped s_true wit_l] wit_l.
(* (b) an attribute shorthand use `k` and `k = #true` are the same AST already in the parser; but `attr (n) a = b c`:
   one attribute whose value is the variable `b c`?  no: identifiers cannot contain blanks.  A parseable pair: the
   scoped variable `x.y` with scope variable x versus ... the same AST.  What IS parseable: arms of `if`/`scan`/`for`
   are not printed at all *)
Definition wit_b1 : stmt := SFor [120] wit_l (EList []) [] wit_l.
Definition wit_b2 : stmt := SFor [120] wit_l (EList []) [SPrint [EInt 1] wit_l] wit_l.
(* (c) list literal with one variable vs. nothing else: `[ x for x in x ]` is a comprehension; a LIST of the variables
   named " x for x in x " is not parseable.  Kept out. *)

Lemma display_stmt_not_injective_true : forall E, display_stmt E wit_a1 = display_stmt E wit_a2 /\ wit_a1 <> wit_a2.
Proof. intros E. split; [reflexivity|discriminate]. Qed.
Lemma display_stmt_not_injective_block : forall E, display_stmt E wit_b1 = display_stmt E wit_b2 /\ wit_b1 <> wit_b2.
Proof. intros E. split; [reflexivity|discriminate]. Qed.

(* "modulo locations": every location of a statement replaced by (0, 0) *)
Definition l0 : loc := (0, 0).
Fixpoint expr_erase (e : expr) : expr :=
  match e with
  | EList es => EList (map expr_erase es)
  | ESet es => ESet (map expr_erase es)
  | EListComp el v _ value _ => EListComp (expr_erase el) v l0 (expr_erase value) l0
  | ESetComp el v _ value _ => ESetComp (expr_erase el) v l0 (expr_erase value) l0
  | ECapture name q fi si _ => ECapture name q fi si l0
  | EUnscoped name _ => EUnscoped name l0
  | EScoped scope name _ => EScoped (expr_erase scope) name l0
  | ECall f args => ECall f (map expr_erase args)
  | e => e
  end.
Definition variable_erase (v : variable) : variable :=
  match v with VarU name _ => VarU name l0 | VarS scope name _ => VarS (expr_erase scope) name l0 end.
Definition attr_erase (a : attr) : attr := match a with Attr name value => Attr name (expr_erase value) end.
Definition cond_erase (c : cond) : cond :=
  match c with CSome e _ => CSome (expr_erase e) l0 | CNone e _ => CNone (expr_erase e) l0 | CBool e _ => CBool (expr_erase e) l0 end.
Fixpoint stmt_erase (s : stmt) : stmt :=
  match s with
  | SLet v e _ => SLet (variable_erase v) (expr_erase e) l0
  | SVar v e _ => SVar (variable_erase v) (expr_erase e) l0
  | SSet v e _ => SSet (variable_erase v) (expr_erase e) l0
  | SNode v vt _ => SNode (variable_erase v) vt l0
  | SAttrNode n attrs _ => SAttrNode (expr_erase n) (map attr_erase attrs) l0
  | SEdge a b _ => SEdge (expr_erase a) (expr_erase b) l0
  | SAttrEdge a b attrs _ => SAttrEdge (expr_erase a) (expr_erase b) (map attr_erase attrs) l0
  | SScan v arms _ => SScan (expr_erase v) (map (fun arm : N * list stmt * loc => (fst (fst arm), map stmt_erase (snd (fst arm)), l0)) arms) l0
  | SPrint vs _ => SPrint (map expr_erase vs) l0
  | SIf arms _ => SIf (map (fun arm : list cond * list stmt * loc => (map cond_erase (fst (fst arm)), map stmt_erase (snd (fst arm)), l0)) arms) l0
  | SFor v _ e body _ => SFor v l0 (expr_erase e) (map stmt_erase body) l0
  end.

Lemma display_stmt_injective_refuted_lemma :
  exists s1 s2, (forall E, display_stmt E s1 = display_stmt E s2) /\ stmt_erase s1 <> stmt_erase s2 /\
                substmts s1 = [] /\ substmts s2 = [].
Proof. exists wit_a1, wit_a2. split; [reflexivity|]. split; [discriminate|split; reflexivity]. Qed.
