(* Proofs/CiteExec.v — C20, lazy mode, execution phase (lazy.rs): which statement the context of an error cites.

   In lazy mode only TWO kinds of statements are run inside with_context(statement):
     - the top-level statements of the stanza (Stanza::execute_lazy), and
     - the statements that are direct children of a `scan` arm (with "matching .. with arm .." in between);
   the bodies of `if` and `for` only UPDATE error_context (which the thunks, deferred statements and scoped definitions
   created there record) and propagate errors with `?`.  So an error raised directly by the execution phase cites the
   NEAREST ENCLOSING top-level / scan-arm statement s' of the failing one — for a failure in an `if`/`for` body the
   enclosing statement, not the nested one (unlike strict mode) —: the run of s' itself (environment: this block's
   match, error context (location of s', stanza, node)) returned the cause e1, an error without statement context
   (whatever a scan-arm child, a thunk or a scoped definition raises carries a statement context).
   The other errors of the execution phase come from forcing values eagerly (scan subject, conditions, `for` and
   comprehension lists): they have `origin` (Proofs/CiteEval.v) in the state in which the forcing happened and cite
   the creator of the failing thunk / scoped definition. *)
From TSG Require Import Model.Strict Model.Lazy.
From TSG Require Import Proofs.BaseFacts Proofs.Containers Proofs.MonadFacts Proofs.StrictMeta Proofs.LazyMeta Proofs.Captures Proofs.ErrorCtx Proofs.ErrorCtxValid Proofs.CiteEval.

(* the statements nested in s that are direct children of a scan arm (any depth): they have their own with_context *)
Fixpoint arm_stmts (s : stmt) : list stmt :=
  match s with
  | SScan _ arms _ => flat_map (fun arm : N * list stmt * loc => flat_map (fun x => x :: arm_stmts x) (snd (fst arm))) arms
  | SIf arms _ => flat_map (fun arm : list cond * list stmt * loc => flat_map (fun x => arm_stmts x) (snd (fst arm))) arms
  | SFor _ _ _ body _ => flat_map (fun x => arm_stmts x) body
  | _ => []
  end.

Lemma arms_scan value arms l r body l' x : In (r, body, l') arms -> In x body -> incl (x :: arm_stmts x) (arm_stmts (SScan value arms l)).
Proof.
  intros Ha Hx y Hy. cbn [arm_stmts]. apply in_flat_map. exists (r, body, l'). split; [exact Ha|]. cbn [fst snd].
  apply in_flat_map. exists x. split; assumption.
Qed.
Lemma arms_if arms l conds body l' x : In (conds, body, l') arms -> In x body -> incl (arm_stmts x) (arm_stmts (SIf arms l)).
Proof.
  intros Ha Hx y Hy. cbn [arm_stmts]. apply in_flat_map. exists (conds, body, l'). split; [exact Ha|]. cbn [fst snd].
  apply in_flat_map. exists x. split; assumption.
Qed.
Lemma arms_for var vloc value body l x : In x body -> incl (arm_stmts x) (arm_stmts (SFor var vloc value body l)).
Proof. intros Hx y Hy. cbn [arm_stmts]. apply in_flat_map. exists x. split; assumption. Qed.

Section CiteExec.
  Context {rx : Type}.
  Variables (t : tree) (fl : file) (cfg : config) (glob : globals) (regexes : list rx)
            (find : rx -> str -> option (list (option (N * N))))
            (call : ident -> graph -> list value -> res (value * graph)).
  Hypothesis Hcall : call_errors_base call.

  Notation LM := (M lstate).
  Notation eval_lv' := (eval_lv t fl call).
  Notation leval' := (leval t fl glob call).
  Notation lexec_attr' := (lexec_attr t fl glob call).
  Notation lexec_stmt' := (lexec_stmt t fl cfg glob regexes find call).

  (* raised while a thunk / scoped definition was forced, in some state s1: cites its creator *)
  Definition forced (e : exec_error) : Prop := exists s1, origin t fl call s1 e.
  Definition xerr (e : exec_error) : Prop := cancelled e \/ unwrapped e \/ forced e.

  Definition lerrs {A} (RR : exec_error -> Prop) (m : LM A) : Prop := forall s p e, m s p = Err e -> RR e.
  Lemma x_ret A RR (a : A) : lerrs RR (ret a). Proof. intros s p e H. discriminate. Qed.
  Lemma x_bind A B RR (c : LM A) (f : A -> LM B) : lerrs RR c -> (forall a, lerrs RR (f a)) -> lerrs RR (bind c f).
  Proof. intros Hc Hf s p e H. apply bind_err in H as [H|(a & s1 & p1 & _ & H)]; [eapply Hc|eapply Hf]; eauto. Qed.
  Lemma x_weaken A (RR RR' : exec_error -> Prop) (c : LM A) : (forall e, RR e -> RR' e) -> lerrs RR c -> lerrs RR' c.
  Proof. intros HR H s p e He. eapply HR, H, He. Qed.
  Lemma x_iterM A RR (f : A -> LM unit) l : (forall x, In x l -> lerrs RR (f x)) -> lerrs RR (iterM f l).
  Proof.
    induction l as [|x l IH]; intros H; cbn [iterM]; [apply x_ret|]. apply x_bind; [apply H; left; reflexivity|intros _].
    apply IH. intros y Hy. apply H. right. exact Hy.
  Qed.
  Lemma x_mapM A B RR (f : A -> LM B) l : (forall x, lerrs RR (f x)) -> lerrs RR (mapM f l).
  Proof.
    intros H. induction l as [|x l IH]; cbn [mapM]; [apply x_ret|]. apply x_bind; [apply H|intros y]. apply x_bind; [exact IH|intros ys; apply x_ret].
  Qed.
  Lemma x_get_bind A RR (f : lstate -> LM A) : (forall s1, lerrs RR (f s1)) -> lerrs RR (s <- get_state ;; f s).
  Proof. intros H s p e He. unfold bind, get_state in He. eapply H, He. Qed.
  Lemma x_panic A RR x : lerrs RR (@panic lstate A x). Proof. intros s p e H. discriminate. Qed.
  Lemma x_oof A RR : lerrs RR (@out_of_fuel lstate A). Proof. intros s p e H. discriminate. Qed.
  Lemma x_fail A e : base_error e -> lerrs xerr (@fail lstate A e).
  Proof. intros Hb s p e' H. inversion H; subst. right; left. apply U_base, Hb. Qed.
  Lemma x_lift A (r : res A) : base_res r -> lerrs xerr (lift r).
  Proof. intros Hb s p e H. unfold lift in H. destruct r; try discriminate. inversion H; subst. right; left. apply U_base, Hb. Qed.
  Lemma x_poll l : lerrs xerr (lpoll l).
  Proof. intros s p e H. apply poll_err in H as (-> & _). left. exists l. reflexivity. Qed.

  Ltac destruct_matches_in H :=
    repeat match type of H with context [match ?x with _ => _ end] => destruct x eqn:? end.
  Ltac xprim := intros s0 p0 e0 H;
    cbv [ladd_node ladd_node_attr lopt_node_attr lfull_match_node lpush_frame lpop_frame lclear_frame store_add scoped_store_add cell_get cell_set
         lunscoped_get lunscoped_add lunscoped_set push_lstmt
         set_lgraph set_llocals set_lstore set_lscoped set_lparams Lazy.upd bind get_state modify ret fail panic out_of_fuel] in H;
    destruct_matches_in H; try discriminate; inversion H; subst; right; left; apply U_base; exact I.

  Lemma x_ladd_node : lerrs xerr ladd_node. Proof. xprim. Qed.
  Lemma x_ladd_node_attr n k v : lerrs xerr (ladd_node_attr n k v). Proof. xprim. Qed.
  Lemma x_lopt_node_attr n name v : lerrs xerr (lopt_node_attr n name v). Proof. xprim. Qed.
  Lemma x_lfull_match_node le : lerrs xerr (lfull_match_node le). Proof. xprim. Qed.
  Lemma x_lpush_frame : lerrs xerr lpush_frame. Proof. xprim. Qed.
  Lemma x_lpop_frame : lerrs xerr lpop_frame. Proof. xprim. Qed.
  Lemma x_lclear_frame : lerrs xerr lclear_frame. Proof. xprim. Qed.
  Lemma x_set_llocals l : lerrs xerr (set_llocals l). Proof. xprim. Qed.
  Lemma x_store_add lv dbg : lerrs xerr (store_add lv dbg). Proof. xprim. Qed.
  Lemma x_scoped_store_add sc name v dbg : lerrs xerr (scoped_store_add sc name v dbg). Proof. xprim. Qed.
  Lemma x_push_lstmt st : lerrs xerr (push_lstmt st). Proof. xprim. Qed.
  Lemma x_lunscoped_get name : lerrs xerr (lunscoped_get glob name). Proof. xprim. Qed.
  Lemma x_lunscoped_add le name v mu : lerrs xerr (lunscoped_add glob le name v mu). Proof. xprim. Qed.
  Lemma x_lunscoped_set le name v : lerrs xerr (lunscoped_set glob le name v). Proof. xprim. Qed.
  Lemma x_lpoll_n k l : lerrs xerr (lpoll_n k l).
  Proof. induction k as [|k IH]; cbn [lpoll_n]; [apply x_ret|]. apply x_bind; [apply x_poll|intros _; exact IH]. Qed.

  (* forcing from the execution phase: the error has its origin in the state in which the forcing started *)
  Lemma x_eval_lv fuel lv : lerrs xerr (eval_lv' fuel lv).
  Proof.
    intros s p e H. pose proof (ev_eval_lv t fl call Hcall s (fun _ => True) fuel lv s p (conj (same_dbgs_refl s) I)) as K.
    rewrite H in K. destruct K as [K|[[_ K]|K]]; [left; exact K|right; left; exact K|right; right; exists s; exact K].
  Qed.

  Lemma x_leval : forall fuel le e, lerrs xerr (leval' fuel le e).
  Proof.
    induction fuel as [|fuel IH]; intros le e; [apply x_oof|].
    assert (Heager : forall e', lerrs xerr (lv <- leval' fuel le e' ;; eval_lv' (S fuel + default_eval_fuel) lv)).
    { intros e'. apply x_bind; [apply IH|intros lv; apply x_eval_lv]. }
    assert (Hcomp : forall elem var value,
      lerrs xerr (lv <- (lv <- leval' fuel le value ;; eval_lv' (S fuel + default_eval_fuel) lv) ;; vals <- lift (as_list lv) ;;
           lpush_frame ;;;
           out <- mapM (fun v => lclear_frame ;;; lunscoped_add glob le var (LValue v) false ;;; leval' fuel le elem) vals ;;
           lpop_frame ;;; ret out)).
    { intros elem var value. apply x_bind; [apply Heager|intros lv]. apply x_bind; [apply x_lift, base_as_list|intros vals].
      apply x_bind; [apply x_lpush_frame|intros _]. apply x_bind.
      - apply x_mapM. intros v. apply x_bind; [apply x_lclear_frame|intros _]. apply x_bind; [apply x_lunscoped_add|intros _]. apply IH.
      - intros out. apply x_bind; [apply x_lpop_frame|intros _; apply x_ret]. }
    destruct e; cbn [leval]; try apply x_ret.
    - apply x_bind; [apply x_mapM; intros; apply IH|intros vs; apply x_ret].
    - apply x_bind; [apply x_mapM; intros; apply IH|intros vs; apply x_ret].
    - apply x_bind; [apply Hcomp|intros out; apply x_ret].
    - apply x_bind; [apply Hcomp|intros out; apply x_ret].
    - apply x_bind; [apply x_lift, base_from_nodes|intros v; apply x_ret].
    - apply x_lunscoped_get.
    - apply x_bind; [apply IH|intros sv; apply x_ret].
    - apply x_bind; [apply x_mapM; intros; apply IH|intros vs; apply x_ret].
    - destruct (nth_error _ _); [apply x_ret|apply x_fail; exact I].
  Qed.
  Lemma x_leager fuel le e : lerrs xerr (leager t fl glob call fuel le e).
  Proof. unfold leager. apply x_bind; [apply x_leval|intros lv; apply x_eval_lv]. Qed.
  Lemma x_lvar_add fuel le v x mu : lerrs xerr (lvar_add t fl glob call fuel le v x mu).
  Proof.
    destruct v; cbn [lvar_add]; [apply x_lunscoped_add|]. destruct mu; [apply x_fail; exact I|].
    apply x_bind; [apply x_leval|intros sv]. apply x_bind; [apply x_store_add|intros var]. apply x_scoped_store_add.
  Qed.
  Lemma x_lvar_set fuel le v x : lerrs xerr (lvar_set glob fuel le v x).
  Proof. destruct v; cbn [lvar_set]; [apply x_lunscoped_set|apply x_fail; exact I]. Qed.
  Lemma x_ltest_cond fuel le c : lerrs xerr (ltest_cond t fl glob call fuel le c).
  Proof.
    destruct c; cbn [ltest_cond]; (apply x_bind; [apply x_leager|intros v]); try apply x_ret. apply x_lift, base_as_bool.
  Qed.
  Lemma x_lexec_attr : forall fuel le a, lerrs xerr (lexec_attr' fuel le a).
  Proof.
    induction fuel as [|fuel IH]; intros le a; [apply x_oof|].
    destruct a as [name value]. cbn [lexec_attr]. apply x_bind; [apply x_poll|intros _].
    apply x_bind; [apply x_leval|intros v]. destruct (find_shorthand name (f_shorthands fl)) as [sh|]; [|apply x_ret].
    apply x_get_bind. intros s1. cbv zeta. apply x_bind; [apply x_set_llocals|intros _].
    apply x_bind; [apply x_lunscoped_add|intros _]. apply x_bind; [apply x_mapM; intros; apply IH|intros outs].
    apply x_bind; [apply x_set_llocals|intros _; apply x_ret].
  Qed.

  Section Loops.
    Variable RR : exec_error -> Prop.
    Hypothesis Hx : forall e, xerr e -> RR e.
    Lemma x_in A (c : LM A) : lerrs xerr c -> lerrs RR c. Proof. apply x_weaken, Hx. Qed.
    Lemma x_lscan_loop run_arm arms rs subject :
      (forall caps r body l, In (r, body, l) arms -> lerrs RR (run_arm caps body)) ->
      forall sfuel i, lerrs RR (lscan_loop find run_arm arms rs subject sfuel i).
    Proof.
      intros Hrun. induction sfuel as [|sfuel IHs]; intros i; cbn [lscan_loop]; [apply x_oof|].
      destruct (N.ltb i (N.of_nat (length subject))); [|apply x_ret]. cbv zeta.
      apply x_bind; [apply x_in, x_lpoll_n|intros _].
      destruct (arm_select find rs (skipn (N.to_nat i) subject)) as [|k|k caps]; [apply x_ret|apply x_in, x_fail; exact I|].
      destruct (nth_error arms (N.to_nat k)) as [[[r body] l']|] eqn:En; [|apply x_panic].
      apply x_bind; [apply x_in, x_lpush_frame|intros _].
      apply x_bind; [eapply Hrun; eapply nth_error_In; eauto|intros _].
      apply x_bind; [apply x_in, x_lpop_frame|intros _]. apply IHs.
    Qed.
    Lemma x_lif_loop test run_body :
      (forall c, lerrs RR (test c)) ->
      forall arms, (forall conds body l, In (conds, body, l) arms -> lerrs RR (run_body body)) ->
      lerrs RR (lif_loop test run_body arms).
    Proof.
      intros Ht. induction arms as [|[[conds body] l'] arms IHa]; intros Hr; cbn [lif_loop]; [apply x_ret|].
      apply x_bind; [apply x_mapM; intros c; apply Ht|intros bs].
      destruct (forallb (fun b => b) bs); [|apply IHa; intros; eapply Hr; right; eauto].
      apply x_bind; [apply x_in, x_lpush_frame|intros _].
      apply x_bind; [eapply Hr; left; reflexivity|intros _]. apply x_in, x_lpop_frame.
    Qed.
  End Loops.

  (* ---------------------------------------------------------------- one (stanza, match) block *)
  Variables (z : loc) (n : N) (m : qmatch).
  Definition lmk (l : loc) : stmt_ctx := {| sc_stmt := l; sc_stanza := z; sc_node := n |}.
  Definition env_zn (le : llenv) : Prop := sc_stanza (ll_ctx le) = z /\ sc_node (ll_ctx le) = n /\ ll_match le = m.

  (* statement s' was run in this block, with its own location in the error context, and ITS run returned e1, an error
     without statement context *)
  Definition lfails_directly (s' : stmt) (e1 : exec_error) : Prop :=
    unwrapped e1 /\
    exists fuel le s1 p1, lexec_stmt' fuel le s' s1 p1 = Err e1 /\ ll_ctx le = lmk (stmt_loc s') /\ ll_match le = m.
  (* e cites s', a direct child of a scan arm: InContext(Statement s', InContext("matching .. with arm ..", e1)) *)
  Definition arm_cited (L : list stmt) (e : exec_error) : Prop :=
    exists s' e1, In s' L /\ e = EInContext (CtxStmts [lmk (stmt_loc s')]) (EInContext CtxOther e1) /\ lfails_directly s' e1.
  (* e cites s', a top-level statement of the stanza *)
  Definition top_cited (L : list stmt) (e : exec_error) : Prop :=
    exists s' e1, In s' L /\ e = EInContext (CtxStmts [lmk (stmt_loc s')]) e1 /\ lfails_directly s' e1.
  Definition serr (L : list stmt) (e : exec_error) : Prop := cancelled e \/ unwrapped e \/ forced e \/ arm_cited L e.

  Lemma serr_x L e : xerr e -> serr L e.
  Proof. intros [H|[H|H]]; [left; exact H|right; left; exact H|right; right; left; exact H]. Qed.
  Lemma serr_mono L L' e : incl L L' -> serr L e -> serr L' e.
  Proof.
    intros Hi [H|[H|[H|(s' & e1 & Hin & H)]]]; [left; exact H|right; left; exact H|right; right; left; exact H|].
    right; right; right. exists s', e1. split; [apply Hi, Hin|exact H].
  Qed.
  Lemma ctx_update_zn le st : env_zn le -> ctx_update (ll_ctx le) st = lmk (stmt_loc st).
  Proof. intros (Hz & Hn & _). unfold ctx_update, lmk. rewrite Hz, Hn. reflexivity. Qed.
  Lemma env_zn_with le c : env_zn le -> sc_stanza c = z -> sc_node c = n -> env_zn (ll_with_ctx le c).
  Proof. intros (_ & _ & Hm) Hz Hn. repeat split; assumption. Qed.
  Lemma forced_add_context c e : forced e -> add_context c e = e.
  Proof. intros [s1 H]. eapply origin_add_context, H. Qed.

  (* a statement run inside with_context(Other) and its own statement context (scan-arm child) *)
  Lemma arm_child_error L fuel le st s0 p0 e :
    ll_ctx le = lmk (stmt_loc st) -> ll_match le = m -> incl (st :: arm_stmts st) L ->
    lerrs (serr (arm_stmts st)) (lexec_stmt' fuel le st) ->
    ctx_wrap (CtxStmts [lmk (stmt_loc st)]) (ctx_wrap CtxOther (lexec_stmt' fuel le st)) s0 p0 = Err e ->
    cancelled e \/ forced e \/ arm_cited L e.
  Proof.
    intros Hc Hm HL IH H. apply ctx_wrap_err in H as (e' & H & ->). apply ctx_wrap_err in H as (e1 & H & ->).
    destruct (IH _ _ _ H) as [[l ->]|[Hu|[Hf|(s' & e2 & Hin & -> & Hd)]]].
    - left. exists l. reflexivity.
    - right. right. exists st, e1. split; [apply HL; left; reflexivity|]. rewrite (unwrapped_add_other' _ Hu). split; [reflexivity|].
      split; [exact Hu|]. exists fuel, le, s0, p0. auto.
    - right. left. rewrite !(forced_add_context _ _ Hf). exact Hf.
    - right. right. exists s', e2. split; [apply HL; right; exact Hin|]. split; [reflexivity|exact Hd].
  Qed.

  Theorem lazy_stmt_error_cite : forall fuel le s, env_zn le -> lerrs (serr (arm_stmts s)) (lexec_stmt' fuel le s).
  Proof.
    induction fuel as [|fuel IH]; intros le s Henv; [apply x_oof|].
    assert (Hblock : forall le' body, env_zn le' ->
               (forall st, In st body -> incl (arm_stmts st) (arm_stmts s)) ->
               lerrs (serr (arm_stmts s)) (iterM (fun st => lexec_stmt' fuel (ll_with_ctx le' (ctx_update (ll_ctx le') st)) st) body)).
    { intros le' body He Hsub. apply x_iterM. intros st Hin. eapply x_weaken; [intros e; apply serr_mono, Hsub, Hin|].
      apply IH. rewrite (ctx_update_zn le' st He). apply env_zn_with; [exact He|reflexivity|reflexivity]. }
    assert (Harm : forall le' body, env_zn le' ->
               (forall st, In st body -> incl (st :: arm_stmts st) (arm_stmts s)) ->
               lerrs (serr (arm_stmts s)) (iterM (fun st => let c := ctx_update (ll_ctx le') st in
                                     ctx_wrap (CtxStmts [c]) (ctx_wrap CtxOther (lexec_stmt' fuel (ll_with_ctx le' c) st))) body)).
    { intros le' body He Hsub. apply x_iterM. intros st Hin s0 p0 e H. cbv zeta in H. rewrite (ctx_update_zn le' st He) in H.
      destruct (arm_child_error (arm_stmts s) fuel (ll_with_ctx le' (lmk (stmt_loc st))) st s0 p0 e) as [Hc|[Hf|Ha]]; auto.
      - apply He.
      - apply IH. apply env_zn_with; [exact He|reflexivity|reflexivity].
      - left. exact Hc.
      - right. right. left. exact Hf.
      - right. right. right. exact Ha. }
    pose proof (fun A (c : LM A) => x_in (serr (arm_stmts s)) (serr_x (arm_stmts s)) A c) as X.
    destruct s; cbn [lexec_stmt]; (apply x_bind; [apply X, x_poll|intros _]).
    - apply X. apply x_bind; [apply x_leval|intros x; apply x_lvar_add].
    - apply X. apply x_bind; [apply x_leval|intros x; apply x_lvar_add].
    - apply X. apply x_bind; [apply x_leval|intros x; apply x_lvar_set].
    - apply X. apply x_bind; [apply x_ladd_node|intros k]. apply x_bind; [apply x_lopt_node_attr|intros _].
      apply x_bind; [apply x_lopt_node_attr|intros _]. apply x_bind; [|intros _; apply x_lvar_add].
      destruct (c_match_attr cfg); [|apply x_ret]. apply x_bind; [apply x_lfull_match_node|intros mn]. apply x_ladd_node_attr.
    - apply X. apply x_bind; [apply x_leval|intros nv]. apply x_bind; [apply x_mapM; intros; apply x_lexec_attr|intros outs]. apply x_push_lstmt.
    - apply X. apply x_bind; [apply x_leval|intros a]. apply x_bind; [apply x_leval|intros b]. cbv zeta. apply x_push_lstmt.
    - apply X. apply x_bind; [apply x_leval|intros a]. apply x_bind; [apply x_leval|intros b].
      apply x_bind; [apply x_mapM; intros; apply x_lexec_attr|intros outs]. apply x_push_lstmt.
    - apply x_bind; [apply X, x_leager|intros sv]. apply x_bind; [apply X, x_lift, base_as_str|intros subject].
      destruct (arm_table regexes arms) as [rs|]; [|apply x_panic].
      apply x_lscan_loop; [apply serr_x|]. intros caps r body l' Hin. apply (Harm (ll_with_caps le caps) body); [exact Henv|].
      intros st Hst. eapply arms_scan; eauto.
    - apply X. apply x_bind; [|intros args; apply x_push_lstmt]. apply x_mapM. intros e. destruct e; try apply x_ret.
      all: apply x_bind; [apply x_leval|intros lv; apply x_ret].
    - apply x_lif_loop; [apply serr_x|intros c; apply X, x_ltest_cond|]. intros conds body l' Hin. apply (Hblock le body); [exact Henv|].
      intros st Hst. eapply arms_if; eauto.
    - apply x_bind; [apply X, x_leager|intros lv]. apply x_bind; [apply X, x_lift, base_as_list|intros vals].
      apply x_bind; [apply X, x_lpush_frame|intros _]. apply x_bind; [|intros _; apply X, x_lpop_frame].
      apply x_iterM. intros v _. apply x_bind; [apply X, x_lclear_frame|intros _].
      apply x_bind; [apply X, x_lunscoped_add|intros _]. apply (Hblock le body); [exact Henv|].
      intros st Hst. eapply arms_for; eauto.
  Qed.

  Lemma lclear_frame_no_err s p e : lclear_frame s p <> Err e.
  Proof. cbv [lclear_frame bind get_state set_llocals Lazy.upd modify]. discriminate. Qed.

  (* one block: the error cites a top-level statement of the stanza or a scan-arm child nested in one, or comes from forcing *)
  Theorem lazy_stanza_error_cite fuel st s p e rest :
    z = st_start st -> nodes_for_capture m (st_full_file_idx st) = n :: rest ->
    lexec_stanza t fl cfg glob regexes find call fuel st m s p = Err e ->
    cancelled e \/ forced e \/ top_cited (st_stmts st) e \/ arm_cited (flat_map arm_stmts (st_stmts st)) e.
  Proof.
    intros Ez Hn H. unfold lexec_stanza in H. apply bind_err in H as [H|(u & s1 & p1 & _ & H)].
    { apply poll_err in H as (-> & _). left. exists L_matches. reflexivity. }
    apply bind_err in H as [H|(u' & s2 & p2 & _ & H)]; [exfalso; eapply lclear_frame_no_err, H|].
    cbv zeta in H. rewrite Hn in H. apply iterM_err in H as (x & s' & p' & Hin & H). rewrite <- Ez in H.
    change {| sc_stmt := stmt_loc x; sc_stanza := z; sc_node := n |} with (lmk (stmt_loc x)) in H.
    apply ctx_wrap_err in H as (e1 & H & ->).
    assert (Henv : env_zn (ll_with_ctx {| ll_match := m; ll_full := st_full_file_idx st; ll_caps := []; ll_ctx := {| sc_stmt := (0, 0); sc_stanza := z; sc_node := 0 |} |}
                                      (lmk (stmt_loc x)))) by (repeat split).
    destruct (lazy_stmt_error_cite fuel _ x Henv _ _ _ H) as [[l ->]|[Hu|[Hf|(s'' & e2 & Hin' & -> & Hd)]]].
    - left. exists l. reflexivity.
    - right. right. left. exists x, e1. split; [exact Hin|]. split; [apply unwrapped_add_stmts, Hu|]. split; [exact Hu|].
      eexists fuel, _, s', p'. split; [exact H|]. split; reflexivity.
    - right. left. rewrite (forced_add_context _ _ Hf). exact Hf.
    - right. right. right. exists s'', e2. split; [|split; [reflexivity|exact Hd]]. apply in_flat_map. exists x. split; assumption.
  Qed.
End CiteExec.
