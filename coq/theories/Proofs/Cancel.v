(* Proofs/Cancel.v — C11: cancellation.  A run whose flag fails from its k-th poll on is compared
   with the run whose flag never fails: identical until the k-th poll, then exactly the bare
   Cancelled error; never wrapped in a context; no poll after the k-th. *)
From TSG Require Import Model.Strict Model.Lazy Proofs.MonadFacts Proofs.StrictMeta Proofs.LazyMeta.

Definition with_budget (p : polls) (b : option N) : polls :=
  {| p_count := p_count p; p_trace := p_trace p; p_budget := b |}.

(* ---------- 1. the cancellation error is never wrapped ---------- *)
Definition cancel_shape (e : exec_error) : Prop :=
  (exists l, e = ECancelled l) \/ (forall l, root_cause e <> ECancelled l).

Lemma cancel_shape_base e : base_error e -> cancel_shape e.
Proof. intros H. right. intros l. destruct e; cbn in *; try discriminate; contradiction. Qed.
Lemma cancel_shape_add_context c e : cancel_shape e -> cancel_shape (add_context c e).
Proof.
  intros [[l ->]|H]; [left; exists l; reflexivity|]. right. intros l.
  destruct e; cbn; try apply (H l); try discriminate.
  - destruct c0; cbn; apply (H l).
Qed.

Definition errs_ok {S A} (m : M S A) : Prop := forall s p e, m s p = Err e -> cancel_shape e.

(* ---------- 2. budget k versus no budget ---------- *)
Definition is_cancel {A} (r : outcome exec_error A) : Prop := exists l, r = Err (ECancelled l).

Definition sim {S A} (k : N) (r1 r2 : outcome exec_error (A * S * polls)) : Prop :=
  match r1 with
  | Ok (a, s', p1') => if N.ltb (p_count p1') k then r2 = Ok (a, s', with_budget p1' (Some k)) else is_cancel r2
  | Err e => r2 = Err e \/ is_cancel r2
  | Panic x => r2 = Panic x \/ is_cancel r2
  | OutOfFuel => r2 = OutOfFuel \/ is_cancel r2
  end.

Record cancel_ok {S A} (k : N) (m : M S A) : Prop := {
  co_mono : forall s p a s' p', m s p = Ok (a, s', p') ->
              (p_count p <= p_count p')%N /\ p_budget p' = p_budget p /\
              (p_budget p = Some k -> (p_count p < k)%N -> (p_count p' < k)%N);
  co_sim : forall s p, p_budget p = None -> (p_count p < k)%N -> sim k (m s p) (m s (with_budget p (Some k)));
}.

(* computations that neither read nor change the poll state *)
Definition pindep {S A} (m : M S A) : Prop :=
  forall s p, m s p = match m s (polls0 None) with Ok (a, s', _) => Ok (a, s', p) | Err e => Err e | Panic x => Panic x | OutOfFuel => OutOfFuel end.

Section Generic.
  Context {S : Type}.
  Variable k : N.

  Lemma pindep_ret A (a : A) : pindep (@ret S A a). Proof. intros s p. reflexivity. Qed.
  Lemma pindep_fail A e : pindep (@fail S A e). Proof. intros s p. reflexivity. Qed.
  Lemma pindep_panic A x : pindep (@panic S A x). Proof. intros s p. reflexivity. Qed.
  Lemma pindep_oof A : pindep (@out_of_fuel S A). Proof. intros s p. reflexivity. Qed.
  Lemma pindep_get : pindep (@get_state S). Proof. intros s p. reflexivity. Qed.
  Lemma pindep_modify f : pindep (@modify S f). Proof. intros s p. reflexivity. Qed.
  Lemma pindep_lift A (r : res A) : pindep (@lift S A r). Proof. intros s p. destruct r; reflexivity. Qed.
  Lemma pindep_bind A B (m : M S A) (f : A -> M S B) : pindep m -> (forall a, pindep (f a)) -> pindep (bind m f).
  Proof.
    intros Hm Hf s p. unfold bind. rewrite (Hm s p). destruct (m s (polls0 None)) as [[[a s1] p1]| | |]; try reflexivity.
    rewrite (Hf a s1 p), (Hf a s1 p1). destruct (f a s1 (polls0 None)) as [[[b s2] p2]| | |]; reflexivity.
  Qed.
  Lemma pindep_match_option A B (o : option B) (m1 : B -> M S A) (m2 : M S A) :
    (forall b, pindep (m1 b)) -> pindep m2 -> pindep (match o with Some b => m1 b | None => m2 end).
  Proof. destruct o; auto. Qed.

  Lemma pindep_cancel_ok A (m : M S A) : pindep m -> cancel_ok k m.
  Proof.
    intros H. split.
    - intros s p a s' p' E. rewrite (H s p) in E. destruct (m s (polls0 None)) as [[[a0 s0] p0]| | |]; try discriminate.
      inversion E; subst. repeat split; auto. apply N.le_refl.
    - intros s p Hb Hc. unfold sim. rewrite (H s p), (H s (with_budget p (Some k))).
      destruct (m s (polls0 None)) as [[[a0 s0] p0]| | |]; try (left; reflexivity).
      destruct (N.ltb_spec (p_count p) k); [reflexivity|]. exfalso. apply (N.lt_irrefl k). eapply N.le_lt_trans; eauto.
  Qed.

  Lemma cancel_ok_ret A (a : A) : cancel_ok k (@ret S A a). Proof. apply pindep_cancel_ok, pindep_ret. Qed.

  Lemma cancel_ok_bind A B (m : M S A) (f : A -> M S B) : cancel_ok k m -> (forall a, cancel_ok k (f a)) -> cancel_ok k (bind m f).
  Proof.
    intros Hm Hf. split.
    - intros s p b s' p' E. apply bind_ok in E as (a & s1 & p1 & E1 & E2).
      destruct (co_mono _ _ Hm _ _ _ _ _ E1) as (L1 & B1 & K1). destruct (co_mono _ _ (Hf a) _ _ _ _ _ E2) as (L2 & B2 & K2).
      repeat split.
      + eapply N.le_trans; eauto.
      + congruence.
      + intros Hb Hc. apply K2; [congruence|]. apply K1; assumption.
    - intros s p Hb Hc. pose proof (co_sim _ _ Hm s p Hb Hc) as Sm. unfold sim in Sm. unfold bind at 1.
      destruct (m s p) as [[[a s1] p1]|e|x|] eqn:E1.
      + destruct (co_mono _ _ Hm _ _ _ _ _ E1) as (L1 & B1 & _).
        destruct (N.ltb_spec (p_count p1) k) as [Hlt|Hge].
        * unfold bind. rewrite Sm. apply (co_sim _ _ (Hf a)); [congruence|exact Hlt].
        * (* the k-th poll happened inside m: the budgeted run is cancelled *)
          assert (Hc2 : is_cancel (bind m f s (with_budget p (Some k)))).
          { destruct Sm as [l Hl]. exists l. unfold bind. rewrite Hl. reflexivity. }
          unfold sim. destruct (f a s1 p1) as [[[b s2] p2]|e|x|] eqn:E2; try (right; exact Hc2).
          destruct (co_mono _ _ (Hf a) _ _ _ _ _ E2) as (L2 & _ & _).
          destruct (N.ltb_spec (p_count p2) k) as [Hlt2|_]; [|exact Hc2].
          exfalso. apply (N.lt_irrefl k). eapply N.le_lt_trans; [exact Hge|]. eapply N.le_lt_trans; eauto.
      + unfold sim. destruct Sm as [Sm|[l Sm]]; [left|right; exists l]; unfold bind; rewrite Sm; reflexivity.
      + unfold sim. destruct Sm as [Sm|[l Sm]]; [left|right; exists l]; unfold bind; rewrite Sm; reflexivity.
      + unfold sim. destruct Sm as [Sm|[l Sm]]; [left|right; exists l]; unfold bind; rewrite Sm; reflexivity.
  Qed.

  Lemma cancel_ok_ctx A c (m : M S A) : cancel_ok k m -> cancel_ok k (ctx_wrap c m).
  Proof.
    intros Hm. split.
    - intros s p a s' p' E. apply ctx_wrap_ok in E. eapply co_mono; eauto.
    - intros s p Hb Hc. pose proof (co_sim _ _ Hm s p Hb Hc) as Sm. unfold sim in *. unfold ctx_wrap.
      destruct (m s p) as [[[a s1] p1]|e|x|] eqn:E1.
      + destruct (N.ltb (p_count p1) k); [rewrite Sm; reflexivity|]. destruct Sm as [l Sm]. exists l. rewrite Sm. reflexivity.
      + destruct Sm as [Sm|[l Sm]]; rewrite Sm; [left; reflexivity|right; exists l; reflexivity].
      + destruct Sm as [Sm|[l Sm]]; rewrite Sm; [left; reflexivity|right; exists l; reflexivity].
      + destruct Sm as [Sm|[l Sm]]; rewrite Sm; [left; reflexivity|right; exists l; reflexivity].
  Qed.

  Lemma cancel_ok_poll l : cancel_ok k (@poll S l).
  Proof.
    split.
    - intros s p a s' p' E. apply poll_ok in E as (-> & -> & Hf). unfold poll_step in *.
      destruct (p_budget p) as [k0|] eqn:Eb; cbn [fst snd p_count p_budget] in *.
      + split; [apply N.le_add_r|]. split; [congruence|]. intros Hk _. inversion Hk; subst. apply N.leb_gt in Hf. exact Hf.
      + split; [apply N.le_add_r|]. split; [congruence|]. intros Hk. discriminate.
    - intros s p Hb Hc. unfold sim, poll, poll_step. rewrite Hb. cbn [p_budget with_budget p_count p_trace].
      destruct (N.ltb_spec (p_count p + 1) k) as [Hlt|Hge].
      + destruct (N.leb_spec k (p_count p + 1)) as [Hle|_]; [exfalso; apply (N.lt_irrefl k); eapply N.le_lt_trans; eauto|].
        reflexivity.
      + destruct (N.leb_spec k (p_count p + 1)) as [_|Hlt]; [exists l; reflexivity|].
        exfalso. apply (N.lt_irrefl k). eapply N.le_lt_trans; eauto.
  Qed.

  (* errors *)
  Lemma errs_ok_ret A (a : A) : errs_ok (@ret S A a). Proof. intros s p e H. discriminate. Qed.
  Lemma errs_ok_bind A B (m : M S A) (f : A -> M S B) : errs_ok m -> (forall a, errs_ok (f a)) -> errs_ok (bind m f).
  Proof. intros Hm Hf s p e H. apply bind_err in H as [H|(a & s1 & p1 & _ & H)]; [eapply Hm|eapply Hf]; eauto. Qed.
  Lemma errs_ok_ctx A c (m : M S A) : errs_ok m -> errs_ok (ctx_wrap c m).
  Proof. intros Hm s p e H. apply ctx_wrap_err in H as (e0 & H & ->). apply cancel_shape_add_context. eapply Hm; eauto. Qed.
  Lemma errs_ok_poll l : errs_ok (@poll S l).
  Proof. intros s p e H. apply poll_err in H as (-> & _). left. exists l. reflexivity. Qed.
  Lemma errs_ok_fail A e : base_error e -> errs_ok (@fail S A e).
  Proof. intros Hb s p e' H. inversion H; subst. apply cancel_shape_base, Hb. Qed.
  Lemma errs_ok_noerr A (m : M S A) : (forall s p e, m s p <> Err e) -> errs_ok m.
  Proof. intros H s p e E. exfalso. eapply H; eauto. Qed.
  Lemma pindep_errs_base A (m : M S A) : (forall s e, m s (polls0 None) = Err e -> cancel_shape e) -> pindep m -> errs_ok m.
  Proof.
    intros Hb Hp s p e H. rewrite (Hp s p) in H. destruct (m s (polls0 None)) as [[[a s1] p1]|e0| |] eqn:E; try discriminate.
    inversion H; subst. eapply Hb; eauto.
  Qed.
End Generic.

(* the combined admissible predicate *)
Definition cancel_adm {S A} (k : N) (m : M S A) : Prop := cancel_ok k m /\ errs_ok m.

(* functions supplied by the caller: their errors are ordinary errors (never Cancelled) *)
Definition call_errors_ok (call : ident -> graph -> list value -> res (value * graph)) : Prop :=
  forall f g args e, call f g args = Err e -> cancel_shape e.

Ltac destruct_matches :=
  repeat match goal with
         | |- context [match ?x with _ => _ end] => destruct x eqn:?
         | H : context [match ?x with _ => _ end] |- _ => destruct x eqn:?
         end.

(* ---------- strict interpreter ---------- *)
Section CancelStrict.
  Context {rx : Type}.
  Variable t : tree.
  Variable fl : file.
  Variable cfg : config.
  Variable glob : globals.
  Variable regexes : list rx.
  Variable find : rx -> str -> option (list (option (N * N))).
  Variable call : ident -> graph -> list value -> res (value * graph).
  Hypothesis Hcall : call_errors_ok call.
  Variable k : N.

  Ltac prim_pindep := intros s p; cbv [add_node add_attr add_edge call_function set_graph set_locals set_scoped set_params
                                       bind get_state modify ret fail panic out_of_fuel]; destruct_matches; reflexivity.
  Ltac prim_errs := intros s e H; cbv [add_node add_attr add_edge call_function set_graph set_locals set_scoped set_params
                                       bind get_state modify ret fail panic out_of_fuel] in H; destruct_matches;
                    try discriminate; inversion H; subst; try (apply cancel_shape_base; exact I).

  Lemma adm_of_pindep A (m : M sstate A) : pindep m -> (forall s e, m s (polls0 None) = Err e -> cancel_shape e) -> cancel_adm k m.
  Proof. intros Hp He. split; [apply pindep_cancel_ok, Hp|apply pindep_errs_base; assumption]. Qed.

  Theorem exec_file_cancel fuel sts ms : cancel_adm k (exec_file t fl cfg glob regexes find call fuel sts ms).
  Proof.
    apply (Phi_exec_file t fl cfg glob regexes find call (fun A m => cancel_adm k m)) with (good_ctx := fun _ => True); [..|exact (fun _ => I)].
    - intros A a. split; [apply cancel_ok_ret|apply errs_ok_ret].
    - intros A B m f [H1 H2] Hf. split; [apply cancel_ok_bind; [exact H1|intros a; apply Hf]|apply errs_ok_bind; [exact H2|intros a; apply Hf]].
    - intros A e Hb. split; [apply pindep_cancel_ok, pindep_fail|apply errs_ok_fail, Hb].
    - intros A x. split; [apply pindep_cancel_ok, pindep_panic|apply errs_ok_noerr; intros; discriminate].
    - intros A. split; [apply pindep_cancel_ok, pindep_oof|apply errs_ok_noerr; intros; discriminate].
    - intros A c m _ [H1 H2]. split; [apply cancel_ok_ctx, H1|apply errs_ok_ctx, H2].
    - split; [apply pindep_cancel_ok, pindep_get|apply errs_ok_noerr; intros; discriminate].
    - intros l. apply adm_of_pindep; [prim_pindep|prim_errs].
    - intros l. apply adm_of_pindep; [prim_pindep|prim_errs].
    - intros l. apply adm_of_pindep; [prim_pindep|prim_errs].
    - intros l. split; [apply cancel_ok_poll|apply errs_ok_poll].
    - apply adm_of_pindep; [prim_pindep|prim_errs].
    - intros tgt kk v. apply adm_of_pindep; [prim_pindep|prim_errs].
    - intros a b. apply adm_of_pindep; [prim_pindep|prim_errs].
    - intros f args. apply adm_of_pindep; [prim_pindep|prim_errs]. eapply Hcall; eauto.
  Qed.
End CancelStrict.

(* ---------- lazy interpreter ---------- *)
Section CancelLazy.
  Context {rx : Type}.
  Variable t : tree.
  Variable fl : file.
  Variable cfg : config.
  Variable glob : globals.
  Variable regexes : list rx.
  Variable find : rx -> str -> option (list (option (N * N))).
  Variable call : ident -> graph -> list value -> res (value * graph).
  Hypothesis Hcall : call_errors_ok call.
  Variable k : N.

  Ltac unf := cbv [ladd_node ladd_node_attr lcall_function lattr_node_add ledge_add lattr_edge_add fail_in
                   set_lgraph set_llocals set_lstore set_lscoped push_lstmt set_lparams set_lprev upd
                   bind get_state modify ret fail panic out_of_fuel].
  Ltac prim_pindep := intros s p; unf; destruct_matches; reflexivity.
  Ltac prim_errs := intros s e H; revert H; unf; intros H; destruct_matches;
                    try discriminate; inversion H; subst; try (apply cancel_shape_base; exact I).

  Lemma ladm_of_pindep A (m : M lstate A) : pindep m -> (forall s e, m s (polls0 None) = Err e -> cancel_shape e) -> cancel_adm k m.
  Proof. intros Hp He. split; [apply pindep_cancel_ok, Hp|apply pindep_errs_base; assumption]. Qed.

  Lemma cancel_shape_in c e : base_error e -> cancel_shape (EInContext c e).
  Proof. intros Hb. right. intros l. cbn. destruct e; cbn in *; try discriminate; contradiction. Qed.

  Theorem lexec_file_cancel fuel ms : cancel_adm k (lexec_file t fl cfg glob regexes find call fuel ms).
  Proof.
    apply (Phi_lexec_file t fl cfg glob regexes find call (fun A m => cancel_adm k m)) with (good_ctx := fun _ => True).
    - intros A a. split; [apply cancel_ok_ret|apply errs_ok_ret].
    - intros A B m f [H1 H2] Hf. split; [apply cancel_ok_bind; [exact H1|intros a; apply Hf]|apply errs_ok_bind; [exact H2|intros a; apply Hf]].
    - intros A e Hb. split; [apply pindep_cancel_ok, pindep_fail|apply errs_ok_fail, Hb].
    - intros A c1 c2 e Hb. apply ladm_of_pindep; [intros s p; reflexivity|]. intros s e' H. inversion H; subst. apply cancel_shape_in, Hb.
    - intros A x. split; [apply pindep_cancel_ok, pindep_panic|apply errs_ok_noerr; intros; discriminate].
    - intros A. split; [apply pindep_cancel_ok, pindep_oof|apply errs_ok_noerr; intros; discriminate].
    - exact I.
    - intros; exact I.
    - intros A c m _ [H1 H2]. split; [apply cancel_ok_ctx, H1|apply errs_ok_ctx, H2].
    - split; [apply pindep_cancel_ok, pindep_get|apply errs_ok_noerr; intros; discriminate].
    - intros l. apply ladm_of_pindep; [prim_pindep|prim_errs].
    - intros l. apply ladm_of_pindep; [prim_pindep|prim_errs].
    - intros l. apply ladm_of_pindep; [prim_pindep|prim_errs].
    - intros st. apply ladm_of_pindep; [prim_pindep|prim_errs].
    - intros l. apply ladm_of_pindep; [prim_pindep|prim_errs].
    - intros l. apply ladm_of_pindep; [prim_pindep|prim_errs].
    - intros l. split; [apply cancel_ok_poll|apply errs_ok_poll].
    - apply ladm_of_pindep; [prim_pindep|prim_errs].
    - intros n kk v. apply ladm_of_pindep; [prim_pindep|prim_errs].
    - intros f args. apply ladm_of_pindep; [prim_pindep|prim_errs]. eapply Hcall; eauto.
    - intros n kk v prev dbg. apply ladm_of_pindep; [prim_pindep|prim_errs]. all: apply cancel_shape_in; exact I.
    - intros a b ea. apply ladm_of_pindep; [prim_pindep|prim_errs].
    - intros a b kk v prev dbg. apply ladm_of_pindep; [prim_pindep|prim_errs]. all: try (apply cancel_shape_in; exact I).
  Qed.
End CancelLazy.

(* ---------- whole runs ---------- *)
Section Runs.
  Context {rx : Type}.
  Variables (t : tree) (fl : file) (cfg : config) (supplied : globals) (regexes : list rx)
            (find : rx -> str -> option (list (option (N * N))))
            (call : ident -> graph -> list value -> res (value * graph)).
  Hypothesis Hcall : call_errors_ok call.

  Lemma check_globals_errors g e : check_globals (f_globals fl) g = Err e -> cancel_shape e.
  Proof.
    revert g. induction (f_globals fl) as [|d ds IH]; intros g; cbn [check_globals obind]; [discriminate|].
    unfold check_global. destruct_matches; cbn [obind]; try discriminate; try (intros H; inversion H; subst; apply cancel_shape_base; exact I); try apply IH.
  Qed.

  Notation run_s := (fun budget fuel ms g0 => run_strict t fl cfg supplied budget regexes find call fuel ms g0).
  Notation run_l := (fun budget fuel ms g0 => run_lazy t fl cfg supplied budget regexes find call fuel ms g0).

  (* the uncancelled run succeeds with n polls; the flag fails from its k-th poll on, 1 <= k <= n:
     the result is the cancellation error itself *)
  Theorem strict_cancel_at_k_lemma fuel ms g0 s p k :
    run_s None fuel ms g0 = Ok (s, p) -> (1 <= k <= p_count p)%N ->
    exists l, run_s (Some k) fuel ms g0 = Err (ECancelled l).
  Proof.
    cbv beta. unfold run_strict. destruct (check_globals (f_globals fl) (globals_nested supplied)) as [glob| | |]; try discriminate.
    destruct (exec_file _ _ _ _ _ _ _ _ _ _ (sinit g0) (polls0 None)) as [[[u s1] p1]| | |] eqn:E; try discriminate.
    intros H [Hk1 Hk2]. inversion H; subst.
    pose proof (co_sim _ _ (proj1 (exec_file_cancel t fl cfg glob regexes find call Hcall k fuel (f_stanzas fl) ms)) (sinit g0) (polls0 None) eq_refl) as Sm.
    unfold sim in Sm. rewrite E in Sm. cbn [polls0 p_count] in Sm.
    assert (Hlt : (0 < k)%N) by (apply N.lt_le_trans with (m := 1%N); [reflexivity|exact Hk1]). specialize (Sm Hlt).
    destruct (N.ltb_spec (p_count p) k) as [Hc|_]; [exfalso; apply (N.lt_irrefl k); eapply N.le_lt_trans; eauto|].
    destruct Sm as [l Sm]. exists l. change (with_budget (polls0 None) (Some k)) with (polls0 (Some k)) in Sm. rewrite Sm. reflexivity.
  Qed.

  (* a flag that does not fire (k beyond the last poll) does not change the result *)
  Theorem strict_never_cancel_neutral_lemma fuel ms g0 s p k :
    run_s None fuel ms g0 = Ok (s, p) -> (p_count p < k)%N ->
    run_s (Some k) fuel ms g0 = Ok (s, with_budget p (Some k)).
  Proof.
    cbv beta. unfold run_strict. destruct (check_globals (f_globals fl) (globals_nested supplied)) as [glob| | |]; try discriminate.
    destruct (exec_file _ _ _ _ _ _ _ _ _ _ (sinit g0) (polls0 None)) as [[[u s1] p1]| | |] eqn:E; try discriminate.
    intros H Hk. inversion H; subst.
    pose proof (co_mono _ _ (proj1 (exec_file_cancel t fl cfg glob regexes find call Hcall k fuel (f_stanzas fl) ms)) _ _ _ _ _ E) as (Hm & _ & _).
    pose proof (co_sim _ _ (proj1 (exec_file_cancel t fl cfg glob regexes find call Hcall k fuel (f_stanzas fl) ms)) (sinit g0) (polls0 None) eq_refl) as Sm.
    unfold sim in Sm. rewrite E in Sm. cbn [polls0 p_count] in Sm, Hm.
    assert (Hlt : (0 < k)%N) by (eapply N.le_lt_trans; eauto). specialize (Sm Hlt).
    destruct (N.ltb_spec (p_count p) k) as [_|Hc]; [|exfalso; apply (N.lt_irrefl k); eapply N.le_lt_trans; eauto].
    change (with_budget (polls0 None) (Some k)) with (polls0 (Some k)) in Sm. rewrite Sm. reflexivity.
  Qed.

  (* a failing uncancelled run: with a budget the result is the same error or the bare cancellation *)
  Theorem strict_cancel_or_same_error_lemma fuel ms g0 e k : (0 < k)%N ->
    run_s None fuel ms g0 = Err e ->
    run_s (Some k) fuel ms g0 = Err e \/ exists l, run_s (Some k) fuel ms g0 = Err (ECancelled l).
  Proof.
    cbv beta. unfold run_strict. intros Hlt. destruct (check_globals (f_globals fl) (globals_nested supplied)) as [glob|e0| |]; try discriminate; [|intros H; left; exact H].
    destruct (exec_file _ _ _ _ _ _ _ _ _ _ (sinit g0) (polls0 None)) as [[[u s1] p1]| | |] eqn:E; try discriminate.
    intros H. inversion H; subst.
    pose proof (co_sim _ _ (proj1 (exec_file_cancel t fl cfg glob regexes find call Hcall k fuel (f_stanzas fl) ms)) (sinit g0) (polls0 None) eq_refl Hlt) as Sm.
    unfold sim in Sm. rewrite E in Sm. change (with_budget (polls0 None) (Some k)) with (polls0 (Some k)) in Sm.
    destruct Sm as [Sm|[l Sm]]; rewrite Sm; [left; reflexivity|right; exists l; reflexivity].
  Qed.

  (* whatever the budget: a cancellation is reported bare, never inside a context; after it nothing runs *)
  Theorem strict_cancel_bare_lemma budget fuel ms g0 e :
    run_s budget fuel ms g0 = Err e -> cancel_shape e.
  Proof.
    cbv beta. unfold run_strict. destruct (check_globals (f_globals fl) (globals_nested supplied)) as [glob|e0| |] eqn:Eg; try discriminate.
    - destruct (exec_file _ _ _ _ _ _ _ _ _ _ (sinit g0) (polls0 budget)) as [[[u s1] p1]| | |] eqn:E; try discriminate.
      intros H. inversion H; subst. exact (proj2 (exec_file_cancel t fl cfg glob regexes find call Hcall 0 fuel (f_stanzas fl) ms) _ _ _ E).
    - intros H. inversion H; subst. eapply check_globals_errors; eauto.
  Qed.
  Theorem strict_cancel_stops_lemma fuel ms g0 s p k : (0 < k)%N ->
    run_s (Some k) fuel ms g0 = Ok (s, p) -> (p_count p < k)%N.
  Proof.
    cbv beta. unfold run_strict. intros Hlt. destruct (check_globals (f_globals fl) (globals_nested supplied)) as [glob| | |]; try discriminate.
    destruct (exec_file _ _ _ _ _ _ _ _ _ _ (sinit g0) (polls0 (Some k))) as [[[u s1] p1]| | |] eqn:E; try discriminate.
    intros H. inversion H; subst.
    pose proof (co_mono _ _ (proj1 (exec_file_cancel t fl cfg glob regexes find call Hcall k fuel (f_stanzas fl) ms)) _ _ _ _ _ E) as (_ & _ & Hk).
    apply Hk; [reflexivity|exact Hlt].
  Qed.

  (* ---- the same for lazy runs ---- *)
  Theorem lazy_cancel_at_k_lemma fuel ms g0 s p k :
    run_l None fuel ms g0 = Ok (s, p) -> (1 <= k <= p_count p)%N ->
    exists l, run_l (Some k) fuel ms g0 = Err (ECancelled l).
  Proof.
    cbv beta. unfold run_lazy. destruct (check_globals (f_globals fl) (globals_nested supplied)) as [glob| | |]; try discriminate.
    destruct (lexec_file _ _ _ _ _ _ _ _ _ (linit g0) (polls0 None)) as [[[u s1] p1]| | |] eqn:E; try discriminate.
    intros H [Hk1 Hk2]. inversion H; subst.
    pose proof (co_sim _ _ (proj1 (lexec_file_cancel t fl cfg glob regexes find call Hcall k fuel ms)) (linit g0) (polls0 None) eq_refl) as Sm.
    unfold sim in Sm. rewrite E in Sm. cbn [polls0 p_count] in Sm.
    assert (Hlt : (0 < k)%N) by (apply N.lt_le_trans with (m := 1%N); [reflexivity|exact Hk1]). specialize (Sm Hlt).
    destruct (N.ltb_spec (p_count p) k) as [Hc|_]; [exfalso; apply (N.lt_irrefl k); eapply N.le_lt_trans; eauto|].
    destruct Sm as [l Sm]. exists l. change (with_budget (polls0 None) (Some k)) with (polls0 (Some k)) in Sm. rewrite Sm. reflexivity.
  Qed.
  Theorem lazy_never_cancel_neutral_lemma fuel ms g0 s p k :
    run_l None fuel ms g0 = Ok (s, p) -> (p_count p < k)%N ->
    run_l (Some k) fuel ms g0 = Ok (s, with_budget p (Some k)).
  Proof.
    cbv beta. unfold run_lazy. destruct (check_globals (f_globals fl) (globals_nested supplied)) as [glob| | |]; try discriminate.
    destruct (lexec_file _ _ _ _ _ _ _ _ _ (linit g0) (polls0 None)) as [[[u s1] p1]| | |] eqn:E; try discriminate.
    intros H Hk. inversion H; subst.
    pose proof (co_mono _ _ (proj1 (lexec_file_cancel t fl cfg glob regexes find call Hcall k fuel ms)) _ _ _ _ _ E) as (Hm & _ & _).
    pose proof (co_sim _ _ (proj1 (lexec_file_cancel t fl cfg glob regexes find call Hcall k fuel ms)) (linit g0) (polls0 None) eq_refl) as Sm.
    unfold sim in Sm. rewrite E in Sm. cbn [polls0 p_count] in Sm, Hm.
    assert (Hlt : (0 < k)%N) by (eapply N.le_lt_trans; eauto). specialize (Sm Hlt).
    destruct (N.ltb_spec (p_count p) k) as [_|Hc]; [|exfalso; apply (N.lt_irrefl k); eapply N.le_lt_trans; eauto].
    change (with_budget (polls0 None) (Some k)) with (polls0 (Some k)) in Sm. rewrite Sm. reflexivity.
  Qed.
  Theorem lazy_cancel_or_same_error_lemma fuel ms g0 e k : (0 < k)%N ->
    run_l None fuel ms g0 = Err e ->
    run_l (Some k) fuel ms g0 = Err e \/ exists l, run_l (Some k) fuel ms g0 = Err (ECancelled l).
  Proof.
    cbv beta. unfold run_lazy. intros Hlt. destruct (check_globals (f_globals fl) (globals_nested supplied)) as [glob|e0| |]; try discriminate; [|intros H; left; exact H].
    destruct (lexec_file _ _ _ _ _ _ _ _ _ (linit g0) (polls0 None)) as [[[u s1] p1]| | |] eqn:E; try discriminate.
    intros H. inversion H; subst.
    pose proof (co_sim _ _ (proj1 (lexec_file_cancel t fl cfg glob regexes find call Hcall k fuel ms)) (linit g0) (polls0 None) eq_refl Hlt) as Sm.
    unfold sim in Sm. rewrite E in Sm. change (with_budget (polls0 None) (Some k)) with (polls0 (Some k)) in Sm.
    destruct Sm as [Sm|[l Sm]]; rewrite Sm; [left; reflexivity|right; exists l; reflexivity].
  Qed.
  Theorem lazy_cancel_bare_lemma budget fuel ms g0 e :
    run_l budget fuel ms g0 = Err e -> cancel_shape e.
  Proof.
    cbv beta. unfold run_lazy. destruct (check_globals (f_globals fl) (globals_nested supplied)) as [glob|e0| |] eqn:Eg; try discriminate.
    - destruct (lexec_file _ _ _ _ _ _ _ _ _ (linit g0) (polls0 budget)) as [[[u s1] p1]| | |] eqn:E; try discriminate.
      intros H. inversion H; subst. exact (proj2 (lexec_file_cancel t fl cfg glob regexes find call Hcall 0 fuel ms) _ _ _ E).
    - intros H. inversion H; subst. eapply check_globals_errors; eauto.
  Qed.
  Theorem lazy_cancel_stops_lemma fuel ms g0 s p k : (0 < k)%N ->
    run_l (Some k) fuel ms g0 = Ok (s, p) -> (p_count p < k)%N.
  Proof.
    cbv beta. unfold run_lazy. intros Hlt. destruct (check_globals (f_globals fl) (globals_nested supplied)) as [glob| | |]; try discriminate.
    destruct (lexec_file _ _ _ _ _ _ _ _ _ (linit g0) (polls0 (Some k))) as [[[u s1] p1]| | |] eqn:E; try discriminate.
    intros H. inversion H; subst.
    pose proof (co_mono _ _ (proj1 (lexec_file_cancel t fl cfg glob regexes find call Hcall k fuel ms)) _ _ _ _ _ E) as (_ & _ & Hk).
    apply Hk; [reflexivity|exact Hlt].
  Qed.
End Runs.
