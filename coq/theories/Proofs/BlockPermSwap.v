(* Proofs/BlockPermSwap.v — C08, part 3: what one block (stanza, match) of the lazy interpreter does, as a DELTA
   appended to the state (fresh nodes, fresh thunks, deferred statements), and
     block_shift : the same block started from another state (other sizes) succeeds/fails alike and appends the
                   same delta with graph ids and store locations shifted;
     block_swap  : executing two blocks in the other order gives the state with the two deltas swapped
                   and renumbered (STEP 1, adjacent transposition). *)
From TSG Require Import Model.Lazy Proofs.BaseFacts Proofs.Containers Proofs.MonadFacts Proofs.StrictMeta Proofs.LazyMeta Proofs.Cancel
  Proofs.SLForce Proofs.SLExpr Proofs.BlockPermRen Proofs.BlockPermSim Proofs.BlockPermDepth.

(* ---------------- without a budget the poll state does not influence the run ---------------- *)
Definition same_res {A} (r1 r2 : outcome exec_error (A * lstate * polls)) : Prop :=
  match r1, r2 with
  | Ok (a, s, p), Ok (b, s', q) => a = b /\ s = s' /\ nob p /\ nob q
  | Err e, Err e' => e = e'
  | Panic x, Panic y => x = y
  | OutOfFuel, OutOfFuel => True
  | _, _ => False
  end.
Definition pfree {A} (m : M lstate A) : Prop := forall s p q, nob p -> nob q -> same_res (m s p) (m s q).

Lemma pfree_of_pindep A (m : M lstate A) : pindep m -> pfree m.
Proof.
  intros H s p q Hp Hq. rewrite (H s p), (H s q). destruct (m s (polls0 None)) as [[[a s'] p']|e|x|]; cbn; auto.
Qed.
Lemma pfree_bind A B (m : M lstate A) (f : A -> M lstate B) : pfree m -> (forall a, pfree (f a)) -> pfree (bind m f).
Proof.
  intros Hm Hf s p q Hp Hq. specialize (Hm s p q Hp Hq). unfold bind.
  destruct (m s p) as [[[a s1] p1]|e|x|], (m s q) as [[[b s2] q1]|e'|y|]; cbn in Hm; try contradiction; try exact Hm.
  destruct Hm as (-> & -> & Hp1 & Hq1). apply Hf; assumption.
Qed.
Lemma pfree_ctx A c (m : M lstate A) : pfree m -> pfree (ctx_wrap c m).
Proof.
  intros Hm s p q Hp Hq. specialize (Hm s p q Hp Hq). unfold ctx_wrap.
  destruct (m s p) as [[[a s1] p1]|e|x|], (m s q) as [[[b s2] q1]|e'|y|]; cbn in *; try contradiction; try exact Hm. congruence.
Qed.
Lemma pfree_poll l : pfree (lpoll l).
Proof. intros s p q Hp Hq. unfold lpoll, poll, poll_step. rewrite Hp, Hq. cbn. repeat split; reflexivity. Qed.

Section PFree.
  Context {rx : Type}.
  Variables (t : tree) (fl : file) (cfg : config) (glob : globals) (regexes : list rx)
            (find : rx -> str -> option (list (option (N * N))))
            (call : ident -> graph -> list value -> res (value * graph)).
  Ltac unf := cbv [ladd_node ladd_node_attr lcall_function lattr_node_add ledge_add lattr_edge_add fail_in
                   set_lgraph set_llocals set_lstore set_lscoped push_lstmt set_lparams set_lprev Lazy.upd
                   bind get_state modify ret fail panic out_of_fuel].
  Ltac prim := apply pfree_of_pindep; intros s p; unf; destruct_matches; reflexivity.
  Lemma pfree_lexec_stanza fuel st m : pfree (lexec_stanza t fl cfg glob regexes find call fuel st m).
  Proof.
    apply (Phi_lexec_stanza t fl cfg glob regexes find call (fun A m => pfree m)) with (good_ctx := fun _ => True).
    - intros A a. prim.
    - intros A B m0 f H1 Hf. apply pfree_bind; assumption.
    - intros A e _. prim.
    - intros A c1 c2 e _. prim.
    - intros A x. prim.
    - intros A. prim.
    - exact I.
    - intros; exact I.
    - intros A c m0 _ H. apply pfree_ctx, H.
    - prim.
    - intros l. prim.
    - intros l. prim.
    - intros l. prim.
    - intros st0. prim.
    - intros l. prim.
    - intros l. apply pfree_poll.
    - prim.
    - intros n kk v. prim.
    - intros f args. prim.
  Qed.
End PFree.

(* ---------------- deltas ---------------- *)
Record delta := { d_nodes : list gnode; d_thunks : list thunk; d_edges : list lstmt; d_attrs : list lstmt; d_prints : list lstmt }.
Definition dren (rg rl : N -> N) (d : delta) : delta :=
  {| d_nodes := d_nodes d; d_thunks := map (thren rg rl) (d_thunks d); d_edges := map (lsren rg rl) (d_edges d);
     d_attrs := map (lsren rg rl) (d_attrs d); d_prints := map (lsren rg rl) (d_prints d) |}.
(* s' = s with the delta appended; the local variables (cleared by the next block) are left unspecified *)
Definition extends (s : lstate) (d : delta) (s' : lstate) : Prop :=
  l_graph s' = l_graph s ++ d_nodes d /\ l_store s' = l_store s ++ d_thunks d /\
  l_edges s' = l_edges s ++ d_edges d /\ l_attrs s' = l_attrs s ++ d_attrs d /\ l_prints s' = l_prints s ++ d_prints d /\
  l_params s' = l_params s /\ l_scoped s' = l_scoped s /\ l_prev s' = l_prev s /\ length (l_locals s') = length (l_locals s).


(* a delta created at sizes (gb, kb): fresh nodes carry id-free attributes only; every graph id is a shared
   one (< n0) or one of the delta's own nodes; thunk j only mentions earlier thunks of the delta *)
Definition delta_ok (eaok : amap -> Prop) (okfn : ident -> Prop) (n0 gb kb : N) (d : delta) : Prop :=
  let D := fun i => i < n0 \/ (gb <= i /\ i < gb + N.of_nat (length (d_nodes d))) in
  let L := fun m l => kb <= l /\ l < m in
  Forall (fun nd => g_edges nd = [] /\ amap_plain (g_attrs nd)) (d_nodes d) /\
  (forall j th, nth_error (d_thunks d) j = Some th -> thall okfn D (L (kb + N.of_nat j)) th) /\
  Forall (fun st => is_estmt st /\ lsall eaok okfn D (L (kb + N.of_nat (length (d_thunks d)))) st) (d_edges d) /\
  Forall (fun st => is_astmt st /\ lsall eaok okfn D (L (kb + N.of_nat (length (d_thunks d)))) st) (d_attrs d) /\
  Forall (fun st => is_pstmt st /\ lsall eaok okfn D (L (kb + N.of_nat (length (d_thunks d)))) st) (d_prints d).

Definition one_frame (s : lstate) : Prop := length (l_locals s) = 1%nat.

Section Blocks.
  Context {rx : Type}.
  Variables (t : tree) (fl : file) (cfg : config) (glob : globals) (regexes : list rx)
            (find : rx -> str -> option (list (option (N * N))))
            (call : ident -> graph -> list value -> res (value * graph)).
  Variable eaok : amap -> Prop.
  Variable okfn : ident -> Prop.
  Variable n0 : N.
  Hypothesis Hea : forall l : loc, eaok (match c_loc_attr cfg with Some k => [(k, VStr (loc_text l))] | None => [] end).
  Hypothesis Hcall : forall f, okfn f -> call_ok call f.
  Hypothesis Hglob : forall name v, globals_get glob name = Some v -> vall (fun i => i < n0) v.

  (* a block of the fragment *)
  Definition block_ok (st : stanza) (qm : qmatch) : Prop :=
    All (fstmt okfn qm) (st_stmts st) /\ Forall (fun sh => All (fattr okfn qm) (sh_attrs sh)) (f_shorthands fl).

  Notation run st qm fuel := (lexec_stanza t fl cfg glob regexes find call fuel st qm).

  (* the stanza starts by clearing the frame: only the cleared state matters *)
  Lemma run_cleared st qm fuel s p : run st qm fuel s p = run st qm fuel (wlocals (varmap_clear (l_locals s)) s) p.
  Proof.
    unfold lexec_stanza, bind, lpoll, poll. destruct (poll_step L_matches p) as [q c]. destruct c; [reflexivity|].
    unfold lclear_frame, bind, get_state, set_llocals, upd, modify. cbn [l_locals wlocals l_graph l_store l_scoped l_edges l_attrs l_prints l_params l_prev].
    replace (varmap_clear (varmap_clear (l_locals s))) with (varmap_clear (l_locals s)) by (destruct (l_locals s); reflexivity). reflexivity.
  Qed.

  Lemma R_start B1 B2 : n0 <= gn B1 -> n0 <= gn B2 -> one_frame B1 -> one_frame B2 ->
    R eaok okfn n0 (gn B1) (sn B1) (gn B2) (sn B2) (l_graph B1) (l_graph B2) (l_store B1) (l_store B2) (l_edges B1) (l_edges B2)
      (l_attrs B1) (l_attrs B2) (l_prints B1) (l_prints B2) (l_scoped B1) (l_scoped B2) (l_prev B1) (l_prev B2) (l_params B1) (l_params B2)
      (wlocals (varmap_clear (l_locals B1)) B1) (wlocals (varmap_clear (l_locals B2)) B2).
  Proof.
    intros H1 H2 F1 F2. unfold one_frame in *. destruct (l_locals B1) as [|f1 [|]]; try discriminate. destruct (l_locals B2) as [|f2 [|]]; try discriminate.
    cbn [varmap_clear]. unfold R, gn, sn. cbn [wlocals l_graph l_locals l_store l_scoped l_edges l_attrs l_prints l_params l_prev].
    split; [exists []; rewrite !app_nil_r; repeat split; constructor|].
    split; [exists []; rewrite !app_nil_r; cbn [map]; repeat split; intros j th Hj; destruct j; discriminate|].
    split; [split; [reflexivity|repeat constructor]|].
    split; [exists []; rewrite !app_nil_r; repeat split; constructor|]. split; [exists []; rewrite !app_nil_r; repeat split; constructor|].
    split; [exists []; rewrite !app_nil_r; repeat split; constructor|]. split; [exists []; rewrite !app_nil_r; repeat split; constructor|].
    repeat split; reflexivity.
  Qed.

  (* STEP 1a: shift equivariance of one block, in terms of deltas *)
  Theorem block_shift st qm fuel B1 B2 p : block_ok st qm ->
    n0 <= gn B1 -> n0 <= gn B2 -> one_frame B1 -> one_frame B2 ->
    match run st qm fuel B1 p with
    | Ok (_, s1', p') =>
        exists d s2', run st qm fuel B2 p = Ok (tt, s2', p') /\ extends B1 d s1' /\
                      extends B2 (dren (shg (gn B1) (gn B2)) (shl (sn B1) (sn B2)) d) s2' /\ delta_ok eaok okfn n0 (gn B1) (sn B1) d
    | Err e => run st qm fuel B2 p = Err e
    | Panic x => run st qm fuel B2 p = Panic x
    | OutOfFuel => run st qm fuel B2 p = OutOfFuel
    end.
  Proof.
    intros [Hst Hsh] H1 H2 F1 F2. rewrite (run_cleared st qm fuel B1 p), (run_cleared st qm fuel B2 p).
    pose proof (bsim_lexec_stanza eaok okfn n0 (gn B1) (sn B1) (gn B2) (sn B2) H1 H2 (l_graph B1) (l_graph B2) (l_store B1) (l_store B2) (l_edges B1) (l_edges B2)
      (l_attrs B1) (l_attrs B2) (l_prints B1) (l_prints B2) (l_scoped B1) (l_scoped B2) (l_prev B1) (l_prev B2) (l_params B1) (l_params B2)
      eq_refl eq_refl eq_refl eq_refl t fl cfg glob regexes find call Hcall Hglob Hea qm Hsh fuel st 0 0 Hst
      _ _ p (R_start B1 B2 H1 H2 F1 F2) (N.le_0_l _) (N.le_0_l _)) as Hb.
    pose proof (keepD_lexec_stanza t fl cfg glob regexes find call fuel st qm (wlocals (varmap_clear (l_locals B1)) B1) p) as Hd1.
    pose proof (keepD_lexec_stanza t fl cfg glob regexes find call fuel st qm (wlocals (varmap_clear (l_locals B2)) B2) p) as Hd2.
    destruct (run st qm fuel (wlocals (varmap_clear (l_locals B1)) B1) p) as [[[u s1'] p']|e|x|]; try exact Hb.
    destruct Hb as ([] & s2' & E2 & HR & Hpa & Hg & Hs & _). specialize (Hd1 _ _ _ eq_refl). specialize (Hd2 _ _ _ E2).
    destruct HR as ((gs & Eg1 & Eg2 & Hpl) & (ts & Es1 & Es2 & Hac) & _ & (es & Ee1 & Ee2 & Ke & He) & (as_ & Ea1 & Ea2 & Ka & Ha) & (ps & Ep1 & Ep2 & Kp & Hp) &
                    (pa & Epa1 & Epa2 & _) & Hsc1 & Hsc2 & Hpv1 & Hpv2).
    exists {| d_nodes := gs; d_thunks := ts; d_edges := es; d_attrs := as_; d_prints := ps |}, s2'. split; [exact E2|].
    cbn [wlocals l_params l_locals] in Hpa, Hd1, Hd2.
    assert (Hpa0 : pa = []) by (rewrite Epa1 in Hpa; rewrite <- (app_nil_r (l_params B1)) in Hpa at 2; apply app_inv_head in Hpa; exact Hpa).
    assert (Hlen1 : length (varmap_clear (l_locals B1)) = length (l_locals B1)) by (destruct (l_locals B1); reflexivity).
    assert (Hlen2 : length (varmap_clear (l_locals B2)) = length (l_locals B2)) by (destruct (l_locals B2); reflexivity).
    split; [|split].
    - unfold extends. cbn [d_nodes d_thunks d_edges d_attrs d_prints]. repeat split; try assumption; congruence.
    - unfold extends, dren. cbn [d_nodes d_thunks d_edges d_attrs d_prints]. subst pa. cbn [map] in Epa2. rewrite app_nil_r in Epa2.
      repeat split; try assumption; congruence.
    - unfold delta_ok. cbn [d_nodes d_thunks d_edges d_attrs d_prints].
      assert (Egn : gn s1' = gn B1 + N.of_nat (length gs)) by (unfold gn; rewrite Eg1, app_length; lia).
      assert (Esn : sn s1' = sn B1 + N.of_nat (length ts)) by (unfold sn; rewrite Es1, app_length; lia).
      rewrite <- Egn, <- Esn. split; [exact Hpl|]. split; [exact Hac|]. assert (Hzip : forall (K : lstmt -> Prop) (Q : lstmt -> Prop) l, Forall K l -> Forall Q l -> Forall (fun st => K st /\ Q st) l).
      { intros K Q l H1' H2'. rewrite Forall_forall in *. intros x Hx. split; auto. }
      split; [apply Hzip; assumption|]. split; apply Hzip; assumption.
  Qed.

  Lemma extends_sizes s d s' : extends s d s' ->
    gn s' = gn s + N.of_nat (length (d_nodes d)) /\ sn s' = sn s + N.of_nat (length (d_thunks d)) /\ (one_frame s -> one_frame s').
  Proof.
    intros (Hg & Hs & _ & _ & _ & _ & _ & _ & Hl). unfold gn, sn, one_frame. rewrite Hg, Hs, !app_length, Hl. split; [lia|]. split; [lia|]. auto.
  Qed.
  Lemma run_nob st qm fuel s p u s' p' : nob p -> run st qm fuel s p = Ok (u, s', p') -> nob p'.
  Proof. intros Hp E. pose proof (pfree_lexec_stanza t fl cfg glob regexes find call fuel st qm s p p Hp Hp) as H. rewrite E in H. cbn in H. apply H. Qed.
  Lemma run_repoll st qm fuel s p q : nob p -> nob q ->
    match run st qm fuel s p with
    | Ok (_, s', _) => exists q', run st qm fuel s q = Ok (tt, s', q') /\ nob q'
    | Err e => run st qm fuel s q = Err e
    | Panic x => run st qm fuel s q = Panic x
    | OutOfFuel => run st qm fuel s q = OutOfFuel
    end.
  Proof.
    intros Hp Hq. pose proof (pfree_lexec_stanza t fl cfg glob regexes find call fuel st qm s p q Hp Hq) as H.
    destruct (run st qm fuel s p) as [[[u s'] p']|e|x|], (run st qm fuel s q) as [[[[] s''] q']|e'|y|]; cbn in H; try contradiction; try congruence.
    destruct H as (_ & -> & _ & Hq'). exists q'. auto.
  Qed.

  (* STEP 1: adjacent transposition.  dA, dB are the deltas the two blocks append when each is run alone from s;
     in the order A;B the result is s + dA + shift(dB), in the order B;A it is s + dB + shift(dA); if one order
     does not succeed, neither does the other. *)
  Theorem block_swap stA qA stB qB fuel s p : block_ok stA qA -> block_ok stB qB -> n0 <= gn s -> one_frame s -> nob p ->
    match (run stA qA fuel ;;; run stB qB fuel) s p with
    | Ok (_, sAB, _) =>
        exists dA dB sA sB sBA pBA,
          (run stB qB fuel ;;; run stA qA fuel) s p = Ok (tt, sBA, pBA) /\
          delta_ok eaok okfn n0 (gn s) (sn s) dA /\ delta_ok eaok okfn n0 (gn s) (sn s) dB /\
          extends s dA sA /\ extends sA (dren (shg (gn s) (gn sA)) (shl (sn s) (sn sA)) dB) sAB /\
          extends s dB sB /\ extends sB (dren (shg (gn s) (gn sB)) (shl (sn s) (sn sB)) dA) sBA
    | _ => forall r, (run stB qB fuel ;;; run stA qA fuel) s p <> Ok r
    end.
  Proof.
    intros HA HB Hn Hf Hp. unfold bind.
    destruct (run stA qA fuel s p) as [[[uA sA] pA]|eA|xA|] eqn:EA.
    - (* A succeeds from s *)
      pose proof (run_nob _ _ _ _ _ _ _ _ Hp EA) as HpA.
      destruct (run stB qB fuel s p) as [[[uB sB] pB]|eB|xB|] eqn:EB.
      + pose proof (run_nob _ _ _ _ _ _ _ _ Hp EB) as HpB.
        (* A from sB *)
        pose proof (block_shift stA qA fuel s sB p HA Hn) as SA. rewrite EA in SA.
        (* B from sA *)
        pose proof (block_shift stB qB fuel s sA p HB Hn) as SB. rewrite EB in SB.
        assert (XA : exists dA, extends s dA sA /\ delta_ok eaok okfn n0 (gn s) (sn s) dA).
        { pose proof (block_shift stA qA fuel s s p HA Hn Hn Hf Hf) as S0. rewrite EA in S0. destruct S0 as (d & s2 & _ & X & _ & Y). eauto. }
        assert (XB : exists dB, extends s dB sB /\ delta_ok eaok okfn n0 (gn s) (sn s) dB).
        { pose proof (block_shift stB qB fuel s s p HB Hn Hn Hf Hf) as S0. rewrite EB in S0. destruct S0 as (d & s2 & _ & X & _ & Y). eauto. }
        destruct XA as (dA0 & XA & _). destruct XB as (dB0 & XB & _).
        destruct (extends_sizes _ _ _ XA) as (GA & _ & FA). destruct (extends_sizes _ _ _ XB) as (GB & _ & FB).
        specialize (SA ltac:(lia) Hf (FB Hf)). specialize (SB ltac:(lia) Hf (FA Hf)).
        destruct SA as (dA & sBA & EA2 & XA1 & XA2 & OA). destruct SB as (dB & sAB & EB2 & XB1 & XB2 & OB).
        pose proof (run_repoll stB qB fuel sA p pA Hp HpA) as RB. rewrite EB2 in RB. destruct RB as (q1 & RB & _). rewrite RB.
        pose proof (run_repoll stA qA fuel sB p pB Hp HpB) as RA. rewrite EA2 in RA. destruct RA as (q2 & RA & _).
        exists dA, dB, sA, sB, sBA, q2. split; [exact RA|]. split; [exact OA|]. split; [exact OB|]. split; [exact XA1|]. split; [exact XB2|]. split; [exact XB1|exact XA2].
      + pose proof (block_shift stB qB fuel s sA p HB Hn) as SB. rewrite EB in SB.
        assert (XA : exists dA, extends s dA sA).
        { pose proof (block_shift stA qA fuel s s p HA Hn Hn Hf Hf) as S0. rewrite EA in S0. destruct S0 as (d & s2 & _ & X & _). eauto. }
        destruct XA as (dA0 & XA). destruct (extends_sizes _ _ _ XA) as (GA & _ & FA). specialize (SB ltac:(lia) Hf (FA Hf)).
        pose proof (run_repoll stB qB fuel sA p pA Hp HpA) as RB. rewrite SB in RB. rewrite RB. intros r; discriminate.
      + pose proof (block_shift stB qB fuel s sA p HB Hn) as SB. rewrite EB in SB.
        assert (XA : exists dA, extends s dA sA).
        { pose proof (block_shift stA qA fuel s s p HA Hn Hn Hf Hf) as S0. rewrite EA in S0. destruct S0 as (d & s2 & _ & X & _). eauto. }
        destruct XA as (dA0 & XA). destruct (extends_sizes _ _ _ XA) as (GA & _ & FA). specialize (SB ltac:(lia) Hf (FA Hf)).
        pose proof (run_repoll stB qB fuel sA p pA Hp HpA) as RB. rewrite SB in RB. rewrite RB. intros r; discriminate.
      + pose proof (block_shift stB qB fuel s sA p HB Hn) as SB. rewrite EB in SB.
        assert (XA : exists dA, extends s dA sA).
        { pose proof (block_shift stA qA fuel s s p HA Hn Hn Hf Hf) as S0. rewrite EA in S0. destruct S0 as (d & s2 & _ & X & _). eauto. }
        destruct XA as (dA0 & XA). destruct (extends_sizes _ _ _ XA) as (GA & _ & FA). specialize (SB ltac:(lia) Hf (FA Hf)).
        pose proof (run_repoll stB qB fuel sA p pA Hp HpA) as RB. rewrite SB in RB. rewrite RB. intros r; discriminate.
    - (* A fails from s: it fails from the state B leaves, too *)
      destruct (run stB qB fuel s p) as [[[uB sB] pB]|eB|xB|] eqn:EB; try (intros r; discriminate).
      pose proof (run_nob _ _ _ _ _ _ _ _ Hp EB) as HpB.
      assert (XB : exists dB, extends s dB sB).
      { pose proof (block_shift stB qB fuel s s p HB Hn Hn Hf Hf) as S0. rewrite EB in S0. destruct S0 as (d & s2 & _ & X & _). eauto. }
      destruct XB as (dB0 & XB). destruct (extends_sizes _ _ _ XB) as (GB & _ & FB).
      pose proof (block_shift stA qA fuel s sB p HA Hn ltac:(lia) Hf (FB Hf)) as SA. rewrite EA in SA.
      pose proof (run_repoll stA qA fuel sB p pB Hp HpB) as RA. rewrite SA in RA. rewrite RA. intros r; discriminate.
    - destruct (run stB qB fuel s p) as [[[uB sB] pB]|eB|xB|] eqn:EB; try (intros r; discriminate).
      pose proof (run_nob _ _ _ _ _ _ _ _ Hp EB) as HpB.
      assert (XB : exists dB, extends s dB sB).
      { pose proof (block_shift stB qB fuel s s p HB Hn Hn Hf Hf) as S0. rewrite EB in S0. destruct S0 as (d & s2 & _ & X & _). eauto. }
      destruct XB as (dB0 & XB). destruct (extends_sizes _ _ _ XB) as (GB & _ & FB).
      pose proof (block_shift stA qA fuel s sB p HA Hn ltac:(lia) Hf (FB Hf)) as SA. rewrite EA in SA.
      pose proof (run_repoll stA qA fuel sB p pB Hp HpB) as RA. rewrite SA in RA. rewrite RA. intros r; discriminate.
    - destruct (run stB qB fuel s p) as [[[uB sB] pB]|eB|xB|] eqn:EB; try (intros r; discriminate).
      pose proof (run_nob _ _ _ _ _ _ _ _ Hp EB) as HpB.
      assert (XB : exists dB, extends s dB sB).
      { pose proof (block_shift stB qB fuel s s p HB Hn Hn Hf Hf) as S0. rewrite EB in S0. destruct S0 as (d & s2 & _ & X & _). eauto. }
      destruct XB as (dB0 & XB). destruct (extends_sizes _ _ _ XB) as (GB & _ & FB).
      pose proof (block_shift stA qA fuel s sB p HA Hn ltac:(lia) Hf (FB Hf)) as SA. rewrite EA in SA.
      pose proof (run_repoll stA qA fuel sB p pB Hp HpB) as RA. rewrite SA in RA. rewrite RA. intros r; discriminate.
  Qed.
End Blocks.
