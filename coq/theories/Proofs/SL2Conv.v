(* Proofs/SL2Conv.v — C02 version 2, adequacy part 1: SOME lazy fuel suffices (with scoped variables).
   Forcing converges at both levels of Proofs/SL2Force.v: a pure value needs only pure thunks (well-founded: bodies
   mention earlier locations); any value: a scoped read forces its cell (every scope is pure: level 0) and then the
   value thunk of the definition found, an EARLIER location.  The lazy "evaluation" of every fragment expression
   whose strict evaluation succeeds converges.  The invariants of the limits are those of the `lres` lemmas. *)
From TSG Require Import Model.Lazy Proofs.BaseFacts Proofs.Containers Proofs.MonadFacts Proofs.SLGraph Proofs.SLForce Proofs.SLExpr Proofs.SLConv
  Proofs.Scoped Proofs.SL2Force Proofs.SL2Expr.

Lemma conv_bind_const {S A B} (x : M S A) (f : nat -> A -> M S B) s p a s1 p1 :
  x s p = Ok (a, s1, p1) -> conv (fun lf => f lf a s1 p1) -> conv (fun lf => bind x (f lf) s p).
Proof. intros E (Bd & r & H). exists Bd, r. intros lf Hlf. unfold bind. rewrite E. apply H, Hlf. Qed.

(* ---------------- generic convergence steps: lists, sets, calls ---------------- *)
Section GenericConv.
  Variable call : ident -> graph -> list value -> res (value * graph).
  Variable D : lvalue -> value -> Prop.
  Variable I : list thunk -> list (ident * scoped_values) -> Prop.
  Variable T : list thunk -> list (ident * scoped_values) -> list thunk -> list (ident * scoped_values) -> Prop.
  Hypothesis T_refl : forall st sc, T st sc st sc.
  Hypothesis T_trans : forall a b c d e f, T a b c d -> T c d e f -> T a b e f.
  Variable evF : nat -> lvalue -> M lstate value.
  Hypothesis HevF : forall F, gspec D I T (evF F).

  Definition gconv (lv : lvalue) : Prop := forall ls p, I (l_store ls) (l_scoped ls) -> nob p -> conv (fun F => evF F lv ls p).

  Lemma g_limit lv v ls p B a s p' : I (l_store ls) (l_scoped ls) -> D lv v -> nob p ->
    (forall F, (B <= F)%nat -> evF F lv ls p = Ok (a, s, p')) -> gpost I T v ls a s p'.
  Proof. intros HI Hd Hb H. apply (conv_lres (fun F => evF F lv ls p) _ B _ _ _ H). intros F. apply (HevF F lv v ls p HI Hd Hb). Qed.

  Lemma gconv_mapM : forall es vs, Forall2 (fun l v => D l v /\ gconv l) es vs ->
    forall ls p, I (l_store ls) (l_scoped ls) -> nob p -> conv (fun F => mapM (evF F) es ls p).
  Proof.
    intros es vs HF. induction HF as [|e v es vs [Hd Hc] _ IH]; intros ls p HI Hb; cbn [mapM].
    - eapply conv_const. reflexivity.
    - apply conv_bind; [apply (Hc ls p HI Hb)|]. intros v' ls1 p1 B0 HB.
      pose proof (g_limit e v ls p B0 _ _ _ HI Hd Hb HB) as (-> & Hb1 & G1).
      apply conv_bind; [apply (IH ls1 p1 (gstep_inv _ _ _ _ G1) Hb1)|]. intros vs' ls2 p2 B1 _. eapply conv_const. reflexivity.
  Qed.

  Lemma gconv_push_args : forall es vs, Forall2 (fun l v => D l v /\ gconv l) es vs ->
    forall ls p, I (l_store ls) (l_scoped ls) -> nob p -> conv (fun F => iterM (fun a => v <- evF F a ;; lpush_param v) es ls p).
  Proof.
    intros es vs HF. induction HF as [|e v es vs [Hd Hc] _ IH]; intros ls p HI Hb; cbn [iterM].
    - eapply conv_const. reflexivity.
    - apply conv_bind.
      + apply conv_bind; [apply (Hc ls p HI Hb)|]. intros v' ls1 p1 B0 _. eapply conv_const. reflexivity.
      + intros u ls2 p2 B0 HB.
        assert (HP : nob p2 /\ I (l_store ls2) (l_scoped ls2)).
        { apply (conv_lres (fun F => (v0 <- evF F e ;; lpush_param v0) ls p) (fun _ s p' => nob p' /\ I (l_store s) (l_scoped s)) B0 _ _ _ HB). intros F.
          apply lres_bind. eapply lres_mono; [apply (HevF F e v ls p HI Hd Hb)|].
          intros v' ls1 p1 (-> & Hb1 & st1 & sc1 & -> & I1 & _). unfold lpush_param. apply lres_get. unfold set_lparams, Lazy.upd. apply lres_modify.
          split; [exact Hb1|exact I1]. }
        destruct HP as (Hb2 & I2). apply (IH ls2 p2 I2 Hb2).
  Qed.

  Lemma Forall2_fst' {A B} (P Q : A -> B -> Prop) l l' : Forall2 (fun a b => P a b /\ Q a b) l l' -> Forall2 P l l'.
  Proof. intros H. induction H as [|a b l l' [H1 _] _ IH]; constructor; assumption. Qed.

  Lemma gconv_call f args vs v ls p : Forall2 (fun l v => D l v /\ gconv l) args vs -> (forall g, call f g vs = Ok (v, g)) ->
    I (l_store ls) (l_scoped ls) -> nob p ->
    conv (fun F => (iterM (fun a => x <- evF F a ;; lpush_param x) args ;;; ps <- ldrain_params (length args) ;; lcall_function call f ps) ls p).
  Proof.
    intros HF Hc HI Hb. apply conv_bind; [apply (gconv_push_args args vs HF ls p HI Hb)|]. intros u ls1 p1 B0 HB.
    pose proof (Forall2_fst' _ _ _ _ HF) as HF'.
    assert (HP : nob p1 /\ exists st' sc', ls1 = set_params_l (l_params ls ++ vs) (set_scoped_l sc' (set_store st' ls))).
    { apply (conv_lres (fun F => iterM (fun a => v0 <- evF F a ;; lpush_param v0) args ls p)
               (fun _ s p'' => nob p'' /\ exists st' sc', s = set_params_l (l_params ls ++ vs) (set_scoped_l sc' (set_store st' ls))) B0 _ _ _ HB). intros F.
      eapply lres_mono; [apply (g_push_args D I T T_refl T_trans (evF F) (HevF F) args vs ls p HF' HI Hb)|].
      intros _ s p'' (Hb'' & st' & sc' & E & _). split; [exact Hb''|]. exists st', sc'. exact E. }
    destruct HP as (Hb1 & st' & sc' & ->).
    eapply conv_const. unfold bind at 1.
    rewrite (ldrain_eq (l_params ls) vs (set_params_l (l_params ls ++ vs) (set_scoped_l sc' (set_store st' ls))) p1 args eq_refl (Forall2_len _ _ _ HF')).
    unfold lcall_function, bind, get_state. cbn [l_graph set_params_l set_scoped_l set_store]. rewrite (Hc (l_graph ls)). reflexivity.
  Qed.
End GenericConv.

Section Force2Conv.
  Variable call : ident -> graph -> list value -> res (value * graph).
  Variables (t : tree) (fl : file).
  Notation den2 := (den2 call).
  Notation eval_lv' := (eval_lv t fl call).
  Notation force_thunk' := (force_thunk t fl call).
  Notation force_scoped' := (force_scoped t fl call).

  (* induction on a denotation, with the induction hypothesis for elements, arguments and scopes *)
  Lemma den2_ind2 (w : world) (b : bool) (P : lvalue -> value -> Prop) :
    (forall v, P (LValue v) v) ->
    (forall ls vs, Forall2 (fun l v => den2 w b l v /\ P l v) ls vs -> P (LList ls) (VList vs)) ->
    (forall ls vs, Forall2 (fun l v => den2 w b l v /\ P l v) ls vs -> P (LSet ls) (VSet (set_of_list vs))) ->
    (forall loc v pb, nth_error (w_rho w) (N.to_nat loc) = Some (v, pb) -> (b = true -> pb = true) -> P (LVar loc) v) ->
    (forall sv name n a loc v pb, b = false -> den2 w b sv (VSyn n) -> P sv (VSyn n) ->
       (a = n \/ (winh w name = true /\ In a (anc (w_tree w) n))) -> In (a, name, loc) (w_sig w) ->
       nth_error (w_rho w) loc = Some (v, pb) -> P (LScoped sv name) v) ->
    (forall f args vs v, Forall2 (fun l v => den2 w b l v /\ P l v) args vs -> (forall g, call f g vs = Ok (v, g)) -> P (LCall f args) v) ->
    forall lv v, den2 w b lv v -> P lv v.
  Proof.
    intros H1 H2 H3 H4 H5 H6. fix IH 3. intros lv v H. destruct H as [v|ls vs HF|ls vs HF|loc v pb Hn Hb|sv name n a loc v pb Eb Hsv Ha Hin Hn|f args vs v HF Hc].
    - apply H1.
    - apply H2. revert ls vs HF. fix IHF 3. intros ls vs HF. destruct HF as [|x y l l' Hxy HF]; constructor; [split; [exact Hxy|apply IH, Hxy]|apply IHF, HF].
    - apply H3. revert ls vs HF. fix IHF 3. intros ls vs HF. destruct HF as [|x y l l' Hxy HF]; constructor; [split; [exact Hxy|apply IH, Hxy]|apply IHF, HF].
    - apply (H4 loc v pb Hn Hb).
    - apply (H5 sv name n a loc v pb Eb Hsv (IH _ _ Hsv) Ha Hin Hn).
    - apply (H6 f args vs v); [|exact Hc]. clear Hc. revert args vs HF. fix IHF 3. intros args vs HF.
      destruct HF as [|x y l l' Hxy HF]; constructor; [split; [exact Hxy|apply IH, Hxy]|apply IHF, HF].
  Qed.

  (* ================= level 0 ================= *)
  Definition fconv0 (k : nat) (w : world) (lv : lvalue) : Prop := gconv (I0 call k w) eval_lv' lv.
  Lemma spec0 k w : forall F, gspec (den2 (wcut k w) true) (I0 call k w) (T0 k w) (eval_lv' F).
  Proof. intros F. apply (force0_all call t fl F w). Qed.

  Lemma thunk0_conv_aux w k (IHk : forall k', (k' < k)%nat -> forall lv v, den2 (wcut k' w) true lv v -> fconv0 k' w lv) loc v ls p :
    S0 call k w (l_store ls) -> (N.to_nat loc < k)%nat -> nth_error (w_rho w) (N.to_nat loc) = Some (v, true) -> nob p ->
    conv (fun F => force_thunk' F loc ls p).
  Proof.
    intros Hst Hlt Hn Hb.
    eapply conv_shift; [intros F; cbn [force_thunk]; reflexivity|]. unfold bind at 1, get_state.
    destruct Hst as [Hlen Hok].
    destruct (nth_error (l_store ls) (N.to_nat loc)) as [th|] eqn:Eth.
    2:{ exfalso. apply nth_error_None in Eth. assert (N.to_nat loc < length (w_rho w))%nat by (apply nth_error_Some; congruence). lia. }
    apply conv_ctx. destruct (Hok _ _ Hlt Eth (ex_intro _ v Hn)) as (v0 & pb0 & Hv0 & Hs).
    assert (E0 : (v0, pb0) = (v, true)) by congruence. inversion E0; subst v0 pb0. clear E0.
    destruct (th_state th) as [inner| |v'] eqn:Es; [| contradiction |].
    + set (st1 := list_update (N.to_nat loc) (fun th0 => {| th_state := TForcing; th_dbg := th_dbg th0 |}) (l_store ls)).
      assert (Hst1 : S0 call (N.to_nat loc) w st1).
      { split; [unfold st1; rewrite list_update_length; exact Hlen|]. intros i th0 Hi Hni. unfold st1 in Hni.
        rewrite nth_error_update_other in Hni by lia. apply (Hok i th0); [lia|exact Hni]. }
      unfold bind at 1. unfold store_set_state at 1. unfold bind at 1, get_state, set_lstore, Lazy.upd, modify.
      apply conv_bind; [apply (IHk (N.to_nat loc) Hlt inner v Hs (set_store st1 ls) p Hst1 Hb)|].
      intros v' ls2 p2 B0 _. eapply conv_const. reflexivity.
    + eapply conv_const. reflexivity.
  Qed.

  Lemma force0_conv w : forall k lv v, den2 (wcut k w) true lv v -> fconv0 k w lv.
  Proof.
    induction k as [k IHk] using lt_wf_ind. intros lv v Hd. revert lv v Hd. apply den2_ind2.
    - intros v ls p Hst Hb. eapply conv_shift; [intros F; cbn [eval_lv]; reflexivity|].
      destruct (poll_nob L_eval_value ls p Hb) as (p' & E & _). eapply conv_const. unfold bind, lpoll. rewrite E. reflexivity.
    - intros es vs HF ls p Hst Hb. eapply conv_shift; [intros F; cbn [eval_lv]; reflexivity|].
      destruct (poll_nob L_eval_value ls p Hb) as (p' & E & Hb'). unfold bind at 1, lpoll. rewrite E.
      apply conv_bind; [apply (gconv_mapM _ _ _ eval_lv' (spec0 k w) es vs HF ls p' Hst Hb')|]. intros vs' ls1 p1 B0 _. eapply conv_const. reflexivity.
    - intros es vs HF ls p Hst Hb. eapply conv_shift; [intros F; cbn [eval_lv]; reflexivity|].
      destruct (poll_nob L_eval_value ls p Hb) as (p' & E & Hb'). unfold bind at 1, lpoll. rewrite E.
      apply conv_bind; [apply (gconv_mapM _ _ _ eval_lv' (spec0 k w) es vs HF ls p' Hst Hb')|]. intros vs' ls1 p1 B0 _. eapply conv_const. reflexivity.
    - intros loc v pb Hn Hpb ls p Hst Hb. cbn [wcut w_rho] in Hn. apply nth_error_firstn_lt in Hn. destruct Hn as [Hlt Hn]. rewrite (Hpb eq_refl) in Hn.
      eapply conv_shift; [intros F; cbn [eval_lv]; reflexivity|].
      destruct (poll_nob L_eval_value ls p Hb) as (p' & E & Hb'). unfold bind at 1, lpoll. rewrite E.
      apply (thunk0_conv_aux w k IHk loc v ls p' Hst Hlt Hn Hb').
    - intros sv name n a loc v pb Eb. discriminate.
    - intros f args vs v HF Hc ls p Hst Hb. eapply conv_shift; [intros F; cbn [eval_lv]; reflexivity|].
      destruct (poll_nob L_eval_value ls p Hb) as (p' & E & Hb'). unfold bind at 1, lpoll. rewrite E.
      apply (gconv_call call _ _ _ (T0_refl k w) (T0_trans k w) eval_lv' (spec0 k w) f args vs v ls p' HF Hc Hst Hb').
  Qed.
  Lemma thunk0_conv w k loc v ls p : S0 call k w (l_store ls) -> (N.to_nat loc < k)%nat -> nth_error (w_rho w) (N.to_nat loc) = Some (v, true) -> nob p ->
    conv (fun F => force_thunk' F loc ls p).
  Proof. apply thunk0_conv_aux. intros k' _. apply force0_conv. Qed.

  Lemma force0_full_convP w lv v ls p : Sfull call w (l_store ls) -> den2 w true lv v -> nob p ->
    convP (fun F => eval_lv' F lv ls p) (full_post2 call w v ls).
  Proof.
    intros Hst Hd Hb. apply convP_of_conv; [|intros F; apply (force0_full call t fl F w lv v ls p Hst Hd Hb)].
    pose proof Hd as Hd'. rewrite <- (wcut_all w (length (l_store ls))) in Hd' by (symmetry; apply (proj1 Hst)).
    apply (force0_conv w _ lv v Hd' ls p (Sfull_S0 call _ w _ Hst) Hb).
  Qed.

  (* ================= cells ================= *)
  Notation evsc F := (fun scope : lvalue => sv <- eval_lv' F scope ;; lift (as_syn sv)).
  Lemma evsc_spec K w F sc n ls p : length (w_rho w) = K -> S0 call K w (l_store ls) -> den2 w true sc (VSyn n) -> nob p ->
    lres (evsc F sc ls p) (gpost (I0 call K w) (T0 K w) n ls).
  Proof.
    intros HK Hst Hd Hb. destruct (force0_all call t fl F w) as [He _]. apply lres_bind.
    rewrite <- (wcut_all w K) in Hd by (symmetry; exact HK).
    eapply lres_mono; [apply (He _ sc (VSyn n) ls p Hst Hd Hb)|]. intros v' ls1 p1 (-> & H). eapply lres_lift; [reflexivity|]. split; [reflexivity|exact H].
  Qed.

  Lemma force_pairs_conv K w : length (w_rho w) = K ->
    forall ps ds, Forall2 (pair_ok call w) ps ds -> forall done dbgs ls p, NoDup (map fst (done ++ ds)) -> S0 call K w (l_store ls) -> nob p ->
      conv (fun F => force_pairs (evsc F) ps (forced_map done) dbgs ls p).
  Proof.
    intros HK ps ds HF. induction HF as [|[[scope lv] dbg] [n loc] ps ds [Hlv Hsc] HF IH]; intros done dbgs ls p Hnd Hst Hb; cbn [force_pairs].
    - eapply conv_const. reflexivity.
    - cbn [fst snd] in Hlv, Hsc. apply conv_bind.
      + apply conv_ctx. apply conv_ctx. apply conv_bind.
        * pose proof Hsc as Hsc'. rewrite <- (wcut_all w K) in Hsc' by (symmetry; exact HK). apply (force0_conv w K scope (VSyn n) Hsc' ls p Hst Hb).
        * intros v' ls1 p1 B0 HB.
          assert (HP : v' = VSyn n).
          { pose proof Hsc as Hsc'. rewrite <- (wcut_all w K) in Hsc' by (symmetry; exact HK).
            pose proof (g_limit _ _ _ eval_lv' (spec0 K w) scope (VSyn n) ls p B0 _ _ _ Hst Hsc' Hb HB) as (-> & _). reflexivity. }
          subst v'. eapply conv_const. reflexivity.
      + intros n' ls1 p1 B0 HB.
        assert (HP : gpost (I0 call K w) (T0 K w) n ls n' ls1 p1).
        { apply (conv_lres (fun F => ctx_wrap (CtxStmts [dbg]) (ctx_wrap CtxOther (evsc F scope)) ls p) _ B0 _ _ _ HB). intros F.
          apply lres_ctx, lres_ctx. apply (evsc_spec K w F scope n ls p HK Hst Hsc Hb). }
        destruct HP as (-> & Hb1 & G1).
        rewrite nmap_get_forced_none.
        2:{ rewrite map_app in Hnd. apply NoDup_remove_2 in Hnd. intros Hi. apply Hnd. apply in_or_app. left. exact Hi. }
        assert (E : forced_map done ++ [(n, lv)] = forced_map (done ++ [(n, loc)])) by (unfold forced_map; rewrite map_app; cbn [map fst snd]; rewrite Hlv; reflexivity).
        rewrite E. apply (IH (done ++ [(n, loc)]) _ ls1 p1); [rewrite <- app_assoc; exact Hnd|apply (gstep_inv _ _ _ _ G1)|exact Hb1].
  Qed.

  Lemma force_scoped_conv name cell w ls p : sig_nodup w -> cell_ok call w name cell -> S0 call (length (l_store ls)) w (l_store ls) -> nob p ->
    conv (fun F => force_scoped' F name cell ls p).
  Proof.
    intros Hnd Hc Hst Hb. eapply conv_shift; [intros F; cbn [force_scoped]; reflexivity|].
    destruct cell as [pairs| |m]; cbn [cell_ok] in Hc; [|contradiction|eapply conv_const; reflexivity].
    change (@nil (N * lvalue)) with (forced_map []).
    apply (force_pairs_conv (length (l_store ls)) w (proj1 Hst) pairs (sig_for name (w_sig w)) Hc [] [] ls p); [apply sig_for_nodup, Hnd|exact Hst|exact Hb].
  Qed.

  (* ================= level 1 ================= *)
  Definition fconv1 (k : nat) (w : world) (lv : lvalue) : Prop := gconv (I1 call k w) eval_lv' lv.
  Lemma spec1 k w : sig_nodup w -> sig_antichain w -> wstatic t fl w -> forall F, gspec (den2 (wcut k w) false) (I1 call k w) (T1 k w) (eval_lv' F).
  Proof. intros Hnd Hac Hws F. apply (force1_all call t fl F w Hnd Hac Hws). Qed.

  Lemma thunk1_conv_aux w (Hnd : sig_nodup w) k (IHk : forall k', (k' < k)%nat -> forall lv v, den2 (wcut k' w) false lv v -> fconv1 k' w lv) loc v pb ls p :
    I1 call k w (l_store ls) (l_scoped ls) -> (N.to_nat loc < k)%nat -> nth_error (w_rho w) (N.to_nat loc) = Some (v, pb) -> nob p ->
    conv (fun F => force_thunk' F loc ls p).
  Proof.
    intros Hst Hlt Hn Hb. destruct pb.
    - destruct Hst as [Hst Hc]. apply (thunk0_conv w (length (l_store ls)) loc v ls p (S1_S0 call _ _ w _ Hst)); [|exact Hn|exact Hb].
      rewrite <- (proj1 Hst). apply nth_error_Some. congruence.
    - eapply conv_shift; [intros F; cbn [force_thunk]; reflexivity|]. unfold bind at 1, get_state.
      pose proof Hst as [[Hlen Hok] Hcells].
      assert (Hnp : ~ purel w (N.to_nat loc)) by (intros [v' Hv']; congruence).
      destruct (nth_error (l_store ls) (N.to_nat loc)) as [th|] eqn:Eth.
      2:{ exfalso. apply nth_error_None in Eth. assert (N.to_nat loc < length (w_rho w))%nat by (apply nth_error_Some; congruence). lia. }
      apply conv_ctx. destruct (Hok _ _ Eth (or_introl Hlt)) as (v0 & pb0 & Hv0 & Hs).
      assert (E0 : (v0, pb0) = (v, false)) by congruence. inversion E0; subst v0 pb0. clear E0.
      destruct (th_state th) as [inner| |v'] eqn:Es; [| contradiction |].
      + set (st1 := list_update (N.to_nat loc) (fun th0 => {| th_state := TForcing; th_dbg := th_dbg th0 |}) (l_store ls)).
        assert (Hst1 : S1 call (N.to_nat loc) w st1).
        { split; [unfold st1; rewrite list_update_length; exact Hlen|]. intros i th0 Hni Hi. unfold st1 in Hni.
          assert (Hne : i <> N.to_nat loc) by (destruct Hi as [Hi|Hi]; [lia|intros ->; contradiction]).
          rewrite nth_error_update_other in Hni by exact Hne. apply (Hok i th0 Hni). destruct Hi as [Hi|Hi]; [left; lia|right; exact Hi]. }
        unfold bind at 1. unfold store_set_state at 1. unfold bind at 1, get_state, set_lstore, Lazy.upd, modify.
        apply conv_bind; [apply (IHk (N.to_nat loc) Hlt inner v Hs (set_store st1 ls) p (conj Hst1 Hcells) Hb)|].
        intros v' ls2 p2 B0 _. eapply conv_const. reflexivity.
      + eapply conv_const. reflexivity.
  Qed.

  Lemma force1_conv w : sig_nodup w -> sig_antichain w -> wstatic t fl w -> forall k lv v, den2 (wcut k w) false lv v -> fconv1 k w lv.
  Proof.
    intros Hnd Hac Hws. induction k as [k IHk] using lt_wf_ind.
    assert (Hvar : forall loc v pb, nth_error (w_rho (wcut k w)) (N.to_nat loc) = Some (v, pb) -> fconv1 k w (LVar loc)).
    { intros loc v pb Hn ls p Hst Hb. cbn [wcut w_rho] in Hn. apply nth_error_firstn_lt in Hn. destruct Hn as [Hlt Hn].
      eapply conv_shift; [intros F; cbn [eval_lv]; reflexivity|].
      destruct (poll_nob L_eval_value ls p Hb) as (p' & E & Hb'). unfold bind at 1, lpoll. rewrite E.
      apply (thunk1_conv_aux w Hnd k IHk loc v pb ls p' Hst Hlt Hn Hb'). }
    intros lv v Hd. revert lv v Hd. apply den2_ind2.
    - intros v ls p Hst Hb. eapply conv_shift; [intros F; cbn [eval_lv]; reflexivity|].
      destruct (poll_nob L_eval_value ls p Hb) as (p' & E & _). eapply conv_const. unfold bind, lpoll. rewrite E. reflexivity.
    - intros es vs HF ls p Hst Hb. eapply conv_shift; [intros F; cbn [eval_lv]; reflexivity|].
      destruct (poll_nob L_eval_value ls p Hb) as (p' & E & Hb'). unfold bind at 1, lpoll. rewrite E.
      apply conv_bind; [apply (gconv_mapM _ _ _ eval_lv' (spec1 k w Hnd Hac Hws) es vs HF ls p' Hst Hb')|]. intros vs' ls1 p1 B0 _. eapply conv_const. reflexivity.
    - intros es vs HF ls p Hst Hb. eapply conv_shift; [intros F; cbn [eval_lv]; reflexivity|].
      destruct (poll_nob L_eval_value ls p Hb) as (p' & E & Hb'). unfold bind at 1, lpoll. rewrite E.
      apply conv_bind; [apply (gconv_mapM _ _ _ eval_lv' (spec1 k w Hnd Hac Hws) es vs HF ls p' Hst Hb')|]. intros vs' ls1 p1 B0 _. eapply conv_const. reflexivity.
    - intros loc v pb Hn _. apply (Hvar loc v pb Hn).
    - (* scoped read *)
      intros sv name n a loc v pb _ Hsv IHsv Ha Hin Hn ls p Hst Hb.
      change (winh (wcut k w) name) with (winh w name) in Ha. cbn [wcut w_sig w_tree] in Hin, Ha.
      eapply conv_shift; [intros F; cbn [eval_lv]; reflexivity|].
      destruct (poll_nob L_eval_value ls p Hb) as (p' & E & Hb'). unfold bind at 1, lpoll. rewrite E.
      apply conv_bind.
      + apply conv_ctx. apply conv_bind; [apply (IHsv ls p' Hst Hb')|]. intros v' ls1 p1 B0 HB.
        pose proof (g_limit _ _ _ eval_lv' (spec1 k w Hnd Hac Hws) sv (VSyn n) ls p' B0 _ _ _ Hst Hsv Hb' HB) as (-> & _). eapply conv_const. reflexivity.
      + intros n' ls1 p1 B0 HB.
        assert (HP : gpost (I1 call k w) (T1 k w) n ls n' ls1 p1).
        { apply (conv_lres (fun F => ctx_wrap CtxOther (x <- eval_lv' F sv ;; lift (as_syn x)) ls p') _ B0 _ _ _ HB). intros F.
          apply lres_ctx. apply lres_bind. eapply lres_mono; [apply (spec1 k w Hnd Hac Hws F sv (VSyn n) ls p' Hst Hsv Hb')|].
          intros v' ls0 p0 (-> & H). eapply lres_lift; [reflexivity|]. split; [reflexivity|exact H]. }
        destruct HP as (-> & Hb1 & G1). pose proof (gstep_inv _ _ _ _ G1) as [Hst1 Hc1].
        pose proof (Hc1 name) as Hcell. pose proof (sig_for_in name _ a loc Hin) as Hin'.
        eapply conv_bind_const; [reflexivity|].
        destruct (alist_get name (l_scoped ls1)) as [cell|] eqn:Ecell; [|rewrite Hcell in Hin'; destruct Hin'].
        eapply conv_bind_const; [reflexivity|].
        set (ls2 := set_scoped_l (alist_set name SVForcing (l_scoped ls1)) ls1).
        apply conv_bind; [apply (force_scoped_conv name cell w ls2 p1 Hnd Hcell (S1_S0 call _ _ w _ Hst1) Hb1)|].
        intros m ls3 p3 B1 HB1.
        assert (HP : gpost (I0 call (length (l_store ls2)) w) (T0 (length (l_store ls2)) w) (forced_map (sig_for name (w_sig w))) ls2 m ls3 p3).
        { apply (conv_lres (fun F => force_scoped' F name cell ls2 p1) _ B1 _ _ _ HB1). intros F.
          apply (force_scoped_ok call t fl F name cell w ls2 p1 Hnd Hcell (S1_S0 call _ _ w _ Hst1) Hb1). }
        destruct HP as (-> & Hb3 & st3 & sc3 & -> & Hst3 & (Hsc3 & Hun3)). cbn [ls2 set_scoped_l l_store l_scoped] in Hsc3, Hun3, Hst3. subst sc3.
        cbv zeta. rewrite (resolve_forced t fl w name n a loc Hnd Hac Hws Ha Hin).
        eapply conv_bind_const; [reflexivity|].
        set (sc4 := alist_set name (SVForced (forced_map (sig_for name (w_sig w)))) (alist_set name SVForcing (l_scoped ls1))).
        assert (Hc4 : cells_ok call w sc4).
        { unfold sc4. intros name'. rewrite !alist_get_set. destruct (str_eqb_spec name' name) as [->|Hne]; [reflexivity|apply Hc1]. }
        assert (Hst4 : S1 call k w st3) by (apply (S1_after0 call _ k w (l_store ls1) st3 Hst1 Hst3 eq_refl Hun3)).
        assert (Hn' : nth_error (w_rho (wcut k w)) (N.to_nat (N.of_nat loc)) = Some (v, pb)) by (rewrite Nnat.Nat2N.id; exact Hn).
        apply (Hvar (N.of_nat loc) v pb Hn' (set_scoped_l sc4 (set_store st3 ls1)) p3 (conj Hst4 Hc4) Hb3).
    - intros f args vs v HF Hc ls p Hst Hb. eapply conv_shift; [intros F; cbn [eval_lv]; reflexivity|].
      destruct (poll_nob L_eval_value ls p Hb) as (p' & E & Hb'). unfold bind at 1, lpoll. rewrite E.
      apply (gconv_call call _ _ _ (T1_refl k w) (T1_trans k w) eval_lv' (spec1 k w Hnd Hac Hws) f args vs v ls p' HF Hc Hst Hb').
  Qed.

  Lemma force1_full_convP w lv v ls p : sig_nodup w -> sig_antichain w -> wstatic t fl w -> Sfull call w (l_store ls) -> cells_ok call w (l_scoped ls) -> den2 w false lv v -> nob p ->
    convP (fun F => eval_lv' F lv ls p) (full_post1 call w v ls).
  Proof.
    intros Hnd Hac Hws Hst Hc Hd Hb. apply convP_of_conv; [|intros F; apply (force1_full call t fl F w lv v ls p Hnd Hac Hws Hst Hc Hd Hb)].
    pose proof Hd as Hd'. rewrite <- (wcut_all w (length (l_store ls))) in Hd' by (symmetry; apply (proj1 Hst)).
    apply (force1_conv w Hnd Hac Hws _ lv v Hd' ls p (conj (Sfull_S1 call _ w _ Hst) Hc) Hb).
  Qed.
  Lemma force1_full_thunk_convP w i ls p : sig_nodup w -> sig_antichain w -> wstatic t fl w -> Sfull call w (l_store ls) -> cells_ok call w (l_scoped ls) -> (i < length (l_store ls))%nat -> nob p ->
    convP (fun F => force_thunk' F (N.of_nat i) ls p)
          (fun _ ls' p' => nob p' /\ exists st' sc', ls' = set_scoped_l sc' (set_store st' ls) /\ Sfull call w st' /\ cells_ok call w sc').
  Proof.
    intros Hnd Hac Hws Hst Hc Hi Hb. apply convP_of_conv; [|intros F; apply (force1_full_thunk call t fl F w i ls p Hnd Hac Hws Hst Hc Hi Hb)].
    pose proof (proj1 Hst) as Hlen. destruct (nth_error (w_rho w) i) as [[v pb]|] eqn:Ev; [|apply nth_error_None in Ev; lia].
    apply (thunk1_conv_aux w Hnd (length (l_store ls)) (fun k' _ => force1_conv w Hnd Hac Hws k') (N.of_nat i) v pb ls p (conj (Sfull_S1 call _ w _ Hst) Hc)); rewrite ?Nnat.Nat2N.id; assumption.
  Qed.
  Lemma force_cell_full_convP w name ls p : sig_nodup w -> Sfull call w (l_store ls) -> cells_ok call w (l_scoped ls) -> nob p ->
    convP (fun F => (c <- cell_get name ;;
             match c with
             | None => ret tt
             | Some cell => cell_set name SVForcing ;;; m <- force_scoped' F name cell ;; cell_set name (SVForced m)
             end) ls p)
          (fun _ ls' p' => nob p' /\ exists st' sc', ls' = set_scoped_l sc' (set_store st' ls) /\ Sfull call w st' /\ cells_ok call w sc').
  Proof.
    intros Hnd Hst Hc Hb. apply convP_of_conv; [|intros F; apply (force_cell_full call t fl F w name ls p Hnd Hst Hc Hb)].
    eapply conv_bind_const; [reflexivity|]. pose proof (Hc name) as Hcell.
    destruct (alist_get name (l_scoped ls)) as [cell|]; [|eapply conv_const; reflexivity].
    eapply conv_bind_const; [reflexivity|].
    set (ls2 := set_scoped_l (alist_set name SVForcing (l_scoped ls)) ls).
    apply conv_bind; [apply (force_scoped_conv name cell w ls2 p Hnd Hcell (Sfull_S0 call _ w _ Hst) Hb)|].
    intros m ls3 p3 B1 _. eapply conv_const. reflexivity.
  Qed.
End Force2Conv.

(* ---------------- expressions ---------------- *)
Section Expr2Conv.
  Context {rx : Type}.
  Variables (t : tree) (fl : file) (glob : globals) (regexes : list rx)
            (find : rx -> str -> option (list (option (N * N))))
            (call : ident -> graph -> list value -> res (value * graph)).
  Variable okfn : ident -> Prop.
  Variable purev : ident -> bool.
  Hypothesis Hpure : forall f, okfn f -> pure_fn call f.
  Variable m : qmatch.

  Notation den2 := (den2 call).
  Notation Renv2 := (Renv2 t fl call purev).
  Notation epost2 := (epost2 t fl call purev).
  Notation Qd := (Qd call).
  Notation fexpr2' := (fexpr2 okfn purev m).
  Notation env_rel' := (env_rel m).
  Notation eval' := (eval t fl glob call).
  Notation leval' := (leval t fl glob call).

  Definition econv2 {A B} (Q : world -> B -> A -> Prop) (ms : M sstate A) (mlf : nat -> M lstate B) : Prop :=
    forall ss p a ss' p', ms ss p = Ok (a, ss', p') ->
      forall w ls pl, Renv2 w ss ls -> nob pl -> convP (fun lf => mlf lf ls pl) (epost2 Q w a ss ss' ls).

  Lemma trav_conv2 {X A B} (F : X -> M sstate A) (F' : nat -> X -> M lstate B) (Q : world -> B -> A -> Prop) (P : X -> Prop) :
    Qmono2 Q -> (forall x, P x -> econv2 Q (F x) (fun lf => F' lf x)) ->
    forall l, All P l -> econv2 (fun r bs as_ => Forall2 (Q r) bs as_) (mapM F l) (fun lf => mapM (F' lf) l).
  Proof.
    intros HQ HF. induction l as [|x l IH]; intros HP ss p as_ ss' p' H w ls pl HR Hb; cbn [mapM] in *.
    - apply ret_ok in H. destruct H as (-> & -> & ->). apply convP_ret. apply epost2_here; [exact HR|exact Hb|constructor].
    - destruct HP as [Px HP]. apply bind_ok in H. destruct H as (a & s1 & p1 & H1 & H).
      apply bind_ok in H. destruct H as (as1 & s2 & p2 & H2 & H). apply ret_ok in H. destruct H as (-> & -> & ->).
      apply convP_bind. eapply convP_mono; [apply (HF x Px _ _ _ _ _ H1 w ls pl HR Hb)|]. intros b ls1 pl1 (Hb1 & S1 & Hf1 & w1 & Hp1 & HR1 & Q1).
      apply convP_bind. eapply convP_mono; [apply (IH HP _ _ _ _ _ H2 w1 ls1 pl1 HR1 Hb1)|]. intros bs ls2 pl2 HP2.
      apply convP_ret. eapply epost2_chain; [exact S1|exact Hf1|exact Hp1|exact HP2|].
      intros r Hr HF2. constructor; [apply (HQ w1 r _ _ Hr Q1)|exact HF2].
  Qed.

  Lemma unscoped_get_conv2 b name : (b = true -> purev name = true) -> econv2 (Qd b) (unscoped_get glob name) (fun _ => lunscoped_get glob name).
  Proof.
    intros Hpn ss p v ss' p' H w ls pl HR Hb. apply convP_of_lres; [apply (unscoped_get_sim2 t fl glob call purev b name Hpn _ _ _ _ _ H w ls pl HR Hb)|].
    unfold lunscoped_get. destruct (globals_get glob name); [discriminate|]. unfold bind, get_state. destruct (varmap_get (l_locals ls) name); discriminate.
  Qed.
  Lemma unscoped_add_conv2 ll name v lv mu ss p u ss' p' w ls pl :
    unscoped_add glob name v mu ss p = Ok (u, ss', p') -> Renv2 w ss ls -> den2 w (purev name) lv v -> nob pl ->
    convP (fun _ : nat => lunscoped_add glob ll name lv mu ls pl) (epost2 (@Qtrue2 unit unit) w tt ss ss' ls).
  Proof. intros H HR Hd Hb. apply convP_of_lres; [apply (unscoped_add_sim2 t fl glob call purev ll name v lv mu _ _ _ _ _ w ls pl H HR Hd Hb)|apply lunscoped_add_noof]. Qed.
  Lemma unscoped_set_conv2 ll name v lv ss p u ss' p' w ls pl :
    unscoped_set glob name v ss p = Ok (u, ss', p') -> Renv2 w ss ls -> den2 w (purev name) lv v -> nob pl ->
    convP (fun _ : nat => lunscoped_set glob ll name lv ls pl) (epost2 (@Qtrue2 unit unit) w tt ss ss' ls).
  Proof. intros H HR Hd Hb. apply convP_of_lres; [apply (unscoped_set_sim2 t fl glob call purev ll name v lv _ _ _ _ _ w ls pl H HR Hd Hb)|apply lunscoped_set_noof]. Qed.
  Lemma lpop_frame_conv2 w ss ls pl f up : Renv2 w ss ls -> s_locals ss = f :: up -> nob pl ->
    convP (fun _ : nat => lpop_frame ls pl) (epost2 (@Qtrue2 unit unit) w tt ss (sset_locals up ss) ls).
  Proof.
    intros HR E Hb. apply convP_of_lres; [apply (lpop_frame_sim2 t fl call purev w ss ls pl f up HR E Hb)|].
    unfold lpop_frame, bind, get_state. destruct (l_locals ls); discriminate.
  Qed.

  (* eager evaluation *)
  Lemma eager_conv2 (mlf : nat -> M lstate lvalue) (h : nat -> nat) w v ss ss' ls pl : (forall lf, (lf <= h lf)%nat) ->
    convP (fun lf => mlf lf ls pl) (epost2 (Qd true) w v ss ss' ls) ->
    convP (fun lf => bind (mlf lf) (eval_lv t fl call (h lf)) ls pl) (eager_post2 t fl call purev w v ss ss' ls).
  Proof.
    intros Hh H. apply (convP_bind mlf (fun lf lv => eval_lv t fl call (h lf) lv)). eapply convP_mono; [exact H|].
    intros lv ls1 pl1 (Hb1 & S1 & Hf1 & w1 & Hp1 & (Hst1 & Hl1 & Hsc1) & Hd).
    apply (convP_reindex (fun F => eval_lv t fl call F lv ls1 pl1) h _ Hh).
    eapply convP_mono; [apply (force0_full_convP call t fl w1 lv v ls1 pl1 Hst1 Hd Hb1)|]. intros v' ls2 pl2 (-> & Hb2 & st2 & -> & Hst2).
    split; [reflexivity|]. split; [exact Hb2|]. split; [exact S1|]. split; [eapply lframe_trans; [exact Hf1|apply lframe_set_store]|].
    exists w1. split; [exact Hp1|]. split; [|exact I]. split; [exact Hst2|]. split; [exact Hl1|exact Hsc1].
  Qed.

  Lemma args_conv2 b (ev : expr -> M sstate value) (lev : nat -> expr -> M lstate lvalue) :
    forall args, (forall e, In e args -> econv2 (Qd b) (ev e) (fun lf => lev lf e)) ->
    forall ss p u ss' p', iterM (fun a => v <- ev a ;; push_param v) args ss p = Ok (u, ss', p') ->
    forall w ls pl, Renv2 w ss ls -> nob pl ->
      convP (fun lf => mapM (lev lf) args ls pl)
           (fun lvs ls' pl' => nob pl' /\ lframe ls ls' /\ exists w' vs, wext0 w w' /\ Renv2 w' ss' ls' /\ Forall2 (den2 w' b) lvs vs /\
                                 length vs = length args /\ s_graph ss' = s_graph ss /\ s_scoped ss' = s_scoped ss /\ s_params ss' = s_params ss ++ vs).
  Proof.
    induction args as [|a args IH]; intros Hev ss p u ss' p' H w ls pl HR Hb; cbn [iterM mapM] in *.
    - apply ret_ok in H. destruct H as (-> & -> & ->). apply convP_ret. split; [exact Hb|]. split; [apply lframe_refl|].
      exists w, []. rewrite app_nil_r. repeat split; try apply HR; try apply prefix_refl. constructor.
    - apply bind_ok in H. destruct H as (u1 & s2 & p2 & Hhd & Htl). apply bind_ok in Hhd. destruct Hhd as (v & s1 & p1 & H1 & Hpush).
      rewrite push_param_eq in Hpush. inversion Hpush; subst; clear Hpush.
      apply convP_bind. eapply convP_mono; [apply (Hev a (or_introl eq_refl) _ _ _ _ _ H1 w ls pl HR Hb)|].
      intros lv ls1 pl1 (Hb1 & (Sg & Sp & Ssc) & Hf1 & w1 & Hp1 & HR1 & Q1).
      apply convP_bind.
      assert (HR1' : Renv2 w1 (sset_params (s_params s1 ++ [v]) s1) ls1) by exact HR1.
      eapply convP_mono; [apply (IH (fun e He => Hev e (or_intror He)) _ _ _ _ _ Htl w1 ls1 pl1 HR1' Hb1)|].
      intros lvs ls2 pl2 (Hb2 & Hf2 & w2 & vs & Hp2 & HR2 & HF & Hlen & Hg & Hsc & Hps). apply convP_ret.
      split; [exact Hb2|]. split; [eapply lframe_trans; eauto|]. exists w2, (v :: vs). split; [eapply wext0_trans; eauto|].
      split; [exact HR2|]. split; [constructor; [eapply den2_mono; [apply wext0_wext, Hp2|exact Q1]|exact HF]|]. split; [cbn [length]; congruence|].
      cbn [sset_params s_graph s_params s_scoped] in Hg, Hps, Hsc. split; [congruence|]. split; [congruence|]. rewrite Hps, Sp, <- app_assoc. reflexivity.
  Qed.

  Lemma comp_conv2 b (ev : expr -> M sstate value) (lev : nat -> expr -> M lstate lvalue) (K : list value -> value) ll (h : nat -> nat) elem var value :
    (forall lf, (lf <= h lf)%nat) ->
    econv2 (Qd true) (ev value) (fun lf => lev lf value) -> econv2 (Qd b) (ev elem) (fun lf => lev lf elem) ->
    econv2 (fun r lvs v => exists outs, v = K outs /\ Forall2 (den2 r b) lvs outs)
      (lv <- ev value ;; vals <- lift (as_list lv) ;; push_frame ;;;
       out <- mapM (fun v => clear_frame ;;; unscoped_add glob var v false ;;; ev elem) vals ;; pop_frame ;;; ret (K out))
      (fun lf => lv <- (lv <- lev lf value ;; eval_lv t fl call (h lf) lv) ;; vals <- lift (as_list lv) ;; lpush_frame ;;;
       out <- mapM (fun v => lclear_frame ;;; lunscoped_add glob ll var (LValue v) false ;;; lev lf elem) vals ;; lpop_frame ;;; ret out).
  Proof.
    intros Hh Hval Helem ss p r ss' p' H w ls pl HR Hb.
    apply bind_ok in H. destruct H as (lv0 & s1 & p1 & H1 & H). apply bind_ok in H. destruct H as (vals & s2 & p2 & H2 & H).
    apply lift_ok in H2. destruct H2 as (Hal & -> & ->). apply bind_ok in H. destruct H as (u3 & s3 & p3 & H3 & H).
    rewrite push_frame_eq in H3. inversion H3; subst; clear H3. apply bind_ok in H. destruct H as (out & s4 & p4 & H4 & H).
    apply bind_ok in H. destruct H as (u5 & s5 & p5 & H5 & H). apply ret_ok in H. destruct H as (-> & -> & ->).
    apply pop_frame_ok in H5. destruct H5 as (f & up & El & -> & ->).
    apply convP_bind. eapply convP_mono; [apply (eager_conv2 (fun lf => lev lf value) h _ _ _ _ _ _ Hh (Hval _ _ _ _ _ H1 w ls pl HR Hb))|].
    intros v' ls1 pl1 (-> & Hb1 & S1 & Hf1 & w1 & Hp1 & HR1 & _).
    apply convP_bind. eapply convP_lift; [exact Hal|]. apply convP_bind. eapply convP_const; [apply lpush_frame_eq|].
    assert (HR2 : Renv2 w1 (sset_locals ([] :: s_locals s1) s1) (lset_locals ([] :: l_locals ls1) ls1)).
    { destruct HR1 as (A1 & A2 & A3). split; [exact A1|]. split; [|exact A3]. constructor; [constructor|exact A2]. }
    apply convP_bind.
    assert (Hiter : forall v, True -> econv2 (Qd b) (fun s p => (clear_frame ;;; unscoped_add glob var v false ;;; ev elem) s p)
                                          (fun lf s p => (lclear_frame ;;; lunscoped_add glob ll var (LValue v) false ;;; lev lf elem) s p)).
    { intros v _ ss0 p0 a ss0' p0' H0 w0 ls0 pl0 HR0 Hb0.
      apply bind_ok in H0. destruct H0 as (u1 & t1 & q1 & G1 & H0). rewrite clear_frame_eq in G1. inversion G1; subst; clear G1.
      apply bind_ok in H0. destruct H0 as (u2 & t2 & q2 & G2 & G3).
      apply (convP_bind (fun _ => lclear_frame) (fun lf _ => lunscoped_add glob ll var (LValue v) false ;;; lev lf elem)).
      eapply convP_const; [apply lclear_frame_eq|].
      assert (HRc : Renv2 w0 (sset_locals (varmap_clear (s_locals ss0)) ss0) (lset_locals (varmap_clear (l_locals ls0)) ls0)).
      { destruct HR0 as (A1 & A2 & A3). split; [exact A1|]. split; [apply locals_clear2, A2|exact A3]. }
      apply (convP_bind (fun _ => lunscoped_add glob ll var (LValue v) false) (fun lf _ => lev lf elem)).
      eapply convP_mono; [apply (unscoped_add_conv2 ll var v (LValue v) false _ _ _ _ _ w0 _ pl0 G2 HRc (d2_value call w0 _ v) Hb0)|].
      intros _ ls1' pl1' (Hb1' & S1' & Hf1' & w1' & Hp1' & HR1' & _).
      eapply convP_mono; [apply (Helem _ _ _ _ _ G3 w1' ls1' pl1' HR1' Hb1')|]. intros lv ls2' pl2' HP.
      eapply epost2_chain; [exact S1'|eapply lframe_trans; [apply lframe_set_locals|exact Hf1']|exact Hp1'|exact HP|]. intros r _ HQ. exact HQ. }
    eapply convP_mono; [apply (trav_conv2 _ (fun lf v s p => (lclear_frame ;;; lunscoped_add glob ll var (LValue v) false ;;; lev lf elem) s p) (Qd b) (fun _ => True) (Qd_mono call b) Hiter vals ltac:(clear; induction vals; cbn; auto) _ _ _ _ _ H4 w1 _ pl1 HR2 Hb1)|].
    intros lvs ls4 pl4 (Hb4 & S4 & Hf4 & w4 & Hp4 & HR4 & HF).
    apply convP_bind. eapply convP_mono; [apply (lpop_frame_conv2 w4 s4 ls4 pl4 f up HR4 El Hb4)|].
    intros _ ls5 pl5 (Hb5 & S5 & Hf5 & w5 & Hp5 & HR5 & _). apply convP_ret.
    split; [exact Hb5|]. split; [eapply SP2_trans; [exact S1|]; eapply SP2_trans; [|exact S5]; eapply SP2_trans; [|exact S4]; repeat split|].
    split; [eapply lframe_trans; [exact Hf1|]; eapply lframe_trans; [apply lframe_set_locals|]; eapply lframe_trans; [exact Hf4|exact Hf5]|].
    exists w5. split; [eapply wext0_trans; [exact Hp1|]; eapply wext0_trans; [exact Hp4|exact Hp5]|]. split; [exact HR5|].
    exists out. split; [reflexivity|]. eapply den2_list_mono; [apply wext0_wext, Hp5|exact HF].
  Qed.

  Lemma eval_conv2 : forall fuel le ll e b, fexpr2' b e -> env_rel' le ll -> econv2 (Qd b) (eval' fuel le e) (fun lf => leval' lf ll e).
  Proof.
    induction fuel as [|fuel IH]; intros le ll e b Hf Henv ss p v ss' p' H w ls pl HR Hb; [discriminate|].
    destruct e; cbn [eval] in H; cbn [fexpr2] in Hf; (eapply convP_shift; [intros lf; cbn [leval]; reflexivity|]).
    - apply ret_ok in H. destruct H as (-> & -> & ->). apply convP_ret. apply epost2_here; [exact HR|exact Hb|constructor].
    - apply ret_ok in H. destruct H as (-> & -> & ->). apply convP_ret. apply epost2_here; [exact HR|exact Hb|constructor].
    - apply ret_ok in H. destruct H as (-> & -> & ->). apply convP_ret. apply epost2_here; [exact HR|exact Hb|constructor].
    - apply ret_ok in H. destruct H as (-> & -> & ->). apply convP_ret. apply epost2_here; [exact HR|exact Hb|constructor].
    - apply ret_ok in H. destruct H as (-> & -> & ->). apply convP_ret. apply epost2_here; [exact HR|exact Hb|constructor].
    - (* list *)
      apply bind_ok in H. destruct H as (vs & s1 & p1 & H1 & H). apply ret_ok in H. destruct H as (-> & -> & ->).
      apply convP_bind. eapply convP_mono; [apply (trav_conv2 _ (fun lf => leval' lf ll) (Qd b) (fexpr2' b) (Qd_mono call b) (fun x Px => IH le ll x b Px Henv) es Hf _ _ _ _ _ H1 w ls pl HR Hb)|].
      intros lvs ls1 pl1 HP. apply convP_ret. eapply epost2_impl; [exact HP|]. intros r HF. constructor. exact HF.
    - (* set *)
      apply bind_ok in H. destruct H as (vs & s1 & p1 & H1 & H). apply ret_ok in H. destruct H as (-> & -> & ->).
      apply convP_bind. eapply convP_mono; [apply (trav_conv2 _ (fun lf => leval' lf ll) (Qd b) (fexpr2' b) (Qd_mono call b) (fun x Px => IH le ll x b Px Henv) es Hf _ _ _ _ _ H1 w ls pl HR Hb)|].
      intros lvs ls1 pl1 HP. apply convP_ret. eapply epost2_impl; [exact HP|]. intros r HF. constructor. exact HF.
    - (* list comprehension *)
      destruct Hf as [Hfe Hfv]. apply convP_bind.
      eapply convP_mono; [apply (comp_conv2 b (eval' fuel le) (fun lf => leval' lf ll) VList ll (fun lf => (S lf + default_eval_fuel)%nat) e1 var e2 (le_h1) (IH le ll e2 true Hfv Henv) (IH le ll e1 b Hfe Henv) _ _ _ _ _ H w ls pl HR Hb)|].
      intros lvs ls1 pl1 HP. apply convP_ret. eapply epost2_impl; [exact HP|]. intros r (outs & -> & HF). constructor. exact HF.
    - (* set comprehension *)
      destruct Hf as [Hfe Hfv]. apply convP_bind.
      eapply convP_mono; [apply (comp_conv2 b (eval' fuel le) (fun lf => leval' lf ll) (fun o => VSet (set_of_list o)) ll (fun lf => (S lf + default_eval_fuel)%nat) e1 var e2 (le_h1) (IH le ll e2 true Hfv Henv) (IH le ll e1 b Hfe Henv) _ _ _ _ _ H w ls pl HR Hb)|].
      intros lvs ls1 pl1 HP. apply convP_ret. eapply epost2_impl; [exact HP|]. intros r (outs & -> & HF). constructor. exact HF.
    - (* capture *)
      apply lift_ok in H. destruct H as (Hfn & -> & ->). destruct Henv as (E1 & E2 & E3). rewrite E1 in Hfn. rewrite E2, <- Hf.
      apply convP_bind. eapply convP_lift; [exact Hfn|]. apply convP_ret. apply epost2_here; [exact HR|exact Hb|constructor].
    - (* unscoped variable *) apply (unscoped_get_conv2 b name Hf _ _ _ _ _ H w ls pl HR Hb).
    - (* scoped read *)
      destruct Hf as [-> Hfs].
      apply bind_ok in H. destruct H as (sv & s1 & p1 & H1 & H). apply bind_ok in H. destruct H as (n & s2 & p2 & H2 & H3).
      assert (Esv : sv = VSyn n /\ s2 = s1 /\ p2 = p1).
      { unfold scope_of in H2. destruct sv; try discriminate. apply ret_ok in H2. destruct H2 as (-> & -> & ->). auto. }
      destruct Esv as (-> & -> & ->). clear H2.
      apply (convP_bind (fun lf => leval' lf ll e) (fun _ sv0 => ret (LScoped sv0 name))).
      eapply convP_mono; [apply (IH le ll e false Hfs Henv _ _ _ _ _ H1 w ls pl HR Hb)|].
      intros slv ls1 pl1 (Hb1 & S1 & Hf1 & w1 & Hp1 & HR1 & Hd1). apply convP_ret.
      assert (Hres : exists a, (a = n \/ (inherited fl name = true /\ In a (anc t n))) /\ scoped_lookup (s_scoped s1) a name = Some v /\ ss' = s1 /\ p' = p1).
      { unfold scoped_get_at, bind, get_state in H3. destruct (scoped_lookup (s_scoped s1) n name) as [v0|] eqn:El.
        - apply ret_ok in H3. destruct H3 as (-> & -> & ->). exists n. auto.
        - destruct (inherited fl name) eqn:Ei; [|discriminate]. rewrite ancestor_lookup_nearest in H3.
          destruct (first_some _ _) as [v0|] eqn:Ef; [|discriminate]. apply ret_ok in H3. destruct H3 as (-> & -> & ->).
          apply first_some_In in Ef. destruct Ef as (a & Ha & Hl). exists a. split; [right; split; [reflexivity|exact Ha]|auto]. }
      destruct Hres as (a & Ha & El & -> & ->).
      destruct (proj2 (proj2 HR1)) as [[Wt Wi] Hsr]. destruct (Hsr a name v El) as (loc & pb & Hin & Hn).
      split; [exact Hb1|]. split; [exact S1|]. split; [exact Hf1|]. exists w1. split; [exact Hp1|]. split; [exact HR1|].
      apply (d2_scoped call w1 false slv name n a loc v pb eq_refl Hd1); [|exact Hin|exact Hn].
      destruct Ha as [->|[Hi Hanc]]; [left; reflexivity|right]. unfold winh. rewrite Wi, Wt. split; assumption.
    - (* call *)
      destruct Hf as [Hok Hargs].
      apply bind_ok in H. destruct H as (u & s1 & p1 & H1 & H). apply bind_ok in H. destruct H as (ps & s2 & p2 & H2 & H3).
      apply convP_bind.
      eapply convP_mono; [apply (args_conv2 b (eval' fuel le) (fun lf => leval' lf ll) args (fun e He => IH le ll e b (All_In _ _ _ Hargs He) Henv) _ _ _ _ _ H1 w ls pl HR Hb)|].
      intros lvs ls1 pl1 (Hb1 & Hf1 & w1 & vs & Hp1 & HR1 & HF & Hlen & Hg1 & Hsc1 & Hps1). apply convP_ret.
      rewrite <- Hlen in H2. destruct (drain_ok _ _ _ _ _ _ _ Hps1 H2) as (-> & -> & ->).
      unfold call_function, bind, get_state in H3. cbn [sset_params s_graph] in H3.
      destruct (call f (s_graph s1) vs) as [[v0 g']|e0|x0|] eqn:Ec; try discriminate.
      unfold set_graph, modify, ret in H3. inversion H3; subst; clear H3.
      destruct (Hpure f Hok _ _ _ _ Ec) as [-> Hall].
      split; [exact Hb1|]. split; [repeat split; cbn [s_graph s_params s_scoped sset_params]; assumption|]. split; [exact Hf1|].
      exists w1. split; [exact Hp1|]. split; [exact HR1|]. apply (d2_call call w1 b f lvs vs v HF Hall).
    - (* regex capture *)
      destruct Henv as (E1 & E2 & E3). rewrite <- E3. destruct (nth_error (le_caps le) (N.to_nat i)) as [s0|]; [|discriminate].
      apply ret_ok in H. destruct H as (-> & -> & ->). apply convP_ret. apply epost2_here; [exact HR|exact Hb|constructor].
  Qed.

  Lemma leager_conv2 fuel le ll e ss p v ss' p' w ls pl : fexpr2' true e -> env_rel' le ll ->
    eval' fuel le e ss p = Ok (v, ss', p') -> Renv2 w ss ls -> nob pl ->
    convP (fun lf => leager t fl glob call lf ll e ls pl) (eager_post2 t fl call purev w v ss ss' ls).
  Proof.
    intros Hf Henv H HR Hb. unfold leager.
    apply (eager_conv2 (fun lf => leval' lf ll e) (fun lf => (lf + default_eval_fuel)%nat) w v ss ss' ls pl le_h2).
    apply (eval_conv2 fuel le ll e true Hf Henv _ _ _ _ _ H w ls pl HR Hb).
  Qed.
End Expr2Conv.
