(* Proofs/DebugSim.v — C15 (neutrality half, strict interpreter): a run with the three debug attributes
   configured and the run without them proceed in lockstep; their graphs are related by erasing the three
   attribute names; values, errors (contexts included), panics and poll traces are identical. *)
From TSG Require Import Model.Strict Proofs.BaseFacts Proofs.MonadFacts Proofs.StrictMeta Proofs.Containers Proofs.DebugAttrs.

Section Names.
  (* which attribute names the debug configuration uses (any predicate: the erasure lemmas do not care) *)
  Variable is_dbg : ident -> bool.
  Definition erase_amap (m : amap) : amap := filter (fun kv => negb (is_dbg (fst kv))) m.
  Definition erase_node (n : gnode) : gnode :=
    {| g_attrs := erase_amap (g_attrs n); g_edges := map (fun e => (fst e, erase_amap (snd e))) (g_edges n) |}.
  Definition erase_graph (g : graph) : graph := map erase_node g.

  Lemma erase_get k m : is_dbg k = false -> alist_get k (erase_amap m) = alist_get k m.
  Proof.
    intros Hk. induction m as [|[k0 v0] m IH]; cbn [erase_amap filter alist_get fst]; [reflexivity|].
    destruct (is_dbg k0) eqn:E0; cbn [negb alist_get].
    - destruct (str_eqb_spec k k0) as [->|_]; [congruence|exact IH].
    - destruct (str_eqb k k0); [reflexivity|exact IH].
  Qed.
  Lemma erase_app m m' : erase_amap (m ++ m') = erase_amap m ++ erase_amap m'.
  Proof. unfold erase_amap. apply filter_app. Qed.
  Lemma erase_set k v m : is_dbg k = false -> erase_amap (alist_set k v m) = alist_set k v (erase_amap m) \/ alist_get k m = None.
  Proof.
    intros Hk. induction m as [|[k0 v0] m IH]; [right; reflexivity|]. cbn [alist_set alist_get].
    destruct (str_eqb_spec k k0) as [->|Hn].
    - left. cbn [erase_amap filter fst]. rewrite Hk. cbn [negb alist_set]. rewrite str_eqb_refl. reflexivity.
    - destruct IH as [IH|IH]; [left|right; exact IH]. cbn [erase_amap filter fst]. destruct (is_dbg k0); cbn [negb alist_set]; [exact IH|].
      destruct (str_eqb_spec k k0); [contradiction|]. f_equal. exact IH.
  Qed.

  (* Attributes::add of a non-debug name commutes with erasure *)
  Lemma erase_attrs_add m k v : is_dbg k = false ->
    attrs_add (erase_amap m) k v = (erase_amap (fst (attrs_add m k v)), snd (attrs_add m k v)).
  Proof.
    intros Hk. unfold attrs_add. rewrite (erase_get k m Hk). destruct (alist_get k m) as [old|] eqn:E.
    - destruct (value_eqb old v); cbn [fst snd]; [reflexivity|]. destruct (erase_set k v m Hk) as [H|H]; [rewrite H; reflexivity|congruence].
    - cbn [fst snd]. rewrite erase_app. cbn [erase_amap filter fst]. rewrite Hk. reflexivity.
  Qed.
  (* adding a debug name that is not there yet is invisible after erasure and never conflicts *)
  Lemma erase_attrs_add_dbg m k v : is_dbg k = true -> alist_get k m = None ->
    attrs_add m k v = (m ++ [(k, v)], None) /\ erase_amap (m ++ [(k, v)]) = erase_amap m.
  Proof.
    intros Hk Hn. unfold attrs_add. rewrite Hn. split; [reflexivity|]. rewrite erase_app. cbn [erase_amap filter fst]. rewrite Hk. apply app_nil_r.
  Qed.

  Lemma erase_edges_get b es : edges_get b (map (fun e => (fst e, erase_amap (snd e))) es) = option_map erase_amap (edges_get b es).
  Proof. induction es as [|[s a] es IH]; cbn [map edges_get fst snd]; [reflexivity|]. destruct (N.compare b s); [reflexivity|reflexivity|exact IH]. Qed.
  Lemma erase_edges_add b es :
    edges_add b (map (fun e => (fst e, erase_amap (snd e))) es) =
    (fst (edges_add b es), map (fun e => (fst e, erase_amap (snd e))) (snd (edges_add b es))).
  Proof.
    induction es as [|[s a] es IH]; cbn [map edges_add fst snd]; [reflexivity|].
    destruct (N.compare b s); cbn [fst snd map]; try reflexivity.
    rewrite IH. destruct (edges_add b es) as [bb r]. reflexivity.
  Qed.
  Lemma erase_edges_set b m es :
    map (fun e => (fst e, erase_amap (snd e))) (edges_set b m es) = edges_set b (erase_amap m) (map (fun e => (fst e, erase_amap (snd e))) es).
  Proof. induction es as [|[s a] es IH]; cbn [map edges_set fst snd]; [reflexivity|]. destruct (N.eqb b s); cbn [map fst snd]; [reflexivity|]. f_equal. exact IH. Qed.

  Lemma erase_gnode_at g n : gnode_at (erase_graph g) n = option_map erase_node (gnode_at g n).
  Proof. unfold gnode_at, erase_graph. apply nth_error_map. Qed.
  Lemma erase_graph_update g n f f' : (forall nd, erase_node (f nd) = f' (erase_node nd)) ->
    erase_graph (graph_update g n f) = graph_update (erase_graph g) n f'.
  Proof.
    intros H. unfold graph_update, erase_graph. generalize (N.to_nat n). induction g as [|x g IH]; intros [|k]; cbn; try reflexivity.
    - rewrite H. reflexivity.
    - f_equal. apply IH.
  Qed.
  Lemma erase_graph_update_same g n f nd : gnode_at g n = Some nd -> erase_node (f nd) = erase_node nd ->
    erase_graph (graph_update g n f) = erase_graph g.
  Proof.
    unfold graph_update, erase_graph, gnode_at. generalize (N.to_nat n). induction g as [|x g IH]; intros [|k] Hn He; cbn in *; try discriminate.
    - inversion Hn; subst. rewrite He. reflexivity.
    - f_equal. eapply IH; eauto.
  Qed.
  Lemma erase_length g : length (erase_graph g) = length g. Proof. apply map_length. Qed.

  (* the state relation: everything equal except that the plain run's graph is the erased debug graph *)
  Definition R (s1 s0 : sstate) : Prop :=
    erase_graph (s_graph s1) = s_graph s0 /\ s_locals s1 = s_locals s0 /\ s_scoped s1 = s_scoped s0 /\ s_params s1 = s_params s0.

  Definition dsim {A} (m1 m0 : M sstate A) : Prop :=
    forall s1 s0 p, R s1 s0 ->
      match m1 s1 p with
      | Ok (a, s1', p') => exists s0', m0 s0 p = Ok (a, s0', p') /\ R s1' s0'
      | Err e => m0 s0 p = Err e
      | Panic x => m0 s0 p = Panic x
      | OutOfFuel => m0 s0 p = OutOfFuel
      end.

  Lemma dsim_ret A (a : A) : dsim (ret a) (ret a).
  Proof. intros s1 s0 p H. cbn. exists s0. auto. Qed.
  Lemma dsim_bind A B (m1 m0 : M sstate A) (f1 f0 : A -> M sstate B) : dsim m1 m0 -> (forall a, dsim (f1 a) (f0 a)) -> dsim (bind m1 f1) (bind m0 f0).
  Proof.
    intros Hm Hf s1 s0 p H. specialize (Hm s1 s0 p H). unfold bind. destruct (m1 s1 p) as [[[a s1'] p']|e|x|].
    - destruct Hm as (s0' & Hr & HR). rewrite Hr. apply Hf, HR.
    - rewrite Hm. reflexivity.
    - rewrite Hm. reflexivity.
    - rewrite Hm. reflexivity.
  Qed.
  Lemma dsim_ctx A c (m1 m0 : M sstate A) : dsim m1 m0 -> dsim (ctx_wrap c m1) (ctx_wrap c m0).
  Proof.
    intros Hm s1 s0 p H. specialize (Hm s1 s0 p H). unfold ctx_wrap. destruct (m1 s1 p) as [[[a s1'] p']|e|x|].
    - destruct Hm as (s0' & Hr & HR). rewrite Hr. eauto.
    - rewrite Hm. reflexivity.
    - rewrite Hm. reflexivity.
    - rewrite Hm. reflexivity.
  Qed.
  Lemma dsim_fail A e : dsim (@fail sstate A e) (fail e). Proof. intros s1 s0 p H. reflexivity. Qed.
  Lemma dsim_panic A x : dsim (@panic sstate A x) (panic x). Proof. intros s1 s0 p H. reflexivity. Qed.
  Lemma dsim_oof A : dsim (@out_of_fuel sstate A) out_of_fuel. Proof. intros s1 s0 p H. reflexivity. Qed.
  Lemma dsim_lift A (r : res A) : dsim (lift r) (lift r).
  Proof. intros s1 s0 p H. destruct r; cbn; try reflexivity. exists s0. auto. Qed.
  Lemma dsim_poll l : dsim (@poll sstate l) (poll l).
  Proof. intros s1 s0 p H. unfold poll. destruct (poll_step l p) as [q c]. destruct c; [reflexivity|]. exists s0. auto. Qed.
  Lemma dsim_mapM_in A B (f1 f0 : A -> M sstate B) l : (forall x, In x l -> dsim (f1 x) (f0 x)) -> dsim (mapM f1 l) (mapM f0 l).
  Proof.
    induction l as [|x l IH]; intros H; cbn [mapM]; [apply dsim_ret|]. apply dsim_bind; [apply H; left; reflexivity|]. intros y.
    apply dsim_bind; [apply IH; intros z Hz; apply H; right; exact Hz|]. intros ys. apply dsim_ret.
  Qed.
  Lemma dsim_iterM_in A (f1 f0 : A -> M sstate unit) l : (forall x, In x l -> dsim (f1 x) (f0 x)) -> dsim (iterM f1 l) (iterM f0 l).
  Proof.
    induction l as [|x l IH]; intros H; cbn [iterM]; [apply dsim_ret|]. apply dsim_bind; [apply H; left; reflexivity|]. intros _.
    apply IH. intros z Hz. apply H. right. exact Hz.
  Qed.

  (* primitives that do not look at attribute maps *)
  Ltac destruct_inner :=
    repeat match goal with
           | |- context [match ?x with _ => _ end] =>
               lazymatch x with
               | context [match _ with _ => _ end] => fail
               | _ => destruct x eqn:?
               end
           end.
  Ltac prim_d :=
    intros s1 s0 p HR; destruct s1 as [g1 l1 sc1 ps1], s0 as [g0 l0 sc0 ps0]; destruct HR as (Hg & Hl & Hsc & Hps); cbn in Hg, Hl, Hsc, Hps; subst g0 l0 sc0 ps0;
    cbv [set_locals set_scoped set_params push_frame pop_frame clear_frame push_param drain_params
         unscoped_get unscoped_add unscoped_set scoped_get_at scoped_add_at scoped_set_at scope_of
         bind get_state modify ret fail panic out_of_fuel s_graph s_locals s_scoped s_params];
    destruct_inner; first [reflexivity | (eexists; split; [reflexivity|repeat split])].

  Section Interp.
    Context {rx : Type}.
    Variables (t : tree) (fl : file) (glob : globals) (regexes : list rx)
              (find : rx -> str -> option (list (option (N * N))))
              (call : ident -> graph -> list value -> res (value * graph)).
    (* the function library does not look at attributes (true of the stdlib) *)
    Hypothesis Hcall : forall f g args,
      match call f g args with
      | Ok (v, g') => call f (erase_graph g) args = Ok (v, erase_graph g')
      | Err e => call f (erase_graph g) args = Err e
      | Panic x => call f (erase_graph g) args = Panic x
      | OutOfFuel => call f (erase_graph g) args = OutOfFuel
      end.

    Lemma dsim_set_locals l : dsim (set_locals l) (set_locals l). Proof. prim_d. Qed.
    Lemma dsim_push_frame : dsim push_frame push_frame. Proof. prim_d. Qed.
    Lemma dsim_pop_frame : dsim pop_frame pop_frame. Proof. prim_d. Qed.
    Lemma dsim_clear_frame : dsim clear_frame clear_frame. Proof. prim_d. Qed.
    Lemma dsim_push_param v : dsim (push_param v) (push_param v). Proof. prim_d. Qed.
    Lemma dsim_drain_params n : dsim (drain_params n) (drain_params n). Proof. prim_d. Qed.
    Lemma dsim_unscoped_get name : dsim (unscoped_get glob name) (unscoped_get glob name). Proof. prim_d. Qed.
    Lemma dsim_unscoped_add name v m : dsim (unscoped_add glob name v m) (unscoped_add glob name v m). Proof. prim_d. Qed.
    Lemma dsim_unscoped_set name v : dsim (unscoped_set glob name v) (unscoped_set glob name v). Proof. prim_d. Qed.
    Lemma dsim_scoped_get_at n name : dsim (scoped_get_at t fl n name) (scoped_get_at t fl n name). Proof. prim_d. Qed.
    Lemma dsim_scoped_add_at n name v m : dsim (scoped_add_at n name v m) (scoped_add_at n name v m). Proof. prim_d. Qed.
    Lemma dsim_scoped_set_at n name v : dsim (scoped_set_at n name v) (scoped_set_at n name v). Proof. prim_d. Qed.
    Lemma dsim_scope_of v : dsim (scope_of v) (scope_of v). Proof. prim_d. Qed.

    (* ---- graph primitives ---- *)
    Lemma erase_new : erase_node new_gnode = new_gnode. Proof. reflexivity. Qed.

    Lemma dsim_add_node : dsim add_node add_node.
    Proof.
      intros s1 s0 p (Hg & Hl & Hsc & Hps). unfold add_node, bind, get_state, add_graph_node, set_graph, modify, ret.
      rewrite <- Hg, erase_length. eexists. split; [reflexivity|]. split; [|auto]. cbn [s_graph].
      unfold erase_graph. rewrite map_app. reflexivity.
    Qed.

    Lemma erase_with_attrs m nd : erase_node (with_attrs m nd) = with_attrs (erase_amap m) (erase_node nd).
    Proof. reflexivity. Qed.
    Lemma erase_with_edges es nd : erase_node (with_edges es nd) = with_edges (map (fun e => (fst e, erase_amap (snd e))) es) (erase_node nd).
    Proof. reflexivity. Qed.

    Lemma dsim_add_attr tgt k v : is_dbg k = false -> dsim (add_attr tgt k v) (add_attr tgt k v).
    Proof.
      intros Hk s1 s0 p (Hg & Hl & Hsc & Hps). unfold add_attr, bind, get_state. rewrite <- Hg. destruct tgt as [n|a b].
      - rewrite erase_gnode_at. destruct (gnode_at (s_graph s1) n) as [nd|]; cbn [option_map]; [|reflexivity].
        cbn [erase_node g_attrs]. rewrite (erase_attrs_add (g_attrs nd) k v Hk).
        destruct (attrs_add (g_attrs nd) k v) as [m' c]. cbn [fst snd]. destruct c; [reflexivity|].
        unfold set_graph, modify. eexists. split; [reflexivity|]. split; [|auto]. cbn [s_graph].
        apply erase_graph_update. intros nd0. apply erase_with_attrs.
      - rewrite erase_gnode_at. destruct (gnode_at (s_graph s1) a) as [nd|]; cbn [option_map]; [|reflexivity].
        cbn [erase_node g_edges]. rewrite erase_edges_get. destruct (edges_get b (g_edges nd)) as [m|]; cbn [option_map]; [|reflexivity].
        rewrite (erase_attrs_add m k v Hk). destruct (attrs_add m k v) as [m' c]. cbn [fst snd]. destruct c; [reflexivity|].
        unfold set_graph, modify. eexists. split; [reflexivity|]. split; [|auto]. cbn [s_graph].
        apply erase_graph_update. intros nd0. rewrite erase_with_edges. rewrite erase_edges_set. reflexivity.
    Qed.

    Lemma dsim_add_edge a b : dsim (add_edge a b) (add_edge a b).
    Proof.
      intros s1 s0 p (Hg & Hl & Hsc & Hps). unfold add_edge, bind, get_state, graph_add_edge. rewrite <- Hg, erase_gnode_at.
      destruct (gnode_at (s_graph s1) a) as [nd|]; cbn [option_map]; [|reflexivity].
      cbn [erase_node g_edges]. rewrite erase_edges_add. destruct (edges_add b (g_edges nd)) as [isnew es]. cbn [fst snd].
      unfold set_graph, modify, ret. eexists. split; [reflexivity|]. split; [|auto]. cbn [s_graph].
      apply erase_graph_update. intros nd0. apply erase_with_edges.
    Qed.

    Lemma dsim_call f args : dsim (call_function call f args) (call_function call f args).
    Proof.
      intros s1 s0 p (Hg & Hl & Hsc & Hps). unfold call_function, bind, get_state. rewrite <- Hg.
      pose proof (Hcall f (s_graph s1) args) as Hc. destruct (call f (s_graph s1) args) as [[v g']|e|x|]; rewrite Hc; try reflexivity.
      unfold set_graph, modify, ret. eexists. split; [reflexivity|]. split; [reflexivity|auto].
    Qed.

    (* a debug attribute put on a node / edge that does not have it yet: invisible after erasure *)
    Lemma dbg_node_attr_invisible n k v : is_dbg k = true ->
      forall s1 s0 p nd, R s1 s0 -> gnode_at (s_graph s1) n = Some nd -> alist_get k (g_attrs nd) = None ->
      exists s1', add_attr (TNode n) k v s1 p = Ok (tt, s1', p) /\ R s1' s0 /\
                  gnode_at (s_graph s1') n = Some (with_attrs (g_attrs nd ++ [(k, v)]) nd) /\ length (s_graph s1') = length (s_graph s1).
    Proof.
      intros Hk s1 s0 p nd (Hg & Hl & Hsc & Hps) Hn Hnone.
      destruct (add_attr_node_fresh n k v s1 p nd Hn Hnone) as (s1' & E & G & L' & Sc' & P').
      exists s1'. split; [exact E|]. split; [|split].
      - split; [|rewrite L', Sc', P'; auto]. rewrite G, <- Hg.
        apply (erase_graph_update_same _ _ _ nd Hn). unfold erase_node, with_attrs; cbn [g_attrs g_edges].
        destruct (erase_attrs_add_dbg (g_attrs nd) k v Hk Hnone) as [_ He]. rewrite He. reflexivity.
      - rewrite G. apply graph_update_at, Hn.
      - rewrite G. unfold graph_update. apply list_update_length.
    Qed.

    (* ---- the debug configuration: its names are debug names, pairwise distinct ---- *)
    Variable cfg : config.
    Hypothesis Hloc : forall k, c_loc_attr cfg = Some k -> is_dbg k = true.
    Hypothesis Hvar : forall k, c_var_attr cfg = Some k -> is_dbg k = true.
    Hypothesis Hmat : forall k, c_match_attr cfg = Some k -> is_dbg k = true.
    Hypothesis Hd_lv : forall a b, c_loc_attr cfg = Some a -> c_var_attr cfg = Some b -> str_eqb a b = false.
    Hypothesis Hd_mv : forall a b, c_match_attr cfg = Some a -> c_var_attr cfg = Some b -> str_eqb a b = false.
    Hypothesis Hd_ml : forall a b, c_match_attr cfg = Some a -> c_loc_attr cfg = Some b -> str_eqb a b = false.

    Lemma alist_get_app_none {V} k (m : list (ident * V)) k' v : alist_get k m = None -> str_eqb k k' = false -> alist_get k (m ++ [(k', v)]) = None.
    Proof. induction m as [|[k0 v0] m IH]; cbn [app alist_get]; intros H E; [rewrite E; reflexivity|]. destruct (str_eqb k k0); [discriminate|auto]. Qed.

    (* one optional debug attribute on a node that does not have it yet *)
    Lemma opt_dbg_step n o v s1 s0 p nd : R s1 s0 -> gnode_at (s_graph s1) n = Some nd ->
      (forall k, o = Some k -> is_dbg k = true /\ alist_get k (g_attrs nd) = None) ->
      exists s1' nd', opt_attr (TNode n) o v s1 p = Ok (tt, s1', p) /\ R s1' s0 /\ gnode_at (s_graph s1') n = Some nd' /\
        (forall k', (forall k, o = Some k -> str_eqb k' k = false) -> alist_get k' (g_attrs nd) = None -> alist_get k' (g_attrs nd') = None).
    Proof.
      intros HR Hn Ho. destruct o as [k|]; cbn [opt_attr].
      - destruct (Ho k eq_refl) as [Hk Hnone].
        destruct (dbg_node_attr_invisible n k v Hk s1 s0 p nd HR Hn Hnone) as (s1' & E & HR' & Hn' & _).
        exists s1', (with_attrs (g_attrs nd ++ [(k, v)]) nd). split; [exact E|]. split; [exact HR'|]. split; [exact Hn'|].
        intros k' Hk' Hg. cbn [with_attrs g_attrs]. apply alist_get_app_none; [exact Hg|]. apply Hk'. reflexivity.
      - exists s1, nd. split; [reflexivity|]. split; [exact HR|]. split; [exact Hn|]. auto.
    Qed.

    (* the `node` statement: the debug run decorates the fresh node, the plain run does not; afterwards the
       states are related again *)
    Lemma dsim_node_stmt le vtext lc (K1 K0 : N -> M sstate unit) :
      nodes_for_capture (le_match le) (le_full le) <> [] -> (forall n, dsim (K1 n) (K0 n)) ->
      dsim (n <- add_node ;;
            opt_attr (TNode n) (c_var_attr cfg) (VStr vtext) ;;;
            opt_attr (TNode n) (c_loc_attr cfg) (VStr lc) ;;;
            match c_match_attr cfg with
            | Some k => mn <- full_match_node le ;; add_attr (TNode n) k (VSyn mn)
            | None => ret tt
            end ;;; K1 n)
           (n <- add_node ;;
            opt_attr (TNode n) (c_var_attr config0) (VStr vtext) ;;;
            opt_attr (TNode n) (c_loc_attr config0) (VStr lc) ;;;
            match c_match_attr config0 with
            | Some k => mn <- full_match_node le ;; add_attr (TNode n) k (VSyn mn)
            | None => ret tt
            end ;;; K0 n).
    Proof.
      intros Hfull HK s1 s0 p HR.
      pose proof (dsim_add_node s1 s0 p HR) as Hadd. unfold bind at 1. unfold bind at 5.
      unfold add_node, bind, get_state, add_graph_node, set_graph, modify, ret in Hadd |- *. cbn beta iota in Hadd |- *.
      destruct Hadd as (s0a & E0 & HRa). inversion E0; subst s0a; clear E0.
      set (n := N.of_nat (length (s_graph s1))) in *.
      assert (En0 : N.of_nat (length (s_graph s0)) = n) by (destruct HR as (Hg & _); rewrite <- Hg, erase_length; reflexivity).
      rewrite En0 in *. cbn [config0 c_var_attr c_loc_attr c_match_attr opt_attr]. unfold ret at 4 5 6. 
      set (s1a := {| s_graph := s_graph s1 ++ [new_gnode]; s_locals := s_locals s1; s_scoped := s_scoped s1; s_params := s_params s1 |}) in *.
      set (s0a := {| s_graph := s_graph s0 ++ [new_gnode]; s_locals := s_locals s0; s_scoped := s_scoped s0; s_params := s_params s0 |}) in *.
      assert (Hn : gnode_at (s_graph s1a) n = Some new_gnode).
      { unfold gnode_at, s1a, n. cbn [s_graph]. rewrite Nat2N.id, nth_error_app2, Nat.sub_diag by lia. reflexivity. }
      destruct (opt_dbg_step n (c_var_attr cfg) (VStr vtext) s1a s0a p new_gnode HRa Hn) as (s1b & nd1 & E1 & HRb & Hn1 & Hk1).
      { intros k Hk. split; [apply Hvar; exact Hk|reflexivity]. }
      destruct (opt_dbg_step n (c_loc_attr cfg) (VStr lc) s1b s0a p nd1 HRb Hn1) as (s1c & nd2 & E2 & HRc & Hn2 & Hk2).
      { intros k Hk. split; [apply Hloc; exact Hk|]. apply Hk1; [|reflexivity]. intros k2 Hk2. exact (Hd_lv k k2 Hk Hk2). }
      assert (E3g : forall o, (forall k, o = Some k -> is_dbg k = true /\ alist_get k (g_attrs nd2) = None) ->
                exists s1d, match o with
                            | Some k => mn <- full_match_node le ;; add_attr (TNode n) k (VSyn mn)
                            | None => ret tt
                            end s1c p = Ok (tt, s1d, p) /\ R s1d s0a).
      { intros o Ho. destruct o as [k|]; [|exists s1c; split; [reflexivity|exact HRc]].
        unfold full_match_node. destruct (nodes_for_capture (le_match le) (le_full le)) as [|mn ?]; [contradiction|].
        destruct (opt_dbg_step n (Some k) (VSyn mn) s1c s0a p nd2 HRc Hn2 Ho) as (s1d & nd3 & E3 & HRd & _).
        exists s1d. split; [|exact HRd]. unfold bind, ret. exact E3. }
      destruct (E3g (c_match_attr cfg)) as (s1d & E3 & HRd).
      { intros k Ek. split; [apply Hmat; exact Ek|].
        apply Hk2; [intros k2 Hk2'; exact (Hd_ml k k2 Ek Hk2')|].
        apply Hk1; [intros k2 Hk2'; exact (Hd_mv k k2 Ek Hk2')|reflexivity]. }
      unfold bind, ret in E3. unfold bind. fold s1a. rewrite E1, E2, E3. fold s0a. unfold ret. apply HK, HRd.
    Qed.

    (* the `edge` statement: a NEW edge gets the location attribute in the debug run only *)
    Lemma edges_add_new_get b es es' : edges_add b es = (true, es') -> edges_get b es' = Some [].
    Proof.
      revert es'. induction es as [|[s a] es IH]; intros es'; cbn [edges_add].
      - intros H. inversion H. cbn. rewrite N.compare_refl. reflexivity.
      - destruct (N.compare b s) eqn:Ec.
        + discriminate.
        + intros H. inversion H. cbn. rewrite N.compare_refl. reflexivity.
        + destruct (edges_add b es) as [b' r]. intros H. inversion H; subst. cbn. rewrite Ec. apply IH. reflexivity.
    Qed.
    Lemma erase_edges_set_dbg b k v es : is_dbg k = true -> edges_get b es = Some [] ->
      map (fun e => (fst e, erase_amap (snd e))) (edges_set b [(k, v)] es) = map (fun e : N * amap => (fst e, erase_amap (snd e))) es.
    Proof.
      intros Hk. induction es as [|[s a] es IH]; cbn [edges_get edges_set map]; [reflexivity|].
      destruct (N.compare b s) eqn:Ec.
      - apply N.compare_eq in Ec. subst s. rewrite N.eqb_refl. intros H. inversion H; subst. cbn [map fst snd erase_amap filter]. rewrite Hk. reflexivity.
      - discriminate.
      - intros H. destruct (N.eqb_spec b s) as [->|_]; [rewrite N.compare_refl in Ec; discriminate|]. cbn [map fst snd]. f_equal. apply IH, H.
    Qed.

    Lemma dsim_edge_stmt a b v :
      dsim (isnew <- add_edge a b ;; if isnew then opt_attr (TEdge a b) (c_loc_attr cfg) v else ret tt)
           (isnew <- add_edge a b ;; if isnew then opt_attr (TEdge a b) (c_loc_attr config0) v else ret tt).
    Proof.
      destruct (c_loc_attr cfg) as [k|] eqn:Ek.
      2:{ apply dsim_bind; [apply dsim_add_edge|]. intros isnew. destruct isnew; apply dsim_ret. }
      pose proof (Hloc k eq_refl) as Hk. clear Hloc Hd_lv Hd_ml.
      intros s1 s0 p HR. pose proof (dsim_add_edge a b s1 s0 p HR) as Hadd. unfold bind.
      destruct (add_edge a b s1 p) as [[[isnew s1a] p1]|e|x|] eqn:Ea; [|rewrite Hadd; reflexivity..].
      destruct Hadd as (s0a & E0 & HRa). rewrite E0. destruct isnew; [|cbn [config0 c_loc_attr opt_attr]; apply dsim_ret, HRa].
      cbn [config0 c_loc_attr opt_attr]. unfold ret.
      (* the state after add_edge has the new edge with no attributes *)
      unfold add_edge, bind, get_state, graph_add_edge in Ea.
      destruct (gnode_at (s_graph s1) a) as [nd|] eqn:En; [|discriminate].
      destruct (edges_add b (g_edges nd)) as [isnew es] eqn:Ee. unfold set_graph, modify, ret in Ea. inversion Ea; subst isnew s1a p1; clear Ea.
      pose proof (edges_add_new_get _ _ _ Ee) as Hget.
      unfold add_attr, bind, get_state. cbn [s_graph].
      rewrite (graph_update_at _ a _ nd En). cbn [with_edges g_edges]. rewrite Hget. unfold attrs_add. cbn [alist_get app].
      unfold set_graph, modify. exists s0a. split; [reflexivity|].
      destruct HRa as (Hg & Hrest). split; [|exact Hrest]. cbn [s_graph] in *. rewrite <- Hg.
      apply (erase_graph_update_same _ _ _ (with_edges es nd)); [apply graph_update_at, En|].
      unfold erase_node, with_edges. cbn [g_attrs g_edges]. f_equal. apply erase_edges_set_dbg; assumption.
    Qed.

    (* ---- attribute names used by the program are not debug names ---- *)
    Definition attr_ok (a : attr) : Prop := let '(Attr name _) := a in is_dbg name = false.
    Fixpoint stmt_attrs (s : stmt) : list attr :=
      match s with
      | SAttrNode _ attrs _ | SAttrEdge _ _ attrs _ => attrs
      | SScan _ arms _ => flat_map (fun arm : N * list stmt * loc => flat_map stmt_attrs (snd (fst arm))) arms
      | SIf arms _ => flat_map (fun arm : list cond * list stmt * loc => flat_map stmt_attrs (snd (fst arm))) arms
      | SFor _ _ _ body _ => flat_map stmt_attrs body
      | _ => []
      end.
    Definition stmt_fresh (s : stmt) : Prop := Forall attr_ok (stmt_attrs s).
    Hypothesis Hsh : forall sh, In sh (f_shorthands fl) -> Forall attr_ok (sh_attrs sh).

    Lemma find_shorthand_in name l sh : find_shorthand name l = Some sh -> In sh l.
    Proof.
      induction l as [|s l IH]; cbn [find_shorthand]; [discriminate|]. destruct (find_shorthand name l) as [s'|].
      - intros H. inversion H; subst. right. apply IH. reflexivity.
      - destruct (str_eqb name (sh_name s)); [|discriminate]. intros H. inversion H. left. reflexivity.
    Qed.
    Lemma fresh_block (body : list stmt) : Forall attr_ok (flat_map stmt_attrs body) -> forall st, In st body -> stmt_fresh st.
    Proof. intros H st Hin. unfold stmt_fresh. rewrite Forall_forall in *. intros a Ha. apply H. apply in_flat_map. exists st. auto. Qed.

    Ltac dsim_prim :=
      first [ apply dsim_ret | apply dsim_add_node | apply dsim_add_edge | apply dsim_set_locals
            | apply dsim_push_frame | apply dsim_pop_frame | apply dsim_clear_frame | apply dsim_unscoped_get | apply dsim_unscoped_add
            | apply dsim_unscoped_set | apply dsim_scoped_get_at | apply dsim_scoped_add_at | apply dsim_scoped_set_at | apply dsim_scope_of
            | apply dsim_push_param | apply dsim_drain_params
            | apply dsim_call | apply dsim_panic | apply dsim_oof | apply dsim_fail | apply dsim_lift | apply dsim_poll ].
    Ltac dsim_step :=
      first [ dsim_prim
            | apply dsim_bind; [|intros ?]
            | apply dsim_mapM_in; intros ? _
            | apply dsim_iterM_in; intros ? _
            | match goal with |- dsim (match ?x with _ => _ end) (match ?x with _ => _ end) => destruct x end
            | match goal with |- dsim (if ?x then _ else _) (if ?x then _ else _) => destruct x end ].
    Ltac dsims := repeat dsim_step.

    Notation eval' := (eval t fl glob call).
    Lemma dsim_eval : forall fuel le e, dsim (eval' fuel le e) (eval' fuel le e).
    Proof. induction fuel as [|fuel IH]; intros le e; [apply dsim_oof|]. destruct e; cbn [eval]; dsims; apply IH. Qed.
    Lemma dsim_var_add fuel le v x m : dsim (var_add t fl glob call fuel le v x m) (var_add t fl glob call fuel le v x m).
    Proof. destruct v; cbn [var_add]; dsims; apply dsim_eval. Qed.
    Lemma dsim_var_set fuel le v x : dsim (var_set t fl glob call fuel le v x) (var_set t fl glob call fuel le v x).
    Proof. destruct v; cbn [var_set]; dsims; apply dsim_eval. Qed.
    Lemma dsim_cond fuel le c : dsim (test_cond t fl glob call fuel le c) (test_cond t fl glob call fuel le c).
    Proof. destruct c; cbn [test_cond]; dsims; apply dsim_eval. Qed.

    Lemma dsim_get_state A (f1 f0 : sstate -> M sstate A) :
      (forall s1 s0, R s1 s0 -> dsim (f1 s1) (f0 s0)) -> dsim (s <- get_state ;; f1 s) (s <- get_state ;; f0 s).
    Proof. intros H s1 s0 p HR. unfold bind, get_state. apply (H s1 s0 HR s1 s0 p HR). Qed.

    Lemma dsim_attr : forall fuel le tgt a, attr_ok a -> dsim (exec_attr t fl glob call fuel le tgt a) (exec_attr t fl glob call fuel le tgt a).
    Proof.
      induction fuel as [|fuel IH]; intros le tgt a Ha; [apply dsim_oof|].
      destruct a as [name value]. cbn [exec_attr]. apply dsim_bind; [apply dsim_poll|intros _].
      apply dsim_bind; [apply dsim_eval|intros v]. destruct (find_shorthand name (f_shorthands fl)) as [sh|] eqn:Ef; [|apply dsim_add_attr, Ha].
      apply dsim_get_state. intros s1 s0 (_ & Hl & _). cbv zeta. rewrite Hl.
      apply dsim_bind; [apply dsim_set_locals|intros _]. apply dsim_bind; [apply dsim_unscoped_add|intros _].
      apply dsim_bind; [|intros _; apply dsim_set_locals].
      apply dsim_iterM_in. intros a Hin. apply IH.
      pose proof (Hsh sh (find_shorthand_in _ _ _ Ef)) as Hf. rewrite Forall_forall in Hf. apply Hf, Hin.
    Qed.

    Notation exec_stmt1 := (exec_stmt t fl cfg glob regexes find call).
    Notation exec_stmt0 := (exec_stmt t fl config0 glob regexes find call).

    Lemma dsim_scan_loop (run1 run0 : list str -> list stmt -> M sstate unit) arms rs subject :
      (forall caps r body l, In (r, body, l) arms -> dsim (run1 caps body) (run0 caps body)) ->
      forall sfuel i, dsim (scan_loop find run1 arms rs subject sfuel i) (scan_loop find run0 arms rs subject sfuel i).
    Proof.
      intros Hrun. induction sfuel as [|sfuel IHs]; intros i; cbn [scan_loop]; [apply dsim_oof|].
      destruct (N.ltb i (N.of_nat (length subject))); [|apply dsim_ret]. apply dsim_bind; [apply dsim_poll|intros _]. cbv zeta.
      destruct (arm_select find rs (skipn (N.to_nat i) subject)) as [|k|k caps]; [apply dsim_ret|apply dsim_fail|].
      destruct (nth_error arms (N.to_nat k)) as [[[r body] l']|] eqn:En; [|apply dsim_panic].
      apply dsim_bind; [apply dsim_push_frame|intros _]. apply dsim_bind; [eapply Hrun, nth_error_In, En|intros _].
      apply dsim_bind; [apply dsim_pop_frame|intros _]. apply IHs.
    Qed.
    Lemma dsim_if_loop (test : cond -> M sstate bool) (run1 run0 : list stmt -> M sstate unit) :
      (forall c, dsim (test c) (test c)) ->
      forall arms, (forall conds body l, In (conds, body, l) arms -> dsim (run1 body) (run0 body)) ->
      dsim (if_loop test run1 arms) (if_loop test run0 arms).
    Proof.
      intros Ht. induction arms as [|[[conds body] l'] arms IHa]; intros Hr; cbn [if_loop]; [apply dsim_ret|].
      apply dsim_bind; [apply dsim_mapM_in; intros c _; apply Ht|intros bs]. destruct (forallb (fun b => b) bs).
      - apply dsim_bind; [apply dsim_push_frame|intros _]. apply dsim_bind; [eapply Hr; left; reflexivity|intros _]. apply dsim_pop_frame.
      - apply IHa. intros c b l Hin. eapply Hr. right. exact Hin.
    Qed.

    Lemma dsim_stmt : forall fuel le s, nodes_for_capture (le_match le) (le_full le) <> [] -> stmt_fresh s ->
      dsim (exec_stmt1 fuel le s) (exec_stmt0 fuel le s).
    Proof.
      induction fuel as [|fuel IH]; intros le s Hfull Hs; [apply dsim_oof|].
      assert (Hblock : forall le' (wrap : M sstate unit -> M sstate unit) body,
                 le_match le' = le_match le -> le_full le' = le_full le ->
                 (forall m1 m0, dsim m1 m0 -> dsim (wrap m1) (wrap m0)) ->
                 Forall attr_ok (flat_map stmt_attrs body) ->
                 dsim (iterM (fun st => let c := ctx_update (le_ctx le') st in
                                       ctx_wrap (CtxStmts [c]) (wrap (exec_stmt1 fuel (le_with_ctx le' c) st))) body)
                      (iterM (fun st => let c := ctx_update (le_ctx le') st in
                                       ctx_wrap (CtxStmts [c]) (wrap (exec_stmt0 fuel (le_with_ctx le' c) st))) body)).
      { intros le' wrap body Hm Hf Hw Hb. apply dsim_iterM_in. intros st Hin. cbv zeta. apply dsim_ctx, Hw. apply IH.
        - cbn [le_with_ctx le_match le_full]. rewrite Hm, Hf. exact Hfull.
        - eapply fresh_block; eauto. }
      destruct s; cbn [exec_stmt]; (apply dsim_bind; [apply dsim_poll|intros _]).
      - apply dsim_bind; [apply dsim_eval|intros x; apply dsim_var_add].
      - apply dsim_bind; [apply dsim_eval|intros x; apply dsim_var_add].
      - apply dsim_bind; [apply dsim_eval|intros x; apply dsim_var_set].
      - apply (dsim_node_stmt le vtext (loc_text (variable_loc v)) (fun n => var_add t fl glob call fuel le v (VGraph n) false)
                              (fun n => var_add t fl glob call fuel le v (VGraph n) false) Hfull).
        intros n. apply dsim_var_add.
      - apply dsim_bind; [apply dsim_eval|intros nv]. apply dsim_bind; [apply dsim_lift|intros n].
        apply dsim_iterM_in. intros a Hin. apply dsim_attr. unfold stmt_fresh in Hs. cbn [stmt_attrs] in Hs. rewrite Forall_forall in Hs. apply Hs, Hin.
      - apply dsim_bind; [apply dsim_bind; [apply dsim_eval|intros x; apply dsim_lift]|intros a].
        apply dsim_bind; [apply dsim_bind; [apply dsim_eval|intros x; apply dsim_lift]|intros b].
        apply dsim_edge_stmt.
      - apply dsim_bind; [apply dsim_bind; [apply dsim_eval|intros x; apply dsim_lift]|intros a].
        apply dsim_bind; [apply dsim_bind; [apply dsim_eval|intros x; apply dsim_lift]|intros b].
        apply dsim_iterM_in. intros a' Hin. apply dsim_attr. unfold stmt_fresh in Hs. cbn [stmt_attrs] in Hs. rewrite Forall_forall in Hs. apply Hs, Hin.
      - apply dsim_bind; [apply dsim_eval|intros sv]. apply dsim_bind; [apply dsim_lift|intros subject].
        destruct (arm_table regexes arms) as [rs|]; [|apply dsim_panic].
        apply dsim_scan_loop. intros caps r body l' Hin. apply (Hblock (le_with_caps le caps) (ctx_wrap CtxOther) body); try reflexivity.
        + intros m1 m0 Hm. apply dsim_ctx, Hm.
        + unfold stmt_fresh in Hs. cbn [stmt_attrs] in Hs. rewrite Forall_forall in *. intros a Ha. apply Hs.
          apply in_flat_map. exists (r, body, l'). auto.
      - apply dsim_iterM_in. intros e _. destruct e; try apply dsim_ret. all: apply dsim_bind; [apply dsim_eval|intros _; apply dsim_ret].
      - apply dsim_if_loop; [intros c; apply dsim_cond|]. intros conds body l' Hin. apply (Hblock le (fun m => m) body); auto.
        unfold stmt_fresh in Hs. cbn [stmt_attrs] in Hs. rewrite Forall_forall in *. intros a Ha. apply Hs.
        apply in_flat_map. exists (conds, body, l'). auto.
      - apply dsim_bind; [apply dsim_eval|intros lv]. apply dsim_bind; [apply dsim_lift|intros vals].
        apply dsim_bind; [apply dsim_push_frame|intros _]. apply dsim_bind; [|intros _; apply dsim_pop_frame].
        apply dsim_iterM_in. intros v _. apply dsim_bind; [apply dsim_clear_frame|intros _].
        apply dsim_bind; [apply dsim_unscoped_add|intros _]. apply (Hblock le (fun m => m) body); auto.
    Qed.

    Definition stanza_fresh (st : stanza) : Prop := Forall attr_ok (flat_map stmt_attrs (st_stmts st)).

    Lemma dsim_stanza fuel st m : stanza_fresh st ->
      dsim (exec_stanza t fl cfg glob regexes find call fuel st m) (exec_stanza t fl config0 glob regexes find call fuel st m).
    Proof.
      intros Hst. unfold exec_stanza. apply dsim_bind; [apply dsim_clear_frame|intros _]. apply dsim_iterM_in. intros s Hin. cbv zeta.
      destruct (nodes_for_capture m (st_full_stanza_idx st)) as [|n ns] eqn:En; [apply dsim_panic|]. apply dsim_ctx.
      apply dsim_stmt; [cbn [le_with_ctx le_match le_full]; rewrite En; discriminate|]. eapply fresh_block; eauto.
    Qed.

    Lemma dsim_file fuel : forall sts ms, Forall stanza_fresh sts ->
      dsim (exec_file t fl cfg glob regexes find call fuel sts ms) (exec_file t fl config0 glob regexes find call fuel sts ms).
    Proof.
      induction sts as [|st sts IH]; intros [|m ms] Hf; cbn [exec_file]; try apply dsim_ret. inversion Hf; subst.
      apply dsim_bind; [apply dsim_iterM_in; intros x _; apply dsim_stanza; assumption|intros _]. apply IH. assumption.
    Qed.
  End Interp.
End Names.

(* ------------------------------------------------------------------ run level *)
From TSG Require Import Model.Stdlib.

Definition olist {A} (o : option A) : list A := match o with Some a => [a] | None => [] end.
Definition cfg_names (cfg : config) : list ident := olist (c_loc_attr cfg) ++ olist (c_var_attr cfg) ++ olist (c_match_attr cfg).
Definition is_dbg_of (cfg : config) (k : ident) : bool := existsb (str_eqb k) (cfg_names cfg).
(* the configured names are pairwise different (with equal names the debug run itself fails with a duplicate attribute) *)
Definition cfg_distinct (cfg : config) : Prop :=
  (forall a b, c_loc_attr cfg = Some a -> c_var_attr cfg = Some b -> a <> b) /\
  (forall a b, c_match_attr cfg = Some a -> c_var_attr cfg = Some b -> a <> b) /\
  (forall a b, c_match_attr cfg = Some a -> c_loc_attr cfg = Some b -> a <> b).
(* no attribute statement or shorthand of the file uses a configured debug name *)
Definition file_fresh (cfg : config) (fl : file) : Prop :=
  Forall (stanza_fresh (is_dbg_of cfg)) (f_stanzas fl) /\
  forall sh, In sh (f_shorthands fl) -> Forall (attr_ok (is_dbg_of cfg)) (sh_attrs sh).
Definition call_erasable (is_dbg : ident -> bool) (call : ident -> graph -> list value -> res (value * graph)) : Prop :=
  forall f g args,
    match call f g args with
    | Ok (v, g') => call f (erase_graph is_dbg g) args = Ok (v, erase_graph is_dbg g')
    | Err e => call f (erase_graph is_dbg g) args = Err e
    | Panic x => call f (erase_graph is_dbg g) args = Panic x
    | OutOfFuel => call f (erase_graph is_dbg g) args = OutOfFuel
    end.

(* the standard library never looks at attributes: only `node` touches the graph, and it only appends *)
Lemma stdlib_erasable is_dbg rx t : call_erasable is_dbg (stdlib_call rx t).
Proof.
  intros f g args. unfold stdlib_call. destruct (fn_of_name f) as [fn|]; [|reflexivity]. unfold stdlib_fn.
  assert (Hp : stdlib_pure rx t fn (erase_graph is_dbg g) args = stdlib_pure rx t fn g args).
  { destruct fn; try reflexivity. cbn [stdlib_pure add_graph_node snd]. rewrite erase_length. reflexivity. }
  rewrite Hp. destruct (stdlib_pure rx t fn g args) as [v|e|x|]; cbn [obind]; try reflexivity.
  f_equal. f_equal. destruct fn; try reflexivity. cbn [add_graph_node fst]. unfold erase_graph. rewrite map_app. reflexivity.
Qed.

Theorem debug_neutral_strict_lemma {rx : Type} t fl cfg supplied budget (regexes : list rx) find call fuel matches g0 :
  cfg_distinct cfg -> call_erasable (is_dbg_of cfg) call -> file_fresh cfg fl ->
  match run_strict t fl cfg supplied budget regexes find call fuel matches g0 with
  | Ok (s, p) => exists s0, run_strict t fl config0 supplied budget regexes find call fuel matches (erase_graph (is_dbg_of cfg) g0) = Ok (s0, p) /\
                            s_graph s0 = erase_graph (is_dbg_of cfg) (s_graph s)
  | Err e => run_strict t fl config0 supplied budget regexes find call fuel matches (erase_graph (is_dbg_of cfg) g0) = Err e
  | Panic x => run_strict t fl config0 supplied budget regexes find call fuel matches (erase_graph (is_dbg_of cfg) g0) = Panic x
  | OutOfFuel => run_strict t fl config0 supplied budget regexes find call fuel matches (erase_graph (is_dbg_of cfg) g0) = OutOfFuel
  end.
Proof.
  intros (D1 & D2 & D3) Hcall (Hst & Hsh). unfold run_strict.
  destruct (check_globals (f_globals fl) (globals_nested supplied)) as [glob|e|x|]; try reflexivity.
  assert (Hn : forall (o : option ident) k, o = Some k -> In k (olist o)) by (intros o k ->; left; reflexivity).
  assert (Hin : forall k, In k (cfg_names cfg) -> is_dbg_of cfg k = true).
  { intros k Hk. unfold is_dbg_of. apply existsb_exists. exists k. split; [exact Hk|apply str_eqb_refl]. }
  pose proof (dsim_file (is_dbg_of cfg) t fl glob regexes find call Hcall cfg) as H.
  assert (HR : R (is_dbg_of cfg) (sinit g0) (sinit (erase_graph (is_dbg_of cfg) g0))) by (repeat split).
  specialize (H (fun k Hk => Hin k ltac:(unfold cfg_names; apply in_or_app; left; apply Hn, Hk))
                (fun k Hk => Hin k ltac:(unfold cfg_names; apply in_or_app; right; apply in_or_app; left; apply Hn, Hk))
                (fun k Hk => Hin k ltac:(unfold cfg_names; apply in_or_app; right; apply in_or_app; right; apply Hn, Hk))
                (fun a b Ha Hb => proj2 (str_eqb_neq a b) (D1 a b Ha Hb))
                (fun a b Ha Hb => proj2 (str_eqb_neq a b) (D2 a b Ha Hb))
                (fun a b Ha Hb => proj2 (str_eqb_neq a b) (D3 a b Ha Hb))
                Hsh fuel (f_stanzas fl) matches Hst (sinit g0) _ (polls0 budget) HR).
  destruct (exec_file t fl cfg glob regexes find call fuel (f_stanzas fl) matches (sinit g0) (polls0 budget)) as [[[u s] p]|e|x|].
  - destruct H as (s0 & E & (Hg & _)). rewrite E. exists s0. split; [reflexivity|]. symmetry. exact Hg.
  - rewrite H. reflexivity.
  - rewrite H. reflexivity.
  - rewrite H. reflexivity.
Qed.
