(* Proofs/LocalRel.v — C06 locality, semantic half, part 7: TWO runs of the same computation from states that agree
   on what a pure evaluation can see (Spec/AgreeLv.v).
     tr2 P m Q    from two states with the same graph, parameter buffer and store length whose (store, locals) pairs
                  satisfy P, the two runs of m have the same outcome (value, error, panic, fuel exhaustion, polls), and
                  on success the final states are again related: same graph / parameters / store length, the stores
                  evolved in lockstep (`sext2`), and Q holds. *)
From TSG Require Import Spec.PureLv Spec.AgreeLv Proofs.BaseFacts Proofs.MonadFacts Proofs.Containers Proofs.LocalPure Proofs.LocalEval.

Definition base (s1 s2 : lstate) : Prop :=
  l_graph s1 = l_graph s2 /\ l_params s1 = l_params s2 /\ length (l_store s1) = length (l_store s2).
(* both stores grow, and a location changes only by being forced to the same value in both *)
Definition sext2 (a1 a2 b1 b2 : list thunk) : Prop :=
  (length a1 <= length b1)%nat /\
  forall i th1 th2, nth_error a1 i = Some th1 -> nth_error a2 i = Some th2 ->
    exists th1' th2', nth_error b1 i = Some th1' /\ nth_error b2 i = Some th2' /\ th_dbg th1' = th_dbg th1 /\ th_dbg th2' = th_dbg th2 /\
      ((th_state th1' = th_state th1 /\ th_state th2' = th_state th2) \/ exists v, th_state th1' = TForced v /\ th_state th2' = TForced v).
Lemma sext2_refl a1 a2 : sext2 a1 a2 a1 a2.
Proof. split; [lia|]. intros i th1 th2 H1 H2. exists th1, th2. auto 8. Qed.
Lemma sext2_trans a1 a2 b1 b2 c1 c2 : sext2 a1 a2 b1 b2 -> sext2 b1 b2 c1 c2 -> sext2 a1 a2 c1 c2.
Proof.
  intros [L1 H1] [L2 H2]. split; [lia|]. intros i th1 th2 N1 N2.
  destruct (H1 _ _ _ N1 N2) as (u1 & u2 & M1 & M2 & D1 & D2 & S1). destruct (H2 _ _ _ M1 M2) as (w1 & w2 & K1 & K2 & E1 & E2 & S2).
  exists w1, w2. split; [exact K1|]. split; [exact K2|]. split; [congruence|]. split; [congruence|].
  destruct S2 as [[X1 X2]|[v [X1 X2]]]; [|right; eauto]. destruct S1 as [[Y1 Y2]|[v [Y1 Y2]]]; [left; split; congruence|right; exists v; split; congruence].
Qed.
Lemma sext2_app a1 a2 x1 x2 : length a1 = length a2 -> sext2 a1 a2 (a1 ++ x1) (a2 ++ x2).
Proof.
  intros Hl. split; [rewrite app_length; lia|]. intros i th1 th2 N1 N2. exists th1, th2.
  split; [rewrite nth_error_app1; [exact N1|apply nth_error_Some; congruence]|].
  split; [rewrite nth_error_app1; [exact N2|apply nth_error_Some; congruence]|]. auto 6.
Qed.

Lemma agree_mono a1 a2 b1 b2 l : agree a1 a2 l ->
  (forall i th1 th2, (i <= N.to_nat l)%nat -> nth_error a1 i = Some th1 -> nth_error a2 i = Some th2 ->
     exists th1' th2', nth_error b1 i = Some th1' /\ nth_error b2 i = Some th2' /\ th_dbg th1' = th_dbg th1 /\ th_dbg th2' = th_dbg th2 /\
       ((th_state th1' = th_state th1 /\ th_state th2' = th_state th2) \/ exists v, th_state th1' = TForced v /\ th_state th2' = TForced v)) ->
  agree b1 b2 l.
Proof.
  induction 1 as [loc th1 th2 v N1 N2 S1 S2 D|loc th1 th2 lv N1 N2 S1 S2 D Hns Hlt Hp IH]; intros Hx.
  - destruct (Hx _ _ _ (le_n _) N1 N2) as (u1 & u2 & M1 & M2 & D1 & D2 & [[X1 X2]|[v' [X1 X2]]]).
    + apply (AG_forced b1 b2 loc u1 u2 v M1 M2); congruence.
    + apply (AG_forced b1 b2 loc u1 u2 v' M1 M2); congruence.
  - destruct (Hx _ _ _ (le_n _) N1 N2) as (u1 & u2 & M1 & M2 & D1 & D2 & [[X1 X2]|[v' [X1 X2]]]).
    + apply (AG_unforced b1 b2 loc u1 u2 lv M1 M2); [congruence|congruence|congruence|exact Hns|exact Hlt|].
      intros l Hin. apply (IH _ Hin). intros i t1 t2 Hi. apply Hx. specialize (Hlt _ Hin). lia.
    + eapply AG_forced; [exact M1|exact M2|exact X1|exact X2|congruence].
Qed.
Lemma agree_sext2 a1 a2 b1 b2 l : sext2 a1 a2 b1 b2 -> agree a1 a2 l -> agree b1 b2 l.
Proof. intros [_ H] Ha. eapply agree_mono; [exact Ha|]. intros i th1 th2 _. apply H. Qed.
Lemma agree_lv_sext2 a1 a2 b1 b2 lv : sext2 a1 a2 b1 b2 -> agree_lv a1 a2 lv -> agree_lv b1 b2 lv.
Proof. intros Hs [H1 H2]. split; [exact H1|]. intros l Hin. eapply agree_sext2; eauto. Qed.
Lemma agree_lt a1 a2 l : agree a1 a2 l -> l < N.of_nat (length a1).
Proof.
  intros H. assert (Hn : nth_error a1 (N.to_nat l) <> None) by (destruct H; congruence).
  apply nth_error_Some in Hn. lia.
Qed.

Lemma agree_lv_value a1 a2 v : agree_lv a1 a2 (LValue v). Proof. split; [reflexivity|intros l []]. Qed.
Lemma agree_lv_var a1 a2 loc : agree_lv a1 a2 (LVar loc) <-> agree a1 a2 loc.
Proof. split; [intros [_ H]; apply H; left; reflexivity|]. intros H. split; [reflexivity|]. intros l [<-|[]]. exact H. Qed.
Lemma agree_lvs_iff a1 a2 (l : list lvalue) :
  (forallb lv_noscoped l = true /\ forall x, In x (flat_map lv_locs l) -> agree a1 a2 x) <-> Forall (agree_lv a1 a2) l.
Proof.
  induction l as [|a l IH]; cbn [forallb flat_map].
  - split; [constructor|]. intros _. split; [reflexivity|intros x []].
  - split.
    + intros [H1 H2]. apply andb_true_iff in H1. destruct H1 as [A B]. constructor.
      * split; [exact A|]. intros x Hx. apply H2. apply in_or_app. left. exact Hx.
      * apply IH. split; [exact B|]. intros x Hx. apply H2. apply in_or_app. right. exact Hx.
    + intros H. inversion H as [|? ? [A1 A2] Hl]; subst. apply IH in Hl. destruct Hl as [B1 B2]. split; [rewrite A1, B1; reflexivity|].
      intros x Hx. apply in_app_or in Hx. destruct Hx; auto.
Qed.
Lemma agree_lv_list a1 a2 l : agree_lv a1 a2 (LList l) <-> Forall (agree_lv a1 a2) l. Proof. apply agree_lvs_iff. Qed.
Lemma agree_lv_set a1 a2 l : agree_lv a1 a2 (LSet l) <-> Forall (agree_lv a1 a2) l. Proof. apply agree_lvs_iff. Qed.
Lemma agree_lv_call a1 a2 f l : agree_lv a1 a2 (LCall f l) <-> Forall (agree_lv a1 a2) l. Proof. apply agree_lvs_iff. Qed.
Lemma agree_new a1 a2 lv dbg : length a1 = length a2 -> agree_lv a1 a2 lv ->
  agree (a1 ++ [{| th_state := TUnforced lv; th_dbg := dbg |}]) (a2 ++ [{| th_state := TUnforced lv; th_dbg := dbg |}]) (N.of_nat (length a1)).
Proof.
  intros Hl [H1 H2]. eapply AG_unforced.
  - rewrite Nat2N.id, nth_error_app2, Nat.sub_diag; [reflexivity|lia].
  - rewrite Nat2N.id, Hl, nth_error_app2, Nat.sub_diag; [reflexivity|lia].
  - reflexivity.
  - reflexivity.
  - reflexivity.
  - exact H1.
  - intros l Hin. apply (agree_lt a1 a2). apply H2. exact Hin.
  - intros l Hin. eapply agree_sext2; [apply sext2_app; exact Hl|]. apply H2. exact Hin.
Qed.

(* ---------------- the two-run logic ---------------- *)
Notation LM := (M lstate).
Definition SP2 := list thunk -> varmap lvalue -> list thunk -> varmap lvalue -> Prop.

Definition tr2 {A} (P : SP2) (m : LM A) (Q : A -> SP2) : Prop :=
  forall s1 s2 p, base s1 s2 -> P (l_store s1) (l_locals s1) (l_store s2) (l_locals s2) ->
    match m s1 p, m s2 p with
    | Ok (a1, s1', p1), Ok (a2, s2', p2) =>
        a1 = a2 /\ p1 = p2 /\ base s1' s2' /\ sext2 (l_store s1) (l_store s2) (l_store s1') (l_store s2') /\
        Q a1 (l_store s1') (l_locals s1') (l_store s2') (l_locals s2')
    | Err e1, Err e2 => e1 = e2
    | Panic x1, Panic x2 => x1 = x2
    | OutOfFuel, OutOfFuel => True
    | _, _ => False
    end.

Lemma tr2_false {A} (P : SP2) (m : LM A) Q : (forall a b c d, P a b c d -> False) -> tr2 P m Q.
Proof. intros H s1 s2 p _ HP. destruct (H _ _ _ _ HP). Qed.
Lemma tr2_conseq {A} (P P' : SP2) (m : LM A) (Q Q' : A -> SP2) :
  (forall a b c d, P' a b c d -> P a b c d) -> (forall x a b c d, Q x a b c d -> Q' x a b c d) -> tr2 P m Q -> tr2 P' m Q'.
Proof.
  intros HP HQ H s1 s2 p Hb HP'. specialize (H s1 s2 p Hb (HP _ _ _ _ HP')).
  destruct (m s1 p) as [[[a1 t1] p1]| | |], (m s2 p) as [[[a2 t2] p2]| | |]; try exact H.
  destruct H as (E1 & E2 & B & S & HQ1). auto 8.
Qed.
Lemma tr2_ret {A} (P : SP2) (a : A) (Q : A -> SP2) : (forall a1 b1 c1 d1, P a1 b1 c1 d1 -> Q a a1 b1 c1 d1) -> tr2 P (ret a) Q.
Proof. intros H s1 s2 p Hb HP. unfold ret. split; [reflexivity|]. split; [reflexivity|]. split; [exact Hb|]. split; [apply sext2_refl|auto]. Qed.
Lemma tr2_bind {A B} (P : SP2) (m : LM A) (Q : A -> SP2) (f : A -> LM B) (R : B -> SP2) :
  tr2 P m Q -> (forall a, tr2 (Q a) (f a) R) -> tr2 P (bind m f) R.
Proof.
  intros Hm Hf s1 s2 p Hb HP. specialize (Hm s1 s2 p Hb HP). unfold bind.
  destruct (m s1 p) as [[[a1 t1] p1]| | |], (m s2 p) as [[[a2 t2] p2]| | |]; try exact Hm; try contradiction.
  destruct Hm as (-> & -> & B1 & S1 & HQ). specialize (Hf a2 t1 t2 p2 B1 HQ).
  destruct (f a2 t1 p2) as [[[b1 u1] q1]| | |], (f a2 t2 p2) as [[[b2 u2] q2]| | |]; try exact Hf.
  destruct Hf as (E1 & E2 & B2 & S2 & HR). split; [exact E1|]. split; [exact E2|]. split; [exact B2|]. split; [eapply sext2_trans; eassumption|exact HR].
Qed.
Definition stable2 (F : list thunk -> list thunk -> Prop) : Prop := forall a1 a2 b1 b2, sext2 a1 a2 b1 b2 -> F a1 a2 -> F b1 b2.
Lemma tr2_frame {A} (F : list thunk -> list thunk -> Prop) (P : SP2) (m : LM A) (Q : A -> SP2) :
  stable2 F -> tr2 P m Q -> tr2 (fun a b c d => P a b c d /\ F a c) m (fun x a b c d => Q x a b c d /\ F a c).
Proof.
  intros HF H s1 s2 p Hb [HP HFs]. specialize (H s1 s2 p Hb HP).
  destruct (m s1 p) as [[[a1 t1] p1]| | |], (m s2 p) as [[[a2 t2] p2]| | |]; try exact H.
  destruct H as (E1 & E2 & B & S & HQ1). split; [exact E1|]. split; [exact E2|]. split; [exact B|]. split; [exact S|]. split; [exact HQ1|].
  eapply HF; eassumption.
Qed.
Lemma tr2_exists {A X} (P : X -> SP2) (m : LM A) Q : (forall x, tr2 (P x) m Q) -> tr2 (fun a b c d => exists x, P x a b c d) m Q.
Proof. intros H s1 s2 p Hb [x HP]. exact (H x s1 s2 p Hb HP). Qed.
Lemma tr2_ctx {A} c (P : SP2) (m : LM A) Q : tr2 P m Q -> tr2 P (ctx_wrap c m) Q.
Proof.
  intros H s1 s2 p Hb HP. specialize (H s1 s2 p Hb HP). unfold ctx_wrap.
  destruct (m s1 p) as [[[a1 t1] p1]| | |], (m s2 p) as [[[a2 t2] p2]| | |]; try exact H; try contradiction. congruence.
Qed.
Lemma tr2_lift {A} (P : SP2) (r : res A) : tr2 P (lift r) (fun _ => P).
Proof.
  intros s1 s2 p Hb HP. unfold lift. destruct r; try reflexivity. split; [reflexivity|]. split; [reflexivity|]. split; [exact Hb|]. split; [apply sext2_refl|exact HP].
Qed.
Lemma tr2_fail {A} (P : SP2) e (Q : A -> SP2) : tr2 P (fail e) Q. Proof. intros s1 s2 p _ _. reflexivity. Qed.
Lemma tr2_panic {A} (P : SP2) x (Q : A -> SP2) : tr2 P (panic x) Q. Proof. intros s1 s2 p _ _. reflexivity. Qed.
Lemma tr2_oof {A} (P : SP2) (Q : A -> SP2) : tr2 P out_of_fuel Q. Proof. intros s1 s2 p _ _. exact I. Qed.
Lemma tr2_poll (P : SP2) l : tr2 P (lpoll l) (fun _ => P).
Proof.
  intros s1 s2 p Hb HP. unfold lpoll, poll. destruct (poll_step l p) as [q c]. destruct c; [reflexivity|].
  split; [reflexivity|]. split; [reflexivity|]. split; [exact Hb|]. split; [apply sext2_refl|exact HP].
Qed.
Lemma tr2_mapM {A B} (I : SP2) (R : B -> list thunk -> list thunk -> Prop) (f : A -> LM B) l :
  (forall y, stable2 (R y)) ->
  (forall x, In x l -> tr2 I (f x) (fun y a b c d => I a b c d /\ R y a c)) ->
  tr2 I (Exec.mapM f l) (fun ys a b c d => I a b c d /\ Forall (fun y => R y a c) ys).
Proof.
  intros HR. induction l as [|x l IH]; intros Hf; cbn [Exec.mapM].
  - apply tr2_ret. intros a b c d HI. split; [exact HI|constructor].
  - eapply tr2_bind; [apply Hf; left; reflexivity|]. intros y. cbv beta.
    eapply tr2_bind.
    + apply (tr2_frame (R y)); [apply HR|]. apply IH. intros x' Hx'. apply Hf. right. exact Hx'.
    + intros ys. apply tr2_ret. intros a b c d [[HI Hys] Hy]. split; [exact HI|]. constructor; assumption.
Qed.
Lemma tr2_iterM {A} (I : SP2) (f : A -> LM unit) l :
  (forall x, In x l -> tr2 I (f x) (fun _ => I)) -> tr2 I (iterM f l) (fun _ => I).
Proof.
  induction l as [|x l IH]; intros Hf; cbn [iterM].
  - apply tr2_ret. auto.
  - eapply tr2_bind; [apply Hf; left; reflexivity|]. intros u. cbv beta. apply IH. intros x' Hx'. apply Hf. right. exact Hx'.
Qed.

(* ---------------- primitives on the graph and the parameter buffer ---------------- *)
Lemma tr2_lpush_param (P : SP2) v : tr2 P (lpush_param v) (fun _ => P).
Proof.
  intros s1 s2 p (B1 & B2 & B3) HP. unfold lpush_param, bind, get_state, set_lparams, Lazy.upd, modify. cbn [l_store l_locals].
  split; [reflexivity|]. split; [reflexivity|]. split; [repeat split; cbn [l_graph l_params l_store]; congruence|]. split; [apply sext2_refl|exact HP].
Qed.
Lemma tr2_ldrain_params (P : SP2) n : tr2 P (ldrain_params n) (fun _ => P).
Proof.
  intros s1 s2 p (B1 & B2 & B3) HP. unfold ldrain_params, bind, get_state. rewrite <- B2.
  destruct (Nat.ltb (length (l_params s1)) n); [reflexivity|]. unfold set_lparams, Lazy.upd, modify, ret. cbn [l_store l_locals].
  split; [reflexivity|]. split; [reflexivity|]. split; [repeat split; cbn [l_graph l_params l_store]; congruence|]. split; [apply sext2_refl|exact HP].
Qed.
Section Call2.
  Variable call : ident -> graph -> list value -> res (value * graph).
  Lemma tr2_lcall (P : SP2) f args : tr2 P (lcall_function call f args) (fun _ => P).
  Proof.
    intros s1 s2 p (B1 & B2 & B3) HP. unfold lcall_function, bind, get_state. rewrite <- B1.
    destruct (call f (l_graph s1) args) as [[v g']|e|x|]; try reflexivity. unfold set_lgraph, Lazy.upd, modify, ret. cbn [l_store l_locals].
    split; [reflexivity|]. split; [reflexivity|]. split; [repeat split; cbn [l_graph l_params l_store]; congruence|]. split; [apply sext2_refl|exact HP].
  Qed.
End Call2.
