(* Proofs/SlocErase.v — C07: what the spec-side functions `sloc` / `block_loc` / `item_loc` of
   Spec/Render.v (the AST the round-trip theorems say the parser returns) change in the AST they are
   given.  EXACTLY four things:
     1. every location;
     2. the resolution fields of captures (quantifier, file index, stanza index: reset to the
        unresolved values QZero / u32_max / u32_max the parser always writes) — as for expressions
        (`rloc_erase`) — and, for a stanza, st_full_file_idx (reset to u32_max);
     3. the derived text of a `node` statement (reset to []: the parser does not produce it);
     4. the NUMBER of every scan arm: the arm written with regex `pat tbl idx` gets the next free
        number in order of appearance, starting at k.  The regex itself is kept: relative to any
        table that holds the statement's patterns from position k on, the renumbered arms denote
        the patterns that were written (`sloc_keeps_patterns`).
   `erase_stmt_locs` erases 1–4 (arm numbers become 0); erasing the output of `sloc` gives the erased
   input. *)
From TSG Require Import Model.Parser Spec.Render Proofs.BaseFacts Proofs.ParseRender Proofs.ParseRenderStmt.

Definition erase_var_locs (v : variable) : variable :=
  match v with VarU n _ => VarU n (0, 0) | VarS sc n _ => VarS (erase_locs sc) n (0, 0) end.
Definition erase_attr_locs (a : attr) : attr := match a with Attr n v => Attr n (erase_locs v) end.
Definition erase_cond_locs (c : cond) : cond :=
  match c with
  | CSome e _ => CSome (erase_locs e) (0, 0)
  | CNone e _ => CNone (erase_locs e) (0, 0)
  | CBool e _ => CBool (erase_locs e) (0, 0)
  end.
Fixpoint erase_stmt_locs (s : stmt) : stmt :=
  match s with
  | SLet v e _ => SLet (erase_var_locs v) (erase_locs e) (0, 0)
  | SVar v e _ => SVar (erase_var_locs v) (erase_locs e) (0, 0)
  | SSet v e _ => SSet (erase_var_locs v) (erase_locs e) (0, 0)
  | SNode v _ _ => SNode (erase_var_locs v) [] (0, 0)
  | SAttrNode n a _ => SAttrNode (erase_locs n) (map erase_attr_locs a) (0, 0)
  | SEdge a b _ => SEdge (erase_locs a) (erase_locs b) (0, 0)
  | SAttrEdge a b at_ _ => SAttrEdge (erase_locs a) (erase_locs b) (map erase_attr_locs at_) (0, 0)
  | SScan v arms _ =>
      SScan (erase_locs v)
        (map (fun arm : N * list stmt * loc => match arm with (_, b, _) => (0, map erase_stmt_locs b, (0, 0)) end) arms) (0, 0)
  | SPrint vs _ => SPrint (map erase_locs vs) (0, 0)
  | SIf arms _ =>
      SIf (map (fun arm : list cond * list stmt * loc =>
                  match arm with (c, b, _) => (map erase_cond_locs c, map erase_stmt_locs b, (0, 0)) end) arms) (0, 0)
  | SFor v _ e b _ => SFor v (0, 0) (erase_locs e) (map erase_stmt_locs b) (0, 0)
  end.
Definition erase_arm_locs (arm : N * list stmt * loc) : N * list stmt * loc :=
  match arm with (_, b, _) => (0, map erase_stmt_locs b, (0, 0)) end.
Definition erase_ifarm_locs (arm : list cond * list stmt * loc) : list cond * list stmt * loc :=
  match arm with (c, b, _) => (map erase_cond_locs c, map erase_stmt_locs b, (0, 0)) end.

Definition erase_item_locs (it : item) : item :=
  match it with
  | IGlobal g => IGlobal {| gl_name := gl_name g; gl_quant := gl_quant g; gl_default := gl_default g; gl_loc := (0, 0) |}
  | IInherit n => IInherit n
  | IShorthand h => IShorthand {| sh_name := sh_name h; sh_var := sh_var h; sh_vloc := (0, 0);
                                  sh_attrs := map erase_attr_locs (sh_attrs h); sh_loc := (0, 0) |}
  | IStanza q z => IStanza q {| st_stmts := map erase_stmt_locs (st_stmts z); st_full_stanza_idx := st_full_stanza_idx z;
                                st_full_file_idx := u32_max; st_start := (0, 0) |}
  end.

(* ---------------- variables, attributes, conditions, print arguments ---------------- *)
Lemma vloc_erase L p v : erase_var_locs (vloc L p v) = erase_var_locs v.
Proof.
  destruct v as [n l|sc n l]; unfold vloc; cbn [var_expr rloc expr_as_variable erase_var_locs]; [reflexivity|].
  rewrite rloc_erase. reflexivity.
Qed.

Lemma attr_loc_erase L p a : erase_attr_locs (attr_loc L p a) = erase_attr_locs a.
Proof.
  destruct a as [n v]. unfold attr_loc. destruct (attr_bare L (Attr n v)) eqn:B.
  - unfold attr_bare in B. destruct v; try discriminate. reflexivity.
  - cbn [erase_attr_locs]. rewrite rloc_erase. reflexivity.
Qed.
Lemma attrs_loc_erase l : forall L i p, map erase_attr_locs (attrs_loc L i p l) = map erase_attr_locs l.
Proof. induction l as [|a l IH]; intros L i p; cbn [attrs_loc map]; [reflexivity|]. rewrite attr_loc_erase, IH. reflexivity. Qed.

Lemma cond_loc_erase L p c : erase_cond_locs (cond_loc L p c) = erase_cond_locs c.
Proof. destruct c; cbn [cond_loc erase_cond_locs]; rewrite rloc_erase; reflexivity. Qed.
Lemma conds_loc_erase l : forall L i p, map erase_cond_locs (conds_loc L i p l) = map erase_cond_locs l.
Proof. induction l as [|c l IH]; intros L i p; cbn [conds_loc map]; [reflexivity|]. rewrite cond_loc_erase, IH. reflexivity. Qed.

Lemma print_loc_erase l : forall L i p, map erase_locs (print_loc L i p l) = map erase_locs l.
Proof. induction l as [|v l IH]; intros L i p; cbn [print_loc map]; [reflexivity|]. rewrite rloc_erase, IH. reflexivity. Qed.

Section Stmts.
  Variable tbl : list str.

  (* `sloc` on the three block-carrying statements, through the named list functions (by conversion) *)
  Lemma sloc_scan_eq L p k val arms l :
    sloc tbl L p k (SScan val arms l) =
    let p1 := pos_after p (t_scan ++ Gs L 0 true (starts_word val)) in
    let p2 := pos_after p1 (rtext (sub L 1) val ++ G L 2 ++ [123] ++ G L 3) in
    SScan (rloc (sub L 1) p1 val) (arms_loc tbl p (sub L 4) 0 p2 k arms) p.
  Proof. reflexivity. Qed.
  Lemma sloc_if_eq L p k c0 b0 l0 rest l :
    sloc tbl L p k (SIf ((c0, b0, l0) :: rest) l) =
    let p1 := pos_after p (t_if ++ Gs L 0 true (conds_starts_word c0)) in
    let p2 := pos_after p1 (conds_text (sub L 1) 0 c0) in
    SIf ((conds_loc (sub L 1) 0 p1 c0, block_loc tbl (sub L 2) p2 k b0, p) ::
         ifrest_loc tbl (sub L 3) 0 (pos_after p2 (block_text tbl (sub L 2) b0)) (k + length (stmts_pats tbl b0))%nat rest) p.
  Proof. reflexivity. Qed.
  Lemma sloc_for_eq L p k v vl val body l :
    sloc tbl L p k (SFor v vl val body l) =
    let pv := pos_after p (t_for ++ Gs L 0 true true) in
    let p2 := pos_after pv (v ++ Gs L 1 true true ++ t_in ++ Gs L 2 true (starts_word val)) in
    let p3 := pos_after p2 (rtext (sub L 3) val ++ G L 4) in
    SFor v pv (rloc (sub L 3) p2 val) (block_loc tbl (sub L 5) p3 k body) p.
  Proof. reflexivity. Qed.

  Definition sloc_erases (st : stmt) : Prop :=
    forall L p k, erase_stmt_locs (sloc tbl L p k st) = erase_stmt_locs st.

  Lemma stmts_loc_erase l : Forall sloc_erases l ->
    forall L i p k, map erase_stmt_locs (stmts_loc tbl L i p k l) = map erase_stmt_locs l.
  Proof.
    induction 1 as [|st l H Hl IH]; intros L i p k; cbn [stmts_loc map]; [reflexivity|]. rewrite H, IH. reflexivity.
  Qed.
  Lemma block_loc_erase l : Forall sloc_erases l ->
    forall L p k, map erase_stmt_locs (block_loc tbl L p k l) = map erase_stmt_locs l.
  Proof. intros H L p k. unfold block_loc. apply stmts_loc_erase. exact H. Qed.

  Lemma arms_loc_erase kl arms : Forall (fun arm : N * list stmt * loc => Forall sloc_erases (snd (fst arm))) arms ->
    forall L i q k, map erase_arm_locs (arms_loc tbl kl L i q k arms) = map erase_arm_locs arms.
  Proof.
    induction 1 as [|[[idx body] al] arms Hb Hr IH]; intros L i q k; cbn [arms_loc map]; [reflexivity|].
    cbn [fst snd] in Hb. rewrite IH. cbn [erase_arm_locs]. rewrite (block_loc_erase body Hb). reflexivity.
  Qed.
  Lemma ifrest_loc_erase rest : Forall (fun arm : list cond * list stmt * loc => Forall sloc_erases (snd (fst arm))) rest ->
    forall L i q k, map erase_ifarm_locs (ifrest_loc tbl L i q k rest) = map erase_ifarm_locs rest.
  Proof.
    induction 1 as [|[[c b] al] rest Hb Hr IH]; intros L i q k; cbn [ifrest_loc map]; [reflexivity|].
    cbn [fst snd] in Hb. destruct c as [|c1 c]; cbn [map]; rewrite IH; cbn [erase_ifarm_locs map].
    - rewrite (block_loc_erase b Hb). reflexivity.
    - rewrite (block_loc_erase b Hb).
      change (erase_cond_locs (cond_loc _ _ c1) :: map erase_cond_locs (conds_loc _ _ _ c))
        with (map erase_cond_locs (conds_loc (sub L (4 * i + 3)) 0
                (pos_after (pos_after q (G L (4 * i + 1))) (t_elif ++ Gs L (4 * i + 2) true (conds_starts_word (c1 :: c)))) (c1 :: c))).
      rewrite conds_loc_erase. reflexivity.
  Qed.

  Theorem sloc_erase st : sloc_erases st.
  Proof.
    induction st using stmt_ind'; intros L p k.
    - cbn [sloc assign_locs fst snd erase_stmt_locs]. rewrite vloc_erase, rloc_erase. reflexivity.
    - cbn [sloc assign_locs fst snd erase_stmt_locs]. rewrite vloc_erase, rloc_erase. reflexivity.
    - cbn [sloc assign_locs fst snd erase_stmt_locs]. rewrite vloc_erase, rloc_erase. reflexivity.
    - cbn [sloc erase_stmt_locs]. rewrite vloc_erase. reflexivity.
    - cbn [sloc erase_stmt_locs]. rewrite rloc_erase, attrs_loc_erase. reflexivity.
    - cbn [sloc erase_stmt_locs]. rewrite !rloc_erase. reflexivity.
    - cbn [sloc erase_stmt_locs]. rewrite !rloc_erase, attrs_loc_erase. reflexivity.
    - rewrite sloc_scan_eq. cbv zeta. cbn [erase_stmt_locs]. rewrite rloc_erase.
      change (fun arm : N * list stmt * loc => match arm with (_, b, _) => (0, map erase_stmt_locs b, (0, 0)) end) with erase_arm_locs.
      rewrite (arms_loc_erase _ arms H). reflexivity.
    - cbn [sloc erase_stmt_locs]. rewrite print_loc_erase. reflexivity.
    - destruct arms as [|[[c0 b0] l0] rest]; [reflexivity|].
      rewrite sloc_if_eq. cbv zeta. cbn [erase_stmt_locs].
      change (fun arm : list cond * list stmt * loc => match arm with (c, b, _) => (map erase_cond_locs c, map erase_stmt_locs b, (0, 0)) end)
        with erase_ifarm_locs.
      inversion H as [|? ? Hb0 Hrest]; subst. cbn [fst snd] in Hb0.
      cbn [map]. rewrite (ifrest_loc_erase rest Hrest). cbn [erase_ifarm_locs].
      rewrite conds_loc_erase, (block_loc_erase b0 Hb0). reflexivity.
    - rewrite sloc_for_eq. cbv zeta. cbn [erase_stmt_locs]. rewrite rloc_erase, (block_loc_erase body H). reflexivity.
  Qed.

  Theorem block_loc_erase_all l L p k : map erase_stmt_locs (block_loc tbl L p k l) = map erase_stmt_locs l.
  Proof. apply block_loc_erase. apply Forall_forall. intros st _. apply sloc_erase. Qed.

  (* ---------------- items ---------------- *)
  Lemma item_loc_erase L p k it : erase_item_locs (item_loc tbl L p k it) = erase_item_locs it.
  Proof.
    destruct it as [g|n|h|q z]; cbn [item_loc erase_item_locs gl_name gl_quant gl_default sh_name sh_var sh_attrs st_stmts st_full_stanza_idx];
      try reflexivity.
    - rewrite attrs_loc_erase. reflexivity.
    - rewrite block_loc_erase_all. reflexivity.
  Qed.
  Lemma items_loc_erase X l : forall L i p k, map erase_item_locs (items_loc tbl X L i p k l) = map erase_item_locs l.
  Proof. induction l as [|it l IH]; intros L i p k; cbn [items_loc map]; [reflexivity|]. rewrite item_loc_erase, IH. reflexivity. Qed.
  Theorem file_items_loc_erase X L l : map erase_item_locs (file_items_loc tbl X L l) = map erase_item_locs l.
  Proof. unfold file_items_loc. apply items_loc_erase. Qed.
End Stmts.

(* ---------------- the renumbered scan arms denote the patterns that were written ---------------- *)
Section Patterns.
  Variables tbl tbl' : list str.

  (* tbl' holds the patterns ps from position k on *)
  Definition pats_at (k : nat) (ps : list str) : Prop :=
    forall j, (j < length ps)%nat -> pat tbl' (N.of_nat (k + j)) = nth j ps [].

  Lemma pats_at_app k a b : pats_at k (a ++ b) -> pats_at k a /\ pats_at (k + length a) b.
  Proof.
    intros H. split; intros j Hj.
    - rewrite (H j) by (rewrite app_length; lia). apply app_nth1. exact Hj.
    - replace (k + length a + j)%nat with (k + (length a + j))%nat by lia.
      rewrite (H (length a + j)%nat) by (rewrite app_length; lia). apply app_nth2_plus.
  Qed.
  Lemma pats_at_cons k x l : pats_at k (x :: l) -> pat tbl' (N.of_nat k) = x /\ pats_at (S k) l.
  Proof.
    intros H. split.
    - specialize (H 0%nat). cbn [length nth] in H. rewrite Nat.add_0_r in H. apply H. lia.
    - intros j Hj. replace (S k + j)%nat with (k + S j)%nat by lia. rewrite (H (S j)) by (cbn [length]; lia). reflexivity.
  Qed.

  Definition sloc_keeps (st : stmt) : Prop :=
    forall L p k, pats_at k (stmt_pats tbl st) -> stmt_pats tbl' (sloc tbl L p k st) = stmt_pats tbl st.

  Lemma stmts_loc_keeps l : Forall sloc_keeps l ->
    forall L i p k, pats_at k (stmts_pats tbl l) -> stmts_pats tbl' (stmts_loc tbl L i p k l) = stmts_pats tbl l.
  Proof.
    induction 1 as [|st l H Hl IH]; intros L i p k Hp; cbn [stmts_loc stmts_pats] in *; [reflexivity|].
    apply pats_at_app in Hp. destruct Hp as [H1 H2]. rewrite (H _ _ _ H1), (IH _ _ _ _ H2). reflexivity.
  Qed.
  Lemma block_loc_keeps l : Forall sloc_keeps l ->
    forall L p k, pats_at k (stmts_pats tbl l) -> stmts_pats tbl' (block_loc tbl L p k l) = stmts_pats tbl l.
  Proof. intros H L p k Hp. unfold block_loc. apply stmts_loc_keeps; assumption. Qed.

  Lemma arms_loc_keeps kl arms : Forall (fun arm : N * list stmt * loc => Forall sloc_keeps (snd (fst arm))) arms ->
    forall L i q k, pats_at k (arms_pats tbl arms) -> arms_pats tbl' (arms_loc tbl kl L i q k arms) = arms_pats tbl arms.
  Proof.
    induction 1 as [|[[idx body] al] arms Hb Hr IH]; intros L i q k Hp; cbn [arms_loc arms_pats] in *; [reflexivity|].
    cbn [fst snd] in Hb. apply pats_at_cons in Hp. destruct Hp as [H0 Hp]. apply pats_at_app in Hp. destruct Hp as [H1 H2].
    rewrite H0, (block_loc_keeps body Hb _ _ _ H1), (IH _ _ _ _ H2). reflexivity.
  Qed.
  Lemma ifrest_loc_keeps rest : Forall (fun arm : list cond * list stmt * loc => Forall sloc_keeps (snd (fst arm))) rest ->
    forall L i q k, pats_at k (ifarms_pats tbl rest) -> ifarms_pats tbl' (ifrest_loc tbl L i q k rest) = ifarms_pats tbl rest.
  Proof.
    induction 1 as [|[[c b] al] rest Hb Hr IH]; intros L i q k Hp; cbn [ifrest_loc ifarms_pats] in *; [reflexivity|].
    cbn [fst snd] in Hb. apply pats_at_app in Hp. destruct Hp as [H1 H2].
    destruct c as [|c1 c]; cbn [ifarms_pats]; rewrite (block_loc_keeps b Hb _ _ _ H1), (IH _ _ _ _ H2); reflexivity.
  Qed.

  Lemma stmt_pats_scan v arms l : stmt_pats tbl (SScan v arms l) = arms_pats tbl arms.
  Proof. reflexivity. Qed.
  Lemma stmt_pats_if arms l : stmt_pats tbl (SIf arms l) = ifarms_pats tbl arms.
  Proof. reflexivity. Qed.
  Lemma stmt_pats_for v vl val body l : stmt_pats tbl (SFor v vl val body l) = stmts_pats tbl body.
  Proof. reflexivity. Qed.

  Theorem sloc_keeps_all st : sloc_keeps st.
  Proof.
    induction st using stmt_ind'; intros L p k Hp; try reflexivity.
    - rewrite sloc_scan_eq. cbv zeta. change (stmt_pats tbl' (SScan ?a ?b ?c)) with (arms_pats tbl' b).
      rewrite stmt_pats_scan in *. apply arms_loc_keeps; assumption.
    - destruct arms as [|[[c0 b0] l0] rest]; [reflexivity|].
      rewrite sloc_if_eq. cbv zeta. change (stmt_pats tbl' (SIf ?b ?c)) with (ifarms_pats tbl' b).
      rewrite stmt_pats_if in *. cbn [ifarms_pats] in *.
      inversion H as [|? ? Hb0 Hrest]; subst. cbn [fst snd] in Hb0.
      apply pats_at_app in Hp. destruct Hp as [H1 H2].
      rewrite (block_loc_keeps b0 Hb0 _ _ _ H1), (ifrest_loc_keeps rest Hrest _ _ _ _ H2). reflexivity.
    - rewrite sloc_for_eq. cbv zeta. change (stmt_pats tbl' (SFor ?a ?b ?c ?d ?e)) with (stmts_pats tbl' d).
      rewrite stmt_pats_for in *. apply block_loc_keeps; assumption.
  Qed.

  Theorem block_loc_keeps_all l L p k :
    pats_at k (stmts_pats tbl l) -> stmts_pats tbl' (block_loc tbl L p k l) = stmts_pats tbl l.
  Proof. apply block_loc_keeps. apply Forall_forall. intros st _. apply sloc_keeps_all. Qed.
End Patterns.

(* the table the parser returns: the patterns seen before, then those of the statement *)
Lemma pats_at_table pre ps post : pats_at (pre ++ ps ++ post) (length pre) ps.
Proof.
  intros j Hj. unfold pat. rewrite Nat2N.id, app_nth2_plus. apply app_nth1. exact Hj.
Qed.
