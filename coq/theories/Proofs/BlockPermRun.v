(* Proofs/BlockPermRun.v — C08, part 9: the whole-run statement with ONE fuel parameter, and the failure direction.
   lazy_run_perm (Proofs/BlockPermEval.v) gives the permuted run with the same execution fuel and a large evaluation
   fuel; fuel monotonicity (Proofs/BlockPermFuel.v) turns this into: from some fuel on, run_lazy on the permuted list
   succeeds with an isomorphic graph; and a run that fails (error or panic) for one order cannot succeed for another
   order, whatever the fuel. *)
From Coq Require Import Permutation.
From TSG Require Import Model.Lazy Proofs.MonadFacts Proofs.SLForce Proofs.BlockPermRen Proofs.BlockPermExec Proofs.BlockPermGraph Proofs.BlockPermEval Proofs.BlockPermFuel.

Section Run.
  Context {rx : Type}.
  Variables (t : tree) (fl : file) (supplied : globals) (regexes : list rx)
            (find : rx -> str -> option (list (option (N * N))))
            (call : ident -> graph -> list value -> res (value * graph)).
  Variable okfn : ident -> Prop.
  Hypothesis Hcall : forall f, okfn f -> call_ok call f.
  Variable g0 : graph.
  Hypothesis Hcl : gclosed (N.of_nat (length g0)) g0.
  Hypothesis Hglob : forall glob, check_globals (f_globals fl) (globals_nested supplied) = Ok glob ->
     forall name v, globals_get glob name = Some v -> vall (fun i => i < N.of_nat (length g0)) v.

  Notation run fuel ms := (run_lazy t fl config0 supplied None regexes find call fuel ms g0).

  Lemma bstep_mono glob F F' pm : (F <= F')%nat -> mref (bstep t fl config0 glob regexes find call F pm) (bstep t fl config0 glob regexes find call F' pm).
  Proof. intros H. unfold bstep. destruct (nth_error (f_stanzas fl) (N.to_nat (fst pm))); [apply lexec_stanza_mono, H|apply mref_refl]. Qed.

  (* more execution fuel does not change a run that did not run out of fuel *)
  Lemma run_lazy2_exec_mono F F' Fe ms ls p : (F <= F')%nat ->
    run_lazy2 t fl config0 supplied None regexes find call F Fe ms g0 = Ok (ls, p) -> run_lazy2 t fl config0 supplied None regexes find call F' Fe ms g0 = Ok (ls, p).
  Proof.
    intros H. unfold run_lazy2. destruct (check_globals (f_globals fl) (globals_nested supplied)) as [glob|e|x|]; try discriminate.
    assert (Hm : mref (iterM (bstep t fl config0 glob regexes find call F) ms ;;; evaluate_phase t fl call Fe) (iterM (bstep t fl config0 glob regexes find call F') ms ;;; evaluate_phase t fl call Fe)).
    { apply mref_bind; [apply mref_iterM; intros pm; apply bstep_mono, H|intros; apply mref_refl]. }
    destruct (Hm (linit g0) (polls0 None)) as [E|E]; [rewrite E; discriminate|]. rewrite E. auto.
  Qed.

  (* THE WHOLE-RUN THEOREM on the fragment, one fuel parameter *)
  Theorem lazy_run_perm_fuel fuel ms ms' ls p : Permutation ms ms' -> Forall (pm_ok fl okfn) ms ->
    run fuel ms = Ok (ls, p) ->
    exists r r', (forall i, r' (r i) = i) /\ (forall i, r (r' i) = i) /\ (forall i, i < N.of_nat (length g0) -> r i = i) /\
      exists fuel0, forall fuel', (fuel0 <= fuel')%nat -> exists ls' p', run fuel' ms' = Ok (ls', p') /\ graph_iso r (l_graph ls) (l_graph ls').
  Proof.
    intros HP Hok H. destruct (lazy_run_perm t fl supplied regexes find call okfn fuel ms ms' g0 ls p Hcall Hcl Hglob HP Hok H) as (r & r' & I1 & I2 & Fx & F0 & HF).
    exists r, r'. split; [exact I1|]. split; [exact I2|]. split; [exact Fx|]. exists (Nat.max fuel F0). intros fuel' Hf.
    destruct (HF (fuel' + default_eval_fuel)%nat ltac:(lia)) as (ls' & p' & E & Hiso). exists ls', p'. split; [|exact Hiso].
    rewrite run_lazy_2. apply (run_lazy2_exec_mono fuel fuel' _ ms' ls' p' ltac:(lia) E).
  Qed.

  (* the failure direction: an error or a panic for one order excludes success for every other order, at every fuel *)
  Theorem lazy_run_perm_fail fuel ms ms' : Permutation ms ms' -> Forall (pm_ok fl okfn) ms ->
    (forall r, run fuel ms <> Ok r) -> run fuel ms <> OutOfFuel -> forall fuel' r, run fuel' ms' <> Ok r.
  Proof.
    intros HP Hok Hno Hoof fuel' [ls' p'] E'.
    assert (Hok' : Forall (pm_ok fl okfn) ms') by (apply Forall_forall; intros x Hx; rewrite Forall_forall in Hok; apply Hok; eapply Permutation_in; [apply Permutation_sym, HP|exact Hx]).
    destruct (lazy_run_perm_fuel fuel' ms' ms ls' p' (Permutation_sym HP) Hok' E') as (r0 & r0' & _ & _ & _ & fuel0 & HF).
    destruct (HF (Nat.max fuel fuel0) ltac:(lia)) as (ls & p & E & _).
    destruct (run_lazy_fuel_mono t fl config0 supplied None regexes find call fuel (Nat.max fuel fuel0) ms g0 ltac:(lia)) as [Eo|Eo]; [exact (Hoof Eo)|].
    rewrite E in Eo. exact (Hno _ Eo).
  Qed.
End Run.
