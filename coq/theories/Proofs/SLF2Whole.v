(* Proofs/SLF2Whole.v — C02, failure direction with scoped variables, part 6: control flow, statements, stanzas, files and
   the theorem.  `fsim2 ms ml` (Proofs/SLF2Stmt.v): whenever ms FAILS with an order-independent error from related states,
   ml does not return Ok or leaves a DOOMED state.  A sequence fails in its first part (then the rest of the lazy sequence
   only has to preserve `Doomed2`: `dpres2`, true of every computation of the lazy interpreter on statements that satisfy
   the static condition `sdef`) or its first part is simulated (`xsim2`, success direction, together with the lazy-only
   invariant: `xsimF`) and the rest fails.
   Whole runs: strict execution fails => the lazy execution phase fails or ends in a doomed state => lazy execution
   (execution phase, then evaluation phase) never returns Ok. *)
From TSG Require Import Model.Lazy Model.Stdlib Proofs.BaseFacts Proofs.Containers Proofs.MonadFacts Proofs.StrictMeta
  Proofs.SLGraph Proofs.SLForce Proofs.SLExpr Proofs.SLConv Proofs.SLStmt Proofs.StrictLazy Proofs.Extends Proofs.Scoped
  Proofs.SL2Force Proofs.SL2Expr Proofs.SL2Stmt Proofs.SL2Whole Proofs.SLFailGraph Proofs.SLFailStore Proofs.SLFailEval Proofs.SLFailExpr Proofs.SLFailStmt
  Proofs.SLF2Store Proofs.SLF2Jok Proofs.SLF2Eval Proofs.SLF2Expr Proofs.SLF2Stmt.
From TSG Require Proofs.NoPanicStrict Proofs.NoPanicLazy.

Section FailCtl2.
  Context {rx : Type}.
  Variables (t : tree) (fl : file) (glob : globals) (regexes : list rx)
            (find : rx -> str -> option (list (option (N * N))))
            (call : ident -> graph -> list value -> res (value * graph)).
  Variable okfn : ident -> Prop.
  Variable purev : ident -> bool.
  Hypothesis Hpure : forall f, okfn f -> pure_fn call f.
  Hypothesis Hperr : forall f, okfn f -> pure_err_fn call f.
  Hypothesis Hcall : call_graph_ext call.
  Variable D : ident -> N -> Prop.
  Hypothesis Hanti : forall name n a, inherited fl name = true -> D name n -> D name a -> In a (anc t n) -> False.
  Variable m : qmatch.
  Hypothesis Hsh : Forall (fun sh => purev (sh_var sh) = false /\ All (fattr2 okfn purev m) (sh_attrs sh)) (f_shorthands fl).

  Notation Rel2 := (Rel2 t fl call purev).
  Notation RelX2 := (RelX2 t fl call purev).
  Notation K := (K call fl D).
  Notation Doomed2 := (Doomed2 call t fl D).
  Notation dpres2 := (dpres2 call t fl D).
  Notation ck := (ck call t fl D).
  Notation pfr2 := (pfr2 t fl call D).
  Notation xsim2 := (xsim2 t fl call purev).
  Notation xsimU2 := (xsim2 (@anyQ unit unit)).
  Notation CD := (CD t fl call D).
  Notation RelF := (RelF t fl call purev D).
  Notation fsim2 := (fsim2 t fl call purev D).
  Notation fsimK := (fsimK t fl call purev D).
  Notation fexpr2' := (fexpr2 okfn purev m).
  Notation fattr2' := (fattr2 okfn purev m).
  Notation fstmt2' := (fstmt2 okfn purev m).
  Notation sdef' := (sdef fl D m).
  Notation env_rel' := (env_rel m).
  Notation eval' := (eval t fl glob call).
  Notation leval' := (leval t fl glob call).
  Notation exec_stmt' := (exec_stmt t fl config0 glob regexes find call).
  Notation lexec_stmt' := (lexec_stmt t fl config0 glob regexes find call).

  (* success direction together with the lazy-only invariant *)
  Definition xsimF {A B} (Q : A -> B -> Prop) (ms : M sstate A) (ml : M lstate B) : Prop := xsim2 Q ms ml /\ ck ml.
  Lemma xsimF_res {A B} (Q : A -> B -> Prop) ms ml ss p a ss' p' ls pl : xsimF Q ms ml -> ms ss p = Ok (a, ss', p') -> RelF ss ls -> nob pl ->
    lres (ml ls pl) (fun b ls' pl' => nob pl' /\ RelF ss' ls' /\ Q a b).
  Proof.
    intros [Hx Hk] Hs [HR HC] Hb. pose proof (Hx _ _ _ _ _ Hs ls pl HR Hb) as L. destruct (ml ls pl) as [[[b ls'] pl']|e|x|] eqn:E; cbn [lres] in *; auto.
    destruct L as (Hb' & HR' & HQ). split; [exact Hb'|]. split; [split; [exact HR'|eapply CD_ok; eauto]|exact HQ].
  Qed.

  (* ---------------- ck / dpres2 of the lazy interpreter ---------------- *)
  Lemma ck_pfr {B} (ml : M lstate B) : pfr2 ml -> ck ml. Proof. intros [H _]. exact H. Qed.
  Lemma ck_ret {B} (b : B) : ck (ret b). Proof. apply ck_pfr, pfr2_ret. Qed.
  Lemma ck_bind {A B} (ml : M lstate A) (kl : A -> M lstate B) : ck ml -> (forall a, ck (kl a)) -> ck (bind ml kl).
  Proof. intros H1 H2 w dt dc Hws. apply jk_bind; [apply H1, Hws|intros a; apply H2, Hws]. Qed.
  Lemma ck_ctx {B} c (ml : M lstate B) : ck ml -> ck (ctx_wrap c ml).
  Proof. intros H w dt dc Hws. apply jk_ctx, H, Hws. Qed.
  Lemma ck_mapM {X B} (f : X -> M lstate B) l : (forall x, ck (f x)) -> ck (mapM f l).
  Proof. intros H w dt dc Hws. apply jk_mapM. intros x. apply H, Hws. Qed.
  Lemma ck_iterM_All {X} (P : X -> Prop) (f : X -> M lstate unit) l : (forall x, P x -> ck (f x)) -> All P l -> ck (iterM f l).
  Proof. intros H HP w dt dc Hws. apply (jk_iterM_All call t fl D w dt dc _ P); [|exact HP]. intros x Px. apply (H x Px), Hws. Qed.
  Lemma ck_lexec_stmt fuel le s : sdef fl D (ll_match le) s -> ck (lexec_stmt' fuel le s).
  Proof. intros Hs w dt dc Hws. apply jk_lexec_stmt; assumption. Qed.
  Lemma ck_lexec_stanza fuel st q : All (sdef fl D q) (st_stmts st) -> ck (lexec_stanza t fl config0 glob regexes find call fuel st q).
  Proof. intros Hs w dt dc Hws. apply jk_lexec_stanza; assumption. Qed.
  Lemma ck_push_lstmt st : ck (push_lstmt st). Proof. intros w dt dc Hws. apply jk_push_lstmt. Qed.
  Lemma ck_ladd_node : ck ladd_node. Proof. intros w dt dc Hws. apply jk_ladd_node. Qed.
  Lemma ck_block fuel le body : All (sdef fl D (ll_match le)) body -> ck (iterM (fun st => lexec_stmt' fuel (ll_with_ctx le (ctx_update (ll_ctx le) st)) st) body).
  Proof. intros Hb. apply (ck_iterM_All (sdef fl D (ll_match le))); [|exact Hb]. intros st Hst. apply ck_lexec_stmt. exact Hst. Qed.
  Lemma ck_arm_block fuel le body : All (sdef fl D (ll_match le)) body ->
    ck (iterM (fun st => let c := ctx_update (ll_ctx le) st in ctx_wrap (CtxStmts [c]) (ctx_wrap CtxOther (lexec_stmt' fuel (ll_with_ctx le c) st))) body).
  Proof. intros Hb. apply (ck_iterM_All (sdef fl D (ll_match le))); [|exact Hb]. intros st Hst. cbv zeta. apply ck_ctx, ck_ctx, ck_lexec_stmt. exact Hst. Qed.

  Lemma dpres2_of_pfr2 {B} (ml : M lstate B) : pfr2 ml -> dpres2 ml.
  Proof. intros [H1 H2]. apply dpres2_of; [exact H1|]. intros s p a s' p' E. apply FrP_eq_prefix. eapply H2; eauto. Qed.
  Lemma dpres2_lexec_stmt fuel le s : sdef fl D (ll_match le) s -> dpres2 (lexec_stmt' fuel le s).
  Proof. intros Hs. apply dpres2_of; [apply ck_lexec_stmt, Hs|apply fr_lexec_stmt, Hcall]. Qed.
  Lemma dpres2_lexec_stanza fuel st q : All (sdef fl D q) (st_stmts st) -> dpres2 (lexec_stanza t fl config0 glob regexes find call fuel st q).
  Proof. intros Hs. apply dpres2_of; [apply ck_lexec_stanza, Hs|apply fr_lexec_stanza, Hcall]. Qed.
  Lemma dpres2_push_lstmt st : dpres2 (push_lstmt st).
  Proof. apply dpres2_of; [apply ck_push_lstmt|apply fr_push_lstmt]. Qed.
  Lemma dpres2_noresult {B} (ml : M lstate B) : (forall s p a s' p', ml s p <> Ok (a, s', p')) -> dpres2 ml.
  Proof. intros H. apply dpres2_of_pfr2, pfr2_noresult, H. Qed.
  Lemma dpres2_block fuel le body : All (sdef fl D (ll_match le)) body -> dpres2 (iterM (fun st => lexec_stmt' fuel (ll_with_ctx le (ctx_update (ll_ctx le) st)) st) body).
  Proof. intros Hb. apply (dpres2_iterM_All call t fl D (sdef fl D (ll_match le))); [|exact Hb]. intros st Hst. apply dpres2_lexec_stmt. exact Hst. Qed.
  Lemma dpres2_arm_block fuel le body : All (sdef fl D (ll_match le)) body ->
    dpres2 (iterM (fun st => let c := ctx_update (ll_ctx le) st in ctx_wrap (CtxStmts [c]) (ctx_wrap CtxOther (lexec_stmt' fuel (ll_with_ctx le c) st))) body).
  Proof. intros Hb. apply (dpres2_iterM_All call t fl D (sdef fl D (ll_match le))); [|exact Hb]. intros st Hst. cbv zeta. apply dpres2_ctx, dpres2_ctx, dpres2_lexec_stmt. exact Hst. Qed.
  Lemma dpres2_lscan_loop run' arms rs subject : (forall caps k r body l', nth_error arms k = Some (r, body, l') -> dpres2 (run' caps body)) ->
    forall sfuel i, dpres2 (lscan_loop find run' arms rs subject sfuel i).
  Proof.
    intros Hrun. induction sfuel as [|sfuel IH]; intros i; cbn [lscan_loop]; [apply dpres2_noresult; discriminate|].
    destruct (N.ltb i (N.of_nat (length subject))); [|apply dpres2_ret]. cbv zeta. apply dpres2_bind; [apply dpres2_of_pfr2, pfr2_lpoll_n|intros _].
    destruct (arm_select find rs (skipn (N.to_nat i) subject)) as [|k|k caps]; [apply dpres2_ret|apply dpres2_noresult; discriminate|].
    destruct (nth_error arms (N.to_nat k)) as [[[r body] l']|] eqn:E; [|apply dpres2_noresult; discriminate].
    apply dpres2_bind; [apply dpres2_of_pfr2, pfr2_lpush_frame|intros _]. apply dpres2_bind; [apply (Hrun _ _ _ _ _ E)|intros _].
    apply dpres2_bind; [apply dpres2_of_pfr2, pfr2_lpop_frame|intros _]. apply IH.
  Qed.
  Lemma dpres2_lif_loop test' run' arms : (forall c, dpres2 (test' c)) -> All (fun arm : list cond * list stmt * loc => dpres2 (run' (snd (fst arm)))) arms ->
    dpres2 (lif_loop test' run' arms).
  Proof.
    intros Ht. induction arms as [|[[conds body] l'] arms IH]; intros Hr; cbn [lif_loop]; [apply dpres2_ret|]. destruct Hr as [Hb Hr]. cbn [fst snd] in Hb.
    apply dpres2_bind.
    - induction conds as [|c conds IHc]; cbn [mapM]; [apply dpres2_ret|]. apply dpres2_bind; [apply Ht|intros b]. apply dpres2_bind; [exact IHc|intros bs; apply dpres2_ret].
    - intros bs. destruct (forallb (fun b => b) bs); [|apply IH, Hr].
      apply dpres2_bind; [apply dpres2_of_pfr2, pfr2_lpush_frame|intros _]. apply dpres2_bind; [exact Hb|intros _]. apply dpres2_of_pfr2, pfr2_lpop_frame.
  Qed.

  (* ---------------- closure properties of fsim2 ---------------- *)
  Lemma fsim2_noerr {A B} (ms : M sstate A) (ml : M lstate B) : (forall s p e, ms s p <> Err e) -> fsim2 ms ml.
  Proof. intros H ss p e Hs. exfalso. eapply H; eauto. Qed.
  Lemma fsim2_nok {A B} (ms : M sstate A) (ml : M lstate B) :
    (forall ss p e, ms ss p = Err e -> okerr2 e -> forall ls pl, RelF ss ls -> nob pl -> nok (ml ls pl)) -> fsim2 ms ml.
  Proof. intros H ss p e Hs Ho ls pl HR Hb. apply nok_nres. eapply H; eauto. Qed.
  Lemma fsim2_enok {A B} (ms : M sstate A) (ml : M lstate B) : enok2 t fl call purev D ms ml -> fsim2 ms ml.
  Proof. intros H. apply fsim2_nok. intros ss p e Hs Ho ls pl [[w HR] HC] Hb. apply (H _ _ _ Hs Ho w ls pl (proj1 HR) (rel_K t fl call purev D _ _ _ HR HC) Hb). Qed.
  Lemma fsim2_bind {A B C E} (Q : A -> B -> Prop) (ms : M sstate A) (ml : M lstate B) (ks : A -> M sstate C) (kl : B -> M lstate E) :
    xsimF Q ms ml -> fsim2 ms ml -> (forall b, dpres2 (kl b)) -> (forall a b, Q a b -> fsim2 (ks a) (kl b)) -> fsim2 (bind ms ks) (bind ml kl).
  Proof.
    intros Hx Hf Hd Hk ss p e H Ho ls pl HR Hb. apply bind_err in H. destruct H as [H|(a & s1 & p1 & H1 & H2)].
    - apply nres_bind. eapply nres_mono; [apply (Hf _ _ _ H Ho ls pl HR Hb)|]. intros b ls1 pl1 HD1. apply (Hd b ls1 pl1 HD1).
    - apply nres_bind. apply nres_of_lres. eapply lres_mono; [apply (xsimF_res Q ms ml _ _ _ _ _ ls pl Hx H1 HR Hb)|]. intros b ls1 pl1 (Hb1 & HR1 & HQ).
      apply (Hk a b HQ _ _ _ H2 Ho ls1 pl1 HR1 Hb1).
  Qed.
  Lemma fsim2_seq {C E} (ms : M sstate unit) (ml : M lstate unit) (ks : M sstate C) (kl : M lstate E) :
    xsimF (@anyQ unit unit) ms ml -> fsim2 ms ml -> dpres2 kl -> fsim2 ks kl -> fsim2 (ms ;;; ks) (ml ;;; kl).
  Proof. intros H1 H2 H3 H4. eapply fsim2_bind; [exact H1|exact H2|intros _; exact H3|intros _ _ _; exact H4]. Qed.
  Lemma fsim2_sctx {A B} c (ms : M sstate A) (ml : M lstate B) : fsim2 ms ml -> fsim2 (ctx_wrap c ms) ml.
  Proof. intros Hm ss p e H Ho. apply ctx_wrap_err in H. destruct H as (e0 & H & ->). apply okerr2_add_context in Ho. apply (Hm _ _ _ H Ho). Qed.
  Lemma fsim2_lctx {A B} c (ms : M sstate A) (ml : M lstate B) : fsim2 ms ml -> fsim2 ms (ctx_wrap c ml).
  Proof. intros Hm ss p e H Ho ls pl HR Hb. apply nres_ctx. apply (Hm _ _ _ H Ho ls pl HR Hb). Qed.
  Lemma fsim2_spoll {A B} l (ms : M sstate A) (ml : M lstate B) : fsim2 ms ml -> fsim2 (poll l ;;; ms) ml.
  Proof.
    intros Hm ss p e H Ho. apply bind_err in H. destruct H as [H|(u & s1 & p1 & H1 & H2)]; [exfalso; eapply poll_okerr; [exact H|apply Ho]|].
    apply poll_ok in H1. destruct H1 as (-> & -> & _). apply (Hm _ _ _ H2 Ho).
  Qed.
  Lemma fsim2_lpoll {A B} l (ms : M sstate A) (ml : M lstate B) : fsim2 ms ml -> fsim2 ms (lpoll l ;;; ml).
  Proof.
    intros Hm ss p e H Ho ls pl HR Hb. apply nres_bind. unfold lpoll. apply nres_poll; [exact Hb|]. intros pl0 Hb0. apply (Hm _ _ _ H Ho ls pl0 HR Hb0).
  Qed.
  Lemma fsim2_lpoll_n {A B} n l (ms : M sstate A) (ml : M lstate B) : fsim2 ms ml -> fsim2 ms (lpoll_n n l ;;; ml).
  Proof.
    intros Hm ss p e H Ho ls pl HR Hb. apply nres_bind. apply nres_of_lres. eapply lres_mono; [apply lpoll_n_res, Hb|].
    intros _ ls0 pl0 [-> Hb0]. apply (Hm _ _ _ H Ho ls pl0 HR Hb0).
  Qed.
  Lemma fsim2_lext {A B} (ms : M sstate A) (ml ml' : M lstate B) : (forall s p, ml s p = ml' s p) -> fsim2 ms ml' -> fsim2 ms ml.
  Proof. intros E H ss p e Hs Ho ls pl HR Hb. rewrite E. apply (H _ _ _ Hs Ho ls pl HR Hb). Qed.
  Lemma fsim2_loof {A B} (ms : M sstate A) : fsim2 ms (@out_of_fuel lstate B).
  Proof. intros ss p e H Ho ls pl HR Hb. exact I. Qed.
  Lemma fsim2_iter {X} (P : X -> Prop) (F : X -> M sstate unit) (F' : X -> M lstate unit) l :
    (forall x, P x -> xsimF (@anyQ unit unit) (F x) (F' x)) -> (forall x, P x -> fsim2 (F x) (F' x)) -> (forall x, P x -> dpres2 (F' x)) -> All P l -> fsim2 (iterM F l) (iterM F' l).
  Proof.
    intros HX HF HD. induction l as [|x l IH]; intros HP; cbn [iterM]; [apply fsim2_noerr; discriminate|]. destruct HP as [Px HP].
    apply fsim2_seq; [apply HX, Px|apply HF, Px|apply (dpres2_iterM_All call t fl D P); assumption|apply IH, HP].
  Qed.
  Lemma xsimF_mapM {X A B} (Q : A -> B -> Prop) (P : X -> Prop) (F : X -> M sstate A) (F' : X -> M lstate B) l :
    (forall x, P x -> xsimF Q (F x) (F' x)) -> All P l -> xsimF (Forall2 Q) (mapM F l) (mapM F' l).
  Proof.
    intros H HP. split.
    - apply (xsim2_mapM t fl call purev Q P F F' l); [intros x Px; apply (H x Px)|exact HP].
    - clear -H HP. induction l as [|x l IH]; cbn [mapM]; [apply ck_ret|]. destruct HP as [Px HP]. apply ck_bind; [apply (H x Px)|intros b].
      apply ck_bind; [apply IH, HP|intros bs; apply ck_ret].
  Qed.
  Lemma fsim2_mapM {X A B} (Q : A -> B -> Prop) (P : X -> Prop) (F : X -> M sstate A) (F' : X -> M lstate B) l :
    (forall x, P x -> xsimF Q (F x) (F' x)) -> (forall x, P x -> fsim2 (F x) (F' x)) -> (forall x, dpres2 (F' x)) -> All P l -> fsim2 (mapM F l) (mapM F' l).
  Proof.
    intros HX HF HD. induction l as [|x l IH]; intros HP; cbn [mapM]; [apply fsim2_noerr; discriminate|]. destruct HP as [Px HP].
    assert (HDl : dpres2 (mapM F' l)).
    { clear -HD. induction l as [|y l IHl]; cbn [mapM]; [apply dpres2_ret|]. apply dpres2_bind; [apply HD|intros b]. apply dpres2_bind; [exact IHl|intros bs; apply dpres2_ret]. }
    eapply fsim2_bind; [apply HX, Px|apply HF, Px| |].
    - intros b. apply dpres2_bind; [exact HDl|intros bs; apply dpres2_ret].
    - intros a b _. eapply fsim2_bind; [apply (xsimF_mapM Q P F F' l HX HP)|apply IH, HP|intros bs; apply dpres2_ret|]. intros as_ bs _. apply fsim2_noerr. discriminate.
  Qed.

  (* ---------------- control flow ---------------- *)
  Ltac dp := repeat first
    [ apply dpres2_ret | apply dpres2_push_lstmt
    | apply dpres2_of_pfr2; first [ apply pfr2_lpush_frame | apply pfr2_lpop_frame | apply pfr2_lclear_frame | apply pfr2_lunscoped_add | apply pfr2_lift
                                  | apply pfr2_leager; assumption | apply pfr2_leval; assumption | apply pfr2_ltest_cond; assumption | apply pfr2_lpoll | apply pfr2_lpoll_n
                                  | apply pfr2_noresult; discriminate ]
    | apply dpres2_ctx | apply dpres2_bind; [|intros ?] ].

  Lemma xsimF_eager fuel le ll e lf : fexpr2' true e -> env_rel' le ll -> xsimF eq (eval' fuel le e) (leager t fl glob call lf ll e).
  Proof. intros Hf Henv. split; [apply (xsim2_eager t fl glob call okfn purev Hpure m); assumption|apply ck_pfr, pfr2_leager; assumption]. Qed.
  Lemma xsimF_lift {A} (r : res A) : xsimF eq (lift r) (lift r).
  Proof. split; [apply xsim2_lift|apply ck_pfr, pfr2_lift]. Qed.
  Lemma xsimF_push_frame : xsimF (@anyQ unit unit) push_frame lpush_frame.
  Proof. split; [apply xsim2_push_frame|apply ck_pfr, pfr2_lpush_frame]. Qed.
  Lemma xsimF_pop_frame : xsimF (@anyQ unit unit) pop_frame lpop_frame.
  Proof. split; [apply xsim2_pop_frame|apply ck_pfr, pfr2_lpop_frame]. Qed.
  Lemma xsimF_clear_frame : xsimF (@anyQ unit unit) clear_frame lclear_frame.
  Proof. split; [apply xsim2_clear_frame|apply ck_pfr, pfr2_lclear_frame]. Qed.
  Lemma xsimF_unscoped_add ll name v mu : xsimF (@anyQ unit unit) (unscoped_add glob name v mu) (lunscoped_add glob ll name (LValue v) mu).
  Proof. split; [apply xsim2_unscoped_add|apply ck_pfr, pfr2_lunscoped_add]. Qed.
  Lemma xsimF_ret {A B} (Q : A -> B -> Prop) a b : Q a b -> xsimF Q (ret a) (ret b).
  Proof. intros H. split; [apply xsim2_ret, H|apply ck_ret]. Qed.
  Lemma xsimF_cond fuel le ll lf c : fcond2 okfn purev m c -> env_rel' le ll -> xsimF eq (test_cond t fl glob call fuel le c) (ltest_cond t fl glob call lf ll c).
  Proof. intros Hf Henv. split; [apply (xsim2_cond t fl glob call okfn purev Hpure m); assumption|apply ck_pfr, pfr2_ltest_cond; assumption]. Qed.

  Lemma fsim2_lift_same {A} (r : res A) : fsim2 (lift r) (lift r).
  Proof. apply fsim2_nok. intros ss p e H _ ls pl _ _. apply lift_err in H. subst r. exact I. Qed.
  Lemma fsim2_eager fuel le ll e lf : fexpr2' true e -> env_rel' le ll -> fsim2 (eval' fuel le e) (leager t fl glob call lf ll e).
  Proof. intros Hf Henv. apply fsim2_enok. apply (leager_fail2 t fl glob call okfn purev Hpure Hperr Hcall D Hanti m); assumption. Qed.

  Lemma fsim2_cond fuel le ll lf c : fcond2 okfn purev m c -> env_rel' le ll -> fsim2 (test_cond t fl glob call fuel le c) (ltest_cond t fl glob call lf ll c).
  Proof.
    intros Hf Henv. destruct c; cbn [test_cond ltest_cond fcond2] in *.
    - eapply fsim2_bind; [apply xsimF_eager; eassumption|apply fsim2_eager; assumption|intros b; dp|]. intros a b _. apply fsim2_noerr. discriminate.
    - eapply fsim2_bind; [apply xsimF_eager; eassumption|apply fsim2_eager; assumption|intros b; dp|]. intros a b _. apply fsim2_noerr. discriminate.
    - eapply fsim2_bind; [apply xsimF_eager; eassumption|apply fsim2_eager; assumption|intros b; dp|]. intros a b <-. apply fsim2_lift_same.
  Qed.

  Lemma fsim2_if test test' run run' arms :
    All (fun arm : list cond * list stmt * loc =>
           All (fun c => xsimF eq (test c) (test' c) /\ fsim2 (test c) (test' c)) (fst (fst arm)) /\
           xsimF (@anyQ unit unit) (run (snd (fst arm))) (run' (snd (fst arm))) /\ fsim2 (run (snd (fst arm))) (run' (snd (fst arm))) /\ dpres2 (run' (snd (fst arm)))) arms ->
    (forall c, dpres2 (test' c)) ->
    fsim2 (if_loop test run arms) (lif_loop test' run' arms).
  Proof.
    intros Harms Ht. induction arms as [|[[conds body] l'] arms IH]; cbn [if_loop lif_loop All fst snd] in *; [apply fsim2_noerr; discriminate|].
    destruct Harms as [[Hc [Hbx [Hbf Hbd]]] Hrest].
    assert (Hrd : All (fun arm : list cond * list stmt * loc => dpres2 (run' (snd (fst arm)))) arms).
    { clear -Hrest. induction arms as [|a arms IHa]; cbn [All] in *; [exact I|]. destruct Hrest as [(_ & _ & _ & H) Hr]. split; [exact H|apply IHa, Hr]. }
    assert (Hcx : All (fun c => xsimF eq (test c) (test' c)) conds) by (eapply All_imp; [|exact Hc]; intros c [H _]; exact H).
    eapply fsim2_bind; [apply (xsimF_mapM eq _ test test' conds (fun c Hc0 => Hc0) Hcx)| | |].
    - apply (fsim2_mapM eq (fun c => xsimF eq (test c) (test' c) /\ fsim2 (test c) (test' c)) test test' conds); [intros c [H _]; exact H|intros c [_ H]; exact H|exact Ht|exact Hc].
    - intros bs. destruct (forallb (fun b => b) bs); [dp; exact Hbd|apply dpres2_lif_loop; assumption].
    - intros bs bs' HF. apply Forall2_eq in HF. subst bs'. destruct (forallb (fun b => b) bs); [|apply IH, Hrest].
      apply fsim2_seq; [apply xsimF_push_frame|apply fsim2_noerr, push_frame_noerr|dp; exact Hbd|].
      apply fsim2_seq; [exact Hbx|exact Hbf|dp|apply fsim2_noerr, pop_frame_noerr].
  Qed.

  Lemma fsim2_scan run run' arms rs subject :
    (forall caps k r body l', nth_error arms k = Some (r, body, l') -> xsimF (@anyQ unit unit) (run caps body) (run' caps body)) ->
    (forall caps k r body l', nth_error arms k = Some (r, body, l') -> fsim2 (run caps body) (run' caps body)) ->
    (forall caps k r body l', nth_error arms k = Some (r, body, l') -> dpres2 (run' caps body)) ->
    forall sfuel i, fsim2 (scan_loop find run arms rs subject sfuel i) (lscan_loop find run' arms rs subject sfuel i).
  Proof.
    intros Hx Hf Hd. induction sfuel as [|sfuel IH]; intros i; cbn [scan_loop lscan_loop]; [apply fsim2_noerr; discriminate|].
    destruct (N.ltb i (N.of_nat (length subject))); [|apply fsim2_noerr; discriminate]. apply fsim2_spoll. cbv zeta. apply fsim2_lpoll_n.
    destruct (arm_select find rs (skipn (N.to_nat i) subject)) as [|k|k caps]; [apply fsim2_noerr; discriminate|apply fsim2_nok; intros; exact I|].
    destruct (nth_error arms (N.to_nat k)) as [[[r body] l']|] eqn:E; [|apply fsim2_noerr; discriminate].
    assert (Hl : dpres2 (lscan_loop find run' arms rs subject sfuel (i + snd (cap0 caps)))) by (apply dpres2_lscan_loop, Hd).
    apply fsim2_seq; [apply xsimF_push_frame|apply fsim2_noerr, push_frame_noerr|dp; [apply (Hd _ _ _ _ _ E)|exact Hl]|].
    apply fsim2_seq; [apply (Hx _ _ _ _ _ E)|apply (Hf _ _ _ _ _ E)|dp; exact Hl|].
    apply fsim2_seq; [apply xsimF_pop_frame|apply fsim2_noerr, pop_frame_noerr|exact Hl|apply IH].
  Qed.

  Lemma env_match le ll : env_rel' le ll -> ll_match ll = m. Proof. intros (_ & H & _). exact H. Qed.

  Lemma stmt_fail2 : forall fuel le ll s, fstmt2' s -> sdef' s -> env_rel' le ll -> forall lf, fsim2 (exec_stmt' fuel le s) (lexec_stmt' lf ll s).
  Proof.
    induction fuel as [|fuel IH]; intros le ll s Hf Hsd Henv lf; [apply fsim2_noerr; discriminate|]. destruct lf as [|lf]; [apply fsim2_loof|].
    pose proof (env_match le ll Henv) as Em.
    assert (Hsim : forall le' ll' s', fstmt2' s' -> sdef' s' -> env_rel' le' ll' -> xsimF (@anyQ unit unit) (exec_stmt' fuel le' s') (lexec_stmt' lf ll' s')).
    { intros le' ll' s' Hs' Hd' He'. split; [apply (stmt_sim2 t fl glob regexes find call okfn purev Hpure m Hsh); assumption|].
      apply ck_lexec_stmt. rewrite (env_match le' ll' He'). exact Hd'. }
    assert (Hblockx : forall le' ll' body, env_rel' le' ll' -> All fstmt2' body -> All sdef' body ->
               xsimF (@anyQ unit unit)
                     (iterM (fun st => let c := ctx_update (le_ctx le') st in
                                       ctx_wrap (CtxStmts [c]) (exec_stmt' fuel (le_with_ctx le' c) st)) body)
                     (iterM (fun st => lexec_stmt' lf (ll_with_ctx ll' (ctx_update (ll_ctx ll') st)) st) body)).
    { intros le' ll' body Henv' Hbody Hsb. split.
      - apply (xsim2_iter t fl call purev fstmt2'); [|exact Hbody]. intros st Hst. cbv zeta. apply xsim2_sctx.
        apply (stmt_sim2 t fl glob regexes find call okfn purev Hpure m Hsh); [exact Hst|apply env_rel_ctx, Henv'].
      - apply ck_block. rewrite (env_match le' ll' Henv'). exact Hsb. }
    assert (Hblock : forall le' ll' body, env_rel' le' ll' -> All fstmt2' body -> All sdef' body ->
               fsim2 (iterM (fun st => let c := ctx_update (le_ctx le') st in
                                       ctx_wrap (CtxStmts [c]) (exec_stmt' fuel (le_with_ctx le' c) st)) body)
                     (iterM (fun st => lexec_stmt' lf (ll_with_ctx ll' (ctx_update (ll_ctx ll') st)) st) body)).
    { intros le' ll' body Henv' Hbody Hsb. pose proof (env_match le' ll' Henv') as Em'.
      assert (Hboth : All (fun st => fstmt2' st /\ sdef' st) body).
      { clear -Hbody Hsb. induction body as [|st body IHb]; cbn [All] in *; [exact I|]. destruct Hbody, Hsb. split; [split; assumption|apply IHb; assumption]. }
      apply (fsim2_iter (fun st => fstmt2' st /\ sdef' st)); [| | |exact Hboth].
      - intros st [Hst Hds]. cbv zeta. destruct (Hsim (le_with_ctx le' (ctx_update (le_ctx le') st)) (ll_with_ctx ll' (ctx_update (ll_ctx ll') st)) st Hst Hds (env_rel_ctx m _ _ _ _ Henv')) as [X1 X2].
        split; [apply xsim2_sctx; exact X1|exact X2].
      - intros st [Hst Hds]. cbv zeta. apply fsim2_sctx. apply IH; [exact Hst|exact Hds|apply env_rel_ctx, Henv'].
      - intros st [Hst Hds]. apply dpres2_lexec_stmt. cbn [ll_with_ctx ll_match]. rewrite Em'. exact Hds. }
    assert (Harmx : forall le' ll' body, env_rel' le' ll' -> All fstmt2' body -> All sdef' body ->
               xsimF (@anyQ unit unit)
                     (iterM (fun st => let c := ctx_update (le_ctx le') st in
                                       ctx_wrap (CtxStmts [c]) (ctx_wrap CtxOther (exec_stmt' fuel (le_with_ctx le' c) st))) body)
                     (iterM (fun st => let c := ctx_update (ll_ctx ll') st in
                                       ctx_wrap (CtxStmts [c]) (ctx_wrap CtxOther (lexec_stmt' lf (ll_with_ctx ll' c) st))) body)).
    { intros le' ll' body Henv' Hbody Hsb. split.
      - apply (xsim2_iter t fl call purev fstmt2'); [|exact Hbody]. intros st Hst. cbv zeta. apply xsim2_sctx, xsim2_sctx, xsim2_lctx, xsim2_lctx.
        apply (stmt_sim2 t fl glob regexes find call okfn purev Hpure m Hsh); [exact Hst|apply env_rel_ctx, Henv'].
      - apply ck_arm_block. rewrite (env_match le' ll' Henv'). exact Hsb. }
    assert (Harm : forall le' ll' body, env_rel' le' ll' -> All fstmt2' body -> All sdef' body ->
               fsim2 (iterM (fun st => let c := ctx_update (le_ctx le') st in
                                       ctx_wrap (CtxStmts [c]) (ctx_wrap CtxOther (exec_stmt' fuel (le_with_ctx le' c) st))) body)
                     (iterM (fun st => let c := ctx_update (ll_ctx ll') st in
                                       ctx_wrap (CtxStmts [c]) (ctx_wrap CtxOther (lexec_stmt' lf (ll_with_ctx ll' c) st))) body)).
    { intros le' ll' body Henv' Hbody Hsb. pose proof (env_match le' ll' Henv') as Em'.
      assert (Hboth : All (fun st => fstmt2' st /\ sdef' st) body).
      { clear -Hbody Hsb. induction body as [|st body IHb]; cbn [All] in *; [exact I|]. destruct Hbody, Hsb. split; [split; assumption|apply IHb; assumption]. }
      apply (fsim2_iter (fun st => fstmt2' st /\ sdef' st)); [| | |exact Hboth].
      - intros st [Hst Hds]. cbv zeta. destruct (Hsim (le_with_ctx le' (ctx_update (le_ctx le') st)) (ll_with_ctx ll' (ctx_update (ll_ctx ll') st)) st Hst Hds (env_rel_ctx m _ _ _ _ Henv')) as [X1 X2].
        split; [apply xsim2_sctx, xsim2_sctx, xsim2_lctx, xsim2_lctx; exact X1|apply ck_ctx, ck_ctx; exact X2].
      - intros st [Hst Hds]. cbv zeta. apply fsim2_sctx, fsim2_sctx, fsim2_lctx, fsim2_lctx. apply IH; [exact Hst|exact Hds|apply env_rel_ctx, Henv'].
      - intros st [Hst Hds]. cbv zeta. apply dpres2_ctx, dpres2_ctx, dpres2_lexec_stmt. cbn [ll_with_ctx ll_match]. rewrite Em'. exact Hds. }
    assert (Hbd : forall body, All sdef' body -> dpres2 (iterM (fun st => lexec_stmt' lf (ll_with_ctx ll (ctx_update (ll_ctx ll) st)) st) body)).
    { intros body Hb. apply dpres2_block. rewrite Em. exact Hb. }
    assert (Had : forall caps body, All sdef' body ->
               dpres2 (iterM (fun st => let c := ctx_update (ll_ctx (ll_with_caps ll caps)) st in
                                        ctx_wrap (CtxStmts [c]) (ctx_wrap CtxOther (lexec_stmt' lf (ll_with_ctx (ll_with_caps ll caps) c) st))) body)).
    { intros caps body Hb. apply dpres2_arm_block. cbn [ll_with_caps ll_match]. rewrite Em. exact Hb. }
    destruct s; cbn [exec_stmt lexec_stmt]; cbn [fstmt2] in Hf; cbn [sdef] in Hsd; apply fsim2_spoll, fsim2_lpoll.
    - (* let *) destruct v as [x lx|sc name lx]; cbn [fbind2] in Hf; cbn [var_add lvar_add].
      + apply fsim2_of_K. apply (fsimK_bind_var t fl glob call okfn purev Hpure Hperr Hcall D Hanti m); assumption.
      + destruct Hf as [Hsc He]. apply fsim2_of_K. apply (fsimK_scoped_def t fl glob call okfn purev Hpure Hperr Hcall D Hanti m) with (l := lx); try assumption. rewrite Em. exact Hsd.
    - (* var *) destruct v; cbn [fmut2] in Hf; [|contradiction]. cbn [var_add lvar_add]. apply fsim2_of_K. apply (fsimK_bind_var t fl glob call okfn purev Hpure Hperr Hcall D Hanti m); assumption.
    - (* set *) destruct v; cbn [fmut2] in Hf; [|contradiction]. cbn [var_set lvar_set]. apply fsim2_of_K. apply (fsimK_set_var t fl glob call okfn purev Hpure Hperr Hcall D Hanti m); assumption.
    - (* node *) cbn [config0 c_var_attr c_loc_attr c_match_attr opt_attr lopt_node_attr].
      assert (Hva : forall n, dpres2 (lvar_add t fl glob call lf ll v (LValue (VGraph n)) false)).
      { intros n. apply dpres2_of.
        - intros w dt dc Hws. apply jk_lvar_add; try assumption. rewrite Em. exact Hsd.
        - destruct v as [x lx|sc name lx]; cbn [lvar_add].
          + eapply fr_lunscoped_add; [apply prefix_refl|apply prefix_trans].
          + eapply fr_bind; [apply prefix_trans|apply fr_leval; [exact Hcall|apply prefix_refl|apply prefix_trans]|intros sv].
            eapply fr_bind; [apply prefix_trans| |intros var].
            * unfold store_add. eapply fr_bind; [apply prefix_trans|apply fr_get, prefix_refl|intros s0]. eapply fr_bind; [apply prefix_trans|apply fr_set_lstore, prefix_refl|intros _; apply fr_ret, prefix_refl].
            * unfold scoped_store_add. eapply fr_bind; [apply prefix_trans| |intros c].
              -- unfold cell_get. eapply fr_bind; [apply prefix_trans|apply fr_get, prefix_refl|intros s0; apply fr_ret, prefix_refl].
              -- assert (Hcs : forall c0, fr_ok (@prefix lstmt) (cell_set name c0)).
                 { intros c0. unfold cell_set. eapply fr_bind; [apply prefix_trans|apply fr_get, prefix_refl|intros s0; apply fr_set_lscoped, prefix_refl]. }
                 destruct c as [[pairs| |mp]|]; first [apply Hcs | apply fr_fail; exact I]. }
      eapply fsim2_bind; [split; [apply xsim2_add_node|apply ck_ladd_node]|apply fsim2_noerr; intros s0 p0 e0; rewrite add_node_eq; discriminate|intros n0; dp; apply Hva|]. intros n n' <-.
      apply fsim2_seq; [apply xsimF_ret; exact I|apply fsim2_noerr; discriminate|dp; apply Hva|]. apply fsim2_seq; [apply xsimF_ret; exact I|apply fsim2_noerr; discriminate|dp; apply Hva|].
      apply fsim2_seq; [apply xsimF_ret; exact I|apply fsim2_noerr; discriminate|apply Hva|]. destruct v as [x lx|sc name lx]; cbn [var_add lvar_add].
      + apply fsim2_enok. apply unscoped_add_fail2.
      + apply fsim2_of_K. apply (fsimK_scoped_val t fl glob call okfn purev Hpure Hperr Hcall D Hanti m) with (l := lx); try assumption. rewrite Em. exact Hsd.
    - (* attr on a node *) destruct Hf as [Hn Ha]. apply fsim2_of_K. apply (fsimK_attr_node t fl glob call okfn purev Hpure Hperr Hcall D Hanti m Hsh); assumption.
    - (* edge *) destruct Hf as [Ha Hb]. cbn [config0 c_loc_attr opt_attr]. apply fsim2_of_K. apply (fsimK_edge t fl glob call okfn purev Hpure Hperr Hcall D Hanti m); assumption.
    - (* attr on an edge *) destruct Hf as (Ha & Hb & Hat). apply fsim2_of_K. apply (fsimK_attr_edge t fl glob call okfn purev Hpure Hperr Hcall D Hanti m Hsh); assumption.
    - (* scan *) destruct Hf as [Hv Harms].
      assert (Hloop : forall rs subject sfuel i, dpres2 (lscan_loop find (fun caps body => iterM (fun st => let c := ctx_update (ll_ctx (ll_with_caps ll caps)) st in
                         ctx_wrap (CtxStmts [c]) (ctx_wrap CtxOther (lexec_stmt' lf (ll_with_ctx (ll_with_caps ll caps) c) st))) body) arms rs subject sfuel i)).
      { intros rs subject sfuel i. apply dpres2_lscan_loop. intros caps k r body l' E. apply Had. apply (All_In _ _ _ Hsd (nth_error_In _ _ E)). }
      eapply fsim2_bind; [apply xsimF_eager; eassumption|apply fsim2_eager; assumption| |].
      { intros sv. apply dpres2_bind; [dp|intros subject]. destruct (arm_table regexes arms); [|dp]. apply Hloop. }
      intros sv sv' <-. eapply fsim2_bind; [apply xsimF_lift|apply fsim2_lift_same| |].
      { intros subject. destruct (arm_table regexes arms); [|dp]. apply Hloop. }
      intros subject subject' <-. destruct (arm_table regexes arms) as [rs|]; [|apply fsim2_noerr; discriminate].
      apply fsim2_scan.
      + intros caps k r body l' E. apply Harmx; [apply env_rel_caps, Henv|apply (All_In _ _ _ Harms (nth_error_In _ _ E))|apply (All_In _ _ _ Hsd (nth_error_In _ _ E))].
      + intros caps k r body l' E. apply Harm; [apply env_rel_caps, Henv|apply (All_In _ _ _ Harms (nth_error_In _ _ E))|apply (All_In _ _ _ Hsd (nth_error_In _ _ E))].
      + intros caps k r body l' E. apply Had. apply (All_In _ _ _ Hsd (nth_error_In _ _ E)).
    - (* print *) apply fsim2_of_K. apply (fsimK_print t fl glob call okfn purev Hpure Hperr Hcall D Hanti m); assumption.
    - (* if *) apply fsim2_if.
      + clear -Hf Hsd Henv Hblockx Hblock Hbd Hpure Hperr Hcall Hanti. induction arms as [|[[conds body] l'] arms IHa]; cbn [All fst snd] in *; [exact I|]. destruct Hf as [[Hc Hb] Hf]. destruct Hsd as [Hsb Hsd].
        split; [|apply IHa; assumption]. split.
        * eapply All_imp; [|exact Hc]. intros c Hfc. split; [apply xsimF_cond; assumption|apply fsim2_cond; assumption].
        * split; [apply (Hblockx le ll body Henv Hb Hsb)|]. split; [apply (Hblock le ll body Henv Hb Hsb)|apply Hbd, Hsb].
      + intros c. dp.
    - (* for *) destruct Hf as [Hv Hbody].
      assert (Hiter : forall v, dpres2 (lclear_frame ;;; lunscoped_add glob ll var (LValue v) false ;;;
                                        iterM (fun st => lexec_stmt' lf (ll_with_ctx ll (ctx_update (ll_ctx ll) st)) st) body)) by (intros v; dp; apply Hbd, Hsd).
      eapply fsim2_bind; [apply xsimF_eager; eassumption|apply fsim2_eager; assumption| |].
      { intros lv. dp. apply dpres2_iterM. intros v. apply Hiter. }
      intros lv lv' <-. eapply fsim2_bind; [apply xsimF_lift|apply fsim2_lift_same| |].
      { intros vals. dp. apply dpres2_iterM. intros v. apply Hiter. }
      intros vals vals' <-. apply fsim2_seq; [apply xsimF_push_frame|apply fsim2_noerr, push_frame_noerr|dp; apply dpres2_iterM; intros v; apply Hiter|].
      assert (Hix : forall v, xsimF (@anyQ unit unit)
                 (clear_frame ;;; unscoped_add glob var v false ;;; iterM (fun st => let c := ctx_update (le_ctx le) st in ctx_wrap (CtxStmts [c]) (exec_stmt' fuel (le_with_ctx le c) st)) body)
                 (lclear_frame ;;; lunscoped_add glob ll var (LValue v) false ;;; iterM (fun st => lexec_stmt' lf (ll_with_ctx ll (ctx_update (ll_ctx ll) st)) st) body)).
      { intros v. destruct (Hblockx le ll body Henv Hbody Hsd) as [X1 X2]. split.
        - apply xsim2_seq; [apply xsim2_clear_frame|]. apply xsim2_seq; [apply xsim2_unscoped_add|exact X1].
        - apply ck_bind; [apply ck_pfr, pfr2_lclear_frame|intros _]. apply ck_bind; [apply ck_pfr, pfr2_lunscoped_add|intros _; exact X2]. }
      apply fsim2_seq; [| |dp|apply fsim2_noerr, pop_frame_noerr].
      + split.
        * apply (xsim2_iter t fl call purev (fun _ => True)); [|clear; induction vals; cbn; auto]. intros v _. apply (Hix v).
        * apply (ck_iterM_All (fun _ => True)); [|clear; induction vals; cbn; auto]. intros v _. apply (Hix v).
      + apply (fsim2_iter (fun _ => True)); [| | |clear; induction vals; cbn; auto].
        * intros v _. apply Hix.
        * intros v _. apply fsim2_seq; [apply xsimF_clear_frame|apply fsim2_noerr, clear_frame_noerr|dp; apply Hbd, Hsd|].
          apply fsim2_seq; [apply xsimF_unscoped_add|apply fsim2_enok, unscoped_add_fail2|apply Hbd, Hsd|]. apply (Hblock le ll body Henv Hbody Hsd).
        * intros v _. apply Hiter.
  Qed.

  (* one match of one stanza *)
  Lemma stanza_fail2 fuel lf st : All fstmt2' (st_stmts st) -> All sdef' (st_stmts st) -> nodes_for_capture m (st_full_file_idx st) <> [] ->
    fsim2 (exec_stanza t fl config0 glob regexes find call fuel st m) (lexec_stanza t fl config0 glob regexes find call lf st m).
  Proof.
    intros Hst Hsd Hfull. unfold exec_stanza, lexec_stanza. apply fsim2_lpoll. cbv zeta.
    destruct (nodes_for_capture m (st_full_file_idx st)) as [|n' ns']; [contradiction|].
    assert (Hboth : All (fun s => fstmt2' s /\ sdef' s) (st_stmts st)).
    { clear -Hst Hsd. induction (st_stmts st) as [|s l IHb]; cbn [All] in *; [exact I|]. destruct Hst, Hsd. split; [split; assumption|apply IHb; assumption]. }
    assert (Hd : forall s ll0, ll_match ll0 = m -> sdef' s -> dpres2 (ctx_wrap (CtxStmts [{| sc_stmt := stmt_loc s; sc_stanza := st_start st; sc_node := n' |}]) (lexec_stmt' lf ll0 s))).
    { intros s ll0 E Hs. apply dpres2_ctx, dpres2_lexec_stmt. rewrite E. exact Hs. }
    apply fsim2_seq; [apply xsimF_clear_frame|apply fsim2_noerr, clear_frame_noerr| |].
    { apply (dpres2_iterM_All call t fl D sdef'); [|exact Hsd]. intros s Hs. apply Hd; [reflexivity|exact Hs]. }
    apply (fsim2_iter (fun s => fstmt2' s /\ sdef' s)); [| | |exact Hboth].
    - intros s [Hs Hds]. destruct (nodes_for_capture m (st_full_stanza_idx st)) as [|n ns]; [split; [apply xsim2_spanic|apply ck_ctx, ck_lexec_stmt; exact Hds]|].
      split; [apply xsim2_sctx, xsim2_lctx; apply (stmt_sim2 t fl glob regexes find call okfn purev Hpure m Hsh); [exact Hs|repeat split]|apply ck_ctx, ck_lexec_stmt; exact Hds].
    - intros s [Hs Hds]. destruct (nodes_for_capture m (st_full_stanza_idx st)) as [|n ns]; [apply fsim2_noerr; discriminate|].
      apply fsim2_sctx, fsim2_lctx. apply stmt_fail2; [exact Hs|exact Hds|]. repeat split.
    - intros s [Hs Hds]. apply Hd; [reflexivity|exact Hds].
  Qed.
End FailCtl2.
