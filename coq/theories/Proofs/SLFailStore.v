(* Proofs/SLFailStore.v — C02, failure direction, part 2: the thunk store after the point where strict execution failed.
   From that point on the lazy interpreter keeps running code the strict one never reached, so nothing is known about the
   thunks and lazy values created later.  What is kept:
   * `sbk rhoK st`: the first |rhoK| thunks of the store are well formed for the valuation rhoK (forced to their value, or
     unforced with a body that denotes it: Proofs/SLForce.v); later thunks are arbitrary;
   * `bad_lv rhoK lv`: evaluating lv on ANY state whose store satisfies `sbk rhoK` cannot return Ok;
   * `Jst rhoK dt st`: `sbk` plus, when dt = Some (loc, lv), the thunk at loc >= |rhoK| is still UNFORCED with the bad body lv
     (a doomed thunk: `LazyStore::evaluate_all` will force it at the end of the run).
   `jok`: every successful computation of the lazy interpreter (evaluation of ANY lazy value or deferred statement,
   execution of ANY statement) preserves `Jst` — forcing an early thunk yields its value (forcing lemma), forcing the
   doomed thunk cannot succeed, every other operation leaves the early thunks alone and only appends to the store.
   The induction over the execution phase is the one of Proofs/LazyMeta.v (the proof scripts are the same), with the
   store primitives `store_add` / forcing treated by hand because an arbitrary store update does not preserve `Jst`. *)
From TSG Require Import Model.Lazy Proofs.BaseFacts Proofs.Containers Proofs.MonadFacts Proofs.StrictMeta
  Proofs.SLGraph Proofs.SLForce Proofs.Extends Proofs.SLFailGraph.

Lemma firstn_app_len {A} (l r : list A) : firstn (length l) (l ++ r) = l.
Proof. rewrite firstn_app, firstn_all, Nat.sub_diag, firstn_O, app_nil_r. reflexivity. Qed.

Lemma store_set_state_eq loc st0 s p :
  store_set_state loc st0 s p = Ok (tt, set_store (list_update (N.to_nat loc) (fun th => {| th_state := st0; th_dbg := th_dbg th |}) (l_store s)) s, p).
Proof. reflexivity. Qed.

Section Store.
  Variable call : ident -> graph -> list value -> res (value * graph).
  Variables (t : tree) (fl : file).
  Notation den := (den call).
  Notation store_below := (store_below call).
  Notation eval_lv' := (eval_lv t fl call).
  Notation force_thunk' := (force_thunk t fl call).
  Notation force_scoped' := (force_scoped t fl call).

  Definition sbk (rhoK : list value) (st : list thunk) : Prop := exists pad, store_below (length rhoK) (rhoK ++ pad) st.

  Lemma sbk_len rhoK st : sbk rhoK st -> (length rhoK <= length st)%nat.
  Proof. intros (pad & Hl & _). rewrite <- Hl, app_length. lia. Qed.
  Lemma thunk_ok_app rho x i th : (i < length rho)%nat -> thunk_ok call rho i th -> thunk_ok call (rho ++ x) i th.
  Proof.
    intros Hi (v & Hv & Hs). exists v. split; [rewrite nth_error_app1 by exact Hi; exact Hv|].
    destruct (th_state th); try exact Hs. rewrite firstn_app. replace (i - length rho)%nat with 0%nat by lia. rewrite firstn_O, app_nil_r. exact Hs.
  Qed.
  Lemma sbk_app rhoK st th : sbk rhoK st -> sbk rhoK (st ++ [th]).
  Proof.
    intros (pad & Hl & Hok). exists (pad ++ [VNull]). split; [rewrite app_assoc, (app_length (rhoK ++ pad)), (app_length st), Hl; reflexivity|].
    intros i th0 Hi Hn. assert (Hk : (length rhoK <= length st)%nat) by (rewrite <- Hl, app_length; lia).
    rewrite nth_error_app1 in Hn by lia. rewrite app_assoc. apply thunk_ok_app; [rewrite app_length; lia|]. apply Hok; assumption.
  Qed.
  Lemma sbk_update rhoK st loc f : sbk rhoK st -> (length rhoK <= loc)%nat -> sbk rhoK (list_update loc f st).
  Proof.
    intros (pad & Hl & Hok) Hloc. exists pad. split; [rewrite list_update_length; exact Hl|].
    intros i th0 Hi Hn. rewrite nth_error_update_other in Hn by lia. apply Hok; assumption.
  Qed.
  Lemma sbk_of_wf rho st : store_wf call rho st -> sbk rho st.
  Proof.
    intros [Hl Hok]. exists []. rewrite app_nil_r. split; [exact Hl|]. intros i th Hi Hn. apply Hok; [|exact Hn]. apply nth_error_Some. congruence.
  Qed.

  (* evaluation cannot succeed, whatever happened to the later part of the store *)
  Definition bad_lv (rhoK : list value) (lv : lvalue) : Prop :=
    forall F ls pl, sbk rhoK (l_store ls) -> nob pl -> nok (eval_lv' F lv ls pl).

  Definition Jst (rhoK : list value) (dt : option (nat * lvalue)) (st : list thunk) : Prop :=
    sbk rhoK st /\
    match dt with
    | None => True
    | Some (loc, lv) => (length rhoK <= loc)%nat /\ bad_lv rhoK lv /\ exists dbg, nth_error st loc = Some {| th_state := TUnforced lv; th_dbg := dbg |}
    end.
  Lemma Jst_sbk rhoK dt st : Jst rhoK dt st -> sbk rhoK st. Proof. intros [H _]. exact H. Qed.
  Lemma Jst_app rhoK dt st th : Jst rhoK dt st -> Jst rhoK dt (st ++ [th]).
  Proof.
    intros [H1 H2]. split; [apply sbk_app, H1|]. destruct dt as [[loc lv]|]; [|exact I]. destruct H2 as (A1 & A2 & dbg & A3).
    split; [exact A1|]. split; [exact A2|]. exists dbg. rewrite nth_error_app1; [exact A3|]. apply nth_error_Some. congruence.
  Qed.
  Lemma Jst_update rhoK dt st loc f : Jst rhoK dt st -> (length rhoK <= loc)%nat ->
    (forall dloc dlv, dt = Some (dloc, dlv) -> dloc <> loc) -> Jst rhoK dt (list_update loc f st).
  Proof.
    intros [H1 H2] Hloc Hd. split; [apply sbk_update; assumption|]. destruct dt as [[dloc dlv]|]; [|exact I]. destruct H2 as (A1 & A2 & dbg & A3).
    split; [exact A1|]. split; [exact A2|]. exists dbg. rewrite nth_error_update_other; [exact A3|]. apply (Hd dloc dlv eq_refl).
  Qed.
  Lemma Jst_post rhoK dt pad st st' : Jst rhoK dt st -> store_below (length rhoK) (rhoK ++ pad) st' ->
    (forall i, (length rhoK <= i)%nat -> nth_error st' i = nth_error st i) -> Jst rhoK dt st'.
  Proof.
    intros [H1 H2] Hst' Hun. split; [exists pad; exact Hst'|]. destruct dt as [[dloc dlv]|]; [|exact I]. destruct H2 as (A1 & A2 & dbg & A3).
    split; [exact A1|]. split; [exact A2|]. exists dbg. rewrite (Hun dloc A1). exact A3.
  Qed.

  (* forcing a value that denotes v under rhoK: the forcing lemma, read on a store whose later part is arbitrary *)
  Definition jpost {A} (rhoK : list value) (dt : option (nat * lvalue)) (a : A) (ls : lstate) : A -> lstate -> polls -> Prop :=
    fun a' ls' pl' => a' = a /\ nob pl' /\ exists st', ls' = set_store st' ls /\ Jst rhoK dt st'.
  Lemma force_den F rhoK dt lv v ls pl : den rhoK lv v -> Jst rhoK dt (l_store ls) -> nob pl ->
    lres (eval_lv' F lv ls pl) (jpost rhoK dt v ls).
  Proof.
    intros Hd HJ Hb. destruct (Jst_sbk _ _ _ HJ) as (pad & Hst). destruct (force_all call t fl F) as [He _].
    rewrite <- (firstn_app_len rhoK pad) in Hd.
    eapply lres_mono; [apply (He _ _ lv v ls pl Hst Hd Hb)|]. intros v' ls' pl' (-> & Hb' & st' & -> & Hst' & Hun).
    split; [reflexivity|]. split; [exact Hb'|]. exists st'. split; [reflexivity|]. eapply Jst_post; eauto.
  Qed.
  Lemma force_den_thunk F rhoK dt loc ls pl : (N.to_nat loc < length rhoK)%nat -> Jst rhoK dt (l_store ls) -> nob pl ->
    lres (force_thunk' F loc ls pl) (fun _ ls' pl' => nob pl' /\ exists st', ls' = set_store st' ls /\ Jst rhoK dt st').
  Proof.
    intros Hlt HJ Hb. destruct (Jst_sbk _ _ _ HJ) as (pad & Hst). destruct (force_all call t fl F) as [_ Ht].
    destruct (nth_error rhoK (N.to_nat loc)) as [v|] eqn:Ev; [|apply nth_error_None in Ev; lia].
    eapply lres_mono; [apply (Ht loc v _ _ ls pl Hst Hlt); [rewrite nth_error_app1 by exact Hlt; exact Ev|exact Hb]|].
    intros v' ls' pl' (-> & Hb' & st' & -> & Hst' & Hun). split; [exact Hb'|]. exists st'. split; [reflexivity|]. eapply Jst_post; eauto.
  Qed.
  Lemma force_den_list F rhoK dt : forall es vs ls pl, Forall2 (den rhoK) es vs -> Jst rhoK dt (l_store ls) -> nob pl ->
    lres (mapM (eval_lv' F) es ls pl) (jpost rhoK dt vs ls).
  Proof.
    intros es vs ls pl HF. revert ls pl. induction HF as [|e v es vs Hd HF IH]; intros ls pl HJ Hb; cbn [mapM].
    - apply lres_ret. split; [reflexivity|]. split; [exact Hb|]. exists (l_store ls). rewrite set_store_same. auto.
    - apply lres_bind. eapply lres_mono; [apply (force_den F rhoK dt e v ls pl Hd HJ Hb)|]. intros v' ls1 pl1 (-> & Hb1 & st1 & -> & HJ1).
      apply lres_bind. eapply lres_mono; [apply (IH (set_store st1 ls) pl1 HJ1 Hb1)|]. intros vs' ls2 pl2 (-> & Hb2 & st2 & -> & HJ2).
      apply lres_ret. split; [reflexivity|]. split; [exact Hb2|]. exists st2. split; [reflexivity|exact HJ2].
  Qed.

  (* ================= every successful lazy computation preserves Jst ================= *)
  Section Jok.
    Context {rx : Type}.
    Variables (cfg : config) (glob : globals) (regexes : list rx) (find : rx -> str -> option (list (option (N * N)))).
    Variables (rhoK : list value) (dt : option (nat * lvalue)).

    Definition jok {A} (m : M lstate A) : Prop :=
      forall s p a s' p', nob p -> Jst rhoK dt (l_store s) -> m s p = Ok (a, s', p') -> nob p' /\ Jst rhoK dt (l_store s').

    Lemma jk_ret A (a : A) : jok (ret a).
    Proof. intros s p a' s' p' Hb HJ H. apply ret_ok in H as (_ & -> & ->). auto. Qed.
    Lemma jk_bind A B (m : M lstate A) (f : A -> M lstate B) : jok m -> (forall a, jok (f a)) -> jok (bind m f).
    Proof. intros Hm Hf s p b s' p' Hb HJ H. apply bind_ok in H as (a & s1 & p1 & E & H). destruct (Hm _ _ _ _ _ Hb HJ E) as [Hb1 HJ1]. eapply Hf; eauto. Qed.
    Lemma jk_fail A e : base_error e -> jok (@fail lstate A e). Proof. intros _ s p a s' p' _ _ H. discriminate. Qed.
    Lemma jk_fail_in A a b e : base_error e -> jok (@fail_in A (CtxStmts [a; b]) e). Proof. intros _ s p x s' p' _ _ H. discriminate. Qed.
    Lemma jk_panic A x : jok (@panic lstate A x). Proof. intros s p a s' p' _ _ H. discriminate. Qed.
    Lemma jk_oof A : jok (@out_of_fuel lstate A). Proof. intros s p a s' p' _ _ H. discriminate. Qed.
    Lemma jk_ctx A c (m : M lstate A) : (c = CtxOther \/ exists sc, c = CtxStmts [sc]) -> jok m -> jok (ctx_wrap c m).
    Proof. intros _ Hm s p a s' p' Hb HJ H. apply ctx_wrap_ok in H. eapply Hm; eauto. Qed.
    Lemma jk_same A (m : M lstate A) : (forall s p a s' p', m s p = Ok (a, s', p') -> l_store s' = l_store s /\ p' = p) -> jok m.
    Proof. intros Hm s p a s' p' Hb HJ H. destruct (Hm _ _ _ _ _ H) as [-> ->]. auto. Qed.
    Ltac same_upd := apply jk_same; intros s p a s' p' H; unfold upd in H; apply modify_ok in H as (-> & ->); auto.
    Lemma jk_get : jok (@get_state lstate). Proof. apply jk_same. intros s p a s' p' H. apply get_ok in H as (_ & -> & ->). auto. Qed.
    Lemma jk_set_llocals l : jok (set_llocals l). Proof. unfold set_llocals. same_upd. Qed.
    Lemma jk_set_lscoped l : jok (set_lscoped l). Proof. unfold set_lscoped. same_upd. Qed.
    Lemma jk_set_lparams l : jok (set_lparams l). Proof. unfold set_lparams. same_upd. Qed.
    Lemma jk_set_lprev l : jok (set_lprev l). Proof. unfold set_lprev. same_upd. Qed.
    Lemma jk_set_lgraph g : jok (set_lgraph g). Proof. unfold set_lgraph. same_upd. Qed.
    Lemma jk_push_lstmt st : jok (push_lstmt st).
    Proof. apply jk_same. intros s p a s' p' H. unfold push_lstmt, upd in H. apply modify_ok in H as (-> & ->). destruct st; auto. Qed.
    Lemma jk_lpoll l : jok (lpoll l).
    Proof. intros s p a s' p' Hb HJ H. apply poll_ok in H as (-> & -> & _). split; [|exact HJ]. unfold nob, poll_step in *. rewrite Hb. cbn. reflexivity. Qed.

    Ltac pctx := (apply jk_ctx; [first [left; reflexivity | right; eexists; reflexivity]|]).
    Ltac jk_dm := repeat first [ apply jk_ret | apply jk_get | apply jk_set_lgraph | apply jk_panic | apply jk_oof
                               | apply jk_fail; exact I | apply jk_fail_in; exact I
                               | apply jk_bind; [|intros ?]
                               | match goal with |- jok (match ?x with _ => _ end) => destruct x end
                               | match goal with |- jok (let '(_, _) := ?x in _) => destruct x end ].
    Lemma jk_noresult A (m : M lstate A) : (forall s p a s' p', m s p <> Ok (a, s', p')) -> jok m.
    Proof. intros Hm s p a s' p' _ _ H. exfalso. eapply Hm; eauto. Qed.
    Lemma jk_ladd_node : jok ladd_node. Proof. unfold ladd_node. jk_dm. Qed.
    Lemma jk_ladd_node_attr n k v : jok (ladd_node_attr n k v). Proof. unfold ladd_node_attr. jk_dm. Qed.
    Lemma jk_lcall f args : jok (lcall_function call f args). Proof. unfold lcall_function. jk_dm. apply jk_noresult. intros; discriminate. Qed.
    Lemma jk_lattr_node_add n k v prev dbg : jok (lattr_node_add n k v prev dbg). Proof. unfold lattr_node_add, fail_in. jk_dm. all: apply jk_noresult; intros; discriminate. Qed.
    Lemma jk_ledge_add a b ea : jok (ledge_add a b ea). Proof. unfold ledge_add. jk_dm. Qed.
    Lemma jk_lattr_edge_add a b k v prev dbg : jok (lattr_edge_add a b k v prev dbg). Proof. unfold lattr_edge_add, fail_in. jk_dm. all: apply jk_noresult; intros; discriminate. Qed.

    Lemma jk_store_add lv dbg : jok (store_add lv dbg).
    Proof.
      intros s p a s' p' Hb HJ H. unfold store_add, bind, get_state, set_lstore, upd, modify, ret in H. inversion H; subst. cbn [l_store].
      split; [exact Hb|apply Jst_app, HJ].
    Qed.

    Lemma jk_lift A (r : res A) : base_res r -> jok (lift r).
    Proof.
      destruct r as [a|e|p|]; cbn; intros H.
      - exact (jk_ret _ a).
      - exact (jk_fail _ e H).
      - exact (jk_panic _ p).
      - exact (jk_oof _).
    Qed.
    Lemma jk_mapM A B (f : A -> M lstate B) l : (forall x, jok (f x)) -> jok (mapM f l).
    Proof. intros H. induction l as [|x l IH]; cbn [mapM]; [apply jk_ret|]. apply jk_bind; [apply H|]. intros y. apply jk_bind; [exact IH|]. intros ys. apply jk_ret. Qed.
    Lemma jk_iterM A (f : A -> M lstate unit) l : (forall x, jok (f x)) -> jok (iterM f l).
    Proof. intros H. induction l as [|x l IH]; cbn [iterM]; [apply jk_ret|]. apply jk_bind; [apply H|]. intros _. exact IH. Qed.


    Lemma base_as_syn v : base_res (as_syn v). Proof. destruct v; cbn; exact I. Qed.

    Ltac phi_prim :=
      first [ apply jk_ret | apply jk_get | apply jk_set_llocals | apply jk_set_lscoped
            | apply jk_push_lstmt | apply jk_set_lparams | apply jk_set_lprev
            | apply jk_lpoll | apply jk_ladd_node | apply jk_ladd_node_attr | apply jk_lcall
            | apply jk_lattr_node_add | apply jk_ledge_add | apply jk_lattr_edge_add
            | apply jk_panic | apply jk_oof | apply jk_fail; exact I | apply jk_fail_in; exact I
            | apply jk_lift; first [apply base_as_bool | apply base_as_str | apply base_as_list | apply base_as_gnode
                                    | apply base_as_syn | apply base_from_nodes] ].
    Ltac phi_step :=
      first [ phi_prim
            | apply jk_bind; [|intros ?]
            | pctx
            | apply jk_mapM; intros ?
            | apply jk_iterM; intros ?
            | match goal with |- jok (match ?x with _ => _ end) => destruct x end
            | match goal with |- jok (if ?x then _ else _) => destruct x end ].
    Ltac phi := repeat phi_step.

    Lemma jk_lpoll_n n l : jok (lpoll_n n l).
    Proof. induction n as [|n IH]; cbn [lpoll_n]; [apply jk_ret|]. apply jk_bind; [apply jk_lpoll|intros _; exact IH]. Qed.
    Lemma jk_lopt_node_attr n name v : jok (lopt_node_attr n name v). Proof. unfold lopt_node_attr. phi. Qed.
    Lemma jk_lpush_frame : jok lpush_frame. Proof. unfold lpush_frame. phi. Qed.
    Lemma jk_lpop_frame : jok lpop_frame. Proof. unfold lpop_frame. phi. Qed.
    Lemma jk_lclear_frame : jok lclear_frame. Proof. unfold lclear_frame. phi. Qed.
    Lemma jk_cell_get name : jok (cell_get name). Proof. unfold cell_get. phi. Qed.
    Lemma jk_cell_set name v : jok (cell_set name v). Proof. unfold cell_set. phi. Qed.
    Lemma jk_scoped_store_add sc name v dbg : jok (scoped_store_add sc name v dbg).
    Proof. unfold scoped_store_add. apply jk_bind; [apply jk_cell_get|intros c]. destruct c as [[| |]|]; first [apply jk_cell_set | apply jk_fail; exact I]. Qed.
    Lemma jk_lpush_param v : jok (lpush_param v). Proof. unfold lpush_param. phi. Qed.
    Lemma jk_ldrain_params n : jok (ldrain_params n). Proof. unfold ldrain_params. phi. Qed.
    Lemma jk_prev_insert k dbg : jok (prev_insert k dbg). Proof. unfold prev_insert. phi. Qed.
    Lemma jk_ledge_exists a b : jok (ledge_exists a b). Proof. unfold ledge_exists. phi. Qed.
    Lemma jk_lfull_match_node le : jok (lfull_match_node le). Proof. unfold lfull_match_node. phi. Qed.
    Lemma jk_lunscoped_get name : jok (lunscoped_get glob name). Proof. unfold lunscoped_get. phi. Qed.
    Lemma jk_lunscoped_add le name v m : jok (lunscoped_add glob le name v m).
    Proof. unfold lunscoped_add. destruct (globals_get glob name); [apply jk_fail; exact I|]. apply jk_bind; [apply jk_store_add|intros var]. phi. Qed.
    Lemma jk_lunscoped_set le name v : jok (lunscoped_set glob le name v).
    Proof. unfold lunscoped_set. destruct (globals_get glob name); [apply jk_fail; exact I|]. apply jk_bind; [apply jk_store_add|intros var]. phi. Qed.

    Ltac phi2_step :=
      first [ apply jk_lpoll_n | apply jk_lopt_node_attr | apply jk_lpush_frame | apply jk_lpop_frame | apply jk_lclear_frame
            | apply jk_store_add | apply jk_cell_get | apply jk_cell_set | apply jk_scoped_store_add
            | apply jk_lpush_param | apply jk_ldrain_params | apply jk_prev_insert | apply jk_ledge_exists
            | apply jk_lfull_match_node | apply jk_lunscoped_get | apply jk_lunscoped_add | apply jk_lunscoped_set
            | phi_step ].
    Ltac phi2 := repeat phi2_step.

    Lemma jk_force_pairs ev : (forall sc, jok (ev sc)) -> forall ps values dbgs, jok (force_pairs ev ps values dbgs).
    Proof.
      intros Hev. induction ps as [|[[scope v] dbg] ps IHp]; intros values dbgs; cbn [force_pairs]; [apply jk_ret|].
      apply jk_bind; [pctx; pctx; apply Hev|intros n].
      destruct (nmap_get values n); [|apply IHp]. destruct (dbg_get dbgs n); [apply jk_fail_in; exact I|apply jk_panic].
    Qed.


    (* ---- evaluation of arbitrary lazy values: forcing by hand ---- *)
    Lemma jk_force_thunk_step fuel : (forall lv, jok (eval_lv' fuel lv)) -> forall loc, jok (force_thunk' (S fuel) loc).
    Proof.
      intros IHe loc s p a s' p' Hb HJ H. destruct (Nat.lt_ge_cases (N.to_nat loc) (length rhoK)) as [Hlt|Hge].
      - pose proof (force_den_thunk (S fuel) rhoK dt loc s p Hlt HJ Hb) as L. rewrite H in L. cbn [lres] in L.
        destruct L as (Hb' & st' & -> & HJ'). auto.
      - cbn [force_thunk] in H. apply bind_ok in H as (s0 & s1 & p1 & E & H). apply get_ok in E as (-> & -> & ->).
        destruct (nth_error (l_store s) (N.to_nat loc)) as [th|] eqn:Eth; [|discriminate]. apply ctx_wrap_ok in H.
        destruct (th_state th) as [inner| |v0] eqn:Es.
        + apply bind_ok in H as (u1 & s1 & p1 & E1 & H). rewrite store_set_state_eq in E1. inversion E1; subst s1 p1; clear E1.
          apply bind_ok in H as (v & s2 & p2 & E2 & H). apply bind_ok in H as (u3 & s3 & p3 & E3 & H). apply ret_ok in H as (_ & -> & ->).
          rewrite store_set_state_eq in E3. inversion E3; subst s3 p3; clear E3.
          assert (Hd : forall dloc dlv, dt = Some (dloc, dlv) -> dloc <> N.to_nat loc).
          { intros dloc dlv -> ->. destruct HJ as [Hs (A1 & A2 & dbg & A3)]. rewrite Eth in A3. inversion A3; subst th. cbn [th_state] in Es. inversion Es; subst inner.
            assert (Hbad : nok (eval_lv' fuel dlv (set_store (list_update (N.to_nat loc) (fun th => {| th_state := TForcing; th_dbg := th_dbg th |}) (l_store s)) s) p)).
            { apply A2; [|exact Hb]. cbn [set_store l_store]. apply sbk_update; assumption. }
            exact (nres_ok _ _ _ _ _ Hbad E2). }
          assert (HJ1 : Jst rhoK dt (l_store (set_store (list_update (N.to_nat loc) (fun th => {| th_state := TForcing; th_dbg := th_dbg th |}) (l_store s)) s))).
          { cbn [set_store l_store]. apply Jst_update; assumption. }
          destruct (IHe inner _ _ _ _ _ Hb HJ1 E2) as [Hb2 HJ2]. split; [exact Hb2|]. cbn [set_store l_store]. apply Jst_update; assumption.
        + discriminate.
        + apply ret_ok in H as (_ & -> & ->). auto.
    Qed.

    Lemma jk_eval_all : forall fuel,
      (forall lv, jok (eval_lv' fuel lv)) /\ (forall loc, jok (force_thunk' fuel loc)) /\ (forall name cell, jok (force_scoped' fuel name cell)).
    Proof.
      induction fuel as [|fuel (IHe & IHt & IHs)]; [split; [intros lv|split; [intros loc|intros name cell]]; apply jk_oof|].
      split; [|split].
      - intros lv. destruct lv; cbn [eval_lv]; (apply jk_bind; [apply jk_lpoll|intros _]).
        + apply jk_ret.
        + phi2. apply IHe.
        + phi2. apply IHe.
        + apply IHt.
        + apply jk_bind.
          { pctx. apply jk_bind; [apply IHe|intros sv]. apply jk_lift, base_as_syn. }
          intros n. apply jk_bind; [apply jk_cell_get|intros c]. destruct c as [cell|]; [|apply jk_fail; exact I].
          apply jk_bind; [apply jk_cell_set|intros _]. apply jk_bind; [apply IHs|intros map]. cbv zeta.
          apply jk_bind; [apply jk_cell_set|intros _].
          match goal with |- jok (match ?x with _ => _ end) => destruct x end; [apply IHe|apply jk_fail; exact I].
        + phi2. apply IHe.
      - apply jk_force_thunk_step. exact IHe.
      - intros name cell. cbn [force_scoped]. destruct cell as [pairs| |map]; [|apply jk_fail; exact I|apply jk_ret].
        apply jk_force_pairs. intros scope. apply jk_bind; [exact (IHe scope)|intros sv]. apply jk_lift, base_as_syn.
    Qed.
    Lemma jk_eval_lv fuel lv : jok (eval_lv' fuel lv). Proof. apply jk_eval_all. Qed.
    Lemma jk_force_thunk fuel loc : jok (force_thunk' fuel loc). Proof. apply jk_eval_all. Qed.
    Lemma jk_force_scoped fuel name cell : jok (force_scoped' fuel name cell). Proof. apply jk_eval_all. Qed.

    Lemma jk_eval_as_gnode fuel lv : jok (eval_as_gnode t fl call fuel lv).
    Proof. unfold eval_as_gnode. apply jk_bind; [apply jk_eval_lv|intros v; apply jk_lift, base_as_gnode]. Qed.

    Lemma jk_eval_lstmt fuel st : jok (eval_lstmt t fl call fuel st).
    Proof.
      unfold eval_lstmt. apply jk_bind; [apply jk_lpoll|intros _]. destruct st.
      - pctx. apply jk_bind; [pctx; apply jk_eval_as_gnode|intros n]. apply jk_iterM. intros a.
        apply jk_bind; [apply jk_eval_lv|intros v]. apply jk_bind; [apply jk_prev_insert|intros prev]. apply jk_lattr_node_add.
      - pctx. apply jk_bind; [pctx; apply jk_eval_as_gnode|intros a]. apply jk_bind; [pctx; apply jk_eval_as_gnode|intros b].
        apply jk_ledge_add.
      - pctx. apply jk_bind; [pctx; apply jk_eval_as_gnode|intros a]. apply jk_bind; [pctx; apply jk_eval_as_gnode|intros b].
        apply jk_iterM. intros ak. apply jk_bind; [apply jk_eval_lv|intros v]. apply jk_bind; [apply jk_ledge_exists|intros ex].
        destruct ex; [|apply jk_fail; exact I]. apply jk_bind; [apply jk_prev_insert|intros prev]. apply jk_lattr_edge_add.
      - pctx. apply jk_iterM. intros a. destruct a; [|apply jk_ret]. apply jk_bind; [apply jk_eval_lv|intros _; apply jk_ret].
    Qed.


    (* ---- execution phase ---- *)
    Notation leval' := (leval t fl glob call).
    Lemma jk_leval : forall fuel le e, jok (leval' fuel le e).
    Proof.
      induction fuel as [|fuel IH]; intros le e; [apply jk_oof|].
      assert (Heager : forall e', jok (lv <- leval' fuel le e' ;; eval_lv' (S fuel + default_eval_fuel) lv)).
      { intros e'. apply jk_bind; [apply IH|intros lv; apply jk_eval_lv]. }
      assert (Hcomp : forall elem var value,
        jok (lv <- (lv <- leval' fuel le value ;; eval_lv' (S fuel + default_eval_fuel) lv) ;; vals <- lift (as_list lv) ;;
             lpush_frame ;;;
             out <- mapM (fun v => lclear_frame ;;; lunscoped_add glob le var (LValue v) false ;;; leval' fuel le elem) vals ;;
             lpop_frame ;;; ret out)).
      { intros elem var value. apply jk_bind; [apply Heager|intros lv]. apply jk_bind; [apply jk_lift, base_as_list|intros vals].
        apply jk_bind; [apply jk_lpush_frame|intros _]. apply jk_bind.
        - apply jk_mapM. intros v. apply jk_bind; [apply jk_lclear_frame|intros _]. apply jk_bind; [apply jk_lunscoped_add|intros _]. apply IH.
        - intros out. apply jk_bind; [apply jk_lpop_frame|intros _; apply jk_ret]. }
      destruct e; cbn [leval]; try (phi2; apply IH).
      - apply jk_bind; [apply Hcomp|intros out; apply jk_ret].
      - apply jk_bind; [apply Hcomp|intros out; apply jk_ret].
    Qed.
    Lemma jk_leager fuel le e : jok (leager t fl glob call fuel le e).
    Proof. unfold leager. apply jk_bind; [apply jk_leval|intros lv; apply jk_eval_lv]. Qed.
    Lemma jk_lvar_add fuel le v x m : jok (lvar_add t fl glob call fuel le v x m).
    Proof.
      destruct v; cbn [lvar_add]; [apply jk_lunscoped_add|]. destruct m; [apply jk_fail; exact I|].
      apply jk_bind; [apply jk_leval|intros sv]. apply jk_bind; [apply jk_store_add|intros var]. apply jk_scoped_store_add.
    Qed.
    Lemma jk_lvar_set fuel le v x : jok (lvar_set glob fuel le v x).
    Proof. destruct v; cbn [lvar_set]; [apply jk_lunscoped_set|apply jk_fail; exact I]. Qed.
    Lemma jk_ltest_cond fuel le c : jok (ltest_cond t fl glob call fuel le c).
    Proof. destruct c; cbn [ltest_cond]; (apply jk_bind; [apply jk_leager|intros v]); try apply jk_ret. apply jk_lift, base_as_bool. Qed.

    Notation lexec_attr' := (lexec_attr t fl glob call).
    Lemma jk_lexec_attr : forall fuel le a, jok (lexec_attr' fuel le a).
    Proof.
      induction fuel as [|fuel IH]; intros le a; [apply jk_oof|].
      destruct a as [name value]. cbn [lexec_attr]. apply jk_bind; [apply jk_lpoll|intros _].
      apply jk_bind; [apply jk_leval|intros v]. destruct (find_shorthand name (f_shorthands fl)) as [sh|]; [|apply jk_ret].
      apply jk_bind; [apply jk_get|intros s]. cbv zeta. apply jk_bind; [apply jk_set_llocals|intros _].
      apply jk_bind; [apply jk_lunscoped_add|intros _]. apply jk_bind; [apply jk_mapM; intros; apply IH|intros outs].
      apply jk_bind; [apply jk_set_llocals|intros _; apply jk_ret].
    Qed.

    Lemma jk_lscan_loop run_arm arms rs subject :
      (forall caps body, jok (run_arm caps body)) ->
      forall sfuel i, jok (lscan_loop find run_arm arms rs subject sfuel i).
    Proof.
      intros Hrun. induction sfuel as [|sfuel IHs]; intros i; cbn [lscan_loop]; [apply jk_oof|].
      destruct (N.ltb i (N.of_nat (length subject))); [|apply jk_ret]. cbv zeta.
      apply jk_bind; [apply jk_lpoll_n|intros _].
      destruct (arm_select find rs (skipn (N.to_nat i) subject)) as [|k|k caps]; [apply jk_ret|apply jk_fail; exact I|].
      destruct (nth_error arms (N.to_nat k)) as [[[r body] l']|]; [|apply jk_panic].
      apply jk_bind; [apply jk_lpush_frame|intros _].
      apply jk_bind; [apply Hrun|intros _].
      apply jk_bind; [apply jk_lpop_frame|intros _]. apply IHs.
    Qed.
    Lemma jk_lif_loop test run_body :
      (forall c, jok (test c)) -> (forall body, jok (run_body body)) ->
      forall arms, jok (lif_loop test run_body arms).
    Proof.
      intros Ht Hr. induction arms as [|[[conds body] l'] arms IHa]; cbn [lif_loop]; [apply jk_ret|].
      apply jk_bind; [apply jk_mapM; intros c; apply Ht|intros bs].
      destruct (forallb (fun b => b) bs); [|exact IHa].
      apply jk_bind; [apply jk_lpush_frame|intros _].
      apply jk_bind; [apply Hr|intros _]. apply jk_lpop_frame.
    Qed.

    Notation lexec_stmt' := (lexec_stmt t fl cfg glob regexes find call).
    Lemma jk_lexec_stmt : forall fuel le s, jok (lexec_stmt' fuel le s).
    Proof.
      induction fuel as [|fuel IH]; intros le s; [apply jk_oof|].
      assert (Hblock : forall le' body,
                 jok (iterM (fun st => lexec_stmt' fuel (ll_with_ctx le' (ctx_update (ll_ctx le') st)) st) body)).
      { intros le' body. apply jk_iterM. intros st. apply IH. }
      assert (Harm : forall le' body,
                 jok (iterM (fun st => let c := ctx_update (ll_ctx le') st in
                                       ctx_wrap (CtxStmts [c]) (ctx_wrap CtxOther (lexec_stmt' fuel (ll_with_ctx le' c) st))) body)).
      { intros le' body. apply jk_iterM. intros st. cbv zeta. pctx; pctx; apply IH. }
      destruct s; cbn [lexec_stmt]; (apply jk_bind; [apply jk_lpoll|intros _]).
      - apply jk_bind; [apply jk_leval|intros x; apply jk_lvar_add].
      - apply jk_bind; [apply jk_leval|intros x; apply jk_lvar_add].
      - apply jk_bind; [apply jk_leval|intros x; apply jk_lvar_set].
      - phi2. all: apply jk_lvar_add.
      - apply jk_bind; [apply jk_leval|intros nv]. apply jk_bind; [apply jk_mapM; intros; apply jk_lexec_attr|intros outs]. apply jk_push_lstmt.
      - apply jk_bind; [apply jk_leval|intros a]. apply jk_bind; [apply jk_leval|intros b]. cbv zeta. apply jk_push_lstmt.
      - apply jk_bind; [apply jk_leval|intros a]. apply jk_bind; [apply jk_leval|intros b].
        apply jk_bind; [apply jk_mapM; intros; apply jk_lexec_attr|intros outs]. apply jk_push_lstmt.
      - apply jk_bind; [apply jk_leager|intros sv]. apply jk_bind; [apply jk_lift, base_as_str|intros subject].
        destruct (arm_table regexes arms) as [rs|]; [|apply jk_panic].
        apply jk_lscan_loop. intros caps body. apply (Harm (ll_with_caps le caps) body).
      - apply jk_bind; [|intros args; apply jk_push_lstmt]. apply jk_mapM. intros e. destruct e; try apply jk_ret.
        all: apply jk_bind; [apply jk_leval|intros lv; apply jk_ret].
      - apply jk_lif_loop; [intros c; apply jk_ltest_cond|]. intros body. apply (Hblock le body).
      - apply jk_bind; [apply jk_leager|intros lv]. apply jk_bind; [apply jk_lift, base_as_list|intros vals].
        apply jk_bind; [apply jk_lpush_frame|intros _]. apply jk_bind; [|intros _; apply jk_lpop_frame].
        apply jk_iterM. intros v. apply jk_bind; [apply jk_lclear_frame|intros _].
        apply jk_bind; [apply jk_lunscoped_add|intros _]. apply (Hblock le body).
    Qed.

    Lemma jk_lexec_stanza fuel st m : jok (lexec_stanza t fl cfg glob regexes find call fuel st m).
    Proof.
      unfold lexec_stanza. apply jk_bind; [apply jk_lpoll|intros _]. apply jk_bind; [apply jk_lclear_frame|intros _].
      cbv zeta. destruct (nodes_for_capture m (st_full_file_idx st)); [apply jk_panic|]. apply jk_iterM. intros s. pctx; apply jk_lexec_stmt.
    Qed.

  End Jok.

  (* ================= lazy values and deferred statements whose evaluation cannot succeed ================= *)
  Lemma Jst_none rhoK st : sbk rhoK st -> Jst rhoK None st. Proof. intros H. split; [exact H|exact I]. Qed.

  (* a computation that preserves `sbk` when it succeeds: reading `jok` with no doomed thunk *)
  Lemma jok_nres {A} rhoK (m : M lstate A) s p : jok rhoK None m -> sbk rhoK (l_store s) -> nob p ->
    nres (m s p) (fun _ s' p' => nob p' /\ sbk rhoK (l_store s')).
  Proof.
    intros Hm Hs Hb. destruct (m s p) as [[[a s'] p']|e|x|] eqn:E; cbn [nres]; auto.
    destruct (Hm _ _ _ _ _ Hb (Jst_none _ _ Hs) E) as [Hb' [Hs' _]]. auto.
  Qed.
  Lemma den_nres F rhoK lv v ls pl (Phi : value -> lstate -> polls -> Prop) : den rhoK lv v -> sbk rhoK (l_store ls) -> nob pl ->
    (forall st' pl', nob pl' -> sbk rhoK st' -> Phi v (set_store st' ls) pl') -> nres (eval_lv' F lv ls pl) Phi.
  Proof.
    intros Hd Hs Hb H. apply nres_of_lres. eapply lres_mono; [apply (force_den F rhoK None lv v ls pl Hd (Jst_none _ _ Hs) Hb)|].
    intros v' ls' pl' (-> & Hb' & st' & -> & [Hs' _]). apply H; assumption.
  Qed.

  Lemma nok_bind {A B} (m : M lstate A) (f : A -> M lstate B) s p : nok (m s p) -> nok (bind m f s p).
  Proof. intros H. apply nres_bind. apply nok_nres. exact H. Qed.

  Lemma mapM_bad F rhoK pre vs x post : Forall2 (den rhoK) pre vs -> bad_lv rhoK x ->
    forall ls pl, sbk rhoK (l_store ls) -> nob pl -> nok (mapM (eval_lv' F) (pre ++ x :: post) ls pl).
  Proof.
    intros HF Hx. induction HF as [|e v pre vs Hd _ IH]; intros ls pl Hs Hb; cbn [app mapM].
    - apply nok_bind. apply Hx; assumption.
    - apply nres_bind. apply (den_nres F rhoK e v ls pl _ Hd Hs Hb). intros st' pl' Hb' Hs'. apply nok_bind. apply IH; assumption.
  Qed.
  Lemma bad_list rhoK pre vs x post : Forall2 (den rhoK) pre vs -> bad_lv rhoK x -> bad_lv rhoK (LList (pre ++ x :: post)).
  Proof.
    intros HF Hx F ls pl Hs Hb. destruct F as [|F]; [exact I|]. cbn [eval_lv]. apply nres_bind. unfold lpoll. apply nres_poll; [exact Hb|]. intros pl0 Hb0.
    apply nok_bind. apply (mapM_bad F rhoK pre vs x post HF Hx); assumption.
  Qed.
  Lemma bad_set rhoK pre vs x post : Forall2 (den rhoK) pre vs -> bad_lv rhoK x -> bad_lv rhoK (LSet (pre ++ x :: post)).
  Proof.
    intros HF Hx F ls pl Hs Hb. destruct F as [|F]; [exact I|]. cbn [eval_lv]. apply nres_bind. unfold lpoll. apply nres_poll; [exact Hb|]. intros pl0 Hb0.
    apply nok_bind. apply (mapM_bad F rhoK pre vs x post HF Hx); assumption.
  Qed.
  Lemma bad_call_arg rhoK f pre vs x post : Forall2 (den rhoK) pre vs -> bad_lv rhoK x -> bad_lv rhoK (LCall f (pre ++ x :: post)).
  Proof.
    intros HF Hx F ls pl Hs Hb. destruct F as [|F]; [exact I|]. cbn [eval_lv]. apply nres_bind. unfold lpoll. apply nres_poll; [exact Hb|]. intros pl0 Hb0.
    apply nok_bind. clear Hb pl. revert ls pl0 Hs Hb0. induction HF as [|e v pre vs Hd _ IH]; intros ls pl Hs Hb; cbn [app iterM].
    - apply nok_bind. apply nok_bind. apply Hx; assumption.
    - apply nres_bind. apply nres_bind. apply (den_nres F rhoK e v ls pl _ Hd Hs Hb). intros st' pl' Hb' Hs'.
      unfold lpush_param at 1. apply nres_get. unfold set_lparams, Lazy.upd. apply nres_modify. apply IH; assumption.
  Qed.
  (* a call that fails (or panics, or runs out of fuel) on every graph *)
  Lemma bad_call_fail rhoK f args vs : Forall2 (den rhoK) args vs ->
    (forall g, match call f g vs with Ok _ => False | _ => True end) -> bad_lv rhoK (LCall f args).
  Proof.
    intros HF Hc F ls pl Hs Hb. destruct F as [|F]; [exact I|]. cbn [eval_lv]. apply nres_bind. unfold lpoll. apply nres_poll; [exact Hb|]. intros pl0 Hb0.
    destruct Hs as (pad & Hst). destruct (force_all call t fl F) as [He _].
    assert (HF' : Forall2 (den (firstn (length rhoK) (rhoK ++ pad))) args vs) by (rewrite firstn_app_len; exact HF).
    apply nres_bind. apply nres_of_lres. eapply lres_mono; [apply (force_push_args call _ _ _ (He _ _) args vs ls pl0 HF' Hst Hb0)|].
    intros _ ls1 pl1 (Hb1 & st1 & -> & Hst1 & _). apply nres_bind. unfold ldrain_params. apply nres_get. cbn [set_params_l set_store l_params].
    rewrite app_length, <- (Forall2_len _ _ _ HF).
    destruct (Nat.ltb_spec (length (l_params ls) + length args) (length args)) as [Hlt|_]; [exfalso; lia|].
    replace (length (l_params ls) + length args - length args)%nat with (length (l_params ls)) by lia.
    rewrite firstn_app, firstn_all, Nat.sub_diag, firstn_O, app_nil_r, skipn_app, skipn_all, Nat.sub_diag, skipn_O. cbn [app].
    apply nres_bind. unfold set_lparams, Lazy.upd. apply nres_modify. apply nres_ret.
    unfold lcall_function. apply nres_get. cbn [l_graph set_params_l set_store]. specialize (Hc (l_graph ls)).
    destruct (call f (l_graph ls) vs) as [[v g']|e|x|]; [contradiction|exact I|exact I|exact I].
  Qed.

  (* the endpoint of an edge / the node of an attribute statement does not evaluate to a graph node *)
  Definition bad_end (rhoK : list value) (lv : lvalue) : Prop :=
    forall F ls pl, sbk rhoK (l_store ls) -> nob pl -> nok (eval_as_gnode t fl call F lv ls pl).
  Lemma bad_end_lv rhoK lv : bad_lv rhoK lv -> bad_end rhoK lv.
  Proof. intros H F ls pl Hs Hb. unfold eval_as_gnode. apply nok_bind. apply H; assumption. Qed.
  Lemma bad_end_type rhoK lv v : den rhoK lv v -> (forall n, v <> VGraph n) -> bad_end rhoK lv.
  Proof.
    intros Hd Hv F ls pl Hs Hb. unfold eval_as_gnode. apply nres_bind. apply (den_nres F rhoK lv v ls pl _ Hd Hs Hb). intros st' pl' _ _.
    apply nres_lift. intros n Hn. destruct v; cbn in Hn; try discriminate. eapply Hv; reflexivity.
  Qed.

  Notation eval_lstmt' := (eval_lstmt t fl call).
  Definition bad_stmt (rhoK : list value) (st : lstmt) : Prop :=
    forall F ls pl, sbk rhoK (l_store ls) -> nob pl -> nok (eval_lstmt' F st ls pl).
  (* ... cannot succeed on a graph that extends G (an attribute that conflicts with a value present in G) *)
  Definition bad_stmt_g (rhoK : list value) (G : graph) (st : lstmt) : Prop :=
    forall F ls pl, sbk rhoK (l_store ls) -> graph_ext G (l_graph ls) -> nob pl -> nok (eval_lstmt' F st ls pl).

  Definition sinv (rhoK : list value) (s : lstate) (p : polls) : Prop := nob p /\ sbk rhoK (l_store s).
  Lemma jok_sinv {A} rhoK (m : M lstate A) s p : jok rhoK None m -> sinv rhoK s p -> nres (m s p) (fun _ s' p' => sinv rhoK s' p').
  Proof. intros Hm [Hb Hs]. apply jok_nres; assumption. Qed.

  Lemma bad_stmt_node_end rhoK n attrs dbg : bad_end rhoK n -> bad_stmt rhoK (LSAttrNode n attrs dbg).
  Proof.
    intros Hn F ls pl Hs Hb. unfold eval_lstmt. apply nres_bind. unfold lpoll. apply nres_poll; [exact Hb|]. intros pl0 Hb0.
    apply nres_ctx. apply nok_bind. apply nres_ctx. apply Hn; assumption.
  Qed.
  Lemma bad_stmt_node_attr rhoK n attrs dbg k lv : In (k, lv) attrs -> bad_lv rhoK lv -> bad_stmt rhoK (LSAttrNode n attrs dbg).
  Proof.
    intros Hin Hlv F ls pl Hs Hb. unfold eval_lstmt. apply nres_bind. unfold lpoll. apply nres_poll; [exact Hb|]. intros pl0 Hb0.
    apply nres_ctx. apply nres_bind. apply nres_ctx. eapply nres_mono; [apply (jok_nres rhoK _ ls pl0 (jk_eval_as_gnode rhoK None F n) Hs Hb0)|].
    intros x ls1 pl1 [Hb1 Hs1]. apply (nok_iter (sinv rhoK) _ attrs (k, lv) Hin); [| |split; assumption].
    - intros a s p HI. apply jok_sinv; [|exact HI]. apply jk_bind; [apply jk_eval_lv|intros v]. apply jk_bind; [apply jk_prev_insert|intros prev]. apply jk_lattr_node_add.
    - intros s p [Hb2 Hs2]. cbn [fst snd]. apply nok_bind. apply Hlv; assumption.
  Qed.
  Lemma bad_stmt_edge_src rhoK a b ea dbg : bad_end rhoK a -> bad_stmt rhoK (LSEdge a b ea dbg).
  Proof.
    intros Hn F ls pl Hs Hb. unfold eval_lstmt. apply nres_bind. unfold lpoll. apply nres_poll; [exact Hb|]. intros pl0 Hb0.
    apply nres_ctx. apply nok_bind. apply nres_ctx. apply Hn; assumption.
  Qed.
  Lemma bad_stmt_edge_snk rhoK a b ea dbg : bad_end rhoK b -> bad_stmt rhoK (LSEdge a b ea dbg).
  Proof.
    intros Hn F ls pl Hs Hb. unfold eval_lstmt. apply nres_bind. unfold lpoll. apply nres_poll; [exact Hb|]. intros pl0 Hb0.
    apply nres_ctx. apply nres_bind. apply nres_ctx. eapply nres_mono; [apply (jok_nres rhoK _ ls pl0 (jk_eval_as_gnode rhoK None F a) Hs Hb0)|].
    intros x ls1 pl1 [Hb1 Hs1]. apply nok_bind. apply nres_ctx. apply Hn; assumption.
  Qed.
  Lemma bad_stmt_aedge_src rhoK a b attrs dbg : bad_end rhoK a -> bad_stmt rhoK (LSAttrEdge a b attrs dbg).
  Proof.
    intros Hn F ls pl Hs Hb. unfold eval_lstmt. apply nres_bind. unfold lpoll. apply nres_poll; [exact Hb|]. intros pl0 Hb0.
    apply nres_ctx. apply nok_bind. apply nres_ctx. apply Hn; assumption.
  Qed.
  Lemma bad_stmt_aedge_snk rhoK a b attrs dbg : bad_end rhoK b -> bad_stmt rhoK (LSAttrEdge a b attrs dbg).
  Proof.
    intros Hn F ls pl Hs Hb. unfold eval_lstmt. apply nres_bind. unfold lpoll. apply nres_poll; [exact Hb|]. intros pl0 Hb0.
    apply nres_ctx. apply nres_bind. apply nres_ctx. eapply nres_mono; [apply (jok_nres rhoK _ ls pl0 (jk_eval_as_gnode rhoK None F a) Hs Hb0)|].
    intros x ls1 pl1 [Hb1 Hs1]. apply nok_bind. apply nres_ctx. apply Hn; assumption.
  Qed.
  Lemma bad_stmt_aedge_attr rhoK a b attrs dbg k lv : In (k, lv) attrs -> bad_lv rhoK lv -> bad_stmt rhoK (LSAttrEdge a b attrs dbg).
  Proof.
    intros Hin Hlv F ls pl Hs Hb. unfold eval_lstmt. apply nres_bind. unfold lpoll. apply nres_poll; [exact Hb|]. intros pl0 Hb0.
    apply nres_ctx. apply nres_bind. apply nres_ctx. eapply nres_mono; [apply (jok_nres rhoK _ ls pl0 (jk_eval_as_gnode rhoK None F a) Hs Hb0)|].
    intros x ls1 pl1 [Hb1 Hs1]. apply nres_bind. apply nres_ctx. eapply nres_mono; [apply (jok_nres rhoK _ ls1 pl1 (jk_eval_as_gnode rhoK None F b) Hs1 Hb1)|].
    intros y ls2 pl2 [Hb2 Hs2]. apply (nok_iter (sinv rhoK) _ attrs (k, lv) Hin); [| |split; assumption].
    - intros ak s p HI. apply jok_sinv; [|exact HI]. apply jk_bind; [apply jk_eval_lv|intros v]. apply jk_bind; [apply jk_ledge_exists|intros ex].
      destruct ex; [|apply jk_fail; exact I]. apply jk_bind; [apply jk_prev_insert|intros prev]. apply jk_lattr_edge_add.
    - intros s p [Hb3 Hs3]. cbn [fst snd]. apply nok_bind. apply Hlv; assumption.
  Qed.
  Lemma bad_stmt_print rhoK args dbg lv : In (Some lv) args -> bad_lv rhoK lv -> bad_stmt rhoK (LSPrint args dbg).
  Proof.
    intros Hin Hlv F ls pl Hs Hb. unfold eval_lstmt. apply nres_bind. unfold lpoll. apply nres_poll; [exact Hb|]. intros pl0 Hb0.
    apply nres_ctx. apply (nok_iter (sinv rhoK) _ args (Some lv) Hin); [| |split; assumption].
    - intros a s p HI. apply jok_sinv; [|exact HI]. destruct a as [lv0|]; [|apply jk_ret]. apply jk_bind; [apply jk_eval_lv|intros v; apply jk_ret].
    - intros s p [Hb3 Hs3]. apply nok_bind. apply Hlv; assumption.
  Qed.
End Store.
