(* Proofs/Parser.v — facts about Model/Parser.v.
   Part 1: totality (no RFuel with fuel > remaining length; panics only where an external says so;
           no error of the dead variant ExpectedQuantifier: live_error).
   Part 2: exact characterisations (location arithmetic, whitespace, tokens, names, strings, integers). *)
From TSG Require Import Model.Parser Spec.Render Proofs.BaseFacts.

Definition len (s : pst) : nat := length (p_rest s).

Lemma len_advance s c r : len (advance s c r) = length r.
Proof. reflexivity. Qed.

Lemma skip_unwrap_eq site s c r : p_rest s = c :: r -> skip_unwrap site s = ROk tt (advance s c r).
Proof. intros E. unfold skip_unwrap, next. rewrite E. reflexivity. Qed.

Lemma next_eq s c r : p_rest s = c :: r -> next s = ROk c (advance s c r).
Proof. intros E. unfold next. rewrite E. reflexivity. Qed.

Lemma peek_eq s c r : p_rest s = c :: r -> peek s = ROk c s.
Proof. intros E. unfold peek. rewrite E. reflexivity. Qed.

(* the repaired parse_quantifier returns no ParseError at all (ExpectedQuantifier is dead) *)
Lemma parse_quantifier_no_error s : match parse_quantifier s with RErr _ => False | _ => True end.
Proof.
  unfold parse_quantifier. destruct (match p_rest s with [] => None | c :: _ => quantifier_of c end); [|exact I].
  unfold bind, skip_unwrap, next. destruct (p_rest s); exact I.
Qed.

(* the ParseError variants the parser can still produce: all but ExpectedQuantifier *)
Definition live_error (e : parse_error) : Prop := match e with PEExpectedQuantifier _ => False | _ => True end.

(* ================================================================== Part 1: totality *)
Section Total.
  Variables (X : ext) (F : nat) (PanicAllowed : N -> Prop) (MissAllowed : Prop).
  Hypothesis Hquery : forall a b,
    match x_query X a b with
    | None => MissAllowed | Some (QOk _ None) => PanicAllowed 7 | _ => True end.
  Hypothesis Hmerged : forall q,
    match x_merged X q with None => MissAllowed | Some false => PanicAllowed 8 | Some true => True end.
  Hypothesis Hregex : forall p, x_regex X p = None -> MissAllowed.

  Definition good {A} (P : A -> pst -> Prop) (r : pr A) : Prop :=
    match r with
    | ROk a s' => P a s' | RErr e => live_error e | RPanic n => PanicAllowed n | RFuel => False | RMiss => MissAllowed
    end.

  Notation LE s := (fun _ s' => (len s' <= len s)%nat).
  Notation LT s := (fun _ s' => (len s' < len s)%nat).

  Lemma good_bind {A B} (m : M A) (f : A -> M B) s (Q : A -> pst -> Prop) (P : B -> pst -> Prop) :
    good Q (m s) -> (forall a s', Q a s' -> good P (f a s')) -> good P (bind m f s).
  Proof. unfold bind. destruct (m s); cbn; auto. Qed.

  Lemma good_weaken {A} (Q P : A -> pst -> Prop) r :
    good Q r -> (forall a s', Q a s' -> P a s') -> good P r.
  Proof. destruct r; cbn; auto. Qed.

  Lemma good_if_ok {A B} (m : M A) (th el : M B) s (Q : A -> pst -> Prop) (P : B -> pst -> Prop) :
    good Q (m s) -> (forall a s', Q a s' -> good P (th s')) -> good P (el s) -> good P (if_ok m th el s).
  Proof. unfold if_ok. destruct (m s); cbn; eauto. Qed.

  Lemma good_ret {A} (P : A -> pst -> Prop) a s : P a s -> good P (ret a s).
  Proof. auto. Qed.
  Lemma good_fail {A} (P : A -> pst -> Prop) e s : live_error e -> good P (fail e s).
  Proof. intros H. exact H. Qed.

  Lemma get_loc_good s : good (fun _ s' => s' = s) (get_loc s).
  Proof. reflexivity. Qed.
  Lemma get_off_good s : good (fun _ s' => s' = s) (get_off s).
  Proof. reflexivity. Qed.
  Lemma peek_good s : good (fun _ s' => s' = s /\ (0 < len s)%nat) (peek s).
  Proof. unfold peek, len. destruct (p_rest s); cbn; auto with arith. Qed.
  Lemma next_good s : good (LT s) (next s).
  Proof. unfold next, len. destruct (p_rest s); cbn; auto. Qed.

  (* ---- scanning loops ---- *)
  Lemma ws_loop_good k : forall ic s, (len s < k)%nat -> good (LE s) (ws_loop X k ic s).
  Proof.
    induction k as [|k IH]; intros ic s Hk; [lia|].
    cbn [ws_loop]. destruct (p_rest s) as [|ch r] eqn:E; [cbn; lia|].
    assert (Hstep : forall b, good (LE s) ((skip_unwrap 1 ;;; ws_loop X k b) s)).
    { intros b. unfold bind. rewrite (skip_unwrap_eq _ _ _ _ E).
      assert (Hl : len s = S (length r)) by (unfold len; rewrite E; reflexivity).
      eapply good_weaken; [apply IH; rewrite len_advance; lia|].
      cbv beta. intros _ s'. rewrite len_advance. lia. }
    destruct ic; [apply Hstep|]. destruct (ch =? 59); [apply Hstep|].
    destruct (negb (is_whitespace X ch)); [cbn; lia | apply Hstep].
  Qed.
  Lemma consume_whitespace_good s : (len s < F)%nat -> good (LE s) (consume_whitespace X F s).
  Proof. apply ws_loop_good. Qed.

  Lemma while_loop_good f k : forall s, (len s < k)%nat -> good (LE s) (while_loop f k s).
  Proof.
    induction k as [|k IH]; intros s Hk; [lia|].
    cbn [while_loop]. destruct (p_rest s) as [|ch r] eqn:E; [cbn; lia|].
    destruct (f ch); [|cbn; lia].
    unfold bind at 1. rewrite (skip_unwrap_eq _ _ _ _ E).
    assert (Hl : len s = S (length r)) by (unfold len; rewrite E; reflexivity).
    eapply good_bind; [apply IH; rewrite len_advance; lia|].
    cbv beta. intros l s'. rewrite len_advance. intros H. cbn. lia.
  Qed.
  Lemma consume_while_good f s : (len s < F)%nat -> good (LE s) (consume_while F f s).
  Proof. apply while_loop_good. Qed.

  Lemma consume_n_good n : forall s, good (fun _ s' => (len s' + n = len s)%nat) (consume_n n s).
  Proof.
    induction n as [|n IH]; intros s; cbn [consume_n]; [cbn; lia|].
    unfold bind, next. destruct (p_rest s) as [|c r] eqn:E; [exact I|].
    assert (Hl : len s = S (length r)) by (unfold len; rewrite E; reflexivity).
    eapply good_weaken; [apply IH|]. cbv beta. intros _ s'. rewrite len_advance. lia.
  Qed.
  Lemma consume_token_good tok s : good (fun _ s' => (len s' + length tok = len s)%nat) (consume_token tok s).
  Proof. unfold consume_token. destruct (starts_with tok (p_rest s)); [apply consume_n_good | exact I]. Qed.
  Lemma consume_keyword_good kw s : good (fun _ s' => (len s' + length kw = len s)%nat) (consume_keyword X kw s).
  Proof. unfold consume_keyword. destruct (_ && _); [apply consume_n_good | exact I]. Qed.

  Ltac leaf :=
    first
      [ apply consume_whitespace_good | apply consume_while_good | apply consume_token_good
      | apply consume_keyword_good | apply next_good | apply peek_good | apply get_loc_good
      | apply get_off_good ].
  Ltac gintro :=
    cbv beta;
    let a := fresh "a" in let s' := fresh "s" in let H := fresh "H" in
    intros a s' H;
    first [ match type of H with (s' = _ /\ _) => destruct H as [-> H] end
          | match type of H with (s' = _) => subst s' end
          | idtac ].
  Ltac gstep :=
    lazymatch goal with
    | |- good _ (bind _ _ _) => eapply good_bind; [ leaf; try lia | gintro ]
    | |- good _ (if_ok _ _ _ _) => eapply good_if_ok; [ leaf; try lia | gintro | ]
    | |- good _ (ret _ _) => apply good_ret; try lia
    | |- good _ (fail _ _) => exact I
    end.

  Lemma while_loop_good_lt f k s c r :
    p_rest s = c :: r -> f c = true -> (len s < k)%nat -> good (LT s) (while_loop f k s).
  Proof.
    intros E Hf Hk. destruct k as [|k]; [lia|]. cbn [while_loop]. rewrite E, Hf.
    unfold bind at 1. rewrite (skip_unwrap_eq _ _ _ _ E).
    assert (Hl : len s = S (length r)) by (unfold len; rewrite E; reflexivity).
    eapply good_bind; [apply while_loop_good; rewrite len_advance; lia|].
    cbv beta. intros l s'. rewrite len_advance. intros H. cbn. lia.
  Qed.

  Lemma parse_name_good w s : (len s < F)%nat -> good (LT s) (parse_name X F w s).
  Proof.
    intros HF. unfold parse_name. gstep. destruct (negb (is_ident_start X a)).
    - gstep. gstep.
    - gstep. gstep.
  Qed.

  Lemma string_loop_good k : forall esc s, (len s < k)%nat -> good (LT s) (string_loop k esc s).
  Proof.
    induction k as [|k IH]; intros esc s Hk; [lia|]. cbn [string_loop].
    gstep. destruct esc.
    - eapply good_bind; [apply IH; lia|]. gintro. gstep.
    - destruct (a =? 34); [gstep|]. destruct (a =? 92).
      + eapply good_weaken; [apply IH; lia|]. cbv beta; intros; lia.
      + eapply good_bind; [apply IH; lia|]. gintro. gstep.
  Qed.
  Lemma parse_string_good s : (len s < F)%nat -> good (LT s) (parse_string F s).
  Proof.
    intros HF. unfold parse_string. gstep. cbn [length t_quote] in *.
    eapply good_weaken; [apply string_loop_good; lia|]. cbv beta; intros; lia.
  Qed.

  Lemma parse_quantifier_good s : good (LE s) (parse_quantifier s).
  Proof.
    unfold parse_quantifier. destruct (p_rest s) as [|c r] eqn:E; [cbn; lia|].
    destruct (quantifier_of c) as [q|]; [|cbn; lia].
    unfold bind at 1. rewrite (skip_unwrap_eq _ _ _ _ E).
    assert (Hl : len s = S (length r)) by (unfold len; rewrite E; reflexivity).
    assert (Ha : (len (advance s c r) <= len s)%nat) by (rewrite len_advance; lia).
    gstep.
  Qed.

  Lemma parse_global_good s : (len s < F)%nat -> good (LT s) (parse_global X F s).
  Proof.
    intros HF. unfold parse_global. gstep.
    eapply good_bind; [apply parse_name_good; lia|gintro].
    eapply good_bind; [apply parse_quantifier_good|gintro].
    gstep. eapply good_bind with (Q := LE s2).
    - gstep; [|gstep]. gstep. eapply good_bind; [apply parse_string_good; lia|gintro]. gstep.
    - gintro. gstep.
  Qed.

  Lemma skip_query_loop_good k : forall a b c s, (len s < k)%nat -> good (LE s) (skip_query_loop k a b c s).
  Proof.
    induction k as [|k IH]; intros a b c s Hk; [lia|]. cbn [skip_query_loop].
    unfold bind at 1, peek. destruct (p_rest s) as [|ch r] eqn:E; [exact I|].
    assert (Hl : len s = S (length r)) by (unfold len; rewrite E; reflexivity).
    assert (Hstep : forall a b c, good (LE s)
              ((skip_unwrap 4 ;;; l <- skip_query_loop k a b c ;; ret (ch :: l)) s)).
    { intros a' b' c'. unfold bind at 1. rewrite (skip_unwrap_eq _ _ _ _ E).
      eapply good_bind; [apply IH; rewrite len_advance; lia|].
      cbv beta. intros l s'. rewrite len_advance. intros H. cbn. lia. }
    destruct b; [apply Hstep|]. destruct a.
    { destruct (ch =? 92); [apply Hstep|]. destruct ((ch =? 34) || (ch =? 10)); apply Hstep. }
    destruct c; [apply Hstep|]. destruct (ch =? 34); [apply Hstep|].
    destruct (ch =? 123); [cbn; lia|]. destruct (ch =? 59); apply Hstep.
  Qed.
  Lemma skip_query_good s : (len s < F)%nat -> good (LE s) (skip_query F s).
  Proof. apply skip_query_loop_good. Qed.

  Lemma parse_query_good s : (len s < F)%nat -> good (LE s) (parse_query X F s).
  Proof.
    intros HF. unfold parse_query. gstep. gstep.
    eapply good_bind; [apply skip_query_good; lia|gintro]. gstep.
    pose proof (Hquery a0 a2) as Hq. destruct (x_query X a0 a2) as [[n fm|r c o]|]; [| exact I | exact Hq].
    destruct (1 <? n); [exact I|]. destruct fm; [gstep | exact Hq].
  Qed.

  (* ---- expressions ---- *)
  Lemma parse_capture_good s : (len s < F)%nat -> good (LT s) (parse_capture X F s).
  Proof.
    intros HF. unfold parse_capture. gstep. gstep. gstep. destruct (negb (is_ident_start X a1)).
    - gstep. gstep.
    - gstep. gstep.
  Qed.
  Lemma parse_integer_constant_good s c r :
    p_rest s = c :: r -> ascii_digit c = true -> (len s < F)%nat -> good (LT s) (parse_integer_constant F s).
  Proof.
    intros E Hd HF. unfold parse_integer_constant. gstep.
    eapply good_bind; [eapply while_loop_good_lt; eauto|gintro].
    destruct (from_str_radix10 u32_max a0); gstep.
  Qed.
  Lemma parse_literal_good s : (len s < F)%nat -> good (LT s) (parse_literal X F s).
  Proof.
    intros HF. unfold parse_literal. gstep. gstep. cbn [length t_hash] in *.
    eapply good_bind; [apply parse_name_good; lia|gintro].
    destruct (str_eqb a1 t_false); [gstep|]. destruct (str_eqb a1 t_null); [gstep|].
    destruct (str_eqb a1 t_true); gstep.
  Qed.
  Lemma parse_regex_capture_good s : (len s < F)%nat -> good (LT s) (parse_regex_capture F s).
  Proof.
    intros HF. unfold parse_regex_capture. gstep. gstep. cbn [length t_dollar] in *. gstep.
    destruct (from_str_radix10 usize_max a1); gstep.
  Qed.

  Lemma parse_variable_with_good (pe : M expr) s :
    good (LT s) (pe s) -> good (LT s) (parse_variable_with pe s).
  Proof.
    intros Hpe. unfold parse_variable_with. gstep. eapply good_bind; [exact Hpe|gintro].
    destruct (expr_as_variable a0); gstep.
  Qed.
  Lemma parse_unscoped_variable_with_good (pe : M expr) s :
    good (LT s) (pe s) -> good (LT s) (parse_unscoped_variable_with pe s).
  Proof.
    intros Hpe. unfold parse_unscoped_variable_with.
    eapply good_bind; [apply parse_variable_with_good; exact Hpe|gintro]. destruct a; gstep.
  Qed.

  Section ExprFacts.
    Variable rec : M expr.
    Variable B : nat.
    Hypothesis Hrec : forall s, (len s < B)%nat -> (len s < F)%nat -> good (LT s) (rec s).

    Lemma call_loop_good k : forall s, (len s < k)%nat -> (len s < B)%nat -> (len s < F)%nat ->
      good (LE s) (call_loop X F rec k s).
    Proof.
      induction k as [|k IH]; intros s Hk HB HF; [lia|]. cbn [call_loop].
      gstep. destruct (a =? 41); [gstep|].
      eapply good_bind; [apply Hrec; lia|gintro]. gstep.
      eapply good_bind; [apply IH; lia|gintro]. gstep.
    Qed.
    Lemma parse_call_good s : (len s <= B)%nat -> (len s < F)%nat -> good (LT s) (parse_call X F rec s).
    Proof.
      intros HB HF. unfold parse_call. gstep. cbn [length t_lparen] in *. gstep.
      eapply good_bind; [apply parse_name_good; lia|gintro]. gstep.
      eapply good_bind; [apply call_loop_good; lia|gintro]. gstep. gstep.
    Qed.

    Lemma sequence_loop_good e k : forall s, (len s < k)%nat -> (len s < B)%nat -> (len s < F)%nat ->
      good (LE s) (sequence_loop X F rec e k s).
    Proof.
      induction k as [|k IH]; intros s Hk HB HF; [lia|]. cbn [sequence_loop].
      gstep. destruct (a =? e); [gstep|].
      eapply good_bind; [apply Hrec; lia|gintro]. gstep. gstep.
      eapply good_bind with (Q := LE s1).
      { destruct (a2 =? e); [gstep|]. gstep. eapply good_weaken; [apply consume_whitespace_good; lia|].
        cbv beta; intros; lia. }
      gintro. eapply good_bind; [apply IH; lia|gintro]. gstep.
    Qed.

    Lemma parse_collection_good op cl cc lit comp s :
      (0 < length op)%nat -> (len s <= B)%nat -> (len s < F)%nat ->
      good (LT s) (parse_collection X F rec op cl cc lit comp s).
    Proof.
      intros Hop HB HF. unfold parse_collection. gstep. gstep. gstep. gstep; [gstep|].
      eapply good_bind; [apply Hrec; lia|gintro]. gstep. gstep; [gstep|]. gstep.
      - gstep. eapply good_bind; [apply sequence_loop_good; lia|gintro]. gstep. gstep. gstep.
      - gstep. gstep.
        eapply good_bind; [apply parse_unscoped_variable_with_good; apply Hrec; lia|gintro].
        gstep. gstep. gstep. eapply good_bind; [apply Hrec; lia|gintro]. gstep. gstep. gstep.
    Qed.

    Lemma suffix_loop_good k : forall e s, (len s < k)%nat -> (len s < F)%nat ->
      good (LE s) (suffix_loop X F k e s).
    Proof.
      induction k as [|k IH]; intros e s Hk HF; [lia|]. cbn [suffix_loop].
      unfold peek_is. destruct (p_rest s) as [|c r] eqn:E; [cbn; lia|].
      destruct (c =? 46); [|cbn; lia].
      unfold bind at 1. rewrite (skip_unwrap_eq _ _ _ _ E).
      assert (Hl : len s = S (length r)) by (unfold len; rewrite E; reflexivity).
      assert (Ha : (len (advance s c r) < len s)%nat) by (rewrite len_advance; lia).
      gstep. gstep. eapply good_bind; [apply parse_name_good; lia|gintro]. gstep.
      eapply good_weaken; [apply IH; lia|]. cbv beta; intros; lia.
    Qed.

    Lemma expression_body_good s : (len s <= B)%nat -> (len s < F)%nat ->
      good (LT s) (expression_body X F rec s).
    Proof.
      intros HB HF. unfold expression_body.
      unfold bind at 1, peek. destruct (p_rest s) as [|ch r] eqn:E; [exact I|].
      eapply good_bind with (Q := LT s).
      { destruct (ch =? 35); [apply parse_literal_good; lia|].
        destruct (ch =? 34); [eapply good_bind; [apply parse_string_good; lia|gintro; gstep]|].
        destruct (ch =? 64); [apply parse_capture_good; lia|].
        destruct (ch =? 36); [apply parse_regex_capture_good; lia|].
        destruct (ch =? 40); [apply parse_call_good; lia|].
        destruct (ch =? 91); [apply parse_collection_good; cbn; lia|].
        destruct (ch =? 123); [apply parse_collection_good; cbn; lia|].
        destruct (ascii_digit ch) eqn:Hd; [eapply parse_integer_constant_good; eauto|].
        destruct (is_ident_start X ch).
        - gstep. eapply good_bind; [apply parse_name_good; lia|gintro]. gstep.
        - gstep. gstep. }
      gintro. gstep. eapply good_weaken; [apply suffix_loop_good; lia|]. cbv beta; intros; lia.
    Qed.
  End ExprFacts.

  Lemma parse_expression_n_good n : forall s, (len s < n)%nat -> (len s < F)%nat ->
    good (LT s) (parse_expression_n X F n s).
  Proof.
    induction n as [|n IH]; intros s Hn HF; [lia|]. cbn [parse_expression_n].
    apply expression_body_good with (B := n); [|lia|exact HF].
    intros s1 H1 H2. apply IH; assumption.
  Qed.
  Lemma parse_expression_good s : (len s < F)%nat -> good (LT s) (parse_expression X F s).
  Proof. intros HF. apply parse_expression_n_good; exact HF. Qed.

  (* ---- attributes, conditions ---- *)
  Lemma parse_attribute_good s : (len s < F)%nat -> good (LT s) (parse_attribute X F s).
  Proof.
    intros HF. unfold parse_attribute.
    eapply good_bind; [apply parse_name_good; lia|gintro]. gstep.
    destruct (peek_is 61 s1); [|cbn; lia].
    gstep. gstep. eapply good_bind; [apply parse_expression_good; lia|gintro]. gstep.
  Qed.
  Lemma attributes_loop_good k : forall s, (len s < k)%nat -> (len s < F)%nat ->
    good (LE s) (attributes_loop X F k s).
  Proof.
    induction k as [|k IH]; intros s Hk HF; [lia|]. cbn [attributes_loop].
    unfold peek_is. destruct (p_rest s) as [|c r] eqn:E; [cbn; lia|].
    destruct (c =? 44); [|cbn; lia].
    unfold bind at 1. rewrite (skip_unwrap_eq _ _ _ _ E).
    assert (Hl : len s = S (length r)) by (unfold len; rewrite E; reflexivity).
    assert (Ha : (len (advance s c r) < len s)%nat) by (rewrite len_advance; lia).
    gstep. eapply good_bind; [apply parse_attribute_good; lia|gintro]. gstep.
    eapply good_bind; [apply IH; lia|gintro]. gstep.
  Qed.
  Lemma parse_attributes_good s : (len s < F)%nat -> good (LT s) (parse_attributes X F s).
  Proof.
    intros HF. unfold parse_attributes.
    eapply good_bind; [apply parse_attribute_good; lia|gintro]. gstep.
    eapply good_bind; [apply attributes_loop_good; lia|gintro]. gstep.
  Qed.

  Lemma parse_condition_good s : (len s < F)%nat -> good (LT s) (parse_condition X F s).
  Proof.
    intros HF. unfold parse_condition. gstep.
    eapply good_bind with (Q := LT s).
    - gstep.
      + cbn [length t_some] in *. gstep. eapply good_bind; [apply parse_expression_good; lia|gintro]. gstep.
      + gstep.
        * cbn [length t_none] in *. gstep. eapply good_bind; [apply parse_expression_good; lia|gintro]. gstep.
        * pose proof (parse_expression_good s HF) as Hp.
          destruct (parse_expression X F s) as [v s'| | | |]; cbn in Hp |- *; auto.
          change (good (LT s) ((consume_whitespace X F ;;; ret (CBool v a)) s')). gstep. gstep.
    - gintro. gstep. gstep.
  Qed.
  Lemma conditions_loop_good k : forall s, (len s < k)%nat -> (len s < F)%nat ->
    good (LT s) (conditions_loop X F k s).
  Proof.
    induction k as [|k IH]; intros s Hk HF; [lia|]. cbn [conditions_loop].
    eapply good_bind; [apply parse_condition_good; lia|gintro]. gstep.
    destruct (peek_is 44 s1); [|cbn; lia].
    gstep. cbn [length t_comma] in *. gstep. eapply good_bind; [apply IH; lia|gintro]. gstep.
  Qed.
  Lemma parse_conditions_good s : (len s < F)%nat -> good (LT s) (parse_conditions X F s).
  Proof. intros HF. apply conditions_loop_good; exact HF. Qed.

  (* ---- statements ---- *)
  Section StmtFacts.
    Variable rec : M stmt.
    Variable B : nat.
    Hypothesis Hrec : forall s, (len s < B)%nat -> (len s < F)%nat -> good (LT s) (rec s).

    Lemma statements_loop_good k : forall s, (len s < k)%nat -> (len s < B)%nat -> (len s < F)%nat ->
      good (LE s) (statements_loop X F rec k s).
    Proof.
      induction k as [|k IH]; intros s Hk HB HF; [lia|]. cbn [statements_loop].
      gstep. destruct (a =? 125); [gstep|].
      eapply good_bind; [apply Hrec; lia|gintro]. gstep.
      eapply good_bind; [apply IH; lia|gintro]. gstep.
    Qed.
    Lemma parse_statements_good s : (len s <= B)%nat -> (len s < F)%nat ->
      good (LT s) (parse_statements X F rec s).
    Proof.
      intros HB HF. unfold parse_statements. gstep. cbn [length t_lbrace] in *. gstep.
      eapply good_bind; [apply statements_loop_good; lia|gintro]. gstep. gstep.
    Qed.

    Lemma scan_arms_loop_good kl k : forall s, (len s < k)%nat -> (len s <= B)%nat -> (len s < F)%nat ->
      good (LE s) (scan_arms_loop X F rec kl k s).
    Proof.
      induction k as [|k IH]; intros s Hk HB HF; [lia|]. cbn [scan_arms_loop].
      gstep. destruct (a =? 125); [gstep|]. gstep.
      eapply good_bind; [apply parse_string_good; lia|gintro].
      eapply good_bind with (Q := LE s0).
      { pose proof (Hregex a1) as Hr. destruct (x_regex X a1) as [[|]|]; [unfold len; cbn; lia | exact I | cbn; auto]. }
      gintro. gstep. eapply good_bind; [apply parse_statements_good; lia|gintro]. gstep.
      eapply good_bind; [apply IH; lia|gintro]. gstep.
    Qed.

    Lemma elif_loop_good k : forall l s, (len s < k)%nat -> (len s <= B)%nat -> (len s < F)%nat ->
      good (LE s) (elif_loop X F rec k l s).
    Proof.
      induction k as [|k IH]; intros l s Hk HB HF; [lia|]. cbn [elif_loop].
      gstep; [|gstep]. cbn [length t_elif] in *. gstep.
      eapply good_bind; [apply parse_conditions_good; lia|gintro]. gstep.
      eapply good_bind; [apply parse_statements_good; lia|gintro]. gstep. gstep. gstep.
      eapply good_bind; [apply IH; lia|gintro]. gstep.
    Qed.

    Lemma assignment_tail_good s : (len s < F)%nat -> good (LT s) (assignment_tail X F s).
    Proof.
      intros HF. unfold assignment_tail.
      eapply good_bind; [apply parse_variable_with_good; apply parse_expression_good; lia|gintro].
      gstep. gstep. gstep. eapply good_bind; [apply parse_expression_good; lia|gintro]. gstep.
    Qed.

    Lemma print_loop_good k : forall s, (len s < k)%nat -> (len s < F)%nat -> good (LE s) (print_loop X F k s).
    Proof.
      induction k as [|k IH]; intros s Hk HF; [lia|]. cbn [print_loop].
      destruct (peek_is 44 s); [|cbn; lia].
      gstep. cbn [length t_comma] in *. gstep.
      eapply good_bind; [apply parse_expression_good; lia|gintro]. gstep.
      eapply good_bind; [apply IH; lia|gintro]. gstep.
    Qed.

    Lemma statement_body_good s : (len s <= B)%nat -> (len s < F)%nat ->
      good (LT s) (statement_body X F rec s).
    Proof.
      intros HB HF. unfold statement_body. gstep.
      eapply good_bind; [apply parse_name_good; lia|gintro]. gstep.
      destruct (str_eqb a0 t_let).
      { eapply good_bind; [apply assignment_tail_good; lia|gintro]. gstep. }
      destruct (str_eqb a0 t_var).
      { eapply good_bind; [apply assignment_tail_good; lia|gintro]. gstep. }
      destruct (str_eqb a0 t_set).
      { eapply good_bind; [apply assignment_tail_good; lia|gintro]. gstep. }
      destruct (str_eqb a0 t_node).
      { eapply good_bind; [apply parse_variable_with_good; apply parse_expression_good; lia|gintro]. gstep. }
      destruct (str_eqb a0 t_edge).
      { eapply good_bind; [apply parse_expression_good; lia|gintro]. gstep. gstep. gstep.
        eapply good_bind; [apply parse_expression_good; lia|gintro]. gstep. }
      destruct (str_eqb a0 t_attr).
      { gstep. gstep. eapply good_bind; [apply parse_expression_good; lia|gintro]. gstep. gstep.
        destruct (a6 =? 45).
        - gstep. gstep. eapply good_bind; [apply parse_expression_good; lia|gintro]. gstep. gstep. gstep.
          eapply good_bind; [apply parse_attributes_good; lia|gintro]. gstep.
        - gstep. gstep. gstep. eapply good_bind; [apply parse_attributes_good; lia|gintro]. gstep. }
      destruct (str_eqb a0 t_print).
      { eapply good_bind; [apply parse_expression_good; lia|gintro]. gstep.
        eapply good_bind; [apply print_loop_good; lia|gintro]. gstep. gstep. }
      destruct (str_eqb a0 t_scan).
      { eapply good_bind; [apply parse_expression_good; lia|gintro]. gstep. gstep. gstep.
        eapply good_bind; [apply scan_arms_loop_good; lia|gintro]. gstep. gstep. }
      destruct (str_eqb a0 t_if).
      { gstep. eapply good_bind; [apply parse_conditions_good; lia|gintro]. gstep.
        eapply good_bind; [apply parse_statements_good; lia|gintro]. gstep. gstep.
        eapply good_bind; [apply elif_loop_good; lia|gintro]. gstep.
        eapply good_bind with (Q := LE s6).
        - gstep; [|gstep]. gstep. eapply good_bind; [apply parse_statements_good; lia|gintro].
          gstep. gstep. gstep.
        - gintro. gstep. }
      destruct (str_eqb a0 t_for).
      { gstep.
        eapply good_bind; [apply parse_unscoped_variable_with_good; apply parse_expression_good; lia|gintro].
        gstep. gstep. gstep. eapply good_bind; [apply parse_expression_good; lia|gintro]. gstep.
        eapply good_bind; [apply parse_statements_good; lia|gintro]. gstep. }
      gstep.
    Qed.
  End StmtFacts.

  Lemma parse_statement_n_good n : forall s, (len s < n)%nat -> (len s < F)%nat ->
    good (LT s) (parse_statement_n X F n s).
  Proof.
    induction n as [|n IH]; intros s Hn HF; [lia|]. cbn [parse_statement_n].
    apply statement_body_good with (B := n); [|lia|exact HF].
    intros s1 H1 H2. apply IH; assumption.
  Qed.
  Lemma parse_stanza_statements_good s : (len s < F)%nat -> good (LT s) (parse_stanza_statements X F s).
  Proof.
    intros HF. unfold parse_stanza_statements. apply parse_statements_good with (B := F); [|lia|exact HF].
    intros s1 H1 H2. apply parse_statement_n_good; assumption.
  Qed.

  (* ---- top level ---- *)
  Lemma parse_shorthand_good s : (len s < F)%nat -> good (LT s) (parse_shorthand X F s).
  Proof.
    intros HF. unfold parse_shorthand. gstep.
    eapply good_bind; [apply parse_name_good; lia|gintro]. gstep. gstep. gstep.
    eapply good_bind; [apply parse_unscoped_variable_with_good; apply parse_expression_good; lia|gintro].
    gstep. gstep. gstep. eapply good_bind; [apply parse_attributes_good; lia|gintro]. gstep.
  Qed.
  Lemma parse_stanza_good s : (len s < F)%nat -> good (LT s) (parse_stanza X F s).
  Proof.
    intros HF. unfold parse_stanza. gstep.
    eapply good_bind; [apply parse_query_good; lia|gintro]. gstep.
    eapply good_bind; [apply parse_stanza_statements_good; lia|gintro]. gstep.
  Qed.

  Lemma file_loop_good k : forall a s, (len s < k)%nat -> (len s < F)%nat -> good (LE s) (file_loop X F k a s).
  Proof.
    induction k as [|k IH]; intros a s Hk HF; [lia|]. cbn [file_loop].
    destruct (p_rest s) as [|c r] eqn:E; [cbn; lia|].
    eapply good_bind with (Q := LT s).
    - gstep; [|gstep; [|gstep]].
      + cbn [length t_attribute] in *. gstep. eapply good_bind; [apply parse_shorthand_good; lia|gintro]. gstep.
      + cbn [length t_global] in *. gstep. eapply good_bind; [apply parse_global_good; lia|gintro]. gstep.
      + cbn [length t_inherit] in *. gstep. gstep. eapply good_bind; [apply parse_name_good; lia|gintro]. gstep.
      + eapply good_bind; [apply parse_stanza_good; lia|gintro]. gstep.
    - gintro. gstep. eapply good_weaken; [apply IH; lia|]. cbv beta; intros; lia.
  Qed.

  Lemma parse_into_file_good s : (len s < F)%nat -> good (LE s) (parse_into_file X F s).
  Proof.
    intros HF. unfold parse_into_file. gstep.
    eapply good_bind; [apply file_loop_good; lia|gintro].
    pose proof (Hmerged (a_query_source a0)) as Hm.
    destruct (x_merged X (a_query_source a0)) as [[|]|]; [gstep | exact Hm | exact Hm].
  Qed.
End Total.

(* ---- the two instances ---- *)
(* externals answer every question, never drop the full-match capture, and the merged query compiles *)
Definition OracleTotal (X : ext) : Prop :=
  (forall a b, match x_query X a b with Some (QOk _ (Some _)) | Some (QErr _ _ _) => True | _ => False end) /\
  (forall q, x_merged X q = Some true) /\
  (forall p, x_regex X p <> None).

Lemma parse_total_lemma X text : OracleTotal X ->
  match parse X (fuel_of text) text with POk _ _ | PErr _ _ _ => True | _ => False end.
Proof.
  intros [Hq [Hm Hr]]. unfold parse.
  pose proof (parse_into_file_good X (fuel_of text) (fun _ => False) False) as H.
  assert (H' : good (fun _ => False) False (fun (_ : facc) (s' : pst) => (len s' <= len (init_state text))%nat)
                (parse_into_file X (fuel_of text) (init_state text))).
  { apply H.
    - intros a b. specialize (Hq a b). destruct (x_query X a b) as [[n [i|]|]|]; auto.
    - intros q. rewrite Hm. exact I.
    - intros p E. exact (Hr p E).
    - unfold len, fuel_of, init_state. cbn. lia. }
  destruct (parse_into_file X (fuel_of text) (init_state text)) as [a s| e | n | |]; cbn in H'; try contradiction; auto.
  destruct (error_obs e) as [[v l] p]. exact I.
Qed.

(* without any assumption on the externals: never out of fuel; a panic only at the two sites whose
   condition is decided by tree-sitter (7: full-match capture missing, 8: merged query does not compile) *)
Lemma parse_never_fuel_lemma X text :
  match parse X (fuel_of text) text with PFuel => False | PPanic n => n = 7 \/ n = 8 | _ => True end.
Proof.
  unfold parse.
  pose proof (parse_into_file_good X (fuel_of text) (fun n => n = 7 \/ n = 8) True) as H.
  assert (H' : good (fun n => n = 7 \/ n = 8) True (fun (_ : facc) (s' : pst) => (len s' <= len (init_state text))%nat)
                (parse_into_file X (fuel_of text) (init_state text))).
  { apply H.
    - intros a b. destruct (x_query X a b) as [[n [i|]|]|]; auto.
    - intros q. destruct (x_merged X q) as [[|]|]; auto.
    - auto.
    - unfold len, fuel_of, init_state. cbn. lia. }
  destruct (parse_into_file X (fuel_of text) (init_state text)) as [a s| e | n | |]; cbn in H'; try contradiction; auto.
  destruct (error_obs e) as [[v l] p]. exact I.
Qed.

(* the error variant ExpectedQuantifier (number 1) is never returned, whatever the externals answer *)
Lemma parse_never_expected_quantifier_lemma X text :
  match parse X (fuel_of text) text with PErr v _ _ => v <> 1 | _ => True end.
Proof.
  unfold parse.
  pose proof (parse_into_file_good X (fuel_of text) (fun n => True) True) as H.
  assert (H' : good (fun n => True) True (fun (_ : facc) (s' : pst) => (len s' <= len (init_state text))%nat)
                (parse_into_file X (fuel_of text) (init_state text))).
  { apply H.
    - intros a b. destruct (x_query X a b) as [[n [i|]|]|]; auto.
    - intros q. destruct (x_merged X q) as [[|]|]; auto.
    - auto.
    - unfold len, fuel_of, init_state. cbn. lia. }
  destruct (parse_into_file X (fuel_of text) (init_state text)) as [a s| e | n | |]; cbn in H'; try exact I.
  destruct e; cbn [error_obs]; try discriminate. contradiction.
Qed.

(* ================================================================== Part 2: exact characterisations *)

(* ---- positions ---- *)
Lemma pos_after_app p t1 t2 : pos_after p (t1 ++ t2) = pos_after (pos_after p t1) t2.
Proof. apply fold_left_app. Qed.
Lemma bytes_app t1 t2 : bytes (t1 ++ t2) = bytes t1 + bytes t2.
Proof. induction t1 as [|c t1 IH]; cbn [bytes app]; [reflexivity|]. rewrite IH. lia. Qed.

Lemma st_after_nil s : st_after s [] (p_rest s) = s.
Proof. destruct s. unfold st_after, p_loc. cbn. f_equal. lia. Qed.
Lemma st_after_nil' s r : p_rest s = r -> st_after s [] r = s.
Proof. intros <-. apply st_after_nil. Qed.
Lemma p_loc_st_after s t r : p_loc (st_after s t r) = pos_after (p_loc s) t.
Proof. unfold st_after, p_loc at 1. cbn. destruct (pos_after (p_loc s) t); reflexivity. Qed.
Lemma p_rest_st_after s t r : p_rest (st_after s t r) = r.
Proof. reflexivity. Qed.
Lemma p_off_st_after s t r : p_off (st_after s t r) = p_off s + bytes t.
Proof. reflexivity. Qed.
Lemma p_pats_st_after s t r : p_pats (st_after s t r) = p_pats s.
Proof. reflexivity. Qed.
Lemma len_st_after s t r : len (st_after s t r) = length r.
Proof. reflexivity. Qed.
Lemma st_after_app s t1 r1 t2 r2 : st_after (st_after s t1 r1) t2 r2 = st_after s (t1 ++ t2) r2.
Proof.
  unfold st_after at 1 3. rewrite p_loc_st_after, p_off_st_after, p_pats_st_after, pos_after_app, bytes_app.
  f_equal. lia.
Qed.
Lemma advance_st_after s c r : advance s c r = st_after s [c] r.
Proof.
  unfold advance, st_after, pos_after, pos_step, p_loc. cbn [fold_left bytes fst snd].
  destruct (c =? 10); cbn [fst snd]; f_equal; lia.
Qed.

(* closed form of pos_after: rows count newlines, the column restarts after the last newline *)
Lemma pos_after_closed t : forall p,
  pos_after p t = (fst p + newlines t,
                   if has_newline t then N.of_nat (length (last_line t)) else snd p + N.of_nat (length t)).
Proof.
  induction t as [|c t IH]; intros [row col].
  - cbn. f_equal; lia.
  - change (pos_after (row, col) (c :: t)) with (pos_after (pos_step (row, col) c) t).
    rewrite IH. unfold pos_step. cbn [newlines has_newline existsb last_line fst snd length].
    fold (has_newline t). destruct (N.eqb_spec c 10) as [->|Hc].
    + cbn [fst snd]. rewrite N.eqb_refl. cbn [orb]. destruct (has_newline t); f_equal; lia.
    + cbn [fst snd]. replace (10 =? c) with false by (symmetry; apply N.eqb_neq; congruence).
      cbn [orb]. destruct (has_newline t); [f_equal; lia|]. cbn [length]. f_equal; lia.
Qed.

(* ---- tokens ---- *)
Lemma starts_with_app tok r : starts_with tok (tok ++ r) = true.
Proof. induction tok as [|c tok IH]; cbn; [reflexivity|]. rewrite N.eqb_refl, IH. reflexivity. Qed.

Lemma consume_n_ok t : forall s r, p_rest s = t ++ r -> consume_n (length t) s = ROk tt (st_after s t r).
Proof.
  induction t as [|c t IH]; intros s r E; cbn [length consume_n].
  - unfold ret. rewrite st_after_nil' by exact E. reflexivity.
  - unfold bind. rewrite (next_eq _ _ _ E), advance_st_after.
    rewrite (IH _ r) by reflexivity. rewrite st_after_app. reflexivity.
Qed.
Lemma consume_token_ok tok s r : p_rest s = tok ++ r -> consume_token tok s = ROk tt (st_after s tok r).
Proof. intros E. unfold consume_token. rewrite E, starts_with_app. apply consume_n_ok. exact E. Qed.
Lemma consume_token_fail tok s :
  starts_with tok (p_rest s) = false -> consume_token tok s = RErr (PEExpectedToken tok (p_loc s)).
Proof. intros E. unfold consume_token. rewrite E. reflexivity. Qed.

(* Location::advance / offset arithmetic of consuming ANY text: offset = sum of UTF-8 lengths,
   row = number of newlines, column = characters since the last newline *)
Lemma location_advance_lemma s t r : p_rest s = t ++ r ->
  exists s', consume_n (length t) s = ROk tt s' /\
    p_rest s' = r /\ p_off s' = p_off s + bytes t /\ p_row s' = p_row s + newlines t /\
    p_col s' = (if has_newline t then N.of_nat (length (last_line t)) else p_col s + N.of_nat (length t)) /\
    p_pats s' = p_pats s.
Proof.
  intros E. exists (st_after s t r). split; [apply consume_n_ok; exact E|].
  unfold st_after. cbn [p_rest p_off p_row p_col p_pats]. rewrite pos_after_closed. cbn [fst snd p_loc].
  repeat split; reflexivity.
Qed.

(* ---- consume_while ---- *)
Lemma while_loop_ok f t : forall s r k, forallb f t = true ->
  match r with [] => True | c :: _ => f c = false end ->
  p_rest s = t ++ r -> (len s < k)%nat -> while_loop f k s = ROk t (st_after s t r).
Proof.
  induction t as [|c t IH]; intros s r k Hall Hr E Hk; (destruct k as [|k]; [lia|]); cbn [while_loop].
  - cbn [app] in E. rewrite E. rewrite st_after_nil' by exact E. destruct r as [|c r]; [reflexivity|]. rewrite Hr. reflexivity.
  - cbn [forallb] in Hall. apply andb_true_iff in Hall. destruct Hall as [Hc Hall].
    cbn [app] in E. rewrite E, Hc. unfold bind at 1. rewrite (skip_unwrap_eq _ _ _ _ E), advance_st_after.
    unfold bind. rewrite (IH _ r k Hall Hr) by (try reflexivity; rewrite len_st_after; unfold len in Hk; rewrite E in Hk; cbn in Hk; lia).
    rewrite st_after_app. reflexivity.
Qed.

(* ---- whitespace ---- *)
Section WsFacts.
  Variable X : ext.

  Lemma ws_comment_body b : forall s r k, ~ In 10 b -> p_rest s = b ++ 10 :: r -> (len s < k)%nat ->
    exists k', ws_loop X k true s = ws_loop X k' false (st_after s (b ++ [10]) r) /\ (length r < k')%nat.
  Proof.
    induction b as [|c b IH]; intros s r k Hn E Hk; (destruct k as [|k]; [lia|]); cbn [ws_loop].
    - cbn [app] in E. rewrite E. unfold bind. rewrite (skip_unwrap_eq _ _ _ _ E), advance_st_after.
      rewrite N.eqb_refl. cbn [negb app]. exists k. split; [reflexivity|].
      unfold len in Hk. rewrite E in Hk. cbn in Hk. lia.
    - cbn [app] in E. rewrite E. unfold bind. rewrite (skip_unwrap_eq _ _ _ _ E), advance_st_after.
      assert (Hc : c =? 10 = false) by (apply N.eqb_neq; intros ->; apply Hn; left; reflexivity).
      rewrite Hc. cbn [negb].
      destruct (IH (st_after s [c] (b ++ 10 :: r)) r k) as [k' [Hk1 Hk2]].
      + intros Hin. apply Hn. right. exact Hin.
      + reflexivity.
      + rewrite len_st_after. unfold len in Hk. rewrite E in Hk. cbn in Hk. lia.
      + exists k'. split; [|exact Hk2]. rewrite Hk1, st_after_app. reflexivity.
  Qed.

  Lemma ws_loop_gap g : forall s r k, WfGap X g -> no_gap_start X r ->
    p_rest s = render_gap g ++ r -> (len s < k)%nat ->
    ws_loop X k false s = ROk tt (st_after s (render_gap g) r).
  Proof.
    induction g as [|i g IH]; intros s r k Hg Hr E Hk.
    - cbn [render_gap map concat app] in *. destruct k as [|k]; [lia|]. cbn [ws_loop]. rewrite E.
      rewrite st_after_nil' by exact E. destruct r as [|c r]; [reflexivity|].
      destruct Hr as [H59 Hws]. replace (c =? 59) with false by (symmetry; apply N.eqb_neq; exact H59).
      rewrite Hws. reflexivity.
    - inversion Hg as [|? ? Hi Hg']; subst.
      change (render_gap (i :: g)) with (render_gap_item i ++ render_gap g) in *.
      rewrite <- app_assoc in E. destruct i as [c|b]; cbn [render_gap_item app] in *.
      + destruct k as [|k]; [lia|]. cbn [ws_loop]. rewrite E.
        assert (H59 : c =? 59 = false).
        { apply N.eqb_neq. intros ->. unfold is_whitespace in Hi. cbn in Hi. discriminate. }
        rewrite H59, Hi. cbn [negb]. unfold bind. rewrite (skip_unwrap_eq _ _ _ _ E), advance_st_after.
        rewrite (IH _ r k Hg' Hr) by (try reflexivity; rewrite len_st_after; unfold len in Hk; rewrite E in Hk; cbn in Hk; lia).
        rewrite st_after_app. reflexivity.
      + destruct k as [|k]; [lia|]. cbn [ws_loop]. rewrite E. rewrite N.eqb_refl.
        unfold bind. rewrite (skip_unwrap_eq _ _ _ _ E), advance_st_after.
        rewrite <- app_assoc in E. cbn [app] in E.
        destruct (ws_comment_body b (st_after s [59] ((b ++ [10]) ++ render_gap g ++ r)) (render_gap g ++ r) k) as [k' [Hk1 Hk2]].
        * exact Hi.
        * cbn [p_rest st_after]. rewrite <- app_assoc. reflexivity.
        * rewrite len_st_after. unfold len in Hk. rewrite E in Hk. cbn [length] in Hk. rewrite !app_length in *. cbn [length] in *. rewrite !app_length in *. lia.
        * rewrite Hk1. rewrite (IH _ r k' Hg' Hr) by (try reflexivity; rewrite len_st_after; exact Hk2).
          rewrite !st_after_app. reflexivity.
  Qed.
End WsFacts.

Ltac lensolve E Hk :=
  rewrite ?len_st_after; unfold len in Hk |- *; rewrite E in Hk;
  repeat (rewrite app_length in * || cbn [length] in * ); lia.

Lemma consume_whitespace_ok X F g s r : WfGap X g -> no_gap_start X r ->
  p_rest s = render_gap g ++ r -> (len s < F)%nat ->
  consume_whitespace X F s = ROk tt (st_after s (render_gap g) r).
Proof. intros. apply ws_loop_gap; assumption. Qed.

(* ---- names ---- *)
Lemma parse_name_ok X F w n s r : WfIdent X n -> no_ident_start X r ->
  p_rest s = n ++ r -> (len s < F)%nat -> parse_name X F w s = ROk n (st_after s n r).
Proof.
  intros Hn Hr E Hk. destruct n as [|c t]; [contradiction|]. destruct Hn as [Hc Ht].
  cbn [app] in E. unfold parse_name, bind. rewrite (next_eq _ _ _ E), advance_st_after, Hc. cbn [negb].
  unfold consume_while. rewrite (while_loop_ok (is_ident X) t _ r F Ht).
  - unfold ret. rewrite st_after_app. reflexivity.
  - destruct r; [exact I | exact Hr].
  - reflexivity.
  - lensolve E Hk.
Qed.

(* ---- string literals ---- *)
Definition unescape (d : N) : N :=
  if d =? 48 then 0 else if d =? 110 then 10 else if d =? 114 then 13 else if d =? 116 then 9 else d.

Lemma string_step_raw k s c rest : p_rest s = c :: rest -> c <> 34 -> c <> 92 ->
  string_loop (S k) false s = (v <- string_loop k false ;; ret (c :: v)) (st_after s [c] rest).
Proof.
  intros E H34 H92. cbn [string_loop]. unfold bind at 1. rewrite (next_eq _ _ _ E), advance_st_after.
  replace (c =? 34) with false by (symmetry; apply N.eqb_neq; exact H34).
  replace (c =? 92) with false by (symmetry; apply N.eqb_neq; exact H92). reflexivity.
Qed.
Lemma string_step_esc k s d rest : p_rest s = 92 :: d :: rest ->
  string_loop (S (S k)) false s = (v <- string_loop k false ;; ret (unescape d :: v)) (st_after s [92; d] rest).
Proof.
  intros E. cbn [string_loop]. unfold bind at 1. rewrite (next_eq _ _ _ E), advance_st_after.
  change (92 =? 34) with false. change (92 =? 92) with true. cbn iota.
  unfold bind at 1. rewrite (next_eq (st_after s [92] (d :: rest)) d rest) by reflexivity.
  rewrite advance_st_after, st_after_app. reflexivity.
Qed.

Lemma string_loop_ok v : forall es s r k, p_rest s = escape es v ++ 34 :: r -> (len s < k)%nat ->
  string_loop k false s = ROk v (st_after s (escape es v ++ [34]) r).
Proof.
  induction v as [|c v IH]; intros es s r k E Hk.
  - cbn [escape app] in *. destruct k as [|k]; [lia|]. cbn [string_loop]. unfold bind.
    rewrite (next_eq _ _ _ E), advance_st_after. reflexivity.
  - cbn [escape] in *. rewrite <- app_assoc in E.
    assert (Hraw : c <> 34 -> c <> 92 -> esc_char (hd false es) c = [c] ->
                   string_loop k false s = ROk (c :: v) (st_after s ((esc_char (hd false es) c ++ escape (tl es) v) ++ [34]) r)).
    { intros H34 H92 Hs. rewrite Hs in *. cbn [app] in E. destruct k as [|k]; [lia|].
      rewrite (string_step_raw _ _ _ _ E H34 H92). unfold bind.
      rewrite (IH (tl es) _ r k) by (try reflexivity; lensolve E Hk).
      unfold ret. rewrite st_after_app. reflexivity. }
    assert (Hesc : forall d, unescape d = c -> esc_char (hd false es) c = [92; d] ->
                   string_loop k false s = ROk (c :: v) (st_after s ((esc_char (hd false es) c ++ escape (tl es) v) ++ [34]) r)).
    { intros d Hd Hs. rewrite Hs in *. cbn [app] in E. destruct k as [|[|k]]; [lia| lensolve E Hk |].
      rewrite (string_step_esc _ _ _ _ E). unfold bind.
      rewrite (IH (tl es) _ r k) by (try reflexivity; lensolve E Hk).
      unfold ret. rewrite st_after_app, Hd. reflexivity. }
    unfold esc_char in Hraw, Hesc |- *.
    destruct (N.eqb_spec c 34) as [->|H34]; [apply (Hesc 34); reflexivity|].
    destruct (N.eqb_spec c 92) as [->|H92]; [apply (Hesc 92); reflexivity|]. cbn [orb] in *.
    destruct (hd false es); [|apply Hraw; auto].
    destruct (N.eqb_spec c 0) as [->|H0]; [apply (Hesc 48); reflexivity|].
    destruct (N.eqb_spec c 10) as [->|H10]; [apply (Hesc 110); reflexivity|].
    destruct (N.eqb_spec c 13) as [->|H13]; [apply (Hesc 114); reflexivity|].
    destruct (N.eqb_spec c 9) as [->|H9]; [apply (Hesc 116); reflexivity|].
    destruct (N.eqb_spec c 48) as [->|H48]; [apply Hraw; auto|].
    destruct (N.eqb_spec c 110) as [->|H110]; [apply Hraw; auto|].
    destruct (N.eqb_spec c 114) as [->|H114]; [apply Hraw; auto|].
    destruct (N.eqb_spec c 116) as [->|H116]; [apply Hraw; auto|]. cbn [orb] in *.
    apply (Hesc c); [|reflexivity]. unfold unescape.
    repeat match goal with |- context [?a =? ?b] => replace (a =? b) with false by (symmetry; apply N.eqb_neq; assumption) end.
    reflexivity.
Qed.

Lemma parse_string_ok F es v s r : p_rest s = render_string es v ++ r -> (len s < F)%nat ->
  parse_string F s = ROk v (st_after s (render_string es v) r).
Proof.
  intros E Hk. unfold render_string in *. cbn [app] in E. rewrite <- app_assoc in E. cbn [app] in E.
  unfold parse_string, bind.
  rewrite (consume_token_ok t_quote s (escape es v ++ 34 :: r)) by exact E.
  rewrite (string_loop_ok v es _ r F) by (try reflexivity; lensolve E Hk).
  rewrite st_after_app. reflexivity.
Qed.

(* ---- integer literals ---- *)
Lemma dec_go_value fuel : forall n acc a, n < 10 ^ N.of_nat fuel ->
  exists k, digits_value (dec_go fuel n acc) a = digits_value acc (a * 10 ^ k + n).
Proof.
  induction fuel as [|fuel IH]; intros n acc a Hn.
  - exists 0. cbn [dec_go]. change (10 ^ N.of_nat 0) with 1 in Hn. f_equal. lia.
  - cbn [dec_go]. destruct (N.ltb_spec n 10) as [Hs|Hs].
    + exists 1. cbn [digits_value]. rewrite N.mod_small by exact Hs. f_equal. lia.
    + rewrite Nat2N.inj_succ, N.pow_succ_r' in Hn.
      assert (Hd : n / 10 < 10 ^ N.of_nat fuel) by (apply N.div_lt_upper_bound; lia).
      destruct (IH (n / 10) ((48 + n mod 10) :: acc) a Hd) as [k Hk]. exists (k + 1).
      rewrite Hk. cbn [digits_value]. f_equal. rewrite N.pow_add_r, N.pow_1_r.
      rewrite N.mul_assoc. generalize (a * 10 ^ k). intros Y.
      pose proof (N.div_mod' n 10) as Hdm. clear Hk Hd IH Hn Hs. revert Hdm. generalize (n / 10), (n mod 10). intros q m Hdm. lia.
Qed.
Lemma pos_lt_pow2 p : N.pos p < 2 ^ N.of_nat (Pos.size_nat p).
Proof.
  induction p as [p IH|p IH|]; cbn [Pos.size_nat]; rewrite ?Nat2N.inj_succ, ?N.pow_succ_r'; try lia.
Qed.
Lemma dec_fuel_enough n : n < 10 ^ N.of_nat (S (N.size_nat n)).
Proof.
  rewrite Nat2N.inj_succ, N.pow_succ_r'.
  assert (H : n < 2 ^ N.of_nat (N.size_nat n)).
  { destruct n as [|p]; [reflexivity | apply pos_lt_pow2]. }
  assert (H2 : 2 ^ N.of_nat (N.size_nat n) <= 10 ^ N.of_nat (N.size_nat n)) by (apply N.pow_le_mono_l; lia).
  lia.
Qed.
Lemma dec_value n : digits_value (dec n) 0 = n.
Proof.
  unfold dec. destruct (dec_go_value (S (N.size_nat n)) n [] 0 (dec_fuel_enough n)) as [k Hk].
  rewrite Hk. cbn [digits_value]. lia.
Qed.
Lemma dec_go_digits fuel : forall n acc, forallb ascii_digit acc = true -> forallb ascii_digit (dec_go fuel n acc) = true.
Proof.
  induction fuel as [|fuel IH]; intros n acc Ha; cbn [dec_go]; [exact Ha|].
  assert (Hd : ascii_digit (48 + n mod 10) = true).
  { unfold ascii_digit. assert (Hm : n mod 10 < 10) by (apply N.mod_upper_bound; discriminate).
    revert Hm. generalize (n mod 10). intros m Hm. apply andb_true_iff. split; apply N.leb_le; lia. }
  destruct (n <? 10); [|apply IH]; cbn [forallb]; rewrite Hd, Ha; reflexivity.
Qed.
Lemma dec_digits n : forallb ascii_digit (dec n) = true.
Proof. apply dec_go_digits. reflexivity. Qed.
Lemma dec_go_nonempty fuel : forall n acc, dec_go (S fuel) n acc <> [].
Proof.
  induction fuel as [|fuel IH]; intros n acc; cbn [dec_go]; (destruct (n <? 10); [discriminate|]).
  - discriminate.
  - apply IH.
Qed.
Lemma dec_nonempty n : dec n <> [].
Proof. apply dec_go_nonempty. Qed.

Lemma digits_value_zeros z t : digits_value (repeat 48 z ++ t) 0 = digits_value t 0.
Proof. induction z as [|z IH]; cbn [repeat app digits_value]; [reflexivity|]. exact IH. Qed.
Lemma render_int_digits z n : forallb ascii_digit (render_int z n) = true.
Proof.
  unfold render_int. rewrite forallb_app, dec_digits, andb_true_r.
  induction z as [|z IH]; cbn [repeat forallb]; [reflexivity|]. rewrite IH. reflexivity.
Qed.
Lemma render_int_value max z n : n <= max -> from_str_radix10 max (render_int z n) = Some n.
Proof.
  intros Hn. unfold from_str_radix10.
  destruct (render_int z n) as [|d t] eqn:E.
  - exfalso. unfold render_int in E. apply app_eq_nil in E. destruct E as [_ E]. exact (dec_nonempty n E).
  - rewrite <- E. unfold render_int. rewrite digits_value_zeros, dec_value.
    destruct (N.leb_spec n max); [reflexivity | lia].
Qed.

Definition no_digit_start (r : list N) : Prop :=
  match r with [] => True | c :: _ => ascii_digit c = false end.

Lemma parse_integer_constant_ok F z n s r : n <= u32_max -> no_digit_start r ->
  p_rest s = render_int z n ++ r -> (len s < F)%nat ->
  parse_integer_constant F s = ROk (EInt n) (st_after s (render_int z n) r).
Proof.
  intros Hn Hr E Hk. unfold parse_integer_constant, bind, get_loc, consume_while.
  rewrite (while_loop_ok ascii_digit (render_int z n) s r F (render_int_digits z n)); try assumption.
  rewrite (render_int_value u32_max z n Hn). reflexivity.
Qed.

(* ---- identifiers as expressions ---- *)
Lemma ascii_digit_ident X c : ascii_digit c = true -> is_ident X c = true.
Proof.
  unfold ascii_digit, is_ident, is_alphanumeric. intros H. apply andb_true_iff in H. destruct H as [H1 H2].
  apply N.leb_le in H1, H2. assert (Hlt : c <? 128 = true) by (apply N.ltb_lt; lia). rewrite Hlt.
  unfold ascii_digit. replace (48 <=? c) with true by (symmetry; apply N.leb_le; lia).
  replace (c <=? 57) with true by (symmetry; apply N.leb_le; lia). cbn. rewrite !orb_true_r. reflexivity.
Qed.
Lemma no_ident_no_digit X r : no_ident_start X r -> no_digit_start r.
Proof.
  destruct r as [|c r]; cbn; [auto|]. intros H. destruct (ascii_digit c) eqn:E; [|reflexivity].
  rewrite (ascii_digit_ident X c E) in H. discriminate.
Qed.

Lemma ident_start_dispatch X c : is_ident_start X c = true ->
  (c =? 35) = false /\ (c =? 34) = false /\ (c =? 64) = false /\ (c =? 36) = false /\
  (c =? 40) = false /\ (c =? 91) = false /\ (c =? 123) = false /\ ascii_digit c = false.
Proof.
  intros H.
  assert (Hne : forall d, is_ident_start X d = false -> (c =? d) = false).
  { intros d Hd. apply N.eqb_neq. intros ->. congruence. }
  repeat split; try (apply Hne; reflexivity).
  destruct (ascii_digit c) eqn:E; [|reflexivity]. exfalso.
  unfold ascii_digit in E. apply andb_true_iff in E. destruct E as [E1 E2]. apply N.leb_le in E1, E2.
  unfold is_ident_start, is_alphabetic, ascii_alpha in H.
  assert (Hlt : c <? 128 = true) by (apply N.ltb_lt; lia). rewrite Hlt in H.
  replace (c =? 95) with false in H by (symmetry; apply N.eqb_neq; lia).
  replace (65 <=? c) with false in H by (symmetry; apply N.leb_gt; lia).
  replace (97 <=? c) with false in H by (symmetry; apply N.leb_gt; lia). discriminate.
Qed.

Definition no_dot_start (r : list N) : Prop := match r with [] => True | c :: _ => c <> 46 end.

Lemma suffix_loop_stop X F k e s : (0 < k)%nat -> no_dot_start (p_rest s) -> suffix_loop X F k e s = ROk e s.
Proof.
  intros Hk Hd. destruct k as [|k]; [lia|]. cbn [suffix_loop]. unfold peek_is.
  destruct (p_rest s) as [|c r]; [reflexivity|]. cbn in Hd.
  replace (c =? 46) with false by (symmetry; apply N.eqb_neq; exact Hd). reflexivity.
Qed.

(* the conditions under which an expression text t, followed by the gap g and the rest r, ends there *)
Definition expr_follow (X : ext) (ends_word : bool) (g : gap) (r : list N) : Prop :=
  WfGap X g /\ no_gap_start X r /\ no_dot_start r /\
  (ends_word = true -> no_ident_start X (render_gap g ++ r)).

Lemma expression_body_ident X F rec n g s r : WfIdent X n -> expr_follow X true g r ->
  p_rest s = n ++ render_gap g ++ r -> (len s < F)%nat ->
  expression_body X F rec s = ROk (EUnscoped n (p_loc s)) (st_after s (n ++ render_gap g) r).
Proof.
  intros Hn [Hg [Hr [Hd Hw]]] E Hk. destruct n as [|c t] eqn:En; [contradiction|]. rewrite <- En in *.
  assert (Hc : is_ident_start X c = true) by (subst n; apply Hn).
  destruct (ident_start_dispatch X c Hc) as [H1 [H2 [H3 [H4 [H5 [H6 [H7 H8]]]]]]].
  unfold expression_body. unfold bind at 1.
  rewrite (peek_eq s c (t ++ render_gap g ++ r)) by (rewrite E, En; reflexivity).
  rewrite H1, H2, H3, H4, H5, H6, H7, H8, Hc.
  unfold bind at 1. unfold bind at 1. unfold get_loc at 1. unfold bind at 1.
  rewrite (parse_name_ok X F w_variable n s (render_gap g ++ r) Hn (Hw eq_refl) E Hk).
  unfold ret at 1. unfold bind at 1.
  rewrite (consume_whitespace_ok X F g _ r Hg Hr) by (try reflexivity; lensolve E Hk).
  rewrite st_after_app. apply suffix_loop_stop; [lia | exact Hd].
Qed.

Lemma parse_expression_ident X F n g s r : WfIdent X n -> expr_follow X true g r ->
  p_rest s = n ++ render_gap g ++ r -> (len s < F)%nat ->
  parse_expression X F s = ROk (EUnscoped n (p_loc s)) (st_after s (n ++ render_gap g) r).
Proof.
  intros Hn Hf E Hk. unfold parse_expression. destruct F as [|F']; [lia|]. cbn [parse_expression_n].
  apply expression_body_ident; assumption.
Qed.

(* ---- keywords are not confused with identifiers that begin with them ---- *)
Lemma starts_with_split tok l : starts_with tok l = true -> exists r, l = tok ++ r.
Proof.
  revert l. induction tok as [|c tok IH]; intros l H; [exists l; reflexivity|].
  destruct l as [|d l]; [discriminate|]. cbn [starts_with] in H. apply andb_true_iff in H.
  destruct H as [H1 H2]. apply N.eqb_eq in H1. subst d. destruct (IH l H2) as [r ->]. exists r. reflexivity.
Qed.

Lemma skipn_app_exact {A} (a b : list A) : skipn (length a) (a ++ b) = b.
Proof. induction a as [|c a IH]; cbn [length skipn app]; [reflexivity | exact IH]. Qed.

(* an identifier different from the keyword is not taken for it (the keyword consists of identifier
   characters; n is the maximal identifier at this point of the text) *)
Lemma consume_keyword_ident X kw n rest s : WfIdent X n -> no_ident_start X rest -> n <> kw ->
  kw <> [] -> forallb (is_ident X) kw = true -> p_rest s = n ++ rest ->
  consume_keyword X kw s = RErr (PEExpectedToken kw (p_loc s)).
Proof.
  intros Hn Hrest Hne Hkw0 Hkw E. unfold consume_keyword. rewrite E.
  destruct (starts_with kw (n ++ rest)) eqn:Hs; [|reflexivity]. cbn [andb].
  destruct (starts_with_split _ _ Hs) as [r Hr]. rewrite Hr, skipn_app_exact.
  destruct (app_eq_app _ _ _ _ Hr) as [m [[H1 H2]|[H1 H2]]].
  - (* n = kw ++ m: the next character belongs to n, an identifier character *)
    destruct m as [|c m]; [rewrite app_nil_r in H1; congruence|].
    subst r. cbn [app].
    assert (Hc : is_ident X c = true); [|rewrite Hc; reflexivity].
    destruct n as [|c0 t]; [contradiction|]. destruct Hn as [_ Ht].
    destruct kw as [|k0 kw']; cbn [app] in H1.
    + congruence.
    + injection H1 as -> ->. rewrite forallb_app in Ht. apply andb_true_iff in Ht. destruct Ht as [_ Ht].
      cbn [forallb] in Ht. apply andb_true_iff in Ht. apply Ht.
  - (* kw = n ++ m: the text after n would begin with a keyword (identifier) character *)
    destruct m as [|c m]; [rewrite app_nil_r in H1; congruence|].
    exfalso. subst rest kw. rewrite forallb_app in Hkw. apply andb_true_iff in Hkw. destruct Hkw as [_ Hkw].
    cbn [forallb] in Hkw. apply andb_true_iff in Hkw. destruct Hkw as [Hc _].
    cbn [no_ident_start app] in Hrest. congruence.
Qed.

Lemma consume_whitespace_noop X F s : no_gap_start X (p_rest s) -> (len s < F)%nat ->
  consume_whitespace X F s = ROk tt s.
Proof.
  intros Hr Hk. rewrite (consume_whitespace_ok X F [] s (p_rest s)); try assumption.
  - rewrite st_after_nil. reflexivity.
  - constructor.
  - reflexivity.
Qed.

Lemma parse_condition_ident X F n g s r : WfIdent X n -> n <> t_some -> n <> t_none ->
  expr_follow X true g r -> p_rest s = n ++ render_gap g ++ r -> (len s < F)%nat ->
  parse_condition X F s = ROk (CBool (EUnscoped n (p_loc s)) (p_loc s)) (st_after s (n ++ render_gap g) r).
Proof.
  intros Hn Hs Hno Hf E Hk. pose proof Hf as [Hg [Hr [Hd Hw]]].
  unfold parse_condition. unfold bind at 1. unfold get_loc at 1. unfold bind at 1.
  unfold if_ok at 1.
  rewrite (consume_keyword_ident X t_some n (render_gap g ++ r) s Hn (Hw eq_refl) Hs) by (try exact E; try reflexivity; discriminate).
  unfold if_ok at 1.
  rewrite (consume_keyword_ident X t_none n (render_gap g ++ r) s Hn (Hw eq_refl) Hno) by (try exact E; try reflexivity; discriminate).
  rewrite (parse_expression_ident X F n g s r Hn Hf E Hk).
  unfold bind at 1. rewrite consume_whitespace_noop by (try exact Hr; lensolve E Hk).
  unfold ret at 1. unfold bind at 1. rewrite consume_whitespace_noop by (try exact Hr; lensolve E Hk).
  reflexivity.
Qed.

Lemma parse_integer_constant_overflow F z n s r : u32_max < n -> no_digit_start r ->
  p_rest s = render_int z n ++ r -> (len s < F)%nat ->
  parse_integer_constant F s = RErr (PEInvalidIntegerConstant (p_loc s)).
Proof.
  intros Hn Hr E Hk. unfold parse_integer_constant, bind, get_loc, consume_while.
  rewrite (while_loop_ok ascii_digit (render_int z n) s r F (render_int_digits z n)); try assumption.
  unfold from_str_radix10. destruct (render_int z n) as [|d t] eqn:Ed.
  - reflexivity.
  - rewrite <- Ed. unfold render_int. rewrite digits_value_zeros, dec_value.
    destruct (N.leb_spec n u32_max); [lia | reflexivity].
Qed.
