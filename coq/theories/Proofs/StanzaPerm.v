(* Proofs/StanzaPerm.v — C08 bridge: "reordering the STANZAS of a file permutes the list of executed
   (stanza, match) blocks".  Every whole-run theorem of Props/C08.v keeps one file and permutes the
   block list; here a second file fl' is related to fl:
     - the lazy run reads a file only through its globals, inherited names, shorthands and, per
       executed match, the stanza found at the match's index (`blocks_of`);
     - a permutation of the stanza list gives an index map `old` (position in fl of the stanza at
       position j of fl'); re-tagging the matches of fl' with the old positions gives a block list of
       fl with the same run. *)
From TSG Require Import Model.Lazy.
From Coq Require Import Permutation FinFun.

(* everything of a file except the stanza list *)
Definition same_rest (fl fl' : file) : Prop :=
  f_globals fl = f_globals fl' /\ f_inherited fl = f_inherited fl' /\ f_shorthands fl = f_shorthands fl'.

(* the executed blocks: the stanza each match is tagged with (None: index out of range), and the match *)
Definition blocks_of (fl : file) (ms : list (N * qmatch)) : list (option stanza * qmatch) :=
  map (fun pm : N * qmatch => (nth_error (f_stanzas fl) (N.to_nat (fst pm)), snd pm)) ms.

(* re-tag the matches: stanza index j becomes old j *)
Definition retag (old : nat -> nat) (ms : list (N * qmatch)) : list (N * qmatch) :=
  map (fun pm : N * qmatch => (N.of_nat (old (N.to_nat (fst pm))), snd pm)) ms.

Section Run.
  Context {rx : Type}.
  Variables (t : tree) (cfg : config) (glob : globals) (regexes : list rx)
            (find : rx -> str -> option (list (option (N * N))))
            (call : ident -> graph -> list value -> res (value * graph)).

  (* one block of the execution phase *)
  Definition blk_step (fl : file) (fuel : nat) (b : option stanza * qmatch) : M lstate unit :=
    match fst b with
    | Some st => lexec_stanza t fl cfg glob regexes find call fuel st (snd b)
    | None => panic P_stanza_index
    end.

  Lemma lexec_file_as_blocks fl fuel ms :
    lexec_file t fl cfg glob regexes find call fuel ms =
    (iterM (blk_step fl fuel) (blocks_of fl ms) ;;; evaluate_phase t fl call (fuel + default_eval_fuel)).
  Proof.
    unfold lexec_file. f_equal. unfold blocks_of.
    induction ms as [|pm ms IH]; cbn [map iterM]; [reflexivity|]. rewrite IH. reflexivity.
  Qed.

  (* the interpreter functions mention the file only through f_inherited and f_shorthands: by conversion *)
  Lemma blk_step_rest fl fl' fuel : same_rest fl fl' -> blk_step fl fuel = blk_step fl' fuel.
  Proof.
    destruct fl as [g i sh sts], fl' as [g' i' sh' sts']. unfold same_rest. cbn [f_globals f_inherited f_shorthands].
    intros (A & B & C). subst. reflexivity.
  Qed.
  Lemma evaluate_phase_rest fl fl' fuel : same_rest fl fl' -> evaluate_phase t fl call fuel = evaluate_phase t fl' call fuel.
  Proof.
    destruct fl as [g i sh sts], fl' as [g' i' sh' sts']. unfold same_rest. cbn [f_globals f_inherited f_shorthands].
    intros (A & B & C). subst. reflexivity.
  Qed.

  Lemma lexec_file_blocks fl fl' fuel ms ms' :
    same_rest fl fl' -> blocks_of fl ms = blocks_of fl' ms' ->
    lexec_file t fl cfg glob regexes find call fuel ms = lexec_file t fl' cfg glob regexes find call fuel ms'.
  Proof.
    intros R B. rewrite !lexec_file_as_blocks, B, (blk_step_rest fl fl' fuel R), (evaluate_phase_rest fl fl' _ R). reflexivity.
  Qed.
End Run.

(* the lazy run of a file depends on the file only through `same_rest` and the executed blocks *)
Lemma run_lazy_blocks {rx} t fl fl' cfg supplied budget (regexes : list rx) find call fuel ms ms' g0 :
  same_rest fl fl' -> blocks_of fl ms = blocks_of fl' ms' ->
  run_lazy t fl cfg supplied budget regexes find call fuel ms g0 = run_lazy t fl' cfg supplied budget regexes find call fuel ms' g0.
Proof.
  intros R B. unfold run_lazy. destruct R as (Hg & Hi & Hs). rewrite <- Hg.
  destruct (check_globals (f_globals fl) (globals_nested supplied)) as [glob| | |]; try reflexivity.
  rewrite (lexec_file_blocks t cfg glob regexes find call fl fl' fuel ms ms' (conj Hg (conj Hi Hs)) B). reflexivity.
Qed.

(* a permutation of the executed blocks of two files is a permutation of the matches of the first *)
Lemma blocks_perm_matches fl fl' ms ms' :
  Permutation (blocks_of fl ms) (blocks_of fl' ms') ->
  exists ms'', Permutation ms ms'' /\ blocks_of fl ms'' = blocks_of fl' ms'.
Proof.
  intros P. apply Permutation_sym in P. unfold blocks_of at 2 in P.
  destruct (Permutation_map_inv _ _ P) as (ms'' & E & P'). exists ms''. split; [exact P'|]. symmetry. exact E.
Qed.

(* re-tagging with the index map of the stanza permutation *)
Lemma blocks_of_retag fl fl' old ms' :
  (forall j, nth_error (f_stanzas fl') j = nth_error (f_stanzas fl) (old j)) ->
  blocks_of fl' ms' = blocks_of fl (retag old ms').
Proof.
  intros H. unfold blocks_of, retag. rewrite map_map. apply map_ext. intros [j m]. cbn [fst snd].
  rewrite Nat2N.id, H. reflexivity.
Qed.

Lemma stanza_perm_bridge fl fl' :
  same_rest fl fl' -> Permutation (f_stanzas fl) (f_stanzas fl') ->
  exists old : nat -> nat,
    (forall i j, old i = old j -> i = j) /\
    (forall j, nth_error (f_stanzas fl') j = nth_error (f_stanzas fl) (old j)) /\
    forall ms',
      blocks_of fl' ms' = blocks_of fl (retag old ms') /\
      (forall ms, Permutation ms (retag old ms') -> Permutation (blocks_of fl ms) (blocks_of fl' ms')) /\
      (forall (rx : Type) t cfg supplied budget (regexes : list rx) find call fuel g0,
         run_lazy t fl' cfg supplied budget regexes find call fuel ms' g0 =
         run_lazy t fl cfg supplied budget regexes find call fuel (retag old ms') g0).
Proof.
  intros R P. apply Permutation_nth_error in P. destruct P as (_ & old & Hinj & Hnth).
  exists old. split; [exact Hinj|]. split; [exact Hnth|]. intros ms'.
  pose proof (blocks_of_retag fl fl' old ms' Hnth) as B. split; [exact B|]. split.
  - intros ms HP. rewrite B. unfold blocks_of. apply Permutation_map. exact HP.
  - intros rx t cfg supplied budget regexes find call fuel g0. symmetry.
    apply run_lazy_blocks; [exact R|symmetry; exact B].
Qed.
