(* Proofs/NoPanicStrict.v — C05 (execution part, strict interpreter): under what the parser, the checker
   and tree-sitter guarantee, `run_strict` never reaches a Panic site.

   The invariant is value-level: every graph-node reference reachable from the interpreter state
   (locals, scoped variables, the parameter buffer) is an index of the current graph, which only
   grows; every syntax-node reference satisfies an arbitrary predicate `sok` the function library
   may rely on (for the real stdlib: the node is in the recorded tree).  Frame depth and the length of
   the parameter buffer are tracked exactly ("shape"), which excludes P_locals_empty and
   P_params_underflow. *)
From TSG Require Import Model.Strict Model.Stdlib Spec.StdlibDoc.
From TSG Require Import Proofs.BaseFacts Proofs.MonadFacts Proofs.Containers Proofs.OrderFacts Proofs.Stdlib.

(* ------------------------------------------------------------------ static conditions on programs *)
(* every capture expression satisfies okq (quantifier, file capture index, stanza capture index) *)
Fixpoint expr_ok (okq : quant -> N -> N -> bool) (e : expr) {struct e} : bool :=
  match e with
  | EList es | ESet es => forallb (expr_ok okq) es
  | EListComp elem _ _ value _ | ESetComp elem _ _ value _ => expr_ok okq elem && expr_ok okq value
  | ECapture _ q fi si _ => okq q fi si
  | EScoped scope _ _ => expr_ok okq scope
  | ECall _ args => forallb (expr_ok okq) args
  | _ => true
  end.
Definition var_ok (okq : quant -> N -> N -> bool) (v : variable) : bool :=
  match v with VarU _ _ => true | VarS scope _ _ => expr_ok okq scope end.
Definition attr_ok (okq : quant -> N -> N -> bool) (a : attr) : bool := let '(Attr _ value) := a in expr_ok okq value.
Definition cond_ok (okq : quant -> N -> N -> bool) (c : cond) : bool :=
  match c with CSome e _ | CNone e _ | CBool e _ => expr_ok okq e end.
Fixpoint stmt_ok (okq : quant -> N -> N -> bool) (s : stmt) {struct s} : bool :=
  match s with
  | SLet v e _ | SVar v e _ | SSet v e _ => var_ok okq v && expr_ok okq e
  | SNode v _ _ => var_ok okq v
  | SAttrNode node attrs _ => expr_ok okq node && forallb (attr_ok okq) attrs
  | SEdge a b _ => expr_ok okq a && expr_ok okq b
  | SAttrEdge a b attrs _ => expr_ok okq a && expr_ok okq b && forallb (attr_ok okq) attrs
  | SScan value arms _ =>
      expr_ok okq value && forallb (fun arm : N * list stmt * loc => forallb (stmt_ok okq) (snd (fst arm))) arms
  | SPrint values _ => forallb (expr_ok okq) values
  | SIf arms _ =>
      forallb (fun arm : list cond * list stmt * loc =>
                 forallb (cond_ok okq) (fst (fst arm)) && forallb (stmt_ok okq) (snd (fst arm))) arms
  | SFor _ _ value body _ => expr_ok okq value && forallb (stmt_ok okq) body
  end.

(* every scan statement (nested ones included) has a compiled regex for each of its arms *)
Fixpoint scans_ok {rx : Type} (regexes : list rx) (s : stmt) {struct s} : bool :=
  match s with
  | SScan _ arms _ =>
      match arm_table regexes arms with Some _ => true | None => false end
      && forallb (fun arm : N * list stmt * loc => forallb (scans_ok regexes) (snd (fst arm))) arms
  | SIf arms _ => forallb (fun arm : list cond * list stmt * loc => forallb (scans_ok regexes) (snd (fst arm))) arms
  | SFor _ _ _ body _ => forallb (scans_ok regexes) body
  | _ => true
  end.

(* a capture expression the interpreter can evaluate on match m: the checker has resolved its quantifier
   (not Zero: the parser's placeholder, known class K1) and a capture that the query analysis says occurs
   exactly once is bound *)
Definition cap_ok (m : qmatch) (q : quant) (idx : N) : bool :=
  match q with
  | QZero => false
  | QOne => match nodes_for_capture m idx with [] => false | _ :: _ => true end
  | _ => true
  end.
Definition no_capture (q : quant) (fi si : N) : bool := false.
(* the strict interpreter looks captures up by their index in the stanza query *)
Definition by_stanza (f : quant -> N -> bool) (q : quant) (fi si : N) : bool := f q si.
(* the weaker condition that only the checker is responsible for: the quantifier has been resolved *)
Definition cap_resolved (m : qmatch) (q : quant) (idx : N) : bool := negb (quant_eqb q QZero).

(* ------------------------------------------------------------------ good values *)
Section Good.
  Variable sok : N -> Prop.

  Fixpoint vgood (n : nat) (v : value) {struct v} : Prop :=
    let fix all (l : list value) : Prop := match l with [] => True | x :: l' => vgood n x /\ all l' end in
    match v with
    | VList l => all l
    | VSet l => all l
    | VSyn k => sok k
    | VGraph k => (N.to_nat k < n)%nat
    | _ => True
    end.

  Lemma vgood_all n l :
    (fix all (l : list value) : Prop := match l with [] => True | x :: l' => vgood n x /\ all l' end) l <-> Forall (vgood n) l.
  Proof.
    induction l as [|x l IH]; [split; constructor|]. split.
    - intros [H1 H2]. constructor; [exact H1|apply IH, H2].
    - intros H. inversion H; subst. split; [assumption|apply IH; assumption].
  Qed.
  Lemma vgood_list n l : vgood n (VList l) <-> Forall (vgood n) l. Proof. apply vgood_all. Qed.
  Lemma vgood_set n l : vgood n (VSet l) <-> Forall (vgood n) l. Proof. apply vgood_all. Qed.

  Lemma vgood_mono n n' v : (n <= n')%nat -> vgood n v -> vgood n' v.
  Proof.
    intros Hn. induction v as [| | | |l IH|l IH| |k] using value_ind'; try (intros H; exact H).
    - rewrite !vgood_list. intros H. rewrite Forall_forall in *. intros x Hx. apply IH; auto.
    - rewrite !vgood_set. intros H. rewrite Forall_forall in *. intros x Hx. apply IH; auto.
    - cbn [vgood]. lia.
  Qed.
  Lemma vsgood_mono n n' l : (n <= n')%nat -> Forall (vgood n) l -> Forall (vgood n') l.
  Proof. intros Hn H. rewrite Forall_forall in *. intros x Hx. eapply vgood_mono; eauto. Qed.

  Lemma set_of_list_good n l : Forall (vgood n) l -> Forall (vgood n) (set_of_list l).
  Proof. intros H. rewrite Forall_forall in *. intros x Hx. apply H. apply set_of_list_In. exact Hx. Qed.

  (* frames, local environments, scoped variables, globals *)
  Definition fgood (n : nat) (f : vframe value) : Prop := Forall (fun kv => vgood n (fst (snd kv))) f.
  Definition lgood (n : nat) (l : varmap value) : Prop := Forall (fgood n) l.
  Definition scgood (n : nat) (sc : list (N * vframe value)) : Prop := Forall (fun nf => fgood n (snd nf)) sc.
  Definition ggood (n : nat) (g : globals) : Prop := Forall (Forall (fun kv : ident * value => vgood n (snd kv))) g.

  Lemma fgood_mono n n' f : (n <= n')%nat -> fgood n f -> fgood n' f.
  Proof. intros Hn H. unfold fgood in *. rewrite Forall_forall in *. intros x Hx. eapply vgood_mono; eauto. Qed.
  Lemma lgood_mono n n' l : (n <= n')%nat -> lgood n l -> lgood n' l.
  Proof. intros Hn H. unfold lgood in *. rewrite Forall_forall in *. intros x Hx. eapply fgood_mono; eauto. Qed.
  Lemma scgood_mono n n' l : (n <= n')%nat -> scgood n l -> scgood n' l.
  Proof. intros Hn H. unfold scgood in *. rewrite Forall_forall in *. intros x Hx. eapply fgood_mono; eauto. Qed.
  Lemma ggood_mono n n' g : (n <= n')%nat -> ggood n g -> ggood n' g.
  Proof.
    intros Hn H. unfold ggood in *. rewrite Forall_forall in *. intros f Hf. specialize (H f Hf).
    rewrite Forall_forall in *. intros x Hx. eapply vgood_mono; eauto.
  Qed.

  Lemma fgood_get n f k v b : fgood n f -> alist_get k f = Some (v, b) -> vgood n v.
  Proof. intros H E. apply alist_get_In in E. unfold fgood in H. rewrite Forall_forall in H. apply (H _ E). Qed.
  Lemma fgood_app n f k v b : fgood n f -> vgood n v -> fgood n (f ++ [(k, (v, b))]).
  Proof. intros H Hv. unfold fgood. apply Forall_app. split; [exact H|]. constructor; [exact Hv|constructor]. Qed.
  Lemma fgood_set n f k v b : fgood n f -> vgood n v -> fgood n (alist_set k (v, b) f).
  Proof.
    intros H Hv. induction f as [|[k0 x0] f IH]; cbn [alist_set].
    - constructor; [exact Hv|constructor].
    - inversion H; subst. destruct (str_eqb k k0); constructor; cbn [fst snd]; auto. apply IH. assumption.
  Qed.

  Lemma varmap_get_good n l k v : lgood n l -> varmap_get l k = Some v -> vgood n v.
  Proof.
    intros H. induction l as [|f up IH]; cbn [varmap_get]; [discriminate|]. inversion H; subst.
    destruct (alist_get k f) as [[v0 b0]|] eqn:E.
    - intros E'. inversion E'; subst. eapply fgood_get; eauto.
    - apply IH. assumption.
  Qed.
  Lemma varmap_add_good n l k v b l' : lgood n l -> vgood n v -> varmap_add l k v b = inl l' ->
    lgood n l' /\ length l' = length l.
  Proof.
    intros H Hv. destruct l as [|f up]; cbn [varmap_add]; [discriminate|]. inversion H; subst.
    destruct (alist_get k f); [discriminate|]. intros E. inversion E; subst. split; [|reflexivity].
    constructor; [apply fgood_app; assumption|assumption].
  Qed.
  Lemma varmap_set_good n k v : forall l l', lgood n l -> vgood n v -> varmap_set l k v = inl l' ->
    lgood n l' /\ length l' = length l.
  Proof.
    induction l as [|f up IH]; intros l' H Hv; cbn [varmap_set]; [discriminate|]. inversion H; subst.
    destruct (alist_get k f) as [[v0 [|]]|].
    - intros E. inversion E; subst. split; [|reflexivity]. constructor; [apply fgood_set; assumption|assumption].
    - discriminate.
    - destruct (varmap_set up k v) as [up'|e] eqn:Eu; [|discriminate]. intros E. inversion E; subst.
      destruct (IH up') as [G L]; auto. split; [constructor; assumption|cbn [length]; rewrite L; reflexivity].
  Qed.
  Lemma varmap_clear_good n (l : varmap value) : lgood n l -> lgood n (varmap_clear l) /\ length (varmap_clear l) = length l.
  Proof.
    intros H. destruct l as [|f up]; cbn [varmap_clear]; [split; [constructor|reflexivity]|]. inversion H; subst.
    split; [constructor; [constructor|assumption]|reflexivity].
  Qed.

  Lemma scopes_get_good n sc k f : scgood n sc -> scopes_get sc k = Some f -> fgood n f.
  Proof.
    intros H. induction sc as [|[m f0] sc IH]; cbn [scopes_get]; [discriminate|]. inversion H; subst.
    destruct (N.eqb k m); [intros E; inversion E; subst; assumption|apply IH; assumption].
  Qed.
  Lemma scopes_set_good n sc k f : scgood n sc -> fgood n f -> scgood n (scopes_set sc k f).
  Proof.
    intros H Hf. induction sc as [|[m f0] sc IH]; cbn [scopes_set]; [constructor; [exact Hf|constructor]|].
    inversion H; subst. destruct (N.eqb k m); constructor; cbn [snd]; auto. apply IH; assumption.
  Qed.
  Lemma scoped_lookup_good n sc k name v : scgood n sc -> scoped_lookup sc k name = Some v -> vgood n v.
  Proof.
    intros H. unfold scoped_lookup. destruct (scopes_get sc k) as [f|] eqn:E; [|discriminate].
    destruct (alist_get name f) as [[v0 b0]|] eqn:Ea; [|discriminate]. intros E'. inversion E'; subst.
    eapply fgood_get; [eapply scopes_get_good; eauto|exact Ea].
  Qed.
  Lemma ancestor_lookup_good t n sc name v : scgood n sc -> forall fuel parent,
    ancestor_lookup t fuel sc parent name = Some v -> vgood n v.
  Proof.
    intros H. induction fuel as [|fuel IH]; intros parent; cbn [ancestor_lookup]; [discriminate|].
    destruct parent as [p|]; [|discriminate]. destruct (scoped_lookup sc p name) as [v0|] eqn:E.
    - intros E'. inversion E'; subst. eapply scoped_lookup_good; eauto.
    - apply IH.
  Qed.

  Lemma globals_get_good n g k v : ggood n g -> globals_get g k = Some v -> vgood n v.
  Proof.
    intros H. induction g as [|f up IH]; cbn [globals_get]; [discriminate|]. inversion H as [|? ? Hf Hup]; subst.
    destruct (alist_get k f) as [v0|] eqn:E.
    - intros E'. inversion E'; subst. apply alist_get_In in E. rewrite Forall_forall in Hf. apply (Hf _ E).
    - apply IH. assumption.
  Qed.
  Lemma check_globals_good n ds : forall g g', ggood n g -> check_globals ds g = Ok g' -> ggood n g'.
  Proof.
    induction ds as [|d ds IH]; intros g g' H; cbn [check_globals]; [intros E; inversion E; subst; exact H|].
    unfold check_global. destruct (globals_get g (gl_name d)) as [v|].
    - destruct (is_list_quant (gl_quant d)); [destruct (as_list v); cbn [obind]; try discriminate|cbn [obind]]; apply IH; exact H.
    - destruct (gl_default d) as [s|]; [|discriminate]. unfold globals_add. destruct g as [|f up]; [discriminate|].
      destruct (alist_get (gl_name d) f); [discriminate|]. cbn [obind]. apply IH. inversion H; subst.
      constructor; [|assumption]. apply Forall_app. split; [assumption|]. constructor; [exact I|constructor].
  Qed.
End Good.

Lemma check_globals_no_panic ds : forall g x, check_globals ds g <> Panic x.
Proof.
  induction ds as [|d ds IH]; intros g x; cbn [check_globals]; [discriminate|]. unfold check_global.
  destruct (globals_get g (gl_name d)) as [v|].
  - destruct (is_list_quant (gl_quant d)); [destruct (as_list v)|]; cbn [obind]; try discriminate; apply IH.
  - destruct (gl_default d) as [s|]; [|discriminate]. destruct (globals_add g (gl_name d) (VStr s)) as [g' b].
    destruct b; cbn [obind]; [apply IH|discriminate].
Qed.

(* ------------------------------------------------------------------ the safety predicate *)
Definition glen (s : sstate) : nat := length (s_graph s).
(* frame depth and length of the parameter buffer *)
Definition shape (s : sstate) : nat * nat := (length (s_locals s), length (s_params s)).

(* the function library: given arguments that are good for the graph it never panics; what it returns is
   good for the graph it returns, which is not smaller *)
Definition GoodCall (sok : N -> Prop) (call : ident -> graph -> list value -> res (value * graph)) : Prop :=
  forall f g args, Forall (vgood sok (length g)) args ->
    match call f g args with
    | Ok (v, g') => (length g <= length g')%nat /\ vgood sok (length g') v
    | Panic _ => False
    | _ => True
    end.

Inductive tgt_good (n : nat) : target -> Prop :=
| tg_node k : (N.to_nat k < n)%nat -> tgt_good n (TNode k)
| tg_edge a b : (N.to_nat a < n)%nat -> tgt_good n (TEdge a b).
Lemma tgt_good_mono n n' tgt : (n <= n')%nat -> tgt_good n tgt -> tgt_good n' tgt.
Proof. intros Hn H. destruct H; constructor; lia. Qed.

Section Safe.
  Variable sok : N -> Prop.
  Variable base : nat.                         (* size of the initial graph: the globals are good for it *)
  Variable allowed : N -> Prop.                (* panic sites that the hypotheses do not exclude *)

  Definition Inv (s : sstate) : Prop :=
    (base <= glen s)%nat /\ lgood sok (glen s) (s_locals s) /\ scgood sok (glen s) (s_scoped s) /\
    Forall (vgood sok (glen s)) (s_params s).

  (* m, started in a state satisfying Inv with at least n0 graph nodes and shape sh, does not panic; a result
     comes with a state satisfying Inv, a graph that is not smaller, shape sh' and Q (result, graph size) *)
  Definition safe {A} (n0 : nat) (sh sh' : nat * nat) (Q : A -> nat -> Prop) (m : M sstate A) : Prop :=
    forall s p, Inv s -> (n0 <= glen s)%nat -> shape s = sh ->
      match m s p with
      | Ok (a, s', p') => Inv s' /\ (glen s <= glen s')%nat /\ shape s' = sh' /\ Q a (glen s')
      | Panic x => allowed x
      | _ => True
      end.
  Definition T {A} : A -> nat -> Prop := fun _ _ => True.
  Definition VG : value -> nat -> Prop := fun v n => vgood sok n v.

  Lemma Inv_grow s g' : Inv s -> (glen s <= length g')%nat ->
    Inv {| s_graph := g'; s_locals := s_locals s; s_scoped := s_scoped s; s_params := s_params s |}.
  Proof.
    intros (Hb & Hl & Hsc & Hps) Hg. unfold Inv, glen in *. cbn [s_graph s_locals s_scoped s_params].
    split; [lia|]. split; [eapply lgood_mono; eauto|]. split; [eapply scgood_mono; eauto|eapply vsgood_mono; eauto].
  Qed.

  Lemma safe_ret A n0 sh (Q : A -> nat -> Prop) a : (forall n, (n0 <= n)%nat -> Q a n) -> safe n0 sh sh Q (ret a).
  Proof. intros H s p HI Hn Hs. cbn. split; [exact HI|]. repeat split; auto. Qed.
  Lemma safe_bind A B n0 sh sh1 sh2 (Q : A -> nat -> Prop) (R : B -> nat -> Prop) (m : M sstate A) (f : A -> M sstate B) :
    safe n0 sh sh1 Q m -> (forall a n1, (n0 <= n1)%nat -> Q a n1 -> safe n1 sh1 sh2 R (f a)) -> safe n0 sh sh2 R (bind m f).
  Proof.
    intros Hm Hf s p HI Hn Hs. specialize (Hm s p HI Hn Hs). unfold bind. destruct (m s p) as [[[a s1] p1]|e|x|]; auto.
    destruct Hm as (HI1 & Hg1 & Hs1 & HQ).
    assert (Hn1 : (n0 <= glen s1)%nat) by lia.
    specialize (Hf a (glen s1) Hn1 HQ s1 p1 HI1 (le_n _) Hs1).
    destruct (f a s1 p1) as [[[b s2] p2]|e|x|]; auto. destruct Hf as (HI2 & Hg2 & Hs2 & HR). split; [exact HI2|]. repeat split; auto. lia.
  Qed.
  Lemma safe_weaken A n0 n1 sh sh' (Q : A -> nat -> Prop) m : (n0 <= n1)%nat -> safe n0 sh sh' Q m -> safe n1 sh sh' Q m.
  Proof. intros Hle H s p HI Hn Hs. apply H; auto. lia. Qed.
  Lemma safe_conseq A n0 sh sh' (Q Q' : A -> nat -> Prop) m :
    (forall a n, (n0 <= n)%nat -> Q a n -> Q' a n) -> safe n0 sh sh' Q m -> safe n0 sh sh' Q' m.
  Proof.
    intros HQ H s p HI Hn Hs. specialize (H s p HI Hn Hs). destruct (m s p) as [[[a s1] p1]|e|x|]; auto.
    destruct H as (H1 & H2 & H3 & H4). split; [exact H1|]. split; [exact H2|]. split; [exact H3|]. apply HQ; [lia|exact H4].
  Qed.
  Lemma safe_fail A n0 sh sh' (Q : A -> nat -> Prop) e : safe n0 sh sh' Q (fail e).
  Proof. intros s p HI Hn Hs. exact I. Qed.
  Lemma safe_oof A n0 sh sh' (Q : A -> nat -> Prop) : safe n0 sh sh' Q out_of_fuel.
  Proof. intros s p HI Hn Hs. exact I. Qed.
  Lemma safe_lift A n0 sh (Q : A -> nat -> Prop) (r : res A) :
    match r with Ok a => forall n, (n0 <= n)%nat -> Q a n | Panic x => allowed x | _ => True end -> safe n0 sh sh Q (lift r).
  Proof. intros H s p HI Hn Hs. unfold lift. destruct r as [a|e|x|]; [|exact I|exact H|exact I]. split; [exact HI|]. split; [lia|]. split; [exact Hs|]. apply H, Hn. Qed.
  Lemma safe_poll n0 sh l : safe n0 sh sh T (poll l).
  Proof. intros s p HI Hn Hs. unfold poll. destruct (poll_step l p) as [q c]. destruct c; [exact I|]. split; [exact HI|]. repeat split; auto. Qed.
  Lemma safe_ctx A n0 sh sh' (Q : A -> nat -> Prop) c m : safe n0 sh sh' Q m -> safe n0 sh sh' Q (ctx_wrap c m).
  Proof. intros H s p HI Hn Hs. specialize (H s p HI Hn Hs). unfold ctx_wrap. destruct (m s p) as [[[a s1] p1]|e|x|]; auto. Qed.

  Lemma safe_mapM_in A B n0 sh (Q : B -> nat -> Prop) (f : A -> M sstate B) l :
    (forall b n n', (n <= n')%nat -> Q b n -> Q b n') ->
    (forall x, In x l -> forall n1, (n0 <= n1)%nat -> safe n1 sh sh Q (f x)) ->
    safe n0 sh sh (fun ys n => Forall (fun y => Q y n) ys) (mapM f l).
  Proof.
    intros Hmono. revert n0. induction l as [|x l IH]; intros n0 H; cbn [mapM].
    - apply safe_ret. intros n _. constructor.
    - eapply safe_bind; [apply H; [left; reflexivity|apply le_n]|]. intros y n1 Hn1 Hy.
      eapply safe_bind.
      + apply IH. intros z Hz n2 Hn2. apply H; [right; exact Hz|lia].
      + intros ys n2 Hn2 Hys. apply safe_ret. intros n3 Hn3. constructor.
        * eapply Hmono; [|exact Hy]. lia.
        * rewrite Forall_forall in *. intros z Hz. eapply Hmono; [|apply Hys, Hz]. lia.
  Qed.
  Lemma safe_iterM_in A n0 sh (f : A -> M sstate unit) l :
    (forall x, In x l -> forall n1, (n0 <= n1)%nat -> safe n1 sh sh T (f x)) -> safe n0 sh sh T (iterM f l).
  Proof.
    revert n0. induction l as [|x l IH]; intros n0 H; cbn [iterM].
    - apply safe_ret. intros n _. exact I.
    - eapply safe_bind; [apply H; [left; reflexivity|apply le_n]|]. intros y n1 Hn1 _.
      apply IH. intros z Hz n2 Hn2. apply H; [right; exact Hz|lia].
  Qed.
  (* each step pushes one parameter *)
  Lemma safe_iterM_push A n0 d (f : A -> M sstate unit) l :
    (forall x, In x l -> forall n1 k1, (n0 <= n1)%nat -> safe n1 (d, k1) (d, S k1) T (f x)) ->
    forall k, safe n0 (d, k) (d, (length l + k)%nat) T (iterM f l).
  Proof.
    revert n0. induction l as [|x l IH]; intros n0 H k; cbn [iterM length].
    - apply safe_ret. intros n _. exact I.
    - eapply safe_bind; [apply H; [left; reflexivity|apply le_n]|]. intros y n1 Hn1 _.
      replace (S (length l) + k)%nat with (length l + S k)%nat by lia.
      apply IH. intros z Hz n2 k2 Hn2. apply H; [right; exact Hz|lia].
  Qed.

  (* ---- primitives ---- *)
  Ltac st := unfold Inv, glen, shape in *; cbn [s_graph s_locals s_scoped s_params] in *.

  Lemma safe_set_locals n0 d k l : lgood sok n0 l -> safe n0 (d, k) (length l, k) T (set_locals l).
  Proof.
    intros Hl [g l0 sc ps] p (Hb & _ & Hsc & Hps) Hn Hs. unfold set_locals, modify. st. injection Hs as _ Hk.
    repeat split; auto. all: try congruence. eapply lgood_mono; eauto.
  Qed.
  Lemma safe_push_frame n0 d k : safe n0 (d, k) (S d, k) T push_frame.
  Proof.
    intros [g l0 sc ps] p (Hb & Hl & Hsc & Hps) Hn Hs. unfold push_frame, bind, get_state, set_locals, modify. st. injection Hs as Hd Hk.
    repeat split; auto. constructor; [constructor|exact Hl]. cbn [length]. congruence.
  Qed.
  Lemma safe_pop_frame n0 d k : safe n0 (S d, k) (d, k) T pop_frame.
  Proof.
    intros [g l0 sc ps] p (Hb & Hl & Hsc & Hps) Hn Hs. unfold pop_frame, bind, get_state. st. injection Hs as Hd Hk.
    destruct l0 as [|f up]; [discriminate|]. unfold set_locals, modify. st. inversion Hl; subst.
    repeat split; auto.
  Qed.
  Lemma safe_clear_frame n0 sh : safe n0 sh sh T clear_frame.
  Proof.
    intros [g l0 sc ps] p (Hb & Hl & Hsc & Hps) Hn Hs. unfold clear_frame, bind, get_state, set_locals, modify. st.
    destruct (varmap_clear_good sok _ _ Hl) as [G L]. repeat split; auto. rewrite L. exact Hs.
  Qed.
  Lemma safe_push_param n0 d k v : vgood sok n0 v -> safe n0 (d, k) (d, S k) T (push_param v).
  Proof.
    intros Hv [g l0 sc ps] p (Hb & Hl & Hsc & Hps) Hn Hs. unfold push_param, bind, get_state, set_params, modify. st. injection Hs as Hd Hk.
    repeat split; auto.
    - apply Forall_app. split; [exact Hps|]. constructor; [|constructor]. eapply vgood_mono; eauto.
    - rewrite app_length. cbn [length]. f_equal; lia.
  Qed.
  Lemma safe_drain_params n0 d k n : safe n0 (d, (n + k)%nat) (d, k) (fun vs m => Forall (vgood sok m) vs) (drain_params n).
  Proof.
    intros [g l0 sc ps] p (Hb & Hl & Hsc & Hps) Hn Hs. unfold drain_params, bind, get_state. st. injection Hs as Hd Hk.
    destruct (Nat.ltb_spec (length ps) n) as [Hlt|Hge]; [lia|]. unfold set_params, modify, ret. st.
    rewrite <- (firstn_skipn (length ps - n) ps) in Hps. apply Forall_app in Hps as [Hf Hsk].
    repeat split; auto. rewrite firstn_length. f_equal; lia.
  Qed.

  Lemma safe_add_node n0 sh : safe n0 sh sh (fun n k => (N.to_nat n < k)%nat) add_node.
  Proof.
    intros s p HI Hn Hs. unfold add_node, bind, get_state, add_graph_node, set_graph, modify, ret.
    assert (Hlen : length (s_graph s ++ [new_gnode]) = S (glen s)) by (rewrite app_length; cbn [length]; unfold glen; lia).
    split; [apply Inv_grow; [exact HI|lia]|]. unfold glen at 2 3. cbn [s_graph]. rewrite Hlen.
    split; [lia|]. split; [exact Hs|]. rewrite Nat2N.id. unfold glen. lia.
  Qed.
  Lemma gnode_at_some g n : (N.to_nat n < length g)%nat -> gnode_at g n <> None.
  Proof. intros H E. unfold gnode_at in E. apply nth_error_None in E. lia. Qed.
  Lemma safe_add_attr n0 sh tgt k v : tgt_good n0 tgt -> safe n0 sh sh T (add_attr tgt k v).
  Proof.
    intros Ht s p HI Hn Hs. unfold add_attr, bind, get_state. destruct Ht as [n Hlt|a b Hlt].
    - destruct (gnode_at (s_graph s) n) as [nd|] eqn:E; [|exfalso; revert E; apply gnode_at_some; unfold glen in Hn; lia].
      destruct (attrs_add (g_attrs nd) k v) as [m' c]. destruct c; [exact I|]. unfold set_graph, modify.
      assert (Hlen : length (graph_update (s_graph s) n (with_attrs m')) = glen s) by (unfold graph_update; rewrite list_update_length; reflexivity).
      split; [apply Inv_grow; [exact HI|lia]|]. unfold glen at 2 3. cbn [s_graph]. rewrite Hlen. repeat split; auto.
    - destruct (gnode_at (s_graph s) a) as [nd|] eqn:E; [|exfalso; revert E; apply gnode_at_some; unfold glen in Hn; lia].
      destruct (edges_get b (g_edges nd)) as [m|]; [|exact I].
      destruct (attrs_add m k v) as [m' c]. destruct c; [exact I|]. unfold set_graph, modify.
      assert (Hlen : length (graph_update (s_graph s) a (with_edges (edges_set b m' (g_edges nd)))) = glen s) by (unfold graph_update; rewrite list_update_length; reflexivity).
      split; [apply Inv_grow; [exact HI|lia]|]. unfold glen at 2 3. cbn [s_graph]. rewrite Hlen. repeat split; auto.
  Qed.
  Lemma safe_opt_attr n0 sh tgt o v : tgt_good n0 tgt -> safe n0 sh sh T (opt_attr tgt o v).
  Proof. intros Ht. destruct o; cbn [opt_attr]; [apply safe_add_attr, Ht|apply safe_ret; intros; exact I]. Qed.
  (* only the source is indexed *)
  Lemma safe_add_edge n0 sh a b : (N.to_nat a < n0)%nat -> safe n0 sh sh T (add_edge a b).
  Proof.
    intros Hlt s p HI Hn Hs. unfold add_edge, bind, get_state, graph_add_edge.
    destruct (gnode_at (s_graph s) a) as [nd|] eqn:E; [|exfalso; revert E; apply gnode_at_some; unfold glen in Hn; lia].
    destruct (edges_add b (g_edges nd)) as [isnew es]. unfold set_graph, modify, ret.
    assert (Hlen : length (graph_update (s_graph s) a (with_edges es)) = glen s) by (unfold graph_update; rewrite list_update_length; reflexivity).
    split; [apply Inv_grow; [exact HI|lia]|]. unfold glen at 2 3. cbn [s_graph]. rewrite Hlen. repeat split; auto.
  Qed.

  Lemma safe_scope_of n0 sh v : safe n0 sh sh T (scope_of v).
  Proof. destruct v; cbn [scope_of]; first [apply safe_fail|apply safe_ret; intros; exact I]. Qed.
  Lemma safe_scoped_add_at n0 sh n name v b : vgood sok n0 v -> safe n0 sh sh T (scoped_add_at n name v b).
  Proof.
    intros Hv [g l0 sc ps] p (Hb & Hl & Hsc & Hps) Hn Hs. unfold scoped_add_at, bind, get_state. st.
    set (f := match scopes_get sc n with Some f => f | None => [] end).
    assert (Hf : fgood sok (length g) f).
    { unfold f. destruct (scopes_get sc n) as [f0|] eqn:E; [eapply scopes_get_good; eauto|constructor]. }
    destruct (alist_get name f); [exact I|]. unfold set_scoped, modify. st. repeat split; auto.
    apply scopes_set_good; [exact Hsc|]. apply fgood_app; [exact Hf|]. eapply vgood_mono; eauto.
  Qed.
  Lemma safe_scoped_set_at n0 sh n name v : vgood sok n0 v -> safe n0 sh sh T (scoped_set_at n name v).
  Proof.
    intros Hv [g l0 sc ps] p (Hb & Hl & Hsc & Hps) Hn Hs. unfold scoped_set_at, bind, get_state. st.
    set (f := match scopes_get sc n with Some f => f | None => [] end).
    assert (Hf : fgood sok (length g) f).
    { unfold f. destruct (scopes_get sc n) as [f0|] eqn:E; [eapply scopes_get_good; eauto|constructor]. }
    destruct (alist_get name f) as [[v0 [|]]|]; try exact I. unfold set_scoped, modify. st. repeat split; auto.
    apply scopes_set_good; [exact Hsc|]. apply fgood_set; [exact Hf|]. eapply vgood_mono; eauto.
  Qed.
  Lemma safe_full_match_node n0 sh le : nodes_for_capture (le_match le) (le_full le) <> [] -> safe n0 sh sh T (full_match_node le).
  Proof.
    intros H. unfold full_match_node. destruct (nodes_for_capture (le_match le) (le_full le)); [contradiction|].
    apply safe_ret. intros; exact I.
  Qed.

  Section Interp.
    Context {rx : Type}.
    Variables (t : tree) (fl : file) (cfg : config) (glob : globals) (regexes : list rx)
              (find : rx -> str -> option (list (option (N * N))))
              (call : ident -> graph -> list value -> res (value * graph)).
    Hypothesis Hglob : ggood sok base glob.
    Hypothesis Hcall : GoodCall sok call.
    (* shorthand bodies contain no capture expression (a capture there is the known class K1) *)
    Hypothesis Hsh : forall sh, In sh (f_shorthands fl) -> forallb (attr_ok no_capture) (sh_attrs sh) = true.
    (* the condition on capture expressions relative to a match, and what it buys *)
    Variable okc : qmatch -> quant -> N -> bool.
    Hypothesis Hokc : forall m, Forall (fun c : N * list N => Forall sok (snd c)) m -> forall q idx, okc m q idx = true ->
      match from_nodes (nodes_for_capture m idx) q with
      | Ok v => forall n, vgood sok n v
      | Panic x => allowed x
      | _ => True
      end.

    Lemma safe_call_function n0 sh f args : Forall (vgood sok n0) args -> safe n0 sh sh VG (call_function call f args).
    Proof.
      intros Ha s p HI Hn Hs. unfold call_function, bind, get_state.
      assert (Ha' : Forall (vgood sok (length (s_graph s))) args) by (eapply vsgood_mono; [|exact Ha]; exact Hn).
      pose proof (Hcall f (s_graph s) args Ha') as Hc. destruct (call f (s_graph s) args) as [[v g']|e|x|]; [|exact I|contradiction|exact I].
      destruct Hc as [Hg Hv]. unfold set_graph, modify, ret. split; [apply Inv_grow; [exact HI|exact Hg]|].
      unfold glen at 2 3. cbn [s_graph]. repeat split; auto.
    Qed.
    Lemma safe_unscoped_get n0 sh name : safe n0 sh sh VG (unscoped_get glob name).
    Proof.
      unfold unscoped_get. destruct (globals_get glob name) as [v|] eqn:E.
      - intros s p HI Hn Hs. cbn. split; [exact HI|]. split; [lia|]. split; [exact Hs|]. unfold VG. destruct HI as (Hb & _).
        eapply vgood_mono; [exact Hb|]. eapply globals_get_good; eauto.
      - intros [g l0 sc ps] p (Hb & Hl & Hsc & Hps) Hn Hs. unfold bind, get_state. st.
        destruct (varmap_get l0 name) as [v|] eqn:Ev; [|exact I]. cbn. st. repeat split; auto.
        unfold VG. eapply varmap_get_good; eauto.
    Qed.
    Lemma safe_unscoped_add n0 sh name v b : vgood sok n0 v -> safe n0 sh sh T (unscoped_add glob name v b).
    Proof.
      intros Hv. unfold unscoped_add. destruct (globals_get glob name); [apply safe_fail|].
      intros [g l0 sc ps] p (Hb & Hl & Hsc & Hps) Hn Hs. unfold bind, get_state. st.
      destruct (varmap_add l0 name v b) as [l'|e] eqn:E; [|exact I]. unfold set_locals, modify. st.
      destruct (varmap_add_good sok (length g) l0 name v b l' Hl) as [G L]; [eapply vgood_mono; eauto|exact E|].
      repeat split; auto. rewrite L. exact Hs.
    Qed.
    Lemma safe_unscoped_set n0 sh name v : vgood sok n0 v -> safe n0 sh sh T (unscoped_set glob name v).
    Proof.
      intros Hv. unfold unscoped_set. destruct (globals_get glob name); [apply safe_fail|].
      intros [g l0 sc ps] p (Hb & Hl & Hsc & Hps) Hn Hs. unfold bind, get_state. st.
      destruct (varmap_set l0 name v) as [l'|e] eqn:E.
      - unfold set_locals, modify. st.
        destruct (varmap_set_good sok (length g) name v l0 l' Hl) as [G L]; [eapply vgood_mono; eauto|exact E|].
        repeat split; auto. rewrite L. exact Hs.
      - destruct (varmap_get l0 name); exact I.
    Qed.
    Lemma safe_scoped_get_at n0 sh n name : safe n0 sh sh VG (scoped_get_at t fl n name).
    Proof.
      intros [g l0 sc ps] p (Hb & Hl & Hsc & Hps) Hn Hs. unfold scoped_get_at, bind, get_state. st.
      destruct (scoped_lookup sc n name) as [v|] eqn:E.
      - cbn. st. repeat split; auto. unfold VG. eapply scoped_lookup_good; eauto.
      - destruct (inherited fl name); [|exact I].
        match goal with |- context [ancestor_lookup t ?fu sc ?pa name] => destruct (ancestor_lookup t fu sc pa name) as [v|] eqn:Ea end; [|exact I].
        cbn. st. repeat split; auto. unfold VG. eapply ancestor_lookup_good; eauto.
    Qed.

    Lemma safe_get_state A n0 sh sh' (Q : A -> nat -> Prop) (f : sstate -> M sstate A) :
      (forall s0, Inv s0 -> (n0 <= glen s0)%nat -> shape s0 = sh -> safe (glen s0) sh sh' Q (f s0)) ->
      safe n0 sh sh' Q (s <- get_state ;; f s).
    Proof. intros H s p HI Hn Hs. unfold bind, get_state. apply (H s HI Hn Hs s p HI (le_n _) Hs). Qed.

    Lemma forallb_In {A} (f : A -> bool) l x : forallb f l = true -> In x l -> f x = true.
    Proof. intros H Hin. rewrite forallb_forall in H. apply H, Hin. Qed.
    Lemma find_shorthand_in name l sh : find_shorthand name l = Some sh -> In sh l.
    Proof.
      induction l as [|s l IH]; cbn [find_shorthand]; [discriminate|]. destruct (find_shorthand name l) as [s'|].
      - intros H. inversion H; subst. right. apply IH. reflexivity.
      - destruct (str_eqb name (sh_name s)); [|discriminate]. intros H. inversion H. left. reflexivity.
    Qed.

    (* evaluating a capture expression that satisfies okq neither panics nor yields a bad value *)
    Definition caps_safe (m : qmatch) (okq : quant -> N -> N -> bool) : Prop :=
      forall q fi si, okq q fi si = true ->
        match from_nodes (nodes_for_capture m si) q with
        | Ok v => forall n, vgood sok n v
        | Panic x => allowed x
        | _ => True
        end.
    Lemma caps_safe_none m : caps_safe m no_capture.
    Proof. intros q fi si H. discriminate. Qed.

    Notation eval' := (eval t fl glob call).
    Ltac tt_ret := apply safe_ret; intros; exact I.

    Lemma VG_mono b n n' : (n <= n')%nat -> VG b n -> VG b n'.
    Proof. unfold VG. apply vgood_mono. Qed.

    Lemma safe_eval : forall fuel le e okq n0 sh, caps_safe (le_match le) okq -> expr_ok okq e = true ->
      safe n0 sh sh VG (eval' fuel le e).
    Proof.
      induction fuel as [|fuel IH]; intros le e okq n0 sh Hc He; [apply safe_oof|].
      assert (Hcomp : forall elem var vale (mk : list value -> value),
                 expr_ok okq elem && expr_ok okq vale = true ->
                 (forall out n, Forall (vgood sok n) out -> vgood sok n (mk out)) ->
                 safe n0 sh sh VG
                   (lv <- eval' fuel le vale ;; vals <- lift (as_list lv) ;;
                    push_frame ;;;
                    out <- mapM (fun v => clear_frame ;;; unscoped_add glob var v false ;;; eval' fuel le elem) vals ;;
                    pop_frame ;;; ret (mk out))).
      { intros elem var vale mk Hb Hmk. apply andb_true_iff in Hb as [He1 He2].
        eapply safe_bind; [eapply IH; eauto|]. intros lv n1 Hn1 Hlv.
        eapply safe_bind; [apply safe_lift with (Q := fun vals n => Forall (vgood sok n) vals)|].
        { destruct lv; cbn [as_list]; try exact I. intros n Hn. apply vgood_list in Hlv. eapply vsgood_mono; eauto. }
        intros vals n2 Hn2 Hvals. destruct sh as [d k].
        eapply safe_bind; [apply safe_push_frame|]. intros _ n3 Hn3 _.
        eapply safe_bind; [apply safe_mapM_in with (Q := VG); [exact VG_mono|]|].
        - intros x Hx n4 Hn4. eapply safe_bind; [apply safe_clear_frame|]. intros _ n5 Hn5 _.
          eapply safe_bind; [apply safe_unscoped_add|].
          + rewrite Forall_forall in Hvals. eapply vgood_mono; [|apply Hvals, Hx]. lia.
          + intros _ n6 Hn6 _. eapply IH; eauto.
        - intros out n4 Hn4 Hout. eapply safe_bind; [apply safe_pop_frame|]. intros _ n5 Hn5 _.
          apply safe_ret. intros n6 Hn6. unfold VG. apply Hmk. eapply vsgood_mono; [|exact Hout]. lia. }
      destruct e as [ | | |n|s|es|es|elem var vloc vale l|elem var vloc vale l|name q fi si l|name l|scope name l|f args|i];
        cbn [eval]; cbn [expr_ok] in He.
      - apply safe_ret; intros; exact I.
      - apply safe_ret; intros; exact I.
      - apply safe_ret; intros; exact I.
      - apply safe_ret; intros; exact I.
      - apply safe_ret; intros; exact I.
      - eapply safe_bind; [apply safe_mapM_in with (Q := VG); [exact VG_mono|]|].
        + intros x Hx n1 Hn1. eapply IH; [exact Hc|eapply forallb_In; eauto].
        + intros vs n1 Hn1 Hvs. apply safe_ret. intros n2 Hn2. unfold VG. apply vgood_list. eapply vsgood_mono; [|exact Hvs]. exact Hn2.
      - eapply safe_bind; [apply safe_mapM_in with (Q := VG); [exact VG_mono|]|].
        + intros x Hx n1 Hn1. eapply IH; [exact Hc|eapply forallb_In; eauto].
        + intros vs n1 Hn1 Hvs. apply safe_ret. intros n2 Hn2. unfold VG. apply vgood_set. apply set_of_list_good.
          eapply vsgood_mono; [|exact Hvs]. exact Hn2.
      - apply (Hcomp elem var vale VList He). intros out n H. apply vgood_list. exact H.
      - apply (Hcomp elem var vale (fun out => VSet (set_of_list out)) He). intros out n H. apply vgood_set. apply set_of_list_good. exact H.
      - apply safe_lift. specialize (Hc q fi si He). destruct (from_nodes (nodes_for_capture (le_match le) si) q); auto.
        intros n _. apply Hc.
      - apply safe_unscoped_get.
      - eapply safe_bind; [eapply IH; eauto|]. intros sv n1 Hn1 _.
        eapply safe_bind; [apply safe_scope_of|]. intros n n2 Hn2 _. apply safe_scoped_get_at.
      - destruct sh as [d k].
        eapply safe_bind; [apply safe_iterM_push|].
        + intros x Hx n1 k1 Hn1. eapply safe_bind; [eapply IH; [exact Hc|eapply forallb_In; eauto]|].
          intros v n2 Hn2 Hv. apply safe_push_param. exact Hv.
        + intros _ n1 Hn1 _. eapply safe_bind; [apply safe_drain_params|]. intros ps n2 Hn2 Hps.
          apply safe_call_function. exact Hps.
      - destruct (nth_error (le_caps le) (N.to_nat i)); [apply safe_ret; intros; exact I|apply safe_fail].
    Qed.

    Lemma safe_var_add fuel le v x b okq n0 sh : caps_safe (le_match le) okq -> var_ok okq v = true -> vgood sok n0 x ->
      safe n0 sh sh T (var_add t fl glob call fuel le v x b).
    Proof.
      intros Hc Hv Hx. destruct v as [name l|scope name l]; cbn [var_add]; cbn [var_ok] in Hv.
      - apply safe_unscoped_add. exact Hx.
      - eapply safe_bind; [eapply safe_eval; eauto|]. intros sv n1 Hn1 _.
        eapply safe_bind; [apply safe_scope_of|]. intros n n2 Hn2 _. apply safe_scoped_add_at. eapply vgood_mono; [|exact Hx]. lia.
    Qed.
    Lemma safe_var_set fuel le v x okq n0 sh : caps_safe (le_match le) okq -> var_ok okq v = true -> vgood sok n0 x ->
      safe n0 sh sh T (var_set t fl glob call fuel le v x).
    Proof.
      intros Hc Hv Hx. destruct v as [name l|scope name l]; cbn [var_set]; cbn [var_ok] in Hv.
      - apply safe_unscoped_set. exact Hx.
      - eapply safe_bind; [eapply safe_eval; eauto|]. intros sv n1 Hn1 _.
        eapply safe_bind; [apply safe_scope_of|]. intros n n2 Hn2 _. apply safe_scoped_set_at. eapply vgood_mono; [|exact Hx]. lia.
    Qed.
    Lemma safe_test_cond fuel le c okq n0 sh : caps_safe (le_match le) okq -> cond_ok okq c = true ->
      safe n0 sh sh T (test_cond t fl glob call fuel le c).
    Proof.
      intros Hc Hk. destruct c as [e l|e l|e l]; cbn [test_cond]; cbn [cond_ok] in Hk;
        (eapply safe_bind; [eapply safe_eval; eauto|]); intros v n1 Hn1 _.
      - apply safe_ret; intros; exact I.
      - apply safe_ret; intros; exact I.
      - apply safe_lift. destruct v; cbn [as_bool]; intros; exact I.
    Qed.
    Lemma safe_gnode fuel le e okq n0 sh : caps_safe (le_match le) okq -> expr_ok okq e = true ->
      safe n0 sh sh (fun a n => (N.to_nat a < n)%nat) (x <- eval' fuel le e ;; lift (as_gnode x)).
    Proof.
      intros Hc He. eapply safe_bind; [eapply safe_eval; eauto|]. intros v n1 Hn1 Hv. apply safe_lift.
      destruct v; cbn [as_gnode]; try exact I. intros n2 Hn2. unfold VG in Hv. cbn [vgood] in Hv. lia.
    Qed.

    Lemma safe_exec_attr : forall fuel le tgt a okq n0 sh, caps_safe (le_match le) okq -> attr_ok okq a = true -> tgt_good n0 tgt ->
      safe n0 sh sh T (exec_attr t fl glob call fuel le tgt a).
    Proof.
      induction fuel as [|fuel IH]; intros le tgt a okq n0 sh Hc Ha Ht; [apply safe_oof|].
      destruct a as [name vale]. cbn [exec_attr]. cbn [attr_ok] in Ha.
      eapply safe_bind; [apply safe_poll|]. intros _ n1 Hn1 _.
      eapply safe_bind; [eapply safe_eval; eauto|]. intros v n2 Hn2 Hv.
      destruct (find_shorthand name (f_shorthands fl)) as [shd|] eqn:Ef; [|apply safe_add_attr; eapply tgt_good_mono; [|exact Ht]; lia].
      apply safe_get_state. intros s0 (_ & Hl0 & _) Hn0 Hs0. cbv zeta. unfold shape in Hs0. subst sh.
      eapply safe_bind; [apply safe_set_locals with (l := [[]]); constructor; constructor|]. intros _ n3 Hn3 _.
      eapply safe_bind; [apply safe_unscoped_add; eapply vgood_mono; [|exact Hv]; lia|]. intros _ n4 Hn4 _.
      eapply safe_bind.
      - apply safe_iterM_in. intros a Hin n5 Hn5. apply IH with (okq := no_capture); [apply caps_safe_none| |].
        + eapply forallb_In; [apply Hsh; eapply find_shorthand_in; exact Ef|exact Hin].
        + eapply tgt_good_mono; [|exact Ht]. lia.
      - intros _ n5 Hn5 _. apply safe_set_locals. eapply lgood_mono; [|exact Hl0]. lia.
    Qed.

    (* ---- scan: the selected arm is an arm of the statement ---- *)
    Lemma arm_table_length arms : forall rs, arm_table regexes arms = Some rs -> length rs = length arms.
    Proof.
      induction arms as [|arm arms IH]; intros rs; cbn [arm_table]; [intros H; inversion H; reflexivity|].
      destruct (nth_error regexes (N.to_nat (fst (fst arm)))); [|discriminate]. destruct (arm_table regexes arms) as [rs'|]; [|discriminate].
      intros H. inversion H; subst. cbn [length]. rewrite (IH rs' eq_refl). reflexivity.
    Qed.
    Lemma arm_collect_range suffix : forall rs k best a c, arm_collect find rs k suffix best = ASelArm a c ->
      (forall a0 c0, best = Some (a0, c0) -> (a0 < k)%N) -> (a < k + N.of_nat (length rs))%N.
    Proof.
      induction rs as [|r rs IH]; intros k best a c H Hb; cbn [arm_collect] in H.
      - destruct best as [[a0 c0]|]; [|discriminate]. inversion H; subst. cbn [length]. specialize (Hb a c eq_refl). lia.
      - assert (Hstep : forall best', arm_collect find rs (k + 1) suffix best' = ASelArm a c ->
                   (forall a0 c0, best' = Some (a0, c0) -> (a0 < k + 1)%N) -> (a < k + N.of_nat (length (r :: rs)))%N).
        { intros best' H' Hb'. apply IH in H'; [|exact Hb']. cbn [length]. lia. }
        destruct (find r suffix) as [caps|].
        2:{ apply (Hstep best H). intros a0 c0 E. specialize (Hb _ _ E). lia. }
        destruct (cap0 caps) as [x y]. destruct (N.eqb x y); [discriminate|].
        apply (Hstep _ H). intros a0 c0 E. destruct best as [[k0 c1]|].
        + destruct (N.ltb x (fst (cap0 c1))); inversion E; subst; [lia|specialize (Hb _ _ eq_refl); lia].
        + inversion E; subst. lia.
    Qed.

    Lemma safe_scan_loop (run_arm : list str -> list stmt -> M sstate unit) arms rs subject :
      length rs = length arms ->
      (forall caps r body l, In (r, body, l) arms -> forall n1 sh, safe n1 sh sh T (run_arm caps body)) ->
      forall sfuel i n0 sh, safe n0 sh sh T (scan_loop find run_arm arms rs subject sfuel i).
    Proof.
      intros Hlen Hrun. induction sfuel as [|sfuel IHs]; intros i n0 sh; cbn [scan_loop]; [apply safe_oof|].
      destruct (N.ltb i (N.of_nat (length subject))); [|apply safe_ret; intros; exact I].
      eapply safe_bind; [apply safe_poll|]. intros _ n1 Hn1 _. cbv zeta.
      destruct (arm_select find rs (skipn (N.to_nat i) subject)) as [|k|k caps] eqn:Es; [apply safe_ret; intros; exact I|apply safe_fail|].
      destruct (nth_error arms (N.to_nat k)) as [[[r body] l']|] eqn:En.
      2:{ exfalso. apply nth_error_None in En. unfold arm_select in Es. apply arm_collect_range in Es; [|intros; discriminate]. lia. }
      destruct sh as [d kk].
      eapply safe_bind; [apply safe_push_frame|]. intros _ n2 Hn2 _.
      eapply safe_bind; [eapply Hrun, nth_error_In, En|]. intros _ n3 Hn3 _.
      eapply safe_bind; [apply safe_pop_frame|]. intros _ n4 Hn4 _. apply IHs.
    Qed.
    Lemma safe_if_loop (test : cond -> M sstate bool) (run_body : list stmt -> M sstate unit) : forall arms,
      (forall conds body l c, In (conds, body, l) arms -> In c conds -> forall n1 sh, safe n1 sh sh T (test c)) ->
      (forall conds body l, In (conds, body, l) arms -> forall n1 sh, safe n1 sh sh T (run_body body)) ->
      forall n0 sh, safe n0 sh sh T (if_loop test run_body arms).
    Proof.
      induction arms as [|[[conds body] l'] arms IHa]; intros Ht Hr n0 sh; cbn [if_loop]; [apply safe_ret; intros; exact I|].
      eapply safe_bind; [apply safe_mapM_in with (Q := T); [intros; exact I|]|].
      - intros c Hin n1 Hn1. eapply Ht; [left; reflexivity|exact Hin].
      - intros bs n1 Hn1 _. destruct (forallb (fun b => b) bs).
        + destruct sh as [d k]. eapply safe_bind; [apply safe_push_frame|]. intros _ n2 Hn2 _.
          eapply safe_bind; [eapply Hr; left; reflexivity|]. intros _ n3 Hn3 _. apply safe_pop_frame.
        + apply IHa.
          * intros conds0 body0 l0 c Hin Hc. eapply Ht; [right; exact Hin|exact Hc].
          * intros conds0 body0 l0 Hin. eapply Hr. right. exact Hin.
    Qed.

    Notation exec_stmt' := (exec_stmt t fl cfg glob regexes find call).

    Lemma safe_exec_stmt : forall fuel le s okq n0 sh, caps_safe (le_match le) okq ->
      nodes_for_capture (le_match le) (le_full le) <> [] ->
      stmt_ok okq s = true -> scans_ok regexes s = true -> safe n0 sh sh T (exec_stmt' fuel le s).
    Proof.
      induction fuel as [|fuel IH]; intros le s okq n0 sh Hc Hfull Hs Hsc; [apply safe_oof|].
      assert (Hblock : forall le' (wrap : M sstate unit -> M sstate unit) body n1 sh1,
                 le_match le' = le_match le -> le_full le' = le_full le ->
                 (forall n2 sh2 m, safe n2 sh2 sh2 T m -> safe n2 sh2 sh2 T (wrap m)) ->
                 forallb (stmt_ok okq) body = true -> forallb (scans_ok regexes) body = true ->
                 safe n1 sh1 sh1 T (iterM (fun st => let c := ctx_update (le_ctx le') st in
                                       ctx_wrap (CtxStmts [c]) (wrap (exec_stmt' fuel (le_with_ctx le' c) st))) body)).
      { intros le' wrap body n1 sh1 Hm Hf Hw Hb1 Hb2. apply safe_iterM_in. intros st Hin n2 Hn2. cbv zeta. apply safe_ctx, Hw.
        apply IH with (okq := okq).
        - cbn [le_with_ctx le_match]. rewrite Hm. exact Hc.
        - cbn [le_with_ctx le_match le_full]. rewrite Hm, Hf. exact Hfull.
        - eapply forallb_In; eauto.
        - eapply forallb_In; eauto. }
      destruct s as [v e l|v e l|v e l|v vtext l|node attrs l|src snk l|src snk attrs l|vale arms l|values l|arms l|var vloc vale body l];
        cbn [exec_stmt]; cbn [stmt_ok] in Hs; cbn [scans_ok] in Hsc; (eapply safe_bind; [apply safe_poll|intros _ n1 Hn1 _]).
      - apply andb_true_iff in Hs as [Hs1 Hs2]. eapply safe_bind; [eapply safe_eval; eauto|]. intros x n2 Hn2 Hx. eapply safe_var_add; eauto.
      - apply andb_true_iff in Hs as [Hs1 Hs2]. eapply safe_bind; [eapply safe_eval; eauto|]. intros x n2 Hn2 Hx. eapply safe_var_add; eauto.
      - apply andb_true_iff in Hs as [Hs1 Hs2]. eapply safe_bind; [eapply safe_eval; eauto|]. intros x n2 Hn2 Hx. eapply safe_var_set; eauto.
      - eapply safe_bind; [apply safe_add_node|]. intros n n2 Hn2 Hlt. cbv beta in Hlt.
        eapply safe_bind; [apply safe_opt_attr; constructor; exact Hlt|]. intros _ n3 Hn3 _.
        eapply safe_bind; [apply safe_opt_attr; constructor; lia|]. intros _ n4 Hn4 _.
        eapply safe_bind.
        { destruct (c_match_attr cfg) as [k|].
          - eapply safe_bind; [apply safe_full_match_node; exact Hfull|]. intros mn n5 Hn5 _. apply safe_add_attr. constructor. lia.
          - apply safe_ret; intros; exact I. }
        intros _ n5 Hn5 _. eapply safe_var_add; eauto. cbn [vgood]. lia.
      - apply andb_true_iff in Hs as [Hs1 Hs2]. eapply safe_bind; [eapply safe_eval; eauto|]. intros nv n2 Hn2 Hnv.
        eapply safe_bind; [apply safe_lift with (Q := fun a n => (N.to_nat a < n)%nat)|].
        { destruct nv; cbn [as_gnode]; try exact I. intros n3 Hn3. unfold VG in Hnv. cbn [vgood] in Hnv. lia. }
        intros n n3 Hn3 Hlt. cbv beta in Hlt. apply safe_iterM_in. intros a Hin n4 Hn4. eapply safe_exec_attr; [exact Hc|eapply forallb_In; eauto|].
        constructor. lia.
      - apply andb_true_iff in Hs as [Hs1 Hs2].
        eapply safe_bind; [eapply safe_gnode; eauto|]. intros a n2 Hn2 Ha. cbv beta in Ha.
        eapply safe_bind; [eapply safe_gnode; eauto|]. intros b n3 Hn3 Hb. cbv beta in Hb.
        eapply safe_bind; [apply safe_add_edge; lia|]. intros isnew n4 Hn4 _.
        destruct isnew; [apply safe_opt_attr; constructor; lia|apply safe_ret; intros; exact I].
      - apply andb_true_iff in Hs as [Hs12 Hs3]. apply andb_true_iff in Hs12 as [Hs1 Hs2].
        eapply safe_bind; [eapply safe_gnode; eauto|]. intros a n2 Hn2 Ha. cbv beta in Ha.
        eapply safe_bind; [eapply safe_gnode; eauto|]. intros b n3 Hn3 Hb. cbv beta in Hb.
        apply safe_iterM_in. intros a' Hin n4 Hn4. eapply safe_exec_attr; [exact Hc|eapply forallb_In; eauto|].
        constructor. lia.
      - apply andb_true_iff in Hs as [Hs1 Hs2]. apply andb_true_iff in Hsc as [Hsc1 Hsc2].
        eapply safe_bind; [eapply safe_eval; eauto|]. intros sv n2 Hn2 _.
        eapply safe_bind; [apply safe_lift with (Q := T); destruct sv; cbn [as_str]; intros; exact I|]. intros subject n3 Hn3 _.
        destruct (arm_table regexes arms) as [rs|] eqn:Et; [|discriminate Hsc1].
        apply safe_scan_loop; [eapply arm_table_length; eauto|]. intros caps r body l' Hin n4 sh4.
        apply (Hblock (le_with_caps le caps) (ctx_wrap CtxOther) body); try reflexivity.
        + intros n5 sh5 m Hm. apply safe_ctx, Hm.
        + apply (forallb_In _ _ _ Hs2 Hin).
        + apply (forallb_In _ _ _ Hsc2 Hin).
      - apply safe_iterM_in. intros e Hin n2 Hn2. pose proof (forallb_In _ _ _ Hs Hin) as He.
        destruct e; try (apply safe_ret; intros; exact I);
          (eapply safe_bind; [eapply safe_eval; eauto|intros; apply safe_ret; intros; exact I]).
      - apply safe_if_loop.
        + intros conds body l' c Hin Hc' n2 sh2. pose proof (forallb_In _ _ _ Hs Hin) as Ha. cbn [fst snd] in Ha.
          apply andb_true_iff in Ha as [Ha1 Ha2]. eapply safe_test_cond; [exact Hc|eapply forallb_In; eauto].
        + intros conds body l' Hin n2 sh2. pose proof (forallb_In _ _ _ Hs Hin) as Ha. cbn [fst snd] in Ha.
          apply andb_true_iff in Ha as [Ha1 Ha2]. apply (Hblock le (fun m => m) body); auto.
          apply (forallb_In _ _ _ Hsc Hin).
      - apply andb_true_iff in Hs as [Hs1 Hs2].
        eapply safe_bind; [eapply safe_eval; eauto|]. intros lv n2 Hn2 Hlv.
        eapply safe_bind; [apply safe_lift with (Q := fun vals n => Forall (vgood sok n) vals)|].
        { destruct lv; cbn [as_list]; try exact I. intros n Hn. apply vgood_list in Hlv. eapply vsgood_mono; eauto. }
        intros vals n3 Hn3 Hvals. destruct sh as [d k].
        eapply safe_bind; [apply safe_push_frame|]. intros _ n4 Hn4 _.
        eapply safe_bind; [|intros _ n5 Hn5 _; apply safe_pop_frame].
        apply safe_iterM_in. intros x Hx n5 Hn5. eapply safe_bind; [apply safe_clear_frame|]. intros _ n6 Hn6 _.
        eapply safe_bind; [apply safe_unscoped_add|].
        + rewrite Forall_forall in Hvals. eapply vgood_mono; [|apply Hvals, Hx]. lia.
        + intros _ n7 Hn7 _. apply (Hblock le (fun m => m) body); auto.
    Qed.

    (* ---- matches: what tree-sitter guarantees about a match of the stanza's query ---- *)
    Definition good_match (st : stanza) (m : qmatch) : Prop :=
      nodes_for_capture m (st_full_stanza_idx st) <> [] /\
      forallb (stmt_ok (by_stanza (okc m))) (st_stmts st) = true /\
      Forall (fun c : N * list N => Forall sok (snd c)) m.
    Fixpoint good_matches (sts : list stanza) (ms : list (list qmatch)) {struct sts} : Prop :=
      match sts, ms with
      | st :: sts', m :: ms' => Forall (good_match st) m /\ good_matches sts' ms'
      | _, _ => True
      end.

    Lemma nodes_for_capture_sok m i : Forall (fun c : N * list N => Forall sok (snd c)) m -> Forall sok (nodes_for_capture m i).
    Proof.
      induction m as [|[j ns] m IH]; intros H; cbn [nodes_for_capture]; [constructor|]. inversion H; subst.
      destruct (N.eqb i j); [apply Forall_app; split; auto|auto].
    Qed.
    Lemma cap_ok_from_nodes m : Forall (fun c : N * list N => Forall sok (snd c)) m -> forall q idx, cap_ok m q idx = true ->
      match from_nodes (nodes_for_capture m idx) q with
      | Ok v => forall n, vgood sok n v
      | Panic _ => False
      | _ => True
      end.
    Proof.
      intros H q idx Hq. pose proof (nodes_for_capture_sok m idx H) as Hn. unfold cap_ok in Hq.
      assert (Hl : forall k, vgood sok k (VList (map VSyn (nodes_for_capture m idx)))).
      { intros k. apply vgood_list. apply Forall_forall. intros x Hx. apply in_map_iff in Hx as (n & <- & Hin).
        cbn [vgood]. rewrite Forall_forall in Hn. apply Hn, Hin. }
      destruct q; cbn [from_nodes].
      - discriminate.
      - destruct (nodes_for_capture m idx) as [|n ns]; [discriminate|]. intros k. cbn [vgood]. inversion Hn; assumption.
      - destruct (nodes_for_capture m idx) as [|n ns]; intros k; cbn [vgood]; [exact I|inversion Hn; assumption].
      - exact Hl.
      - exact Hl.
    Qed.
    Lemma cap_resolved_from_nodes m : Forall (fun c : N * list N => Forall sok (snd c)) m -> forall q idx, cap_resolved m q idx = true ->
      match from_nodes (nodes_for_capture m idx) q with
      | Ok v => forall n, vgood sok n v
      | Panic x => x = P_missing_capture
      | _ => True
      end.
    Proof.
      intros H q idx Hq. destruct q; try discriminate.
      - cbn [from_nodes]. destruct (nodes_for_capture m idx) as [|n ns] eqn:En; [reflexivity|].
        assert (Hc : cap_ok m QOne idx = true) by (unfold cap_ok; rewrite En; reflexivity).
        pose proof (cap_ok_from_nodes m H QOne idx Hc) as Hf. cbn [from_nodes] in Hf. rewrite En in Hf. exact Hf.
      - pose proof (cap_ok_from_nodes m H QOpt idx eq_refl) as Hf. destruct (from_nodes (nodes_for_capture m idx) QOpt); auto; contradiction.
      - pose proof (cap_ok_from_nodes m H QStar idx eq_refl) as Hf. destruct (from_nodes (nodes_for_capture m idx) QStar); auto; contradiction.
      - pose proof (cap_ok_from_nodes m H QPlus idx eq_refl) as Hf. destruct (from_nodes (nodes_for_capture m idx) QPlus); auto; contradiction.
    Qed.
    Lemma caps_safe_okc m : Forall (fun c : N * list N => Forall sok (snd c)) m -> caps_safe m (by_stanza (okc m)).
    Proof. intros H q fi si Hq. apply Hokc; assumption. Qed.

    Lemma safe_exec_stanza fuel st m n0 sh : good_match st m -> forallb (scans_ok regexes) (st_stmts st) = true ->
      safe n0 sh sh T (exec_stanza t fl cfg glob regexes find call fuel st m).
    Proof.
      intros (Hfull & Hok & Hm) Hsc. unfold exec_stanza. eapply safe_bind; [apply safe_clear_frame|]. intros _ n1 Hn1 _.
      apply safe_iterM_in. intros s Hin n2 Hn2. cbv zeta.
      destruct (nodes_for_capture m (st_full_stanza_idx st)) as [|n ns] eqn:En; [exfalso; apply Hfull; reflexivity|].
      apply safe_ctx. apply safe_exec_stmt with (okq := by_stanza (okc m)).
      - cbn [le_with_ctx le_match]. apply caps_safe_okc, Hm.
      - cbn [le_with_ctx le_match le_full]. rewrite En. discriminate.
      - eapply forallb_In; eauto.
      - eapply forallb_In; eauto.
    Qed.

    Lemma safe_exec_file fuel : forall sts ms n0 sh, good_matches sts ms ->
      forallb (fun st => forallb (scans_ok regexes) (st_stmts st)) sts = true ->
      safe n0 sh sh T (exec_file t fl cfg glob regexes find call fuel sts ms).
    Proof.
      induction sts as [|st sts IH]; intros [|m ms] n0 sh Hg Hsc; cbn [exec_file]; try (apply safe_ret; intros; exact I).
      cbn [good_matches] in Hg. destruct Hg as [Hm Hg]. cbn [forallb] in Hsc. apply andb_true_iff in Hsc as [Hsc1 Hsc2].
      eapply safe_bind.
      - apply safe_iterM_in. intros x Hx n1 Hn1. apply safe_exec_stanza; [|exact Hsc1]. rewrite Forall_forall in Hm. apply Hm, Hx.
      - intros _ n1 Hn1 _. apply IH; assumption.
    Qed.
  End Interp.
End Safe.

(* ------------------------------------------------------------------ the run *)
(* what the parser and the checker guarantee, as far as the panic sites rely on it: every scan statement of
   every stanza has a regex-table entry for each arm (P_regex_table), and attribute-shorthand bodies contain
   no capture expression (the checker never visits them, so a capture there keeps the parser's placeholder
   quantifier Zero: known class K1) *)
Definition wf_file {rx : Type} (regexes : list rx) (fl : file) : bool :=
  forallb (fun st => forallb (scans_ok regexes) (st_stmts st)) (f_stanzas fl) &&
  forallb (fun sh => forallb (attr_ok no_capture) (sh_attrs sh)) (f_shorthands fl).
Definition WellFormedFile {rx : Type} (regexes : list rx) (fl : file) : Prop := wf_file regexes fl = true.
(* per stanza and match: the full-match capture is bound (else: known class K3); every capture expression of
   the stanza has a resolved quantifier and, when it is One, at least one node in the match; all matched nodes
   satisfy sok *)
Definition GoodMatches (sok : N -> Prop) (fl : file) (matches : list (list qmatch)) : Prop :=
  good_matches sok cap_ok (f_stanzas fl) matches.
(* the same without "a capture whose quantifier is One has a node in the match" *)
Definition GoodMatchesResolved (sok : N -> Prop) (fl : file) (matches : list (list qmatch)) : Prop :=
  good_matches sok cap_resolved (f_stanzas fl) matches.
Definition GoodGlobals (sok : N -> Prop) (g0 : graph) (supplied : globals) : Prop := ggood sok (length g0) supplied.

(* general form: the panic sites that can be reached are those that evaluating a capture expression satisfying
   okc can reach *)
Theorem exec_panics_strict {rx : Type} (sok allowed : N -> Prop) (okc : qmatch -> quant -> N -> bool)
    t fl cfg supplied budget (regexes : list rx) find call fuel matches g0 :
  (forall m, Forall (fun c : N * list N => Forall sok (snd c)) m -> forall q idx, okc m q idx = true ->
     match from_nodes (nodes_for_capture m idx) q with
     | Ok v => forall n, vgood sok n v
     | Panic x => allowed x
     | _ => True
     end) ->
  WellFormedFile regexes fl -> good_matches sok okc (f_stanzas fl) matches -> GoodGlobals sok g0 supplied -> GoodCall sok call ->
  forall x, run_strict t fl cfg supplied budget regexes find call fuel matches g0 = Panic x -> allowed x.
Proof.
  intros Hokc Hwf Hm Hg Hcall x. unfold run_strict. unfold WellFormedFile, wf_file in Hwf. apply andb_true_iff in Hwf as [Hsc Hsh].
  destruct (check_globals (f_globals fl) (globals_nested supplied)) as [glob|e|y|] eqn:Eg; try discriminate.
  2:{ exfalso. exact (check_globals_no_panic _ _ _ Eg). }
  assert (Hglob : ggood sok (length g0) glob).
  { eapply check_globals_good; [|exact Eg]. constructor; [constructor|exact Hg]. }
  assert (HI : Inv sok (length g0) (sinit g0)).
  { unfold Inv, sinit, glen. cbn [s_graph s_locals s_scoped s_params]. split; [lia|]. split; [constructor; constructor|].
    split; constructor. }
  pose proof (safe_exec_file sok (length g0) allowed t fl cfg glob regexes find call Hglob Hcall
                (fun sh Hin => forallb_In _ _ _ Hsh Hin) okc Hokc fuel (f_stanzas fl) matches 0%nat (1%nat, 0%nat) Hm Hsc
                (sinit g0) (polls0 budget) HI (Nat.le_0_l _) eq_refl) as H.
  destruct (exec_file t fl cfg glob regexes find call fuel (f_stanzas fl) matches (sinit g0) (polls0 budget)) as [[[u s] p]|e|y|];
    try discriminate. intros E. inversion E; subst. exact H.
Qed.

Theorem exec_no_panic_strict {rx : Type} (sok : N -> Prop) t fl cfg supplied budget (regexes : list rx) find call fuel matches g0 :
  WellFormedFile regexes fl -> GoodMatches sok fl matches -> GoodGlobals sok g0 supplied -> GoodCall sok call ->
  forall x, run_strict t fl cfg supplied budget regexes find call fuel matches g0 <> Panic x.
Proof.
  intros Hwf Hm Hg Hcall x E.
  exact (exec_panics_strict sok (fun _ => False) cap_ok t fl cfg supplied budget regexes find call fuel matches g0
           (cap_ok_from_nodes sok) Hwf Hm Hg Hcall x E).
Qed.

(* without the assumption that tree-sitter binds every capture whose quantifier is One, the only reachable site is
   Value::from_nodes' `.expect("missing capture")` *)
Theorem exec_only_missing_capture_strict {rx : Type} (sok : N -> Prop) t fl cfg supplied budget (regexes : list rx) find call fuel matches g0 :
  WellFormedFile regexes fl -> GoodMatchesResolved sok fl matches -> GoodGlobals sok g0 supplied -> GoodCall sok call ->
  forall x, run_strict t fl cfg supplied budget regexes find call fuel matches g0 = Panic x -> x = P_missing_capture.
Proof.
  intros Hwf Hm Hg Hcall.
  exact (exec_panics_strict sok (fun x => x = P_missing_capture) cap_resolved t fl cfg supplied budget regexes find call fuel matches g0
           (cap_resolved_from_nodes sok) Hwf Hm Hg Hcall).
Qed.

(* ------------------------------------------------------------------ the real function library *)
Definition syn_ok (t : tree) (n : N) : Prop := syn_valid t (VSyn n) = true.

Definition simple (v : value) : Prop := match v with VBool _ | VInt _ | VStr _ => True | _ => False end.
Definition rsimple (r : res value) : Prop := match r with Ok v => simple v | _ => True end.
Lemma rsimple_bind {A} (m : res A) (k : A -> res value) : (forall a, rsimple (k a)) -> rsimple (obind m k).
Proof. destruct m; cbn [obind]; auto; intros; exact I. Qed.
Lemma simple_good sok n v : simple v -> vgood sok n v.
Proof. destruct v; cbn [simple vgood]; tauto. Qed.

Ltac rs_step :=
  first [ exact I
        | apply rsimple_bind; intros ?; cbv beta
        | match goal with |- rsimple (match ?x with _ => _ end) => destruct x end ].
Lemma rsimple_with_syntax_node t args body : (forall n x, rsimple (body n x)) -> rsimple (with_syntax_node t args body).
Proof. intros H. unfold with_syntax_node. repeat rs_step. apply H. Qed.

Lemma pure_simple rx t fn g args : fn <> FNode -> fn <> FConcat -> rsimple (stdlib_pure rx t fn g args).
Proof.
  intros H1 H2. destruct fn; try congruence; cbn [stdlib_pure];
    try (apply rsimple_with_syntax_node; intros n x; try exact I).
  all: try (repeat rs_step; fail).
  - unfold named_child_index_body. repeat rs_step.
  - unfold source_text_body. repeat rs_step.
Qed.

Lemma concat_loop_good sok n : forall ps acc l, Forall (vgood sok n) ps -> Forall (vgood sok n) acc ->
  concat_loop ps acc = Ok l -> Forall (vgood sok n) l.
Proof.
  induction ps as [|v ps IH]; intros acc l Hps Hacc; cbn [concat_loop]; [intros E; inversion E; subst; exact Hacc|].
  inversion Hps; subst. destruct v; cbn [as_list obind]; try discriminate. apply IH; [assumption|].
  apply Forall_app. split; [exact Hacc|]. apply vgood_list. assumption.
Qed.

Lemma stdlib_good_call rx t : GoodCall (syn_ok t) (stdlib_call rx t).
Proof.
  intros f g args Ha.
  assert (Hv : args_valid t args = true).
  { unfold args_valid. apply forallb_forall. intros v Hin. rewrite Forall_forall in Ha. specialize (Ha v Hin).
    destruct v; try reflexivity. exact Ha. }
  pose proof (no_panic_lemma rx t f g args Hv) as Hnp.
  destruct (stdlib_call rx t f g args) as [[v g']|e|x|] eqn:E; auto.
  unfold stdlib_call in E. destruct (fn_of_name f) as [fn|]; [|discriminate]. unfold stdlib_fn in E.
  destruct (stdlib_pure rx t fn g args) as [v0|e0|x0|] eqn:Ep; cbn [obind] in E; try discriminate. inversion E; subst v0 g'; clear E.
  assert (Hfn : fn = FNode \/ fn = FConcat \/ (fn <> FNode /\ fn <> FConcat)) by (destruct fn; auto; right; right; split; discriminate).
  destruct Hfn as [->|[->|[N1 N2]]].
  - cbn [stdlib_pure] in Ep. destruct (finish args); cbn [obind] in Ep; try discriminate. inversion Ep; subst v.
    cbn [add_graph_node fst snd]. rewrite app_length. cbn [length vgood]. rewrite Nat2N.id. split; lia.
  - cbn [stdlib_pure] in Ep. destruct (concat_loop args []) as [l| | |] eqn:El; cbn [obind] in Ep; try discriminate. inversion Ep; subst v.
    split; [lia|]. apply vgood_list. eapply concat_loop_good; [exact Ha|constructor|exact El].
  - pose proof (pure_simple rx t fn g args N1 N2) as Hs. rewrite Ep in Hs. cbn [rsimple] in Hs.
    split; [destruct fn; try lia; congruence|apply simple_good, Hs].
Qed.

(* the site the weaker theorem leaves open is reached exactly by a capture expression whose quantifier is One
   and that has no node in the match *)
Lemma missing_capture_panics_strict t fl glob call fuel le name fidx sidx l s p :
  nodes_for_capture (le_match le) sidx = [] ->
  eval t fl glob call (S fuel) le (ECapture name QOne fidx sidx l) s p = Panic P_missing_capture.
Proof. intros H. cbn [eval]. rewrite H. reflexivity. Qed.
