(* Proofs/SLForce.v — C02 (strict/lazy whole-run simulation), part 2: the thunk store.
   A store valuation rho gives the value every store location denotes; `den rho lv v` says that the
   lazy value lv denotes v; a store is well formed below k when every thunk below k is forced to its
   value or unforced with a body that only mentions EARLIER locations (no cycles).  The forcing lemma:
   evaluating a lazy value that denotes v on a well-formed store yields exactly v (or runs out of fuel),
   changes only the store (memoisation), and keeps it well formed.  Never an error, never a panic. *)
From TSG Require Import Model.Lazy Proofs.BaseFacts Proofs.Containers Proofs.MonadFacts Proofs.SLGraph.

(* ---- weakest-precondition style reading of a lazy computation's result: it may run out of fuel ---- *)
Definition nob (p : polls) : Prop := p_budget p = None.

Definition lres {S A} (r : outcome exec_error (A * S * polls)) (Phi : A -> S -> polls -> Prop) : Prop :=
  match r with Ok (a, s, p) => Phi a s p | OutOfFuel => True | Err _ | Panic _ => False end.

Section LRes.
  Context {S : Type}.
  Lemma lres_mono {A} (r : outcome exec_error (A * S * polls)) (Phi Psi : A -> S -> polls -> Prop) :
    lres r Phi -> (forall a s p, Phi a s p -> Psi a s p) -> lres r Psi.
  Proof. destruct r as [[[a s] p]|e|x|]; cbn; auto. Qed.
  Lemma lres_bind {A B} (m : M S A) (f : A -> M S B) s p Phi :
    lres (m s p) (fun a s1 p1 => lres (f a s1 p1) Phi) -> lres (bind m f s p) Phi.
  Proof. unfold bind. destruct (m s p) as [[[a s1] p1]|e|x|]; cbn; auto. Qed.
  Lemma lres_ret {A} (a : A) s p (Phi : A -> S -> polls -> Prop) : Phi a s p -> lres (ret a s p) Phi.
  Proof. cbn. auto. Qed.
  Lemma lres_ctx {A} c (m : M S A) s p Phi : lres (m s p) Phi -> lres (ctx_wrap c m s p) Phi.
  Proof. unfold ctx_wrap. destruct (m s p) as [[[a s1] p1]|e|x|]; cbn; auto. Qed.
  Lemma lres_poll l s p (Phi : unit -> S -> polls -> Prop) : nob p -> (forall p', nob p' -> Phi tt s p') -> lres (poll l s p) Phi.
  Proof. intros Hb H. unfold poll, poll_step. rewrite Hb. cbn. apply H. reflexivity. Qed.
  Lemma lres_lift {A} (r : res A) a s p (Phi : A -> S -> polls -> Prop) : r = Ok a -> Phi a s p -> lres (lift r s p) Phi.
  Proof. intros -> H. exact H. Qed.
  Lemma lres_get {A} (f : S -> M S A) s p Phi : lres (f s s p) Phi -> lres (bind get_state f s p) Phi.
  Proof. auto. Qed.
  Lemma lres_modify (f : S -> S) s p (Phi : unit -> S -> polls -> Prop) : Phi tt (f s) p -> lres (modify f s p) Phi.
  Proof. cbn. auto. Qed.
  Lemma lres_eq {A} (r r' : outcome exec_error (A * S * polls)) Phi : r = r' -> lres r' Phi -> lres r Phi.
  Proof. intros ->. auto. Qed.
End LRes.

(* ---- field updates of the lazy state ---- *)
Definition set_store (x : list thunk) (s : lstate) : lstate :=
  {| l_graph := l_graph s; l_locals := l_locals s; l_store := x; l_scoped := l_scoped s; l_edges := l_edges s;
     l_attrs := l_attrs s; l_prints := l_prints s; l_params := l_params s; l_prev := l_prev s |}.
Definition set_params_l (x : list value) (s : lstate) : lstate :=
  {| l_graph := l_graph s; l_locals := l_locals s; l_store := l_store s; l_scoped := l_scoped s; l_edges := l_edges s;
     l_attrs := l_attrs s; l_prints := l_prints s; l_params := x; l_prev := l_prev s |}.
Lemma set_store_same s : set_store (l_store s) s = s. Proof. destruct s; reflexivity. Qed.
Lemma set_params_same s : set_params_l (l_params s) s = s. Proof. destruct s; reflexivity. Qed.

Lemma Forall2_len {A B} (R : A -> B -> Prop) l l' : Forall2 R l l' -> length l = length l'.
Proof. intros H. induction H; cbn [length]; congruence. Qed.

(* ---- prefixes ---- *)
Definition prefix {A} (l l' : list A) : Prop := exists r, l' = l ++ r.
Lemma prefix_refl {A} (l : list A) : prefix l l. Proof. exists []. symmetry. apply app_nil_r. Qed.
Lemma prefix_trans {A} (a b c : list A) : prefix a b -> prefix b c -> prefix a c.
Proof. intros [r ->] [r' ->]. exists (r ++ r'). rewrite app_assoc. reflexivity. Qed.
Lemma prefix_app {A} (l r : list A) : prefix l (l ++ r). Proof. exists r. reflexivity. Qed.
Lemma prefix_nth {A} (l l' : list A) i x : prefix l l' -> nth_error l i = Some x -> nth_error l' i = Some x.
Proof. intros [r ->] H. rewrite nth_error_app1; [exact H|]. apply nth_error_Some. congruence. Qed.
Lemma firstn_prefix {A} (l : list A) i k : (i <= k)%nat -> prefix (firstn i l) (firstn k l).
Proof.
  revert i k. induction l as [|x l IH]; intros i k H.
  - rewrite !firstn_nil. apply prefix_refl.
  - destruct i as [|i]; [exists (firstn k (x :: l)); reflexivity|]. destruct k as [|k]; [lia|].
    cbn [firstn]. destruct (IH i k ltac:(lia)) as [r E]. exists r. rewrite E. reflexivity.
Qed.
Lemma firstn_prefix_all {A} (l : list A) k : prefix (firstn k l) l.
Proof. exists (skipn k l). symmetry. apply firstn_skipn. Qed.
Lemma nth_error_firstn_lt {A} (l : list A) k i x : nth_error (firstn k l) i = Some x -> (i < k)%nat /\ nth_error l i = Some x.
Proof.
  intros H. split.
  - assert (Hl : (i < length (firstn k l))%nat) by (apply nth_error_Some; congruence). rewrite firstn_length in Hl. lia.
  - apply (prefix_nth _ _ _ _ (firstn_prefix_all l k) H).
Qed.

Section Den.
  Variable call : ident -> graph -> list value -> res (value * graph).

  (* what a lazy value denotes under a store valuation; a function call denotes a value when the call
     returns it on EVERY graph and leaves the graph alone *)
  Inductive den (rho : list value) : lvalue -> value -> Prop :=
  | den_value v : den rho (LValue v) v
  | den_list ls vs : Forall2 (den rho) ls vs -> den rho (LList ls) (VList vs)
  | den_set ls vs : Forall2 (den rho) ls vs -> den rho (LSet ls) (VSet (set_of_list vs))
  | den_var loc v : nth_error rho (N.to_nat loc) = Some v -> den rho (LVar loc) v
  | den_call f args vs v : Forall2 (den rho) args vs -> (forall g, call f g vs = Ok (v, g)) -> den rho (LCall f args) v.

  Lemma den_mono rho rho' : prefix rho rho' -> forall lv v, den rho lv v -> den rho' lv v.
  Proof.
    intros Hp. fix IH 3. intros lv v H. destruct H as [v|ls vs HF|ls vs HF|loc v Hn|f args vs v HF Hc].
    - constructor.
    - constructor. revert ls vs HF. fix IHF 3. intros ls vs HF. destruct HF as [|x y l l' Hxy HF]; constructor; [apply IH, Hxy|apply IHF, HF].
    - constructor. revert ls vs HF. fix IHF 3. intros ls vs HF. destruct HF as [|x y l l' Hxy HF]; constructor; [apply IH, Hxy|apply IHF, HF].
    - constructor. apply (prefix_nth _ _ _ _ Hp Hn).
    - apply (den_call _ _ _ vs); [|exact Hc]. clear Hc. revert args vs HF. fix IHF 3. intros args vs HF. destruct HF as [|x y l l' Hxy HF]; constructor; [apply IH, Hxy|apply IHF, HF].
  Qed.
  Lemma den_list_mono rho rho' ls vs : prefix rho rho' -> Forall2 (den rho) ls vs -> Forall2 (den rho') ls vs.
  Proof. intros Hp H. induction H; constructor; [eapply den_mono; eauto|assumption]. Qed.

  (* ---- well-formed stores ---- *)
  Definition thunk_ok (rho : list value) (i : nat) (th : thunk) : Prop :=
    exists v, nth_error rho i = Some v /\
              match th_state th with
              | TForced v' => v' = v
              | TUnforced lv => den (firstn i rho) lv v
              | TForcing => False
              end.
  Definition store_below (k : nat) (rho : list value) (st : list thunk) : Prop :=
    length rho = length st /\ forall i th, (i < k)%nat -> nth_error st i = Some th -> thunk_ok rho i th.
  Definition store_wf (rho : list value) (st : list thunk) : Prop := store_below (length st) rho st.

  Lemma store_wf_nil : store_wf [] [].
  Proof. split; [reflexivity|]. intros i th H. inversion H. Qed.

  (* LazyStore::add of a value that denotes v *)
  Lemma store_wf_add rho st lv v dbg : store_wf rho st -> den rho lv v ->
    store_wf (rho ++ [v]) (st ++ [{| th_state := TUnforced lv; th_dbg := dbg |}]) /\
    den (rho ++ [v]) (LVar (N.of_nat (length st))) v.
  Proof.
    intros [Hlen Hok] Hd. split; [split|].
    - rewrite !app_length, Hlen. reflexivity.
    - intros i th Hi Hn. rewrite app_length in Hi. cbn [length] in Hi.
      destruct (Nat.eq_dec i (length st)) as [->|Hne].
      + rewrite nth_error_app2, Nat.sub_diag in Hn by lia. cbn in Hn. inversion Hn; subst th. exists v.
        split; [rewrite <- Hlen, nth_error_app2, Nat.sub_diag by lia; reflexivity|]. cbn [th_state].
        rewrite <- Hlen, firstn_app, firstn_all, Nat.sub_diag, firstn_O, app_nil_r. exact Hd.
      + assert (Hlt : (i < length st)%nat) by lia. rewrite nth_error_app1 in Hn by exact Hlt.
        destruct (Hok i th Hlt Hn) as (w & Hw & Hs). exists w. split; [rewrite nth_error_app1 by lia; exact Hw|].
        destruct (th_state th); try exact Hs.
        rewrite firstn_app. replace (i - length rho)%nat with 0%nat by lia. rewrite firstn_O, app_nil_r. exact Hs.
    - constructor. rewrite Nnat.Nat2N.id, <- Hlen, nth_error_app2, Nat.sub_diag by lia. reflexivity.
  Qed.

  Section Force.
    Variables (t : tree) (fl : file).
    Notation eval_lv' := (eval_lv t fl call).
    Notation force_thunk' := (force_thunk t fl call).

    (* the result is exactly `a`; only the store changed, below k it is still well formed, from k on untouched *)
    Definition force_post {A} (k : nat) (rho : list value) (a : A) (ls : lstate) : A -> lstate -> polls -> Prop :=
      fun a' ls' p' => a' = a /\ nob p' /\
        exists st', ls' = set_store st' ls /\ store_below k rho st' /\ (forall i, (k <= i)%nat -> nth_error st' i = nth_error (l_store ls) i).

    Definition ev_spec (k : nat) (rho : list value) (ev : lvalue -> M lstate value) : Prop :=
      forall lv v ls p, store_below k rho (l_store ls) -> den (firstn k rho) lv v -> nob p -> lres (ev lv ls p) (force_post k rho v ls).

    Lemma force_mapM k rho ev : ev_spec k rho ev -> forall es vs ls p,
      Forall2 (den (firstn k rho)) es vs -> store_below k rho (l_store ls) -> nob p ->
      lres (mapM ev es ls p) (force_post k rho vs ls).
    Proof.
      intros Hev es vs ls p HF. revert ls p. induction HF as [|e v es vs Hd HF IH]; intros ls p Hst Hb; cbn [mapM].
      - apply lres_ret. split; [reflexivity|]. split; [exact Hb|]. exists (l_store ls). rewrite set_store_same. auto.
      - apply lres_bind. eapply lres_mono; [apply (Hev e v ls p Hst Hd Hb)|]. intros v' ls1 p1 (-> & Hb1 & st1 & -> & Hst1 & Hun1).
        apply lres_bind. eapply lres_mono; [apply (IH (set_store st1 ls) p1 Hst1 Hb1)|]. intros vs' ls2 p2 (-> & Hb2 & st2 & -> & Hst2 & Hun2).
        apply lres_ret. split; [reflexivity|]. split; [exact Hb2|]. exists st2. split; [reflexivity|]. split; [exact Hst2|].
        intros i Hi. rewrite (Hun2 i Hi). cbn [set_store l_store]. apply Hun1, Hi.
    Qed.

    (* the parameter buffer: arguments are pushed, then drained *)
    Lemma force_push_args k rho ev : ev_spec k rho ev -> forall es vs ls p,
      Forall2 (den (firstn k rho)) es vs -> store_below k rho (l_store ls) -> nob p ->
      lres (iterM (fun a => v <- ev a ;; lpush_param v) es ls p)
           (fun _ ls' p' => nob p' /\ exists st', ls' = set_params_l (l_params ls ++ vs) (set_store st' ls) /\ store_below k rho st' /\
                             (forall i, (k <= i)%nat -> nth_error st' i = nth_error (l_store ls) i)).
    Proof.
      intros Hev es vs ls p HF. revert ls p. induction HF as [|e v es vs Hd HF IH]; intros ls p Hst Hb; cbn [iterM].
      - apply lres_ret. split; [exact Hb|]. exists (l_store ls). rewrite set_store_same, app_nil_r, set_params_same. auto.
      - apply lres_bind. apply lres_bind. eapply lres_mono; [apply (Hev e v ls p Hst Hd Hb)|]. intros v' ls1 p1 (-> & Hb1 & st1 & -> & Hst1 & Hun1).
        unfold lpush_param at 1. apply lres_get. unfold set_lparams, Lazy.upd. apply lres_modify.
        eapply lres_mono; [apply (IH (set_params_l (l_params ls ++ [v]) (set_store st1 ls)) p1 Hst1 Hb1)|].
        intros _ ls2 p2 (Hb2 & st2 & -> & Hst2 & Hun2). split; [exact Hb2|]. exists st2. split.
        + cbn [set_params_l set_store l_params l_graph l_locals l_store l_scoped l_edges l_attrs l_prints l_prev]. rewrite <- app_assoc. reflexivity.
        + split; [exact Hst2|]. intros i Hi. rewrite (Hun2 i Hi). cbn [set_params_l set_store l_store]. apply Hun1, Hi.
    Qed.

    Lemma store_below_weaken k k' rho st : store_below k rho st -> (k' <= k)%nat -> store_below k' rho st.
    Proof. intros [Hl H] Hk. split; [exact Hl|]. intros i th Hi. apply H. lia. Qed.

    Lemma force_all : forall fuel,
      (forall k rho, ev_spec k rho (eval_lv' fuel)) /\
      (forall loc v k rho ls p, store_below k rho (l_store ls) -> (N.to_nat loc < k)%nat -> nth_error rho (N.to_nat loc) = Some v -> nob p ->
         lres (force_thunk' fuel loc ls p) (force_post k rho v ls)).
    Proof.
      induction fuel as [|fuel [IHe IHt]]; [split; [intros k rho lv v ls p _ _ _|intros]; exact I|]. split.
      - intros k rho lv v ls p Hst Hd Hb. cbn [eval_lv]. apply lres_bind. apply lres_poll; [exact Hb|]. intros p0 Hb0.
        inversion Hd as [v0|es vs HF|es vs HF|loc v0 Hn|f args vs v0 HF Hc]; subst.
        + apply lres_ret. split; [reflexivity|]. split; [exact Hb0|]. exists (l_store ls). rewrite set_store_same. auto.
        + apply lres_bind. eapply lres_mono; [apply (force_mapM k rho _ (IHe k rho) es vs ls p0 HF Hst Hb0)|].
          intros vs' ls1 p1 (-> & H). apply lres_ret. split; [reflexivity|exact H].
        + apply lres_bind. eapply lres_mono; [apply (force_mapM k rho _ (IHe k rho) es vs ls p0 HF Hst Hb0)|].
          intros vs' ls1 p1 (-> & H). apply lres_ret. split; [reflexivity|exact H].
        + apply nth_error_firstn_lt in Hn. destruct Hn as [Hlt Hn]. apply (IHt loc v k rho ls p0 Hst Hlt Hn Hb0).
        + apply lres_bind. eapply lres_mono; [apply (force_push_args k rho _ (IHe k rho) args vs ls p0 HF Hst Hb0)|].
          intros _ ls1 p1 (Hb1 & st1 & -> & Hst1 & Hun1).
          apply lres_bind. unfold ldrain_params. apply lres_get. cbn [set_params_l set_store l_params].
          rewrite app_length, <- (Forall2_len _ _ _ HF).
          destruct (Nat.ltb_spec (length (l_params ls) + length args) (length args)) as [Hlt|_]; [exfalso; lia|].
          replace (length (l_params ls) + length args - length args)%nat with (length (l_params ls)) by lia.
          rewrite firstn_app, firstn_all, Nat.sub_diag, firstn_O, app_nil_r, skipn_app, skipn_all, Nat.sub_diag, skipn_O. cbn [app].
          apply lres_bind. unfold set_lparams, Lazy.upd. apply lres_modify. apply lres_ret.
          unfold lcall_function. apply lres_get. cbn [l_graph set_params_l set_store]. rewrite (Hc (l_graph ls)).
          apply lres_bind. unfold set_lgraph, Lazy.upd. apply lres_modify. apply lres_ret.
          cbn [l_graph l_locals l_store l_scoped l_edges l_attrs l_prints l_params l_prev set_params_l set_store].
          split; [reflexivity|]. split; [exact Hb1|]. exists st1. split; [|split; [exact Hst1|exact Hun1]].
          destruct ls; reflexivity.
      - intros loc v k rho ls p Hst Hlt Hrho Hb. cbn [force_thunk]. apply lres_get.
        destruct Hst as [Hlen Hok].
        destruct (nth_error (l_store ls) (N.to_nat loc)) as [th|] eqn:Eth.
        2:{ exfalso. apply nth_error_None in Eth. assert (N.to_nat loc < length rho)%nat by (apply nth_error_Some; congruence). lia. }
        apply lres_ctx. destruct (Hok _ _ Hlt Eth) as (v0 & Hv0 & Hs). assert (v0 = v) by congruence. subst v0.
        destruct (th_state th) as [inner| |v'] eqn:Es; [| contradiction |].
        + (* unforced: mark, evaluate the body below loc, memoise *)
          apply lres_bind. unfold store_set_state at 1. apply lres_get. unfold set_lstore, Lazy.upd. apply lres_modify.
          set (st1 := list_update (N.to_nat loc) (fun th0 => {| th_state := TForcing; th_dbg := th_dbg th0 |}) (l_store ls)).
          assert (Hst1 : store_below (N.to_nat loc) rho st1).
          { split; [unfold st1; rewrite list_update_length; exact Hlen|]. intros i th0 Hi Hn. unfold st1 in Hn.
            rewrite nth_error_update_other in Hn by lia. apply (Hok i th0); [lia|exact Hn]. }
          apply lres_bind.
          eapply lres_mono; [apply (IHe (N.to_nat loc) rho inner v (set_store st1 ls) p Hst1 Hs Hb)|].
          intros v' ls2 p2 (-> & Hb2 & st2 & -> & Hst2 & Hun2). cbn [set_store l_store] in Hun2.
          apply lres_bind. unfold store_set_state. apply lres_get. unfold set_lstore, Lazy.upd. apply lres_modify. cbn [set_store l_store].
          apply lres_ret. split; [reflexivity|]. split; [exact Hb2|].
          exists (list_update (N.to_nat loc) (fun th0 => {| th_state := TForced v; th_dbg := th_dbg th0 |}) st2).
          split; [reflexivity|]. destruct Hst2 as [Hlen2 Hok2]. split; [split|].
          * rewrite list_update_length. exact Hlen2.
          * intros i th0 Hi Hn. destruct (Nat.eq_dec i (N.to_nat loc)) as [->|Hne].
            -- rewrite nth_error_list_update, Nat.eqb_refl in Hn. destruct (nth_error st2 (N.to_nat loc)); [|discriminate].
               cbn in Hn. inversion Hn; subst th0. exists v. split; [exact Hrho|reflexivity].
            -- rewrite nth_error_update_other in Hn by exact Hne.
               destruct (Nat.lt_ge_cases i (N.to_nat loc)) as [Hl|Hg]; [apply (Hok2 i th0 Hl Hn)|].
               rewrite (Hun2 i Hg) in Hn. unfold st1 in Hn. rewrite nth_error_update_other in Hn by exact Hne. apply (Hok i th0 Hi Hn).
          * intros i Hi. rewrite nth_error_update_other by lia. rewrite (Hun2 i ltac:(lia)). unfold st1. apply nth_error_update_other. lia.
        + subst v'. apply lres_ret. split; [reflexivity|]. split; [exact Hb|]. exists (l_store ls). rewrite set_store_same.
          split; [reflexivity|]. split; [split; assumption|auto].
    Qed.

    (* with a fully well-formed store *)
    Definition full_post {A} (rho : list value) (a : A) (ls : lstate) : A -> lstate -> polls -> Prop :=
      fun a' ls' p' => a' = a /\ nob p' /\ exists st', ls' = set_store st' ls /\ store_wf rho st'.

    Lemma firstn_len_eq (rho : list value) (st : list thunk) : length rho = length st -> firstn (length st) rho = rho.
    Proof. intros <-. apply firstn_all. Qed.

    Lemma force_full fuel rho lv v ls p : store_wf rho (l_store ls) -> den rho lv v -> nob p ->
      lres (eval_lv' fuel lv ls p) (full_post rho v ls).
    Proof.
      intros Hst Hd Hb. pose proof (proj1 Hst) as Hlen.
      destruct (force_all fuel) as [He _]. rewrite <- (firstn_len_eq rho _ Hlen) in Hd.
      eapply lres_mono; [apply (He _ rho lv v ls p Hst Hd Hb)|]. intros v' ls' p' (-> & Hb' & st' & -> & Hst' & _).
      split; [reflexivity|]. split; [exact Hb'|]. exists st'. split; [reflexivity|]. unfold store_wf.
      destruct Hst' as [Hl' Hok']. replace (length st') with (length (l_store ls)) by congruence. split; assumption.
    Qed.
    Lemma force_full_thunk fuel rho i ls p : store_wf rho (l_store ls) -> (i < length rho)%nat -> nob p ->
      lres (force_thunk' fuel (N.of_nat i) ls p) (fun _ ls' p' => nob p' /\ exists st', ls' = set_store st' ls /\ store_wf rho st').
    Proof.
      intros Hst Hi Hb. pose proof (proj1 Hst) as Hlen. destruct (nth_error rho i) as [v|] eqn:Ev; [|apply nth_error_None in Ev; lia].
      destruct (force_all fuel) as [_ Ht].
      eapply lres_mono; [apply (Ht (N.of_nat i) v _ rho ls p Hst); rewrite ?Nnat.Nat2N.id; [lia|exact Ev|exact Hb]|].
      intros v' ls' p' (-> & Hb' & st' & -> & Hst' & _). split; [exact Hb'|]. exists st'. split; [reflexivity|]. unfold store_wf.
      destruct Hst' as [Hl' Hok']. replace (length st') with (length (l_store ls)) by congruence. split; assumption.
    Qed.
  End Force.
End Den.
