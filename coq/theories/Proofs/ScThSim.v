(* Proofs/ScThSim.v — C08 WITH scoped variables INSIDE THUNKS, part 1: the two-run relation with kinds of store locations, its
   combinators, the primitives, forcing, expressions, statements (fragment and typing: Proofs/ScThTy.v).  The simulation of
   Proofs/BlockPermSim.v cannot be inherited (its store relation demands that every thunk of the block is scoped-free); it is
   redone here for the whole interpreter, indexed by (graph size, list of kinds). *)
From TSG Require Import Model.Lazy Proofs.BaseFacts Proofs.OrderFacts Proofs.Containers Proofs.MonadFacts Proofs.SLGraph Proofs.SLForce Proofs.SLExpr
  Proofs.BlockPermRen Proofs.BlockPermSim Proofs.BlockPermDen Proofs.ScPermSound Proofs.ScPermSim.
From TSG Require Export Proofs.ScThTy.

Section Shift3.
  Variable eaok : amap -> Prop.
  Variable okfn : ident -> Prop.
  Variable tnt : ident -> bool.
  Variables n0 gb1 kb1 gb2 kb2 : N.
  Hypothesis Hbase1 : n0 <= gb1.
  Hypothesis Hbase2 : n0 <= gb2.
  Variables (G1 G2 : graph) (S1 S2 : list thunk) (BE1 BE2 BA1 BA2 BP1 BP2 : list lstmt).
  Variables (SC1 SC2 : list (ident * scoped_values)) (PV1 PV2 : list (elem_key * stmt_ctx)) (PA1 PA2 : list value).
  Hypothesis HG1 : N.of_nat (length G1) = gb1.
  Hypothesis HG2 : N.of_nat (length G2) = gb2.
  Hypothesis HS1 : N.of_nat (length S1) = kb1.
  Hypothesis HS2 : N.of_nat (length S2) = kb2.
  Hypothesis Hunf1 : allunf SC1.
  Hypothesis Hunf2 : allunf SC2.

  Notation sg := (sg gb1 gb2).
  Notation sl := (sl kb1 kb2).
  Notation Dn := (Dn n0 gb1).
  Notation lr := (lvren sg sl).
  Notation vr := (vren sg).
  Notation LL := (LLk kb1).
  Notation LA := (LAk kb1).

  Definition lty (n : N) (ks : list bool) : lvalue -> Prop := lvall okfn (Dn n) (LL ks).
  Definition mty2 (n : N) (ks : list bool) : lvalue -> Prop := mvall2 okfn (Dn n) (LL ks) (LA ks).
  Definition sty (n : N) (ks : list bool) : lstmt -> Prop := ms2all eaok okfn (Dn n) (LL ks) (LA ks).

  Lemma Dn_mono3 n n' i : n <= n' -> Dn n i -> Dn n' i. Proof. unfold BlockPermSim.Dn. lia. Qed.
  Lemma Dn_low3 n i : i < n0 -> Dn n i. Proof. unfold BlockPermSim.Dn. lia. Qed.
  Lemma sg_mono3 n i j : Dn n i -> Dn n j -> i < j -> sg i < sg j.
  Proof. unfold BlockPermSim.Dn, BlockPermSim.sg. intros Hi Hj Hlt. destruct (N.ltb_spec i gb1), (N.ltb_spec j gb1); lia. Qed.
  Lemma sg_cmp3 n : cmp_pres (Dn n) sg. Proof. apply smono_cmp_pres. apply sg_mono3. Qed.
  Lemma sg_low3 i : i < n0 -> sg i = i. Proof. unfold BlockPermSim.sg. intros H. destruct (N.ltb_spec i gb1); [reflexivity|lia]. Qed.
  Lemma vr_low3 v : vall (fun i => i < n0) v -> vr v = v. Proof. apply vren_fix. intros i Hi. apply sg_low3, Hi. Qed.
  Lemma sg_hi3 a : gb1 <= a -> sg a = a - gb1 + gb2 /\ gb2 <= sg a /\ sg a - gb2 = a - gb1.
  Proof. intros H. unfold BlockPermSim.sg. destruct (N.ltb_spec a gb1); lia. Qed.

  Lemma lty_mono n ks n' ks' lv : n <= n' -> prefix ks ks' -> lty n ks lv -> lty n' ks' lv.
  Proof. intros Hn Hk. apply lvall_impl; [intros i; apply Dn_mono3, Hn|intros i; apply LLk_mono, Hk]. Qed.
  Lemma mty2_mono n ks n' ks' lv : n <= n' -> prefix ks ks' -> mty2 n ks lv -> mty2 n' ks' lv.
  Proof. intros Hn Hk. apply mvall2_impl; [intros i; apply Dn_mono3, Hn|intros i; apply LLk_mono, Hk|intros i; apply LAk_mono, Hk]. Qed.
  Lemma sty_mono n ks n' ks' st : n <= n' -> prefix ks ks' -> sty n ks st -> sty n' ks' st.
  Proof. intros Hn Hk. apply ms2all_impl; [intros i; apply Dn_mono3, Hn|intros i; apply LLk_mono, Hk|intros i; apply LAk_mono, Hk]. Qed.
  Lemma lty_mty2 n ks lv : lty n ks lv -> mty2 n ks lv. Proof. apply mvall2_local. Qed.
  Lemma vall_mono3 n n' v : n <= n' -> vall (Dn n) v -> vall (Dn n') v. Proof. intros Hn. apply vall_impl. intros i; apply Dn_mono3, Hn. Qed.
  Lemma valls_mono3 n n' l : n <= n' -> Forall (vall (Dn n)) l -> Forall (vall (Dn n')) l. Proof. intros Hn. apply valls_impl. intros i; apply Dn_mono3, Hn. Qed.

  (* ---------------- the relation ---------------- *)
  Definition plainN (nd : gnode) : Prop := g_edges nd = [] /\ amap_plain (g_attrs nd).
  (* the thunk at index j of the block, by kind *)
  Definition thk (n : N) (ks : list bool) (j : nat) (th : thunk) : Prop :=
    match nth_error ks j with
    | Some true => thall okfn (Dn n) (LL (firstn j ks)) th
    | Some false => match th_state th with TUnforced lv => mvall2 okfn (Dn n) (LL (firstn j ks)) (LA (firstn j ks)) lv | _ => False end
    | None => False
    end.
  Definition RG2 (g1 g2 : graph) : Prop := exists gs, g1 = G1 ++ gs /\ g2 = G2 ++ gs /\ Forall plainN gs.
  Definition RS2 (n : N) (ks : list bool) (st1 st2 : list thunk) : Prop :=
    exists ts, st1 = S1 ++ ts /\ st2 = S2 ++ map (thren sg sl) ts /\ length ts = length ks /\ forall j th, nth_error ts j = Some th -> thk n ks j th.
  Definition ent_ok (n : N) (ks : list bool) (e : ident * (lvalue * bool)) : Prop :=
    if tnt (fst e) then mty2 n ks (fst (snd e)) else lty n ks (fst (snd e)).
  Definition RLoc2 (n : N) (ks : list bool) (a b : varmap lvalue) : Prop := b = llren sg sl a /\ Forall (Forall (ent_ok n ks)) a.
  Definition RD2 (K : lstmt -> Prop) (n : N) (ks : list bool) (X1 X2 l1 l2 : list lstmt) : Prop :=
    exists es, l1 = X1 ++ es /\ l2 = X2 ++ map (lsren sg sl) es /\ Forall K es /\ Forall (sty n ks) es.
  Definition RC2 (ks : list bool) (c1 c2 : list (ident * scoped_values)) : Prop :=
    exists defs, c1 = addl defs SC1 /\ c2 = addl (map (dfren sg sl) defs) SC2 /\ Forall (defall (LA ks)) defs.
  Definition RP2 (n : N) (a b : list value) : Prop := exists ps, a = PA1 ++ ps /\ b = PA2 ++ map vr ps /\ Forall (vall (Dn n)) ps.
  Definition Rk (ks : list bool) (s1 s2 : lstate) : Prop :=
    RG2 (l_graph s1) (l_graph s2) /\ RS2 (gn s1) ks (l_store s1) (l_store s2) /\ RLoc2 (gn s1) ks (l_locals s1) (l_locals s2) /\
    RD2 is_estmt (gn s1) ks BE1 BE2 (l_edges s1) (l_edges s2) /\ RD2 is_astmt (gn s1) ks BA1 BA2 (l_attrs s1) (l_attrs s2) /\
    RD2 is_pstmt (gn s1) ks BP1 BP2 (l_prints s1) (l_prints s2) /\ RP2 (gn s1) (l_params s1) (l_params s2) /\
    RC2 ks (l_scoped s1) (l_scoped s2) /\ l_prev s1 = PV1 /\ l_prev s2 = PV2.

  Lemma thk_mono n n' ks ks' j th : n <= n' -> prefix ks ks' -> thk n ks j th -> thk n' ks' j th.
  Proof.
    intros Hn Hk. unfold thk. destruct (nth_error ks j) as [b|] eqn:Ej; [|contradiction].
    assert (Hj : (j < length ks)%nat) by (apply nth_error_Some; congruence). destruct Hk as [r ->]. rewrite nth_error_app1, Ej by exact Hj.
    rewrite (firstn_prefix_lt ks (ks ++ r) j (prefix_app _ _)) by lia. destruct b.
    - apply thall_impl; [intros i; apply Dn_mono3, Hn|auto].
    - destruct (th_state th); auto. apply mvall2_impl; [intros i; apply Dn_mono3, Hn|auto|auto].
  Qed.
  Lemma RS2_mono n n' ks a b : n <= n' -> RS2 n ks a b -> RS2 n' ks a b.
  Proof. intros Hn (ts & H1 & H2 & H3 & H4). exists ts. repeat (split; [assumption|]). intros j th E. eapply thk_mono; [exact Hn|apply prefix_refl|apply (H4 j th E)]. Qed.
  Lemma ent_ok_mono n ks n' ks' e : n <= n' -> prefix ks ks' -> ent_ok n ks e -> ent_ok n' ks' e.
  Proof. intros Hn Hk. unfold ent_ok. destruct (tnt (fst e)); [apply mty2_mono|apply lty_mono]; assumption. Qed.
  Lemma RLoc2_mono n ks n' ks' a b : n <= n' -> prefix ks ks' -> RLoc2 n ks a b -> RLoc2 n' ks' a b.
  Proof.
    intros Hn Hk [H1 H2]. split; [exact H1|]. eapply Forall_impl; [|exact H2]. intros f Hf. eapply Forall_impl; [|exact Hf]. intros e. apply ent_ok_mono; assumption.
  Qed.
  Lemma RD2_mono K n ks n' ks' X1 X2 a b : n <= n' -> prefix ks ks' -> RD2 K n ks X1 X2 a b -> RD2 K n' ks' X1 X2 a b.
  Proof.
    intros Hn Hk (es & H1 & H2 & H0 & H3). exists es. split; [exact H1|]. split; [exact H2|]. split; [exact H0|]. eapply Forall_impl; [|exact H3]. intros st. apply sty_mono; assumption.
  Qed.
  Lemma RC2_mono ks ks' a b : prefix ks ks' -> RC2 ks a b -> RC2 ks' a b.
  Proof. intros Hk (defs & H1 & H2 & H3). exists defs. split; [exact H1|]. split; [exact H2|]. eapply Forall_impl; [|exact H3]. intros d. apply defall_impl. intros i. apply LAk_mono, Hk. Qed.
  Lemma RP2_mono n n' a b : n <= n' -> RP2 n a b -> RP2 n' a b.
  Proof. intros Hn (ps & H1 & H2 & H3). exists ps. split; [exact H1|]. split; [exact H2|]. eapply valls_mono3; eauto. Qed.
  Lemma RS2_sn n ks s1 s2 : RS2 n ks (l_store s1) (l_store s2) -> sn s1 = kb1 + N.of_nat (length ks) /\ sn s2 = kb2 + N.of_nat (length ks).
  Proof. intros (ts & E1 & E2 & Hl & _). unfold sn. rewrite E1, E2, !app_length, map_length, Hl. lia. Qed.

  (* ---------------- the two-run judgement ---------------- *)
  Definition bsim3 {A B} (n : N) (ks0 : list bool) (P : A -> B -> N -> list bool -> Prop) (c1 : M lstate A) (c2 : M lstate B) : Prop :=
    forall s1 s2 p ks, Rk ks s1 s2 -> n <= gn s1 -> prefix ks0 ks ->
      match c1 s1 p with
      | Ok (a, s1', p') => exists b s2' ks', c2 s2 p = Ok (b, s2', p') /\ Rk ks' s1' s2' /\ l_params s1' = l_params s1 /\
                             gn s1 <= gn s1' /\ prefix ks ks' /\ P a b (gn s1') ks'
      | Err e => c2 s2 p = Err e
      | Panic x => c2 s2 p = Panic x
      | OutOfFuel => c2 s2 p = OutOfFuel
      end.

  Definition PU3 {A B} : A -> B -> N -> list bool -> Prop := fun _ _ _ _ => True.
  Definition PE3 {A} : A -> A -> N -> list bool -> Prop := fun a b _ _ => a = b.
  Definition PV3 : value -> value -> N -> list bool -> Prop := fun v w n _ => w = vr v /\ vall (Dn n) v.
  Definition PLV3 : lvalue -> lvalue -> N -> list bool -> Prop := fun a b n ks => b = lr a /\ lty n ks a.
  Definition PMV3 : lvalue -> lvalue -> N -> list bool -> Prop := fun a b n ks => b = lr a /\ mty2 n ks a.
  Definition PL3 {A B} (P : A -> B -> N -> list bool -> Prop) : list A -> list B -> N -> list bool -> Prop :=
    fun l l' n ks => Forall2 (fun a b => P a b n ks) l l'.
  Definition pmono3 {A B} (P : A -> B -> N -> list bool -> Prop) : Prop :=
    forall a b n ks n' ks', n <= n' -> prefix ks ks' -> P a b n ks -> P a b n' ks'.
  Lemma PU3_mono A B : pmono3 (@PU3 A B). Proof. intros a b n m n' m' _ _ _. exact I. Qed.
  Lemma PE3_mono A : pmono3 (@PE3 A). Proof. intros a b n m n' m' _ _ H. exact H. Qed.
  Lemma PV3_mono : pmono3 PV3. Proof. intros a b n m n' m' Hn _ [H1 H2]. split; [exact H1|eapply vall_mono3; eauto]. Qed.
  Lemma PLV3_mono : pmono3 PLV3. Proof. intros a b n m n' m' Hn Hm [H1 H2]. split; [exact H1|eapply lty_mono; eauto]. Qed.
  Lemma PMV3_mono : pmono3 PMV3. Proof. intros a b n m n' m' Hn Hm [H1 H2]. split; [exact H1|eapply mty2_mono; eauto]. Qed.
  Lemma PL3_mono A B (P : A -> B -> N -> list bool -> Prop) : pmono3 P -> pmono3 (PL3 P).
  Proof. intros HP a b n m n' m' Hn Hm H. unfold PL3 in *. induction H; constructor; [eapply HP; eauto|assumption]. Qed.

  Lemma bsim3_ret A B n ks (P : A -> B -> N -> list bool -> Prop) a b : (forall n1 ks1, n <= n1 -> prefix ks ks1 -> P a b n1 ks1) -> bsim3 n ks P (ret a) (ret b).
  Proof. intros H s1 s2 p k HR Hn Hk. cbn. exists b, s2, k. split; [reflexivity|]. split; [exact HR|]. split; [reflexivity|]. split; [lia|]. split; [apply prefix_refl|]. apply H; assumption. Qed.
  Lemma bsim3_bind A B C D n ks (P : A -> B -> N -> list bool -> Prop) (Q : C -> D -> N -> list bool -> Prop) c1 c2 (f1 : A -> M lstate C) (f2 : B -> M lstate D) :
    bsim3 n ks P c1 c2 ->
    (forall a b n1 ks1, n <= n1 -> prefix ks ks1 -> P a b n1 ks1 -> bsim3 n1 ks1 Q (f1 a) (f2 b)) ->
    bsim3 n ks Q (bind c1 f1) (bind c2 f2).
  Proof.
    intros Hc Hf s1 s2 p k HR Hn Hk. specialize (Hc s1 s2 p k HR Hn Hk). unfold bind.
    destruct (c1 s1 p) as [[[a s1'] p']|e|x|]; [|rewrite Hc; reflexivity..].
    destruct Hc as (b & s2' & k' & E & HR' & Hpa & Hg & Hk' & HP). rewrite E.
    specialize (Hf a b (gn s1') k' ltac:(lia) (prefix_trans _ _ _ Hk Hk') HP s1' s2' p' k' HR' (N.le_refl _) (prefix_refl _)).
    destruct (f1 a s1' p') as [[[c s1''] p'']|e|x|]; try exact Hf.
    destruct Hf as (d & s2'' & k'' & E2 & HR'' & Hpa2 & Hg2 & Hk2 & HQ). exists d, s2'', k''. split; [exact E2|]. split; [exact HR''|]. split; [congruence|]. split; [lia|].
    split; [eapply prefix_trans; eauto|exact HQ].
  Qed.
  Lemma bsim3_conseq A B n ks (P Q : A -> B -> N -> list bool -> Prop) c1 c2 :
    (forall a b n1 ks1, n <= n1 -> prefix ks ks1 -> P a b n1 ks1 -> Q a b n1 ks1) -> bsim3 n ks P c1 c2 -> bsim3 n ks Q c1 c2.
  Proof.
    intros HPQ H s1 s2 p k HR Hn Hk. specialize (H s1 s2 p k HR Hn Hk). destruct (c1 s1 p) as [[[a s1'] p']|e|x|]; try exact H.
    destruct H as (b & s2' & k' & E & HR' & Hpa & Hg & Hk' & HP). exists b, s2', k'. split; [exact E|]. split; [exact HR'|]. split; [exact Hpa|]. split; [exact Hg|]. split; [exact Hk'|].
    apply HPQ; [lia|eapply prefix_trans; eauto|exact HP].
  Qed.
  Lemma bsim3_seq A B C D n ks (P : A -> B -> N -> list bool -> Prop) (Q : C -> D -> N -> list bool -> Prop) c1 c2 (k1 : M lstate C) (k2 : M lstate D) :
    bsim3 n ks P c1 c2 -> (forall n1 ks1, n <= n1 -> prefix ks ks1 -> bsim3 n1 ks1 Q k1 k2) -> bsim3 n ks Q (c1 ;;; k1) (c2 ;;; k2).
  Proof. intros H1 H2. eapply bsim3_bind; [exact H1|]. intros a b n1 ks1 Hn Hk _. apply H2; assumption. Qed.
  Lemma bsim3_fail A B n ks (P : A -> B -> N -> list bool -> Prop) e : bsim3 n ks P (fail e) (fail e). Proof. intros s1 s2 p k _ _ _. reflexivity. Qed.
  Lemma bsim3_panic A B n ks (P : A -> B -> N -> list bool -> Prop) x : bsim3 n ks P (panic x) (panic x). Proof. intros s1 s2 p k _ _ _. reflexivity. Qed.
  Lemma bsim3_oof A B n ks (P : A -> B -> N -> list bool -> Prop) : bsim3 n ks P out_of_fuel out_of_fuel. Proof. intros s1 s2 p k _ _ _. reflexivity. Qed.
  Lemma bsim3_lift2 A B n ks (P : A -> B -> N -> list bool -> Prop) (r1 : res A) (r2 : res B) :
    match r1 with
    | Ok a => exists b, r2 = Ok b /\ forall n1 ks1, n <= n1 -> prefix ks ks1 -> P a b n1 ks1
    | Err e => r2 = Err e | Panic x => r2 = Panic x | OutOfFuel => r2 = OutOfFuel
    end -> bsim3 n ks P (lift r1) (lift r2).
  Proof.
    intros H s1 s2 p k HR Hn Hk. unfold lift. destruct r1 as [a|e|x|]; [|rewrite H; reflexivity..].
    destruct H as (b & -> & H). exists b, s2, k. split; [reflexivity|]. split; [exact HR|]. split; [reflexivity|]. split; [lia|]. split; [apply prefix_refl|]. apply H; assumption.
  Qed.
  Lemma bsim3_lift A n ks (r : res A) : bsim3 n ks (@PE3 A) (lift r) (lift r).
  Proof. apply bsim3_lift2. destruct r; try reflexivity. eexists. split; [reflexivity|]. intros; reflexivity. Qed.
  Lemma bsim3_poll n ks l : bsim3 n ks (@PU3 unit unit) (lpoll l) (lpoll l).
  Proof.
    intros s1 s2 p k HR Hn Hk. unfold lpoll, poll. destruct (poll_step l p) as [q c]. destruct c; [reflexivity|].
    exists tt, s2, k. split; [reflexivity|]. split; [exact HR|]. split; [reflexivity|]. split; [lia|]. split; [apply prefix_refl|exact I].
  Qed.
  Lemma bsim3_ctx A B n ks (P : A -> B -> N -> list bool -> Prop) c c1 c2 : bsim3 n ks P c1 c2 -> bsim3 n ks P (ctx_wrap c c1) (ctx_wrap c c2).
  Proof.
    intros H s1 s2 p k HR Hn Hk. specialize (H s1 s2 p k HR Hn Hk). unfold ctx_wrap.
    destruct (c1 s1 p) as [[[a s1'] p']|e|x|]; [|rewrite H; reflexivity..].
    destruct H as (b & s2' & k' & E & H). rewrite E. exists b, s2', k'. split; [reflexivity|exact H].
  Qed.
  Lemma bsim3_get A B n ks (P : A -> B -> N -> list bool -> Prop) (f1 : lstate -> M lstate A) (f2 : lstate -> M lstate B) :
    (forall s1 s2 k, Rk k s1 s2 -> n <= gn s1 -> prefix ks k -> bsim3 (gn s1) k P (f1 s1) (f2 s2)) ->
    bsim3 n ks P (s <- get_state ;; f1 s) (s <- get_state ;; f2 s).
  Proof. intros H s1 s2 p k HR Hn Hk. unfold bind, get_state. apply (H s1 s2 k HR Hn Hk s1 s2 p k HR (N.le_refl _) (prefix_refl _)). Qed.
  Lemma bsim3_mapM A A' B B' n ks (P : B -> B' -> N -> list bool -> Prop) (f1 : A -> M lstate B) (f2 : A' -> M lstate B') (Rel : A -> A' -> N -> list bool -> Prop) l l' :
    pmono3 P -> pmono3 Rel ->
    (forall x y n1 ks1, n <= n1 -> prefix ks ks1 -> In x l -> Rel x y n1 ks1 -> bsim3 n1 ks1 P (f1 x) (f2 y)) ->
    Forall2 (fun x y => Rel x y n ks) l l' ->
    bsim3 n ks (PL3 P) (mapM f1 l) (mapM f2 l').
  Proof.
    intros HP HRel. revert n ks l'. induction l as [|x l IH]; intros n ks l' Hf HF; inversion HF as [|? y ? l2 Hxy HF']; subst; cbn [mapM].
    - apply bsim3_ret. intros; constructor.
    - eapply bsim3_bind; [apply Hf; [apply N.le_refl|apply prefix_refl|left; reflexivity|exact Hxy]|]. intros b b' n1 ks1 Hn1 Hk1 Hb.
      eapply bsim3_bind.
      + apply IH.
        * intros x0 y0 n2 ks2 Hn2 Hk2 Hin. apply Hf; [lia|eapply prefix_trans; eauto|right; exact Hin].
        * eapply Forall2_impl; [|exact HF']. intros x0 y0. apply HRel; assumption.
      + intros bs bs' n2 ks2 Hn2 Hk2 Hbs. apply bsim3_ret. intros n3 ks3 Hn3 Hk3. constructor; [eapply HP; [| |exact Hb]; [lia|eapply prefix_trans; eauto]|].
        eapply (PL3_mono _ _ P HP); [| |exact Hbs]; assumption.
  Qed.
  Lemma bsim3_iterM A A' n ks (f1 : A -> M lstate unit) (f2 : A' -> M lstate unit) (Rel : A -> A' -> N -> list bool -> Prop) l l' :
    pmono3 Rel ->
    (forall x y n1 ks1, n <= n1 -> prefix ks ks1 -> In x l -> Rel x y n1 ks1 -> bsim3 n1 ks1 (@PU3 unit unit) (f1 x) (f2 y)) ->
    Forall2 (fun x y => Rel x y n ks) l l' ->
    bsim3 n ks (@PU3 unit unit) (iterM f1 l) (iterM f2 l').
  Proof.
    intros HRel. revert n ks l'. induction l as [|x l IH]; intros n ks l' Hf HF; inversion HF as [|? y ? l2 Hxy HF']; subst; cbn [iterM].
    - apply bsim3_ret. intros; exact I.
    - eapply bsim3_bind; [apply Hf; [apply N.le_refl|apply prefix_refl|left; reflexivity|exact Hxy]|]. intros b b' n1 ks1 Hn1 Hk1 _.
      apply IH.
      + intros x0 y0 n2 ks2 Hn2 Hk2 Hin. apply Hf; [lia|eapply prefix_trans; eauto|right; exact Hin].
      + eapply Forall2_impl; [|exact HF']. intros x0 y0. apply HRel; assumption.
  Qed.
  Lemma bsim3_mapM_same A B B' n ks (P : B -> B' -> N -> list bool -> Prop) (f1 : A -> M lstate B) (f2 : A -> M lstate B') l :
    pmono3 P -> (forall x n1 ks1, n <= n1 -> prefix ks ks1 -> In x l -> bsim3 n1 ks1 P (f1 x) (f2 x)) -> bsim3 n ks (PL3 P) (mapM f1 l) (mapM f2 l).
  Proof.
    intros HP Hf. apply (bsim3_mapM _ _ _ _ n ks P f1 f2 (fun x y _ _ => x = y)); [exact HP|intros a b n1 m1 n2 m2 _ _ H; exact H| |apply Forall2_same; reflexivity].
    intros x y n1 ks1 Hn1 Hk1 Hin <-. apply Hf; assumption.
  Qed.
  Lemma bsim3_iterM_same A n ks (f1 f2 : A -> M lstate unit) l :
    (forall x n1 ks1, n <= n1 -> prefix ks ks1 -> In x l -> bsim3 n1 ks1 (@PU3 unit unit) (f1 x) (f2 x)) -> bsim3 n ks (@PU3 unit unit) (iterM f1 l) (iterM f2 l).
  Proof.
    intros Hf. apply (bsim3_iterM _ _ n ks f1 f2 (fun x y _ _ => x = y)); [intros a b n1 m1 n2 m2 _ _ H; exact H| |apply Forall2_same; reflexivity].
    intros x y n1 ks1 Hn1 Hk1 Hin <-. apply Hf; assumption.
  Qed.
  Lemma bsim3_strengthen A B n ks (P : A -> B -> N -> list bool -> Prop) (Q : A -> Prop) c1 c2 :
    bsim3 n ks P c1 c2 -> (forall s p a s' p', c1 s p = Ok (a, s', p') -> Q a) -> bsim3 n ks (fun a b n1 k1 => P a b n1 k1 /\ Q a) c1 c2.
  Proof.
    intros H HQ s1 s2 p k HR Hn Hk. specialize (H s1 s2 p k HR Hn Hk). destruct (c1 s1 p) as [[[a s1'] p']|e|x|] eqn:E1; try exact H.
    destruct H as (b & s2' & k' & E & HR' & Hpa & Hg & Hk' & HP). exists b, s2', k'. split; [exact E|]. split; [exact HR'|]. split; [exact Hpa|]. split; [exact Hg|]. split; [exact Hk'|]. split; [exact HP|eapply HQ; eauto].
  Qed.

  (* ---------------- primitives ---------------- *)
  Lemma nth_suffix3 {A} (X : list A) xs gb a : N.of_nat (length X) = gb -> gb <= a -> nth_error (X ++ xs) (N.to_nat a) = nth_error xs (N.to_nat (a - gb)).
  Proof. intros HX Ha. rewrite nth_error_app2 by lia. f_equal. lia. Qed.
  Lemma update_suffix3 {A} (X : list A) xs gb a f : N.of_nat (length X) = gb -> gb <= a -> list_update (N.to_nat a) f (X ++ xs) = X ++ list_update (N.to_nat (a - gb)) f xs.
  Proof. intros HX Ha. replace (N.to_nat a) with (length X + N.to_nat (a - gb))%nat by lia. apply list_update_app2. Qed.

  Lemma Rk_intro ks s1 s2 :
    RG2 (l_graph s1) (l_graph s2) -> RS2 (gn s1) ks (l_store s1) (l_store s2) -> RLoc2 (gn s1) ks (l_locals s1) (l_locals s2) ->
    RD2 is_estmt (gn s1) ks BE1 BE2 (l_edges s1) (l_edges s2) -> RD2 is_astmt (gn s1) ks BA1 BA2 (l_attrs s1) (l_attrs s2) ->
    RD2 is_pstmt (gn s1) ks BP1 BP2 (l_prints s1) (l_prints s2) -> RP2 (gn s1) (l_params s1) (l_params s2) ->
    RC2 ks (l_scoped s1) (l_scoped s2) -> l_prev s1 = PV1 -> l_prev s2 = PV2 -> Rk ks s1 s2.
  Proof. intros H1 H2 H3 H4 H5 H6 H7 H8 H9 H10. exact (conj H1 (conj H2 (conj H3 (conj H4 (conj H5 (conj H6 (conj H7 (conj H8 (conj H9 H10))))))))). Qed.
  (* the relation at a larger graph size and a longer list of kinds, for the components that are not touched *)
  Lemma Rk_grow ks ks' s1 s2 s1' s2' : Rk ks s1 s2 -> gn s1 <= gn s1' -> prefix ks ks' ->
    RG2 (l_graph s1') (l_graph s2') -> RS2 (gn s1') ks' (l_store s1') (l_store s2') ->
    l_locals s1' = l_locals s1 -> l_locals s2' = l_locals s2 -> l_edges s1' = l_edges s1 -> l_edges s2' = l_edges s2 ->
    l_attrs s1' = l_attrs s1 -> l_attrs s2' = l_attrs s2 -> l_prints s1' = l_prints s1 -> l_prints s2' = l_prints s2 ->
    l_params s1' = l_params s1 -> l_params s2' = l_params s2 -> l_scoped s1' = l_scoped s1 -> l_scoped s2' = l_scoped s2 ->
    l_prev s1' = l_prev s1 -> l_prev s2' = l_prev s2 -> Rk ks' s1' s2'.
  Proof.
    intros (HG & HS & HL & HE & HA & HP & HPa & HC & Hpv1 & Hpv2) Hn Hk HG' HS' L1 L2 E1 E2 A1 A2 P1 P2 Pa1 Pa2 C1 C2 V1 V2.
    apply Rk_intro; rewrite ?L1, ?L2, ?E1, ?E2, ?A1, ?A2, ?P1, ?P2, ?Pa1, ?Pa2, ?C1, ?C2, ?V1, ?V2; try assumption.
    - eapply RLoc2_mono; eauto.
    - eapply RD2_mono; eauto.
    - eapply RD2_mono; eauto.
    - eapply RD2_mono; eauto.
    - eapply RP2_mono; eauto.
    - eapply RC2_mono; eauto.
  Qed.

  Ltac fld := cbn [l_graph l_locals l_store l_scoped l_edges l_attrs l_prints l_params l_prev wgraph wlocals wstore wparams wscoped] in *.
  Ltac post_same := split; [reflexivity|split; [apply N.le_refl|split; [apply prefix_refl|]]].

  Lemma bsim3_set_llocals n ks a b : RLoc2 n ks a b -> bsim3 n ks (@PU3 unit unit) (set_llocals a) (set_llocals b).
  Proof.
    intros Hab s1 s2 p k HR Hn Hk. rewrite !set_llocals_eq. exists tt, (wlocals b s2), k. split; [reflexivity|]. split; [|post_same; exact I].
    destruct HR as (HG & HS & HL & HE & HA & HP & HPa & HC & Hpv1 & Hpv2). apply Rk_intro; unfold gn in *; fld; try assumption. eapply RLoc2_mono; eauto.
  Qed.
  Lemma bsim3_lpush_frame n ks : bsim3 n ks (@PU3 unit unit) lpush_frame lpush_frame.
  Proof.
    unfold lpush_frame. apply bsim3_get. intros s1 s2 k HR _ _. apply bsim3_set_llocals. destruct HR as (_ & _ & [HL1 HL2] & _).
    split; [rewrite HL1; reflexivity|]. constructor; [constructor|exact HL2].
  Qed.
  Lemma bsim3_lpop_frame n ks : bsim3 n ks (@PU3 unit unit) lpop_frame lpop_frame.
  Proof.
    unfold lpop_frame. apply bsim3_get. intros s1 s2 k HR _ _. destruct HR as (_ & _ & [HL1 HL2] & _). rewrite HL1.
    destruct (l_locals s1) as [|f up]; cbn [llren map]; [apply bsim3_panic|]. apply bsim3_set_llocals. split; [reflexivity|]. inversion HL2; assumption.
  Qed.
  Lemma bsim3_lclear_frame n ks : bsim3 n ks (@PU3 unit unit) lclear_frame lclear_frame.
  Proof.
    unfold lclear_frame. apply bsim3_get. intros s1 s2 k HR _ _. destruct HR as (_ & _ & [HL1 HL2] & _). rewrite HL1. apply bsim3_set_llocals.
    split; [apply varmap_clear_llren|]. destruct (l_locals s1) as [|f up]; cbn [varmap_clear]; [constructor|]. inversion HL2; subst. constructor; [constructor|assumption].
  Qed.

  Lemma RD2_app K n ks X1 X2 l1 l2 es : RD2 K n ks X1 X2 l1 l2 -> Forall K es -> Forall (sty n ks) es -> RD2 K n ks X1 X2 (l1 ++ es) (l2 ++ map (lsren sg sl) es).
  Proof.
    intros (es0 & -> & -> & H0 & H) HK Hes. exists (es0 ++ es). rewrite map_app, !app_assoc. split; [reflexivity|]. split; [reflexivity|]. split; apply Forall_app; split; assumption.
  Qed.
  Lemma bsim3_push_lstmt n ks st : sty n ks st -> bsim3 n ks (@PU3 unit unit) (push_lstmt st) (push_lstmt (lsren sg sl st)).
  Proof.
    intros Hst s1 s2 p k (HG & HS & HL & HE & HA & HP & HPa & HC & Hpv1 & Hpv2) Hn Hk. unfold push_lstmt, upd, modify.
    assert (Hst' : sty (gn s1) k st) by (eapply sty_mono; eauto).
    destruct st as [nd attrs dbg|a b ea dbg|a b attrs dbg|args dbg]; cbn [lsren];
      (exists tt; eexists; exists k; split; [reflexivity|]; split; [|post_same; exact I]); apply Rk_intro; unfold gn in *; fld; try assumption.
    - apply (RD2_app is_astmt _ _ _ _ _ _ [LSAttrNode nd attrs dbg] HA); [repeat constructor|constructor; [exact Hst'|constructor]].
    - apply (RD2_app is_estmt _ _ _ _ _ _ [LSEdge a b ea dbg] HE); [repeat constructor|constructor; [exact Hst'|constructor]].
    - apply (RD2_app is_astmt _ _ _ _ _ _ [LSAttrEdge a b attrs dbg] HA); [repeat constructor|constructor; [exact Hst'|constructor]].
    - apply (RD2_app is_pstmt _ _ _ _ _ _ [LSPrint args dbg] HP); [repeat constructor|constructor; [exact Hst'|constructor]].
  Qed.

  (* the graph: only fresh nodes, decorated with id-free debug attributes *)
  Definition PN3 : N -> N -> N -> list bool -> Prop := fun a b n _ => b = sg a /\ gb1 <= a /\ a < n.
  Lemma PN3_mono : pmono3 PN3. Proof. intros a b n m n' m' Hn _ (H1 & H2 & H3). split; [exact H1|]. lia. Qed.
  Lemma bsim3_ladd_node n ks : bsim3 n ks PN3 ladd_node ladd_node.
  Proof.
    intros s1 s2 p k HR Hn Hk. rewrite !ladd_node_eq. exists (N.of_nat (length (l_graph s2))), (wgraph (l_graph s2 ++ [new_gnode]) s2), k.
    split; [reflexivity|]. pose proof HR as ((gs & Eg1 & Eg2 & Hpl) & HS & _).
    assert (Hgrow : gn s1 <= gn (wgraph (l_graph s1 ++ [new_gnode]) s1)) by (unfold gn; fld; rewrite app_length; lia).
    split; [|split; [reflexivity|split; [exact Hgrow|split; [apply prefix_refl|]]]].
    - eapply (Rk_grow k k s1 s2); [exact HR|exact Hgrow|apply prefix_refl| | |reflexivity..].
      + fld. exists (gs ++ [new_gnode]). rewrite Eg1, Eg2, <- !app_assoc. split; [reflexivity|]. split; [reflexivity|].
        apply Forall_app. split; [exact Hpl|]. constructor; [|constructor]. split; [reflexivity|constructor].
      + fld. eapply RS2_mono; [exact Hgrow|exact HS].
    - unfold PN3, gn, BlockPermSim.sg. fld. rewrite Eg1, Eg2, !app_length. cbn [length]. destruct (N.ltb_spec (N.of_nat (length G1 + length gs)) gb1); lia.
  Qed.
  Lemma bsim3_ladd_node_attr n ks a k0 v : gb1 <= a -> a < n -> vall noid v -> bsim3 n ks (@PU3 unit unit) (ladd_node_attr a k0 v) (ladd_node_attr (sg a) k0 v).
  Proof.
    intros Ha1 Ha2 Hv s1 s2 p k HR Hn Hk. pose proof HR as ((gs & Eg1 & Eg2 & Hpl) & HS & _). unfold ladd_node_attr, bind, get_state.
    destruct (sg_hi3 a Ha1) as (_ & Hs1 & Hs2). unfold gnode_at. rewrite Eg1, Eg2.
    rewrite (nth_suffix3 G1 gs gb1 a HG1 Ha1), (nth_suffix3 G2 gs gb2 (sg a) HG2 Hs1), Hs2.
    destruct (nth_error gs (N.to_nat (a - gb1))) as [nd|] eqn:End; [|reflexivity].
    destruct (attrs_add (g_attrs nd) k0 v) as [m' c] eqn:Eadd. destruct c; [reflexivity|].
    unfold set_lgraph, upd, modify, graph_update. rewrite <- Eg1, <- Eg2. exists tt. eexists. exists k. split; [reflexivity|].
    fold (wgraph (list_update (N.to_nat a) (with_attrs m') (l_graph s1)) s1). fold (wgraph (list_update (N.to_nat (sg a)) (with_attrs m') (l_graph s2)) s2).
    assert (Hlen : gn (wgraph (list_update (N.to_nat a) (with_attrs m') (l_graph s1)) s1) = gn s1) by (unfold gn; fld; rewrite list_update_length; reflexivity).
    split; [|split; [reflexivity|split; [rewrite Hlen; apply N.le_refl|split; [apply prefix_refl|exact I]]]].
    eapply (Rk_grow k k s1 s2); [exact HR|rewrite Hlen; apply N.le_refl|apply prefix_refl| | |reflexivity..].
    - fld. exists (list_update (N.to_nat (a - gb1)) (with_attrs m') gs). rewrite Eg1, Eg2.
      rewrite (update_suffix3 G1 gs gb1 a _ HG1 Ha1), (update_suffix3 G2 gs gb2 (sg a) _ HG2 Hs1), Hs2. split; [reflexivity|]. split; [reflexivity|].
      apply list_update_Forall; [exact Hpl|]. intros x [Hx1 Hx2]. split; [exact Hx1|]. cbn [with_attrs g_attrs].
      assert (Hnd : plainN nd) by (rewrite Forall_forall in Hpl; apply Hpl; eapply nth_error_In; eauto).
      pose proof (attrs_add_plain (g_attrs nd) k0 v (proj2 Hnd) Hv) as Hp. rewrite Eadd in Hp. exact Hp.
    - rewrite Hlen. exact HS.
  Qed.
  Lemma bsim3_lopt_node_attr n ks a o v : gb1 <= a -> a < n -> vall noid v -> bsim3 n ks (@PU3 unit unit) (lopt_node_attr a o v) (lopt_node_attr (sg a) o v).
  Proof. intros. destruct o; cbn [lopt_node_attr]; [apply bsim3_ladd_node_attr; assumption|apply bsim3_ret; intros; exact I]. Qed.
  Lemma bsim3_lfull_match_node n ks le : bsim3 n ks (@PE3 N) (lfull_match_node le) (lfull_match_node le).
  Proof. unfold lfull_match_node. destruct (nodes_for_capture (ll_match le) (ll_full le)); [apply bsim3_panic|apply bsim3_ret; intros; reflexivity]. Qed.

  (* the thunk store: a new thunk of either kind *)
  Definition PLoc (kind : bool) : lvalue -> lvalue -> N -> list bool -> Prop :=
    fun a b _ ks => exists loc, a = LVar loc /\ b = LVar (sl loc) /\ LA ks loc /\ (kind = true -> LL ks loc).
  Lemma PLoc_mono kind : pmono3 (PLoc kind).
  Proof. intros a b n k n' k' _ Hk (loc & H1 & H2 & H3 & H4). exists loc. repeat (split; [assumption|]). split; [eapply LAk_mono; eauto|intros E; eapply LLk_mono; eauto]. Qed.
  Lemma bsim3_store_add (kind : bool) n ks lv dbg : (if kind then lty n ks lv else mty2 n ks lv) -> bsim3 n ks (PLoc kind) (store_add lv dbg) (store_add (lr lv) dbg).
  Proof.
    intros Hlv s1 s2 p k HR Hn Hk. rewrite !store_add_eq. pose proof HR as (_ & (ts & Es1 & Es2 & Hlen & Hth) & _).
    set (th := {| th_state := TUnforced lv; th_dbg := dbg |}).
    exists (LVar (N.of_nat (length (l_store s2)))), (wstore (l_store s2 ++ [{| th_state := TUnforced (lr lv); th_dbg := dbg |}]) s2), (k ++ [kind]).
    split; [reflexivity|]. split; [|split; [reflexivity|split; [apply N.le_refl|split; [apply prefix_snoc|]]]].
    - eapply (Rk_grow k (k ++ [kind]) s1 s2); [exact HR|apply N.le_refl|apply prefix_snoc| | |reflexivity..].
      + apply HR.
      + fld. exists (ts ++ [th]). rewrite Es1, Es2, map_app, <- !app_assoc. split; [reflexivity|]. split; [reflexivity|]. split; [rewrite !app_length, Hlen; reflexivity|].
        change (gn (wstore (S1 ++ ts ++ [th]) s1)) with (gn s1). intros j th0 Hj. destruct (Nat.lt_ge_cases j (length ts)) as [Hlt|Hge].
        * rewrite nth_error_app1 in Hj by exact Hlt. eapply thk_mono; [apply N.le_refl|apply prefix_snoc|apply (Hth j th0 Hj)].
        * rewrite nth_error_app2 in Hj by exact Hge. destruct (j - length ts)%nat as [|j'] eqn:Ej; cbn in Hj; [|destruct j'; discriminate].
          inversion Hj; subst th0. assert (j = length k) by lia. subst j. unfold thk. rewrite nth_error_app2, Nat.sub_diag by lia. cbn [nth_error].
          rewrite firstn_app, firstn_all, Nat.sub_diag, firstn_O, app_nil_r. unfold th. cbn [th_state thall tsall].
          destruct kind; [eapply lty_mono; [exact Hn|exact Hk|exact Hlv]|eapply mty2_mono; [exact Hn|exact Hk|exact Hlv]].
    - exists (N.of_nat (length (l_store s1))). split; [reflexivity|].
      assert (E1 : N.of_nat (length (l_store s1)) = kb1 + N.of_nat (length k)) by (rewrite Es1, app_length; lia).
      assert (E2 : N.of_nat (length (l_store s2)) = kb2 + N.of_nat (length k)) by (rewrite Es2, app_length, map_length; lia).
      rewrite E1, E2. split; [f_equal; unfold BlockPermSim.sl; lia|]. split; [apply LAk_snoc|]. intros ->. apply LLk_snoc. reflexivity.
  Qed.

  Lemma set_state_eq3 loc st s p : store_set_state loc st s p =
    Ok (tt, wstore (list_update (N.to_nat loc) (fun th => {| th_state := st; th_dbg := th_dbg th |}) (l_store s)) s, p).
  Proof. reflexivity. Qed.
  (* updating the state of an L thunk *)
  Lemma bsim3_store_set_state n ks loc st : LL ks loc -> tsall okfn (Dn n) (LL (firstn (N.to_nat (loc - kb1)) ks)) st -> st <> TForcing \/ True ->
    bsim3 n ks (@PU3 unit unit) (store_set_state loc st) (store_set_state (sl loc) (tsren sg sl st)).
  Proof.
    intros HLl Hst _ s1 s2 p k HR Hn Hk. rewrite !set_state_eq3. pose proof HR as (_ & (ts & Es1 & Es2 & Hlen & Hth) & _).
    destruct HLl as [Hl1 Hl2]. set (j := N.to_nat (loc - kb1)) in *. assert (Hj : (j < length ks)%nat) by (apply nth_error_Some; congruence).
    set (f1 := fun th : thunk => {| th_state := st; th_dbg := th_dbg th |}). set (f2 := fun th : thunk => {| th_state := tsren sg sl st; th_dbg := th_dbg th |}).
    exists tt. eexists. exists k. split; [reflexivity|]. split; [|split; [reflexivity|split; [apply N.le_refl|split; [apply prefix_refl|exact I]]]].
    eapply (Rk_grow k k s1 s2); [exact HR|apply N.le_refl|apply prefix_refl| | |reflexivity..]; fld; [apply HR|].
    exists (list_update j f1 ts). rewrite Es1, Es2.
    assert (Hsl : kb2 <= sl loc /\ sl loc - kb2 = loc - kb1) by (unfold BlockPermSim.sl; lia). destruct Hsl as [Hsl1 Hsl2].
    rewrite (update_suffix3 S1 ts kb1 loc _ HS1 Hl1), (update_suffix3 S2 _ kb2 (sl loc) _ HS2 Hsl1), Hsl2. fold j. split; [reflexivity|]. split.
    { f_equal. symmetry. apply list_update_map. intros th. reflexivity. }
    split; [rewrite list_update_length; exact Hlen|]. intros i th Hi. change (gn (wstore (S1 ++ list_update j f1 ts) s1)) with (gn s1).
    rewrite nth_error_list_update in Hi. destruct (Nat.eqb_spec i j) as [->|Hne]; [|apply (Hth i th Hi)].
    destruct (nth_error ts j) as [th0|]; [|discriminate]. cbn in Hi. inversion Hi; subst th. unfold thk.
    destruct Hk as [r ->]. rewrite nth_error_app1, Hl2 by exact Hj. rewrite (firstn_prefix_lt ks (ks ++ r) j (prefix_app _ _)) by lia.
    unfold thall, f1. cbn [th_state]. destruct st; cbn [tsall] in *; auto; [eapply lvall_impl; [| |exact Hst]; [intros i; apply Dn_mono3, Hn|auto]|eapply vall_mono3; eauto].
  Qed.

  (* a scoped definition *)
  Lemma bsim3_scoped_add n ks sv name loc dbg : vall noid sv -> LA ks loc ->
    bsim3 n ks (@PU3 unit unit) (scoped_store_add (LValue sv) name (LVar loc) dbg) (scoped_store_add (LValue sv) name (LVar (sl loc)) dbg).
  Proof.
    intros Hsv Hloc s1 s2 p k HR Hn Hk. pose proof HR as (_ & _ & _ & _ & _ & _ & _ & (defs & Ec1 & Ec2 & Hd) & _).
    assert (U1 : allunf (l_scoped s1)) by (rewrite Ec1; apply allunf_addl, Hunf1).
    assert (U2 : allunf (l_scoped s2)) by (rewrite Ec2; apply allunf_addl, Hunf2).
    rewrite (scoped_add_eq _ _ _ _ s1 p U1), (scoped_add_eq _ _ _ _ s2 p U2). exists tt. eexists. exists k. split; [reflexivity|]. split; [|post_same; exact I].
    destruct HR as (HG & HS & HL & HE & HA & HP & HPa & _ & Hpv1 & Hpv2). apply Rk_intro; unfold gn in *; fld; try assumption.
    exists (defs ++ [(name, (LValue sv, LVar loc, dbg))]). rewrite map_app, !addl_app, <- Ec1, <- Ec2. split; [reflexivity|].
    split; [cbn [map addl fold_left]; unfold dfren; cbn [fst snd lvren]; rewrite (vren_noid _ sv Hsv); reflexivity|].
    apply Forall_app. split; [exact Hd|]. constructor; [|constructor]. split; cbn [fst snd]; [eauto|]. exists loc. split; [reflexivity|]. eapply LAk_mono; eauto.
  Qed.

  (* ---------------- forcing untainted values ---------------- *)
  Definition PVS3 : list value -> list value -> N -> list bool -> Prop := fun a b n _ => b = map vr a /\ Forall (vall (Dn n)) a.
  Lemma PVS3_mono : pmono3 PVS3. Proof. intros a b n m n' m' Hn _ [H1 H2]. split; [exact H1|eapply valls_mono3; eauto]. Qed.
  Lemma PL_PV3 vs vs' n ks : PL3 PV3 vs vs' n ks -> PVS3 vs vs' n ks.
  Proof. unfold PL3, PVS3. induction 1 as [|v w vs vs' [H1 H2] _ [IH1 IH2]]; [split; [reflexivity|constructor]|]. subst. split; [reflexivity|constructor; assumption]. Qed.
  Lemma PL_PLV3 vs vs' n ks : PL3 PLV3 vs vs' n ks -> vs' = map lr vs /\ Forall (lty n ks) vs.
  Proof. unfold PL3. induction 1 as [|v w vs vs' [H1 H2] _ [IH1 IH2]]; [split; [reflexivity|constructor]|]. subst. split; [reflexivity|constructor; assumption]. Qed.
  Lemma Forall_PLV3 n ks l : Forall (lty n ks) l -> Forall2 (fun x y => PLV3 x y n ks) l (map lr l).
  Proof. induction 1; constructor; [split; [reflexivity|assumption]|assumption]. Qed.
  Lemma Forall_PV3 n ks l : Forall (vall (Dn n)) l -> Forall2 (fun x y => PV3 x y n ks) l (map vr l).
  Proof. induction 1; constructor; [split; [reflexivity|assumption]|assumption]. Qed.

  Section Interp3.
    Context {rx : Type}.
    Variables (t : tree) (fl : file) (cfg : config) (glob : globals) (regexes : list rx)
              (find : rx -> str -> option (list (option (N * N))))
              (call : ident -> graph -> list value -> res (value * graph)).
    Hypothesis Hcall : forall f, okfn f -> call_ok call f.
    Hypothesis Hglob : forall name v, globals_get glob name = Some v -> vall (fun i => i < n0) v.
    Hypothesis Hea : forall l : loc, eaok (match c_loc_attr cfg with Some k => [(k, VStr (loc_text l))] | None => [] end).

    Lemma bsim3_lcall n ks f ps : okfn f -> Forall (vall (Dn n)) ps -> bsim3 n ks PV3 (lcall_function call f ps) (lcall_function call f (map vr ps)).
    Proof.
      intros Hf Hps s1 s2 p k HR Hn Hk. unfold lcall_function, bind, get_state.
      assert (Hps' : Forall (vall (Dn (gn s1))) ps) by (eapply valls_mono3; eauto).
      pose proof (Hcall f Hf (Dn (gn s1)) sg (l_graph s1) (l_graph s2) ps Hps' (sg_mono3 (gn s1))) as Hc.
      destruct (call f (l_graph s1) ps) as [[v g1]|e|x|]; [|rewrite Hc; reflexivity..].
      destruct Hc as (-> & Hv & E). rewrite E. unfold set_lgraph, upd, modify, ret. eexists. eexists. exists k. split; [reflexivity|].
      fold (wgraph (l_graph s1) s1). split; [|post_same; split; [reflexivity|exact Hv]].
      destruct HR as (HG & HS & HL & HE & HA & HP & HPa & HC & Hpv1 & Hpv2). apply Rk_intro; unfold gn in *; fld; assumption.
    Qed.

    Notation eval_lv' := (eval_lv t fl call).
    Notation force_thunk' := (force_thunk t fl call).

    Lemma Rk_push_param k s1 s2 v : Rk k s1 s2 -> vall (Dn (gn s1)) v -> Rk k (wparams (l_params s1 ++ [v]) s1) (wparams (l_params s2 ++ [vr v]) s2).
    Proof.
      intros (HG & HS & HL & HE & HA & HP & HPa & HC & Hpv1 & Hpv2) Hv. apply Rk_intro; unfold gn in *; fld; try assumption.
      destruct HPa as (ps & H1 & H2 & H3). exists (ps ++ [v]). rewrite H1, H2, map_app, <- !app_assoc. split; [reflexivity|]. split; [reflexivity|].
      apply Forall_app. split; [exact H3|]. constructor; [exact Hv|constructor].
    Qed.
    Lemma push_args_sim3 (ev1 ev2 : lvalue -> M lstate value) : forall args n ks,
      (forall x n1 ks1, n <= n1 -> prefix ks ks1 -> In x args -> lty n1 ks1 x -> bsim3 n1 ks1 PV3 (ev1 x) (ev2 (lr x))) ->
      Forall (lty n ks) args ->
      forall s1 s2 p k, Rk k s1 s2 -> n <= gn s1 -> prefix ks k ->
        match iterM (fun a => v <- ev1 a ;; lpush_param v) args s1 p with
        | Ok (_, s1', p') => exists s2' vs k', iterM (fun a => v <- ev2 a ;; lpush_param v) (map lr args) s2 p = Ok (tt, s2', p') /\ Rk k' s1' s2' /\
                               l_params s1' = l_params s1 ++ vs /\ l_params s2' = l_params s2 ++ map vr vs /\ length vs = length args /\
                               Forall (vall (Dn (gn s1'))) vs /\ gn s1 <= gn s1' /\ prefix k k'
        | Err e => iterM (fun a => v <- ev2 a ;; lpush_param v) (map lr args) s2 p = Err e
        | Panic x => iterM (fun a => v <- ev2 a ;; lpush_param v) (map lr args) s2 p = Panic x
        | OutOfFuel => iterM (fun a => v <- ev2 a ;; lpush_param v) (map lr args) s2 p = OutOfFuel
        end.
    Proof.
      induction args as [|x args IH]; intros n ks Hev Hargs s1 s2 p k HR Hn Hk; cbn [iterM map].
      - exists s2, [], k. cbn [map length]. rewrite !app_nil_r. split; [reflexivity|]. split; [exact HR|]. repeat split; try reflexivity; try apply N.le_refl; [constructor|apply prefix_refl].
      - inversion Hargs as [|? ? Hx Hrest]; subst.
        set (F1 := fun a => v <- ev1 a ;; lpush_param v) in *. set (F2 := fun a => v <- ev2 a ;; lpush_param v) in *. unfold bind.
        pose proof (Hev x n ks (N.le_refl _) (prefix_refl _) (or_introl eq_refl) Hx s1 s2 p k HR Hn Hk) as Hb.
        destruct (ev1 x s1 p) as [[[v s1a] pa]|e|y|]; [|rewrite Hb; reflexivity..].
        destruct Hb as (v' & s2a & ka & E2 & HRa & Hpa & Hga & Hka & [-> Hv]). rewrite E2, !lpush_param_eq.
        assert (Hpa2 : l_params s2a = l_params s2).
        { destruct HR as (_ & _ & _ & _ & _ & _ & (ps & A1 & A2 & _) & _). destruct HRa as (_ & _ & _ & _ & _ & _ & (ps' & B1 & B2 & _) & _).
          rewrite Hpa, A1 in B1. apply app_inv_head in B1. subst ps'. congruence. }
        specialize (IH (gn s1a) ka
                      (fun x0 n1 ks1 H1 H2 Hin => Hev x0 n1 ks1 ltac:(lia) (prefix_trans _ _ _ (prefix_trans _ _ _ Hk Hka) H2) (or_intror Hin))
                      ltac:(eapply Forall_impl; [|exact Hrest]; intros a0; apply lty_mono; [lia|eapply prefix_trans; eauto])
                      (wparams (l_params s1a ++ [v]) s1a) (wparams (l_params s2a ++ [vr v]) s2a) pa ka (Rk_push_param ka s1a s2a v HRa Hv) (N.le_refl _) (prefix_refl _)).
        destruct (iterM F1 args (wparams (l_params s1a ++ [v]) s1a) pa) as [[[u s1b] pb]|e|y|]; try exact IH.
        destruct IH as (s2b & vs & kb & E3 & HRb & Hp1 & Hp2 & Hlen & Hvs & Hgb & Hkb). cbv beta iota. exists s2b, (v :: vs), kb. split; [exact E3|]. split; [exact HRb|].
        cbn [l_params wparams] in Hp1, Hp2. split; [rewrite Hp1, Hpa, <- app_assoc; reflexivity|]. split; [rewrite Hp2, Hpa2, <- app_assoc; reflexivity|].
        split; [cbn [length]; congruence|]. split; [constructor; [eapply vall_mono3; [exact Hgb|exact Hv]|exact Hvs]|].
        change (gn (wparams (l_params s1a ++ [v]) s1a)) with (gn s1a) in Hgb. split; [lia|eapply prefix_trans; eauto].
    Qed.
    Lemma Rk_restore_params k k' s1 s2 s1' s2' vs : Rk k s1 s2 -> Rk k' s1' s2' -> l_params s1' = l_params s1 ++ vs -> l_params s2' = l_params s2 ++ map vr vs ->
      Rk k' (wparams (l_params s1) s1') (wparams (l_params s2) s2').
    Proof.
      intros (_ & _ & _ & _ & _ & _ & (ps & A1 & A2 & _) & _) (HG & HS & HL & HE & HA & HP & (ps' & B1 & B2 & B3) & HC & Hpv1 & Hpv2) E1 E2'.
      apply Rk_intro; unfold gn in *; fld; try assumption. exists ps. split; [exact A1|]. split; [exact A2|].
      rewrite E1, A1, <- app_assoc in B1. apply app_inv_head in B1. subst ps'. apply Forall_app in B3. apply B3.
    Qed.

    Lemma bsim3_eval_all : forall fuel,
      (forall lv n ks, lty n ks lv -> bsim3 n ks PV3 (eval_lv' fuel lv) (eval_lv' fuel (lr lv))) /\
      (forall loc n ks, LL ks loc -> bsim3 n ks PV3 (force_thunk' fuel loc) (force_thunk' fuel (sl loc))).
    Proof.
      induction fuel as [|fuel [IHe IHt]]; [split; intros; apply bsim3_oof|]. split.
      - intros lv n ks Hlv. destruct lv as [v|es|es|loc|sc name|f args]; cbn [eval_lv lvren]; (eapply bsim3_seq; [apply bsim3_poll|intros n1 ks1 Hn1 Hk1]).
        + apply bsim3_ret. intros n2 ks2 Hn2 Hk2. split; [reflexivity|]. unfold lty in Hlv. cbn [lvall] in Hlv. eapply vall_mono3; [|exact Hlv]. lia.
        + unfold lty in Hlv. rewrite lvall_list in Hlv. eapply bsim3_bind.
          * apply (bsim3_mapM _ _ _ _ n1 ks1 PV3 _ _ PLV3 es (map lr es) PV3_mono PLV3_mono).
            -- intros x y n2 ks2 _ _ _ [-> Hx]. apply IHe, Hx.
            -- apply Forall_PLV3. eapply Forall_impl; [|exact Hlv]. intros a0. apply lty_mono; assumption.
          * intros vs vs' n2 ks2 _ _ Hvs. apply PL_PV3 in Hvs. destruct Hvs as [-> Hall]. apply bsim3_ret. intros n3 ks3 Hn3 _. split; [reflexivity|].
            rewrite vall_list. eapply valls_mono3; [exact Hn3|exact Hall].
        + unfold lty in Hlv. rewrite lvall_set in Hlv. eapply bsim3_bind.
          * apply (bsim3_mapM _ _ _ _ n1 ks1 PV3 _ _ PLV3 es (map lr es) PV3_mono PLV3_mono).
            -- intros x y n2 ks2 _ _ _ [-> Hx]. apply IHe, Hx.
            -- apply Forall_PLV3. eapply Forall_impl; [|exact Hlv]. intros a0. apply lty_mono; assumption.
          * intros vs vs' n2 ks2 _ _ Hvs. apply PL_PV3 in Hvs. destruct Hvs as [-> Hall]. apply bsim3_ret. intros n3 ks3 Hn3 _. split.
            -- cbn [vren]. f_equal. apply (set_of_list_vren (Dn n2) sg vs (sg_cmp3 n2) Hall).
            -- rewrite vall_set. apply set_of_list_all. eapply valls_mono3; [exact Hn3|exact Hall].
        + unfold lty in Hlv. cbn [lvall] in Hlv. apply IHt. eapply LLk_mono; eauto.
        + unfold lty in Hlv. cbn [lvall] in Hlv. contradiction.
        + unfold lty in Hlv. rewrite lvall_call in Hlv. destruct Hlv as [Hf Hargs]. rewrite map_length. intros s1 s2 p k HR Hn Hk.
          pose proof (push_args_sim3 (eval_lv' fuel) (eval_lv' fuel) args n1 ks1 (fun x n2 ks2 _ _ _ Hx => IHe x n2 ks2 Hx)
                        ltac:(eapply Forall_impl; [|exact Hargs]; intros a0; apply lty_mono; assumption) s1 s2 p k HR Hn Hk) as Hloop.
          set (F := fun a => v <- eval_lv' fuel a ;; lpush_param v) in *. unfold bind.
          destruct (iterM F args s1 p) as [[[u s1'] p']|e|y|]; [|rewrite Hloop; reflexivity..].
          destruct Hloop as (s2' & vs & k' & E2 & HR' & Hp1 & Hp2 & Hlen & Hvs & Hg' & Hk'). rewrite E2.
          rewrite (ldrain_ok (l_params s1) vs (length args) s1' p' Hp1 Hlen), (ldrain_ok (l_params s2) (map vr vs) (length args) s2' p' Hp2 ltac:(rewrite map_length; exact Hlen)).
          pose proof (bsim3_lcall (gn s1') k' f vs Hf Hvs (wparams (l_params s1) s1') (wparams (l_params s2) s2') p' k'
                        (Rk_restore_params k k' s1 s2 s1' s2' vs HR HR' Hp1 Hp2) (N.le_refl _) (prefix_refl _)) as Hc.
          destruct (lcall_function call f vs (wparams (l_params s1) s1') p') as [[[v s1''] p'']|e|y|]; try exact Hc.
          destruct Hc as (v' & s2'' & k'' & E3 & HR'' & Hpa & Hg'' & Hk'' & HPV). exists v', s2'', k''. split; [exact E3|]. split; [exact HR''|]. split; [exact Hpa|].
          change (gn (wparams (l_params s1) s1')) with (gn s1') in Hg''. split; [lia|]. split; [eapply prefix_trans; eauto|exact HPV].
      - intros loc n ks HLl. cbn [force_thunk]. apply bsim3_get. intros s1 s2 k HR Hn Hk.
        pose proof HR as (_ & (ts & Es1 & Es2 & Hlen & Hth) & _). rewrite Es1, Es2. pose proof (LLk_mono kb1 ks k loc Hk HLl) as [Hl1 Hl2].
        assert (Hsl : kb2 <= sl loc /\ sl loc - kb2 = loc - kb1) by (unfold BlockPermSim.sl; lia). destruct Hsl as [Hsl1 Hsl2].
        rewrite (nth_suffix3 S1 ts kb1 loc HS1 Hl1), (nth_suffix3 S2 _ kb2 (sl loc) HS2 Hsl1), Hsl2, nth_error_map. set (j := N.to_nat (loc - kb1)) in *.
        destruct (nth_error ts j) as [th|] eqn:Eth; cbn [option_map]; [|apply bsim3_panic].
        cbn [thren th_dbg th_state]. apply bsim3_ctx. pose proof (Hth _ _ Eth) as Hty. unfold thk in Hty. rewrite Hl2 in Hty. unfold thall in Hty.
        destruct (th_state th) as [inner| |v]; cbn [tsren tsall] in *.
        + eapply bsim3_seq; [apply (bsim3_store_set_state (gn s1) k loc TForcing (conj Hl1 Hl2) I (or_intror I))|]. intros n1 ks1 Hn1 Hk1.
          eapply bsim3_bind; [apply IHe; eapply lvall_impl; [| |exact Hty]; [intros i; apply Dn_mono3, Hn1|intros i Hi; eapply LLk_mono; [exact Hk1|apply (LLk_firstn kb1 k j i Hi)]]|].
          intros v v' n2 ks2 Hn2 Hk2 [-> Hv]. eapply bsim3_seq; [apply (bsim3_store_set_state n2 ks2 loc (TForced v)); [apply (LLk_mono kb1 k ks2 loc (prefix_trans _ _ _ Hk1 Hk2) (conj Hl1 Hl2))|exact Hv|right; exact I]|].
          intros n3 ks3 Hn3 _. apply bsim3_ret. intros n4 ks4 Hn4 _. split; [reflexivity|]. eapply vall_mono3; [|exact Hv]. lia.
        + apply bsim3_fail.
        + apply bsim3_ret. intros n1 ks1 Hn1 _. split; [reflexivity|]. eapply vall_mono3; [exact Hn1|exact Hty].
    Qed.
    Lemma bsim3_eval_lv fuel lv n ks : lty n ks lv -> bsim3 n ks PV3 (eval_lv' fuel lv) (eval_lv' fuel (lr lv)).
    Proof. apply bsim3_eval_all. Qed.

    (* ---- variables ---- *)
    Definition vty (name : ident) (n : N) (ks : list bool) (lv : lvalue) : Prop := if tnt name then mty2 n ks lv else lty n ks lv.
    Lemma vty_lty name n ks lv : lty n ks lv -> vty name n ks lv.
    Proof. unfold vty. destruct (tnt name); [apply lty_mty2|auto]. Qed.
    Lemma vty_mono name n ks n' ks' lv : n <= n' -> prefix ks ks' -> vty name n ks lv -> vty name n' ks' lv.
    Proof. unfold vty. destruct (tnt name); [apply mty2_mono|apply lty_mono]. Qed.
    Lemma vty_mty2 name n ks lv : vty name n ks lv -> mty2 n ks lv.
    Proof. unfold vty. destruct (tnt name); [auto|apply lty_mty2]. Qed.
    Lemma ents_get n ks l name lv : Forall (Forall (ent_ok n ks)) l -> varmap_get l name = Some lv -> vty name n ks lv.
    Proof.
      intros H. induction l as [|f up IH]; cbn [varmap_get]; [discriminate|]. inversion_clear H as [|? ? Hf Hup].
      destruct (alist_get name f) as [[v0 b0]|] eqn:E; [|apply IH; assumption]. intros [= <-]. apply alist_get_In in E.
      rewrite Forall_forall in Hf. apply (Hf _ E).
    Qed.
    Lemma ents_add n ks l name v mu l' : Forall (Forall (ent_ok n ks)) l -> vty name n ks v -> varmap_add l name v mu = inl l' -> Forall (Forall (ent_ok n ks)) l'.
    Proof.
      intros H Hv. destruct l as [|f up]; cbn [varmap_add]; [discriminate|]. inversion_clear H as [|? ? Hf Hup]. destruct (alist_get name f); [discriminate|]. intros [= <-].
      constructor; [|assumption]. apply Forall_app. split; [assumption|]. constructor; [exact Hv|constructor].
    Qed.
    Lemma ents_frame_set n ks f name v b : Forall (ent_ok n ks) f -> vty name n ks v -> Forall (ent_ok n ks) (alist_set name (v, b) f).
    Proof.
      intros H Hv. induction f as [|[k0 x0] f IH]; cbn [alist_set]; [constructor; [exact Hv|constructor]|]. inversion_clear H as [|? ? Hf Hup].
      destruct (str_eqb name k0); constructor; auto.
    Qed.
    Lemma ents_set n ks name v : forall l l', Forall (Forall (ent_ok n ks)) l -> vty name n ks v -> varmap_set l name v = inl l' -> Forall (Forall (ent_ok n ks)) l'.
    Proof.
      induction l as [|f up IH]; intros l' H Hv; cbn [varmap_set]; [discriminate|]. inversion_clear H as [|? ? Hf Hup].
      destruct (alist_get name f) as [[v0 [|]]|].
      - intros [= <-]. constructor; [apply ents_frame_set; assumption|assumption].
      - discriminate.
      - destruct (varmap_set up name v) as [up'|e] eqn:Eu; [|discriminate]. intros [= <-]. constructor; [assumption|]. eapply IH; eauto.
    Qed.

    Definition PVT (name : ident) : lvalue -> lvalue -> N -> list bool -> Prop := fun a b n ks => b = lr a /\ vty name n ks a.
    Lemma bsim3_lunscoped_get n ks name : bsim3 n ks (PVT name) (lunscoped_get glob name) (lunscoped_get glob name).
    Proof.
      unfold lunscoped_get. destruct (globals_get glob name) as [v|] eqn:Eg.
      - apply bsim3_ret. intros n1 ks1 _ _. pose proof (Hglob _ _ Eg) as Hv. split; [cbn [lvren]; rewrite (vr_low3 v Hv); reflexivity|].
        apply vty_lty. unfold lty. cbn [lvall]. eapply vall_impl; [|exact Hv]. intros i. apply Dn_low3.
      - apply bsim3_get. intros s1 s2 k HR _ _. destruct HR as (_ & _ & [HL1 HL2] & _). rewrite HL1, varmap_get_llren.
        destruct (varmap_get (l_locals s1) name) as [lv|] eqn:El; cbn [option_map]; [|apply bsim3_fail].
        apply bsim3_ret. intros n1 ks1 Hn1 Hk1. split; [reflexivity|]. eapply vty_mono; [exact Hn1|exact Hk1|]. eapply ents_get; eauto.
    Qed.
    Lemma bsim3_lunscoped_add n ks le name v mu : vty name n ks v ->
      bsim3 n ks (@PU3 unit unit) (lunscoped_add glob le name v mu) (lunscoped_add glob le name (lr v) mu).
    Proof.
      intros Hv. unfold lunscoped_add. destruct (globals_get glob name); [apply bsim3_fail|].
      eapply bsim3_bind; [apply (bsim3_store_add (negb (tnt name))); unfold vty in Hv; destruct (tnt name); exact Hv|]. intros var var' n1 ks1 _ _ (loc & -> & -> & HA & HL).
      apply bsim3_get. intros s1 s2 k HR Hn Hk. destruct HR as (_ & _ & [HL1 HL2] & _). rewrite HL1. change (LVar (sl loc)) with (lr (LVar loc)). rewrite varmap_add_llren.
      destruct (varmap_add (l_locals s1) name (LVar loc) mu) as [l'|e] eqn:Ea; [|apply bsim3_fail].
      apply bsim3_set_llocals. split; [reflexivity|]. eapply ents_add; [exact HL2| |exact Ea]. unfold vty, lty, mty2. destruct (tnt name); cbn [negb] in HL.
      + cbn [mvall2]. right. eapply LAk_mono; eauto.
      + cbn [lvall]. eapply LLk_mono; [exact Hk|apply HL; reflexivity].
    Qed.
    Lemma bsim3_lunscoped_set n ks le name v : vty name n ks v ->
      bsim3 n ks (@PU3 unit unit) (lunscoped_set glob le name v) (lunscoped_set glob le name (lr v)).
    Proof.
      intros Hv. unfold lunscoped_set. destruct (globals_get glob name); [apply bsim3_fail|].
      eapply bsim3_bind; [apply (bsim3_store_add (negb (tnt name))); unfold vty in Hv; destruct (tnt name); exact Hv|]. intros var var' n1 ks1 _ _ (loc & -> & -> & HA & HL).
      apply bsim3_get. intros s1 s2 k HR Hn Hk. destruct HR as (_ & _ & [HL1 HL2] & _). rewrite HL1. change (LVar (sl loc)) with (lr (LVar loc)). rewrite varmap_set_llren, varmap_get_llren.
      destruct (varmap_set (l_locals s1) name (LVar loc)) as [l'|e] eqn:Ea.
      - apply bsim3_set_llocals. split; [reflexivity|]. eapply ents_set; [exact HL2| |exact Ea]. unfold vty, lty, mty2. destruct (tnt name); cbn [negb] in HL.
        + cbn [mvall2]. right. eapply LAk_mono; eauto.
        + cbn [lvall]. eapply LLk_mono; [exact Hk|apply HL; reflexivity].
      - destruct (varmap_get (l_locals s1) name); cbn [option_map]; apply bsim3_fail.
    Qed.

    (* ---- expressions ---- *)
    Variable qm : qmatch.
    Notation lexpr' := (lexpr okfn tnt qm).
    Notation texpr' := (texpr okfn tnt qm).
    Notation leval' := (leval t fl glob call).

    Lemma from_nodes_noid3 ns q v : from_nodes ns q = Ok v -> vall noid v.
    Proof.
      destruct q; cbn [from_nodes]; try discriminate.
      - destruct ns; [discriminate|]. intros [= <-]. exact I.
      - destruct ns; intros [= <-]; exact I.
      - intros [= <-]. rewrite vall_list. apply Forall_forall. intros x Hx. apply in_map_iff in Hx as (k & <- & _). exact I.
      - intros [= <-]. rewrite vall_list. apply Forall_forall. intros x Hx. apply in_map_iff in Hx as (k & <- & _). exact I.
    Qed.
    Lemma bsim3_as_list n ks v : vall (Dn n) v -> bsim3 n ks PVS3 (lift (as_list v)) (lift (as_list (vr v))).
    Proof.
      intros Hv. apply bsim3_lift2. rewrite as_list_vr. destruct v; cbn [as_list]; try reflexivity.
      eexists. split; [reflexivity|]. intros n1 ks1 Hn1 _. split; [reflexivity|]. rewrite vall_list in Hv. eapply valls_mono3; [exact Hn1|exact Hv].
    Qed.

    Lemma bsim3_leval : forall fuel le e n ks, lexpr' e -> bsim3 n ks PLV3 (leval' fuel le e) (leval' fuel le e).
    Proof.
      induction fuel as [|fuel IH]; intros le e n ks Hf; [apply bsim3_oof|].
      assert (Heager : forall e' n1 ks1, lexpr' e' ->
                bsim3 n1 ks1 PV3 (lv <- leval' fuel le e' ;; eval_lv' (S fuel + default_eval_fuel) lv) (lv <- leval' fuel le e' ;; eval_lv' (S fuel + default_eval_fuel) lv)).
      { intros e' n1 ks1 Hf'. eapply bsim3_bind; [apply IH, Hf'|]. intros lv lv' n2 ks2 _ _ [-> Hlv]. apply bsim3_eval_lv, Hlv. }
      assert (Hcomp : forall elem var value n1 ks1, lexpr' elem -> lexpr' value ->
        let c := (lv <- (lv <- leval' fuel le value ;; eval_lv' (S fuel + default_eval_fuel) lv) ;; vals <- lift (as_list lv) ;;
             lpush_frame ;;;
             out <- mapM (fun v => lclear_frame ;;; lunscoped_add glob le var (LValue v) false ;;; leval' fuel le elem) vals ;;
             lpop_frame ;;; ret out) in bsim3 n1 ks1 (PL3 PLV3) c c).
      { intros elem var value n1 ks1 Hfe Hfv. cbv zeta. eapply bsim3_bind; [apply Heager, Hfv|]. intros lv lv' n2 ks2 _ _ [-> Hlv].
        eapply bsim3_bind; [apply bsim3_as_list, Hlv|]. intros vals vals' n3 ks3 _ _ [-> Hvals].
        eapply bsim3_seq; [apply bsim3_lpush_frame|]. intros n4 ks4 Hn4 _. eapply bsim3_bind.
        - apply (bsim3_mapM _ _ _ _ n4 ks4 PLV3 _ _ PV3 vals (map vr vals) PLV3_mono PV3_mono).
          + intros v w n5 ks5 _ _ _ [-> Hv]. eapply bsim3_seq; [apply bsim3_lclear_frame|]. intros n6 ks6 Hn6 _.
            eapply bsim3_seq; [apply (bsim3_lunscoped_add n6 ks6 le var (LValue v) false); apply vty_lty; unfold lty; cbn [lvall]; eapply vall_mono3; [exact Hn6|exact Hv]|].
            intros n7 ks7 _ _. apply IH, Hfe.
          + apply Forall_PV3. eapply valls_mono3; [exact Hn4|exact Hvals].
        - intros out out' n5 ks5 _ _ Hout. eapply bsim3_seq; [apply bsim3_lpop_frame|]. intros n6 ks6 Hn6 Hk6. apply bsim3_ret. intros n7 ks7 Hn7 Hk7.
          eapply (PL3_mono _ _ PLV3 PLV3_mono); [| |exact Hout]; [lia|eapply prefix_trans; eauto]. }
      destruct e; cbn [leval]; cbn [lexpr] in Hf.
      - apply bsim3_ret. intros. split; [reflexivity|exact I].
      - apply bsim3_ret. intros. split; [reflexivity|exact I].
      - apply bsim3_ret. intros. split; [reflexivity|exact I].
      - apply bsim3_ret. intros. split; [reflexivity|exact I].
      - apply bsim3_ret. intros. split; [reflexivity|exact I].
      - eapply bsim3_bind; [apply bsim3_mapM_same; [apply PLV3_mono|]; intros x n1 ks1 _ _ Hin; apply IH; eapply All_In; eauto|].
        intros vs vs' n1 ks1 _ _ Hvs. apply PL_PLV3 in Hvs. destruct Hvs as [-> Hall]. apply bsim3_ret. intros n2 ks2 Hn2 Hk2. split; [reflexivity|].
        unfold lty. rewrite lvall_list. eapply Forall_impl; [|exact Hall]. intros a0. apply lty_mono; assumption.
      - eapply bsim3_bind; [apply bsim3_mapM_same; [apply PLV3_mono|]; intros x n1 ks1 _ _ Hin; apply IH; eapply All_In; eauto|].
        intros vs vs' n1 ks1 _ _ Hvs. apply PL_PLV3 in Hvs. destruct Hvs as [-> Hall]. apply bsim3_ret. intros n2 ks2 Hn2 Hk2. split; [reflexivity|].
        unfold lty. rewrite lvall_set. eapply Forall_impl; [|exact Hall]. intros a0. apply lty_mono; assumption.
      - destruct Hf as [Hfe Hfv]. eapply bsim3_bind; [apply Hcomp; assumption|].
        intros vs vs' n1 ks1 _ _ Hvs. apply PL_PLV3 in Hvs. destruct Hvs as [-> Hall]. apply bsim3_ret. intros n2 ks2 Hn2 Hk2. split; [reflexivity|].
        unfold lty. rewrite lvall_list. eapply Forall_impl; [|exact Hall]. intros a0. apply lty_mono; assumption.
      - destruct Hf as [Hfe Hfv]. eapply bsim3_bind; [apply Hcomp; assumption|].
        intros vs vs' n1 ks1 _ _ Hvs. apply PL_PLV3 in Hvs. destruct Hvs as [-> Hall]. apply bsim3_ret. intros n2 ks2 Hn2 Hk2. split; [reflexivity|].
        unfold lty. rewrite lvall_set. eapply Forall_impl; [|exact Hall]. intros a0. apply lty_mono; assumption.
      - eapply bsim3_bind; [apply (bsim3_lift2 _ _ n ks (fun a b _ _ => b = a /\ vall noid a))|].
        + destruct (from_nodes (nodes_for_capture (ll_match le) file_idx) q) as [v|e|x|] eqn:Ef; try reflexivity.
          exists v. split; [reflexivity|]. intros. split; [reflexivity|]. eapply from_nodes_noid3; eauto.
        + intros v v' n1 ks1 _ _ [-> Hv]. apply bsim3_ret. intros n2 ks2 _ _. split; [cbn [lvren]; rewrite (vren_noid sg v Hv); reflexivity|].
          unfold lty. cbn [lvall]. eapply vall_impl; [|exact Hv]. intros i [].
      - eapply bsim3_conseq; [|apply bsim3_lunscoped_get]. intros a b n1 ks1 _ _ [-> Hv]. split; [reflexivity|]. unfold vty in Hv. rewrite Hf in Hv. exact Hv.
      - contradiction.
      - destruct Hf as [Hok Hargs]. eapply bsim3_bind; [apply bsim3_mapM_same; [apply PLV3_mono|]; intros x n1 ks1 _ _ Hin; apply IH; eapply All_In; eauto|].
        intros vs vs' n1 ks1 _ _ Hvs. apply PL_PLV3 in Hvs. destruct Hvs as [-> Hall]. apply bsim3_ret. intros n2 ks2 Hn2 Hk2. split; [reflexivity|].
        unfold lty. rewrite lvall_call. split; [exact Hok|]. eapply Forall_impl; [|exact Hall]. intros a0. apply lty_mono; assumption.
      - destruct (nth_error (ll_caps le) (N.to_nat i)); [|apply bsim3_fail]. apply bsim3_ret. intros. split; [reflexivity|exact I].
    Qed.
    Lemma bsim3_leager fuel le e n ks : lexpr' e -> bsim3 n ks PV3 (leager t fl glob call fuel le e) (leager t fl glob call fuel le e).
    Proof. intros Hf. unfold leager. eapply bsim3_bind; [apply bsim3_leval, Hf|]. intros lv lv' n1 ks1 _ _ [-> Hlv]. apply bsim3_eval_lv, Hlv. Qed.

    Lemma PL_PMV3 vs vs' n ks : PL3 PMV3 vs vs' n ks -> vs' = map lr vs /\ Forall (mty2 n ks) vs.
    Proof. unfold PL3. induction 1 as [|v w vs vs' [H1 H2] _ [IH1 IH2]]; [split; [reflexivity|constructor]|]. subst. split; [reflexivity|constructor; assumption]. Qed.
    Lemma bsim3_teval : forall fuel le e n ks, texpr' e -> bsim3 n ks PMV3 (leval' fuel le e) (leval' fuel le e).
    Proof.
      induction fuel as [|fuel IH]; intros le e n ks Hm; [apply bsim3_oof|].
      assert (Hloc : lexpr' e -> bsim3 n ks PMV3 (leval' (S fuel) le e) (leval' (S fuel) le e)).
      { intros Hf. eapply bsim3_conseq; [|apply bsim3_leval, Hf]. intros a b n1 ks1 _ _ [-> Hl]. split; [reflexivity|apply lty_mty2, Hl]. }
      destruct e; cbn [texpr] in Hm; destruct Hm as [Hf|Hm]; try (apply Hloc, Hf); try contradiction.
      - cbn [leval]. eapply bsim3_bind; [apply bsim3_mapM_same; [apply PMV3_mono|]; intros x n1 ks1 _ _ Hin; apply IH; eapply All_In; eauto|].
        intros vs vs' n1 ks1 _ _ Hvs. apply PL_PMV3 in Hvs. destruct Hvs as [-> Hall]. apply bsim3_ret. intros n2 ks2 Hn2 Hk2. split; [reflexivity|].
        unfold mty2. cbn [mvall2]. right. apply mvall2_all. eapply Forall_impl; [|exact Hall]. intros lv. apply mty2_mono; assumption.
      - cbn [leval]. eapply bsim3_conseq; [|apply bsim3_lunscoped_get]. intros a b n1 ks1 _ _ [-> Hv]. split; [reflexivity|eapply vty_mty2; eauto].
      - cbn [leval]. eapply bsim3_bind; [apply IH, Hm|]. intros sv sv' n1 ks1 _ _ [-> Hsv].
        apply bsim3_ret. intros n2 ks2 Hn2 Hk2. split; [reflexivity|]. unfold mty2. cbn [mvall2]. right. eapply mty2_mono; eauto.
    Qed.

    (* ---- conditions, attributes ---- *)
    Lemma bsim3_ltest_cond fuel le c n ks : lcond okfn tnt qm c -> bsim3 n ks (@PE3 bool) (ltest_cond t fl glob call fuel le c) (ltest_cond t fl glob call fuel le c).
    Proof.
      intros Hc. destruct c; cbn [ltest_cond lcond] in *; (eapply bsim3_bind; [apply bsim3_leager, Hc|]); intros v v' n1 ks1 _ _ [-> Hv].
      - apply bsim3_ret. intros. destruct v; reflexivity.
      - apply bsim3_ret. intros. destruct v; reflexivity.
      - apply bsim3_lift2. destruct v; cbn [vren as_bool]; try reflexivity. eexists. split; [reflexivity|]. intros; reflexivity.
    Qed.

    Hypothesis Hsh : Forall (fun sh => All (lattr okfn tnt qm) (sh_attrs sh)) (f_shorthands fl).
    Definition PAT3 : list (ident * lvalue) -> list (ident * lvalue) -> N -> list bool -> Prop :=
      fun a b n ks => b = map (atren sg sl) a /\ Forall (fun x : ident * lvalue => mty2 n ks (snd x)) a.
    Lemma PAT3_mono : pmono3 PAT3.
    Proof. intros a b n m n' m' Hn Hm [H1 H2]. split; [exact H1|]. eapply Forall_impl; [|exact H2]. intros x. apply mty2_mono; assumption. Qed.
    Lemma PL_PAT3 outs outs' n ks : PL3 PAT3 outs outs' n ks -> PAT3 (concat outs) (concat outs') n ks.
    Proof.
      unfold PL3. induction 1 as [|a b outs outs' [H1 H2] _ [IH1 IH2]]; cbn [concat]; [split; [reflexivity|constructor]|]. subst.
      split; [rewrite map_app, IH1; reflexivity|]. apply Forall_app. split; assumption.
    Qed.
    Notation lexec_attr' := (lexec_attr t fl glob call).
    Lemma bsim3_lexec_lattr : forall fuel le a n ks, lattr okfn tnt qm a -> bsim3 n ks PAT3 (lexec_attr' fuel le a) (lexec_attr' fuel le a).
    Proof.
      induction fuel as [|fuel IH]; intros le a n ks Ha; [apply bsim3_oof|]. destruct a as [name value]. cbn [lexec_attr lattr] in *.
      eapply bsim3_seq; [apply bsim3_poll|]. intros n1 ks1 _ _. eapply bsim3_bind; [apply bsim3_leval, Ha|]. intros v v' n2 ks2 _ _ [-> Hv].
      destruct (find_shorthand name (f_shorthands fl)) as [sh|] eqn:Ef.
      2:{ apply bsim3_ret. intros n3 ks3 Hn3 Hk3. split; [reflexivity|]. constructor; [|constructor]. cbn [snd]. apply lty_mty2. eapply lty_mono; eauto. }
      apply bsim3_get. intros s1 s2 k HR Hn Hk. destruct HR as (_ & _ & [HL1 HL2] & _). rewrite HL1.
      eapply bsim3_seq; [apply bsim3_set_llocals; split; [reflexivity|constructor; [constructor|constructor]]|]. intros n3 ks3 Hn3 Hk3.
      eapply bsim3_seq; [apply bsim3_lunscoped_add; apply vty_lty; eapply lty_mono; [| |exact Hv]; [lia|eapply prefix_trans; eauto]|]. intros n4 ks4 Hn4 Hk4.
      eapply bsim3_bind.
      - apply bsim3_mapM_same; [apply PAT3_mono|]. intros a n5 ks5 _ _ Hin. apply IH.
        pose proof (find_shorthand_In _ _ _ Ef) as Hin'. rewrite Forall_forall in Hsh. eapply All_In; [apply (Hsh sh Hin')|exact Hin].
      - intros outs outs' n5 ks5 Hn5 Hk5 Houts. apply PL_PAT3 in Houts.
        eapply bsim3_seq; [apply bsim3_set_llocals; split; [reflexivity|]; eapply Forall_impl; [|exact HL2]; intros f0 Hf0; eapply Forall_impl; [|exact Hf0]; intros e0; apply ent_ok_mono; [lia|eapply prefix_trans; [exact Hk3|eapply prefix_trans; eauto]]|].
        intros n6 ks6 Hn6 Hk6. apply bsim3_ret. intros n7 ks7 Hn7 Hk7. eapply PAT3_mono; [| |exact Houts]; [lia|eapply prefix_trans; eauto].
    Qed.
    Lemma bsim3_lexec_tattr fuel le a n ks : tattr fl okfn tnt qm a -> bsim3 n ks PAT3 (lexec_attr' fuel le a) (lexec_attr' fuel le a).
    Proof.
      destruct a as [name e]. cbn [tattr]. intros [Hf|[Hm Hns]]; [apply (bsim3_lexec_lattr fuel le (Attr name e)), Hf|].
      destruct fuel as [|fuel]; [apply bsim3_oof|]. cbn [lexec_attr]. eapply bsim3_seq; [apply bsim3_poll|]. intros n1 ks1 _ _.
      eapply bsim3_bind; [apply bsim3_teval, Hm|]. intros v v' n2 ks2 _ _ [-> Hv]. rewrite Hns.
      apply bsim3_ret. intros n3 ks3 Hn3 Hk3. split; [reflexivity|]. constructor; [|constructor]. cbn [snd]. eapply mty2_mono; eauto.
    Qed.
    Lemma bsim3_lexec_tattrs fuel le attrs n ks : All (tattr fl okfn tnt qm) attrs ->
      bsim3 n ks (fun a b n ks => PAT3 (concat a) (concat b) n ks) (mapM (lexec_attr' fuel le) attrs) (mapM (lexec_attr' fuel le) attrs).
    Proof.
      intros Ha. eapply bsim3_conseq; [|apply bsim3_mapM_same; [apply PAT3_mono|]; intros a n1 ks1 _ _ Hin; apply bsim3_lexec_tattr; eapply All_In; eauto].
      intros a b n1 ks1 _ _ H. apply PL_PAT3, H.
    Qed.

    (* ---- definitions of variables ---- *)
    Lemma bsim3_capture fuel le sc n ks : is_capture sc ->
      bsim3 n ks (fun a b _ _ => b = a /\ exists v, a = LValue v /\ vall noid v) (leval' fuel le sc) (leval' fuel le sc).
    Proof.
      intros Hc. destruct sc; try contradiction. destruct fuel as [|fuel]; [apply bsim3_oof|]. cbn [leval].
      eapply bsim3_bind; [apply (bsim3_lift2 _ _ n ks (fun a b _ _ => b = a /\ vall noid a))|].
      - destruct (from_nodes (nodes_for_capture (ll_match le) file_idx) q) as [v|e|x|] eqn:Ef; try reflexivity.
        exists v. split; [reflexivity|]. intros. split; [reflexivity|]. eapply from_nodes_noid3; eauto.
      - intros v v' n1 ks1 _ _ [-> Hv]. apply bsim3_ret. intros. split; [reflexivity|eauto].
    Qed.
    (* the value x is typed as the variable demands *)
    Definition xty (v : variable) (n : N) (ks : list bool) (x : lvalue) : Prop :=
      match v with VarU name _ => vty name n ks x | VarS sc _ _ => is_capture sc /\ mty2 n ks x end.
    Lemma bsim3_lvar_add fuel le v x mu n ks : xty v n ks x ->
      bsim3 n ks (@PU3 unit unit) (lvar_add t fl glob call fuel le v x mu) (lvar_add t fl glob call fuel le v (lr x) mu).
    Proof.
      intros Hx. destruct v as [name l|sc name l]; cbn [xty lvar_add] in *; [apply bsim3_lunscoped_add, Hx|].
      destruct mu; [apply bsim3_fail|]. destruct Hx as [Hcap Hx]. eapply bsim3_bind; [apply bsim3_capture, Hcap|]. intros sv sv' n1 ks1 Hn1 Hk1 (-> & v0 & -> & Hv0).
      eapply bsim3_bind; [apply (bsim3_store_add false); eapply mty2_mono; eauto|]. intros var var' n2 ks2 _ _ (loc & -> & -> & HA & _).
      apply bsim3_scoped_add; assumption.
    Qed.
    Lemma bsim3_lvar_set fuel le v x n ks : fvar v -> xty v n ks x ->
      bsim3 n ks (@PU3 unit unit) (lvar_set glob fuel le v x) (lvar_set glob fuel le v (lr x)).
    Proof. intros Hv Hx. destruct v; cbn [lvar_set xty fvar] in *; [apply bsim3_lunscoped_set, Hx|contradiction]. Qed.
    Lemma tassign_leval fuel le v e n ks : tassign okfn tnt qm v e ->
      bsim3 n ks (fun a b n1 ks1 => b = lr a /\ xty v n1 ks1 a) (leval' fuel le e) (leval' fuel le e).
    Proof.
      destruct v as [name l|sc name l]; cbn [tassign xty].
      - unfold vty. destruct (tnt name); intros He; [apply bsim3_teval, He|apply bsim3_leval, He].
      - intros [Hcap He]. eapply bsim3_conseq; [|apply bsim3_teval, He]. intros a b n1 ks1 _ _ [-> H]. split; [reflexivity|]. split; assumption.
    Qed.

    (* ---- loops ---- *)
    Lemma bsim3_lpoll_n k l n ks : bsim3 n ks (@PU3 unit unit) (lpoll_n k l) (lpoll_n k l).
    Proof. revert n ks. induction k as [|k IH]; intros n ks; cbn [lpoll_n]; [apply bsim3_ret; intros; exact I|]. eapply bsim3_seq; [apply bsim3_poll|]. intros. apply IH. Qed.
    Lemma bsim3_lscan_loop (run1 run2 : list str -> list stmt -> M lstate unit) arms rs subject :
      (forall caps r body l n ks, In (r, body, l) arms -> bsim3 n ks (@PU3 unit unit) (run1 caps body) (run2 caps body)) ->
      forall sfuel i n ks, bsim3 n ks (@PU3 unit unit) (lscan_loop find run1 arms rs subject sfuel i) (lscan_loop find run2 arms rs subject sfuel i).
    Proof.
      intros Hrun. induction sfuel as [|sfuel IHs]; intros i n ks; cbn [lscan_loop]; [apply bsim3_oof|].
      destruct (N.ltb i (N.of_nat (length subject))); [|apply bsim3_ret; intros; exact I]. cbv zeta.
      eapply bsim3_seq; [apply bsim3_lpoll_n|]. intros n1 ks1 _ _.
      destruct (arm_select find rs (skipn (N.to_nat i) subject)) as [|k|k caps]; [apply bsim3_ret; intros; exact I|apply bsim3_fail|].
      destruct (nth_error arms (N.to_nat k)) as [[[r body] l']|] eqn:En; [|apply bsim3_panic].
      eapply bsim3_seq; [apply bsim3_lpush_frame|]. intros n2 ks2 _ _. eapply bsim3_seq; [eapply Hrun, nth_error_In, En|]. intros n3 ks3 _ _.
      eapply bsim3_seq; [apply bsim3_lpop_frame|]. intros n4 ks4 _ _. apply IHs.
    Qed.
    Lemma bsim3_lif_loop (test : cond -> M lstate bool) (run1 run2 : list stmt -> M lstate unit) :
      forall arms, (forall c conds body l n ks, In (conds, body, l) arms -> In c conds -> bsim3 n ks (@PE3 bool) (test c) (test c)) ->
      (forall conds body l n ks, In (conds, body, l) arms -> bsim3 n ks (@PU3 unit unit) (run1 body) (run2 body)) ->
      forall n ks, bsim3 n ks (@PU3 unit unit) (lif_loop test run1 arms) (lif_loop test run2 arms).
    Proof.
      induction arms as [|[[conds body] l'] arms IHa]; intros Ht Hr n ks; cbn [lif_loop]; [apply bsim3_ret; intros; exact I|].
      eapply bsim3_bind; [apply bsim3_mapM_same; [apply PE3_mono|]; intros c n1 ks1 _ _ Hin; eapply Ht; [left; reflexivity|exact Hin]|].
      intros bs bs' n1 ks1 _ _ Hbs. assert (bs' = bs) as -> by (clear -Hbs; unfold PL3, PE3 in Hbs; induction Hbs; congruence).
      destruct (forallb (fun b => b) bs).
      - eapply bsim3_seq; [apply bsim3_lpush_frame|]. intros n2 ks2 _ _. eapply bsim3_seq; [eapply Hr; left; reflexivity|]. intros n3 ks3 _ _. apply bsim3_lpop_frame.
      - apply IHa; [intros c conds0 body0 l0 n2 ks2 Hin; eapply Ht; right; exact Hin|intros conds0 body0 l0 n2 ks2 Hin; eapply Hr; right; exact Hin].
    Qed.

    (* ---- statements ---- *)
    Notation tstmt' := (tstmt fl okfn tnt qm).
    Notation lexec_stmt' := (lexec_stmt t fl cfg glob regexes find call).
    Definition PMOL3 : option lvalue -> option lvalue -> N -> list bool -> Prop :=
      fun a b n ks => b = option_map lr a /\ match a with Some lv => mty2 n ks lv | None => True end.
    Lemma PMOL3_mono : pmono3 PMOL3.
    Proof. intros a b n m n' m' Hn Hm [H1 H2]. split; [exact H1|]. destruct a; [eapply mty2_mono; eauto|exact I]. Qed.
    Lemma PL_PMOL3 l l' n ks : PL3 PMOL3 l l' n ks -> l' = map (option_map lr) l /\ Forall (fun o => match o with Some lv => mty2 n ks lv | None => True end) l.
    Proof. unfold PL3. induction 1 as [|a b l l' [H1 H2] _ [IH1 IH2]]; [split; [reflexivity|constructor]|]. subst. split; [reflexivity|constructor; assumption]. Qed.

    Lemma bsim3_lexec_stmt : forall fuel le s n ks, tstmt' s -> bsim3 n ks (@PU3 unit unit) (lexec_stmt' fuel le s) (lexec_stmt' fuel le s).
    Proof.
      induction fuel as [|fuel IH]; intros le s n ks Hs; [apply bsim3_oof|].
      assert (Hblock : forall le' body n1 ks1, All tstmt' body ->
                 bsim3 n1 ks1 (@PU3 unit unit) (iterM (fun st => lexec_stmt' fuel (ll_with_ctx le' (ctx_update (ll_ctx le') st)) st) body)
                      (iterM (fun st => lexec_stmt' fuel (ll_with_ctx le' (ctx_update (ll_ctx le') st)) st) body)).
      { intros le' body n1 ks1 Hb. apply bsim3_iterM_same. intros st n2 ks2 _ _ Hin. apply IH. eapply All_In; eauto. }
      assert (Harm : forall le' body n1 ks1, All tstmt' body ->
                 bsim3 n1 ks1 (@PU3 unit unit)
                      (iterM (fun st => let c := ctx_update (ll_ctx le') st in
                                        ctx_wrap (CtxStmts [c]) (ctx_wrap CtxOther (lexec_stmt' fuel (ll_with_ctx le' c) st))) body)
                      (iterM (fun st => let c := ctx_update (ll_ctx le') st in
                                        ctx_wrap (CtxStmts [c]) (ctx_wrap CtxOther (lexec_stmt' fuel (ll_with_ctx le' c) st))) body)).
      { intros le' body n1 ks1 Hb. apply bsim3_iterM_same. intros st n2 ks2 _ _ Hin. cbv zeta. apply bsim3_ctx, bsim3_ctx. apply IH. eapply All_In; eauto. }
      destruct s; cbn [lexec_stmt]; cbn [tstmt] in Hs; (eapply bsim3_seq; [apply bsim3_poll|intros n1 ks1 _ _]).
      - eapply bsim3_bind; [apply tassign_leval, Hs|]. intros x x' n2 ks2 _ _ [-> Hx]. apply bsim3_lvar_add, Hx.
      - destruct Hs as [Hv He]. eapply bsim3_bind; [apply tassign_leval, He|]. intros x x' n2 ks2 _ _ [-> Hx]. apply bsim3_lvar_add, Hx.
      - destruct Hs as [Hv He]. eapply bsim3_bind; [apply tassign_leval, He|]. intros x x' n2 ks2 _ _ [-> Hx]. apply bsim3_lvar_set; assumption.
      - eapply bsim3_bind; [apply bsim3_ladd_node|]. intros a a' n2 ks2 _ _ (-> & Ha1 & Ha2).
        eapply bsim3_seq; [apply bsim3_lopt_node_attr; [exact Ha1|exact Ha2|exact I]|]. intros n3 ks3 Hn3 _.
        eapply bsim3_seq; [apply bsim3_lopt_node_attr; [exact Ha1|lia|exact I]|]. intros n4 ks4 Hn4 _.
        apply (bsim3_seq unit unit unit unit n4 ks4 (@PU3 unit unit) (@PU3 unit unit)).
        + destruct (c_match_attr cfg) as [k|]; [|apply bsim3_ret; intros; exact I].
          eapply bsim3_bind; [apply bsim3_lfull_match_node|]. intros mn mn' n5 ks5 Hn5 _ <-. apply bsim3_ladd_node_attr; [exact Ha1|lia|exact I].
        + intros n5 ks5 Hn5 _. apply (bsim3_lvar_add fuel le v (LValue (VGraph a)) false n5 ks5).
          assert (Hl : lty n5 ks5 (LValue (VGraph a))) by (unfold lty; cbn [lvall vall]; right; lia).
          destruct v as [name l0|sc name l0]; cbn [xty]; [apply vty_lty, Hl|split; [exact Hs|apply lty_mty2, Hl]].
      - destruct Hs as [Hn Ha]. eapply bsim3_bind; [apply bsim3_teval, Hn|]. intros nv nv' n2 ks2 _ _ [-> Hnv].
        eapply bsim3_bind; [apply bsim3_lexec_tattrs, Ha|]. intros outs outs' n3 ks3 Hn3 Hk3 [Ho1 Ho2]. cbv beta in Ho1. rewrite Ho1.
        apply (bsim3_push_lstmt n3 ks3 (LSAttrNode nv (concat outs) (ll_ctx le))). unfold sty. cbn [ms2all]. split; [eapply mty2_mono; eauto|exact Ho2].
      - destruct Hs as [Ha Hb]. eapply bsim3_bind; [apply bsim3_teval, Ha|]. intros a a' n2 ks2 _ _ [-> Hla].
        eapply bsim3_bind; [apply bsim3_teval, Hb|]. intros b b' n3 ks3 Hn3 Hk3 [-> Hlb]. cbv zeta.
        apply (bsim3_push_lstmt n3 ks3 (LSEdge a b _ (ll_ctx le))). unfold sty. cbn [ms2all]. split; [eapply mty2_mono; eauto|]. split; [exact Hlb|apply Hea].
      - destruct Hs as (Ha & Hb & Hat). eapply bsim3_bind; [apply bsim3_teval, Ha|]. intros a a' n2 ks2 _ _ [-> Hla].
        eapply bsim3_bind; [apply bsim3_teval, Hb|]. intros b b' n3 ks3 Hn3 Hk3 [-> Hlb].
        eapply bsim3_bind; [apply bsim3_lexec_tattrs, Hat|]. intros outs outs' n4 ks4 Hn4 Hk4 [Ho1 Ho2]. cbv beta in Ho1. rewrite Ho1.
        apply (bsim3_push_lstmt n4 ks4 (LSAttrEdge a b (concat outs) (ll_ctx le))). unfold sty. cbn [ms2all].
        split; [eapply mty2_mono; [| |exact Hla]; [lia|eapply prefix_trans; eauto]|]. split; [eapply mty2_mono; eauto|exact Ho2].
      - destruct Hs as [Hv Harms]. eapply bsim3_bind; [apply bsim3_leager, Hv|]. intros sv sv' n2 ks2 _ _ [-> Hsv]. rewrite as_str_vr.
        eapply bsim3_bind; [apply bsim3_lift|]. intros subject subject' n3 ks3 _ _ <-.
        destruct (arm_table regexes arms) as [rs|]; [|apply bsim3_panic].
        apply bsim3_lscan_loop. intros caps r body l' n4 ks4 Hin. apply (Harm (ll_with_caps le caps) body). apply (All_In _ _ _ Harms Hin).
      - eapply bsim3_bind.
        + apply (bsim3_mapM_same _ _ _ n1 ks1 PMOL3); [apply PMOL3_mono|]. intros e n2 ks2 _ _ Hin. pose proof (All_In _ _ _ Hs Hin) as He.
          assert (Hgen : bsim3 n2 ks2 PMOL3 (lv <- leval t fl glob call fuel le e ;; ret (Some lv)) (lv <- leval t fl glob call fuel le e ;; ret (Some lv))).
          { eapply bsim3_bind; [apply bsim3_teval, He|]. intros lv lv' n3 ks3 _ _ [-> Hlv]. apply bsim3_ret. intros n4 ks4 Hn4 Hk4. split; [reflexivity|]. eapply mty2_mono; eauto. }
          destruct e; try exact Hgen. apply bsim3_ret. intros. split; [reflexivity|exact I].
        + intros args args' n2 ks2 _ _ Hargs. apply PL_PMOL3 in Hargs. destruct Hargs as [-> Hall].
          apply (bsim3_push_lstmt n2 ks2 (LSPrint args (ll_ctx le))). exact Hall.
      - apply bsim3_lif_loop.
        + intros c conds body l' n2 ks2 Hin Hc. apply bsim3_ltest_cond. pose proof (All_In _ _ _ Hs Hin) as [Hcs _]. apply (All_In _ _ _ Hcs Hc).
        + intros conds body l' n2 ks2 Hin. apply Hblock. pose proof (All_In _ _ _ Hs Hin) as [_ Hb]. exact Hb.
      - destruct Hs as [Hv Hbody]. eapply bsim3_bind; [apply bsim3_leager, Hv|]. intros lv lv' n2 ks2 _ _ [-> Hlv].
        eapply bsim3_bind; [apply bsim3_as_list, Hlv|]. intros vals vals' n3 ks3 _ _ [-> Hvals].
        eapply bsim3_seq; [apply bsim3_lpush_frame|]. intros n4 ks4 Hn4 _. eapply bsim3_seq; [|intros; apply bsim3_lpop_frame].
        apply (bsim3_iterM _ _ n4 ks4 _ _ PV3 vals (map vr vals) PV3_mono).
        + intros v w n5 ks5 _ _ _ [-> Hv']. eapply bsim3_seq; [apply bsim3_lclear_frame|]. intros n6 ks6 Hn6 _.
          eapply bsim3_seq; [apply (bsim3_lunscoped_add n6 ks6 le var (LValue v) false); apply vty_lty; unfold lty; cbn [lvall]; eapply vall_mono3; [exact Hn6|exact Hv']|].
          intros n7 ks7 _ _. apply Hblock, Hbody.
        + apply Forall_PV3. eapply valls_mono3; [exact Hn4|exact Hvals].
    Qed.

    Lemma bsim3_lexec_stanza fuel st n ks : All tstmt' (st_stmts st) ->
      bsim3 n ks (@PU3 unit unit) (lexec_stanza t fl cfg glob regexes find call fuel st qm) (lexec_stanza t fl cfg glob regexes find call fuel st qm).
    Proof.
      intros Hst. unfold lexec_stanza. eapply bsim3_seq; [apply bsim3_poll|]. intros n1 ks1 _ _. eapply bsim3_seq; [apply bsim3_lclear_frame|]. intros n2 ks2 _ _.
      cbv zeta. destruct (nodes_for_capture qm (st_full_file_idx st)) as [|nd ns]; [apply bsim3_panic|].
      apply bsim3_iterM_same. intros s n3 ks3 _ _ Hin. apply bsim3_ctx. apply bsim3_lexec_stmt. eapply All_In; eauto.
    Qed.
  End Interp3.
End Shift3.
